/-
  Line-protocol driver: one command per input line, one output line per command.
  Every model module exposes `cmd : List String → Option String`; the first that
  recognises the command answers.  Imports Model/* and Gen/* only (no Mathlib), so it
  can be a compiled `lean_exe`.
-/
import GHEVerif.Model.Py
import GHEVerif.Model.TimeConv
open GHEVerif

def handlers : List (List String → Option String) :=
  [ TimeConv.cmd ]

def step (line : String) : String :=
  let toks := (line.trimAscii.toString.splitOn " ").filter (· ≠ "")
  match toks with
  | ["ping"] => "pong"
  | _ => (handlers.findSome? (fun h => h toks)).getD "bad-op"

partial def loop (h : IO.FS.Stream) (out : IO.FS.Stream) : IO Unit := do
  let line ← h.getLine
  if line.isEmpty then return ()
  out.putStrLn (step line)
  loop h out

def main : IO Unit := do
  let out ← IO.getStdout
  loop (← IO.getStdin) out
  out.flush
