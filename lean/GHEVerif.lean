-- Root of the `GHEVerif` library: import every model, generated, lemma and property module.
import GHEVerif.Model.Py
import GHEVerif.Gen.Tables
import GHEVerif.Gen.Funcs
import GHEVerif.Model.TimeConv
import GHEVerif.Lemmas.TimeConv
import GHEVerif.Props.C19
