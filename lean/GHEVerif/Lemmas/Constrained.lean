/- Helper lemmas for C04: stable sort, `remove_cutout`, the cut-and-reorder pipeline of
   `polygonal_land_constraint`, the bounding rectangle. -/
import GHEVerif.Model.Constrained
import GHEVerif.Lemmas.Polygon
import GHEVerif.Lemmas.Domains

namespace GHEVerif.Constrained
open GHEVerif GHEVerif.Coords GHEVerif.Domains GHEVerif.Polygon

/-! ### the stable sort -/

section sort
variable {α : Type} (key : α → Nat)

theorem insertByKey_perm (a : α) (l : List α) : (insertByKey key a l).Perm (a :: l) := by
  induction l with
  | nil => exact List.Perm.refl _
  | cons b bs ih =>
    unfold insertByKey
    split
    · exact (List.Perm.cons b ih).trans (List.Perm.swap a b bs)
    · exact List.Perm.refl _

theorem stableSort_perm (l : List α) : (stableSort key l).Perm l := by
  induction l with
  | nil => exact List.Perm.refl _
  | cons a l ih =>
    unfold stableSort
    exact (insertByKey_perm key a _).trans (List.Perm.cons a ih)

theorem mem_stableSort {x : α} {l : List α} : x ∈ stableSort key l ↔ x ∈ l :=
  (stableSort_perm key l).mem_iff

theorem length_stableSort (l : List α) : (stableSort key l).length = l.length :=
  (stableSort_perm key l).length_eq

theorem insertByKey_sorted (a : α) (l : List α) (h : l.Pairwise (fun x y => key x ≤ key y)) :
    (insertByKey key a l).Pairwise (fun x y => key x ≤ key y) := by
  induction l with
  | nil => simp [insertByKey]
  | cons b bs ih =>
    rw [List.pairwise_cons] at h
    unfold insertByKey
    split
    · rename_i hlt
      rw [List.pairwise_cons]
      refine ⟨?_, ih h.2⟩
      intro y hy
      rw [(insertByKey_perm key a bs).mem_iff, List.mem_cons] at hy
      rcases hy with rfl | hy
      · omega
      · exact h.1 y hy
    · rename_i hge
      rw [List.pairwise_cons]
      refine ⟨?_, List.pairwise_cons.mpr h⟩
      intro y hy
      rw [List.mem_cons] at hy
      rcases hy with rfl | hy
      · omega
      · have := h.1 y hy; omega

theorem stableSort_sorted (l : List α) : (stableSort key l).Pairwise (fun x y => key x ≤ key y) := by
  induction l with
  | nil => simp [stableSort]
  | cons a l ih => unfold stableSort; exact insertByKey_sorted key a _ ih

/-- Stability: the elements of any one key keep their input order. -/
theorem insertByKey_filter (a : α) (l : List α) (k : Nat) :
    (insertByKey key a l).filter (fun x => key x = k) =
      (a :: l).filter (fun x => key x = k) := by
  induction l with
  | nil => simp [insertByKey]
  | cons b bs ih =>
    unfold insertByKey
    split
    · rename_i hlt
      rw [List.filter_cons, ih]
      by_cases hb : key b = k
      · have ha : ¬ key a = k := by omega
        simp [hb, ha]
      · simp [List.filter_cons, hb]
    · rfl

theorem stableSort_filter (l : List α) (k : Nat) :
    (stableSort key l).filter (fun x => key x = k) = l.filter (fun x => key x = k) := by
  induction l with
  | nil => simp [stableSort]
  | cons a l ih =>
    unfold stableSort
    rw [insertByKey_filter, List.filter_cons, List.filter_cons, ih]

/-- An input that is already sorted is returned unchanged. -/
theorem stableSort_of_sorted (l : List α) (h : l.Pairwise (fun x y => key x ≤ key y)) :
    stableSort key l = l := by
  induction l with
  | nil => rfl
  | cons a l ih =>
    rw [List.pairwise_cons] at h
    unfold stableSort
    rw [ih h.2]
    cases l with
    | nil => rfl
    | cons b bs =>
      unfold insertByKey
      have := h.1 b (by simp)
      rw [if_neg (by omega)]

end sort

/-! ### remove_cutout -/

theorem mem_results {tol : Rat} {polys : List Poly} {p : Point} {v : Int} :
    (results tol polys p).contains v = true ↔ ∃ b ∈ polys, classify tol b p = v := by
  simp only [results, List.contains_iff_mem, List.mem_map]

/-- `remove_inside=False`: kept ⇔ inside one of the outlines, or on an edge band when the
    contour is kept. -/
theorem keepPoint_keep_iff (kc : Bool) (tol : Rat) (polys : List Poly) (p : Point) :
    keepPoint false kc tol polys p = true ↔
      (∃ b ∈ polys, classify tol b p = 1) ∨ (kc = true ∧ ∃ b ∈ polys, classify tol b p = 0) := by
  unfold keepPoint
  simp only [Bool.false_eq_true, if_false, Gen.rcKeepIfKeepInside, Bool.or_eq_true, Bool.and_eq_true,
    mem_results, Gen.rcInside, Gen.rcOnEdge]
  rw [and_comm]

/-- `remove_inside=True`: kept ⇔ inside none of the outlines, and on no edge band unless the
    contour is kept. -/
theorem keepPoint_remove_iff (kc : Bool) (tol : Rat) (polys : List Poly) (p : Point) :
    keepPoint true kc tol polys p = true ↔
      (∀ b ∈ polys, classify tol b p ≠ 1) ∧ (kc = true ∨ ∀ b ∈ polys, classify tol b p ≠ 0) := by
  unfold keepPoint
  simp only [if_true, Gen.rcKeepIfRemoveInside, Bool.and_eq_true, Bool.not_eq_eq_eq_not,
    Bool.not_true, Bool.and_eq_false_imp, Gen.rcInside, Gen.rcOnEdge]
  have e1 : (results tol polys p).contains 1 = false ↔ ∀ b ∈ polys, classify tol b p ≠ 1 := by
    rw [← Bool.not_eq_true, mem_results]; push Not; rfl
  have e0 : (results tol polys p).contains 0 = true ↔ ∃ b ∈ polys, classify tol b p = 0 := mem_results
  rw [e1, e0]
  constructor
  · rintro ⟨h1, h2⟩
    refine ⟨h1, ?_⟩
    by_cases hk : kc = true
    · exact Or.inl hk
    · right
      intro b hb h0
      exact hk (h2 ⟨b, hb, h0⟩)
  · rintro ⟨h1, h2⟩
    refine ⟨h1, ?_⟩
    rintro ⟨b, hb, h0⟩
    rcases h2 with h | h
    · exact h
    · exact absurd h0 (h b hb)

theorem wrapBounds_many {ps qs : List Poly} (h : wrapBounds (.many ps) = .ok qs) : qs = ps := by
  match ps, h with
  | (v :: vs) :: rest, h => simp only [wrapBounds] at h; cases h; rfl

theorem wrapBounds_single {p : Poly} {qs : List Poly} (h : wrapBounds (.single p) = .ok qs) : qs = [p] := by
  match p, h with
  | v :: vs, h => simp only [wrapBounds] at h; cases h; rfl

/-- The polygons a boundary argument stands for once `remove_cutout` accepted it. -/
def Bounds.polys : Bounds → List Poly
  | .single p => [p]
  | .many ps => ps

theorem wrapBounds_ok {b : Bounds} {qs : List Poly} (h : wrapBounds b = .ok qs) : qs = b.polys := by
  cases b with
  | single p => exact wrapBounds_single h
  | many ps => exact wrapBounds_many h

/-- `remove_cutout` is a filter (order and multiplicity preserved); it raises only on `[]` /
    `[[], …]`. -/
theorem removeCutout_ok {coords out : Field} {b : Bounds} {ri kc : Bool} {tol : Rat}
    (h : removeCutout coords b ri kc tol = .ok out) :
    out = coords.filter (keepPoint ri kc tol b.polys) := by
  unfold removeCutout at h
  cases hw : wrapBounds b with
  | error e => rw [hw] at h; cases h
  | ok qs =>
    rw [hw] at h
    cases wrapBounds_ok hw
    cases h; rfl

/-! ### the two cut-outs of `polygonal_land_constraint` with the default `keep_contour` -/

theorem classify_range' (tol : Rat) (poly : List Pt) (p : Pt) :
    classify tol poly p = -1 ∨ classify tol poly p = 0 ∨ classify tol poly p = 1 := by
  rw [classify_eq_spec]; unfold spec
  split_ifs <;> simp

/-- The joint decision of the property cut (`remove_inside=False, keep_contour=True`) and the
    no-go cut (`remove_inside=True, keep_contour=False`). -/
def keptB (tol : Rat) (props nogos : List Poly) (p : Point) : Bool :=
  keepPoint true false tol nogos p && keepPoint false true tol props p

/-- … as a statement about `point_polygon_check`: inside (1) or on-edge (0) for at least one
    property outline, and outside (−1) for every no-go polygon. -/
def Kept (tol : Rat) (props nogos : List Poly) (p : Point) : Prop :=
  (∃ b ∈ props, classify tol b p = 1 ∨ classify tol b p = 0) ∧ (∀ b ∈ nogos, classify tol b p = -1)

theorem keptB_iff (tol : Rat) (props nogos : List Poly) (p : Point) :
    keptB tol props nogos p = true ↔ Kept tol props nogos p := by
  unfold keptB Kept
  rw [Bool.and_eq_true, keepPoint_keep_iff, keepPoint_remove_iff]
  constructor
  · rintro ⟨⟨h1, h0⟩, hp⟩
    have h0' : ∀ b ∈ nogos, classify tol b p ≠ 0 := by
      rcases h0 with h | h
      · exact absurd h (by decide)
      · exact h
    refine ⟨?_, ?_⟩
    · rcases hp with ⟨b, hb, h⟩ | ⟨_, b, hb, h⟩
      · exact ⟨b, hb, Or.inl h⟩
      · exact ⟨b, hb, Or.inr h⟩
    · intro b hb
      rcases classify_range' tol b p with h | h | h
      · exact h
      · exact absurd h (h0' b hb)
      · exact absurd h (h1 b hb)
  · rintro ⟨⟨b, hb, h⟩, hn⟩
    refine ⟨⟨?_, Or.inr ?_⟩, ?_⟩
    · intro c hc; rw [hn c hc]; decide
    · intro c hc; rw [hn c hc]; decide
    · rcases h with h | h
      · exact Or.inl ⟨b, hb, h⟩
      · exact Or.inr ⟨rfl, b, hb, h⟩

/-- One candidate field after both cuts. -/
def cutOf (tol : Rat) (props nogos : List Poly) (f : Field) : Field := f.filter (keptB tol props nogos)

/-- One candidate list after both cuts and the two `continue` statements. -/
def cutDom (tol : Rat) (props nogos : List Poly) (dom : List Field) : List Field :=
  (dom.map (cutOf tol props nogos)).filter (fun g => decide (g ≠ []))

theorem classify_nil (tol : Rat) (p : Point) : classify tol [] p = -1 := by
  simp [classify, edges, rayLoop, Gen.ppcInitInside, Gen.ppcRetIfInside]

/-- When `len(no_go_boundaries) == 0` the no-go call is skipped; the filter it would apply keeps
    everything anyway. -/
theorem keepPoint_nogo_empty {nogo : Bounds} (h : nogo.len = 0) (tol : Rat) (p : Point) :
    keepPoint true false tol nogo.polys p = true := by
  rw [keepPoint_remove_iff]
  cases nogo with
  | single q =>
    have : q = [] := List.eq_nil_of_length_eq_zero h
    subst this
    simp [Bounds.polys, classify_nil]
  | many ps =>
    have : ps = [] := List.eq_nil_of_length_eq_zero h
    subst this
    simp [Bounds.polys]

theorem kc_prop : pyIndex Gen.plcKeepContourDefault Gen.plcPropContourIdx = .ok true := by decide
theorem kc_nogo : pyIndex Gen.plcKeepContourDefault Gen.plcNogoContourIdx = .ok false := by decide

/-- `cutField` with the source's default `keep_contour`, whenever it does not raise. -/
theorem cutField_ok {prop nogo : Bounds} {tol : Rat} {f : Field} {r : Option Field}
    (h : cutField prop nogo Gen.plcKeepContourDefault tol f = .ok r) :
    r = if cutOf tol prop.polys nogo.polys f = [] then none else some (cutOf tol prop.polys nogo.polys f) := by
  unfold cutField at h
  rw [kc_prop] at h
  simp only [] at h
  have hri : Gen.plcPropRemoveInside = false := rfl
  have hrn : Gen.plcNogoRemoveInside = true := rfl
  rw [hri, hrn] at h
  cases h1 : removeCutout f prop false true tol with
  | error e => rw [h1] at h; cases h
  | ok new =>
    rw [h1] at h
    have e1 := removeCutout_ok h1
    simp only [] at h
    have hcut : ∀ g : Field, g = new.filter (keepPoint true false tol nogo.polys) →
        g = cutOf tol prop.polys nogo.polys f := by
      intro g hg
      rw [hg, e1, List.filter_filter]; rfl
    by_cases hz : new.length = 0
    · rw [if_pos hz] at h
      have hn : new = [] := List.eq_nil_of_length_eq_zero hz
      have : cutOf tol prop.polys nogo.polys f = [] := by
        rw [← hcut _ rfl, hn]; rfl
      rw [if_pos this]; cases h; rfl
    · rw [if_neg hz] at h
      by_cases hl : nogo.len > 0
      · rw [if_pos hl, kc_nogo] at h
        simp only [] at h
        cases h2 : removeCutout new nogo true false tol with
        | error e => rw [h2] at h; cases h
        | ok new2 =>
          rw [h2] at h
          have e2 := hcut _ (removeCutout_ok h2)
          simp only [] at h
          by_cases hz2 : new2.length = 0
          · rw [if_pos hz2] at h
            have : cutOf tol prop.polys nogo.polys f = [] := by
              rw [← e2]; exact List.eq_nil_of_length_eq_zero hz2
            rw [if_pos this]; cases h; rfl
          · rw [if_neg hz2] at h
            have : cutOf tol prop.polys nogo.polys f ≠ [] := by
              rw [← e2]; intro hh; rw [hh] at hz2; exact hz2 rfl
            rw [if_neg this, ← e2]; cases h; rfl
      · rw [if_neg hl] at h
        have hid : new.filter (keepPoint true false tol nogo.polys) = new := by
          rw [List.filter_eq_self]; intro a _; exact keepPoint_nogo_empty (by omega) tol a
        have e2 := hcut new hid.symm
        have : cutOf tol prop.polys nogo.polys f ≠ [] := by
          rw [← e2]; intro hh; rw [hh] at hz; exact hz rfl
        rw [if_neg this, ← e2]; cases h; rfl

theorem mapM_ok_forall₂ {α β : Type} (f : α → Py β) : ∀ (l : List α) (r : List β), l.mapM f = .ok r →
    List.Forall₂ (fun x y => f x = .ok y) l r := by
  intro l
  induction l with
  | nil =>
    intro r h
    have h' : (pure [] : Py (List β)) = .ok r := by simpa using h
    cases h'; exact List.Forall₂.nil
  | cons a l ih =>
    intro r h
    rw [List.mapM_cons] at h
    cases hfa : f a with
    | error e => rw [hfa] at h; cases h
    | ok y =>
      rw [hfa] at h
      cases hl : l.mapM f with
      | error e => rw [hl] at h; cases h
      | ok ys =>
        rw [hl] at h
        have : r = y :: ys := by cases h; rfl
        subst this
        exact List.Forall₂.cons hfa (ih ys hl)

theorem filterMap_cut {prop nogo : Bounds} {tol : Rat} {dom : List Field} {rs : List (Option Field)}
    (hf : List.Forall₂ (fun x y => cutField prop nogo Gen.plcKeepContourDefault tol x = .ok y) dom rs) :
    rs.filterMap id = cutDom tol prop.polys nogo.polys dom := by
  unfold cutDom
  induction hf with
  | nil => rfl
  | @cons x y xs ys hxy _ ih =>
    have hy := cutField_ok hxy
    rw [List.map_cons, List.filter_cons, List.filterMap_cons, ih]
    by_cases he : cutOf tol prop.polys nogo.polys x = []
    · rw [if_pos he] at hy
      subst hy
      simp [he]
    · rw [if_neg he] at hy
      subst hy
      simp [he]

theorem cutDomain_ok {prop nogo : Bounds} {tol : Rat} {dom l : List Field}
    (h : cutDomain prop nogo Gen.plcKeepContourDefault tol dom = .ok l) :
    l = cutDom tol prop.polys nogo.polys dom := by
  unfold cutDomain at h
  cases hm : dom.mapM (cutField prop nogo Gen.plcKeepContourDefault tol) with
  | error e => rw [hm] at h; cases h
  | ok rs =>
    rw [hm] at h
    have hf := mapM_ok_forall₂ _ _ _ hm
    have : l = rs.filterMap id := by cases h; rfl
    rw [this]
    exact filterMap_cut hf

/-! ### reorder_domain and the reorder loop -/

theorem insertByKey_map {α β : Type} (key : α → Nat) (g : β → α) (a : β) (l : List β) :
    (insertByKey (fun x => key (g x)) a l).map g = insertByKey key (g a) (l.map g) := by
  induction l with
  | nil => rfl
  | cons b bs ih =>
    simp only [insertByKey, List.map_cons]
    split
    · rw [List.map_cons, ih]
    · rfl

theorem stableSort_map {α β : Type} (key : α → Nat) (g : β → α) (l : List β) :
    (stableSort (fun x => key (g x)) l).map g = stableSort key (l.map g) := by
  induction l with
  | nil => rfl
  | cons a l ih => simp only [stableSort, List.map_cons]; rw [insertByKey_map, ih]

theorem pyIndex_natCast {α : Type} (l : List α) (n : Nat) :
    pyIndex l (n : Int) = match l[n]? with | some x => .ok x | none => .error .indexError := by
  unfold pyIndex
  have h0 : ¬ ((n : Int) < 0) := by omega
  simp only [h0, if_false, false_or, Int.toNat_natCast]
  by_cases h : n < l.length
  · have : ¬ ((l.length : Int) ≤ (n : Int)) := by omega
    rw [if_neg this, List.getElem?_eq_getElem h]
  · have : ((l.length : Int) ≤ (n : Int)) := by omega
    rw [if_pos this, List.getElem?_eq_none (by omega)]

/-- `reorder_domain` on a non-empty list of fields with at least as many descriptors: the fields
    stably sorted by size, and the descriptors that were zipped to them, in the same order. -/
theorem reorderDomain_ok {δ : Type} {d : List Field} {fd : List δ} {r : List Field × List δ}
    (h : reorderDomain d fd = .ok r) (hlen : d.length ≤ fd.length) :
    d ≠ [] ∧ r.1 = stableSort List.length d ∧
      r.2 = (stableSort (fun x => x.1.length) (List.zip d fd)).map (·.2) := by
  unfold reorderDomain at h
  have hs : (stableSort (fun (x : Field × δ) => x.1.length) (List.zip d fd)).map (·.1) = stableSort List.length d := by
    rw [stableSort_map List.length (fun (x : Field × δ) => x.1), List.map_fst_zip hlen]
  cases hz : stableSort (fun (x : Field × δ) => x.1.length) (List.zip d fd) with
  | nil =>
    rw [hz] at h; cases h
  | cons p ps =>
    rw [hz] at h
    have : r = (p :: ps).unzip := by cases h; rfl
    subst this
    refine ⟨?_, ?_, ?_⟩
    · rintro rfl
      simp [stableSort] at hz
    · rw [← hs, hz, List.unzip_eq_map]
    · rw [List.unzip_eq_map]

theorem reorderDomain_nil {δ : Type} (fd : List δ) : reorderDomain ([] : List Field) fd = .error .valueError := by
  simp [reorderDomain, stableSort]

theorem reorderAll_spec {δ : Type} (descs : List (List δ)) : ∀ (ds : List (List Field)) (idx : Nat)
    (rs : List (List Field × List δ)), reorderAll descs idx ds = .ok rs →
    List.Forall₂ (fun (dfd : List Field × List δ) r => reorderDomain dfd.1 dfd.2 = .ok r)
      (List.zip ds (descs.drop idx)) rs := by
  intro ds
  induction ds with
  | nil =>
    intro idx rs h
    simp only [reorderAll] at h
    cases h
    simp
  | cons d ds ih =>
    intro idx rs h
    simp only [reorderAll] at h
    rw [pyIndex_natCast] at h
    cases hg : descs[idx]? with
    | none => rw [hg] at h; cases h
    | some fd =>
      rw [hg] at h
      simp only [] at h
      cases hr : reorderDomain d fd with
      | error e => rw [hr] at h; cases h
      | ok r =>
        rw [hr] at h
        simp only [] at h
        cases hrest : reorderAll descs (idx + 1) ds with
        | error e => rw [hrest] at h; cases h
        | ok rs' =>
          rw [hrest] at h
          have : rs = r :: rs' := by cases h; rfl
          subst this
          have hlt : idx < descs.length := by
            by_contra hc
            rw [List.getElem?_eq_none (by omega)] at hg; cases hg
          have hdrop : descs.drop idx = fd :: descs.drop (idx + 1) := by
            rw [List.drop_eq_getElem_cons hlt]
            congr 1
            rw [List.getElem?_eq_getElem hlt] at hg
            exact Option.some.inj hg
          rw [hdrop, List.zip_cons_cons]
          exact List.Forall₂.cons hr (ih (idx + 1) rs' hrest)

/-- Everything after `bi_rectangle_nested`, with the source's default `keep_contour`: list by
    list, the cut fields (empty ones dropped) stably sorted by size, paired with the first
    descriptors of the un-cut list in zip order. -/
theorem plcCore_ok {nested : List (List Field)} {prop nogo : Bounds} {tol : Rat}
    {out : List (List Field) × List (List Nat)}
    (h : plcCore nested (positions nested) prop nogo Gen.plcKeepContourDefault tol = .ok out) :
    List.Forall₂ (fun dom od => cutDom tol prop.polys nogo.polys dom ≠ [] ∧
        od = stableSort List.length (cutDom tol prop.polys nogo.polys dom)) nested out.1 ∧
    List.Forall₂ (fun dom dd =>
        dd = (stableSort (fun (x : Field × Nat) => x.1.length)
                (List.zip (cutDom tol prop.polys nogo.polys dom) (List.range dom.length))).map (·.2)) nested out.2 := by
  unfold plcCore at h
  cases hm : nested.mapM (cutDomain prop nogo Gen.plcKeepContourDefault tol) with
  | error e => rw [hm] at h; cases h
  | ok cut =>
    rw [hm] at h
    simp only [] at h
    have hcut : cut = nested.map (cutDom tol prop.polys nogo.polys) := by
      have hf := mapM_ok_forall₂ _ _ _ hm
      clear hm h
      induction hf with
      | nil => rfl
      | cons hxy _ ih => rw [List.map_cons, ← ih, cutDomain_ok hxy]
    cases hr : reorderAll (positions nested) 0 cut with
    | error e => rw [hr] at h; cases h
    | ok rs =>
      rw [hr] at h
      have : out = (rs.map (·.1), rs.map (·.2)) := by cases h; rfl
      subst this
      have hf := reorderAll_spec _ _ _ _ hr
      rw [List.drop_zero, hcut, positions, List.zip_map', List.forall₂_map_left_iff] at hf
      have hlen : ∀ dom : List Field, (cutDom tol prop.polys nogo.polys dom).length ≤ (List.range dom.length).length := by
        intro dom
        unfold cutDom
        calc _ ≤ (dom.map (cutOf tol prop.polys nogo.polys)).length := List.length_filter_le _ _
          _ = _ := by simp
      constructor
      · rw [List.forall₂_map_right_iff]
        refine List.Forall₂.imp ?_ hf
        intro dom r hdr
        obtain ⟨a, b, _⟩ := reorderDomain_ok hdr (hlen dom)
        exact ⟨a, b⟩
      · rw [List.forall₂_map_right_iff]
        refine List.Forall₂.imp ?_ hf
        intro dom r hdr
        exact (reorderDomain_ok hdr (hlen dom)).2.2

/-! ### the bounding rectangle -/

theorem le_ratMax_left (a b : Rat) : a ≤ ratMax a b := by
  unfold ratMax; split <;> [exact le_of_lt ‹_›; exact le_refl _]
theorem le_ratMax_right (a b : Rat) : b ≤ ratMax a b := by
  unfold ratMax; split <;> [exact le_refl _; exact not_lt.mp ‹_›]
theorem ratMax_cases (a b : Rat) : ratMax a b = a ∨ ratMax a b = b := by
  unfold ratMax; split <;> simp
theorem ratMin_le_left (a b : Rat) : ratMin a b ≤ a := by
  unfold ratMin; split <;> [exact le_of_lt ‹_›; exact le_refl _]
theorem ratMin_le_right (a b : Rat) : ratMin a b ≤ b := by
  unfold ratMin; split <;> [exact le_refl _; exact not_lt.mp ‹_›]

/-- one step of the double loop of `determine_largest_rectangle` -/
def extStep (acc : Option (Rat × Rat × Rat × Rat)) (v : Point) : Option (Rat × Rat × Rat × Rat) :=
  match acc with
  | none => some (v.1, v.2, v.1, v.2)
  | some (x0, y0, x1, y1) => some (ratMin v.1 x0, ratMin v.2 y0, ratMax v.1 x1, ratMax v.2 y1)

theorem extrema_eq (polys : List Poly) : extrema polys = polys.flatten.foldl extStep none := rfl

theorem extFold_spec (l : List Point) (a : Rat × Rat × Rat × Rat) :
    ∃ b, l.foldl extStep (some a) = some b ∧
      b.1 ≤ a.1 ∧ b.2.1 ≤ a.2.1 ∧ a.2.2.1 ≤ b.2.2.1 ∧ a.2.2.2 ≤ b.2.2.2 ∧
      (∀ v ∈ l, v.1 ≤ b.2.2.1 ∧ v.2 ≤ b.2.2.2) ∧
      (b.2.2.1 = a.2.2.1 ∨ ∃ v ∈ l, v.1 = b.2.2.1) ∧ (b.2.2.2 = a.2.2.2 ∨ ∃ v ∈ l, v.2 = b.2.2.2) := by
  induction l generalizing a with
  | nil => exact ⟨a, rfl, le_refl _, le_refl _, le_refl _, le_refl _, by simp, Or.inl rfl, Or.inl rfl⟩
  | cons v l ih =>
    obtain ⟨x0, y0, x1, y1⟩ := a
    obtain ⟨b, hb, h1, h2, h3, h4, h5, h6, h7⟩ := ih (ratMin v.1 x0, ratMin v.2 y0, ratMax v.1 x1, ratMax v.2 y1)
    refine ⟨b, by rw [List.foldl_cons]; exact hb, ?_, ?_, ?_, ?_, ?_, ?_, ?_⟩
    · exact le_trans h1 (ratMin_le_right _ _)
    · exact le_trans h2 (ratMin_le_right _ _)
    · exact le_trans (le_ratMax_right _ _) h3
    · exact le_trans (le_ratMax_right _ _) h4
    · intro w hw
      rw [List.mem_cons] at hw
      rcases hw with rfl | hw
      · exact ⟨le_trans (le_ratMax_left _ _) h3, le_trans (le_ratMax_left _ _) h4⟩
      · exact h5 w hw
    · rcases h6 with h | ⟨w, hw, h⟩
      · rcases ratMax_cases v.1 x1 with e | e
        · right; exact ⟨v, by simp, by rw [h]; exact e.symm⟩
        · left; rw [h]; exact e
      · right; exact ⟨w, by simp [hw], h⟩
    · rcases h7 with h | ⟨w, hw, h⟩
      · rcases ratMax_cases v.2 y1 with e | e
        · right; exact ⟨v, by simp, by rw [h]; exact e.symm⟩
        · left; rw [h]; exact e
      · right; exact ⟨w, by simp [hw], h⟩

theorem extrema_nil_iff (polys : List Poly) : extrema polys = none ↔ polys.flatten = [] := by
  rw [extrema_eq]
  cases hl : polys.flatten with
  | nil => simp
  | cons v l =>
    rw [List.foldl_cons]
    obtain ⟨b, hb, _⟩ := extFold_spec l (v.1, v.2, v.1, v.2)
    simp only [extStep]
    rw [hb]; simp

/-- `length = max(x)`, `width = max(y)` of the outer rectangle are the largest vertex abscissa and
    the largest vertex ordinate over all property outlines — the minima play no role. -/
theorem landOf_spec {polys : List Poly} {L W : Rat} (h : landOf polys = some (L, W)) :
    (∀ v ∈ polys.flatten, v.1 ≤ L ∧ v.2 ≤ W) ∧ (∃ v ∈ polys.flatten, v.1 = L) ∧ (∃ v ∈ polys.flatten, v.2 = W) := by
  unfold landOf at h
  rw [extrema_eq] at h
  cases hl : polys.flatten with
  | nil => rw [hl] at h; simp at h
  | cons v l =>
    rw [hl, List.foldl_cons] at h
    obtain ⟨b, hb, h1, h2, h3, h4, h5, h6, h7⟩ := extFold_spec l (v.1, v.2, v.1, v.2)
    simp only [extStep] at h
    rw [hb] at h
    obtain ⟨x0, y0, x1, y1⟩ := b
    simp only [outerRectangle, List.map_cons, List.map_nil, pyMaxList, List.foldl_cons, List.foldl_nil] at h
    simp only at h1 h2 h3 h4 h5 h6 h7
    have hx : x0 ≤ x1 := le_trans h1 h3
    have hy : y0 ≤ y1 := le_trans h2 h4
    have mx : ∀ a c : Rat, a ≤ c → ratMax a c = c := by
      intro a c hac; unfold ratMax; split
      · rfl
      · exact le_antisymm hac (not_lt.mp ‹_›)
    have mx' : ∀ a c : Rat, c ≤ a → ratMax a c = a := by
      intro a c hac; unfold ratMax; rw [if_neg (not_lt.mpr hac)]
    rw [mx x0 x1 hx, mx' x1 x1 (le_refl _), mx' x1 x0 hx, mx' x1 x0 hx] at h
    rw [mx' y0 y0 (le_refl _), mx y0 y1 hy, mx' y1 y1 (le_refl _), mx' y1 y0 hy] at h
    have hL : x1 = L := by cases h; rfl
    have hW : y1 = W := by cases h; rfl
    subst hL hW
    refine ⟨?_, ?_, ?_⟩
    · intro w hw
      rw [List.mem_cons] at hw
      rcases hw with rfl | hw
      · exact ⟨h3, h4⟩
      · exact h5 w hw
    · rcases h6 with e | ⟨w, hw, e⟩
      · exact ⟨v, by simp, e.symm⟩
      · exact ⟨w, by simp [hw], e⟩
    · rcases h7 with e | ⟨w, hw, e⟩
      · exact ⟨v, by simp, e.symm⟩
      · exact ⟨w, by simp [hw], e⟩

/-! ### polygonal_land_constraint -/

/-- A successful call on the list-of-outlines form is: bounding rectangle → `bi_rectangle_nested`
    → `plcCore`. -/
theorem plc_ok {R : Rat → Rat} {bmin bx by_ : Rat} {props : List Poly} {nogo : Option Bounds}
    {kc : List Bool} {out : List (List Field) × List (List Nat)}
    (h : polygonalLandConstraint R bmin bx by_ (.many props) nogo kc = .ok out) :
    ∃ L W nested, landOf props = some (L, W) ∧ biRectangleNested R L W bmin bx by_ = .ok nested ∧
      plcCore nested (positions nested) (.many props) (nogo.getD (.many [])) kc Gen.cutoutTolDefault = .ok out := by
  unfold polygonalLandConstraint at h
  simp only [] at h
  cases hl : landOf props with
  | none => rw [hl] at h; simp only [] at h; split at h <;> cases h
  | some lw =>
    obtain ⟨L, W⟩ := lw
    rw [hl] at h
    simp only [] at h
    cases hn : biRectangleNested R L W bmin bx by_ with
    | error e => rw [hn] at h; cases h
    | ok nested =>
      rw [hn] at h
      exact ⟨L, W, nested, rfl, hn, h⟩

/-- the outlines a boundary argument stands for after the constructor's normalisation -/
def Bounds.norm : Bounds → List Poly
  | .single [] => []
  | .single (v :: vs) => [v :: vs]
  | .many ps => ps

theorem geomNormalize_ok {b b' : Bounds} (h : geomNormalize b = .ok b') : b' = .many b.norm := by
  match b, h with
  | .single [], h => simp only [geomNormalize] at h; cases h; rfl
  | .single (v :: vs), h => simp only [geomNormalize] at h; cases h; rfl
  | .many [], h => simp only [geomNormalize] at h; cases h; rfl
  | .many ((v :: vs) :: rest), h => simp only [geomNormalize] at h; cases h; rfl

/-- The constructor path is `polygonal_land_constraint` on the normalised arguments. -/
theorem design_ok {R : Rat → Rat} {bmin bx by_ : Rat} {prop nogo : Bounds} {kc : List Bool}
    {out : List (List Field) × List (List Nat)}
    (h : designConstrained R bmin bx by_ prop nogo kc = .ok out) :
    polygonalLandConstraint R bmin bx by_ (.many prop.norm) (some (.many nogo.norm)) kc = .ok out := by
  unfold designConstrained at h
  cases h1 : geomNormalize nogo with
  | error e => rw [h1] at h; cases h
  | ok ng =>
    rw [h1] at h
    simp only [] at h
    cases h2 : geomNormalize prop with
    | error e => rw [h2] at h; cases h
    | ok pr =>
      rw [h2] at h
      simp only [] at h
      rw [geomNormalize_ok h1, geomNormalize_ok h2] at h
      exact h

/-! ### `Forall₂` membership -/

theorem forall₂_mem_right {α β : Type} {P : α → β → Prop} {l : List α} {r : List β}
    (h : List.Forall₂ P l r) {y : β} (hy : y ∈ r) : ∃ x ∈ l, P x y := by
  induction h with
  | nil => cases hy
  | @cons a b l r hab _ ih =>
    rw [List.mem_cons] at hy
    rcases hy with rfl | hy
    · exact ⟨a, by simp, hab⟩
    · obtain ⟨x, hx, hp⟩ := ih hy
      exact ⟨x, by simp [hx], hp⟩

theorem forall₂_mem_left {α β : Type} {P : α → β → Prop} {l : List α} {r : List β}
    (h : List.Forall₂ P l r) {x : α} (hx : x ∈ l) : ∃ y ∈ r, P x y := by
  induction h with
  | nil => cases hx
  | @cons a b l r hab _ ih =>
    rw [List.mem_cons] at hx
    rcases hx with rfl | hx
    · exact ⟨b, by simp, hab⟩
    · obtain ⟨y, hy, hp⟩ := ih hx
      exact ⟨y, by simp [hy], hp⟩

/-! ### extent of the tolerance band (how far from an edge an on-edge point can be) -/

theorem cs2d (a1 a2 b1 b2 r L : ℝ) (hr : 0 ≤ r) (hL : 0 ≤ L) (er : r * r = a1 * a1 + a2 * a2)
    (eL : L * L = b1 * b1 + b2 * b2) : a1 * b1 + a2 * b2 ≤ r * L := by
  have hsq : (a1 * b1 + a2 * b2) ^ 2 ≤ (r * L) ^ 2 := by
    have : (r * L) ^ 2 = (r * r) * (L * L) := by ring
    rw [this, er, eL]
    nlinarith [sq_nonneg (a1 * b2 - a2 * b1)]
  exact le_trans (le_abs_self _) (abs_le_of_sq_le_sq' hsq (mul_nonneg hr hL) |> fun h => abs_le.mpr h)

theorem overhang (m r1 r2 L t : ℝ) (hL : 0 ≤ L) (c1 : m ≤ r1 * L) (c2 : L * L + m ≤ r2 * L) (h : r1 + r2 < L + t) :
    2 * m ≤ t * L := by
  have := mul_le_mul_of_nonneg_right (le_of_lt h) hL
  nlinarith

/-- ellipse extent, pure real algebra.  `u = A − p`, `v = B − p`. -/
theorem band_core (u1 u2 v1 v2 r1 r2 L t : ℝ) (hr1 : 0 ≤ r1) (hr2 : 0 ≤ r2) (hL : 0 ≤ L) (ht : 0 < t)
    (e1 : r1 * r1 = u1 * u1 + u2 * u2) (e2 : r2 * r2 = v1 * v1 + v2 * v2)
    (eL : L * L = (u1 - v1) * (u1 - v1) + (u2 - v2) * (u2 - v2))
    (h : r1 + r2 < L + t) :
    4 * (u1 * v2 - v1 * u2) ^ 2 ≤ L ^ 2 * (t * (2 * L + t)) := by
  set dot := u1 * v1 + u2 * v2 with hdot
  set cr := u1 * v2 - v1 * u2 with hcr
  have lag : cr ^ 2 + dot ^ 2 = (r1 * r2) ^ 2 := by
    have : (r1 * r2) ^ 2 = (r1 * r1) * (r2 * r2) := by ring
    rw [this, e1, e2, hcr, hdot]; ring
  have hLL : L * L = r1 * r1 + r2 * r2 - 2 * dot := by rw [eL, e1, e2, hdot]; ring
  have hrr : 0 ≤ r1 * r2 := mul_nonneg hr1 hr2
  have habs : |dot| ≤ r1 * r2 := by
    have hsq : dot ^ 2 ≤ (r1 * r2) ^ 2 := by nlinarith [sq_nonneg cr]
    exact abs_le.mpr (abs_le_of_sq_le_sq' hsq hrr)
  have hX : 0 ≤ r1 * r2 - dot := by linarith [le_abs_self dot]
  have hY : 0 ≤ r1 * r2 + dot := by linarith [neg_abs_le dot]
  have hcrXY : cr ^ 2 = (r1 * r2 - dot) * (r1 * r2 + dot) := by
    have : (r1 * r2 - dot) * (r1 * r2 + dot) = (r1 * r2) ^ 2 - dot ^ 2 := by ring
    rw [this, ← lag]; ring
  have hs0 : 0 ≤ r1 + r2 := add_nonneg hr1 hr2
  have hs2 : (r1 + r2) ^ 2 < (L + t) ^ 2 := by
    apply sq_lt_sq' <;> linarith
  have hYeq : 2 * (r1 * r2 + dot) = (r1 + r2) ^ 2 - L * L := by rw [hLL]; ring
  have hYlt : 2 * (r1 * r2 + dot) ≤ t * (2 * L + t) := by
    rw [hYeq]
    have : (L + t) ^ 2 - L * L = t * (2 * L + t) := by ring
    linarith
  have hXle : 2 * (r1 * r2 - dot) ≤ L * L := by
    rw [hLL]; nlinarith [sq_nonneg (r1 - r2)]
  have hprod : (2 * (r1 * r2 - dot)) * (2 * (r1 * r2 + dot)) ≤ (L * L) * (t * (2 * L + t)) :=
    mul_le_mul hXle hYlt (by linarith) (by nlinarith)
  rw [hcrXY]
  have : L ^ 2 = L * L := by ring
  rw [this]
  linarith

/-- How far from an edge a point of its tolerance band can be. -/
theorem band_extent (t : ℚ) (e : Edge) (p : Pt)
    (h : |rdist e.1 p + rdist e.2 p - rdist e.1 e.2| < (t : ℝ)) :
    4 * ((cross e p : ℚ) : ℝ) ^ 2 ≤ (rdist e.1 e.2) ^ 2 * ((t : ℝ) * (2 * rdist e.1 e.2 + (t : ℝ))) ∧
    -((t : ℝ) * rdist e.1 e.2) ≤
      2 * (((p.1 - e.1.1) * (e.2.1 - e.1.1) + (p.2 - e.1.2) * (e.2.2 - e.1.2) : ℚ) : ℝ) ∧
    -((t : ℝ) * rdist e.1 e.2) ≤
      2 * (((p.1 - e.2.1) * (e.1.1 - e.2.1) + (p.2 - e.2.2) * (e.1.2 - e.2.2) : ℚ) : ℝ) := by
  have htri := rdist_triangle e.1 e.2 p
  have h0 : 0 ≤ rdist e.1 p + rdist e.2 p - rdist e.1 e.2 := by linarith
  rw [abs_of_nonneg h0] at h
  have ht : (0 : ℝ) < (t : ℝ) := lt_of_le_of_lt h0 h
  have hlt : rdist e.1 p + rdist e.2 p < rdist e.1 e.2 + (t : ℝ) := by linarith
  have sq : ∀ a b : Pt, rdist a b * rdist a b =
      ((a.1 : ℝ) - b.1) * ((a.1 : ℝ) - b.1) + ((a.2 : ℝ) - b.2) * ((a.2 : ℝ) - b.2) := by
    intro a b
    unfold rdist
    rw [Real.mul_self_sqrt (by exact_mod_cast sqDist_nonneg a b)]
    unfold sqDist; push_cast; ring
  have eL : rdist e.1 e.2 * rdist e.1 e.2 =
      (((e.1.1 : ℝ) - p.1) - ((e.2.1 : ℝ) - p.1)) * (((e.1.1 : ℝ) - p.1) - ((e.2.1 : ℝ) - p.1)) +
      (((e.1.2 : ℝ) - p.2) - ((e.2.2 : ℝ) - p.2)) * (((e.1.2 : ℝ) - p.2) - ((e.2.2 : ℝ) - p.2)) := by
    rw [sq]; ring
  refine ⟨?_, ?_, ?_⟩
  · have := band_core ((e.1.1 : ℝ) - p.1) ((e.1.2 : ℝ) - p.2) ((e.2.1 : ℝ) - p.1) ((e.2.2 : ℝ) - p.2)
      (rdist e.1 p) (rdist e.2 p) (rdist e.1 e.2) (t : ℝ) (rdist_nonneg _ _) (rdist_nonneg _ _) (rdist_nonneg _ _) ht
      (sq _ _) (sq _ _) eL hlt
    have hc : ((cross e p : ℚ) : ℝ) = ((e.1.1 : ℝ) - p.1) * ((e.2.2 : ℝ) - p.2) - ((e.2.1 : ℝ) - p.1) * ((e.1.2 : ℝ) - p.2) := by
      unfold cross Gen.ppcCross; push_cast; ring
    rw [hc]; exact this
  · have c1 := cs2d ((e.1.1 : ℝ) - p.1) ((e.1.2 : ℝ) - p.2) ((e.2.1 : ℝ) - e.1.1) ((e.2.2 : ℝ) - e.1.2)
      (rdist e.1 p) (rdist e.1 e.2) (rdist_nonneg _ _) (rdist_nonneg _ _) (sq _ _) (by rw [sq]; ring)
    have c2 := cs2d ((e.2.1 : ℝ) - p.1) ((e.2.2 : ℝ) - p.2) ((e.2.1 : ℝ) - e.1.1) ((e.2.2 : ℝ) - e.1.2)
      (rdist e.2 p) (rdist e.1 e.2) (rdist_nonneg _ _) (rdist_nonneg _ _) (sq _ _) (by rw [sq]; ring)
    have hsum : ((e.2.1 : ℝ) - p.1) * ((e.2.1 : ℝ) - e.1.1) + ((e.2.2 : ℝ) - p.2) * ((e.2.2 : ℝ) - e.1.2) =
        rdist e.1 e.2 * rdist e.1 e.2 +
          (((e.1.1 : ℝ) - p.1) * ((e.2.1 : ℝ) - e.1.1) + ((e.1.2 : ℝ) - p.2) * ((e.2.2 : ℝ) - e.1.2)) := by
      rw [sq]; ring
    rw [hsum] at c2
    have := overhang _ _ _ _ _ (rdist_nonneg e.1 e.2) c1 c2 hlt
    push_cast
    linarith
  · have c1 := cs2d ((e.2.1 : ℝ) - p.1) ((e.2.2 : ℝ) - p.2) ((e.1.1 : ℝ) - e.2.1) ((e.1.2 : ℝ) - e.2.2)
      (rdist e.2 p) (rdist e.1 e.2) (rdist_nonneg _ _) (rdist_nonneg _ _) (sq _ _) (sq _ _)
    have c2 := cs2d ((e.1.1 : ℝ) - p.1) ((e.1.2 : ℝ) - p.2) ((e.1.1 : ℝ) - e.2.1) ((e.1.2 : ℝ) - e.2.2)
      (rdist e.1 p) (rdist e.1 e.2) (rdist_nonneg _ _) (rdist_nonneg _ _) (sq _ _) (sq _ _)
    have hsum : ((e.1.1 : ℝ) - p.1) * ((e.1.1 : ℝ) - e.2.1) + ((e.1.2 : ℝ) - p.2) * ((e.1.2 : ℝ) - e.2.2) =
        rdist e.1 e.2 * rdist e.1 e.2 +
          (((e.2.1 : ℝ) - p.1) * ((e.1.1 : ℝ) - e.2.1) + ((e.2.2 : ℝ) - p.2) * ((e.1.2 : ℝ) - e.2.2)) := by
      rw [sq]; ring
    rw [hsum] at c2
    have := overhang _ _ _ _ (t : ℝ) (rdist_nonneg e.1 e.2) c1 c2 (by linarith)
    push_cast
    linarith

end GHEVerif.Constrained
