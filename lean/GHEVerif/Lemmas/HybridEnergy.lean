/- Month and horizon energy of `process_month_loads` (lemmas behind Props/C06, C08). -/
import GHEVerif.Lemmas.HybridSplit

namespace GHEVerif.Hybrid
open GHEVerif

/-- What the month-energy identity needs of a month's record (`i` = simulated month, `y` = year). -/
structure MonthOK (y : Int) (r : MonthRec) (ipf : Bool) (i : Int) : Prop where
  peaks_nonneg : 0 ≤ r.pcl ∧ 0 ≤ r.phl
  durs_nonneg : 0 ≤ r.dcl ∧ 0 ≤ r.dhl
  /-- the averaging period (month minus emitted pulses) is not empty -/
  room : ipf = true → pulseHours r ≠ 24 * (mdays y i : Rat)
  /-- both pulses on one day: neither `first_hour_*_peak` is clamped to `1e-6` -/
  noclamp : ipf = true → r.dayc = r.dayh → 0 < r.pcl → 0 < r.phl →
    r.dcl ≤ 2 * noonOf (1 + lmh y (i - 1)) r.dayc ∧ r.dhl ≤ 2 * noonOf (1 + lmh y (i - 1)) r.dayh

/-- `month_rate` of month `i` (0 when the division raises). -/
def rateOf (y : Int) (r : MonthRec) (ipf : Bool) (i : Int) : Rat :=
  match monthRate r ipf (mdays y i * 24) with
  | .ok v => v
  | .error _ => 0

theorem month_energy_ok (y : Int) (r : MonthRec) (ipf : Bool) (i : Int) (hi : 1 ≤ i) (h : MonthOK y r ipf i) :
    ∃ segs, emitMonth y r ipf i = .ok segs ∧
      integral (lmh y (i - 1) : Int) segs = r.cl - r.hl ∧
      lastHour (lmh y (i - 1) : Int) segs = (lmh y i : Int) := by
  obtain ⟨rate, segs, _, h2, h3, h4⟩ := month_energy_core y r ipf i hi h.peaks_nonneg h.durs_nonneg h.room h.noclamp
  exact ⟨segs, h2, h3, h4⟩

theorem lmh_zero (y : Int) : lmh y 0 = 0 := by simp [lmh, cumDays_zero]

/-- The whole sequence: it exists, integrates to the sum of the months' energies and ends at the
    last hour of the last month. -/
theorem horizon_core (y : Int) (base : List MonthRec) (hlen : base.length = 13) (start end_ : Int)
    (hs : 1 ≤ start) (hs' : start ≤ 13) (he : start - 1 ≤ end_)
    (hok : ∀ i, start ≤ i → i ≤ end_ → MonthOK y (recAt base i) (ipfFlag start end_ i) i) :
    ∃ seq, processMonthLoads y base start end_ = .ok seq ∧
      seq = [((0 : Rat), (0 : Rat)), ((0 : Rat), ((lmh y (start - 1) : Int) : Rat))] ++
        ((pyRange start (end_ + 1)).map (segsOf y base start end_)).flatten ∧
      integral 0 seq = ((pyRange start (end_ + 1)).map (fun i =>
        (recAt base i).cl - (recAt base i).hl)).sum ∧
      lastHour 0 seq = (lmh y end_ : Int) := by
  have hm : ∀ i, start ≤ i → i ≤ end_ →
      emitMonth y (recAt base i) (ipfFlag start end_ i) i = .ok (segsOf y base start end_ i) ∧
      integral (lmh y (i - 1) : Int) (segsOf y base start end_ i)
        = (recAt base i).cl - (recAt base i).hl ∧
      lastHour (lmh y (i - 1) : Int) (segsOf y base start end_ i) = (lmh y i : Int) := by
    intro i a b
    obtain ⟨segs, e1, e2, e3⟩ := month_energy_ok y _ _ i (by omega) (hok i a b)
    rw [emitMonth_segsOf _ _ _ _ _ _ e1]; exact ⟨e1, e2, e3⟩
  refine ⟨_, process_eq y base hlen start end_ hs hs' he (fun i a b => ⟨_, (hm i a b).1⟩), rfl, ?_, ?_⟩
  · obtain ⟨b1, _⟩ := blocks_integral (fun i => ((lmh y i : Int) : Rat)) (segsOf y base start end_)
      (fun i => (recAt base i).cl - (recAt base i).hl)
      start end_ he (fun i a b => (hm i a b).2)
    rw [integral_append]
    simp only [integral, lastHour, sub_self, mul_zero, zero_mul, zero_add, add_zero]
    exact b1
  · obtain ⟨_, b2⟩ := blocks_integral (fun i => ((lmh y i : Int) : Rat)) (segsOf y base start end_)
      (fun i => (recAt base i).cl - (recAt base i).hl)
      start end_ he (fun i a b => (hm i a b).2)
    rw [lastHour_append]
    simp only [lastHour]
    exact b2

end GHEVerif.Hybrid
