/- Helper lemmas for C15 (equivalent single U-tube): the ℝ instantiation of Model/EquivTube.lean. -/
import GHEVerif.Model.EquivTube
import Mathlib.Analysis.SpecialFunctions.Log.Basic
import Mathlib.Analysis.SpecialFunctions.Sqrt
import Mathlib.Analysis.SpecialFunctions.Trigonometric.Basic
import Mathlib.Tactic.Linarith
import Mathlib.Tactic.Ring
import Mathlib.Tactic.FieldSimp
import Mathlib.Tactic.Positivity
import Mathlib.Tactic.NormNum

namespace GHEVerif.EquivTube
open GHEVerif

/-- The real-number instantiation: `π`, `√`, `ln`, and the embedding of the rational constants. -/
noncomputable def realOps : Ops ℝ :=
  { pi := Real.pi, sqrt := Real.sqrt, log := Real.log, ofRat := fun q => (q : ℝ) }

@[simp] theorem realOps_pi : realOps.pi = Real.pi := rfl
@[simp] theorem realOps_sqrt (x : ℝ) : realOps.sqrt x = Real.sqrt x := rfl
@[simp] theorem realOps_log (x : ℝ) : realOps.log x = Real.log x := rfl
@[simp] theorem realOps_ofRat (q : ℚ) : realOps.ofRat q = (q : ℝ) := rfl

theorem twoPi_real : twoPi realOps = 2 * Real.pi := by
  simp [twoPi]

theorem twoPi_pos : 0 < twoPi realOps := by
  rw [twoPi_real]; positivity

/-- Number of tubes of the equivalent exchanger as a real. -/
noncomputable def nEq : ℝ := (Gen.eqTubeN : ℝ)

theorem nEq_cast : ((((Gen.eqTubeN : Int) : Rat)) : ℝ) = nEq := by
  simp [nEq]

theorem nEq_pos : 0 < nEq := by
  have : 0 < Gen.eqTubeN := by decide
  unfold nEq; exact_mod_cast this

/-! ### `sgn` and `solve_root` over ℝ -/

theorem sgn_neg (np : Bool) {v : ℝ} (h : v < 0) : sgn realOps np v = .ok (-1) := by
  simp [sgn, h]

theorem sgn_pos (np : Bool) {v : ℝ} (h : 0 < v) : sgn realOps np v = .ok 1 := by
  simp [sgn, h, not_lt.mpr h.le]

theorem sgn_zero (np : Bool) : sgn realOps np (0 : ℝ) = .error (if np then .valueError else .zeroDiv) := by
  simp [sgn]

theorem sgn_ok_cases (np : Bool) (v : ℝ) (s : Int) (h : sgn realOps np v = .ok s) :
    (s = -1 ∧ v < 0) ∨ (s = 1 ∧ 0 < v) := by
  rcases lt_trichotomy v 0 with hv | hv | hv
  · rw [sgn_neg np hv] at h; left; exact ⟨by injection h with h; exact h.symm, hv⟩
  · subst hv; rw [sgn_zero] at h; cases h
  · rw [sgn_pos np hv] at h; right; exact ⟨by injection h with h; exact h.symm, hv⟩

section solve
variable (np : Bool) (brent : (ℝ → ℝ) → ℝ → ℝ → Py (ℝ × ℝ)) (x : ℝ) (f : ℝ → ℝ) (lo hi : ℝ)

theorem solveRoot_lower (h1 : f lo < 0) (h2 : f hi < 0) :
    solveRoot realOps np brent x f (some lo) (some hi) = .ok { result := lo, last := hi, branch := .lower } := by
  simp [solveRoot, sgn_neg np h1, sgn_neg np h2]

theorem solveRoot_upper (h1 : 0 < f lo) (h2 : 0 < f hi) :
    solveRoot realOps np brent x f (some lo) (some hi) = .ok { result := hi, last := hi, branch := .upper } := by
  simp [solveRoot, sgn_pos np h1, sgn_pos np h2]

theorem solveRoot_brent_pn (h1 : 0 < f lo) (h2 : f hi < 0) :
    solveRoot realOps np brent x f (some lo) (some hi) =
      brentOutcome (brent f lo hi) := by
  simp [solveRoot, sgn_pos np h1, sgn_neg np h2]

theorem solveRoot_brent_np (h1 : f lo < 0) (h2 : 0 < f hi) :
    solveRoot realOps np brent x f (some lo) (some hi) =
      brentOutcome (brent f lo hi) := by
  simp [solveRoot, sgn_pos np h2, sgn_neg np h1]

theorem solveRoot_zero_lo (h1 : f lo = 0) :
    solveRoot realOps np brent x f (some lo) (some hi) = .error (if np then .valueError else .zeroDiv) := by
  simp [solveRoot, h1, sgn_zero]

theorem solveRoot_zero_hi (h1 : f lo ≠ 0) (h2 : f hi = 0) :
    solveRoot realOps np brent x f (some lo) (some hi) = .error (if np then .valueError else .zeroDiv) := by
  rcases lt_or_gt_of_ne h1 with h | h
  · simp [solveRoot, h2, sgn_zero, sgn_neg np h]
  · simp [solveRoot, h2, sgn_zero, sgn_pos np h]

end solve

/-! ### geometry -/
theorem geom_rIn (rb : ℝ) (v : Vols ℝ) :
    (equivGeometry realOps rb v).rIn = Real.sqrt (v.volFluid / (nEq * Real.pi)) := by
  simp [equivGeometry, nEq]

theorem geom_rOut (rb : ℝ) (v : Vols ℝ) :
    (equivGeometry realOps rb v).rOut = Real.sqrt ((v.volFluid + v.volPipe) / (nEq * Real.pi)) := by
  simp [equivGeometry, nEq]

theorem nEqPi_pos : 0 < nEq * Real.pi := mul_pos nEq_pos Real.pi_pos

theorem geom_rIn_sq (rb : ℝ) (v : Vols ℝ) (h : 0 ≤ v.volFluid) :
    nEq * Real.pi * (equivGeometry realOps rb v).rIn ^ 2 = v.volFluid := by
  rw [geom_rIn, Real.sq_sqrt (div_nonneg h nEqPi_pos.le)]
  have h1 := nEq_pos.ne'
  have h2 := Real.pi_pos.ne'
  field_simp

theorem geom_rOut_sq (rb : ℝ) (v : Vols ℝ) (h : 0 ≤ v.volFluid + v.volPipe) :
    nEq * Real.pi * (equivGeometry realOps rb v).rOut ^ 2 = v.volFluid + v.volPipe := by
  rw [geom_rOut, Real.sq_sqrt (div_nonneg h nEqPi_pos.le)]
  have h1 := nEq_pos.ne'
  have h2 := Real.pi_pos.ne'
  field_simp

theorem geom_rIn_pos (rb : ℝ) (v : Vols ℝ) (h : 0 < v.volFluid) : 0 < (equivGeometry realOps rb v).rIn := by
  rw [geom_rIn]; exact Real.sqrt_pos.mpr (div_pos h nEqPi_pos)

theorem geom_rIn_lt_rOut (rb : ℝ) (v : Vols ℝ) (h : 0 ≤ v.volFluid) (hp : 0 < v.volPipe) :
    (equivGeometry realOps rb v).rIn < (equivGeometry realOps rb v).rOut := by
  rw [geom_rIn, geom_rOut]
  apply Real.sqrt_lt_sqrt (div_nonneg h nEqPi_pos.le)
  apply div_lt_div_of_pos_right _ nEqPi_pos
  linarith

/-- Enlargement rule over ℝ in closed form. -/
theorem enlarge_real (rb rPo : ℝ) :
    enlarge realOps rb rPo =
      if rb * 2 - nEq * rPo * 2 ≤ 0 then
        ((rb - (rb * 2 - nEq * rPo * 2)) + (rb - (rb * 2 - nEq * rPo * 2)) * 2 / (Gen.enlargeDiv : ℝ),
          (rb - (rb * 2 - nEq * rPo * 2)) * 2 / (Gen.enlargeDiv : ℝ), true)
      else (rb, rb * 2 - nEq * rPo * 2, false) := by
  simp [enlarge, nEq]

theorem nEq_two : nEq = 2 := by simp [nEq, Gen.eqTubeN]

theorem geom_fields (rb : ℝ) (v : Vols ℝ) :
    let g := equivGeometry realOps rb v
    g.rB = (enlarge realOps rb g.rOut).1 ∧ g.spacing = (enlarge realOps rb g.rOut).2.1 ∧
    g.enlarged = (enlarge realOps rb g.rOut).2.2 ∧
    g.s = g.spacing / (Gen.shankDiv : ℝ) ∧ g.shank = g.s / 2 + g.rOut := by
  simp [equivGeometry]

/-- Closed form of the borehole copy, the spacing and the shank spacing. -/
theorem geom_closed (rb : ℝ) (v : Vols ℝ) :
    let g := equivGeometry realOps rb v
    (rb * 2 - 2 * g.rOut * 2 ≤ 0 →
        g.rB = (4 * g.rOut - rb) * (6 / 5) ∧ g.spacing = (4 * g.rOut - rb) / 5 ∧ g.enlarged = true) ∧
    (0 < rb * 2 - 2 * g.rOut * 2 →
        g.rB = rb ∧ g.spacing = rb * 2 - 4 * g.rOut ∧ g.enlarged = false) ∧
    g.s = g.spacing / 3 ∧ g.shank = g.spacing / 6 + g.rOut := by
  intro g
  obtain ⟨h1, h2, h3, h4, h5⟩ := geom_fields rb v
  have he := enlarge_real rb g.rOut
  rw [nEq_two] at he
  have hd : (Gen.enlargeDiv : ℝ) = 10 := by simp [Gen.enlargeDiv]
  have hs : (Gen.shankDiv : ℝ) = 3 := by simp [Gen.shankDiv]
  refine ⟨?_, ?_, ?_, ?_⟩
  · intro hle
    rw [if_pos hle, hd] at he
    change g.rB = _ at h1; change g.spacing = _ at h2; change g.enlarged = _ at h3
    rw [he] at h1 h2 h3
    refine ⟨by rw [h1]; ring, by rw [h2]; ring, h3⟩
  · intro hlt
    rw [if_neg (not_le.mpr hlt)] at he
    change g.rB = _ at h1; change g.spacing = _ at h2; change g.enlarged = _ at h3
    rw [he] at h1 h2 h3
    refine ⟨h1, by rw [h2]; ring, h3⟩
  · change g.s = _ at h4; rw [h4, hs]
  · change g.s = _ at h4; change g.shank = _ at h5; rw [h5, h4, hs]; ring

theorem geom_fits (rb : ℝ) (v : Vols ℝ)
    (hro : 0 < (equivGeometry realOps rb v).rOut) :
    let g := equivGeometry realOps rb v
    0 < g.s ∧ g.shank + g.rOut ≤ g.rB ∧ g.rOut < g.shank ∧ rb ≤ g.rB := by
  intro g
  obtain ⟨hA, hB, hs, hsh⟩ := geom_closed rb v
  change 0 < g.rOut at hro
  rcases le_or_gt (rb * 2 - 2 * g.rOut * 2) 0 with hle | hlt
  · obtain ⟨e1, e2, _⟩ := hA hle
    change g.rB = _ at e1; change g.spacing = _ at e2; change g.s = _ at hs; change g.shank = _ at hsh
    rw [hs, hsh, e1, e2]
    refine ⟨by linarith, by linarith, by linarith, by linarith⟩
  · obtain ⟨e1, e2, _⟩ := hB hlt
    change g.rB = _ at e1; change g.spacing = _ at e2; change g.s = _ at hs; change g.shank = _ at hsh
    rw [hs, hsh, e1, e2]
    refine ⟨by linarith, by linarith, by linarith, le_refl _⟩

/-! ### pipe resistance as a function of the conductivity -/

theorem pipeR_real (rIn rOut k : ℝ) : pipeR realOps rIn rOut k = Real.log (rOut / rIn) / (2 * Real.pi * k) := by
  simp [pipeR, twoPi_real]

theorem fluidR_real (h r : ℝ) : fluidR realOps h r = 1 / (h * (2 * Real.pi) * r) := by
  simp [fluidR, twoPi_real]

theorem logRatio_pos {rIn rOut : ℝ} (h0 : 0 < rIn) (h1 : rIn < rOut) : 0 < Real.log (rOut / rIn) :=
  Real.log_pos ((one_lt_div h0).mpr h1)

theorem pipeR_pos {rIn rOut k : ℝ} (h0 : 0 < rIn) (h1 : rIn < rOut) (hk : 0 < k) : 0 < pipeR realOps rIn rOut k := by
  rw [pipeR_real]; exact div_pos (logRatio_pos h0 h1) (by positivity)

theorem pipeR_strictAnti {rIn rOut k1 k2 : ℝ} (h0 : 0 < rIn) (h1 : rIn < rOut) (hk1 : 0 < k1) (hk : k1 < k2) :
    pipeR realOps rIn rOut k2 < pipeR realOps rIn rOut k1 := by
  rw [pipeR_real, pipeR_real]
  apply div_lt_div_of_pos_left (logRatio_pos h0 h1) (by positivity)
  have := Real.pi_pos
  nlinarith

/-- `R_p(k) - R_p(r) = R_p(k) · (r - k) / r`. -/
theorem pipeR_sub {rIn rOut k r : ℝ} (hk : 0 < k) (hr : 0 < r) :
    pipeR realOps rIn rOut k - pipeR realOps rIn rOut r = pipeR realOps rIn rOut k * ((r - k) / r) := by
  rw [pipeR_real, pipeR_real]
  have := Real.pi_pos.ne'
  field_simp

/-- A conductivity within `δ` of `r` gives a pipe resistance within `R_p(k)·δ/(k−δ)` of `R_p(r)`. -/
theorem pipeR_close {rIn rOut k r δ : ℝ} (h0 : 0 < rIn) (h1 : rIn < rOut) (hδk : δ < k)
    (hkr : |k - r| ≤ δ) :
    |pipeR realOps rIn rOut k - pipeR realOps rIn rOut r| ≤ pipeR realOps rIn rOut k * (δ / (k - δ)) := by
  have hδ0 : 0 ≤ δ := le_trans (abs_nonneg _) hkr
  have hk : 0 < k := lt_of_le_of_lt hδ0 hδk
  have hkd : 0 < k - δ := by linarith
  obtain ⟨ha, hb⟩ := abs_le.mp hkr
  have hr : 0 < r := by linarith
  rw [pipeR_sub hk hr, abs_mul, abs_of_pos (pipeR_pos h0 h1 hk)]
  apply mul_le_mul_of_nonneg_left _ (pipeR_pos h0 h1 hk).le
  rw [abs_div, abs_of_pos hr]
  have h2 : |r - k| ≤ δ := by rw [abs_sub_comm]; exact hkr
  calc |r - k| / r ≤ δ / r := div_le_div_of_nonneg_right h2 hr.le
    _ ≤ δ / (k - δ) := div_le_div_of_nonneg_left hδ0 hkd (by linarith)

/-! ### the pipe-conductivity solve -/

theorem geom_kPipe0 (rb : ℝ) (v : Vols ℝ) :
    let g := equivGeometry realOps rb v
    g.kPipe0 = Real.log (g.rOut / g.rIn) / (2 * Real.pi * nEq * v.resistPipe) := by
  simp [equivGeometry, nEq, twoPi_real]

theorem geom_kPipe0_pos (rb : ℝ) (v : Vols ℝ) (hf : 0 < v.volFluid) (hp : 0 < v.volPipe) (hr : 0 < v.resistPipe) :
    0 < (equivGeometry realOps rb v).kPipe0 := by
  have h := geom_kPipe0 rb v
  simp only at h
  rw [h]
  have := nEq_pos
  exact div_pos (logRatio_pos (geom_rIn_pos rb v hf) (geom_rIn_lt_rOut rb v hf.le hp)) (by positivity)

/-- `R_f` of the equivalent tube. -/
noncomputable def eqRf (hConv : ℝ → ℝ) (rb : ℝ) (v : Vols ℝ) : ℝ :=
  fluidR realOps (hConv (equivGeometry realOps rb v).rIn) (equivGeometry realOps rb v).rIn

/-- `R_fp(k)` of the equivalent tube. -/
noncomputable def eqRfp (hConv : ℝ → ℝ) (rb : ℝ) (v : Vols ℝ) (k : ℝ) : ℝ :=
  eqRf hConv rb v + pipeR realOps (equivGeometry realOps rb v).rIn (equivGeometry realOps rb v).rOut k

noncomputable def kpLo (rb : ℝ) (v : Vols ℝ) : ℝ := (equivGeometry realOps rb v).kPipe0 / (Gen.kpLowerDiv : ℝ)
noncomputable def kpHi (rb : ℝ) (v : Vols ℝ) : ℝ := (equivGeometry realOps rb v).kPipe0 * (Gen.kpUpperMul : ℝ)

theorem equivalentSingleUTube_eq (fl : Flags) (brent : (ℝ → ℝ) → ℝ → ℝ → Py (ℝ × ℝ)) (hConv : ℝ → ℝ)
    (rb kg0 : ℝ) (v : Vols ℝ) :
    equivalentSingleUTube realOps fl brent hConv rb kg0 v =
      (solveRoot realOps fl.numpy brent (equivGeometry realOps rb v).kPipe0
          (fun k => eqRfp hConv rb v k - (v.resistConv + v.resistPipe)) (some (kpLo rb v)) (some (kpHi rb v))).map
        (fun sol => (pipeTube realOps fl hConv rb kg0 v sol, sol)) := by
  rfl

theorem pipeTube_rFp (fl : Flags) (hConv : ℝ → ℝ) (rb kg0 : ℝ) (v : Vols ℝ) (sol : Solve ℝ) :
    (pipeTube realOps fl hConv rb kg0 v sol).rFp = eqRfp hConv rb v sol.last := rfl

theorem pipeTube_kPipe (fl : Flags) (hConv : ℝ → ℝ) (rb kg0 : ℝ) (v : Vols ℝ) (sol : Solve ℝ) :
    (pipeTube realOps fl hConv rb kg0 v sol).kPipe = if fl.pipeResultUsed then sol.result else sol.last := rfl

theorem pipeTube_circ (fl : Flags) (hConv : ℝ → ℝ) (rb kg0 : ℝ) (v : Vols ℝ) (sol : Solve ℝ) :
    (pipeTube realOps fl hConv rb kg0 v sol).circKg = kg0 ∧ (pipeTube realOps fl hConv rb kg0 v sol).kGrout = kg0 ∧
    (pipeTube realOps fl hConv rb kg0 v sol).circRfp =
      if fl.pipeRefresh then eqRfp hConv rb v sol.last else eqRfp hConv rb v (equivGeometry realOps rb v).kPipe0 :=
  ⟨rfl, rfl, rfl⟩

theorem kpLo_pos (rb : ℝ) (v : Vols ℝ) (h : 0 < (equivGeometry realOps rb v).kPipe0) : 0 < kpLo rb v := by
  unfold kpLo; simp [Gen.kpLowerDiv]; exact h

theorem kpHi_pos (rb : ℝ) (v : Vols ℝ) (h : 0 < (equivGeometry realOps rb v).kPipe0) : 0 < kpHi rb v := by
  unfold kpHi; simp [Gen.kpUpperMul]; exact h

theorem kpLo_lt_kpHi (rb : ℝ) (v : Vols ℝ) (h : 0 < (equivGeometry realOps rb v).kPipe0) : kpLo rb v < kpHi rb v := by
  unfold kpLo kpHi; simp [Gen.kpLowerDiv, Gen.kpUpperMul]; linarith

/-! ### the grout-conductivity solve -/

noncomputable def kgLo : ℝ := (Gen.kgLower : ℝ)
noncomputable def kgHi : ℝ := (Gen.kgUpper : ℝ)

theorem kgLo_lt_kgHi : kgLo < kgHi := by
  unfold kgLo kgHi; simp [Gen.kgLower, Gen.kgUpper]; norm_num

theorem matchRb_eq (fl : Flags) (brent : (ℝ → ℝ) → ℝ → ℝ → Py (ℝ × ℝ)) (Rb : ℝ → ℝ → ℝ) (T : ℝ) (t : Tube ℝ) :
    matchEffectiveBoreholeResistance realOps fl brent Rb T t =
      (solveRoot realOps fl.numpy brent t.kGrout (groutObjective fl Rb T t) (some kgLo) (some kgHi)).map
        (fun sol => (groutTube fl t sol, sol)) := rfl

theorem groutObjective_norefresh (fl : Flags) (h : fl.groutRefresh = false) (Rb : ℝ → ℝ → ℝ) (T : ℝ) (t : Tube ℝ) (k : ℝ) :
    groutObjective fl Rb T t k = T - t.rb Rb := by
  simp [groutObjective, h, Tube.rb]

theorem groutObjective_refresh (fl : Flags) (h : fl.groutRefresh = true) (Rb : ℝ → ℝ → ℝ) (T : ℝ) (t : Tube ℝ) (k : ℝ) :
    groutObjective fl Rb T t k = T - Rb k t.rFp := by
  simp [groutObjective, h]

theorem groutTube_rb_norefresh (fl : Flags) (h : fl.groutRefresh = false) (Rb : ℝ → ℝ → ℝ) (t : Tube ℝ) (sol : Solve ℝ) :
    (groutTube fl t sol).rb Rb = t.rb Rb := by
  simp [groutTube, h, Tube.rb]

theorem groutTube_rb_refresh (fl : Flags) (h : fl.groutRefresh = true) (Rb : ℝ → ℝ → ℝ) (t : Tube ℝ) (sol : Solve ℝ) :
    (groutTube fl t sol).rb Rb = Rb sol.last t.rFp := by
  simp [groutTube, h, Tube.rb]

theorem groutTube_kGrout (fl : Flags) (t : Tube ℝ) (sol : Solve ℝ) :
    (groutTube fl t sol).kGrout = if fl.groutResultUsed then sol.result else sol.last := rfl

theorem map_eq_ok {α β ε : Type} (f : α → β) (x : Except ε α) (b : β) (h : x.map f = .ok b) :
    ∃ a, x = .ok a ∧ f a = b := by
  cases x with
  | error e => simp [Except.map] at h
  | ok a => exact ⟨a, rfl, by simpa [Except.map] using h⟩

theorem brentOutcome_ok (r : Py (ℝ × ℝ)) (s : Solve ℝ) (h : brentOutcome r = .ok s) :
    ∃ x l, r = .ok (x, l) ∧ s = { result := x, last := l, branch := .brent } := by
  cases r with
  | error e => simp [brentOutcome] at h
  | ok p => obtain ⟨x, l⟩ := p; exact ⟨x, l, rfl, by simp [brentOutcome] at h; exact h.symm⟩

/-- Brent's contract for one call: the returned point and the last evaluated point are both within
    `δ` of a root of `f` inside the bracket. -/
def BrentSpec (f : ℝ → ℝ) (lo hi δ : ℝ) (out : ℝ × ℝ) : Prop :=
  ∃ r, lo ≤ r ∧ r ≤ hi ∧ f r = 0 ∧ |out.1 - r| ≤ δ ∧ |out.2 - r| ≤ δ

/-- `R_fp` of the equivalent tube at a multiple `c·k_p'` of the initial conductivity:
    `R_f' + n·R_pipe/c`. -/
theorem eqRfp_at_multiple (hConv : ℝ → ℝ) (rb : ℝ) (v : Vols ℝ) (hf : 0 < v.volFluid) (hp : 0 < v.volPipe)
    (hr : 0 < v.resistPipe) (c : ℝ) (hc : 0 < c) :
    eqRfp hConv rb v (c * (equivGeometry realOps rb v).kPipe0) = eqRf hConv rb v + nEq * v.resistPipe / c := by
  have hL := logRatio_pos (geom_rIn_pos rb v hf) (geom_rIn_lt_rOut rb v hf.le hp)
  have hk := geom_kPipe0 rb v
  simp only at hk
  unfold eqRfp
  rw [pipeR_real, hk]
  have h1 := Real.pi_pos.ne'
  have h2 := nEq_pos.ne'
  have h3 := hr.ne'
  have h4 := hc.ne'
  have h5 := hL.ne'
  field_simp

theorem kpLo_eq (rb : ℝ) (v : Vols ℝ) : kpLo rb v = (1 / 100) * (equivGeometry realOps rb v).kPipe0 := by
  unfold kpLo; simp [Gen.kpLowerDiv]; ring

theorem kpHi_eq (rb : ℝ) (v : Vols ℝ) : kpHi rb v = 10 * (equivGeometry realOps rb v).kPipe0 := by
  unfold kpHi; simp [Gen.kpUpperMul]; ring

/-- A convection correlation under which the equivalent tube has `R_f' = 1` (for the examples). -/
noncomputable def hOne : ℝ → ℝ := fun r => 1 / (2 * Real.pi * r)

theorem eqRf_hOne (rb : ℝ) (v : Vols ℝ) (hf : 0 < v.volFluid) : eqRf hOne rb v = 1 := by
  unfold eqRf hOne
  rw [fluidR_real]
  have h1 := (geom_rIn_pos rb v hf).ne'
  have h2 := Real.pi_pos.ne'
  field_simp

end GHEVerif.EquivTube
