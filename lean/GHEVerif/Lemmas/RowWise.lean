/- Helper lemmas for C14 (RowWise). -/
import GHEVerif.Model.RowWise
import Mathlib.Tactic.Linarith
import Mathlib.Tactic.Ring
import Mathlib.Tactic.FieldSimp
import Mathlib.Tactic.Positivity
import Mathlib.Tactic.NormNum
import Mathlib.Algebra.Order.Floor.Ring
import Mathlib.Data.Rat.Floor

namespace GHEVerif.RowWise
open GHEVerif

/-! ### bridging the import-free helpers to Mathlib's order vocabulary -/

theorem ratAbs_eq_abs (x : Rat) : ratAbs x = |x| := by
  unfold ratAbs; split_ifs with h
  · rw [abs_of_neg h]
  · rw [abs_of_nonneg (not_lt.mp h)]

theorem ratMax_eq_max (a b : Rat) : ratMax a b = max a b := by
  unfold ratMax; split_ifs with h
  · rw [max_eq_right (le_of_lt h)]
  · rw [max_eq_left (not_lt.mp h)]

theorem ratMin_eq_min (a b : Rat) : ratMin a b = min a b := by
  unfold ratMin; split_ifs with h
  · rw [min_eq_right (le_of_lt h)]
  · rw [min_eq_left (not_lt.mp h)]

/-! ### algebra of `proj`, `along`, `rowDist` -/

@[simp] theorem along_zero (c s : Rat) (p : Pt) : along c s p 0 = p := by
  simp [along]

theorem along_along (c s : Rat) (p : Pt) (a b : Rat) : along c s (along c s p a) b = along c s p (a + b) := by
  simp only [along]; ext <;> simp <;> ring

theorem proj_along (c s : Rat) (h : c * c + s * s = 1) (p : Pt) (t : Rat) :
    proj c s (along c s p t) = proj c s p + t := by
  simp only [proj, along]
  have : (p.1 + t * c) * c + (p.2 + t * s) * s = p.1 * c + p.2 * s + t * (c * c + s * s) := by ring
  rw [this, h]; ring

theorem rowDist_along (c s : Rat) (h : c * c + s * s = 1) (p : Pt) (a b : Rat) :
    rowDist c s (along c s p a) (along c s p b) = |b - a| := by
  unfold rowDist
  rw [ratAbs_eq_abs, proj_along c s h, proj_along c s h]
  congr 1; ring

theorem rowDist_comm (c s : Rat) (p q : Pt) : rowDist c s p q = rowDist c s q p := by
  unfold rowDist; rw [ratAbs_eq_abs, ratAbs_eq_abs, abs_sub_comm]

theorem rowDist_nonneg (c s : Rat) (p q : Pt) : 0 ≤ rowDist c s p q := by
  unfold rowDist; rw [ratAbs_eq_abs]; exact abs_nonneg _

/-- For two points of one row the model's `rowDist` is the Euclidean distance
    (`rowDist² = sum_sq_dist`), i.e. what `sqrt(dx² + dy²)` is in the code. -/
theorem rowDist_sq (c s : Rat) (h : c * c + s * s = 1) (p : Pt) (t : Rat) :
    rowDist c s p (along c s p t) * rowDist c s p (along c s p t) = sqDist p (along c s p t) := by
  have := rowDist_along c s h p 0 t
  rw [along_zero] at this
  rw [this, sub_zero, abs_mul_abs_self]
  simp only [sqDist, along]
  have : (p.1 - (p.1 + t * c)) * (p.1 - (p.1 + t * c)) + (p.2 - (p.2 + t * s)) * (p.2 - (p.2 + t * s))
      = t * t * (c * c + s * s) := by ring
  rw [this, h]; ring


/-! ## rows, distribute, termination, inside, sweep -/

/-! ### points of one row -/

/-- `p` lies on the line through `b` with direction `(c, s)`. -/
def OnRow (c s : Rat) (b p : Pt) : Prop := ∃ t, p = along c s b t

theorem onRow_pair (c s : Rat) (h : c * c + s * s = 1) (b p q : Pt) (hp : OnRow c s b p) (hq : OnRow c s b q) :
    q = along c s p (proj c s q - proj c s p) := by
  obtain ⟨tp, rfl⟩ := hp
  obtain ⟨tq, rfl⟩ := hq
  rw [proj_along c s h, proj_along c s h, along_along]
  congr 1; ring

theorem along_inj (c s : Rat) (h : c * c + s * s = 1) (p : Pt) (a b : Rat) (hab : along c s p a = along c s p b) : a = b := by
  have := congrArg (proj c s) hab
  rw [proj_along c s h, proj_along c s h] at this
  linarith

theorem rowDist_along_self (c s : Rat) (h : c * c + s * s = 1) (p : Pt) (t : Rat) :
    rowDist c s p (along c s p t) = |t| := by
  have := rowDist_along c s h p 0 t
  rwa [along_zero, sub_zero] at this

theorem mem_pushNew (acc : List Pt) (p a : Pt) (ha : a ∈ pushNew acc p) : a = p ∨ a ∈ acc := by
  unfold pushNew at ha
  split at ha
  · simp at ha; exact Or.inl ha
  · split_ifs at ha with hq
    · exact Or.inr ha
    · rcases List.mem_cons.mp ha with h | h
      · exact Or.inl h
      · exact Or.inr h

/-! ### the `distribute` loop -/

theorem distributeTol_pos : 0 < Gen.RowWise.distributeTol := by
  unfold Gen.RowWise.distributeTol; norm_num

/-- With the end point `n` steps ahead on the row the loop stops after at most `n` passes:
    fuel `m + 1` suffices when `m` steps remain. -/
theorem distLoop_isSome (c s tol step : Rat) (h : c * c + s * s = 1) (htol : 0 < tol) (x1 : Pt) (n : Nat) :
    ∀ (m k : Nat) (fuel : Nat) (acc : List Pt), k + m = n → m + 1 ≤ fuel →
      (distLoop c s tol step (along c s x1 ((n : Rat) * step)) fuel (along c s x1 ((k : Rat) * step)) acc).isSome := by
  intro m
  induction m with
  | zero =>
    intro k fuel acc hk hf
    obtain ⟨f, rfl⟩ : ∃ f, fuel = f + 1 := ⟨fuel - 1, by omega⟩
    have : k = n := by omega
    subst this
    unfold distLoop
    rw [rowDist_along c s h, sub_self, abs_zero, if_neg (not_le.mpr htol)]
    rfl
  | succ m ih =>
    intro k fuel acc hk hf
    obtain ⟨f, rfl⟩ : ∃ f, fuel = f + 1 := ⟨fuel - 1, by omega⟩
    unfold distLoop
    split_ifs with hc
    · rw [along_along]
      have e : (k : Rat) * step + step = ((k + 1 : Nat) : Rat) * step := by push_cast; ring
      rw [e]
      exact ih (k + 1) f _ (by omega) (by omega)
    · rfl

/-- Every point the loop adds lies between the start and the end point. -/
theorem distLoop_mem (c s tol step : Rat) (h : c * c + s * s = 1) (htol : 0 < tol) (x1 : Pt) (n : Nat) :
    ∀ (m k : Nat) (fuel : Nat) (acc r : List Pt), k + m = n →
      distLoop c s tol step (along c s x1 ((n : Rat) * step)) fuel (along c s x1 ((k : Rat) * step)) acc = some r →
      ∀ a ∈ r, a ∈ acc ∨ ∃ j : Nat, j ≤ n ∧ a = along c s x1 ((j : Rat) * step) := by
  intro m
  induction m with
  | zero =>
    intro k fuel acc r hk hr a ha
    have : k = n := by omega
    subst this
    cases fuel with
    | zero => simp [distLoop] at hr
    | succ f =>
      unfold distLoop at hr
      rw [rowDist_along c s h, sub_self, abs_zero, if_neg (not_le.mpr htol)] at hr
      simp at hr; subst hr; exact Or.inl ha
  | succ m ih =>
    intro k fuel acc r hk hr a ha
    cases fuel with
    | zero => simp [distLoop] at hr
    | succ f =>
      unfold distLoop at hr
      split_ifs at hr with hc
      · rw [along_along] at hr
        have e : (k : Rat) * step + step = ((k + 1 : Nat) : Rat) * step := by push_cast; ring
        rw [e] at hr
        rcases ih (k + 1) f _ r (by omega) hr a ha with h1 | h1
        · rcases mem_pushNew _ _ _ h1 with h2 | h2
          · exact Or.inr ⟨k, by omega, h2⟩
          · exact Or.inl h2
        · exact Or.inr h1
      · simp at hr; subst hr; exact Or.inl ha

/-- Closed form of the loop when every remaining distance is at least the tolerance. -/
theorem distLoop_closed (c s tol step : Rat) (h : c * c + s * s = 1) (htol : 0 < tol) (hstep : tol ≤ step) (x1 : Pt) (n : Nat) :
    ∀ (m k : Nat) (fuel : Nat) (acc : List Pt), k + m = n → m + 1 ≤ fuel →
      acc.head? ≠ some (along c s x1 ((k : Rat) * step)) →
      distLoop c s tol step (along c s x1 ((n : Rat) * step)) fuel (along c s x1 ((k : Rat) * step)) acc
        = some (((List.range' k m).map (fun i : Nat => along c s x1 ((i : Rat) * step))).reverse ++ acc) := by
  have hstep0 : 0 < step := lt_of_lt_of_le htol hstep
  intro m
  induction m with
  | zero =>
    intro k fuel acc hk hf _
    obtain ⟨f, rfl⟩ : ∃ f, fuel = f + 1 := ⟨fuel - 1, by omega⟩
    have : k = n := by omega
    subst this
    unfold distLoop
    rw [rowDist_along c s h, sub_self, abs_zero, if_neg (not_le.mpr htol)]
    simp
  | succ m ih =>
    intro k fuel acc hk hf hhead
    obtain ⟨f, rfl⟩ : ∃ f, fuel = f + 1 := ⟨fuel - 1, by omega⟩
    unfold distLoop
    have hd : rowDist c s (along c s x1 ((k : Rat) * step)) (along c s x1 ((n : Rat) * step)) ≥ tol := by
      rw [rowDist_along c s h]
      have hkn : (k : Rat) + 1 ≤ (n : Rat) := by exact_mod_cast (by omega : k + 1 ≤ n)
      have : step ≤ (n : Rat) * step - (k : Rat) * step := by nlinarith
      have h2 : 0 ≤ (n : Rat) * step - (k : Rat) * step := by linarith
      rw [abs_of_nonneg h2]; linarith
    rw [if_pos hd, along_along]
    have e : (k : Rat) * step + step = ((k + 1 : Nat) : Rat) * step := by push_cast; ring
    rw [e]
    have hpush : pushNew acc (along c s x1 ((k : Rat) * step)) = along c s x1 ((k : Rat) * step) :: acc := by
      unfold pushNew
      cases acc with
      | nil => rfl
      | cons q qs =>
        simp only [List.head?_cons, ne_eq, Option.some.injEq] at hhead
        simp [hhead]
    rw [hpush, ih (k + 1) f _ (by omega) (by omega)]
    · simp [List.range'_succ]
    · simp only [List.head?_cons, ne_eq, Option.some.injEq]
      intro hh
      have := along_inj c s h x1 _ _ hh
      have : (k : Rat) * step = ((k : Rat) + 1) * step := by rw [this]; push_cast; ring
      nlinarith

/-! ### distribute / process_rows: no divergence, closed form -/

theorem floor_pos_of_le (dx spacing : Rat) (hs : 0 < spacing) (hd : spacing ≤ dx) : 1 ≤ (dx / spacing).floor := by
  have : (1 : Rat) ≤ dx / spacing := by rw [le_div_iff₀ hs]; linarith
  exact Int.le_floor.mpr (by exact_mod_cast this)

/-- `distribute` never diverges when the end point is ahead of the start point on the row, or
    behind it by less than the spacing. -/
theorem distribute_nodiv (c s spacing : Rat) (h : c * c + s * s = 1) (hs : 0 < spacing) (x1 : Pt) (t : Rat)
    (ht : 0 ≤ t ∨ |t| < spacing) (acc : List Pt) :
    distribute c s spacing x1 (along c s x1 t) acc ≠ .error .other := by
  unfold distribute
  simp only [rowDist_along_self c s h]
  split_ifs with h1 h2 h3
  · simp
  · simp
  · simp
  · have ht0 : 0 ≤ t := by
      rcases ht with ht | ht
      · exact ht
      · exact absurd ht h1
    rw [abs_of_nonneg ht0] at h3 ⊢
    have hn : 1 ≤ (t / spacing).floor := floor_pos_of_le t spacing hs (by rw [abs_of_nonneg ht0] at h1; exact not_lt.mp h1)
    set n : Int := (t / spacing).floor with hndef
    have hcast : ((n.toNat : Nat) : Rat) = (n : Rat) := by
      have : ((n.toNat : Nat) : Int) = n := Int.toNat_of_nonneg (by omega)
      exact_mod_cast this
    have hnq : (n : Rat) ≠ 0 := by exact_mod_cast (by omega : n ≠ 0)
    have ex2 : along c s x1 t = along c s x1 (((n.toNat : Nat) : Rat) * (t / (n : Rat))) := by
      rw [hcast]; congr 1; field_simp
    rw [ex2]
    have hk : along c s x1 = fun u => along c s x1 u := rfl
    have h0 : x1 = along c s x1 (((0 : Nat) : Rat) * (t / (n : Rat))) := by simp
    have := distLoop_isSome c s Gen.RowWise.distributeTol (t / (n : Rat)) h distributeTol_pos x1 n.toNat n.toNat 0
      (n.toNat + 2) acc (by omega) (by omega)
    rw [← h0] at this
    cases hres : distLoop c s Gen.RowWise.distributeTol (t / (n : Rat))
        (along c s x1 (((n.toNat : Nat) : Rat) * (t / (n : Rat)))) (n.toNat + 2) x1 acc with
    | none => rw [hres] at this; simp at this
    | some r =>
      cases r with
      | nil => simp
      | cons q r' => simp

theorem processRows_nodiv (c s space : Rat) (h : c * c + s * s = 1) (hs : 0 < space) (x1 : Pt) (t : Rat)
    (ht : 0 ≤ t ∨ |t| < space) (acc : List Pt) :
    processRows c s space x1 (along c s x1 t) acc ≠ .error .other := by
  unfold processRows
  split_ifs
  · simp
  · simp
  · exact distribute_nodiv c s space h hs x1 t ht acc

/-- **Closed form of `distribute`** (aligned end points at least one spacing apart): the points
    `x1 + i·(dx/n)·(cos, sin)`, `i = 0..n`, with `n = ⌊dx/spacing⌋`, the last one being the end point. -/
theorem distribute_closed (c s spacing : Rat) (h : c * c + s * s = 1) (hs : 0 < spacing)
    (htol : Gen.RowWise.distributeTol ≤ spacing) (x1 : Pt) (dx : Rat) (hdx : spacing ≤ dx)
    (acc : List Pt) (hacc : acc.head? ≠ some x1) :
    distribute c s spacing x1 (along c s x1 dx) acc
      = .ok (((List.range ((dx / spacing).floor.toNat + 1)).map
          (fun i : Nat => along c s x1 ((i : Rat) * (dx / ((dx / spacing).floor : Rat))))).reverse ++ acc) := by
  have hdx0 : 0 ≤ dx := le_trans (le_of_lt hs) hdx
  have hn : 1 ≤ (dx / spacing).floor := floor_pos_of_le dx spacing hs hdx
  unfold distribute
  simp only [rowDist_along_self c s h, abs_of_nonneg hdx0]
  rw [if_neg (not_lt.mpr hdx), if_neg (ne_of_gt hs)]
  set n : Int := (dx / spacing).floor with hndef
  rw [if_neg (by omega : ¬ n = 0)]
  have hcast : ((n.toNat : Nat) : Rat) = (n : Rat) := by
    have : ((n.toNat : Nat) : Int) = n := Int.toNat_of_nonneg (by omega)
    exact_mod_cast this
  have hnq : (0 : Rat) < (n : Rat) := by exact_mod_cast (by omega : 0 < n)
  have hstep : spacing ≤ dx / (n : Rat) := by
    rw [le_div_iff₀ hnq]
    have : (n : Rat) ≤ dx / spacing := Int.floor_le _
    rw [le_div_iff₀ hs] at this
    linarith
  have ex2 : along c s x1 dx = along c s x1 (((n.toNat : Nat) : Rat) * (dx / (n : Rat))) := by
    rw [hcast]; congr 1; field_simp
  have h0 : x1 = along c s x1 (((0 : Nat) : Rat) * (dx / (n : Rat))) := by simp
  have key := distLoop_closed c s Gen.RowWise.distributeTol (dx / (n : Rat)) h distributeTol_pos (le_trans htol hstep) x1
    n.toNat n.toNat 0 (n.toNat + 2) acc (by omega) (by omega) (by rw [← h0]; exact hacc)
  rw [← h0, ← ex2] at key
  rw [key]
  have hne : 1 ≤ n.toNat := by omega
  obtain ⟨m, hm⟩ : ∃ m, n.toNat = m + 1 := ⟨n.toNat - 1, by omega⟩
  have hlast : along c s x1 dx = along c s x1 (((m + 1 : Nat) : Rat) * (dx / (n : Rat))) := by rw [← hm]; exact ex2
  -- the head of the accumulated list is the point before the end point
  rw [hm, List.range'_eq_map_range] at *
  simp only [List.range_succ, List.map_append, List.map_cons, List.map_nil, List.reverse_append, List.reverse_cons,
    List.reverse_nil, List.nil_append, List.cons_append, List.map_map, zero_add]
  have hneq : ¬ along c s x1 (((m : Nat) : Rat) * (dx / (n : Rat))) = along c s x1 dx := by
    intro hh
    rw [hlast] at hh
    have := along_inj c s h x1 _ _ hh
    have hpos : 0 < dx / (n : Rat) := lt_of_lt_of_le hs hstep
    push_cast at this
    nlinarith
  simp only [Function.comp_def, zero_add] at *
  rw [if_neg hneq, hlast]

/-! ### intersections of a row with the outline lie on the row -/

/-- The two points defining the row are a non-zero multiple of `(c, s)` apart. -/
def RowDir (c s : Rat) (row : Seg) : Prop :=
  ∃ l : Rat, l ≠ 0 ∧ row.x2 - row.x1 = l * c ∧ row.y2 - row.y1 = l * s

theorem vectorIntersect_onRow (c s tol : Rat) (h : c * c + s * s = 1) (htol : 0 ≤ tol) (l1 row : Seg)
    (hdir : RowDir c s row) (r : Pt) (hr : vectorIntersect l1 row tol = [r]) :
    OnRow c s (row.x1, row.y1) r := by
  obtain ⟨l, hl0, hx, hy⟩ := hdir
  unfold vectorIntersect at hr
  by_cases hc : c = 0
  · -- vertical row
    have hs2 : s * s = 1 := by rw [hc] at h; linarith
    have hs0 : s ≠ 0 := by intro h0; rw [h0] at hs2; norm_num at hs2
    have hrow : slope row.x1 row.y1 row.x2 row.y2 = none := by
      unfold slope; rw [hx, hc]; simp
    rw [hrow] at hr
    cases h1 : slope l1.x1 l1.y1 l1.x2 l1.y2 with
    | none => rw [h1] at hr; simp only at hr; split_ifs at hr <;> simp at hr
    | some ac =>
      rw [h1] at hr
      simp only [List.cons.injEq, and_true] at hr
      refine ⟨(r.2 - row.y1) / s, ?_⟩
      rw [← hr]
      simp only [along, hc]
      ext <;> simp <;> (try field_simp) <;> (try ring)
  · have hlc : l * c ≠ 0 := mul_ne_zero hl0 hc
    have hrow : slope row.x1 row.y1 row.x2 row.y2 = some (s / c, row.y1 - row.x1 * (s / c)) := by
      unfold slope
      rw [if_neg (by rw [hx]; exact hlc), hx, hy]
      have : l * s / (l * c) = s / c := by field_simp
      rw [this]
    rw [hrow] at hr
    have online : ∀ x : Rat, OnRow c s (row.x1, row.y1) (x, s / c * x + (row.y1 - row.x1 * (s / c))) := by
      intro x
      refine ⟨(x - row.x1) / c, ?_⟩
      simp only [along]
      ext <;> simp <;> (try field_simp) <;> (try ring)
    cases h1 : slope l1.x1 l1.y1 l1.x2 l1.y2 with
    | none =>
      rw [h1] at hr
      simp only [List.cons.injEq, and_true] at hr
      rw [← hr]; exact online _
    | some ac =>
      obtain ⟨a1, c1⟩ := ac
      rw [h1] at hr
      simp only at hr
      by_cases hpar : ratAbs (a1 - s / c) ≤ tol
      · rw [if_pos hpar] at hr; simp at hr
      · rw [if_neg hpar] at hr
        simp only [List.cons.injEq, and_true] at hr
        have hne : a1 - s / c ≠ 0 := by
          intro h0
          apply hpar
          rw [h0]; simpa [ratAbs_eq_abs] using htol
        have := online ((row.y1 - row.x1 * (s / c) - c1) / (a1 - s / c))
        rw [← hr]
        convert this using 2
        have hX : (a1 - s / c) * ((row.y1 - row.x1 * (s / c) - c1) / (a1 - s / c)) = row.y1 - row.x1 * (s / c) - c1 :=
          mul_div_cancel₀ _ hne
        rw [mul_div_assoc]
        linarith [hX]

theorem edgeHit_onRow (c s tol : Rat) (h : c * c + s * s = 1) (htol : 0 ≤ tol) (row : Seg)
    (hdir : RowDir c s row) (e : Pt × Pt) (r : Pt) (hr : r ∈ edgeHit row tol e) :
    OnRow c s (row.x1, row.y1) r := by
  unfold edgeHit at hr
  split at hr
  · rename_i r' heq
    by_cases hb : inBox tol e.1 e.2 r' = true
    · rw [if_pos hb] at hr
      simp at hr; subst hr
      exact vectorIntersect_onRow c s tol h htol _ row hdir r heq
    · rw [if_neg hb] at hr; simp at hr
  · simp at hr

theorem rawIntersections_onRow (c s tol : Rat) (h : c * c + s * s = 1) (htol : 0 ≤ tol) (poly : List Pt) (row : Seg)
    (hdir : RowDir c s row) (r : Pt) (hr : r ∈ rawIntersections poly row tol) :
    OnRow c s (row.x1, row.y1) r := by
  unfold rawIntersections at hr
  obtain ⟨e, _, he⟩ := List.mem_flatMap.mp hr
  exact edgeHit_onRow c s tol h htol row hdir e r he

/-! ### sort_intersections: a permutation ordered by the projection -/

theorem mem_insertKey (c s : Rat) (p x : Pt) (l : List Pt) : x ∈ insertKey c s p l ↔ x = p ∨ x ∈ l := by
  induction l with
  | nil => simp [insertKey]
  | cons q qs ih =>
    unfold insertKey
    split_ifs
    · simp
    · simp only [List.mem_cons, ih]; tauto

theorem mem_sortIntersections (c s : Rat) (x : Pt) (l : List Pt) : x ∈ sortIntersections c s l ↔ x ∈ l := by
  unfold sortIntersections
  induction l with
  | nil => simp
  | cons q qs ih => simp only [List.foldr_cons, mem_insertKey, ih, List.mem_cons]

theorem keyLe_proj (c s : Rat) (p q : Pt) (hk : keyLe c s p q = true) : proj c s p ≤ proj c s q := by
  unfold keyLe at hk
  simp only [Bool.or_eq_true, Bool.and_eq_true, decide_eq_true_eq] at hk
  rcases hk with hk | hk
  · exact le_of_lt hk
  · exact le_of_eq hk.1

theorem not_keyLe_proj (c s : Rat) (p q : Pt) (hk : ¬ keyLe c s p q = true) : proj c s q ≤ proj c s p := by
  by_contra hlt
  apply hk
  unfold keyLe
  simp only [Bool.or_eq_true, decide_eq_true_eq]
  exact Or.inl (not_le.mp hlt)

/-- ordered by the position along the row -/
def ProjSorted (c s : Rat) (l : List Pt) : Prop := l.Pairwise (fun p q => proj c s p ≤ proj c s q)

theorem insertKey_sorted (c s : Rat) (p : Pt) (l : List Pt) (hl : ProjSorted c s l) : ProjSorted c s (insertKey c s p l) := by
  induction l with
  | nil => simp [insertKey, ProjSorted]
  | cons q qs ih =>
    unfold ProjSorted at hl ih ⊢
    rw [List.pairwise_cons] at hl
    unfold insertKey
    split_ifs with hk
    · rw [List.pairwise_cons]
      refine ⟨?_, List.pairwise_cons.mpr hl⟩
      intro x hx
      rcases List.mem_cons.mp hx with rfl | hx
      · exact keyLe_proj c s p _ hk
      · exact le_trans (keyLe_proj c s p q hk) (hl.1 x hx)
    · rw [List.pairwise_cons]
      refine ⟨?_, ih hl.2⟩
      intro x hx
      rcases (mem_insertKey c s p x qs).mp hx with rfl | hx
      · exact not_keyLe_proj c s _ q hk
      · exact hl.1 x hx

theorem sortIntersections_sorted (c s : Rat) (l : List Pt) : ProjSorted c s (sortIntersections c s l) := by
  unfold sortIntersections
  induction l with
  | nil => simp [ProjSorted]
  | cons q qs ih => simp only [List.foldr_cons]; exact insertKey_sorted c s q _ ih

theorem dedupe_sublist (tol : Rat) (l : List Pt) : (dedupe tol l).Sublist l := by
  unfold dedupe
  split
  · split_ifs
    · exact List.Sublist.cons_cons _ List.filter_sublist
    · exact List.Sublist.refl _
  · exact List.Sublist.refl _

/-- What the row loop works with: intersections on the row, ordered along it. -/
structure RowList (c s : Rat) (b : Pt) (f : List Pt) : Prop where
  on : ∀ p ∈ f, OnRow c s b p
  sorted : ProjSorted c s f

theorem rowList_of_row (c s tol : Rat) (h : c * c + s * s = 1) (htol : 0 ≤ tol) (poly : List Pt) (row : Seg)
    (hdir : RowDir c s row) : RowList c s (row.x1, row.y1) (dedupe tol (lineIntersect poly row c s tol)) := by
  have hsub := dedupe_sublist tol (lineIntersect poly row c s tol)
  constructor
  · intro p hp
    have hp' := hsub.subset hp
    unfold lineIntersect at hp'
    rw [mem_sortIntersections] at hp'
    exact rawIntersections_onRow c s tol h htol poly row hdir p hp'
  · exact List.Pairwise.sublist hsub (sortIntersections_sorted c s _)

theorem RowList.tail {c s : Rat} {b p : Pt} {f : List Pt} (hf : RowList c s b (p :: f)) : RowList c s b f :=
  ⟨fun q hq => hf.on q (List.mem_cons_of_mem _ hq), (List.pairwise_cons.mp hf.sorted).2⟩

/-- Two members of a row list, the first one earlier: the second is `t ≥ 0` ahead on the row. -/
theorem RowList.ahead {c s : Rat} {b : Pt} (h : c * c + s * s = 1) {p q : Pt} {f : List Pt}
    (hf : RowList c s b (p :: f)) (hq : q ∈ f) :
    q = along c s p (proj c s q - proj c s p) ∧ 0 ≤ proj c s q - proj c s p := by
  refine ⟨onRow_pair c s h b p q (hf.on p (by simp)) (hf.on q (List.mem_cons_of_mem _ hq)), ?_⟩
  have := (List.pairwise_cons.mp hf.sorted).1 q hq
  linarith

/-! ### the row loops never diverge -/

theorem evenLoop_nodiv (c s space : Rat) (h : c * c + s * s = 1) (hs : 0 < space) (b : Pt)
    (prev : Option Pt) (f : List Pt) (acc : List Pt) (hf : RowList c s b f)
    (hprev : ∀ r, prev = some r → OnRow c s b r ∧ ∀ p ∈ f, proj c s r ≤ proj c s p) :
    evenLoop c s space prev f acc ≠ .error .other := by
  fun_induction evenLoop c s space prev f acc with
  | case1 prev p q rest acc drs seg e hres =>
    obtain ⟨hq, hq0⟩ := hf.ahead h (List.mem_cons_self)
    have hdrs : drs = proj c s q - proj c s p := by
      show rowDist c s p q = _
      rw [hq, rowDist_along_self c s h, abs_of_nonneg hq0, ← hq]
    have hdrs0 : 0 ≤ drs := by rw [hdrs]; exact hq0
    have hcases : seg = (p, q) ∨ seg = (p, along c s q (-drs)) ∨
        ∃ r, rowDist c s p r < space ∧ seg = (along c s p (rowDist c s p r), q) := by
      cases prev with
      | none =>
        by_cases h2 : drs < space
        · right; left; simp only [seg, if_pos h2]
        · left; simp only [seg, if_neg h2]
      | some r =>
        by_cases h1 : rowDist c s p r < space
        · right; right; exact ⟨r, h1, by simp only [seg, if_pos h1]⟩
        · by_cases h2 : drs < space
          · right; left; simp only [seg, if_neg h1, if_pos h2]
          · left; simp only [seg, if_neg h1, if_neg h2]
    have hseg : ∃ t, seg.2 = along c s seg.1 t ∧ (0 ≤ t ∨ |t| < space) := by
      rcases hcases with e | e | ⟨r, hlt, e⟩
      · rw [e]; exact ⟨_, hq, Or.inl hq0⟩
      · rw [e]
        refine ⟨0, ?_, Or.inl le_rfl⟩
        simp only [along_zero]
        rw [hdrs]; nth_rewrite 1 [hq]
        rw [along_along]; simp
      · rw [e]
        refine ⟨drs - rowDist c s p r, ?_, ?_⟩
        · simp only [along_along]
          rw [hdrs]; nth_rewrite 1 [hq]; congr 1; ring
        · by_cases hpos : 0 ≤ drs - rowDist c s p r
          · exact Or.inl hpos
          · right
            have hnn := rowDist_nonneg c s p r
            rw [abs_of_neg (not_le.mp hpos)]; linarith
    obtain ⟨t, ht, hcond⟩ := hseg
    have hp := processRows_nodiv c s space h hs seg.1 t hcond acc
    rw [← ht, hres] at hp
    exact hp
  | case2 prev p q rest acc drs seg acc' hres ih =>
    apply ih hf.tail.tail
    intro r hr
    simp only [Option.some.injEq] at hr; subst hr
    exact ⟨hf.on _ (by simp), fun x hx => (List.pairwise_cons.mp hf.tail.sorted).1 x hx⟩
  | case3 => simp

theorem oddLoop_nodiv (poly : List Pt) (c s space : Rat) (h : c * c + s * s = 1) (hs : 0 < space) (b : Pt)
    (f : List Pt) (acc : List Pt) (hf : RowList c s b f) :
    oddLoop poly c s space f acc ≠ .error .other := by
  fun_induction oddLoop poly c s space f acc with
  | case1 p q rest acc hin e hres =>
    obtain ⟨hq, hq0⟩ := hf.ahead h (List.mem_cons_self)
    have hp := processRows_nodiv c s space h hs p _ (Or.inl hq0) acc
    rw [← hq, hres] at hp
    exact hp
  | case2 p q rest acc hin acc' hres ih => exact ih hf.tail
  | case3 p q rest acc hin ih => exact ih hf.tail
  | case4 => simp

theorem rowStep_nodiv (poly : List Pt) (c s tol space : Rat) (h : c * c + s * s = 1) (hs : 0 < space) (htol : 0 ≤ tol)
    (row : Seg) (hdir : RowDir c s row) (acc : List Pt) :
    rowStep poly c s tol space row acc ≠ .error .other := by
  have hf := rowList_of_row c s tol h htol poly row hdir
  unfold rowStep
  simp only
  split_ifs with hpar
  · split
    · split_ifs
      · simp
      · exact evenLoop_nodiv c s space h hs _ none _ acc hf (by simp)
    · exact evenLoop_nodiv c s space h hs _ none _ acc hf (by simp)
  · split
    · simp
    · exact oddLoop_nodiv poly c s space h hs _ _ acc hf

theorem rowsLoop_nodiv (poly : List Pt) (c s tol space : Rat) (h : c * c + s * s = 1) (hs : 0 < space) (htol : 0 ≤ tol)
    (lowest : Pt) (rs0 rs1 : Rat) (hdir : ∀ k, RowDir c s (rowSeg lowest rs0 rs1 k)) (ks : List Nat) (acc : List Pt) :
    rowsLoop poly c s tol space lowest rs0 rs1 ks acc ≠ .error .other := by
  induction ks generalizing acc with
  | nil => simp [rowsLoop]
  | cons k ks ih =>
    unfold rowsLoop
    have := rowStep_nodiv poly c s tol space h hs htol _ (hdir k) acc
    cases hres : rowStep poly c s tol space (rowSeg lowest rs0 rs1 k) acc with
    | error e => rw [hres] at this; simpa using this
    | ok acc' => exact ih acc'

theorem pointShift_ne : Gen.RowWise.pointShift ≠ 0 := by unfold Gen.RowWise.pointShift; norm_num

/-- What `rowPlan` returns: the row step is a non-zero multiple `sp` of the unit normal. -/
theorem rowPlan_ok (poly : List Pt) (c s ySpace : Rat) (numRows : Int) (lowest : Pt) (rs0 rs1 : Rat)
    (hp : rowPlan poly c s ySpace = .ok (numRows, lowest, rs0, rs1)) :
    ∃ lo hi hv, extremes c s poly none none = (some (lo, lowest), some (hi, hv)) ∧ ySpace ≠ 0 ∧
      numRows = ((hi - lo) / ySpace).floor ∧ numRows ≠ 0 ∧
      rs0 = -1 * ((hi - lo) / (numRows : Rat)) * s ∧ rs1 = (hi - lo) / (numRows : Rat) * c := by
  unfold rowPlan at hp
  split at hp
  · rename_i lo lowest' hi hv heq
    by_cases h1 : ySpace = 0
    · rw [if_pos h1] at hp; simp at hp
    · rw [if_neg h1] at hp
      simp only at hp
      by_cases h2 : ((hi - lo) / ySpace).floor = 0
      · rw [if_pos h2] at hp; simp at hp
      · rw [if_neg h2] at hp
        simp only [Except.ok.injEq, Prod.mk.injEq] at hp
        obtain ⟨e1, e2, e3, e4⟩ := hp
        subst e2
        exact ⟨lo, hi, hv, heq, h1, e1.symm, by rw [← e1]; exact h2, by rw [← e3, ← e1], by rw [← e4, ← e1]⟩
  · simp at hp

theorem rowPlan_err (poly : List Pt) (c s ySpace : Rat) (e : PyErr) (hp : rowPlan poly c s ySpace = .error e) :
    e ≠ .other := by
  unfold rowPlan at hp
  split at hp
  · rename_i lo lowest' hi hv heq
    by_cases h1 : ySpace = 0
    · rw [if_pos h1] at hp; simp at hp; subst hp; simp
    · rw [if_neg h1] at hp
      simp only at hp
      by_cases h2 : ((hi - lo) / ySpace).floor = 0
      · rw [if_pos h2] at hp; simp at hp; subst hp; simp
      · rw [if_neg h2] at hp; simp at hp
  · simp at hp; subst hp; simp

theorem verticalRowRatio_nonneg : 0 ≤ Gen.RowWise.verticalRowRatio := by
  unfold Gen.RowWise.verticalRowRatio; norm_num

/-- The rotation is not in the band where a row is declared vertical without being vertical. -/
def NoBand (c s : Rat) : Prop := c = 0 ∨ Gen.RowWise.verticalRowRatio * |s| < |c|

theorem rowSeg_dir (c s : Rat) (h : c * c + s * s = 1) (hband : NoBand c s) (lowest : Pt) (sp : Rat) (hsp : sp ≠ 0) (k : Nat) :
    RowDir c s (rowSeg lowest (-1 * sp * s) (sp * c) k) := by
  unfold rowSeg
  simp only
  have hK := verticalRowRatio_nonneg
  by_cases hc : c = 0
  · have hs2 : s * s = 1 := by rw [hc] at h; linarith
    have hs0 : s ≠ 0 := by intro h0; rw [h0] at hs2; norm_num at hs2
    rw [if_pos (by
      rw [hc, mul_zero, ratAbs_eq_abs, ratAbs_eq_abs, abs_zero]
      exact mul_nonneg hK (abs_nonneg _))]
    refine ⟨Gen.RowWise.pointShift / s, div_ne_zero pointShift_ne hs0, ?_, ?_⟩
    · simp [hc]
    · simp; field_simp
  · have hlt : Gen.RowWise.verticalRowRatio * |s| < |c| := by
      rcases hband with h0 | h0
      · exact absurd h0 hc
      · exact h0
    rw [if_neg (by
      rw [ratAbs_eq_abs, ratAbs_eq_abs, not_le]
      have e1 : |sp * c| = |sp| * |c| := abs_mul sp c
      have e2 : |-1 * sp * s| = |sp| * |s| := by rw [neg_one_mul, neg_mul, abs_neg, abs_mul]
      rw [e1, e2]
      have hsp0 : 0 < |sp| := abs_pos.mpr hsp
      nlinarith)]
    refine ⟨Gen.RowWise.pointShift / c, div_ne_zero pointShift_ne hc, ?_, ?_⟩
    · simp; field_simp
    · simp; field_simp

/-- **Generation terminates** (model): whatever the outline, `gen_borehole_config` never runs into
    the unbounded `distribute` loop. -/
theorem genBoreholeConfig_nodiv (poly : List Pt) (ySpace xSpace c s tol : Rat) (h : c * c + s * s = 1)
    (hband : NoBand c s) (hs : 0 < xSpace) (htol : 0 ≤ tol) :
    genBoreholeConfig poly ySpace xSpace c s tol ≠ .error .other := by
  unfold genBoreholeConfig
  cases hp : rowPlan poly c s ySpace with
  | error e =>
    simp only
    intro hh
    simp only [Except.error.injEq] at hh
    exact rowPlan_err poly c s ySpace e hp hh
  | ok plan =>
    obtain ⟨numRows, lowest, rs0, rs1⟩ := plan
    obtain ⟨lo, hi, hv, _, hy0, hnr, hnr0, h0, h1⟩ := rowPlan_ok poly c s ySpace numRows lowest rs0 rs1 hp
    simp only
    have hsp : (hi - lo) / (numRows : Rat) ≠ 0 := by
      intro hz
      have hnq : (numRows : Rat) ≠ 0 := by exact_mod_cast hnr0
      have hd : hi - lo = 0 := by
        rcases div_eq_zero_iff.mp hz with h' | h'
        · exact h'
        · exact absurd h' hnq
      apply hnr0
      rw [hnr, hd, zero_div]; exact (Int.floor_zero : ⌊(0 : ℚ)⌋ = 0)
    have hdir : ∀ k, RowDir c s (rowSeg lowest rs0 rs1 k) := by
      intro k; rw [h0, h1]; exact rowSeg_dir c s h hband lowest _ hsp k
    have := rowsLoop_nodiv poly c s tol xSpace h hs htol lowest rs0 rs1 hdir (List.range (numRows + 1).toNat) []
    cases hres : rowsLoop poly c s tol xSpace lowest rs0 rs1 (List.range (numRows + 1).toNat) [] with
    | error e => rw [hres] at this; simpa using this
    | ok acc => simp

/-! ### boreholes stay in every half-plane that contains the outline (up to the intersection tolerance) -/

/-- closed under taking points between two of its members along the row -/
def RowConvex (c s : Rat) (P : Pt → Prop) : Prop :=
  ∀ p t u, P p → P (along c s p t) → ((0 ≤ u ∧ u ≤ t) ∨ (t ≤ u ∧ u ≤ 0)) → P (along c s p u)

theorem halfplane_rowConvex (c s a b β : Rat) : RowConvex c s (fun p => a * p.1 + b * p.2 ≤ β) := by
  intro p t u hp ht hu
  simp only [along] at ht ⊢
  rcases hu with ⟨h0, h1⟩ | ⟨h1, h0⟩
  · by_cases hk : 0 ≤ a * c + b * s
    · nlinarith
    · nlinarith
  · by_cases hk : 0 ≤ a * c + b * s
    · nlinarith
    · nlinarith

theorem mid_along (c s : Rat) (p : Pt) (t : Rat) : mid p (along c s p t) = along c s p (t / 2) := by
  simp only [mid, along]; ext <;> simp <;> ring

theorem mid_comm (p q : Pt) : mid p q = mid q p := by
  simp only [mid]; ext <;> simp <;> ring

theorem distribute_inv (c s spacing : Rat) (h : c * c + s * s = 1) (hs : 0 < spacing) (P : Pt → Prop)
    (hP : RowConvex c s P) (x1 : Pt) (t : Rat) (ht : 0 ≤ t ∨ |t| < spacing) (h1 : P x1) (h2 : P (along c s x1 t))
    (acc r : List Pt) (hacc : ∀ a ∈ acc, P a) (hr : distribute c s spacing x1 (along c s x1 t) acc = .ok r) :
    ∀ a ∈ r, P a := by
  have hmid : P (mid x1 (along c s x1 t)) := by
    rw [mid_along]
    apply hP x1 t (t / 2) h1 h2
    rcases le_total 0 t with h0 | h0
    · left; constructor <;> linarith
    · right; constructor <;> linarith
  unfold distribute at hr
  simp only [rowDist_along_self c s h] at hr
  by_cases hc1 : |t| < spacing
  · rw [if_pos hc1] at hr
    simp only [Except.ok.injEq] at hr; subst hr
    intro a ha
    rcases mem_pushNew _ _ _ ha with rfl | ha
    · exact hmid
    · exact hacc a ha
  · rw [if_neg hc1, if_neg (ne_of_gt hs)] at hr
    have ht0 : 0 ≤ t := by
      rcases ht with ht | ht
      · exact ht
      · exact absurd ht hc1
    rw [abs_of_nonneg ht0] at hr hc1
    have hn : 1 ≤ (t / spacing).floor := floor_pos_of_le t spacing hs (not_lt.mp hc1)
    set n : Int := (t / spacing).floor with hndef
    rw [if_neg (by omega : ¬ n = 0)] at hr
    have hcast : ((n.toNat : Nat) : Rat) = (n : Rat) := by
      have : ((n.toNat : Nat) : Int) = n := Int.toNat_of_nonneg (by omega)
      exact_mod_cast this
    have hnq : (0 : Rat) < (n : Rat) := by exact_mod_cast (by omega : 0 < n)
    have hstep0 : 0 ≤ t / (n : Rat) := div_nonneg ht0 (le_of_lt hnq)
    have ex2 : along c s x1 t = along c s x1 (((n.toNat : Nat) : Rat) * (t / (n : Rat))) := by
      rw [hcast]; congr 1; field_simp
    have h0 : x1 = along c s x1 (((0 : Nat) : Rat) * (t / (n : Rat))) := by simp
    have hvisited : ∀ j : Nat, j ≤ n.toNat → P (along c s x1 ((j : Rat) * (t / (n : Rat)))) := by
      intro j hj
      apply hP x1 t _ h1 h2
      left
      refine ⟨mul_nonneg (Nat.cast_nonneg _) hstep0, ?_⟩
      have : (j : Rat) ≤ (n : Rat) := by rw [← hcast]; exact_mod_cast hj
      calc (j : Rat) * (t / (n : Rat)) ≤ (n : Rat) * (t / (n : Rat)) := mul_le_mul_of_nonneg_right this hstep0
        _ = t := by field_simp
    cases hres : distLoop c s Gen.RowWise.distributeTol (t / (n : Rat)) (along c s x1 t) (n.toNat + 2) x1 acc with
    | none => rw [hres] at hr; simp at hr
    | some r0 =>
      rw [hres] at hr
      have hmem : ∀ a ∈ r0, P a := by
        intro a ha
        rw [ex2] at hres
        nth_rewrite 2 [h0] at hres
        rcases distLoop_mem c s Gen.RowWise.distributeTol (t / (n : Rat)) h distributeTol_pos x1 n.toNat n.toNat 0
          (n.toNat + 2) acc r0 (by omega) hres a ha with hin | ⟨j, hj, rfl⟩
        · exact hacc a hin
        · exact hvisited j hj
      cases r0 with
      | nil => simp at hr
      | cons q r' =>
        simp only [Except.ok.injEq] at hr
        subst hr
        intro a ha
        split_ifs at ha
        · exact hmem a ha
        · rcases List.mem_cons.mp ha with rfl | ha
          · exact h2
          · exact hmem a ha

theorem processRows_inv (c s space : Rat) (h : c * c + s * s = 1) (hs : 0 < space) (P : Pt → Prop)
    (hP : RowConvex c s P) (x1 : Pt) (t : Rat) (ht : 0 ≤ t ∨ |t| < space) (h1 : P x1) (h2 : P (along c s x1 t))
    (acc r : List Pt) (hacc : ∀ a ∈ acc, P a) (hr : processRows c s space x1 (along c s x1 t) acc = .ok r) :
    ∀ a ∈ r, P a := by
  unfold processRows at hr
  rw [if_neg (ne_of_gt hs)] at hr
  split_ifs at hr
  · simp only [Except.ok.injEq] at hr; subst hr
    intro a ha
    rcases mem_pushNew _ _ _ ha with rfl | ha
    · rw [mid_comm, mid_along]
      apply hP x1 t (t / 2) h1 h2
      rcases le_total 0 t with h0 | h0
      · left; constructor <;> linarith
      · right; constructor <;> linarith
    · exact hacc a ha
  · exact distribute_inv c s space h hs P hP x1 t ht h1 h2 acc r hacc hr

theorem oddLoop_inv (poly : List Pt) (c s space : Rat) (h : c * c + s * s = 1) (hs : 0 < space) (P : Pt → Prop)
    (hP : RowConvex c s P) (b : Pt) (f : List Pt) (acc r : List Pt) (hf : RowList c s b f) (hfP : ∀ p ∈ f, P p)
    (hacc : ∀ a ∈ acc, P a) (hr : oddLoop poly c s space f acc = .ok r) : ∀ a ∈ r, P a := by
  fun_induction oddLoop poly c s space f acc with
  | case1 p q rest acc hin e hres => simp at hr
  | case2 p q rest acc hin acc' hres ih =>
    obtain ⟨hq, hq0⟩ := hf.ahead h (List.mem_cons_self)
    apply ih hf.tail (fun x hx => hfP x (List.mem_cons_of_mem _ hx)) _ hr
    rw [hq] at hres
    exact processRows_inv c s space h hs P hP p _ (Or.inl hq0) (hfP p (by simp)) (by rw [← hq]; exact hfP q (by simp)) acc acc' hacc hres
  | case3 p q rest acc hin ih => exact ih hf.tail (fun x hx => hfP x (List.mem_cons_of_mem _ hx)) hacc hr
  | case4 l acc hl => simp only [Except.ok.injEq] at hr; subst hr; exact hacc

/-- One row, when an even number of intersections means at most two (always so on a convex outline). -/
theorem rowStep_inv (poly : List Pt) (c s tol space : Rat) (h : c * c + s * s = 1) (hs : 0 < space) (htol : 0 ≤ tol)
    (P : Pt → Prop) (hP : RowConvex c s P) (row : Seg) (hdir : RowDir c s row)
    (hsimple : (dedupe tol (lineIntersect poly row c s tol)).length % 2 = 0 →
      (dedupe tol (lineIntersect poly row c s tol)).length ≤ 2)
    (hfP : ∀ p ∈ rawIntersections poly row tol, P p)
    (acc r : List Pt) (hacc : ∀ a ∈ acc, P a) (hr : rowStep poly c s tol space row acc = .ok r) : ∀ a ∈ r, P a := by
  have hf := rowList_of_row c s tol h htol poly row hdir
  have hfP' : ∀ p ∈ dedupe tol (lineIntersect poly row c s tol), P p := by
    intro p hp
    have hp' := (dedupe_sublist tol _).subset hp
    unfold lineIntersect at hp'
    rw [mem_sortIntersections] at hp'
    exact hfP p hp'
  unfold rowStep at hr
  simp only at hr
  generalize dedupe tol (lineIntersect poly row c s tol) = f at *
  by_cases hpar : f.length % 2 = 0
  · rw [if_pos hpar] at hr
    have hlen := hsimple hpar
    match f, hlen, hpar with
    | [], _, _ =>
      simp only [evenLoop, Except.ok.injEq] at hr; subst hr; exact hacc
    | [p], _, hp => simp at hp
    | [p, q], _, _ =>
      simp only at hr
      by_cases hshort : rowDist c s p q < space
      · rw [if_pos hshort] at hr
        simp only [Except.ok.injEq] at hr; subst hr
        intro a ha
        rcases List.mem_cons.mp ha with rfl | ha
        · exact hfP' _ (by simp)
        · exact hacc a ha
      · rw [if_neg hshort] at hr
        obtain ⟨hq, hq0⟩ := hf.ahead h (List.mem_cons_self)
        unfold evenLoop at hr
        simp only [if_neg hshort] at hr
        cases hres : processRows c s space p q acc with
        | error e => rw [hres] at hr; simp at hr
        | ok acc' =>
          rw [hres] at hr
          simp only [evenLoop, Except.ok.injEq] at hr; subst hr
          rw [hq] at hres
          exact processRows_inv c s space h hs P hP p _ (Or.inl hq0) (hfP' p (by simp)) (by rw [← hq]; exact hfP' q (by simp)) acc _ hacc hres
    | _ :: _ :: _ :: _, hl, _ => simp at hl
  · rw [if_neg hpar] at hr
    match f with
    | [p] =>
      simp only [Except.ok.injEq] at hr; subst hr
      intro a ha
      rcases mem_pushNew _ _ _ ha with rfl | ha
      · exact hfP' _ (by simp)
      · exact hacc a ha
    | [] => simp at hpar
    | p :: q :: rest => exact oddLoop_inv poly c s space h hs P hP _ _ acc r hf hfP' hacc hr


/-! ### an intersection point lies on its edge, within the tolerance box -/

theorem inBox_iff (tol : Rat) (c1 c2 r : Pt) : inBox tol c1 c2 r = true ↔
    (r.1 - max c2.1 c1.1 ≤ tol ∧ -tol ≤ r.1 - min c2.1 c1.1 ∧ r.2 - max c2.2 c1.2 ≤ tol ∧ -tol ≤ r.2 - min c2.2 c1.2) := by
  unfold inBox
  simp only [ratMax_eq_max, ratMin_eq_min, Bool.not_eq_true', Bool.or_eq_false_iff, decide_eq_false_iff_not, not_lt,
    gt_iff_lt, neg_mul, one_mul]
  tauto

/-- one coordinate: a point `u ≥ 1` along the edge that still passes the box test is within `tol` of the end -/
theorem box_excess (x1 x2 r tol u : Rat) (hr : r - x2 = (u - 1) * (x2 - x1)) (hu : 1 ≤ u)
    (hhi : r - max x2 x1 ≤ tol) (hlo : -tol ≤ r - min x2 x1) : |r - x2| ≤ tol := by
  rcases le_total x1 x2 with hx | hx
  · rw [max_eq_left hx] at hhi
    have : 0 ≤ r - x2 := by rw [hr]; exact mul_nonneg (by linarith) (by linarith)
    rw [abs_of_nonneg this]; exact hhi
  · rw [min_eq_left hx] at hlo
    have : r - x2 ≤ 0 := by rw [hr]; exact mul_nonpos_of_nonneg_of_nonpos (by linarith) (by linarith)
    rw [abs_of_nonpos this]; linarith

theorem mul_le_abs_tol (a d tol : Rat) (hd : |d| ≤ tol) : a * d ≤ tol * |a| := by
  calc a * d ≤ |a * d| := le_abs_self _
    _ = |a| * |d| := abs_mul a d
    _ ≤ |a| * tol := mul_le_mul_of_nonneg_left hd (abs_nonneg a)
    _ = tol * |a| := mul_comm _ _

/-- A hit of the row on edge `(v1, v2)`: it satisfies every linear inequality that both end points
    satisfy, up to `tol (|a| + |b|)`. -/
theorem edgeHit_halfplane (tol : Rat) (htol : 0 ≤ tol) (row : Seg) (v1 v2 r : Pt) (a b β : Rat)
    (h1 : a * v1.1 + b * v1.2 ≤ β) (h2 : a * v2.1 + b * v2.2 ≤ β) (hr : r ∈ edgeHit row tol (v1, v2)) :
    a * r.1 + b * r.2 ≤ β + tol * (|a| + |b|) := by
  unfold edgeHit at hr
  split at hr
  swap
  · simp at hr
  rename_i r' heq
  by_cases hb : inBox tol v1 v2 r' = true
  swap
  · rw [if_neg hb] at hr; simp at hr
  rw [if_pos hb] at hr
  simp only [List.mem_cons, List.not_mem_nil, or_false] at hr
  subst hr
  obtain ⟨bx1, bx2, by1, by2⟩ := (inBox_iff tol v1 v2 r).mp hb
  have hslack : 0 ≤ tol * (|a| + |b|) := mul_nonneg htol (add_nonneg (abs_nonneg _) (abs_nonneg _))
  unfold vectorIntersect at heq
  simp only at heq
  cases hs1 : slope v1.1 v1.2 v2.1 v2.2 with
  | none =>
    -- vertical edge: r.1 = v1.1 = v2.1
    have hvx : v2.1 - v1.1 = 0 := by
      unfold slope at hs1
      by_contra hne
      rw [if_neg hne] at hs1; simp at hs1
    have hx21 : v2.1 = v1.1 := by linarith
    rw [hs1] at heq
    have hrx : r.1 = v1.1 := by
      cases hs2 : slope row.x1 row.y1 row.x2 row.y2 with
      | none => rw [hs2] at heq; simp only at heq; split_ifs at heq <;> simp at heq
      | some ac => rw [hs2] at heq; simp only [List.cons.injEq, and_true] at heq; rw [← heq]
    rcases le_total v1.2 v2.2 with hy | hy
    · rw [max_eq_left hy] at by1
      rw [min_eq_right hy] at by2
      rcases le_total 0 b with hb0 | hb0
      · have : b * r.2 ≤ b * v2.2 + tol * |b| := by rw [abs_of_nonneg hb0]; nlinarith
        have : tol * |a| ≥ 0 := mul_nonneg htol (abs_nonneg _)
        rw [hrx, ← hx21]; nlinarith
      · have : b * r.2 ≤ b * v1.2 + tol * |b| := by rw [abs_of_nonpos hb0]; nlinarith
        have : tol * |a| ≥ 0 := mul_nonneg htol (abs_nonneg _)
        rw [hrx]; nlinarith
    · rw [max_eq_right hy] at by1
      rw [min_eq_left hy] at by2
      rcases le_total 0 b with hb0 | hb0
      · have : b * r.2 ≤ b * v1.2 + tol * |b| := by rw [abs_of_nonneg hb0]; nlinarith
        have : tol * |a| ≥ 0 := mul_nonneg htol (abs_nonneg _)
        rw [hrx]; nlinarith
      · have : b * r.2 ≤ b * v2.2 + tol * |b| := by rw [abs_of_nonpos hb0]; nlinarith
        have : tol * |a| ≥ 0 := mul_nonneg htol (abs_nonneg _)
        rw [hrx, ← hx21]; nlinarith
  | some ac1 =>
    obtain ⟨a1, c1⟩ := ac1
    have hdx : v2.1 - v1.1 ≠ 0 := by
      unfold slope at hs1
      intro h0; rw [if_pos h0] at hs1; simp at hs1
    have hac : a1 = (v2.2 - v1.2) / (v2.1 - v1.1) ∧ c1 = v1.2 - v1.1 * a1 := by
      unfold slope at hs1
      rw [if_neg hdx] at hs1
      simp only [Option.some.injEq, Prod.mk.injEq] at hs1
      exact ⟨hs1.1.symm, by rw [← hs1.2, hs1.1]⟩
    rw [hs1] at heq
    -- the point is on the line of the edge
    have hline : r.2 = a1 * r.1 + c1 := by
      cases hs2 : slope row.x1 row.y1 row.x2 row.y2 with
      | none => rw [hs2] at heq; simp only [List.cons.injEq, and_true] at heq; rw [← heq]
      | some ac2 =>
        rw [hs2] at heq
        simp only at heq
        by_cases hpar : ratAbs (a1 - ac2.1) ≤ tol
        · rw [if_pos hpar] at heq; simp at heq
        · rw [if_neg hpar] at heq
          simp only [List.cons.injEq, and_true] at heq
          rw [← heq]; simp only; rw [mul_div_assoc]
    -- parameter along the edge
    set u := (r.1 - v1.1) / (v2.1 - v1.1) with hu
    have hx : r.1 = v1.1 + u * (v2.1 - v1.1) := by rw [hu]; field_simp; ring
    have hy : r.2 = v1.2 + u * (v2.2 - v1.2) := by
      rw [hline, hac.2, hx, hac.1]; field_simp; ring
    rcases le_total 1 u with hu1 | hu1
    · have ex : |r.1 - v2.1| ≤ tol := box_excess v1.1 v2.1 r.1 tol u (by rw [hx]; ring) hu1 bx1 bx2
      have ey : |r.2 - v2.2| ≤ tol := box_excess v1.2 v2.2 r.2 tol u (by rw [hy]; ring) hu1 by1 by2
      have e1 := mul_le_abs_tol a _ tol ex
      have e2 := mul_le_abs_tol b _ tol ey
      nlinarith
    · rcases le_total u 0 with hu0 | hu0
      · have ex : |r.1 - v1.1| ≤ tol :=
          box_excess v2.1 v1.1 r.1 tol (1 - u) (by rw [hx]; ring) (by linarith) (by rw [max_comm]; exact bx1) (by rw [min_comm]; exact bx2)
        have ey : |r.2 - v1.2| ≤ tol :=
          box_excess v2.2 v1.2 r.2 tol (1 - u) (by rw [hy]; ring) (by linarith) (by rw [max_comm]; exact by1) (by rw [min_comm]; exact by2)
        have e1 := mul_le_abs_tol a _ tol ex
        have e2 := mul_le_abs_tol b _ tol ey
        nlinarith
      · have : a * r.1 + b * r.2 = (1 - u) * (a * v1.1 + b * v1.2) + u * (a * v2.1 + b * v2.2) := by rw [hx, hy]; ring
        rw [this]
        nlinarith

theorem mem_edges (poly : List Pt) (e : Pt × Pt) (he : e ∈ edges poly) : e.1 ∈ poly ∧ e.2 ∈ poly := by
  unfold edges at he
  have h1 := (List.of_mem_zip he).1
  have h2 := (List.of_mem_zip he).2
  refine ⟨h1, ?_⟩
  rcases List.mem_append.mp h2 with h | h
  · exact List.mem_of_mem_drop h
  · exact List.mem_of_mem_take h

theorem rawIntersections_halfplane (tol : Rat) (htol : 0 ≤ tol) (poly : List Pt) (row : Seg) (a b β : Rat)
    (hpoly : ∀ v ∈ poly, a * v.1 + b * v.2 ≤ β) (r : Pt) (hr : r ∈ rawIntersections poly row tol) :
    a * r.1 + b * r.2 ≤ β + tol * (|a| + |b|) := by
  unfold rawIntersections at hr
  obtain ⟨e, he, hre⟩ := List.mem_flatMap.mp hr
  obtain ⟨m1, m2⟩ := mem_edges poly e he
  exact edgeHit_halfplane tol htol row e.1 e.2 r a b β (hpoly _ m1) (hpoly _ m2) hre

/-! ### all rows, duplicate removal -/

theorem rowsLoop_inv (poly : List Pt) (c s tol space : Rat) (h : c * c + s * s = 1) (hs : 0 < space) (htol : 0 ≤ tol)
    (P : Pt → Prop) (hP : RowConvex c s P) (lowest : Pt) (rs0 rs1 : Rat)
    (hdir : ∀ k, RowDir c s (rowSeg lowest rs0 rs1 k)) (ks : List Nat)
    (hsimple : ∀ k ∈ ks, (dedupe tol (lineIntersect poly (rowSeg lowest rs0 rs1 k) c s tol)).length % 2 = 0 →
      (dedupe tol (lineIntersect poly (rowSeg lowest rs0 rs1 k) c s tol)).length ≤ 2)
    (hfP : ∀ k, ∀ p ∈ rawIntersections poly (rowSeg lowest rs0 rs1 k) tol, P p)
    (acc r : List Pt) (hacc : ∀ a ∈ acc, P a)
    (hr : rowsLoop poly c s tol space lowest rs0 rs1 ks acc = .ok r) : ∀ a ∈ r, P a := by
  induction ks generalizing acc with
  | nil => simp only [rowsLoop, Except.ok.injEq] at hr; subst hr; exact hacc
  | cons k ks ih =>
    unfold rowsLoop at hr
    cases hres : rowStep poly c s tol space (rowSeg lowest rs0 rs1 k) acc with
    | error e => rw [hres] at hr; simp at hr
    | ok acc' =>
      rw [hres] at hr
      exact ih (fun k' hk' => hsimple k' (List.mem_cons_of_mem _ hk')) acc'
        (rowStep_inv poly c s tol space h hs htol P hP _ (hdir k) (hsimple k (by simp)) (hfP k) acc acc' hacc hres) hr

theorem removeDupAux_subset (tolSq : Rat) (seen l : List Pt) : ∀ a ∈ removeDupAux tolSq seen l, a ∈ l := by
  induction l generalizing seen with
  | nil => simp [removeDupAux]
  | cons p ps ih =>
    intro a ha
    unfold removeDupAux at ha
    split_ifs at ha
    · exact List.mem_cons_of_mem _ (ih _ a ha)
    · rcases List.mem_cons.mp ha with rfl | ha
      · simp
      · exact List.mem_cons_of_mem _ (ih _ a ha)

theorem removeDuplicates_subset (space : Rat) (l : List Pt) : ∀ a ∈ removeDuplicates space l, a ∈ l :=
  removeDupAux_subset _ [] l

/-- Every row of the run has at most two intersections when their number is even (a line meets
    a convex outline in at most two points; a vertex hit adds a duplicate and makes the number odd). -/
def RowsSimple (poly : List Pt) (ySpace c s tol : Rat) : Prop :=
  ∀ numRows lowest rs0 rs1, rowPlan poly c s ySpace = .ok (numRows, lowest, rs0, rs1) →
    ∀ k ∈ List.range (numRows + 1).toNat,
      (dedupe tol (lineIntersect poly (rowSeg lowest rs0 rs1 k) c s tol)).length % 2 = 0 →
      (dedupe tol (lineIntersect poly (rowSeg lowest rs0 rs1 k) c s tol)).length ≤ 2

/-- **Inside**: every borehole satisfies every linear inequality `a x + b y ≤ β` that all vertices of
    the outline satisfy, up to `tol (|a| + |b|)` — i.e. it lies in the convex hull of the outline
    widened by the intersection tolerance (for a convex outline: inside or on the outline). -/
theorem genBoreholeConfig_inside (poly : List Pt) (ySpace xSpace c s tol : Rat) (h : c * c + s * s = 1)
    (hband : NoBand c s) (hs : 0 < xSpace) (htol : 0 ≤ tol) (hsimple : RowsSimple poly ySpace c s tol) (a b β : Rat)
    (hpoly : ∀ v ∈ poly, a * v.1 + b * v.2 ≤ β) (field : List Pt)
    (hr : genBoreholeConfig poly ySpace xSpace c s tol = .ok field) :
    ∀ p ∈ field, a * p.1 + b * p.2 ≤ β + tol * (|a| + |b|) := by
  unfold genBoreholeConfig at hr
  cases hp : rowPlan poly c s ySpace with
  | error e => rw [hp] at hr; simp at hr
  | ok plan =>
    obtain ⟨numRows, lowest, rs0, rs1⟩ := plan
    rw [hp] at hr
    simp only at hr
    obtain ⟨lo, hi, hv, _, hy0, hnr, hnr0, h0, h1⟩ := rowPlan_ok poly c s ySpace numRows lowest rs0 rs1 hp
    have hsp : (hi - lo) / (numRows : Rat) ≠ 0 := by
      intro hz
      have hnq : (numRows : Rat) ≠ 0 := by exact_mod_cast hnr0
      have hd : hi - lo = 0 := by
        rcases div_eq_zero_iff.mp hz with h' | h'
        · exact h'
        · exact absurd h' hnq
      apply hnr0
      rw [hnr, hd, zero_div]; exact (Int.floor_zero : ⌊(0 : ℚ)⌋ = 0)
    have hdir : ∀ k, RowDir c s (rowSeg lowest rs0 rs1 k) := by
      intro k; rw [h0, h1]; exact rowSeg_dir c s h hband lowest _ hsp k
    cases hres : rowsLoop poly c s tol xSpace lowest rs0 rs1 (List.range (numRows + 1).toNat) [] with
    | error e => rw [hres] at hr; simp at hr
    | ok acc =>
      rw [hres] at hr
      simp only [Except.ok.injEq] at hr
      subst hr
      intro p hp'
      have hp2 := removeDuplicates_subset xSpace _ p hp'
      rw [List.mem_reverse] at hp2
      exact rowsLoop_inv poly c s tol xSpace h hs htol (fun p => a * p.1 + b * p.2 ≤ β + tol * (|a| + |b|))
        (halfplane_rowConvex c s a b _) lowest rs0 rs1 hdir _ (hsimple numRows lowest rs0 rs1 hp)
        (fun k r hr' => rawIntersections_halfplane tol htol poly _ a b β hpoly r hr') [] acc (by simp) hres p hp2

/-! ### rows: extent of the outline, number and spacing of the rows -/

/-- state of the vertex loop after the vertices `pre` -/
def ExtInv (c s : Rat) (pre : List Pt) (lo hi : Option (Rat × Pt)) : Prop :=
  (pre = [] ∧ lo = none ∧ hi = none) ∨
  ∃ l lv hh hv, lo = some (l, lv) ∧ hi = some (hh, hv) ∧ lv ∈ pre ∧ hv ∈ pre ∧ l = ypOf c s lv ∧ hh = ypOf c s hv ∧
    ∀ v ∈ pre, l ≤ ypOf c s v ∧ ypOf c s v ≤ hh

theorem extremes_inv (c s : Rat) (rest : List Pt) : ∀ (pre : List Pt) (lo hi : Option (Rat × Pt)),
    ExtInv c s pre lo hi → ExtInv c s (pre ++ rest) (extremes c s rest lo hi).1 (extremes c s rest lo hi).2 := by
  induction rest with
  | nil => intro pre lo hi hinv; simpa [extremes] using hinv
  | cons v vs ih =>
    intro pre lo hi hinv
    unfold extremes
    simp only
    have e : pre ++ v :: vs = (pre ++ [v]) ++ vs := by simp
    rw [e]
    apply ih
    rcases hinv with ⟨rfl, rfl, rfl⟩ | ⟨l, lv, hh, hv, rfl, rfl, hlv, hhv, hl, hhh, hall⟩
    · right
      exact ⟨_, v, _, v, rfl, rfl, by simp, by simp, rfl, rfl, by simp⟩
    · right
      simp only
      by_cases h1 : ypOf c s v < l
      · by_cases h2 : ypOf c s v > hh
        · exfalso
          have := hall lv hlv
          linarith [this.1, this.2]
        · rw [if_pos h1, if_neg h2]
          refine ⟨_, v, _, hv, rfl, rfl, by simp, by simp [hhv], rfl, hhh, ?_⟩
          intro w hw
          rcases List.mem_append.mp hw with hw | hw
          · exact ⟨by linarith [(hall w hw).1], (hall w hw).2⟩
          · simp only [List.mem_singleton] at hw; subst hw; exact ⟨le_rfl, not_lt.mp h2⟩
      · by_cases h2 : ypOf c s v > hh
        · rw [if_neg h1, if_pos h2]
          refine ⟨_, lv, _, v, rfl, rfl, by simp [hlv], by simp, hl, rfl, ?_⟩
          intro w hw
          rcases List.mem_append.mp hw with hw | hw
          · exact ⟨(hall w hw).1, by linarith [(hall w hw).2]⟩
          · simp only [List.mem_singleton] at hw; subst hw; exact ⟨not_lt.mp h1, le_rfl⟩
        · rw [if_neg h1, if_neg h2]
          refine ⟨_, lv, _, hv, rfl, rfl, by simp [hlv], by simp [hhv], hl, hhh, ?_⟩
          intro w hw
          rcases List.mem_append.mp hw with hw | hw
          · exact hall w hw
          · simp only [List.mem_singleton] at hw; subst hw; exact ⟨not_lt.mp h1, not_lt.mp h2⟩

/-- **Rows**: the rows start at a vertex of least `yp`, span exactly the `yp`-extent `hi − lo` of the outline
    in `numRows = ⌊(hi − lo)/ySpace⌋ ≥ 1` equal steps `sp ≥ ySpace`, in the direction normal to the rows. -/
theorem rowPlan_spec (poly : List Pt) (c s ySpace : Rat) (hy : 0 < ySpace) (numRows : Int) (lowest : Pt) (rs0 rs1 : Rat)
    (hp : rowPlan poly c s ySpace = .ok (numRows, lowest, rs0, rs1)) :
    ∃ lo hi, (∀ v ∈ poly, lo ≤ ypOf c s v ∧ ypOf c s v ≤ hi) ∧ lowest ∈ poly ∧ ypOf c s lowest = lo ∧
      (∃ hv ∈ poly, ypOf c s hv = hi) ∧
      numRows = ((hi - lo) / ySpace).floor ∧ 1 ≤ numRows ∧
      ySpace ≤ (hi - lo) / (numRows : Rat) ∧ (numRows : Rat) * ((hi - lo) / (numRows : Rat)) = hi - lo ∧
      rs0 = -((hi - lo) / (numRows : Rat)) * s ∧ rs1 = (hi - lo) / (numRows : Rat) * c := by
  obtain ⟨lo, hi, hv, hext, _, hnr, hnr0, h0, h1⟩ := rowPlan_ok poly c s ySpace numRows lowest rs0 rs1 hp
  have hinv := extremes_inv c s poly [] none none (Or.inl ⟨rfl, rfl, rfl⟩)
  rw [hext] at hinv
  simp only [List.nil_append] at hinv
  rcases hinv with ⟨_, hcon, _⟩ | ⟨l, lv, hh, hv', e1, e2, hlv, hhv, hl, hhh, hall⟩
  · simp at hcon
  · simp only [Option.some.injEq, Prod.mk.injEq] at e1 e2
    obtain ⟨rfl, rfl⟩ := e1
    obtain ⟨rfl, rfl⟩ := e2
    have hd : 0 ≤ hi - lo := by have := hall lowest hlv; linarith [this.1, this.2]
    have hfl : 0 ≤ ((hi - lo) / ySpace).floor := Int.floor_nonneg.mpr (div_nonneg hd (le_of_lt hy))
    have hn1 : 1 ≤ numRows := by omega
    have hnq : (0 : Rat) < (numRows : Rat) := by exact_mod_cast (by omega : 0 < numRows)
    refine ⟨lo, hi, hall, hlv, hl.symm, ⟨hv, hhv, hhh.symm⟩, hnr, hn1, ?_, by field_simp, by rw [h0]; ring, h1⟩
    rw [le_div_iff₀ hnq]
    have : (numRows : Rat) ≤ (hi - lo) / ySpace := by rw [hnr]; exact Int.floor_le _
    rw [le_div_iff₀ hy] at this
    linarith

/-! ### the rotation sweep keeps the first densest field -/

/-- invariant of the sweep after the rotations `pre` -/
def SweepInv (gen : Rat × Rat → Py (List Pt)) (pre : List (Rat × Rat)) (best : Nat × Option (Nat × List Pt)) : Prop :=
  (∀ (j : Nat) (r : Rat × Rat) (h : List Pt), pre[j]? = some r → gen r = .ok h → h.length ≤ best.1) ∧
  match best.2 with
  | none => best.1 = 0
  | some (i, hole) => (∃ r, pre[i]? = some r ∧ gen r = .ok hole) ∧ hole.length = best.1 ∧ 0 < best.1 ∧
      ∀ (j : Nat) (r : Rat × Rat) (h : List Pt), j < i → pre[j]? = some r → gen r = .ok h → h.length < best.1

theorem sweepLoop_inv (gen : Rat × Rat → Py (List Pt)) (rs : List (Rat × Rat)) :
    ∀ (pre : List (Rat × Rat)) (best res : Nat × Option (Nat × List Pt)), SweepInv gen pre best →
      sweepLoop gen rs pre.length best = .ok res → SweepInv gen (pre ++ rs) res := by
  induction rs with
  | nil => intro pre best res hinv hr; simp only [sweepLoop, Except.ok.injEq] at hr; subst hr; simpa using hinv
  | cons r rs ih =>
    intro pre best res hinv hr
    unfold sweepLoop at hr
    cases hg : gen r with
    | error e => rw [hg] at hr; simp at hr
    | ok hole =>
      rw [hg] at hr
      simp only at hr
      have e : pre ++ r :: rs = (pre ++ [r]) ++ rs := by simp
      rw [e]
      have hlen : (pre ++ [r]).length = pre.length + 1 := by simp
      rw [← hlen] at hr
      refine ih (pre ++ [r]) _ res ?_ hr
      obtain ⟨hmax, hbest⟩ := hinv
      unfold sweepStep
      have hget : ∀ j x, (pre ++ [r])[j]? = some x → (pre[j]? = some x ∧ j < pre.length) ∨ (j = pre.length ∧ x = r) := by
        intro j x hx
        by_cases hj : j < pre.length
        · left; rw [List.getElem?_append_left hj] at hx; exact ⟨hx, hj⟩
        · right
          rw [List.getElem?_append_right (by omega)] at hx
          have : j - pre.length = 0 := by
            by_contra hne
            have : (([r] : List (Rat × Rat)))[j - pre.length]? = none := by
              apply List.getElem?_eq_none; simp; omega
            rw [this] at hx; simp at hx
          rw [this] at hx; simp at hx
          exact ⟨by omega, hx.symm⟩
      by_cases hgt : hole.length > best.1
      · rw [if_pos hgt]
        refine ⟨?_, ?_⟩
        · intro j x h' hx hgx
          rcases hget j x hx with ⟨hx', _⟩ | ⟨_, rfl⟩
          · exact le_trans (hmax j x h' hx' hgx) (le_of_lt hgt)
          · rw [hg] at hgx; simp only [Except.ok.injEq] at hgx; subst hgx; exact le_rfl
        · simp only
          refine ⟨⟨r, by simp, hg⟩, trivial, by omega, ?_⟩
          intro j x h' hj hx hgx
          rcases hget j x hx with ⟨hx', _⟩ | ⟨hj', _⟩
          · exact lt_of_le_of_lt (hmax j x h' hx' hgx) hgt
          · omega
      · rw [if_neg hgt]
        refine ⟨?_, ?_⟩
        · intro j x h' hx hgx
          rcases hget j x hx with ⟨hx', _⟩ | ⟨_, rfl⟩
          · exact hmax j x h' hx' hgx
          · rw [hg] at hgx; simp only [Except.ok.injEq] at hgx; subst hgx; exact not_lt.mp hgt
        · cases hb : best.2 with
          | none => rw [hb] at hbest; simpa using hbest
          | some ih' =>
            obtain ⟨i, bh⟩ := ih'
            rw [hb] at hbest
            simp only at hbest ⊢
            obtain ⟨⟨x, hx, hgx⟩, h2, h3, h4⟩ := hbest
            have hi : i < pre.length := by
              by_contra hne
              rw [List.getElem?_eq_none (by omega)] at hx; simp at hx
            refine ⟨⟨x, by rw [List.getElem?_append_left hi]; exact hx, hgx⟩, h2, h3, ?_⟩
            intro j y h' hj hy hgy
            rcases hget j y hy with ⟨hy', _⟩ | ⟨hj', _⟩
            · exact h4 j y h' hj hy' hgy
            · omega

/-- **Densest rotation**: the field returned by the sweep is the duplicate-filtered field of a tried
    rotation with the largest number of boreholes, the first such rotation when several tie. -/
theorem fieldOptimizationFr_argmax (poly : List Pt) (space tol : Rat) (rots : List (Rat × Rat)) (idx : Nat) (field : List Pt)
    (hr : fieldOptimizationFr poly space tol rots = .ok (idx, field)) :
    ∃ r hole, rots[idx]? = some r ∧ genBoreholeConfig poly space space r.1 r.2 tol = .ok hole ∧ 0 < hole.length ∧
      field = removeDuplicates (space * Gen.RowWise.sweepDupFactor) hole ∧
      (∀ (j : Nat) (r' : Rat × Rat) (h : List Pt), rots[j]? = some r' → genBoreholeConfig poly space space r'.1 r'.2 tol = .ok h → h.length ≤ hole.length) ∧
      (∀ (j : Nat) (r' : Rat × Rat) (h : List Pt), j < idx → rots[j]? = some r' → genBoreholeConfig poly space space r'.1 r'.2 tol = .ok h →
        h.length < hole.length) := by
  unfold fieldOptimizationFr at hr
  cases hsw : sweepLoop (fun r => genBoreholeConfig poly space space r.1 r.2 tol) rots 0 (0, none) with
  | error e => rw [hsw] at hr; simp at hr
  | ok res =>
    rw [hsw] at hr
    have hinv := sweepLoop_inv (fun r => genBoreholeConfig poly space space r.1 r.2 tol) rots [] (0, none) res
      ⟨by simp, by simp⟩ hsw
    simp only [List.nil_append] at hinv
    obtain ⟨n, b⟩ := res
    cases b with
    | none => simp at hr
    | some ih =>
      obtain ⟨i, hole⟩ := ih
      simp only [Except.ok.injEq, Prod.mk.injEq] at hr
      obtain ⟨rfl, rfl⟩ := hr
      obtain ⟨hmax, ⟨r, hri, hgr⟩, hlen, hpos, hfirst⟩ := hinv
      simp only at hlen hpos hfirst hmax
      refine ⟨r, hole, hri, hgr, by omega, rfl, ?_, ?_⟩
      · intro j r' h' hj hg'; rw [hlen]; exact hmax j r' h' hj hg'
      · intro j r' h' hji hj hg'; rw [hlen]; exact hfirst j r' h' hji hj hg'

/-- the field-size-only sweep used by the harness picks the same index -/
theorem sweepCounts_spec (ns : List Nat) : ∀ (pre : List Nat) (best : Nat × Option Nat),
    ((∀ (j : Nat) (n : Nat), pre[j]? = some n → n ≤ best.1) ∧
      match best.2 with
      | none => best.1 = 0
      | some i => pre[i]? = some best.1 ∧ 0 < best.1 ∧ ∀ (j : Nat) (n : Nat), j < i → pre[j]? = some n → n < best.1) →
    match sweepCounts ns pre.length best with
    | none => ∀ n ∈ pre ++ ns, n = 0
    | some i => ∃ m, (pre ++ ns)[i]? = some m ∧ 0 < m ∧ (∀ n ∈ pre ++ ns, n ≤ m) ∧
        ∀ (j : Nat) (n : Nat), j < i → (pre ++ ns)[j]? = some n → n < m := by
  induction ns with
  | nil =>
    intro pre best ⟨hmax, hb⟩
    unfold sweepCounts
    cases h2 : best.2 with
    | none =>
      rw [h2] at hb; simp only at hb ⊢
      intro n hn
      simp only [List.append_nil] at hn
      obtain ⟨j, hj, rfl⟩ := List.getElem_of_mem hn
      have := hmax j _ (List.getElem?_eq_getElem hj); omega
    | some i =>
      rw [h2] at hb; simp only at hb ⊢
      refine ⟨best.1, by simpa using hb.1, hb.2.1, ?_, by simpa using hb.2.2⟩
      intro n hn
      simp only [List.append_nil] at hn
      obtain ⟨j, hj, rfl⟩ := List.getElem_of_mem hn
      exact hmax j _ (List.getElem?_eq_getElem hj)
  | cons n ns ih =>
    intro pre best ⟨hmax, hb⟩
    unfold sweepCounts
    have e : pre ++ n :: ns = (pre ++ [n]) ++ ns := by simp
    have hlen : (pre ++ [n]).length = pre.length + 1 := by simp
    rw [e, ← hlen]
    apply ih
    have hget : ∀ j x, (pre ++ [n])[j]? = some x → (pre[j]? = some x ∧ j < pre.length) ∨ (j = pre.length ∧ x = n) := by
      intro j x hx
      by_cases hj : j < pre.length
      · left; rw [List.getElem?_append_left hj] at hx; exact ⟨hx, hj⟩
      · right
        rw [List.getElem?_append_right (by omega)] at hx
        have : j - pre.length = 0 := by
          by_contra hne
          have : (([n] : List Nat))[j - pre.length]? = none := by
            apply List.getElem?_eq_none; simp; omega
          rw [this] at hx; simp at hx
        rw [this] at hx; simp at hx
        exact ⟨by omega, hx.symm⟩
    by_cases hgt : n > best.1
    · rw [if_pos hgt]
      refine ⟨?_, ?_⟩
      · intro j x hx
        rcases hget j x hx with ⟨hx', _⟩ | ⟨_, rfl⟩
        · exact le_trans (hmax j x hx') (le_of_lt hgt)
        · exact le_rfl
      · simp only
        refine ⟨by simp, by omega, ?_⟩
        intro j x hj hx
        rcases hget j x hx with ⟨hx', _⟩ | ⟨hj', _⟩
        · exact lt_of_le_of_lt (hmax j x hx') hgt
        · omega
    · rw [if_neg hgt]
      refine ⟨?_, ?_⟩
      · intro j x hx
        rcases hget j x hx with ⟨hx', _⟩ | ⟨_, rfl⟩
        · exact hmax j x hx'
        · exact not_lt.mp hgt
      · cases h2 : best.2 with
        | none => rw [h2] at hb; simpa using hb
        | some i =>
          rw [h2] at hb; simp only at hb ⊢
          have hi : i < pre.length := by
            by_contra hne
            rw [List.getElem?_eq_none (by omega)] at hb; simp at hb
          refine ⟨by rw [List.getElem?_append_left hi]; exact hb.1, hb.2.1, ?_⟩
          intro j x hj hx
          rcases hget j x hx with ⟨hx', _⟩ | ⟨hj', _⟩
          · exact hb.2.2 j x hj hx'
          · omega


theorem rowsSimple_sound (poly : List Pt) (ySpace c s tol : Rat) (hb : rowsSimple poly ySpace c s tol = true) :
    RowsSimple poly ySpace c s tol := by
  intro numRows lowest rs0 rs1 hp k hk
  unfold rowsSimple at hb
  rw [hp] at hb
  simp only [List.all_eq_true, decide_eq_true_eq] at hb
  exact hb k hk

/-- more fuel never changes an answer of the `distribute` loop -/
theorem distLoop_fuel_mono (c s tol step : Rat) (x2 : Pt) : ∀ (f : Nat) (cur : Pt) (acc r : List Pt) (f' : Nat),
    f ≤ f' → distLoop c s tol step x2 f cur acc = some r → distLoop c s tol step x2 f' cur acc = some r := by
  intro f
  induction f with
  | zero => intro cur acc r f' _ hr; simp [distLoop] at hr
  | succ f ih =>
    intro cur acc r f' hf hr
    obtain ⟨g, rfl⟩ : ∃ g, f' = g + 1 := ⟨f' - 1, by omega⟩
    unfold distLoop at hr ⊢
    split_ifs at hr ⊢ with hc
    · exact ih _ _ r g (by omega) hr
    · exact hr

/-- two points of one `distribute` run are at least the spacing apart (closed form) -/
theorem along_sqDist (c s : Rat) (h : c * c + s * s = 1) (p : Pt) (a b : Rat) :
    sqDist (along c s p a) (along c s p b) = (a - b) * (a - b) := by
  simp only [sqDist, along]
  have : (p.1 + a * c - (p.1 + b * c)) * (p.1 + a * c - (p.1 + b * c)) + (p.2 + a * s - (p.2 + b * s)) * (p.2 + a * s - (p.2 + b * s))
      = (a - b) * (a - b) * (c * c + s * s) := by ring
  rw [this, h]; ring


/-! ## rectangle lattice -/

def rectPoly (x0 y0 W H : Rat) : List Pt := [(x0, y0), (x0 + W, y0), (x0 + W, y0 + H), (x0, y0 + H)]
/-- rows bottom to top, each row left to right -/
def lattice (x0 y0 W H : Rat) (nx ny : Nat) : List Pt :=
  (List.range (ny + 1)).flatMap (fun (j : Nat) => (List.range (nx + 1)).map (fun (i : Nat) =>
    (x0 + (i : Rat) * (W / (nx : Rat)), y0 + (j : Rat) * (H / (ny : Rat)))))

/-- The binders of `lattice` carry `Nat` so that the term is a plain `flatMap`/`map` over `List.range`;
    without the annotations the same source text elaborates through the list monad
    (`do let a ← List.range _; pure ↑a`).  Both denote the same list. -/
theorem rect_lattice_literal (x0 y0 W H : Rat) (nx ny : Nat) :
    lattice x0 y0 W H nx ny =
      (List.range (ny + 1)).flatMap (fun j => (List.range (nx + 1)).map (fun i =>
        (x0 + (i : Rat) * (W / (nx : Rat)), y0 + (j : Rat) * (H / (ny : Rat))))) := by
  simp [lattice, ← List.map_eq_flatMap, List.flatMap_map, Function.comp_def]

/-! ### rotation 0 -/

theorem rect_along (p : Pt) (t : Rat) : along 1 0 p t = (p.1 + t, p.2) := by simp [along]
theorem rect_proj (p : Pt) : proj 1 0 p = p.1 := by simp [proj]
theorem rect_rowDist (p q : Pt) : rowDist 1 0 p q = |q.1 - p.1| := by
  simp [rowDist, rect_proj, ratAbs_eq_abs]

/-! ### remove_duplicates is the identity on well separated lists -/

theorem rect_removeDupAux_id (tolSq : Rat) : ∀ (l seen : List Pt),
    (∀ q ∈ seen, ∀ p ∈ l, tolSq ≤ sqDist q p) → l.Pairwise (fun q p => tolSq ≤ sqDist q p) →
    removeDupAux tolSq seen l = l
  | [], _, _, _ => by simp [removeDupAux]
  | p :: ps, seen, hs, hp => by
    rw [List.pairwise_cons] at hp
    have h1 : (seen.any (fun q => decide (sqDist q p < tolSq))) = false := by
      rw [List.any_eq_false]; intro q hq
      simpa using hs q hq p List.mem_cons_self
    rw [removeDupAux, h1]
    simp only [Bool.false_eq_true, if_false]
    congr 1
    apply rect_removeDupAux_id tolSq ps (p :: seen) _ hp.2
    intro q hq r hr
    rcases List.mem_cons.mp hq with rfl | hq
    · exact hp.1 r hr
    · exact hs q hq r (List.mem_cons_of_mem _ hr)

/-! ### the row plan -/

theorem rect_ypOf (v : Pt) (h1 : 0 ≤ v.1) (h2 : 0 ≤ v.2) : ypOf 1 0 v = v.2 := by
  unfold ypOf
  split_ifs with a b
  · rw [ratAbs_eq_abs, abs_of_nonneg h2, mul_one]
  · simp
  · exact absurd (lt_of_le_of_ne h1 (Ne.symm a)) b

theorem rect_extremes (x0 y0 W H : Rat) (hx : 0 ≤ x0) (hy : 0 ≤ y0) (hW : 0 < W) (hH : 0 < H) :
    extremes 1 0 (rectPoly x0 y0 W H) none none
      = (some (y0, (x0, y0)), some (y0 + H, (x0 + W, y0 + H))) := by
  have e1 : ypOf 1 0 (x0, y0) = y0 := rect_ypOf _ hx hy
  have e2 : ypOf 1 0 (x0 + W, y0) = y0 := rect_ypOf _ (by simp; linarith) hy
  have e3 : ypOf 1 0 (x0 + W, y0 + H) = y0 + H := rect_ypOf _ (by simp; linarith) (by simp; linarith)
  have e4 : ypOf 1 0 (x0, y0 + H) = y0 + H := rect_ypOf _ hx (by simp; linarith)
  simp [rectPoly, extremes, e1, e2, e3, e4, hH, not_lt.mpr hH.le]

theorem rect_rowPlan (x0 y0 W H sp : Rat) (ny : Nat) (hx : 0 ≤ x0) (hy : 0 ≤ y0) (hs : 0 < sp)
    (hW : 0 < W) (hH : 0 < H) (hny : (H / sp).floor = (ny : Int)) (hny1 : 1 ≤ ny) :
    rowPlan (rectPoly x0 y0 W H) 1 0 sp = .ok ((ny : Int), (x0, y0), 0, H / (ny : Rat)) := by
  have h0 : ny ≠ 0 := by omega
  have hd : y0 + H - y0 = H := by ring
  simp [rowPlan, rect_extremes x0 y0 W H hx hy hW hH, hs.ne', hd, hny, h0]

/-! ### intersections of a horizontal row with the rectangle -/

theorem rect_slope_vert (a y1 y2 : Rat) : slope a y1 a y2 = none := by simp [slope]

theorem rect_slope_horiz (a b y : Rat) (h : b - a ≠ 0) : slope a y b y = some (0, y) := by
  simp [slope, h]

theorem rect_inBox_up (tol a y0 H y : Rat) (ht : 0 ≤ tol) (hH : 0 ≤ H) (h1 : y0 ≤ y) (h2 : y ≤ y0 + H) :
    inBox tol (a, y0) (a, y0 + H) (a, y) = true := by
  have m1 : max (y0 + H) y0 = y0 + H := max_eq_left (by linarith)
  have m2 : min (y0 + H) y0 = y0 := min_eq_right (by linarith)
  simp only [inBox, ratMax_eq_max, ratMin_eq_min, m1, m2, max_self, min_self, sub_self]
  simp only [Bool.not_eq_true', Bool.or_eq_false_iff, decide_eq_false_iff_not, not_lt, gt_iff_lt]
  refine ⟨⟨⟨ht, by linarith⟩, by linarith⟩, by linarith⟩

theorem rect_inBox_down (tol a y0 H y : Rat) (ht : 0 ≤ tol) (hH : 0 ≤ H) (h1 : y0 ≤ y) (h2 : y ≤ y0 + H) :
    inBox tol (a, y0 + H) (a, y0) (a, y) = true := by
  have m1 : max y0 (y0 + H) = y0 + H := max_eq_right (by linarith)
  have m2 : min y0 (y0 + H) = y0 := min_eq_left (by linarith)
  simp only [inBox, ratMax_eq_max, ratMin_eq_min, m1, m2, max_self, min_self, sub_self]
  simp only [Bool.not_eq_true', Bool.or_eq_false_iff, decide_eq_false_iff_not, not_lt, gt_iff_lt]
  refine ⟨⟨⟨ht, by linarith⟩, by linarith⟩, by linarith⟩

theorem rect_raw (x0 y0 W H tol P y : Rat) (hW : 0 < W) (hH : 0 ≤ H) (ht : 0 ≤ tol) (hP : P ≠ 0)
    (h1 : y0 ≤ y) (h2 : y ≤ y0 + H) :
    rawIntersections (rectPoly x0 y0 W H) ⟨x0, y, x0 + P, y⟩ tol = [(x0 + W, y), (x0, y)] := by
  have hrow : slope x0 y (x0 + P) y = some (0, y) := rect_slope_horiz _ _ _ (by simpa using hP)
  have hb : slope x0 y0 (x0 + W) y0 = some (0, y0) := rect_slope_horiz _ _ _ (by simpa using hW.ne')
  have htop : slope (x0 + W) (y0 + H) x0 (y0 + H) = some (0, y0 + H) :=
    rect_slope_horiz _ _ _ (by simpa using hW.ne')
  have hr := rect_slope_vert (x0 + W) y0 (y0 + H)
  have hl := rect_slope_vert x0 (y0 + H) y0
  have b1 := rect_inBox_up tol (x0 + W) y0 H y ht hH h1 h2
  have b2 := rect_inBox_down tol x0 y0 H y ht hH h1 h2
  simp [rawIntersections, edges, rectPoly, edgeHit, vectorIntersect, hrow, hb, htop, hr, hl,
    ratAbs_eq_abs, ht, b1, b2]

theorem rect_lineIntersect (x0 y0 W H tol P y : Rat) (hW : 0 < W) (hH : 0 ≤ H) (ht : 0 ≤ tol)
    (hP : P ≠ 0) (h1 : y0 ≤ y) (h2 : y ≤ y0 + H) :
    lineIntersect (rectPoly x0 y0 W H) ⟨x0, y, x0 + P, y⟩ 1 0 tol = [(x0, y), (x0 + W, y)] := by
  rw [lineIntersect, rect_raw x0 y0 W H tol P y hW hH ht hP h1 h2]
  simp [sortIntersections, insertKey, keyLe, rect_proj, not_lt.mpr hW.le, hW.ne']

theorem rect_dedupe (x0 W tol y : Rat) (htW : tol < W) :
    dedupe tol [(x0, y), (x0 + W, y)] = [(x0, y), (x0 + W, y)] := by
  have : ¬ |W| ≤ tol := by
    intro h; exact absurd (le_trans (le_abs_self W) h) (not_le.mpr htW)
  simp [dedupe, close, ratAbs_eq_abs, this]

/-! ### distribute along one row -/

/-- the lattice row at height `y` -/
def rect_row (x0 st y : Rat) (n : Nat) : List Pt :=
  (List.range n).map (fun (i : Nat) => (x0 + (i : Rat) * st, y))

theorem rect_distLoop (x0 W y st dtol : Rat) (nx : Nat) (hst : dtol ≤ st) (hst0 : 0 < st)
    (hnx : (nx : Rat) * st = W) (hd0 : 0 < dtol) :
    ∀ (m i : Nat) (acc : List Pt), i + m = nx → acc.head? ≠ some (x0 + (i : Rat) * st, y) →
      distLoop 1 0 dtol st (x0 + W, y) (m + 2) (x0 + (i : Rat) * st, y) acc
        = some (((List.range m).map (fun k => (x0 + ((i + k : Nat) : Rat) * st, y))).reverse ++ acc)
  | 0, i, acc, him, _ => by
    have hi : i = nx := by omega
    subst hi
    have : ¬ dtol ≤ |x0 + W - (x0 + (i : Rat) * st)| := by
      rw [hnx]; simp [hd0]
    rw [show 0 + 2 = 1 + 1 from rfl, distLoop]
    simp only [rect_rowDist, ge_iff_le, this, if_false]
    simp
  | m + 1, i, acc, him, hacc => by
    have hle : dtol ≤ |x0 + W - (x0 + (i : Rat) * st)| := by
      have e : x0 + W - (x0 + (i : Rat) * st) = ((m : Rat) + 1) * st := by
        rw [← hnx, ← him]; push_cast; ring
      rw [e, abs_of_nonneg (by positivity)]
      nlinarith [Nat.cast_nonneg (α := Rat) m]
    have hpush : pushNew acc (x0 + (i : Rat) * st, y) = (x0 + (i : Rat) * st, y) :: acc := by
      cases acc with
      | nil => rfl
      | cons q t =>
        have : q ≠ (x0 + (i : Rat) * st, y) := by
          intro h; apply hacc; simp [h]
        simp [pushNew, this]
    have hnext : along 1 0 (x0 + (i : Rat) * st, y) st = (x0 + ((i + 1 : Nat) : Rat) * st, y) := by
      rw [rect_along]; push_cast; ext <;> simp; ring
    have ih := rect_distLoop x0 W y st dtol nx hst hst0 hnx hd0 m (i + 1)
      ((x0 + (i : Rat) * st, y) :: acc) (by omega) (by
        simp only [List.head?_cons, ne_eq, Option.some.injEq, Prod.mk.injEq, not_and]
        intro h; exfalso; push_cast at h; linarith)
    rw [show m + 1 + 2 = (m + 2) + 1 from rfl, distLoop]
    simp only [rect_rowDist, ge_iff_le, hle, if_true, hpush, hnext]
    rw [ih, List.range_succ_eq_map]
    simp [Function.comp_def, Nat.add_assoc, Nat.add_comm 1]

theorem rect_distribute (x0 W y sp : Rat) (nx : Nat) (acc : List Pt) (hs : 0 < sp)
    (hnx : (W / sp).floor = (nx : Int)) (hnx1 : 1 ≤ nx) (hdt : Gen.RowWise.distributeTol ≤ sp)
    (hacc : acc.head? ≠ some (x0, y)) :
    distribute 1 0 sp (x0, y) (x0 + W, y) acc
      = .ok ((rect_row x0 (W / (nx : Rat)) y (nx + 1)).reverse ++ acc) := by
  have hnq : (0 : Rat) < nx := by exact_mod_cast hnx1
  have hfl : ((nx : Int) : Rat) ≤ W / sp := by rw [← hnx]; exact Int.floor_le (W / sp)
  have hnsp : (nx : Rat) * sp ≤ W := by
    rw [Int.cast_natCast] at hfl; exact (le_div_iff₀ hs).mp hfl
  have hst : sp ≤ W / (nx : Rat) := by rw [le_div_iff₀ hnq]; linarith
  have hmul : (nx : Rat) * (W / (nx : Rat)) = W := by field_simp
  have hn1 : (1 : Rat) ≤ nx := by exact_mod_cast hnx1
  have hspW : sp ≤ W := by nlinarith
  have hW : 0 < W := lt_of_lt_of_le hs hspW
  have hd0 : 0 < Gen.RowWise.distributeTol := by unfold Gen.RowWise.distributeTol; norm_num
  have hdx : rowDist 1 0 (x0, y) (x0 + W, y) = W := by
    rw [rect_rowDist]; simp [abs_of_pos hW]
  have hloop := rect_distLoop x0 W y (W / (nx : Rat)) Gen.RowWise.distributeTol nx
    (le_trans hdt hst) (lt_of_lt_of_le hs hst) hmul hd0 nx 0 acc (by omega)
    (by simpa using hacc)
  simp only [Nat.cast_zero, zero_mul, add_zero, Nat.zero_add] at hloop
  have hn0 : ¬ (nx : Int) = 0 := by omega
  unfold distribute
  simp only [hdx, not_lt.mpr hspW, hs.ne', if_false, hnx, hn0, Int.cast_natCast, Int.toNat_natCast,
    hloop]
  obtain ⟨m, rfl⟩ : ∃ m, nx = m + 1 := ⟨nx - 1, by omega⟩
  clear hloop
  generalize W / ((m + 1 : Nat) : Rat) = st at *
  have hne : ¬ (x0 + (m : Rat) * st, y) = (x0 + W, y) := by
    intro h
    have h' := congrArg Prod.fst h
    simp only at h'
    push_cast at hmul; nlinarith
  have hlast : (x0 + W, y) = (x0 + ((m + 1 : Nat) : Rat) * st, y) := by rw [hmul]
  rw [rect_row, List.range_succ (n := m + 1), List.range_succ (n := m)]
  simp only [List.map_append, List.reverse_append, List.map_cons, List.map_nil, List.reverse_cons,
    List.reverse_nil, List.nil_append, List.cons_append, List.append_assoc, hlast]
  rw [hlast] at hne
  rw [if_neg hne]

theorem rect_rowStep (x0 y0 W H sp tol P y : Rat) (nx : Nat) (acc : List Pt) (hs : 0 < sp)
    (hW : sp ≤ W) (hH : 0 ≤ H) (ht0 : 0 ≤ tol) (htW : tol < W) (hP : P ≠ 0) (h1 : y0 ≤ y)
    (h2 : y ≤ y0 + H) (hnx : (W / sp).floor = (nx : Int)) (hnx1 : 1 ≤ nx)
    (hdt : Gen.RowWise.distributeTol ≤ sp) (hacc : acc.head? ≠ some (x0, y)) :
    rowStep (rectPoly x0 y0 W H) 1 0 tol sp ⟨x0, y, x0 + P, y⟩ acc
      = .ok ((rect_row x0 (W / (nx : Rat)) y (nx + 1)).reverse ++ acc) := by
  have hW0 : 0 < W := lt_of_lt_of_le hs hW
  have hdx : rowDist 1 0 (x0, y) (x0 + W, y) = W := by
    rw [rect_rowDist]; simp [abs_of_pos hW0]
  have hfl : ¬ ((nx : Int) < 1) := by omega
  unfold rowStep
  rw [rect_lineIntersect x0 y0 W H tol P y hW0 hH ht0 hP h1 h2, rect_dedupe x0 W tol y htW]
  simp only [List.length_cons, List.length_nil, Nat.reduceAdd, Nat.reduceMod, if_true, hdx,
    not_lt.mpr hW, if_false, evenLoop, processRows, hs.ne', hnx, hfl,
    rect_distribute x0 W y sp nx acc hs hnx hnx1 hdt hacc]

/-! ### all rows -/

theorem rect_rowSeg (x0 y0 st : Rat) (k : Nat) (hst : st ≠ 0) :
    rowSeg (x0, y0) 0 st k
      = ⟨x0, y0 + (k : Rat) * st, x0 + Gen.RowWise.pointShift, y0 + (k : Rat) * st⟩ := by
  unfold rowSeg
  have hne : ¬ ratAbs st ≤ Gen.RowWise.verticalRowRatio * ratAbs 0 := by
    rw [ratAbs_eq_abs, ratAbs_eq_abs, abs_zero, mul_zero, not_le]
    exact abs_pos.mpr hst
  simp [hne]

theorem rect_row_head (x0 st y : Rat) (n : Nat) (acc : List Pt) :
    ((rect_row x0 st y (n + 1)).reverse ++ acc).head? = some (x0 + (n : Rat) * st, y) := by
  simp [rect_row, List.range_succ]

theorem rect_rowsLoop (x0 y0 W H sp tol : Rat) (nx ny : Nat) (hs : 0 < sp) (hW : sp ≤ W)
    (hH : 0 < H) (ht0 : 0 ≤ tol) (htW : tol < W) (hnx : (W / sp).floor = (nx : Int)) (hnx1 : 1 ≤ nx)
    (hny1 : 1 ≤ ny) (hdt : Gen.RowWise.distributeTol ≤ sp) :
    ∀ (ks : List Nat) (acc : List Pt), (∀ k ∈ ks, k ≤ ny) → (∀ q, acc.head? = some q → q.1 ≠ x0) →
      rowsLoop (rectPoly x0 y0 W H) 1 0 tol sp (x0, y0) 0 (H / (ny : Rat)) ks acc
        = .ok ((ks.flatMap (fun (k : Nat) =>
            rect_row x0 (W / (nx : Rat)) (y0 + (k : Rat) * (H / (ny : Rat))) (nx + 1))).reverse ++ acc)
  | [], acc, _, _ => by simp [rowsLoop]
  | k :: ks, acc, hks, hacc => by
    have hnyq : (0 : Rat) < ny := by exact_mod_cast hny1
    have hnxq : (0 : Rat) < nx := by exact_mod_cast hnx1
    have hst : 0 < H / (ny : Rat) := div_pos hH hnyq
    have hW0 : 0 < W := lt_of_lt_of_le hs hW
    have hk : (k : Rat) ≤ ny := by exact_mod_cast hks k List.mem_cons_self
    have hmul : (ny : Rat) * (H / (ny : Rat)) = H := by field_simp
    have hmulx : (nx : Rat) * (W / (nx : Rat)) = W := by field_simp
    have h1 : y0 ≤ y0 + (k : Rat) * (H / (ny : Rat)) := by
      have : 0 ≤ (k : Rat) * (H / (ny : Rat)) := by positivity
      linarith
    have h2 : y0 + (k : Rat) * (H / (ny : Rat)) ≤ y0 + H := by
      have : (k : Rat) * (H / (ny : Rat)) ≤ (ny : Rat) * (H / (ny : Rat)) :=
        mul_le_mul_of_nonneg_right hk hst.le
      linarith
    have hP : Gen.RowWise.pointShift ≠ 0 := by unfold Gen.RowWise.pointShift; norm_num
    have hacc' : acc.head? ≠ some (x0, y0 + (k : Rat) * (H / (ny : Rat))) := by
      intro h; exact hacc _ h rfl
    have hstep := rect_rowStep x0 y0 W H sp tol Gen.RowWise.pointShift
      (y0 + (k : Rat) * (H / (ny : Rat))) nx acc hs hW hH.le ht0 htW hP h1 h2 hnx hnx1 hdt hacc'
    have ih := rect_rowsLoop x0 y0 W H sp tol nx ny hs hW hH ht0 htW hnx hnx1 hny1 hdt ks
      ((rect_row x0 (W / (nx : Rat)) (y0 + (k : Rat) * (H / (ny : Rat))) (nx + 1)).reverse ++ acc)
      (fun j hj => hks j (List.mem_cons_of_mem _ hj))
      (by
        intro q hq
        rw [rect_row_head] at hq
        cases hq
        simp only [hmulx]; linarith)
    rw [rowsLoop, rect_rowSeg x0 y0 _ k hst.ne', hstep]
    simp only [ih, List.flatMap_cons, List.reverse_append, List.append_assoc]

/-! ### separation of the lattice points -/

theorem rect_sep (x0 y0 stx sty t : Rat) (a b : Nat) (hx0 : 0 < stx) (hy0 : 0 < sty)
    (hx : t ≤ stx * stx) (hy : t ≤ sty * sty) :
    ((List.range a).flatMap (fun (j : Nat) => (List.range b).map (fun (i : Nat) =>
      ((x0 + (i : Rat) * stx, y0 + (j : Rat) * sty) : Pt)))).Pairwise
        (fun q p => t ≤ sqDist q p) := by
  have key : ∀ (st : Rat) (i i' : Nat), 0 < st → i < i' →
      st * st ≤ (((i : Rat) - i') * st) * (((i : Rat) - i') * st) := by
    intro st i i' h0 h
    have h' : (i : Rat) + 1 ≤ i' := by exact_mod_cast h
    have e : (((i : Rat) - i') * st) * (((i : Rat) - i') * st)
        = (((i' : Rat) - i) * st) * (((i' : Rat) - i) * st) := by ring
    rw [e]
    apply mul_self_le_mul_self h0.le
    nlinarith
  rw [List.pairwise_flatMap]
  constructor
  · intro j _
    rw [List.pairwise_map]
    refine List.pairwise_lt_range.imp ?_
    intro i i' h
    have e : sqDist ((x0 + (i : Rat) * stx, y0 + (j : Rat) * sty) : Pt)
        (x0 + (i' : Rat) * stx, y0 + (j : Rat) * sty)
        = (((i : Rat) - i') * stx) * (((i : Rat) - i') * stx) := by
      simp only [sqDist]; ring
    rw [e]; exact le_trans hx (key stx i i' hx0 h)
  · refine List.pairwise_lt_range.imp ?_
    intro j j' h p hp q hq
    simp only [List.mem_map] at hp hq
    obtain ⟨i, _, rfl⟩ := hp
    obtain ⟨i', _, rfl⟩ := hq
    have e : sqDist ((x0 + (i : Rat) * stx, y0 + (j : Rat) * sty) : Pt)
        (x0 + (i' : Rat) * stx, y0 + (j' : Rat) * sty)
        = (((i : Rat) - i') * stx) * (((i : Rat) - i') * stx)
          + (((j : Rat) - j') * sty) * (((j : Rat) - j') * sty) := by
      simp only [sqDist]; ring
    rw [e]
    have := key sty j j' hy0 h
    have := mul_self_nonneg (((i : Rat) - i') * stx)
    linarith

/-! ### the rectangle receives the lattice -/

theorem rect_floor_nat (W sp : Rat) (hs : 0 < sp) (hW : sp ≤ W) :
    (W / sp).floor = (((W / sp).floor.toNat : Nat) : Int) ∧ 1 ≤ (W / sp).floor.toNat := by
  have h1 : (1 : Int) ≤ (W / sp).floor := by
    change (1 : Int) ≤ ⌊W / sp⌋
    rw [Int.le_floor]
    rw [Int.cast_one, le_div_iff₀ hs]; linarith
  constructor
  · rw [Int.toNat_of_nonneg (by omega)]
  · omega

theorem rect_step_ge (W sp : Rat) (n : Nat) (hs : 0 < sp) (hn : (W / sp).floor = (n : Int))
    (hn1 : 1 ≤ n) : sp ≤ W / (n : Rat) := by
  have hnq : (0 : Rat) < n := by exact_mod_cast hn1
  have hfl : ((n : Int) : Rat) ≤ W / sp := by rw [← hn]; exact Int.floor_le (W / sp)
  rw [Int.cast_natCast] at hfl
  have := (le_div_iff₀ hs).mp hfl
  rw [le_div_iff₀ hnq]; linarith

theorem rect_lattice (x0 y0 W H sp tol : Rat) (hx : 0 ≤ x0) (hy : 0 ≤ y0) (hs : 0 < sp)
    (hW : sp ≤ W) (hH : sp ≤ H) (ht0 : 0 ≤ tol) (htW : tol < W)
    (hdt : Gen.RowWise.distributeTol ≤ sp) :
    genBoreholeConfig (rectPoly x0 y0 W H) sp sp 1 0 tol
      = .ok (lattice x0 y0 W H (W / sp).floor.toNat (H / sp).floor.toNat) := by
  obtain ⟨hnx, hnx1⟩ := rect_floor_nat W sp hs hW
  obtain ⟨hny, hny1⟩ := rect_floor_nat H sp hs hH
  generalize (W / sp).floor.toNat = nx at hnx hnx1 ⊢
  generalize (H / sp).floor.toNat = ny at hny hny1 ⊢
  have hW0 : 0 < W := lt_of_lt_of_le hs hW
  have hH0 : 0 < H := lt_of_lt_of_le hs hH
  have hstx := rect_step_ge W sp nx hs hnx hnx1
  have hsty := rect_step_ge H sp ny hs hny hny1
  have hloop := rect_rowsLoop x0 y0 W H sp tol nx ny hs hW hH0 ht0 htW hnx hnx1 hny1 hdt
    (List.range (ny + 1)) [] (by intro k hk; rw [List.mem_range] at hk; omega) (by simp)
  have htn : ((ny : Int) + 1).toNat = ny + 1 := by omega
  have hlat : (List.range (ny + 1)).flatMap (fun (k : Nat) =>
      rect_row x0 (W / (nx : Rat)) (y0 + (k : Rat) * (H / (ny : Rat))) (nx + 1))
      = lattice x0 y0 W H nx ny := rfl
  have hsep : (lattice x0 y0 W H nx ny).Pairwise (fun q p =>
      (sp * Gen.RowWise.dupFactor) * (sp * Gen.RowWise.dupFactor) ≤ sqDist q p) := by
    have ht : (sp * Gen.RowWise.dupFactor) * (sp * Gen.RowWise.dupFactor) ≤ sp * sp := by
      unfold Gen.RowWise.dupFactor; nlinarith [mul_pos hs hs]
    apply rect_sep x0 y0 (W / (nx : Rat)) (H / (ny : Rat)) _ (ny + 1) (nx + 1)
      (lt_of_lt_of_le hs hstx) (lt_of_lt_of_le hs hsty)
    · exact le_trans ht (mul_self_le_mul_self hs.le hstx)
    · exact le_trans ht (mul_self_le_mul_self hs.le hsty)
  unfold genBoreholeConfig
  rw [rect_rowPlan x0 y0 W H sp ny hx hy hs hW0 hH0 hny hny1]
  simp only [htn, hloop, hlat, List.append_nil, List.reverse_reverse, removeDuplicates]
  rw [rect_removeDupAux_id _ _ [] (by simp) hsep]

theorem rect_lattice_count (x0 y0 W H sp tol : Rat) (hx : 0 ≤ x0) (hy : 0 ≤ y0) (hs : 0 < sp)
    (hW : sp ≤ W) (hH : sp ≤ H) (ht0 : 0 ≤ tol) (htW : tol < W)
    (hdt : Gen.RowWise.distributeTol ≤ sp) :
    ∃ l, genBoreholeConfig (rectPoly x0 y0 W H) sp sp 1 0 tol = .ok l ∧
      l.length = ((W / sp).floor.toNat + 1) * ((H / sp).floor.toNat + 1) := by
  refine ⟨_, rect_lattice x0 y0 W H sp tol hx hy hs hW hH ht0 htW hdt, ?_⟩
  simp [lattice, List.length_flatMap, Nat.mul_comm]

/-- non-vacuity: the hypotheses are satisfiable and the statement computes the expected field. -/
example : genBoreholeConfig (rectPoly 0 0 60 30) 7 7 1 0 (1/100000) = .ok (lattice 0 0 60 30 8 4) := by
  have h := rect_lattice 0 0 60 30 7 (1/100000) (by norm_num) (by norm_num) (by norm_num)
    (by norm_num) (by norm_num) (by norm_num) (by norm_num)
    (by unfold Gen.RowWise.distributeTol; norm_num)
  have e1 : ((60 : Rat) / 7).floor.toNat = 8 := by
    have : ((60 : Rat) / 7).floor = 8 := by
      change ⌊(60 : Rat) / 7⌋ = 8
      rw [Int.floor_eq_iff]; norm_num
    rw [this]; rfl
  have e2 : ((30 : Rat) / 7).floor.toNat = 4 := by
    have : ((30 : Rat) / 7).floor = 4 := by
      change ⌊(30 : Rat) / 7⌋ = 4
      rw [Int.floor_eq_iff]; norm_num
    rw [this]; rfl
  rw [e1, e2] at h
  exact h


/-! ## translation equivariance -/

/-- Translation of a point by `t`. -/
def shift (t p : Pt) : Pt := (p.1 + t.1, p.2 + t.2)

/-- Translation of a two-point line by `t`. -/
def tr_shiftSeg (t : Pt) (sg : Seg) : Seg := ⟨sg.x1 + t.1, sg.y1 + t.2, sg.x2 + t.1, sg.y2 + t.2⟩

theorem tr_shift_inj (t p q : Pt) : shift t p = shift t q ↔ p = q := by
  constructor
  · intro h
    simp only [shift, Prod.mk.injEq] at h
    exact Prod.ext (by linarith [h.1]) (by linarith [h.2])
  · intro h; rw [h]

theorem tr_slope (t : Pt) (x1 y1 x2 y2 : Rat) :
    slope (x1 + t.1) (y1 + t.2) (x2 + t.1) (y2 + t.2)
      = (slope x1 y1 x2 y2).map (fun ac => (ac.1, ac.2 + t.2 - t.1 * ac.1)) := by
  unfold slope
  have h : x2 + t.1 - (x1 + t.1) = x2 - x1 := by ring
  have h' : y2 + t.2 - (y1 + t.2) = y2 - y1 := by ring
  rw [h, h']
  split_ifs with h0
  · rfl
  · simp only [Option.map]
    congr 2
    ring

theorem tr_vectorIntersect (t : Pt) (l1 l2 : Seg) (tol : Rat) (htol : 0 ≤ tol) :
    vectorIntersect (tr_shiftSeg t l1) (tr_shiftSeg t l2) tol
      = (vectorIntersect l1 l2 tol).map (shift t) := by
  unfold vectorIntersect
  simp only [tr_shiftSeg, tr_slope]
  cases h1 : slope l1.x1 l1.y1 l1.x2 l1.y2 with
  | none =>
    cases h2 : slope l2.x1 l2.y1 l2.x2 l2.y2 with
    | none =>
      simp only [Option.map]
      have : l1.x1 + t.1 - (l2.x1 + t.1) = l1.x1 - l2.x1 := by ring
      simp only [this]
      split_ifs <;> simp [shift]
    | some ac2 =>
      obtain ⟨a2, c2⟩ := ac2
      simp only [Option.map, List.map, shift]
      congr 2
      ring
  | some ac1 =>
    obtain ⟨a1, c1⟩ := ac1
    cases h2 : slope l2.x1 l2.y1 l2.x2 l2.y2 with
    | none =>
      simp only [Option.map, List.map, shift]
      congr 2
      ring
    | some ac2 =>
      obtain ⟨a2, c2⟩ := ac2
      simp only [Option.map]
      split_ifs with hg
      · rfl
      · have hne : a1 - a2 ≠ 0 := by
          intro h0
          apply hg
          rw [h0]
          simpa [ratAbs] using htol
        simp only [List.map, shift]
        congr 2
        · field_simp; ring
        · field_simp; ring

theorem tr_ratMax_add (a b d : Rat) : ratMax (a + d) (b + d) = ratMax a b + d := by
  unfold ratMax
  have : (a + d < b + d) ↔ a < b := by constructor <;> intro h <;> linarith
  simp only [this]
  split_ifs <;> rfl

theorem tr_ratMin_add (a b d : Rat) : ratMin (a + d) (b + d) = ratMin a b + d := by
  unfold ratMin
  have : (b + d < a + d) ↔ b < a := by constructor <;> intro h <;> linarith
  simp only [this]
  split_ifs <;> rfl

theorem tr_add_sub_add (a b d : Rat) : a + d - (b + d) = a - b := by ring

theorem tr_inBox (t : Pt) (tol : Rat) (c1 c2 r : Pt) :
    inBox tol (shift t c1) (shift t c2) (shift t r) = inBox tol c1 c2 r := by
  unfold inBox
  simp only [shift, tr_ratMax_add, tr_ratMin_add, tr_add_sub_add]

theorem tr_edgeHit (t : Pt) (row : Seg) (tol : Rat) (htol : 0 ≤ tol) (e : Pt × Pt) :
    edgeHit (tr_shiftSeg t row) tol (Prod.map (shift t) (shift t) e)
      = (edgeHit row tol e).map (shift t) := by
  unfold edgeHit
  have h := tr_vectorIntersect t ⟨e.1.1, e.1.2, e.2.1, e.2.2⟩ row tol htol
  have hseg : (⟨(Prod.map (shift t) (shift t) e).1.1, (Prod.map (shift t) (shift t) e).1.2,
      (Prod.map (shift t) (shift t) e).2.1, (Prod.map (shift t) (shift t) e).2.2⟩ : Seg)
      = tr_shiftSeg t ⟨e.1.1, e.1.2, e.2.1, e.2.2⟩ := rfl
  rw [hseg, h]
  generalize vectorIntersect ⟨e.1.1, e.1.2, e.2.1, e.2.2⟩ row tol = l
  match l with
  | [] => rfl
  | [r] =>
    simp only [List.map, Prod.map_fst, Prod.map_snd, tr_inBox]
    split_ifs <;> rfl
  | _ :: _ :: _ => rfl

theorem tr_edges (f : Pt → Pt) (poly : List Pt) :
    edges (poly.map f) = (edges poly).map (Prod.map f f) := by
  unfold edges
  rw [← List.map_drop, ← List.map_take, ← List.map_append, List.zip_map]

theorem tr_rawIntersections (t : Pt) (poly : List Pt) (row : Seg) (tol : Rat) (htol : 0 ≤ tol) :
    rawIntersections (poly.map (shift t)) (tr_shiftSeg t row) tol
      = (rawIntersections poly row tol).map (shift t) := by
  unfold rawIntersections
  rw [tr_edges]
  induction edges poly with
  | nil => rfl
  | cons e es ih =>
    simp only [List.map_cons, List.flatMap_cons, List.map_append, ih, tr_edgeHit t row tol htol]

theorem tr_proj_shift (c s : Rat) (t p : Pt) : proj c s (shift t p) = proj c s p + proj c s t := by
  simp only [proj, shift]; ring

theorem tr_keyLe (c s : Rat) (t p q : Pt) : keyLe c s (shift t p) (shift t q) = keyLe c s p q := by
  unfold keyLe
  simp only [tr_proj_shift]
  simp only [shift, add_lt_add_iff_right, add_left_inj, add_le_add_iff_right]

theorem tr_insertKey (c s : Rat) (t p : Pt) (l : List Pt) :
    insertKey c s (shift t p) (l.map (shift t)) = (insertKey c s p l).map (shift t) := by
  induction l with
  | nil => rfl
  | cons q qs ih =>
    simp only [List.map_cons, insertKey, tr_keyLe]
    split_ifs
    · rfl
    · simp only [List.map_cons, ih]

theorem tr_sortIntersections (c s : Rat) (t : Pt) (l : List Pt) :
    sortIntersections c s (l.map (shift t)) = (sortIntersections c s l).map (shift t) := by
  unfold sortIntersections
  induction l with
  | nil => rfl
  | cons p ps ih =>
    simp only [List.map_cons, List.foldr_cons, ih, tr_insertKey]

theorem tr_lineIntersect (t : Pt) (poly : List Pt) (row : Seg) (c s tol : Rat) (htol : 0 ≤ tol) :
    lineIntersect (poly.map (shift t)) (tr_shiftSeg t row) c s tol
      = (lineIntersect poly row c s tol).map (shift t) := by
  unfold lineIntersect
  rw [tr_rawIntersections t poly row tol htol, tr_sortIntersections]

theorem tr_foldl_ratMax (d : Rat) (l : List Rat) (x : Rat) :
    (l.map (· + d)).foldl ratMax (x + d) = l.foldl ratMax x + d := by
  induction l generalizing x with
  | nil => rfl
  | cons y ys ih => simp only [List.map_cons, List.foldl_cons, tr_ratMax_add, ih]

theorem tr_foldl_ratMin (d : Rat) (l : List Rat) (x : Rat) :
    (l.map (· + d)).foldl ratMin (x + d) = l.foldl ratMin x + d := by
  induction l generalizing x with
  | nil => rfl
  | cons y ys ih => simp only [List.map_cons, List.foldl_cons, tr_ratMin_add, ih]

theorem tr_listMax (d : Rat) (x : Rat) (l : List Rat) :
    listMax ((x :: l).map (· + d)) = listMax (x :: l) + d := by
  simp only [List.map_cons, listMax, tr_foldl_ratMax]

theorem tr_listMin (d : Rat) (x : Rat) (l : List Rat) :
    listMin ((x :: l).map (· + d)) = listMin (x :: l) + d := by
  simp only [List.map_cons, listMin, tr_foldl_ratMin]

theorem tr_contains (t : Pt) (l : List Pt) (q : Pt) :
    (l.map (shift t)).contains (shift t q) = l.contains q := by
  induction l with
  | nil => rfl
  | cons a as ih =>
    simp only [List.map_cons, List.contains_cons, ih]
    congr 1
    rw [Bool.eq_iff_iff]
    simp only [beq_iff_eq]
    constructor
    · intro h; exact ((tr_shift_inj t q a).mp h)
    · intro h; rw [h]

theorem tr_pointIntersect_nil (p : Pt) : pointIntersect [] p = false := by
  unfold pointIntersect
  simp [listMax, listMin, lineIntersect, rawIntersections, edges, sortIntersections]

theorem tr_lineIntersectTol_nonneg : 0 ≤ Gen.RowWise.lineIntersectTol := by
  unfold Gen.RowWise.lineIntersectTol; norm_num

theorem tr_pointIntersect (t : Pt) (poly : List Pt) (p : Pt) :
    pointIntersect (poly.map (shift t)) (shift t p) = pointIntersect poly p := by
  cases poly with
  | nil => simp only [List.map_nil, tr_pointIntersect_nil]
  | cons v vs =>
    have hx : ((v :: vs).map (shift t)).map (·.1) = ((v :: vs).map (·.1)).map (· + t.1) := by
      simp only [List.map_map]; rfl
    have hy : ((v :: vs).map (shift t)).map (·.2) = ((v :: vs).map (·.2)).map (· + t.2) := by
      simp only [List.map_map]; rfl
    have hx' : (v :: vs).map (·.1) = v.1 :: vs.map (·.1) := rfl
    have hy' : (v :: vs).map (·.2) = v.2 :: vs.map (·.2) := rfl
    unfold pointIntersect
    simp only [hx, hy]
    rw [hx', hy']
    simp only [tr_listMax, tr_listMin]
    have hseg : ∀ m : Rat, (⟨m + t.1 - Gen.RowWise.farShift, (shift t p).2,
        m + t.1 - Gen.RowWise.farShift + Gen.RowWise.farStep, (shift t p).2⟩ : Seg)
        = tr_shiftSeg t ⟨m - Gen.RowWise.farShift, p.2, m - Gen.RowWise.farShift + Gen.RowWise.farStep, p.2⟩ := by
      intro m
      simp only [tr_shiftSeg, shift]
      congr 1 <;> ring
    simp only [hseg, tr_lineIntersect t (v :: vs) _ 1 0 _ tr_lineIntersectTol_nonneg]
    simp only [List.filter_map, List.length_map]
    have hp1 : ((fun q : Pt => decide (q.1 ≤ (shift t p).1)) ∘ shift t) = (fun q : Pt => decide (q.1 ≤ p.1)) := by
      funext q; simp only [Function.comp, shift, add_le_add_iff_right]
    have hp2 : ((fun q : Pt => !((v :: vs).map (shift t)).contains q) ∘ shift t)
        = (fun q : Pt => !(v :: vs).contains q) := by
      funext q; simp only [Function.comp, tr_contains]
    simp only [hp1, hp2]
    simp only [shift, gt_iff_lt, add_lt_add_iff_right]

theorem tr_pushNew (t : Pt) (acc : List Pt) (p : Pt) :
    pushNew (acc.map (shift t)) (shift t p) = (pushNew acc p).map (shift t) := by
  cases acc with
  | nil => rfl
  | cons q qs =>
    simp only [List.map_cons, pushNew, tr_shift_inj]
    split_ifs <;> rfl

theorem tr_mid (t p q : Pt) : mid (shift t p) (shift t q) = shift t (mid p q) := by
  simp only [mid, shift, Prod.mk.injEq]
  constructor <;> ring

theorem tr_along (c s : Rat) (t p : Pt) (a : Rat) :
    along c s (shift t p) a = shift t (along c s p a) := by
  simp only [along, shift, Prod.mk.injEq]
  constructor <;> ring

theorem tr_rowDist (c s : Rat) (t p q : Pt) :
    rowDist c s (shift t p) (shift t q) = rowDist c s p q := by
  unfold rowDist
  rw [tr_proj_shift, tr_proj_shift, tr_add_sub_add]

theorem tr_distLoop (c s tol step : Rat) (t x2 : Pt) (fuel : Nat) (cur : Pt) (acc : List Pt) :
    distLoop c s tol step (shift t x2) fuel (shift t cur) (acc.map (shift t))
      = (distLoop c s tol step x2 fuel cur acc).map (List.map (shift t)) := by
  induction fuel generalizing cur acc with
  | zero => rfl
  | succ n ih =>
    simp only [distLoop, tr_rowDist]
    split_ifs
    · rw [tr_along, tr_pushNew, ih]
    · rfl

theorem tr_distribute (c s spacing : Rat) (t x1 x2 : Pt) (acc : List Pt) :
    distribute c s spacing (shift t x1) (shift t x2) (acc.map (shift t))
      = (distribute c s spacing x1 x2 acc).map (List.map (shift t)) := by
  unfold distribute
  simp only [tr_rowDist, tr_mid, tr_pushNew, tr_distLoop]
  split_ifs
  · rfl
  · rfl
  · rfl
  · generalize distLoop c s Gen.RowWise.distributeTol _ x2 _ x1 acc = r
    match r with
    | none => rfl
    | some [] => rfl
    | some (q :: acc') =>
      simp only [Option.map, List.map_cons, tr_shift_inj]
      split_ifs <;> rfl

theorem tr_processRows (c s space : Rat) (t sx ex : Pt) (acc : List Pt) :
    processRows c s space (shift t sx) (shift t ex) (acc.map (shift t))
      = (processRows c s space sx ex acc).map (List.map (shift t)) := by
  unfold processRows
  simp only [tr_rowDist, tr_mid, tr_pushNew, tr_distribute]
  split_ifs <;> rfl

theorem tr_close (tol : Rat) (t p q : Pt) : close tol (shift t p) (shift t q) = close tol p q := by
  unfold close
  simp only [shift, tr_add_sub_add]

theorem tr_dedupe (tol : Rat) (t : Pt) (l : List Pt) :
    dedupe tol (l.map (shift t)) = (dedupe tol l).map (shift t) := by
  match l with
  | [] => rfl
  | [p] => rfl
  | p :: q :: rest =>
    simp only [List.map_cons, dedupe, tr_close]
    split_ifs
    · have h : (shift t q :: rest.map (shift t)) = (q :: rest).map (shift t) := rfl
      have hp : ((fun r : Pt => !close tol (shift t p) r) ∘ shift t) = (fun r : Pt => !close tol p r) := by
        funext r; simp only [Function.comp, tr_close]
      rw [h, List.filter_map, hp]
      rfl
    · rfl

/-- The pair handed to `processRows` by `evenLoop`. -/
def tr_evenSeg (c s space : Rat) (prev : Option Pt) (p q : Pt) : Pt × Pt :=
  match prev with
  | some r =>
    if rowDist c s p r < space then (along c s p (rowDist c s p r), q)
    else if rowDist c s p q < space then (p, along c s q (-rowDist c s p q)) else (p, q)
  | none => if rowDist c s p q < space then (p, along c s q (-rowDist c s p q)) else (p, q)

theorem tr_evenLoop_cons (c s space : Rat) (prev : Option Pt) (p q : Pt) (rest acc : List Pt) :
    evenLoop c s space prev (p :: q :: rest) acc =
      match processRows c s space (tr_evenSeg c s space prev p q).1 (tr_evenSeg c s space prev p q).2 acc with
      | .error e => .error e
      | .ok acc' => evenLoop c s space (some q) rest acc' := by
  cases prev <;> rfl

theorem tr_evenSeg_shift (c s space : Rat) (t : Pt) (prev : Option Pt) (p q : Pt) :
    tr_evenSeg c s space (prev.map (shift t)) (shift t p) (shift t q)
      = Prod.map (shift t) (shift t) (tr_evenSeg c s space prev p q) := by
  cases prev with
  | none =>
    simp only [Option.map, tr_evenSeg, tr_rowDist, tr_along]
    split_ifs <;> rfl
  | some r =>
    simp only [Option.map, tr_evenSeg, tr_rowDist, tr_along]
    split_ifs <;> rfl

theorem tr_evenLoop (c s space : Rat) (t : Pt) : ∀ (l : List Pt) (prev : Option Pt) (acc : List Pt),
    evenLoop c s space (prev.map (shift t)) (l.map (shift t)) (acc.map (shift t))
      = (evenLoop c s space prev l acc).map (List.map (shift t))
  | [], prev, acc => by simp only [List.map_nil, evenLoop]; rfl
  | [p], prev, acc => by simp only [List.map_cons, List.map_nil, evenLoop]; rfl
  | p :: q :: rest, prev, acc => by
    simp only [List.map_cons, tr_evenLoop_cons, tr_evenSeg_shift, Prod.map_fst, Prod.map_snd,
      tr_processRows]
    cases processRows c s space (tr_evenSeg c s space prev p q).1 (tr_evenSeg c s space prev p q).2 acc with
    | error e => rfl
    | ok acc' =>
      have := tr_evenLoop c s space t rest (some q) acc'
      simpa only [Option.map, Except.map] using this

theorem tr_oddLoop (poly : List Pt) (c s space : Rat) (t : Pt) (l acc : List Pt) :
    oddLoop (poly.map (shift t)) c s space (l.map (shift t)) (acc.map (shift t))
      = (oddLoop poly c s space l acc).map (List.map (shift t)) := by
  induction l generalizing acc with
  | nil => simp only [List.map_nil, oddLoop]; rfl
  | cons p tl ih =>
    cases tl with
    | nil => simp only [List.map_cons, List.map_nil, oddLoop]; rfl
    | cons q rest =>
      simp only [List.map_cons, oddLoop, tr_mid, tr_pointIntersect, tr_processRows]
      simp only [List.map_cons] at ih
      split_ifs
      · cases processRows c s space p q acc with
        | error e => rfl
        | ok acc' => simpa only [Except.map] using ih acc'
      · exact ih acc

theorem tr_rowStep (poly : List Pt) (c s tol space : Rat) (htol : 0 ≤ tol) (t : Pt) (row : Seg)
    (acc : List Pt) :
    rowStep (poly.map (shift t)) c s tol space (tr_shiftSeg t row) (acc.map (shift t))
      = (rowStep poly c s tol space row acc).map (List.map (shift t)) := by
  unfold rowStep
  simp only [tr_lineIntersect t poly row c s tol htol, tr_dedupe]
  generalize dedupe tol (lineIntersect poly row c s tol) = f
  have hev := tr_evenLoop c s space t f none acc
  have hodd := tr_oddLoop poly c s space t f acc
  simp only [Option.map] at hev
  match f with
  | [] =>
    simp only [List.map_nil, List.length_nil] at hev ⊢
    exact hev
  | [p] =>
    simp only [List.map_cons, List.map_nil, List.length_cons, List.length_nil, tr_pushNew]
    rfl
  | [p, q] =>
    simp only [List.map_cons, List.map_nil, List.length_cons, List.length_nil, tr_rowDist] at hev ⊢
    split_ifs
    all_goals first | rfl | exact hev
  | p :: q :: r :: rest =>
    simp only [List.map_cons, List.length_cons, List.length_map] at hev hodd ⊢
    split_ifs
    · exact hev
    · exact hodd

theorem tr_rowSeg (t lowest : Pt) (rs0 rs1 : Rat) (k : Nat) :
    rowSeg (shift t lowest) rs0 rs1 k = tr_shiftSeg t (rowSeg lowest rs0 rs1 k) := by
  unfold rowSeg
  simp only [shift]
  split_ifs
  · simp only [tr_shiftSeg]
    congr 1 <;> ring
  · simp only [tr_shiftSeg]
    congr 1 <;> ring

theorem tr_rowsLoop (poly : List Pt) (c s tol space : Rat) (htol : 0 ≤ tol) (t lowest : Pt)
    (rs0 rs1 : Rat) (ks : List Nat) (acc : List Pt) :
    rowsLoop (poly.map (shift t)) c s tol space (shift t lowest) rs0 rs1 ks (acc.map (shift t))
      = (rowsLoop poly c s tol space lowest rs0 rs1 ks acc).map (List.map (shift t)) := by
  induction ks generalizing acc with
  | nil => rfl
  | cons k ks ih =>
    simp only [rowsLoop, tr_rowSeg, tr_rowStep poly c s tol space htol]
    cases rowStep poly c s tol space (rowSeg lowest rs0 rs1 k) acc with
    | error e => rfl
    | ok acc' => simpa only [Except.map] using ih acc'

theorem tr_sqDist (t p q : Pt) : sqDist (shift t p) (shift t q) = sqDist p q := by
  simp only [sqDist, shift, tr_add_sub_add]

theorem tr_removeDupAux (tolSq : Rat) (t : Pt) (l seen : List Pt) :
    removeDupAux tolSq (seen.map (shift t)) (l.map (shift t))
      = (removeDupAux tolSq seen l).map (shift t) := by
  induction l generalizing seen with
  | nil => simp only [List.map_nil, removeDupAux]
  | cons p ps ih =>
    have h := ih (p :: seen)
    simp only [List.map_cons] at h
    simp only [List.map_cons, removeDupAux, List.any_map, Function.comp_def, tr_sqDist, h]
    split_ifs <;> rfl

theorem tr_removeDuplicates (space : Rat) (t : Pt) (l : List Pt) :
    removeDuplicates space (l.map (shift t)) = (removeDuplicates space l).map (shift t) := by
  unfold removeDuplicates
  exact tr_removeDupAux _ t l []

theorem tr_ypOf_nonneg (c s : Rat) (v : Pt) (h1 : 0 ≤ v.1) (h2 : 0 ≤ v.2) :
    ypOf c s v = v.2 * c - v.1 * s := by
  unfold ypOf
  split_ifs with h0 hp
  · rw [h0, ratAbs_eq_abs, abs_of_nonneg h2]; ring
  · rfl
  · exfalso; exact hp (lt_of_le_of_ne h1 (Ne.symm h0))

theorem tr_ypOf_shift (c s : Rat) (t v : Pt) (h1 : 0 ≤ v.1) (h2 : 0 ≤ v.2)
    (h1' : 0 ≤ v.1 + t.1) (h2' : 0 ≤ v.2 + t.2) :
    ypOf c s (shift t v) = ypOf c s v + (t.2 * c - t.1 * s) := by
  rw [tr_ypOf_nonneg c s v h1 h2, tr_ypOf_nonneg c s (shift t v) h1' h2']
  simp only [shift]; ring

/-- Shift of a recorded extreme: value by `d`, vertex by `t`. -/
def tr_shiftExt (d : Rat) (t : Pt) (e : Rat × Pt) : Rat × Pt := (e.1 + d, shift t e.2)

/-- One update of the running minimum in `extremes`. -/
def tr_loStep (y : Rat) (v : Pt) (lo : Option (Rat × Pt)) : Option (Rat × Pt) :=
  match lo with
  | none => some (y, v)
  | some (l, lv) => if y < l then some (y, v) else some (l, lv)

/-- One update of the running maximum in `extremes`. -/
def tr_hiStep (y : Rat) (v : Pt) (hi : Option (Rat × Pt)) : Option (Rat × Pt) :=
  match hi with
  | none => some (y, v)
  | some (h, hv) => if y > h then some (y, v) else some (h, hv)

theorem tr_extremes_cons (c s : Rat) (v : Pt) (vs : List Pt) (lo hi : Option (Rat × Pt)) :
    extremes c s (v :: vs) lo hi
      = extremes c s vs (tr_loStep (ypOf c s v) v lo) (tr_hiStep (ypOf c s v) v hi) := rfl

theorem tr_loStep_shift (d : Rat) (t : Pt) (y : Rat) (v : Pt) (lo : Option (Rat × Pt)) :
    tr_loStep (y + d) (shift t v) (lo.map (tr_shiftExt d t)) = (tr_loStep y v lo).map (tr_shiftExt d t) := by
  cases lo with
  | none => rfl
  | some ll =>
    obtain ⟨l, lv⟩ := ll
    simp only [Option.map_some, tr_shiftExt, tr_loStep, add_lt_add_iff_right]
    split_ifs <;> rfl

theorem tr_hiStep_shift (d : Rat) (t : Pt) (y : Rat) (v : Pt) (hi : Option (Rat × Pt)) :
    tr_hiStep (y + d) (shift t v) (hi.map (tr_shiftExt d t)) = (tr_hiStep y v hi).map (tr_shiftExt d t) := by
  cases hi with
  | none => rfl
  | some hh =>
    obtain ⟨h, hv⟩ := hh
    simp only [Option.map_some, tr_shiftExt, tr_hiStep, gt_iff_lt, add_lt_add_iff_right]
    split_ifs <;> rfl

theorem tr_extremes (c s d : Rat) (t : Pt) (l : List Pt)
    (hl : ∀ v ∈ l, ypOf c s (shift t v) = ypOf c s v + d) (lo hi : Option (Rat × Pt)) :
    extremes c s (l.map (shift t)) (lo.map (tr_shiftExt d t)) (hi.map (tr_shiftExt d t))
      = ((extremes c s l lo hi).1.map (tr_shiftExt d t), (extremes c s l lo hi).2.map (tr_shiftExt d t)) := by
  induction l generalizing lo hi with
  | nil => rfl
  | cons v vs ih =>
    have hl' : ∀ v ∈ vs, ypOf c s (shift t v) = ypOf c s v + d :=
      fun w hw => hl w (List.mem_cons_of_mem _ hw)
    have hv := hl v List.mem_cons_self
    rw [List.map_cons, tr_extremes_cons, tr_extremes_cons, hv, tr_loStep_shift, tr_hiStep_shift]
    exact ih hl' _ _

theorem tr_rowPlan (t : Pt) (poly : List Pt) (c s ySpace : Rat)
    (hpos : ∀ v ∈ poly, 0 ≤ v.1 ∧ 0 ≤ v.2)
    (hpos' : ∀ v ∈ poly, 0 ≤ v.1 + t.1 ∧ 0 ≤ v.2 + t.2) :
    rowPlan (poly.map (shift t)) c s ySpace
      = (rowPlan poly c s ySpace).map (fun r => (r.1, shift t r.2.1, r.2.2)) := by
  have hl : ∀ v ∈ poly, ypOf c s (shift t v) = ypOf c s v + (t.2 * c - t.1 * s) :=
    fun v hv => tr_ypOf_shift c s t v (hpos v hv).1 (hpos v hv).2 (hpos' v hv).1 (hpos' v hv).2
  have h := tr_extremes c s (t.2 * c - t.1 * s) t poly hl none none
  simp only [Option.map_none] at h
  unfold rowPlan
  rw [h]
  generalize extremes c s poly none none = e
  obtain ⟨lo, hi⟩ := e
  cases lo with
  | none => rfl
  | some ll =>
    obtain ⟨l, lv⟩ := ll
    cases hi with
    | none => rfl
    | some hh =>
      obtain ⟨h', hv⟩ := hh
      simp only [Option.map_some, tr_shiftExt, tr_add_sub_add]
      split_ifs <;> rfl

theorem genBoreholeConfig_translate (t : Pt) (poly : List Pt) (ySpace xSpace c s tol : Rat)
    (htol : 0 ≤ tol)
    (hpos : ∀ v ∈ poly, 0 ≤ v.1 ∧ 0 ≤ v.2)
    (hpos' : ∀ v ∈ poly, 0 ≤ v.1 + t.1 ∧ 0 ≤ v.2 + t.2) :
    genBoreholeConfig (poly.map (shift t)) ySpace xSpace c s tol
      = (genBoreholeConfig poly ySpace xSpace c s tol).map (List.map (shift t)) := by
  unfold genBoreholeConfig
  rw [tr_rowPlan t poly c s ySpace hpos hpos']
  cases rowPlan poly c s ySpace with
  | error e => rfl
  | ok r =>
    obtain ⟨numRows, lowest, rs0, rs1⟩ := r
    have h := tr_rowsLoop poly c s tol xSpace htol t lowest rs0 rs1 (List.range (numRows + 1).toNat) []
    simp only [List.map_nil] at h
    simp only [Except.map, h]
    cases rowsLoop poly c s tol xSpace lowest rs0 rs1 (List.range (numRows + 1).toNat) [] with
    | error e => rfl
    | ok acc =>
      simp only [← List.map_reverse, tr_removeDuplicates]

/-- Shift of the running best of the sweep. -/
def tr_shiftBest (t : Pt) (b : Nat × Option (Nat × List Pt)) : Nat × Option (Nat × List Pt) :=
  (b.1, b.2.map (fun ih => (ih.1, ih.2.map (shift t))))

theorem tr_sweepStep (t : Pt) (best : Nat × Option (Nat × List Pt)) (idx : Nat) (hole : List Pt) :
    sweepStep (tr_shiftBest t best) idx (hole.map (shift t)) = tr_shiftBest t (sweepStep best idx hole) := by
  unfold sweepStep
  simp only [List.length_map, tr_shiftBest]
  split_ifs <;> rfl

theorem tr_sweepLoop (t : Pt) (gen gen' : Rat × Rat → Py (List Pt))
    (hg : ∀ r, gen' r = (gen r).map (List.map (shift t)))
    (rots : List (Rat × Rat)) (idx : Nat) (best : Nat × Option (Nat × List Pt)) :
    sweepLoop gen' rots idx (tr_shiftBest t best) = (sweepLoop gen rots idx best).map (tr_shiftBest t) := by
  induction rots generalizing idx best with
  | nil => rfl
  | cons r rs ih =>
    simp only [sweepLoop, hg]
    cases gen r with
    | error e => rfl
    | ok hole =>
      simp only [Except.map, tr_sweepStep]
      exact ih _ _

theorem fieldOptimizationFr_translate (t : Pt) (poly : List Pt) (space tol : Rat)
    (htol : 0 ≤ tol)
    (hpos : ∀ v ∈ poly, 0 ≤ v.1 ∧ 0 ≤ v.2)
    (hpos' : ∀ v ∈ poly, 0 ≤ v.1 + t.1 ∧ 0 ≤ v.2 + t.2)
    (rots : List (Rat × Rat)) :
    fieldOptimizationFr (poly.map (shift t)) space tol rots
      = (fieldOptimizationFr poly space tol rots).map (fun r => (r.1, r.2.map (shift t))) := by
  unfold fieldOptimizationFr
  have h := tr_sweepLoop t (fun r => genBoreholeConfig poly space space r.1 r.2 tol)
    (fun r => genBoreholeConfig (poly.map (shift t)) space space r.1 r.2 tol)
    (fun r => genBoreholeConfig_translate t poly space space r.1 r.2 tol htol hpos hpos')
    rots 0 (0, none)
  have h0 : tr_shiftBest t (0, none) = (0, none) := rfl
  rw [h0] at h
  rw [h]
  cases sweepLoop (fun r => genBoreholeConfig poly space space r.1 r.2 tol) rots 0 (0, none) with
  | error e => rfl
  | ok b =>
    obtain ⟨n, o⟩ := b
    cases o with
    | none => rfl
    | some ih =>
      obtain ⟨idx, hole⟩ := ih
      simp only [Except.map, tr_shiftBest, Option.map_some, tr_removeDuplicates]



end GHEVerif.RowWise
