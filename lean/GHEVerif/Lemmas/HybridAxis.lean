/- Time-axis lemmas of `process_month_loads` (behind Props/C08 and C07): increasing chains,
   `windowsClear`, month-end entries, last hour. -/
import GHEVerif.Lemmas.HybridEnergy

namespace GHEVerif.Hybrid
open GHEVerif

/-- `Incr h0 l`: `h0 < l[0] < l[1] < …` -/
def Incr : Rat → List Rat → Prop
  | _, [] => True
  | h0, h :: t => h0 < h ∧ Incr h t

def lastOf : Rat → List Rat → Rat
  | h0, [] => h0
  | _, h :: t => lastOf h t

theorem Incr_append (h0 : Rat) (a b : List Rat) : Incr h0 (a ++ b) ↔ Incr h0 a ∧ Incr (lastOf h0 a) b := by
  induction a generalizing h0 with
  | nil => simp [Incr, lastOf]
  | cons x a ih => simp [Incr, lastOf, ih, and_assoc]

theorem lastOf_append (h0 : Rat) (a b : List Rat) : lastOf h0 (a ++ b) = lastOf (lastOf h0 a) b := by
  induction a generalizing h0 with
  | nil => simp [lastOf]
  | cons x a ih => simp [lastOf, ih]

theorem Incr_lt_all (h0 : Rat) (l : List Rat) (h : Incr h0 l) : ∀ x ∈ l, h0 < x := by
  induction l generalizing h0 with
  | nil => simp
  | cons a l ih =>
    intro x hx
    obtain ⟨h1, h2⟩ := h
    rcases List.mem_cons.mp hx with rfl | hx
    · exact h1
    · exact lt_trans h1 (ih a h2 x hx)

theorem Incr_pairwise (h0 : Rat) (l : List Rat) (h : Incr h0 l) : l.Pairwise (· < ·) := by
  induction l generalizing h0 with
  | nil => simp
  | cons a l ih =>
    obtain ⟨_, h2⟩ := h
    exact List.Pairwise.cons (Incr_lt_all a l h2) (ih a h2)

theorem lastOf_hours (h0 : Rat) (l : List (Rat × Rat)) : lastOf h0 (l.map Prod.snd) = lastHour h0 l := by
  induction l generalizing h0 with
  | nil => rfl
  | cons x l ih => obtain ⟨q, h⟩ := x; simp [lastOf, lastHour, ih]

/-- The pulse windows of a retained month as the record describes them (noon-centred; on a shared
    day the rejection pulse ends and the extraction pulse starts at noon), and the requirement that
    they lie strictly inside the month, have positive length and do not touch each other except
    for the abutment at noon. -/
def coolWindow (fmh : Int) (r : MonthRec) : Rat × Rat :=
  if r.dayc = r.dayh then (noonOf fmh r.dayc - r.dcl, noonOf fmh r.dayc)
  else (noonOf fmh r.dayc - r.dcl / 2, noonOf fmh r.dayc + r.dcl / 2)

def heatWindow (fmh : Int) (r : MonthRec) : Rat × Rat :=
  if r.dayc = r.dayh then (noonOf fmh r.dayh, noonOf fmh r.dayh + r.dhl)
  else (noonOf fmh r.dayh - r.dhl / 2, noonOf fmh r.dayh + r.dhl / 2)

def windowsClear (y : Int) (r : MonthRec) (i : Int) : Prop :=
  let fmh := 1 + lmh y (i - 1)
  let prev : Rat := (lmh y (i - 1) : Int)
  let lm : Rat := (lmh y i : Int)
  let c := coolWindow fmh r
  let h := heatWindow fmh r
  (0 < r.pcl → prev < c.1 ∧ c.1 < c.2 ∧ c.2 < lm) ∧
  (0 < r.phl → prev < h.1 ∧ h.1 < h.2 ∧ h.2 < lm) ∧
  (0 < r.pcl → 0 < r.phl → (r.dayc < r.dayh → c.2 < h.1) ∧ (r.dayh < r.dayc → h.2 < c.1)) ∧
  -- on a shared day the extraction pulse is placed from its (clamped) centred start: no clamp
  (r.dayc = r.dayh → 0 < r.phl → r.dhl ≤ 2 * noonOf fmh r.dayh)

instance (y : Int) (r : MonthRec) (i : Int) : Decidable (windowsClear y r i) := by
  unfold windowsClear; infer_instance

theorem lmh_nonneg (y i : Int) : 0 ≤ lmh y i := by
  unfold lmh
  have : ∀ n : Nat, 0 ≤ cumDays y n := by
    intro n
    induction n with
    | zero => simp [cumDays_zero]
    | succ n ih => rw [cumDays_succ]; have := mdays_ge y ((n : Int) + 1); omega
  have := this i.toNat
  omega

theorem peakHours_centered (fmh day : Int) (dur : Rat) (hd : 0 ≤ dur) (h : 0 ≤ noonOf fmh day - dur / 2) :
    peakHours fmh day dur = (noonOf fmh day - dur / 2, noonOf fmh day + dur / 2) := by
  have h1 := peakHours_noclamp fmh day dur (by linarith)
  obtain ⟨h2, _⟩ := peakHours_len fmh day dur hd
  rw [h1] at h2
  ext
  · exact h1
  · rw [h2]; ring


theorem lmh_lt_succ (y i : Int) (hi : 1 ≤ i) : ((lmh y (i - 1) : Int) : Rat) < ((lmh y i : Int) : Rat) := by
  have := lmh_succ y i hi
  have := mdays_ge y i
  exact_mod_cast (by omega : lmh y (i - 1) < lmh y i)

/-- Under `windowsClear` the hours a retained month emits increase strictly from the previous month
    end to this month's end (no clamp fires, no zero-length or negative sub-step). -/
theorem segments_incr (y : Int) (r : MonthRec) (ipf : Bool) (i : Int) (hi : 1 ≤ i) (rate : Rat)
    (hw : ipf = true → windowsClear y r i) :
    Incr ((lmh y (i - 1) : Int) : Rat) ((monthSegments r ipf rate
      (peakHours (1 + lmh y (i - 1)) r.dayc r.dcl).1 (peakHours (1 + lmh y (i - 1)) r.dayc r.dcl).2
      (peakHours (1 + lmh y (i - 1)) r.dayh r.dhl).1 (peakHours (1 + lmh y (i - 1)) r.dayh r.dhl).2
      ((lmh y i : Int) : Rat)).map Prod.snd) := by
  have hprev : (0 : Rat) ≤ ((lmh y (i - 1) : Int) : Rat) := by exact_mod_cast lmh_nonneg y (i - 1)
  have hlm := lmh_lt_succ y i hi
  cases ipf with
  | false => simp [monthSegments, Incr, hlm]
  | true =>
    have hw' := hw rfl
    dsimp only [windowsClear] at hw'
    obtain ⟨wc, wh, wo, wn⟩ := hw'
    unfold monthSegments
    rcases lt_trichotomy r.dayc r.dayh with d | d | d
    · have hne : r.dayc ≠ r.dayh := by omega
      simp only [coolWindow, heatWindow, hne, if_false] at wc wh wo
      by_cases c : 0 < r.pcl <;> by_cases h : 0 < r.phl
      · obtain ⟨c1, c2, c3⟩ := wc c
        obtain ⟨h1, h2, h3⟩ := wh h
        have o := (wo c h).1 d
        rw [peakHours_centered _ _ r.dcl (by linarith) (by linarith), peakHours_centered _ _ r.dhl (by linarith) (by linarith)]
        simp [d, c, h, Incr]
        refine ⟨c1, c2, o, h2, h3⟩
      · obtain ⟨c1, c2, c3⟩ := wc c
        rw [peakHours_centered _ _ r.dcl (by linarith) (by linarith)]
        simp [d, c, h, Incr]
        exact ⟨c1, c2, c3⟩
      · obtain ⟨h1, h2, h3⟩ := wh h
        rw [peakHours_centered _ _ r.dhl (by linarith) (by linarith)]
        simp [d, c, h, Incr]
        exact ⟨h1, h2, h3⟩
      · simp [d, c, h, Incr, hlm]
    · simp only [coolWindow, heatWindow, d, if_true] at wc wh wo
      have wn' := wn d
      rw [d]
      by_cases c : 0 < r.pcl <;> by_cases h : 0 < r.phl
      · obtain ⟨c1, c2, c3⟩ := wc c
        obtain ⟨h1, h2, h3⟩ := wh h
        have := wn' h
        rw [peakHours_centered _ _ r.dcl (by linarith) (by linarith), peakHours_centered _ _ r.dhl (by linarith) (by linarith)]
        simp [c, h, Incr]
        refine ⟨by linarith, by linarith, by linarith, by linarith⟩
      · obtain ⟨c1, c2, c3⟩ := wc c
        rw [peakHours_centered _ _ r.dcl (by linarith) (by linarith)]
        simp [c, h, Incr]
        refine ⟨by linarith, by linarith, by linarith⟩
      · obtain ⟨h1, h2, h3⟩ := wh h
        have := wn' h
        rw [peakHours_centered _ _ r.dhl (by linarith) (by linarith)]
        simp [c, h, Incr]
        refine ⟨by linarith, by linarith, by linarith⟩
      · simp [c, h, Incr, hlm]
    · have hne : r.dayc ≠ r.dayh := by omega
      have nd : ¬ (r.dayc < r.dayh) := by omega
      simp only [coolWindow, heatWindow, hne, if_false] at wc wh wo
      by_cases c : 0 < r.pcl <;> by_cases h : 0 < r.phl
      · obtain ⟨c1, c2, c3⟩ := wc c
        obtain ⟨h1, h2, h3⟩ := wh h
        have o := (wo c h).2 d
        rw [peakHours_centered _ _ r.dcl (by linarith) (by linarith), peakHours_centered _ _ r.dhl (by linarith) (by linarith)]
        simp [d, nd, c, h, Incr]
        refine ⟨h1, h2, o, c2, c3⟩
      · obtain ⟨c1, c2, c3⟩ := wc c
        rw [peakHours_centered _ _ r.dcl (by linarith) (by linarith)]
        simp [d, nd, c, h, Incr]
        exact ⟨c1, c2, c3⟩
      · obtain ⟨h1, h2, h3⟩ := wh h
        rw [peakHours_centered _ _ r.dhl (by linarith) (by linarith)]
        simp [d, nd, c, h, Incr]
        exact ⟨h1, h2, h3⟩
      · simp [d, nd, c, h, Incr, hlm]


/-- The month does not raise: the averaging period of a retained month is not empty. -/
def MonthRuns (y : Int) (r : MonthRec) (ipf : Bool) (i : Int) : Prop :=
  ipf = true → pulseHours r ≠ 24 * (mdays y i : Rat)

theorem monthRate_runs (y : Int) (r : MonthRec) (ipf : Bool) (i : Int) (h : MonthRuns y r ipf i) :
    monthRate r ipf (mdays y i * 24) = .ok (rateOf y r ipf i) := by
  have hm := mdays_ge y i
  have hmR : (28 : Rat) ≤ (mdays y i : Rat) := by exact_mod_cast hm
  unfold rateOf
  cases ipf with
  | false =>
    have hne : ((mdays y i * 24 : Int) : Rat) ≠ 0 := by push_cast; linarith
    simp only [monthRate, pyDiv, hne, if_false, Bool.false_eq_true]
  | true =>
    have hne : ((mdays y i * 24 : Int) : Rat) - (if r.pcl > 0 then r.dcl else 0) - (if r.phl > 0 then r.dhl else 0) ≠ 0 := by
      intro h'; apply h rfl; unfold pulseHours; push_cast at h'; linarith
    simp only [monthRate, pyDiv, hne, if_false, if_true]

theorem emitMonth_runs (y : Int) (r : MonthRec) (ipf : Bool) (i : Int) (hi : 1 ≤ i) (h : MonthRuns y r ipf i) :
    emitMonth y r ipf i = .ok (monthSegments r ipf (rateOf y r ipf i)
      (peakHours (1 + lmh y (i - 1)) r.dayc r.dcl).1 (peakHours (1 + lmh y (i - 1)) r.dayc r.dcl).2
      (peakHours (1 + lmh y (i - 1)) r.dayh r.dhl).1 (peakHours (1 + lmh y (i - 1)) r.dayh r.dhl).2
      ((lmh y i : Int) : Rat)) :=
  emitMonth_eq y r ipf i hi _ (monthRate_runs y r ipf i h)

/-- Whatever the branch, the last entry a month appends is the average rate up to the month end. -/
theorem monthSegments_last (r : MonthRec) (ipf : Bool) (rate a b c d lm : Rat) :
    ∃ pre, monthSegments r ipf rate a b c d lm = pre ++ [(rate, lm)] := by
  unfold monthSegments
  cases ipf with
  | false => exact ⟨[], by simp⟩
  | true =>
    simp only [if_true]
    by_cases h1 : r.dayc - r.dayh < 0
    · simp only [h1, if_true]; exact ⟨_, rfl⟩
    · by_cases h2 : r.dayc - r.dayh > 0
      · simp only [h1, h2, if_true, if_false]; exact ⟨_, rfl⟩
      · simp only [h1, h2, if_false]; exact ⟨_, rfl⟩

theorem lastHour_snoc (h0 : Rat) (pre : List (Rat × Rat)) (q h : Rat) : lastHour h0 (pre ++ [(q, h)]) = h := by
  rw [lastHour_append]; rfl

/-- Consecutive blocks whose hours increase from `L (i-1)` to `L i` form one increasing chain. -/
theorem blocks_incr (L : Int → Rat) (B : Int → List (Rat × Rat)) (start e : Int) (he : start - 1 ≤ e)
    (h : ∀ i, start ≤ i → i ≤ e → Incr (L (i - 1)) ((B i).map Prod.snd) ∧ lastHour (L (i - 1)) (B i) = L i) :
    Incr (L (start - 1)) ((((pyRange start (e + 1)).map B).flatten).map Prod.snd) ∧
    lastHour (L (start - 1)) ((pyRange start (e + 1)).map B).flatten = L e := by
  induction e, he using Int.leInduction with
  | base =>
    rw [show start - 1 + 1 = start by ring, pyRange_empty _ _ (le_refl _)]
    simp [Incr, lastHour]
  | succ e he ih =>
    obtain ⟨i1, i2⟩ := ih (fun i a b => h i a (by omega))
    obtain ⟨j1, j2⟩ := h (e + 1) (by omega) (le_refl _)
    rw [pyRange_succ start (e + 1) (by omega)]
    simp only [List.map_append, List.flatten_append, List.map_cons, List.map_nil, List.flatten_cons,
      List.flatten_nil, List.append_nil]
    rw [show e + 1 - 1 = e by ring] at j1 j2
    refine ⟨?_, ?_⟩
    · rw [Incr_append]
      refine ⟨i1, ?_⟩
      rw [lastOf_hours, i2]; exact j1
    · rw [lastHour_append, i2]; exact j2

/-- The sequence under the weak hypothesis "no month raises": shape, month-end entries, last hour. -/
theorem axis_core (y : Int) (base : List MonthRec) (hlen : base.length = 13) (start end_ : Int)
    (hs : 1 ≤ start) (hs' : start ≤ 13) (he : start - 1 ≤ end_)
    (hrun : ∀ i, start ≤ i → i ≤ end_ → MonthRuns y (recAt base i) (ipfFlag start end_ i) i) :
    processMonthLoads y base start end_ =
      .ok ([((0 : Rat), (0 : Rat)), ((0 : Rat), ((lmh y (start - 1) : Int) : Rat))] ++
        ((pyRange start (end_ + 1)).map (segsOf y base start end_)).flatten) ∧
    (∀ i, start ≤ i → i ≤ end_ → ∃ pre, segsOf y base start end_ i =
        pre ++ [(rateOf y (recAt base i) (ipfFlag start end_ i) i, ((lmh y i : Int) : Rat))]) ∧
    lastHour ((lmh y (start - 1) : Int) : Rat) ((pyRange start (end_ + 1)).map (segsOf y base start end_)).flatten
      = ((lmh y end_ : Int) : Rat) := by
  have hseg : ∀ i, start ≤ i → i ≤ end_ → segsOf y base start end_ i =
      monthSegments (recAt base i) (ipfFlag start end_ i) (rateOf y (recAt base i) (ipfFlag start end_ i) i)
      (peakHours (1 + lmh y (i - 1)) (recAt base i).dayc (recAt base i).dcl).1 (peakHours (1 + lmh y (i - 1)) (recAt base i).dayc (recAt base i).dcl).2
      (peakHours (1 + lmh y (i - 1)) (recAt base i).dayh (recAt base i).dhl).1 (peakHours (1 + lmh y (i - 1)) (recAt base i).dayh (recAt base i).dhl).2
      ((lmh y i : Int) : Rat) := by
    intro i a b
    exact emitMonth_segsOf _ _ _ _ _ _ (emitMonth_runs y _ _ i (by omega) (hrun i a b))
  have hlast : ∀ i, start ≤ i → i ≤ end_ → ∃ pre, segsOf y base start end_ i =
        pre ++ [(rateOf y (recAt base i) (ipfFlag start end_ i) i, ((lmh y i : Int) : Rat))] := by
    intro i a b
    rw [hseg i a b]; exact monthSegments_last _ _ _ _ _ _ _ _
  refine ⟨process_eq y base hlen start end_ hs hs' he (fun i a b => ⟨_, emitMonth_runs y _ _ i (by omega) (hrun i a b)⟩), hlast, ?_⟩
  -- last hour: every block ends at its month end
  have : ∀ (e : Int), start - 1 ≤ e → e ≤ end_ →
      lastHour ((lmh y (start - 1) : Int) : Rat) ((pyRange start (e + 1)).map (segsOf y base start end_)).flatten
        = ((lmh y e : Int) : Rat) := by
    intro e h1
    induction e, h1 using Int.leInduction with
    | base =>
      intro _
      rw [show start - 1 + 1 = start by ring, pyRange_empty _ _ (le_refl _)]; simp [lastHour]
    | succ e h1 ih =>
      intro h2
      rw [pyRange_succ start (e + 1) (by omega)]
      simp only [List.map_append, List.flatten_append, List.map_cons, List.map_nil, List.flatten_cons,
        List.flatten_nil, List.append_nil]
      obtain ⟨pre, hp⟩ := hlast (e + 1) (by omega) h2
      rw [lastHour_append, hp, lastHour_snoc]
  exact this end_ he (le_refl _)

end GHEVerif.Hybrid
