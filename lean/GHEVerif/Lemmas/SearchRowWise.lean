/- Lemmas about the RowWise search model (rwBisect / rwSweep / rwRemove invariants). -/
import GHEVerif.Lemmas.Search

namespace GHEVerif.Search
open GHEVerif

/-! ### RowWise search -/

/-- Excess at maximum height of what the RowWise search returns. -/
def rwExcess (Es : Rat → Rat) (E1 : Rat) (Esub : Nat → Rat) : RWSel → Rat
  | .atSpacing s => Es s
  | .sub n => Esub n
  | .single => E1

theorem rwBisect_hi (Es : Rat → Rat) : ∀ fuel b, Es b.hi ≤ 0 → Es (rwBisect Es fuel b).hi ≤ 0 := by
  intro fuel
  induction fuel with
  | zero => intro b h; simpa [rwBisect] using h
  | succ f ih =>
    intro b h
    unfold rwBisect
    simp only
    by_cases he : Es b.m ≤ 0
    · simp only [he, if_true]
      split
      · simpa using he
      · apply ih; simpa using he
    · simp only [he, if_false]
      split
      · simpa using h
      · apply ih; simpa using h

theorem rwSweep_feasible (Es : Rat → Rat) (nb : Rat → Nat) (szs : Rat → Rat) :
    ∀ targets best, (∀ s t, best = some (s, t) → Es s ≤ 0) →
      (best = none → ∀ t0 rest, targets = t0 :: rest → Es t0 ≤ 0) →
      ∀ s t, rwSweep Es nb szs targets best = some (s, t) → Es s ≤ 0 := by
  intro targets
  induction targets with
  | nil => intro best h1 _ s t h; simp [rwSweep] at h; exact h1 s t h
  | cons ts rest ih =>
    intro best h1 h2 s t h
    unfold rwSweep at h
    simp only at h
    cases best with
    | none =>
      simp only at h
      refine ih _ ?_ (by intro hn; cases hn) s t h
      intro s' t' e; injection e with e; injection e with e1 _; subst e1
      exact h2 rfl ts rest rfl
    | some bt =>
      obtain ⟨bs, bt⟩ := bt
      simp only at h
      by_cases hc : Es ts ≤ 0 ∧ szs ts * (nb ts : Nat) < bt
      · simp only [hc, and_self, if_true] at h
        refine ih _ ?_ (by intro hn; cases hn) s t h
        intro s' t' e; injection e with e; injection e with e1 _; subst e1; exact hc.1
      · simp only [hc, if_false] at h
        refine ih _ ?_ (by intro hn; cases hn) s t h
        intro s' t' e; injection e with e; injection e with e1 e2; subst e1
        exact h1 _ _ rfl

theorem rwRemove_sel (Es : Rat → Rat) (E1 : Rat) (Esub : Nat → Rat) :
    ∀ fuel r, rwExcess Es E1 Esub r.sel ≤ 0 → rwExcess Es E1 Esub (rwRemove Esub fuel r).sel ≤ 0 := by
  intro fuel
  induction fuel with
  | zero => intro r h; simpa [rwRemove] using h
  | succ f ih =>
    intro r h
    unfold rwRemove
    simp only
    by_cases he : Esub ((r.nmax + r.nmin) / 2) ≤ 0
    · simp only [he, if_true]
      split
      · simpa [rwExcess] using he
      · apply ih; simpa [rwExcess] using he
    · simp only [he, if_false]
      split
      · simpa using h
      · apply ih; simpa using h


end GHEVerif.Search
