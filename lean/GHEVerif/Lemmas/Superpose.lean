/- Helper lemmas for C09 (temporal superposition). -/
import GHEVerif.Model.Superpose
import Mathlib.Tactic.Ring
import Mathlib.Tactic.Linarith
import Mathlib.Tactic.FieldSimp
import Mathlib.Tactic.Positivity
import Mathlib.Algebra.BigOperators.Group.Finset.Basic
import Mathlib.Algebra.Order.BigOperators.Group.Finset
import Mathlib.Algebra.BigOperators.Intervals
import Mathlib.Algebra.BigOperators.Ring.Finset
import Mathlib.Algebra.BigOperators.Field
import Mathlib.Algebra.Order.Field.Basic
import Mathlib.Data.Rat.Floor

namespace GHEVerif.Superpose
open GHEVerif Finset

/-- The field load of step `i` (W), `q_0 = 0`: the `q_i` of the documented formula. -/
def qn (q : List Rat) (i : Nat) : Rat := if i = 0 then 0 else q.getD (i - 1) 0

theorem detLoadPrepend_eq : Gen.detLoadPrepend = 0 := by decide
theorem detTimePrepend_eq : Gen.detTimePrepend = 0 := by decide
theorem detOutletFactor_eq : Gen.detOutletFactor = 2 := by decide

theorem list_sum_map_range (f : Nat → Rat) (n : Nat) :
    ((List.range n).map f).sum = ∑ j ∈ Finset.range n, f j := by
  induction n with
  | zero => simp
  | succ n ih => rw [List.range_succ, List.map_append, List.sum_append, ih, Finset.sum_range_succ]; simp

theorem take_map_eq_range_map (l : List Rat) (f : Rat → Rat) (i : Nat) (hi : i ≤ l.length) :
    (l.take i).map f = (List.range i).map (fun j => f (l.getD j 0)) := by
  apply List.ext_getElem
  · simp [hi]
  · intro k h1 h2
    simp only [List.length_map, List.length_take, List.length_range] at h1 h2
    have hk : k < l.length := by omega
    simp [List.getD_eq_getElem?_getD, hk]

theorem dot_range_map (a b : Nat → Rat) (i : Nat) :
    dot ((List.range i).map a) ((List.range i).map b) = ∑ j ∈ Finset.range i, a j * b j := by
  unfold dot
  rw [List.zipWith_map, List.zipWith_self, list_sum_map_range]

theorem qB_length (q : List Rat) (P : Params) : (qB q P).length = q.length + 1 := by simp [qB]

theorem qB_getD (q : List Rat) (P : Params) (i : Nat) : (qB q P).getD i 0 = qn q i / (P.N : Rat) := by
  unfold qB qn
  rw [detLoadPrepend_eq]
  cases i with
  | zero => simp
  | succ k =>
    simp only [Nat.succ_ne_zero, if_false, Nat.add_sub_cancel, List.getD_cons_succ]
    simp only [List.getD_eq_getElem?_getD, List.getElem?_map]
    cases h : q[k]? <;> simp

theorem diffs_length (a : List Rat) : (diffs a).length = a.length - 1 := by
  unfold diffs; simp

theorem diffs_getD (a : List Rat) (j : Nat) (hj : j + 1 < a.length) :
    (diffs a).getD j 0 = a.getD (j + 1) 0 - a.getD j 0 := by
  unfold diffs
  have h1 : j < a.tail.length := by simp; omega
  have h2 : j < a.length := by omega
  have h3 : j < (List.zipWith (fun x y => x - y) a.tail a).length := by simp; omega
  simp only [List.getD_eq_getElem?_getD]
  rw [List.getElem?_eq_getElem h3, List.getElem?_eq_getElem hj, List.getElem?_eq_getElem h2]
  simp [List.getElem_zipWith]

/-- The superposition sum of step `i` as a `Finset` sum over the field loads. -/
theorem deltaTb_eq (q : List Rat) (G : Nat → Nat → Rat) (P : Params) (i : Nat) (hi : i ≤ q.length) :
    deltaTb q G P i =
      ∑ j ∈ Finset.range i, (qn q (j + 1) - qn q j) / (P.N : Rat) / P.H / P.twoPiK * G i (j + 1) := by
  unfold deltaTb gRow
  have hlen : i ≤ (diffs (qB q P)).length := by rw [diffs_length, qB_length]; omega
  rw [take_map_eq_range_map _ _ i hlen, dot_range_map]
  apply Finset.sum_congr rfl
  intro j hj
  have hj' : j < i := Finset.mem_range.mp hj
  rw [diffs_getD _ _ (by rw [qB_length]; omega), qB_getD, qB_getD]
  ring

/-- One step in closed form. -/
theorem eftStep_eq (q : List Rat) (G : Nat → Nat → Rat) (P : Params) (i : Nat) (hi : i ≤ q.length) :
    eftStep q G P i =
      P.Tg + (∑ j ∈ Finset.range i, (qn q (j + 1) - qn q j) / (P.N : Rat) / P.H / P.twoPiK * G i (j + 1))
        + qn q i / (P.N : Rat) / P.H * P.Rb - qn q i / (P.N : Rat) / (2 * P.mdot * P.cp) := by
  unfold eftStep
  simp only [qB_getD, deltaTb_eq q G P i hi, detOutletFactor_eq]


/-! ### The documented closed form -/

/-- `T_g + Σ_{i=1..n} (q_i − q_{i−1})·G n i/(2πk·H·N) + q_n·R_b/(H·N) − q_n/(2·ṁ·c_p·N)` with the
    field loads `q_i` (W), `q_0 = 0`. -/
def formula (q : List Rat) (G : Nat → Nat → Rat) (P : Params) (n : Nat) : Rat :=
  P.Tg + (∑ i ∈ Finset.Icc 1 n, (qn q i - qn q (i - 1)) * G n i / (P.twoPiK * P.H * (P.N : Rat)))
    + qn q n * P.Rb / (P.H * (P.N : Rat)) - qn q n / (2 * P.mdot * P.cp * (P.N : Rat))

/-- The borehole-wall part of it. -/
def formulaTb (q : List Rat) (G : Nat → Nat → Rat) (P : Params) (n : Nat) : Rat :=
  ∑ i ∈ Finset.Icc 1 n, (qn q i - qn q (i - 1)) * G n i / (P.twoPiK * P.H * (P.N : Rat))

theorem sum_range_succ_eq_Icc (f : Nat → Rat) (n : Nat) :
    ∑ j ∈ Finset.range n, f (j + 1) = ∑ i ∈ Finset.Icc 1 n, f i := by
  induction n with
  | zero => simp
  | succ n ih => rw [Finset.sum_range_succ, ih, Finset.sum_Icc_succ_top (by omega)]

theorem deltaTb_eq_formulaTb (q : List Rat) (G : Nat → Nat → Rat) (P : Params) (n : Nat) (hn : n ≤ q.length) :
    deltaTb q G P n = formulaTb q G P n := by
  rw [deltaTb_eq q G P n hn, formulaTb,
    ← sum_range_succ_eq_Icc (fun i => (qn q i - qn q (i - 1)) * G n i / (P.twoPiK * P.H * (P.N : Rat)))]
  apply Finset.sum_congr rfl
  intro j _
  simp only [Nat.add_sub_cancel]
  rw [div_div, div_div, mul_div_right_comm]
  congr 2
  ring

theorem eftStep_eq_formula (q : List Rat) (G : Nat → Nat → Rat) (P : Params) (n : Nat) (hn : n ≤ q.length) :
    eftStep q G P n = formula q G P n := by
  have h := deltaTb_eq_formulaTb q G P n hn
  rw [deltaTb_eq q G P n hn] at h
  rw [eftStep_eq q G P n hn, h, formula, formulaTb]
  have e1 : qn q n / (P.N : Rat) / P.H * P.Rb = qn q n * P.Rb / (P.H * (P.N : Rat)) := by
    rw [div_div, mul_comm (P.N : Rat) P.H, mul_div_right_comm]
  have e2 : qn q n / (P.N : Rat) / (2 * P.mdot * P.cp) = qn q n / (2 * P.mdot * P.cp * (P.N : Rat)) := by
    rw [div_div, mul_comm (P.N : Rat)]
  rw [e1, e2]

/-! ### The result lists -/

theorem loopIndices_length (n : Nat) : (loopIndices n).length = n := by simp [loopIndices]

theorem map_loopIndices_getD (f : Nat → Rat) (n k : Nat) (hk : k < n) :
    ((loopIndices n).map f).getD k 0 = f (k + 1) := by
  simp [loopIndices, List.getD_eq_getElem?_getD, hk]

theorem simulateDetailed_ok (q t : List Rat) (G : Nat → Nat → Rat) (P : Params) (ht : q.length ≤ t.length) :
    simulateDetailed q t G P =
      .ok ((loopIndices q.length).map (fun i => eftStep q G P i),
           (loopIndices q.length).map (fun i => deltaTb q G P i)) := by
  unfold simulateDetailed simulateDetailedAt
  rw [if_neg (by omega)]

theorem simulateDetailed_error (q t : List Rat) (G : Nat → Nat → Rat) (P : Params) (ht : t.length < q.length) :
    simulateDetailed q t G P = .error .indexError := by
  unfold simulateDetailed simulateDetailedAt
  rw [if_pos ht]

/-- Whatever `simulateDetailed` returns successfully is the pair of mapped lists. -/
theorem simulateDetailed_result {q t : List Rat} {G : Nat → Nat → Rat} {P : Params} {r : List Rat × List Rat}
    (h : simulateDetailed q t G P = .ok r) :
    q.length ≤ t.length ∧
    r.1 = (loopIndices q.length).map (fun i => eftStep q G P i) ∧
    r.2 = (loopIndices q.length).map (fun i => deltaTb q G P i) := by
  by_cases ht : t.length < q.length
  · rw [simulateDetailed_error q t G P ht] at h; cases h
  · have ht' : q.length ≤ t.length := by omega
    rw [simulateDetailed_ok q t G P ht'] at h
    injection h with h
    subst h
    exact ⟨ht', rfl, rfl⟩

/-! ### Algebra of `qn` -/

theorem qn_zero_index (q : List Rat) : qn q 0 = 0 := by simp [qn]

theorem qn_all_zero (q : List Rat) (h : ∀ x ∈ q, x = 0) (i : Nat) : qn q i = 0 := by
  unfold qn
  split
  · rfl
  · rw [List.getD_eq_getElem?_getD]
    cases hq : q[i - 1]? with
    | none => rfl
    | some v => exact h v (List.mem_of_getElem? hq)

theorem qn_nonneg (q : List Rat) (h : ∀ x ∈ q, 0 ≤ x) (i : Nat) : 0 ≤ qn q i := by
  unfold qn
  split
  · exact le_refl _
  · rw [List.getD_eq_getElem?_getD]
    cases hq : q[i - 1]? with
    | none => exact le_refl _
    | some v => exact h v (List.mem_of_getElem? hq)

theorem qn_map_mul (q : List Rat) (a : Rat) (i : Nat) : qn (q.map (fun x => a * x)) i = a * qn q i := by
  unfold qn
  split
  · simp
  · simp only [List.getD_eq_getElem?_getD, List.getElem?_map]
    cases q[i - 1]? <;> simp

theorem qn_zipWith_add (q₁ q₂ : List Rat) (hl : q₁.length = q₂.length) (i : Nat) :
    qn (List.zipWith (fun x y => x + y) q₁ q₂) i = qn q₁ i + qn q₂ i := by
  unfold qn
  split
  · simp
  · simp only [List.getD_eq_getElem?_getD, List.getElem?_zipWith]
    by_cases h : i - 1 < q₁.length
    · have h2 : i - 1 < q₂.length := by omega
      simp [List.getElem?_eq_getElem h, List.getElem?_eq_getElem h2]
    · have h1 : q₁[i - 1]? = none := List.getElem?_eq_none (by omega)
      have h2 : q₂[i - 1]? = none := List.getElem?_eq_none (by omega)
      simp [h1, h2]

/-- Summation by parts for a sequence starting at `u 0 = 0`. -/
theorem abel_sum (u g : Nat → Rat) (hu : u 0 = 0) (n : Nat) :
    ∑ i ∈ Finset.Icc 1 (n + 1), (u i - u (i - 1)) * g i =
      u (n + 1) * g (n + 1) + ∑ i ∈ Finset.Icc 1 n, u i * (g i - g (i + 1)) := by
  induction n with
  | zero => simp [hu]
  | succ n ih =>
    rw [Finset.sum_Icc_succ_top (by omega), ih, Finset.sum_Icc_succ_top (by omega)]
    simp only [Nat.add_sub_cancel]
    ring

/-! ### The departure from the ground temperature as a linear functional of the load sequence -/

def depTb (u : Nat → Rat) (G : Nat → Nat → Rat) (P : Params) (n : Nat) : Rat :=
  ∑ i ∈ Finset.Icc 1 n, (u i - u (i - 1)) * G n i / (P.twoPiK * P.H * (P.N : Rat))

def dep (u : Nat → Rat) (G : Nat → Nat → Rat) (P : Params) (n : Nat) : Rat :=
  depTb u G P n + u n * P.Rb / (P.H * (P.N : Rat)) - u n / (2 * P.mdot * P.cp * (P.N : Rat))

theorem formula_eq_dep (q : List Rat) (G : Nat → Nat → Rat) (P : Params) (n : Nat) :
    formula q G P n = P.Tg + dep (qn q) G P n := by
  unfold formula dep depTb; ring

theorem formulaTb_eq_depTb (q : List Rat) (G : Nat → Nat → Rat) (P : Params) (n : Nat) :
    formulaTb q G P n = depTb (qn q) G P n := rfl

theorem depTb_smul (a : Rat) (u : Nat → Rat) (G : Nat → Nat → Rat) (P : Params) (n : Nat) :
    depTb (fun i => a * u i) G P n = a * depTb u G P n := by
  unfold depTb
  rw [Finset.mul_sum]
  apply Finset.sum_congr rfl
  intro i _
  ring

theorem dep_smul (a : Rat) (u : Nat → Rat) (G : Nat → Nat → Rat) (P : Params) (n : Nat) :
    dep (fun i => a * u i) G P n = a * dep u G P n := by
  unfold dep
  rw [depTb_smul]
  ring

theorem depTb_add (u v : Nat → Rat) (G : Nat → Nat → Rat) (P : Params) (n : Nat) :
    depTb (fun i => u i + v i) G P n = depTb u G P n + depTb v G P n := by
  unfold depTb
  rw [← Finset.sum_add_distrib]
  apply Finset.sum_congr rfl
  intro i _
  ring

theorem dep_add (u v : Nat → Rat) (G : Nat → Nat → Rat) (P : Params) (n : Nat) :
    dep (fun i => u i + v i) G P n = dep u G P n + dep v G P n := by
  unfold dep
  rw [depTb_add]
  ring

theorem dep_zero (G : Nat → Nat → Rat) (P : Params) (n : Nat) : dep (fun _ => 0) G P n = 0 := by
  unfold dep depTb; simp

theorem depTb_zero (G : Nat → Nat → Rat) (P : Params) (n : Nat) : depTb (fun _ => 0) G P n = 0 := by
  unfold depTb; simp

/-- Summation by parts: the departure at step `m+1` is a combination of the loads with the
    coefficients `G(i) − G(i+1)` (earlier steps) and the last-step coefficient. -/
theorem dep_by_parts (u : Nat → Rat) (hu : u 0 = 0) (G : Nat → Nat → Rat) (P : Params) (m : Nat) :
    dep u G P (m + 1) =
      (∑ i ∈ Finset.Icc 1 m, u i * (G (m + 1) i - G (m + 1) (i + 1))) / (P.twoPiK * P.H * (P.N : Rat))
      + u (m + 1) / (P.N : Rat) *
          (G (m + 1) (m + 1) / (P.twoPiK * P.H) + P.Rb / P.H - 1 / (2 * P.mdot * P.cp)) := by
  unfold dep depTb
  rw [← Finset.sum_div, abel_sum u (G (m + 1)) hu m]
  ring

/-- Sign of the departure under the explicit hypothesis. -/
theorem dep_nonneg (u : Nat → Rat) (hu0 : u 0 = 0) (hu : ∀ i, 0 ≤ u i) (G : Nat → Nat → Rat) (P : Params) (m : Nat)
    (hH : 0 < P.H) (hk : 0 < P.twoPiK) (hN : 0 < P.N)
    (hmono : ∀ i, 1 ≤ i → i ≤ m → G (m + 1) (i + 1) ≤ G (m + 1) i)
    (hcoef : 0 ≤ G (m + 1) (m + 1) / (P.twoPiK * P.H) + P.Rb / P.H - 1 / (2 * P.mdot * P.cp)) :
    0 ≤ dep u G P (m + 1) := by
  rw [dep_by_parts u hu0 G P m]
  have hNq : (0 : Rat) < (P.N : Rat) := by exact_mod_cast hN
  have hD : 0 < P.twoPiK * P.H * (P.N : Rat) := by positivity
  apply add_nonneg
  · apply div_nonneg _ hD.le
    apply Finset.sum_nonneg
    intro i hi
    rw [Finset.mem_Icc] at hi
    exact mul_nonneg (hu i) (by linarith [hmono i hi.1 hi.2])
  · exact mul_nonneg (div_nonneg (hu _) hNq.le) hcoef

/-! ### `GHE.simulate`: returned pair, bind, time axis -/

theorem ratMax_eq_max (a b : Rat) : ratMax a b = max a b := by
  unfold ratMax
  rcases lt_or_ge a b with h | h
  · rw [if_pos h, max_eq_right h.le]
  · rw [if_neg (not_lt.mpr h), max_eq_left h]

theorem ratMin_eq_min (a b : Rat) : ratMin a b = min a b := by
  unfold ratMin
  rcases lt_or_ge b a with h | h
  · rw [if_pos h, min_eq_right h.le]
  · rw [if_neg (not_lt.mpr h), min_eq_left h]

theorem foldl_ratMax_spec (xs : List Rat) (x : Rat) :
    (∀ y ∈ x :: xs, y ≤ xs.foldl ratMax x) ∧ xs.foldl ratMax x ∈ x :: xs := by
  induction xs generalizing x with
  | nil => simp
  | cons a xs ih =>
    simp only [List.foldl_cons]
    obtain ⟨h1, h2⟩ := ih (ratMax x a)
    rw [ratMax_eq_max] at h1 h2 ⊢
    constructor
    · intro y hy
      simp only [List.mem_cons] at hy
      have hm := h1 (max x a) (by simp)
      rcases hy with hy | hy | hy
      · rw [hy]; exact le_trans (le_max_left _ _) hm
      · rw [hy]; exact le_trans (le_max_right _ _) hm
      · exact h1 y (by simp [hy])
    · simp only [List.mem_cons] at h2 ⊢
      rcases h2 with h2 | h2
      · rcases max_choice x a with hm | hm
        · left; rw [h2, hm]
        · right; left; rw [h2, hm]
      · right; right; exact h2

theorem foldl_ratMin_spec (xs : List Rat) (x : Rat) :
    (∀ y ∈ x :: xs, xs.foldl ratMin x ≤ y) ∧ xs.foldl ratMin x ∈ x :: xs := by
  induction xs generalizing x with
  | nil => simp
  | cons a xs ih =>
    simp only [List.foldl_cons]
    obtain ⟨h1, h2⟩ := ih (ratMin x a)
    rw [ratMin_eq_min] at h1 h2 ⊢
    constructor
    · intro y hy
      simp only [List.mem_cons] at hy
      have hm := h1 (min x a) (by simp)
      rcases hy with hy | hy | hy
      · rw [hy]; exact le_trans hm (min_le_left _ _)
      · rw [hy]; exact le_trans hm (min_le_right _ _)
      · exact h1 y (by simp [hy])
    · simp only [List.mem_cons] at h2 ⊢
      rcases h2 with h2 | h2
      · rcases min_choice x a with hm | hm
        · left; rw [h2, hm]
        · right; left; rw [h2, hm]
      · right; right; exact h2

/-- What `finishSim` returns. -/
theorem finishSim_ok {r : List Rat × List Rat} {s : SimOut} (h : finishSim r = .ok s) :
    s.hpEft = r.1 ∧ s.dTb = r.2 ∧ s.maxEft ∈ r.1 ∧ s.minEft ∈ r.1 ∧
    (∀ x ∈ r.1, x ≤ s.maxEft) ∧ (∀ x ∈ r.1, s.minEft ≤ x) := by
  unfold finishSim at h
  cases hr : r.1 with
  | nil => rw [hr] at h; simp [pyMaxList, pyMinList] at h
  | cons x xs =>
    rw [hr] at h
    simp only [pyMaxList, pyMinList] at h
    injection h with h
    subst h
    obtain ⟨a1, a2⟩ := foldl_ratMax_spec xs x
    obtain ⟨b1, b2⟩ := foldl_ratMin_spec xs x
    exact ⟨hr.symm ▸ rfl, rfl, a2, b2, a1, b1⟩

theorem finishSim_nil {r : List Rat × List Rat} (h : r.1 = []) : finishSim r = .error .valueError := by
  unfold finishSim; rw [h]; rfl

theorem bind_ok {α β : Type} {x : Py α} {f : α → Py β} {b : β} (h : x >>= f = .ok b) :
    ∃ a, x = .ok a ∧ f a = .ok b := by
  cases x with
  | error e => cases h
  | ok a => exact ⟨a, rfl, h⟩

theorem timeAxis_getD (t : List Rat) (n : Nat) :
    (timeAxis t).getD n 0 = if n = 0 then 0 else t.getD (n - 1) 0 := by
  unfold timeAxis
  rw [Array.getD_eq_getD_getElem?, List.getElem?_toArray, detTimePrepend_eq]
  cases n with
  | zero => simp
  | succ k => simp [List.getD_eq_getElem?_getD]

/-! ### The hourly method: horizon arithmetic and list repetition -/

theorem pyTrunc_intCast (z : Int) : pyTrunc (z : Rat) = z := by
  unfold pyTrunc
  split
  · exact Rat.floor_intCast z
  · exact Rat.ceil_intCast z

theorem nHoursOf_eq (s e : Int) : nHoursOf s e = 730 * (e - s + 1) := by
  unfold nHoursOf
  have : (((e - s + Gen.simMonthsPlus : Int) : Rat)) / Gen.simMonthsPerYear * Gen.simHoursPerYear
      = ((730 * (e - s + 1) : Int) : Rat) := by
    have h1 : Gen.simMonthsPlus = 1 := by decide
    have h2 : Gen.simMonthsPerYear = 12 := by decide +kernel
    have h3 : Gen.simHoursPerYear = 8760 := by decide +kernel
    rw [h1, h2, h3]
    push_cast
    ring
  rw [this, pyTrunc_intCast]

theorem rat_ceil_eq (x : Rat) (z : Int) (h1 : ((z - 1 : Int) : Rat) < x) (h2 : x ≤ (z : Rat)) : x.ceil = z := by
  apply le_antisymm
  · exact Rat.ceil_le_iff.mpr h2
  · have := Rat.lt_ceil_iff.mpr h1
    omega

/-- `ceil(n_hours / 8760)` for `n_hours = 730·(12a + b)`, `0 < b ≤ 12`: `a + 1`. -/
theorem nYears_eq (a b : Int) (hb0 : 0 < b) (hb : b ≤ 12) :
    (((730 * (12 * a + b) : Int) : Rat) / ((8760 : Int) : Rat)).ceil = a + 1 := by
  apply rat_ceil_eq
  · push_cast
    rw [lt_div_iff₀ (by norm_num)]
    have : (0 : Rat) < b := by exact_mod_cast hb0
    linarith
  · push_cast
    rw [div_le_iff₀ (by norm_num)]
    have : (b : Rat) ≤ 12 := by exact_mod_cast hb
    linarith

theorem pyRepeat_length (l : List Rat) (n : Int) : (pyRepeat l n).length = n.toNat * l.length := by
  unfold pyRepeat
  simp [List.length_flatten, List.map_replicate, List.sum_replicate]

theorem flatten_replicate_getD (l : List Rat) (y k : Nat) (hk : k < y * l.length) :
    ((List.replicate y l).flatten).getD k 0 = l.getD (k % l.length) 0 := by
  induction y generalizing k with
  | zero => simp at hk
  | succ y ih =>
    rw [List.replicate_succ, List.flatten_cons]
    simp only [List.getD_eq_getElem?_getD]
    by_cases h : k < l.length
    · rw [List.getElem?_append_left h, Nat.mod_eq_of_lt h]
    · have hge : l.length ≤ k := by omega
      rw [List.getElem?_append_right hge]
      have hk' : k - l.length < y * l.length := by
        rw [Nat.succ_mul] at hk; omega
      have := ih (k - l.length) hk'
      simp only [List.getD_eq_getElem?_getD] at this
      rw [this, Nat.mod_eq_sub_mod hge]

theorem drop_map_getD (l : List Rat) (d : Nat) (c : Rat) (k : Nat) :
    ((l.drop d).map (fun x => x * c)).getD k 0 = c * l.getD (k + d) 0 := by
  simp only [List.getD_eq_getElem?_getD, List.getElem?_map, List.getElem?_drop]
  rw [Nat.add_comm d k]
  cases l[k + d]? <;> simp [mul_comm]

theorem drop_getD (l : List Rat) (d : Nat) (k : Nat) :
    (l.drop d).getD k 0 = l.getD (k + d) 0 := by
  simp only [List.getD_eq_getElem?_getD, List.getElem?_drop]
  rw [Nat.add_comm d k]

theorem pyRange_cast_length (n : Nat) :
    ((pyRange 1 ((n : Int) + 1)).map (fun (k : Int) => (k : Rat))).length = n := by
  unfold pyRange; simp

theorem pyRange_cast_getD (n k : Nat) (hk : k < n) :
    ((pyRange 1 ((n : Int) + 1)).map (fun (k : Int) => (k : Rat))).getD k 0 = (k : Rat) + 1 := by
  unfold pyRange
  have : ((n : Int) + 1 - 1).toNat = n := by omega
  simp only [this, List.map_map, List.getD_eq_getElem?_getD, List.getElem?_map, List.getElem?_range hk]
  simp
  ring

/-- The three quantities the hourly branch derives from the horizon and the list length. -/
theorem hourlyInputs_unfold (loads : List Rat) (s e : Int) :
    hourlyInputs loads s e =
      let nYears : Int := (((730 * (e - s + 1) : Int) : Rat) / ((8760 : Int) : Rat)).ceil
      let rep := decide (Int.fdiv (loads.length : Int) 8760 < nYears)
      ((if rep then pySliceTo (pyRepeat loads nYears) (730 * (e - s + 1)) else loads).map (fun x => -1 * x),
       (pyRange 1 ((if rep then 730 * (e - s + 1) else (loads.length : Int)) + 1)).map (fun (k : Int) => (k : Rat))) := by
  unfold hourlyInputs
  rw [nHoursOf_eq]
  rfl

theorem pySliceTo_natCast (l : List Rat) (n : Nat) : pySliceTo l (n : Int) = l.take n := by
  unfold pySliceTo
  rw [if_pos (by omega)]
  simp

theorem hourlyInputs_whole_years (loads : List Rat) (hl : loads.length = 8760) (y : Nat) (hy : 1 ≤ y) (s : Int) :
    hourlyInputs loads s (s + 12 * y - 1) =
      (((List.replicate y loads).flatten).map (fun x => -1 * x),
       (pyRange 1 (8760 * (y : Int) + 1)).map (fun (k : Int) => (k : Rat))) := by
  rw [hourlyInputs_unfold]
  have hm : s + 12 * (y : Int) - 1 - s + 1 = 12 * ((y : Int) - 1) + 12 := by ring
  have hy' : (1 : Int) ≤ y := by exact_mod_cast hy
  simp only [hm, nYears_eq ((y : Int) - 1) 12 (by norm_num) (le_refl _), hl]
  have hfd : Int.fdiv ((8760 : Nat) : Int) 8760 = 1 := by decide
  rw [hfd]
  by_cases h1 : y = 1
  · subst h1
    simp
  · have hlt : (1 : Int) < (y : Int) - 1 + 1 := by omega
    simp only [hlt, decide_true, if_true]
    have e1 : pyRepeat loads ((y : Int) - 1 + 1) = (List.replicate y loads).flatten := by
      unfold pyRepeat
      have : ((y : Int) - 1 + 1).toNat = y := by omega
      rw [this]
    have e2 : 730 * (12 * ((y : Int) - 1) + 12) = ((8760 * y : Nat) : Int) := by push_cast; ring
    have e3 : ((8760 * y : Nat) : Int) + 1 = 8760 * (y : Int) + 1 := by push_cast; ring
    rw [e1, e2, pySliceTo_natCast, e3]
    have hlen : ((List.replicate y loads).flatten).length = 8760 * y := by
      simp [List.length_flatten, List.map_replicate, List.sum_replicate, hl, Nat.mul_comm]
    rw [List.take_of_length_le (by omega)]

/-- The repaired replication branch: a horizon of `12a + b` months (`0 < b ≤ 12`, so
    `n_years = a + 1`) with a list of at most `a` whole years that, repeated `a + 1` times, covers
    the horizon: the loads are the repeated list cut at `n_hours = 730·(12a + b)`, the axis is
    `1..n_hours`. -/
theorem hourlyInputs_repeated (loads : List Rat) (a b : Nat) (hb0 : 0 < b) (hb : b ≤ 12)
    (hrep : loads.length / 8760 ≤ a) (s e : Int) (hm : e - s + 1 = 12 * (a : Int) + b) :
    hourlyInputs loads s e =
      ((((List.replicate (a + 1) loads).flatten).take (730 * (12 * a + b))).map (fun x => -1 * x),
       (pyRange 1 (((730 * (12 * a + b) : Nat) : Int) + 1)).map (fun (k : Int) => (k : Rat))) := by
  rw [hourlyInputs_unfold]
  have hny := nYears_eq (a : Int) (b : Int) (by exact_mod_cast hb0) (by exact_mod_cast hb)
  simp only [hm, hny]
  have hfd : Int.fdiv (loads.length : Int) 8760 = ((loads.length / 8760 : Nat) : Int) := by
    rw [Int.fdiv_eq_ediv_of_nonneg _ (by norm_num : (0 : Int) ≤ 8760)]
    simp
  rw [hfd]
  have hlt : ((loads.length / 8760 : Nat) : Int) < (a : Int) + 1 := by omega
  simp only [hlt, decide_true, if_true]
  have e1 : pyRepeat loads ((a : Int) + 1) = (List.replicate (a + 1) loads).flatten := by
    unfold pyRepeat
    have : ((a : Int) + 1).toNat = a + 1 := by omega
    rw [this]
  have e2 : 730 * (12 * (a : Int) + (b : Int)) = ((730 * (12 * a + b) : Nat) : Int) := by push_cast; ring
  rw [e1, e2, pySliceTo_natCast]

/-- After the repair the loads handed to `_simulate_detailed` are never longer than the time axis. -/
theorem hourlyInputs_axis_long_enough (loads : List Rat) (s e : Int) :
    (hourlyInputs loads s e).1.length ≤ (hourlyInputs loads s e).2.length := by
  rw [hourlyInputs_unfold]
  simp only []
  split
  · -- replication branch
    simp only [List.length_map]
    unfold pyRange
    simp only [List.length_map, List.length_range]
    by_cases hm : 0 ≤ 730 * (e - s + 1)
    · unfold pySliceTo
      rw [if_pos hm, List.length_take]
      have : (730 * (e - s + 1) + 1 - 1).toNat = (730 * (e - s + 1)).toNat := by congr 1; ring
      rw [this]
      exact Nat.min_le_left _ _
    · have hneg : (((730 * (e - s + 1) : Int) : Rat) / ((8760 : Int) : Rat)).ceil ≤ 0 := by
        rw [Rat.ceil_le_iff]
        have h1 : ((730 * (e - s + 1) : Int) : Rat) ≤ 0 := by exact_mod_cast (by omega : 730 * (e - s + 1) ≤ 0)
        have h2 : (0 : Rat) ≤ ((8760 : Int) : Rat) := by norm_num
        simpa using div_nonpos_of_nonpos_of_nonneg h1 h2
      have hempty : pyRepeat loads (((730 * (e - s + 1) : Int) : Rat) / ((8760 : Int) : Rat)).ceil = [] := by
        unfold pyRepeat
        have : ((((730 * (e - s + 1) : Int) : Rat) / ((8760 : Int) : Rat)).ceil).toNat = 0 := by omega
        rw [this]; rfl
      rw [hempty]
      unfold pySliceTo
      split <;> simp
  · simp only [List.length_map]
    unfold pyRange
    simp

/-- What an hourly run over `n` steps must satisfy (the documented formula with the list repeated):
    `n` results; step `k` is the closed form with `q_i = −loads[(i−1) mod len]` (extraction →
    rejection, the list repeated), `t_i = i` hours (`·3600/t_s` inside `g(ln ·)`), per-borehole
    division by `N`; `dTb` is the sum alone; the returned pair are the extremes of the list. -/
def HourlySpec (loads : List Rat) (n : Nat) (gln : Rat → Rat) (ts : Rat) (P : Params) (out : SimOut) : Prop :=
  let Q : Nat → Rat := fun i => if i = 0 then 0 else -loads.getD ((i - 1) % loads.length) 0
  out.hpEft.length = n ∧ out.dTb.length = n ∧
  (∀ k, 1 ≤ k → k ≤ n →
    out.hpEft.getD (k - 1) 0 =
      P.Tg + (∑ i ∈ Finset.Icc 1 k,
                (Q i - Q (i - 1)) * gln ((((k : Rat) - ((i - 1 : Nat) : Rat))) * 3600 / ts) / (P.twoPiK * P.H * (P.N : Rat)))
        + Q k * P.Rb / (P.H * (P.N : Rat)) - Q k / (2 * P.mdot * P.cp * (P.N : Rat)) ∧
    out.dTb.getD (k - 1) 0 =
      ∑ i ∈ Finset.Icc 1 k,
        (Q i - Q (i - 1)) * gln ((((k : Rat) - ((i - 1 : Nat) : Rat))) * 3600 / ts) / (P.twoPiK * P.H * (P.N : Rat))) ∧
  out.maxEft ∈ out.hpEft ∧ out.minEft ∈ out.hpEft ∧ (∀ x ∈ out.hpEft, out.minEft ≤ x ∧ x ≤ out.maxEft)

end GHEVerif.Superpose
