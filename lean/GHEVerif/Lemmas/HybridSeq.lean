/- Sequence lemmas for the hybrid-load group: integral of a (load, hour) sequence, the energy of
   one month of `process_month_loads`, closed form of `emitMonth`. -/
import GHEVerif.Lemmas.HybridCal
import Mathlib.Tactic.LinearCombination

namespace GHEVerif.Hybrid
open GHEVerif

/-- Time integral of a `(load, end hour)` sequence starting at hour `h0`:
    `Σ load_j · (hour_j − hour_{j−1})` (signed: a negative sub-step subtracts). -/
def integral : Rat → List (Rat × Rat) → Rat
  | _, [] => 0
  | h0, (q, h) :: t => q * (h - h0) + integral h t

/-- The last breakpoint of a sequence starting at `h0`. -/
def lastHour : Rat → List (Rat × Rat) → Rat
  | h0, [] => h0
  | _, (_, h) :: t => lastHour h t

theorem integral_append (h0 : Rat) (a b : List (Rat × Rat)) :
    integral h0 (a ++ b) = integral h0 a + integral (lastHour h0 a) b := by
  induction a generalizing h0 with
  | nil => simp [integral, lastHour]
  | cons x a ih => obtain ⟨q, h⟩ := x; simp [integral, lastHour, ih]; ring

theorem lastHour_append (h0 : Rat) (a b : List (Rat × Rat)) :
    lastHour h0 (a ++ b) = lastHour (lastHour h0 a) b := by
  induction a generalizing h0 with
  | nil => simp [lastHour]
  | cons x a ih => obtain ⟨q, h⟩ := x; simp [lastHour, ih]

theorem delta_pos : (0 : Rat) < Gen.hybridDelta := by unfold Gen.hybridDelta; norm_num

/-- With a non-negative duration the second clamp never fires: the pulse is `dur` long and
    starts at a non-negative hour. -/
theorem peakHours_len (fmh day : Int) (dur : Rat) (hd : 0 ≤ dur) :
    (peakHours fmh day dur).2 = (peakHours fmh day dur).1 + dur ∧ 0 ≤ (peakHours fmh day dur).1 := by
  unfold peakHours
  simp only []
  have hδ := delta_pos
  split
  · have : ¬ (Gen.hybridDelta + dur < 0) := by linarith
    simp [this]; linarith
  · rename_i h
    have : ¬ ((fmh : Rat) + (day : Rat) * (Gen.HRS_IN_DAY : Rat) + (Gen.noonOffset : Rat) - dur / 2 + dur < 0) := by linarith
    simp [this]; linarith

/-- Noon of 0-based day `day` of a month whose first hour is `fmh` (the tool's 1-based labels). -/
def noonOf (fmh : Int) (day : Int) : Rat := (fmh : Rat) + (day : Rat) * 24 + 12

theorem peakHours_noclamp (fmh day : Int) (dur : Rat) (h : dur ≤ 2 * noonOf fmh day) :
    (peakHours fmh day dur).1 = noonOf fmh day - dur / 2 := by
  unfold peakHours noonOf at *
  simp only []
  have e1 : ((Gen.HRS_IN_DAY : Int) : Rat) = 24 := by simp [Gen.HRS_IN_DAY]
  have e2 : ((Gen.noonOffset : Int) : Rat) = 12 := by simp [Gen.noonOffset]
  rw [e1, e2]
  have : ¬ ((fmh : Rat) + (day : Rat) * 24 + 12 - dur / 2 < 0) := by linarith
  simp [this]

/-- Energy of one month's entries, for arbitrary rate and peak hours: average rate over the
    month minus the emitted pulse lengths, plus the pulses. -/
theorem segments_integral (r : MonthRec) (ipf : Bool) (rate fhc lhc fhh lhh lm prev : Rat)
    (hc : lhc = fhc + r.dcl) (hh : lhh = fhh + r.dhl)
    (hsame : ipf = true → r.dayc = r.dayh → 0 < r.pcl → 0 < r.phl → fhc + r.dcl / 2 = fhh + r.dhl / 2) :
    integral prev (monthSegments r ipf rate fhc lhc fhh lhh lm) =
      rate * (lm - prev - (if ipf = true ∧ 0 < r.pcl then r.dcl else 0) - (if ipf = true ∧ 0 < r.phl then r.dhl else 0))
      + (if ipf = true ∧ 0 < r.pcl then r.pcl * r.dcl else 0) - (if ipf = true ∧ 0 < r.phl then r.phl * r.dhl else 0)
    ∧ lastHour prev (monthSegments r ipf rate fhc lhc fhh lhh lm) = lm := by
  subst hc hh
  unfold monthSegments
  cases ipf with
  | false => simp [integral, lastHour]
  | true =>
    simp only [if_true, and_true, gt_iff_lt, true_and]
    rcases lt_trichotomy (r.dayc - r.dayh) 0 with d | d | d
    · -- cooling day first
      by_cases c : 0 < r.pcl <;> by_cases h : 0 < r.phl <;>
        simp [d, c, h, integral, lastHour] <;> ring_nf
    · -- same day
      have hs := hsame rfl (by omega)
      by_cases c : 0 < r.pcl <;> by_cases h : 0 < r.phl
      · have e := hs c h
        have : fhh = fhc + r.dcl / 2 - r.dhl / 2 := by linarith
        subst this
        simp [d, c, h, integral, lastHour]; ring_nf
      all_goals (simp [d, c, h, integral, lastHour] <;> ring_nf)
    · have nd : ¬ (r.dayc < r.dayh) := by omega
      have d' : r.dayh < r.dayc := by omega
      by_cases c : 0 < r.pcl <;> by_cases h : 0 < r.phl <;>
        simp [d', nd, c, h, integral, lastHour] <;> ring_nf

/-- Last hour of simulated month `i` (closed form of `last_month_hour`). -/
def lmh (y i : Int) : Int := 24 * cumDays y i.toNat

theorem lastMonthHour_int (y i : Int) (hi : 0 ≤ i) : Gen.lastMonthHour i [y] = .ok (lmh y i) := by
  obtain ⟨k, rfl⟩ := Int.eq_ofNat_of_zero_le hi
  rw [lastMonthHour_eq]; simp [lmh]

theorem firstMonthHour_int (y i : Int) (hi : 1 ≤ i) : Gen.firstMonthHour i [y] = .ok (1 + lmh y (i - 1)) := by
  obtain ⟨k, hk⟩ := Int.eq_ofNat_of_zero_le (by omega : 0 ≤ i - 1)
  have : i = (k : Int) + 1 := by omega
  subst this
  rw [firstMonthHour_eq]; simp [lmh]

theorem lmh_succ (y i : Int) (hi : 1 ≤ i) : lmh y i = lmh y (i - 1) + 24 * mdays y i := by
  obtain ⟨k, hk⟩ := Int.eq_ofNat_of_zero_le (by omega : 0 ≤ i - 1)
  have : i = (k : Int) + 1 := by omega
  subst this
  unfold lmh
  have e1 : ((k : Int) + 1).toNat = k + 1 := by omega
  have e2 : ((k : Int) + 1 - 1).toNat = k := by omega
  rw [e1, e2, cumDays_succ]; ring

theorem mdays_ge (y i : Int) : 28 ≤ mdays y i := by
  unfold mdays numDays
  have h : (i % 12).toNat < 12 := by omega
  generalize (i % 12).toNat = k at h
  split <;> (interval_cases k <;> decide)

theorem emitMonth_eq (y : Int) (r : MonthRec) (ipf : Bool) (i : Int) (hi : 1 ≤ i) (rate : Rat)
    (hr : monthRate r ipf (mdays y i * 24) = .ok rate) :
    emitMonth y r ipf i = .ok (monthSegments r ipf rate
      (peakHours (1 + lmh y (i - 1)) r.dayc r.dcl).1 (peakHours (1 + lmh y (i - 1)) r.dayc r.dcl).2
      (peakHours (1 + lmh y (i - 1)) r.dayh r.dhl).1 (peakHours (1 + lmh y (i - 1)) r.dayh r.dhl).2
      ((lmh y i : Int) : Rat)) := by
  unfold emitMonth
  rw [monthdays_eq y i (by omega)]
  have e24 : Gen.HRS_IN_DAY = 24 := rfl
  simp only [bind, Except.bind, e24, hr]
  rw [firstMonthHour_int y i hi, lastMonthHour_int y i (by omega)]
  rfl


/-- Total length of the pulses a retained month emits. -/
def pulseHours (r : MonthRec) : Rat := (if r.pcl > 0 then r.dcl else 0) + (if r.phl > 0 then r.dhl else 0)

theorem month_energy_core (y : Int) (r : MonthRec) (ipf : Bool) (i : Int) (hi : 1 ≤ i)
    (hp : 0 ≤ r.pcl ∧ 0 ≤ r.phl) (hd : 0 ≤ r.dcl ∧ 0 ≤ r.dhl)
    (hD : ipf = true → pulseHours r ≠ 24 * (mdays y i : Rat))
    (hnc : ipf = true → r.dayc = r.dayh → 0 < r.pcl → 0 < r.phl →
      r.dcl ≤ 2 * noonOf (1 + lmh y (i - 1)) r.dayc ∧ r.dhl ≤ 2 * noonOf (1 + lmh y (i - 1)) r.dayh) :
    ∃ rate segs, monthRate r ipf (mdays y i * 24) = .ok rate ∧ emitMonth y r ipf i = .ok segs ∧
      integral (lmh y (i - 1) : Int) segs = r.cl - r.hl ∧
      lastHour (lmh y (i - 1) : Int) segs = (lmh y i : Int) := by
  have hm := mdays_ge y i
  have hmR : (28 : Rat) ≤ (mdays y i : Rat) := by exact_mod_cast hm
  have hH : ((lmh y i : Int) : Rat) - ((lmh y (i - 1) : Int) : Rat) = 24 * (mdays y i : Rat) := by
    rw [lmh_succ y i hi]; push_cast; ring
  obtain ⟨c1, c2⟩ := peakHours_len (1 + lmh y (i - 1)) r.dayc r.dcl hd.1
  obtain ⟨h1, h2⟩ := peakHours_len (1 + lmh y (i - 1)) r.dayh r.dhl hd.2
  cases ipf with
  | false =>
    have hne : ((mdays y i * 24 : Int) : Rat) ≠ 0 := by push_cast; linarith
    have hr : monthRate r false (mdays y i * 24) = .ok ((r.cl - r.hl) / ((mdays y i * 24 : Int) : Rat)) := by
      simp only [monthRate, pyDiv, hne, if_false, Bool.false_eq_true]
    refine ⟨_, _, hr, emitMonth_eq y r false i hi _ hr, ?_⟩
    · obtain ⟨e1, e2⟩ := segments_integral r false ((r.cl - r.hl) / ((mdays y i * 24 : Int) : Rat)) _ _ _ _
        ((lmh y i : Int) : Rat) ((lmh y (i - 1) : Int) : Rat) c1 h1 (by intro h; cases h)
      refine ⟨?_, e2⟩
      rw [e1]
      simp only [Bool.false_eq_true, false_and, if_false, sub_zero, add_zero]
      rw [hH]; push_cast; field_simp
  | true =>
    have hne : ((mdays y i * 24 : Int) : Rat) - (if r.pcl > 0 then r.dcl else 0) - (if r.phl > 0 then r.dhl else 0) ≠ 0 := by
      intro h; apply hD rfl; unfold pulseHours; push_cast at h; linarith
    have hr : monthRate r true (mdays y i * 24) = .ok ((r.cl - r.hl - r.pcl * r.dcl + r.phl * r.dhl) /
        (((mdays y i * 24 : Int) : Rat) - (if r.pcl > 0 then r.dcl else 0) - (if r.phl > 0 then r.dhl else 0))) := by
      simp only [monthRate, pyDiv, hne, if_false, if_true]
    refine ⟨_, _, hr, emitMonth_eq y r true i hi _ hr, ?_⟩
    · set rate := (r.cl - r.hl - r.pcl * r.dcl + r.phl * r.dhl) /
        (((mdays y i * 24 : Int) : Rat) - (if r.pcl > 0 then r.dcl else 0) - (if r.phl > 0 then r.dhl else 0)) with hrate
      have key : rate * (24 * (mdays y i : Rat) - (if r.pcl > 0 then r.dcl else 0) - (if r.phl > 0 then r.dhl else 0))
          = r.cl - r.hl - r.pcl * r.dcl + r.phl * r.dhl := by
        rw [hrate]; push_cast at hne ⊢
        rw [show (24 : Rat) * (mdays y i : Rat) = (mdays y i : Rat) * 24 by ring]
        field_simp
      obtain ⟨e1, e2⟩ := segments_integral r true rate _ _ _ _
        ((lmh y i : Int) : Rat) ((lmh y (i - 1) : Int) : Rat) c1 h1 (by
          intro _ hday hc hh
          obtain ⟨n1, n2⟩ := hnc rfl hday hc hh
          rw [peakHours_noclamp _ _ _ n1, peakHours_noclamp _ _ _ n2, hday]; ring)
      refine ⟨?_, e2⟩
      rw [e1, hH]
      clear_value rate
      simp only [true_and, gt_iff_lt] at key ⊢
      rcases lt_or_eq_of_le hp.1 with pc | pc <;> rcases lt_or_eq_of_le hp.2 with ph | ph
      · simp only [pc, ph, if_true] at key ⊢; linear_combination key
      · simp only [pc, ← ph, if_true, lt_self_iff_false, if_false] at key ⊢; linear_combination key
      · simp only [← pc, ph, if_true, lt_self_iff_false, if_false] at key ⊢; linear_combination key
      · simp only [← pc, ← ph, lt_self_iff_false, if_false] at key ⊢; linear_combination key

end GHEVerif.Hybrid
