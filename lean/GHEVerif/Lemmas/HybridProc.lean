/- Decomposition of `process_month_loads` into the months' blocks: replication loop,
   indexing of the extended arrays, block sums. -/
import GHEVerif.Lemmas.HybridSeq

namespace GHEVerif.Hybrid
open GHEVerif

theorem monthIndex_range (i : Int) : 1 ≤ monthIndex i ∧ monthIndex i ≤ 12 := by
  unfold monthIndex
  have e : Gen.monthsInYear = 12 := rfl
  simp only [e]
  rw [Int.fmod_eq_emod_of_nonneg i (by norm_num)]
  split <;> omega

theorem monthIndex_small (i : Int) (h1 : 1 ≤ i) (h12 : i ≤ 12) : monthIndex i = i := by
  unfold monthIndex
  have e : Gen.monthsInYear = 12 := rfl
  simp only [e]
  rw [Int.fmod_eq_emod_of_nonneg i (by norm_num)]
  split <;> omega

theorem monthIndex_add12 (i : Int) : monthIndex (i + 12) = monthIndex i := by
  unfold monthIndex
  have e : Gen.monthsInYear = 12 := rfl
  simp only [e]
  rw [Int.fmod_eq_emod_of_nonneg i (by norm_num), Int.fmod_eq_emod_of_nonneg (i + 12) (by norm_num)]
  have : (i + 12) % 12 = i % 12 := by omega
  rw [this]

/-- The record month `i` uses: year-1 month `monthIndex i` (replication). -/
def recAt (base : List MonthRec) (i : Int) : MonthRec := base.getD (monthIndex i).toNat default

/-- The monthly arrays after the replication loop has appended `n` months. -/
def extList (base : List MonthRec) (n : Nat) : List MonthRec :=
  base ++ (List.range n).map (fun (k : Nat) => recAt base (13 + (k : Int)))

theorem extList_length (base : List MonthRec) (n : Nat) : (extList base n).length = base.length + n := by
  simp [extList]

theorem extList_index (base : List MonthRec) (hlen : base.length = 13) (n : Nat) (i : Int)
    (h1 : 1 ≤ i) (h2 : i < 13 + n) : pyIndex (extList base n) i = .ok (recAt base i) := by
  rw [pyIndex_of_nonneg _ i (by omega) (by rw [extList_length, hlen]; push_cast; omega)]
  congr 1
  unfold extList
  by_cases h : i ≤ 12
  · rw [List.getD_eq_getElem?_getD, List.getElem?_append_left (by omega)]
    unfold recAt; rw [monthIndex_small i h1 h, List.getD_eq_getElem?_getD]
  · have hk : i.toNat - base.length < n := by omega
    rw [List.getD_eq_getElem?_getD, List.getElem?_append_right (by omega),
      List.getElem?_eq_getElem (by simpa using hk)]
    simp only [List.getElem_map, List.getElem_range, Option.getD_some]
    congr 1; omega

theorem foldlM_append_ok {α β} (f : β → α → Py β) (b : β) (l1 l2 : List α) :
    List.foldlM f b (l1 ++ l2) = (List.foldlM f b l1 >>= fun b' => List.foldlM f b' l2) := by
  simp [List.foldlM_append]

theorem replicate_eq (base : List MonthRec) (hlen : base.length = 13) (start : Int) (hs : 1 ≤ start)
    (hs' : start ≤ 13) (e : Int) (he : start - 1 ≤ e) :
    replicate base start e = .ok (extList base (e - 12).toNat) := by
  induction e, he using Int.leInduction with
  | base =>
    unfold replicate
    rw [show start - 1 + 1 = start by ring, pyRange_empty _ _ (le_refl _)]
    have : (start - 1 - 12).toNat = 0 := by omega
    rw [this]; simp [extList]; rfl
  | succ e he ih =>
    unfold replicate at ih ⊢
    rw [pyRange_succ start (e + 1) (by omega), foldlM_append_ok, ih]
    show List.foldlM replicateStep (extList base (e - 12).toNat) [e + 1] = _
    simp only [List.foldlM_cons, List.foldlM_nil, bind_pure]
    unfold replicateStep
    have e12 : Gen.monthsInYear = 12 := rfl
    rw [e12]
    by_cases h : e + 1 > 12
    · simp only [h, if_true]
      obtain ⟨m1, m2⟩ := monthIndex_range (e + 1)
      rw [extList_index base hlen _ _ m1 (by omega)]
      simp only [bind, Except.bind, pure, Except.pure]
      congr 1
      have : (e + 1 - 12).toNat = (e - 12).toNat + 1 := by omega
      rw [this]
      unfold extList
      rw [List.range_succ, List.map_append, ← List.append_assoc]
      congr 1
      simp only [List.map_cons, List.map_nil]
      congr 1
      unfold recAt
      have : monthIndex (13 + ((e - 12).toNat : Int)) = monthIndex (e + 1) := by congr 1; omega
      rw [this]
      obtain ⟨a, b⟩ := monthIndex_range (monthIndex (e + 1))
      rw [monthIndex_small _ m1 m2]
    · simp only [h, if_false]
      have : (e + 1 - 12).toNat = (e - 12).toNat := by omega
      rw [this]; rfl


/-- The entries month `i` contributes (empty when the month raises). -/
def segsOf (y : Int) (base : List MonthRec) (start end_ i : Int) : List (Rat × Rat) :=
  match emitMonth y (recAt base i) (ipfFlag start end_ i) i with
  | .ok s => s
  | .error _ => []

theorem emitMonth_segsOf (y : Int) (base : List MonthRec) (start end_ i : Int) (s : List (Rat × Rat))
    (h : emitMonth y (recAt base i) (ipfFlag start end_ i) i = .ok s) : segsOf y base start end_ i = s := by
  unfold segsOf; rw [h]

theorem foldlM_blocks (A : Int → Py (List (Rat × Rat))) (F : Int → List (Rat × Rat)) (l : List Int)
    (h : ∀ i ∈ l, A i = .ok (F i)) (init : List (Rat × Rat)) :
    List.foldlM (fun acc i => A i >>= fun s => pure (acc ++ s)) init l = .ok (init ++ (l.map F).flatten) := by
  induction l generalizing init with
  | nil => simp; rfl
  | cons x xs ih =>
    rw [List.foldlM_cons, h x (by simp)]
    show List.foldlM _ (init ++ F x) xs = _
    rw [ih (fun i hi => h i (by simp [hi]))]
    simp [List.append_assoc]

/-- `process_month_loads` is the two initial entries followed by the months' blocks. -/
theorem process_eq (y : Int) (base : List MonthRec) (hlen : base.length = 13) (start end_ : Int)
    (hs : 1 ≤ start) (hs' : start ≤ 13) (he : start - 1 ≤ end_)
    (hok : ∀ i, start ≤ i → i ≤ end_ → ∃ s, emitMonth y (recAt base i) (ipfFlag start end_ i) i = .ok s) :
    processMonthLoads y base start end_ =
      .ok ([((0 : Rat), (0 : Rat)), ((0 : Rat), ((lmh y (start - 1) : Int) : Rat))] ++
        ((pyRange start (end_ + 1)).map (segsOf y base start end_)).flatten) := by
  unfold processMonthLoads
  rw [firstMonthHour_int y start hs, replicate_eq base hlen start hs hs' end_ he]
  simp only [bind, Except.bind]
  have hA : ∀ i ∈ pyRange start (end_ + 1),
      (pyIndex (extList base (end_ - 12).toNat) i >>= fun r => emitMonth y r (ipfFlag start end_ i) i)
        = .ok (segsOf y base start end_ i) := by
    intro i hi
    rw [mem_pyRange] at hi
    rw [extList_index base hlen _ i (by omega) (by omega)]
    obtain ⟨s, hs⟩ := hok i hi.1 (by omega)
    show emitMonth y (recAt base i) (ipfFlag start end_ i) i = _
    rw [hs, emitMonth_segsOf _ _ _ _ _ _ hs]
  have := foldlM_blocks (fun i => pyIndex (extList base (end_ - 12).toNat) i >>= fun r => emitMonth y r (ipfFlag start end_ i) i)
    (segsOf y base start end_) (pyRange start (end_ + 1)) hA
    [((0 : Rat), (0 : Rat)), ((0 : Rat), (((1 + lmh y (start - 1) - 1 : Int)) : Rat))]
  rw [show (1 + lmh y (start - 1) - 1 : Int) = lmh y (start - 1) by ring] at this
  rw [← this]
  simp only [bind, Except.bind, pure, Except.pure]
  congr 1
  · funext acc i
    cases pyIndex (extList base (end_ - 12).toNat) i <;> rfl
  · congr 3; ring_nf

/-- Consecutive blocks, each integrating to `E i` from `L (i-1)` to `L i`, add up. -/
theorem blocks_integral (L : Int → Rat) (B : Int → List (Rat × Rat)) (E : Int → Rat) (start e : Int)
    (he : start - 1 ≤ e)
    (h : ∀ i, start ≤ i → i ≤ e → integral (L (i - 1)) (B i) = E i ∧ lastHour (L (i - 1)) (B i) = L i) :
    integral (L (start - 1)) ((pyRange start (e + 1)).map B).flatten = ((pyRange start (e + 1)).map E).sum ∧
    lastHour (L (start - 1)) ((pyRange start (e + 1)).map B).flatten = L e := by
  induction e, he using Int.leInduction with
  | base =>
    rw [show start - 1 + 1 = start by ring, pyRange_empty _ _ (le_refl _)]
    simp [integral, lastHour]
  | succ e he ih =>
    obtain ⟨i1, i2⟩ := ih (fun i a b => h i a (by omega))
    obtain ⟨j1, j2⟩ := h (e + 1) (by omega) (le_refl _)
    rw [pyRange_succ start (e + 1) (by omega)]
    simp only [List.map_append, List.flatten_append, List.map_cons, List.map_nil, List.flatten_cons,
      List.flatten_nil, List.append_nil, List.sum_append, List.sum_cons, List.sum_nil, add_zero]
    rw [integral_append, lastHour_append, i1, i2]
    rw [show e + 1 - 1 = e by ring] at j1 j2
    exact ⟨by rw [j1], j2⟩

end GHEVerif.Hybrid
