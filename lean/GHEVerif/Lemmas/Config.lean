/- Helper lemmas for C17 / C18: symbolic execution of the table interpreters of Model/Config.lean. -/
import GHEVerif.Model.Config
import GHEVerif.Model.Cli
import Mathlib.Tactic.Linarith

namespace GHEVerif.Config
open GHEVerif GHEVerif.Gen

set_option linter.unusedSimpArgs false

/-- `simp` with the definitions of the table interpreters unfolded. -/
syntax "cfg_simp" (" [" Lean.Parser.Tactic.simpLemma,* "]")? : tactic
macro_rules
  | `(tactic| cfg_simp) => `(tactic| cfg_simp [])
  | `(tactic| cfg_simp [$ls,*]) => `(tactic|
      simp [objToInput, Obj.className, Geom.className, Design.className, Gen.toInputOf, List.lookup, buildRows, evalSelfCond,
        evalSelf, enumNameExpr, Gen.enum_DesignGeomType, Gen.enum_BHPipeType, Gen.enum_FluidType, Gen.enum_FlowConfigType,
        List.find?, Option.orElse, dictSet, optJson, unsupported, $ls,*])

/-! ### `to_input()` of each object, in explicit form -/

theorem objToInput_fluid (A : Arith) (f : Fluid) :
    objToInput A (.fluid f) = .ok [("fluid_name", .str f.ftype.name), ("concentration_percent", .num f.percent),
      ("temperature", .num f.temperature)] := by
  cfg_simp

theorem objToInput_grout (A : Arith) (t : Thermal) :
    objToInput A (.grout t) = .ok [("conductivity", .num t.k), ("rho_cp", .num t.rhoCp)] := by
  cfg_simp

theorem objToInput_soil (A : Arith) (s : Soil) :
    objToInput A (.soil s) = .ok [("conductivity", .num s.k), ("rho_cp", .num s.rhoCp), ("undisturbed_temp", .num s.ugt)] := by
  cfg_simp

theorem objToInput_borehole (A : Arith) (b : Borehole) :
    objToInput A (.borehole b) = .ok [("buried_depth", .num b.D), ("diameter", .num (A.dbl b.rb))] := by
  cfg_simp

theorem objToInput_sim (A : Arith) (p : SimParams) :
    objToInput A (.sim p) = .ok [("num_months", .num p.endMonth)] := by
  cfg_simp

theorem objToInput_design (A : Arith) (d : Design) :
    objToInput A (.design d) = .ok [("flow_rate", .num d.vFlow), ("flow_type", .str d.flowType.name)] := by
  obtain ⟨vf, fl, gt⟩ := d
  cases gt <;>
  cfg_simp

/-- The rows `GeometricConstraints*.to_input()` returns. -/
def geomRows : Geom → Dict
  | .nearSquare b l => [("length", .num l), ("b", .num b), ("method", .str "NEARSQUARE")]
  | .rectangle w l bmin bx => [("length", .num l), ("width", .num w), ("b_min", .num bmin), ("b_max", .num bx), ("method", .str "RECTANGLE")]
  | .biRectangle w l bmin bx by' => [("length", .num l), ("width", .num w), ("b_min", .num bmin), ("b_max_x", .num bx),
      ("b_max_y", .num by'), ("method", .str "BIRECTANGLE")]
  | .biZoned w l bmin bx by' => [("length", .num l), ("width", .num w), ("b_min", .num bmin), ("b_max_x", .num bx),
      ("b_max_y", .num by'), ("method", .str "BIZONEDRECTANGLE")]
  | .constrained bmin bx by' pb ng => [("b_min", .num bmin), ("b_max_x", .num bx), ("b_max_y", .num by'),
      ("property_boundary", pb), ("no_go_boundaries", ng), ("method", .str "BIRECTANGLECONSTRAINED")]
  | .rowWise ratio minSp maxSp step _ _ rotStep pb ng minDeg maxDeg =>
      [("min_spacing", .num minSp), ("max_spacing", .num maxSp), ("spacing_step", .num step), ("min_rotation", .num minDeg),
       ("max_rotation", .num maxDeg), ("rotate_step", .num rotStep), ("property_boundary", pb), ("no_go_boundaries", ng),
       ("method", .str "ROWWISE")] ++ (match ratio with | some r => [("perimeter_spacing_ratio", .num r)] | none => [])

theorem objToInput_geom (A : Arith) (g : Geom) : objToInput A (.geom g) = .ok (geomRows g) := by
  cases g with
  | rowWise ratio minSp maxSp step minRot maxRot rotStep pb ng minDeg maxDeg =>
    cases ratio <;>
    cfg_simp [geomRows]
  | _ =>
    cfg_simp [geomRows]

/-! ### `write_input_file` in explicit form -/

/-- A manager with every slot filled, by components. -/
structure Parts where
  f : Fluid
  gr : Thermal
  so : Soil
  pg : PipeGeom
  rough : Rat
  prc : Rat
  pt : PipeType
  b : Borehole
  p : SimParams
  loads : List Json
  gt : Option GeomType
  g : Geom
  d : Design

def Parts.mgr (x : Parts) : Mgr :=
  { fluid := some x.f, grout := some x.gr, soil := some x.so, pipe := some ⟨x.pg, x.rough, x.prc⟩, pipeType := some x.pt,
    borehole := some x.b, sim := some x.p, loads := some (.arr x.loads), geomType := x.gt, geom := some x.g, design := some x.d }

/-- The pipe object and the recorded pipe type agree (every pipe setter sets both). -/
def PipeOk : PipeGeom → PipeType → Prop
  | .utube .., pt => pt ≠ .coaxial
  | .coax .., pt => pt = .coaxial

def pipeJ (A : Arith) (pg : PipeGeom) (rough prc : Rat) (pt : PipeType) : Dict :=
  match pg with
  | .utube rIn rOut s k =>
      [("rho_cp", .num prc), ("roughness", .num rough), ("inner_diameter", .num (A.dbl rIn)), ("outer_diameter", .num (A.dbl rOut)),
       ("shank_spacing", .num s), ("conductivity", .num k), ("arrangement", .str pt.name)]
  | .coax a b c d ki ko =>
      [("rho_cp", .num prc), ("roughness", .num rough), ("inner_pipe_d_in", .num (A.dbl a)), ("inner_pipe_d_out", .num (A.dbl b)),
       ("outer_pipe_d_in", .num (A.dbl c)), ("outer_pipe_d_out", .num (A.dbl d)), ("conductivity_inner", .num ki),
       ("conductivity_outer", .num ko), ("arrangement", .str pt.name)]

def desJ (d : Design) (p : SimParams) : Dict :=
  [("flow_rate", .num d.vFlow), ("flow_type", .str d.flowType.name), ("max_eft", .num p.maxEft), ("min_eft", .num p.minEft)]
  ++ (match p.maxBoreholes with | some q => [("max_boreholes", .num q)] | none => [])
  ++ (if p.cont then [("continue_if_design_unmet", .bool true)] else [])

def geoJ (g : Geom) (p : SimParams) : Dict :=
  geomRows g ++ [("max_height", .num p.maxHeight), ("min_height", .num p.minHeight)]

def fileOf (A : Arith) (x : Parts) (dgeo ddes dpipe : Dict) : Json :=
  .obj [("version", .str Gen.VERSION),
        ("fluid", .obj [("fluid_name", .str x.f.ftype.name), ("concentration_percent", .num x.f.percent), ("temperature", .num x.f.temperature)]),
        ("grout", .obj [("conductivity", .num x.gr.k), ("rho_cp", .num x.gr.rhoCp)]),
        ("soil", .obj [("conductivity", .num x.so.k), ("rho_cp", .num x.so.rhoCp), ("undisturbed_temp", .num x.so.ugt)]),
        ("pipe", .obj dpipe),
        ("borehole", .obj [("buried_depth", .num x.b.D), ("diameter", .num (A.dbl x.b.rb))]),
        ("simulation", .obj [("num_months", .num x.p.endMonth)]),
        ("geometric_constraints", .obj dgeo),
        ("design", .obj ddes),
        ("loads", .obj [("ground_loads", .arr x.loads)])]

/-- The JSON value `write_input_file` writes for a complete manager. -/
def inputOf (A : Arith) (x : Parts) : Json :=
  fileOf A x (geoJ x.g x.p) (desJ x.d x.p) (pipeJ A x.pg x.rough x.prc x.pt)

def w0 : Written := { file := none, sortKeys := false, indent := 0, ret := 0 }

/-- `simp` set for stepping `execW`. -/
syntax "w_simp" (" [" Lean.Parser.Tactic.simpLemma,* "]")? : tactic
macro_rules
  | `(tactic| w_simp) => `(tactic| w_simp [])
  | `(tactic| w_simp [$ls,*]) => `(tactic|
      simp [Gen.writeInputFile, execW, Parts.mgr, slot, Except.map, buildRows, evalMgr, evalMgrCond, enumNameExpr,
        Gen.enum_DesignGeomType, Gen.enum_BHPipeType, Gen.enum_FluidType, Gen.enum_FlowConfigType, List.find?, Option.orElse,
        List.lookup, dictSet, envSet, setRows, pickBranch, pyList, optJson, unsupported, bind, Except.bind, pure, Except.pure,
        objToInput_fluid, objToInput_grout, objToInput_soil, objToInput_borehole, objToInput_sim, objToInput_design,
        objToInput_geom, $ls,*])

def tailB : List WOp := Gen.writeInputFile.drop 3
def tailC : List WOp := Gen.writeInputFile.drop 8
def tailD : List WOp := Gen.writeInputFile.drop 11

theorem write_split : Gen.writeInputFile = Gen.writeInputFile.take 3 ++ tailB := (List.take_append_drop 3 _).symm
theorem tailB_split : tailB = (Gen.writeInputFile.drop 3).take 5 ++ tailC := by
  simp [tailB, tailC, Gen.writeInputFile]
theorem tailC_split : tailC = (Gen.writeInputFile.drop 8).take 3 ++ tailD := by
  simp [tailC, tailD, Gen.writeInputFile]

theorem execW_stageD (A : Arith) (x : Parts) (t : Bool) (dgeo ddes dpipe : Dict) :
    execW A x.mgr t tailD [("d_geo", dgeo), ("d_des", ddes), ("d_pipe", dpipe)] w0
      = .ok { file := some (fileOf A x dgeo ddes dpipe), sortKeys := true, indent := 2, ret := 0 } := by
  w_simp [tailD, fileOf, w0]

theorem execW_stageC (A : Arith) (x : Parts) (t : Bool) (hp : PipeOk x.pg x.pt) (dgeo ddes : Dict) :
    execW A x.mgr t tailC [("d_geo", dgeo), ("d_des", ddes)] w0
      = .ok { file := some (fileOf A x dgeo ddes (pipeJ A x.pg x.rough x.prc x.pt)), sortKeys := true, indent := 2, ret := 0 } := by
  obtain ⟨f, gr, so, pg, rough, prc, pt, b, p, loads, gt, g, d⟩ := x
  have hD := fun dp => execW_stageD A ⟨f, gr, so, pg, rough, prc, pt, b, p, loads, gt, g, d⟩ t dgeo ddes dp
  rw [tailC_split]
  cases pg <;> cases pt <;> simp [PipeOk] at hp <;>
  w_simp [pipeJ, PipeType.name] <;> exact hD _

theorem execW_stageB (A : Arith) (x : Parts) (t : Bool) (hp : PipeOk x.pg x.pt) (dgeo : Dict) :
    execW A x.mgr t tailB [("d_geo", dgeo)] w0
      = .ok { file := some (fileOf A x dgeo (desJ x.d x.p) (pipeJ A x.pg x.rough x.prc x.pt)), sortKeys := true, indent := 2, ret := 0 } := by
  obtain ⟨f, gr, so, pg, rough, prc, pt, b, p, loads, gt, g, d⟩ := x
  obtain ⟨e1, e2, e3, e4, e5, mb, ct⟩ := p
  have hC := fun dd => execW_stageC A ⟨f, gr, so, pg, rough, prc, pt, b, ⟨e1, e2, e3, e4, e5, mb, ct⟩, loads, gt, g, d⟩ t hp dgeo dd
  rw [tailB_split]
  cases mb <;> cases ct <;> w_simp [desJ] <;> exact hC _

theorem execW_stageA (A : Arith) (x : Parts) (t : Bool) (hp : PipeOk x.pg x.pt) :
    execW A x.mgr t Gen.writeInputFile [] w0
      = .ok { file := some (inputOf A x), sortKeys := true, indent := 2, ret := 0 } := by
  obtain ⟨f, gr, so, pg, rough, prc, pt, b, p, loads, gt, g, d⟩ := x
  have hB := fun dg => execW_stageB A ⟨f, gr, so, pg, rough, prc, pt, b, p, loads, gt, g, d⟩ t hp dg
  rw [write_split]
  cases g with
  | rowWise ratio minSp maxSp step minRot maxRot rotStep pb ng minDeg maxDeg =>
    cases ratio <;> w_simp [inputOf, geoJ, geomRows] <;> exact hB _
  | _ => w_simp [inputOf, geoJ, geomRows] <;> exact hB _

/-- `write_input_file` of a complete manager writes `inputOf`, sorted keys, indent 2, returns 0. -/
theorem writeInputFile_eq (A : Arith) (x : Parts) (t : Bool) (hp : PipeOk x.pg x.pt) :
    writeInputFile A x.mgr t = .ok { file := some (inputOf A x), sortKeys := true, indent := 2, ret := 0 } := by
  unfold writeInputFile
  exact execW_stageA A x t hp

theorem toInput_eq (A : Arith) (x : Parts) (hp : PipeOk x.pg x.pt) : toInput A x.mgr = .ok (inputOf A x) := by
  unfold toInput
  rw [writeInputFile_eq A x true hp]

/-! ### Validation of a written file -/

/-- `simp` set for evaluating the validators on explicit values. -/
syntax "v_simp" (" [" Lean.Parser.Tactic.simpLemma,* "]")? : tactic
macro_rules
  | `(tactic| v_simp) => `(tactic| v_simp [])
  | `(tactic| v_simp [$ls,*]) => `(tactic|
      simp [runValidator, pyGetItem, pyContains, pyStrUpper, upper, dictSet, schemaByFile, Gen.schemas, validObj, validProp, optAll,
        jtypeOk, List.lookup, List.find?, List.all, List.contains, List.elem, Gen.schemaOkReturn, Gen.schemaErrReturn,
        Gen.fluidSchema, Gen.groutSchema, Gen.soilSchema, Gen.boreholeSchema, Gen.simulationSchema, Gen.designSchema,
        Gen.loadsSchema, Gen.pipeCoaxialSchema, Gen.pipeSingleDoubleUTubeSchema, Gen.fileStructureSchema,
        Gen.geometricNearSquareSchema, Gen.geometricRectangleSchema, Gen.geometricBiRectangleSchema,
        Gen.geometricBiZonedRectangleSchema, Gen.geometricBiRectangleConstrainedSchema, Gen.geometricRowwiseSchema, $ls,*])

theorem all_map_valid {α} (d4 : Bool) (S : PropSchema) (f : α → Json) (l : List α)
    (h : ∀ a ∈ l, validProp d4 S (f a) = true) : (l.map f).all (validProp d4 S) = true := by
  simp only [List.all_eq_true, List.mem_map]
  rintro _ ⟨a, ha, rfl⟩
  exact h a ha

theorem validProp_arr (d4 : Bool) (mnI mxI : Option Nat) (items : PropSchema) (l : List Json)
    (h1 : ∀ n, mnI = some n → n ≤ l.length) (h2 : ∀ n, mxI = some n → l.length ≤ n)
    (h3 : l.all (validProp d4 items) = true) :
    validProp d4 (.node (some .array) none none none none mnI mxI items) (.arr l) = true := by
  cases mnI <;> cases mxI <;> simp_all [validProp, optAll, jtypeOk]

theorem validProp_num (d4 : Bool) (mn mx : Option Rat) (q : Rat) (h1 : ∀ m, mn = some m → m ≤ q) (h2 : ∀ m, mx = some m → q ≤ m) :
    validProp d4 (.node (some .number) mn mx none none none none .any) (.num q) = true := by
  cases mn <;> cases mx <;> simp_all [validProp, optAll, jtypeOk]

theorem validProp_nums (d4 : Bool) (mn : Option Rat) (l : List Rat) (h : ∀ q ∈ l, ∀ m, mn = some m → m ≤ q) :
    (l.map Json.num).all (validProp d4 (.node (some .number) mn none none none none none .any)) = true :=
  all_map_valid d4 _ _ l (fun q hq => validProp_num d4 mn none q (h q hq) (by simp))

/-- A point: exactly two non-negative coordinates. -/
def PointOk (pt : List Rat) : Prop := pt.length = 2 ∧ ∀ q ∈ pt, 0 ≤ q
def PolyOk (p : List (List Rat)) : Prop := ∀ pt ∈ p, PointOk pt
def PolysOk (ps : List (List (List Rat))) : Prop := ∀ p ∈ ps, PolyOk p

theorem validProp_point (d4 : Bool) (pt : List Rat) (h : PointOk pt) :
    validProp d4 (.node (some .array) none none none none (some 2) (some 2)
      (.node (some .number) (some 0) none none none none none .any)) (jNums pt) = true := by
  unfold jNums
  apply validProp_arr
  · intro n hn; cases hn; simp [h.1]
  · intro n hn; cases hn; simp [h.1]
  · exact validProp_nums d4 (some 0) pt (fun q hq m hm => by cases hm; exact h.2 q hq)

theorem validProp_poly (d4 : Bool) (p : List (List Rat)) (h : PolyOk p) :
    validProp d4 (.node (some .array) none none none none none none
      (.node (some .array) none none none none (some 2) (some 2)
        (.node (some .number) (some 0) none none none none none .any))) (jPoly p) = true := by
  unfold jPoly
  apply validProp_arr
  · intro n hn; cases hn
  · intro n hn; cases hn
  · exact all_map_valid d4 _ _ p (fun pt hpt => validProp_point d4 pt (h pt hpt))

theorem validProp_polys (d4 : Bool) (ps : List (List (List Rat))) (h : PolysOk ps) :
    validProp d4 (.node (some .array) none none none none none none
      (.node (some .array) none none none none none none
        (.node (some .array) none none none none (some 2) (some 2)
          (.node (some .number) (some 0) none none none none none .any)))) (jPolys ps) = true := by
  unfold jPolys
  apply validProp_arr
  · intro n hn; cases hn
  · intro n hn; cases hn
  · exact all_map_valid d4 _ _ ps (fun p hp => validProp_poly d4 p (h p hp))

theorem upper_fluid_name (ft : FluidType) : upper ft.name = ft.name := by cases ft <;> decide
theorem upper_pipe_name (t : PipeType) : upper t.name = t.name := by cases t <;> decide
theorem upper_geom_name (t : GeomType) : upper t.name = t.name := by cases t <;> decide
theorem upper_flow_name (t : FlowCfg) : upper t.name = t.name := by cases t <;> decide

def specOf (fn : String) : ValidatorSpec := (Gen.validators.find? (fun v => v.fn == fn)).getD default

theorem valid_fluid (f : Fluid) (h0 : 0 ≤ f.percent) (h1 : f.percent ≤ 60) :
    runValidator (specOf "validate_fluid")
      (.obj [("fluid_name", .str f.ftype.name), ("concentration_percent", .num f.percent), ("temperature", .num f.temperature)])
      = .ok 0 := by
  obtain ⟨ft, pc, t⟩ := f
  cases ft <;> v_simp [specOf, Gen.validators, FluidType.name] <;> exact ⟨h0, h1⟩

theorem valid_grout (t : Thermal) (h0 : 0 ≤ t.k) (h1 : 0 ≤ t.rhoCp) :
    runValidator (specOf "validate_grout") (.obj [("conductivity", .num t.k), ("rho_cp", .num t.rhoCp)]) = .ok 0 := by
  v_simp [specOf, Gen.validators]; exact ⟨h0, h1⟩

theorem valid_soil (s : Soil) (h0 : 0 ≤ s.k) (h1 : 0 ≤ s.rhoCp) :
    runValidator (specOf "validate_soil")
      (.obj [("conductivity", .num s.k), ("rho_cp", .num s.rhoCp), ("undisturbed_temp", .num s.ugt)]) = .ok 0 := by
  v_simp [specOf, Gen.validators]; exact ⟨h0, h1⟩

theorem valid_borehole (A : Arith) (b : Borehole) (h0 : 0 ≤ b.D) :
    runValidator (specOf "validate_borehole") (.obj [("buried_depth", .num b.D), ("diameter", .num (A.dbl b.rb))]) = .ok 0 := by
  v_simp [specOf, Gen.validators]; exact h0

theorem valid_simulation (p : SimParams) (h : 1 ≤ p.endMonth) :
    runValidator (specOf "validate_simulation") (.obj [("num_months", .num p.endMonth)]) = .ok 0 := by
  v_simp [specOf, Gen.validators]; exact h

/-- Ranges of the pipe data as written. -/
def PipeValid (A : Arith) (pg : PipeGeom) (rough prc : Rat) : Prop :=
  0 ≤ rough ∧ 0 ≤ prc ∧
  match pg with
  | .utube rIn rOut s k => 0 ≤ A.dbl rIn ∧ 0 ≤ A.dbl rOut ∧ 0 ≤ s ∧ 0 ≤ k
  | .coax a b c d ki ko => 0 ≤ A.dbl a ∧ 0 ≤ A.dbl b ∧ 0 ≤ A.dbl c ∧ 0 ≤ A.dbl d ∧ 0 ≤ ki ∧ 0 ≤ ko

theorem valid_pipe (A : Arith) (pg : PipeGeom) (rough prc : Rat) (pt : PipeType) (hp : PipeOk pg pt) (hv : PipeValid A pg rough prc) :
    runValidator (specOf "validate_pipe") (.obj (pipeJ A pg rough prc pt)) = .ok 0 := by
  obtain ⟨h1, h2, h3⟩ := hv
  cases pg <;> cases pt <;> simp [PipeOk] at hp <;>
    v_simp [specOf, Gen.validators, pipeJ, PipeType.name] <;> simp_all

syntax "vo_simp" (" [" Lean.Parser.Tactic.simpLemma,* "]")? : tactic
macro_rules
  | `(tactic| vo_simp) => `(tactic| vo_simp [])
  | `(tactic| vo_simp [$ls,*]) => `(tactic|
      simp [runValidator, pyGetItem, pyContains, pyStrUpper, upper, dictSet, schemaByFile, Gen.schemas, validObj,
        List.lookup, List.find?, List.all, Gen.schemaOkReturn, Gen.schemaErrReturn,
        Gen.fluidSchema, Gen.groutSchema, Gen.soilSchema, Gen.boreholeSchema, Gen.simulationSchema, Gen.designSchema,
        Gen.loadsSchema, Gen.pipeCoaxialSchema, Gen.pipeSingleDoubleUTubeSchema, Gen.fileStructureSchema,
        Gen.geometricNearSquareSchema, Gen.geometricRectangleSchema, Gen.geometricBiRectangleSchema,
        Gen.geometricBiZonedRectangleSchema, Gen.geometricBiRectangleConstrainedSchema, Gen.geometricRowwiseSchema, $ls,*])

def GeomValid : Geom → Prop
  | .nearSquare b l => 0 ≤ b ∧ 0 ≤ l
  | .rectangle w l bmin bx => 0 ≤ w ∧ 0 ≤ l ∧ 0 ≤ bmin ∧ 0 ≤ bx
  | .biRectangle w l bmin bx by' => 0 ≤ w ∧ 0 ≤ l ∧ 0 ≤ bmin ∧ 0 ≤ bx ∧ 0 ≤ by'
  | .biZoned w l bmin bx by' => 0 ≤ w ∧ 0 ≤ l ∧ 0 ≤ bmin ∧ 0 ≤ bx ∧ 0 ≤ by'
  | .constrained bmin bx by' pb ng => 0 ≤ bmin ∧ 0 ≤ bx ∧ 0 ≤ by' ∧
      (∃ ps, pb = jPolys ps ∧ PolysOk ps) ∧ (∃ ns, ng = jPolys ns ∧ PolysOk ns)
  | .rowWise ratio minSp maxSp step _ _ _ pb ng minDeg maxDeg =>
      (∀ r, ratio = some r → 0 ≤ r) ∧ 0 ≤ minSp ∧ 0 ≤ maxSp ∧ 0 ≤ step ∧ -90 ≤ minDeg ∧ minDeg ≤ 90 ∧ -90 ≤ maxDeg ∧ maxDeg ≤ 90 ∧
      (∃ p, pb = jPoly p ∧ PolyOk p) ∧ (∃ ns, ng = jPolys ns ∧ PolysOk ns)

theorem valid_geo (g : Geom) (p : SimParams) (hg : GeomValid g) (h1 : 0 ≤ p.maxHeight) (h2 : 0 ≤ p.minHeight) :
    runValidator (specOf "validate_geometric") (.obj (geoJ g p)) = .ok 0 := by
  cases g with
  | constrained bmin bx by' pb ng =>
    obtain ⟨a1, a2, a3, ⟨ps, rfl, hps⟩, ⟨ns, rfl, hns⟩⟩ := hg
    vo_simp [specOf, Gen.validators, geoJ, geomRows]
    simp only [validProp_polys _ _ hps, validProp_polys _ _ hns]
    simp [validProp, optAll, jtypeOk, *]
  | rowWise ratio minSp maxSp step minRot maxRot rotStep pb ng minDeg maxDeg =>
    obtain ⟨a0, a1, a2, a3, a4, a5, a6, a7, ⟨ps, rfl, hps⟩, ⟨ns, rfl, hns⟩⟩ := hg
    cases ratio with
    | none =>
      vo_simp [specOf, Gen.validators, geoJ, geomRows]
      simp only [validProp_poly _ _ hps, validProp_polys _ _ hns]
      simp [validProp, optAll, jtypeOk, *]
    | some r =>
      have := a0 r rfl
      vo_simp [specOf, Gen.validators, geoJ, geomRows]
      simp only [validProp_poly _ _ hps, validProp_polys _ _ hns]
      simp [validProp, optAll, jtypeOk, *]
  | _ =>
    simp only [GeomValid] at hg
    v_simp [specOf, Gen.validators, geoJ, geomRows] <;> simp_all


theorem valid_design (d : Design) (p : SimParams) (h : 0 ≤ d.vFlow) :
    runValidator (specOf "validate_design") (.obj (desJ d p)) = .ok 0 := by
  obtain ⟨vf, fl, gt⟩ := d
  obtain ⟨e1, e2, e3, e4, e5, mb, ct⟩ := p
  cases mb <;> cases ct <;> cases fl <;> v_simp [specOf, Gen.validators, desJ, FlowCfg.name] <;> exact h

theorem valid_loads (l : List Rat) (h : l.length = 8760) :
    runValidator (specOf "validate_loads") (.obj [("ground_loads", .arr (l.map Json.num))]) = .ok 0 := by
  have h1 := validProp_arr true (some 8760) (some 8760) _ (l.map Json.num) (by intro n hn; cases hn; simp [h])
    (by intro n hn; cases hn; simp [h]) (validProp_nums true none l (by intro q _ m hm; cases hm))
  simp [runValidator, specOf, Gen.validators, pyGetItem, dictSet, schemaByFile, Gen.schemas, validObj, List.lookup, List.find?, List.all,
    Gen.schemaOkReturn, Gen.schemaErrReturn, Gen.loadsSchema, Gen.fluidSchema, Gen.groutSchema, Gen.soilSchema, Gen.boreholeSchema, Gen.simulationSchema, Gen.designSchema,
    Gen.pipeCoaxialSchema, Gen.pipeSingleDoubleUTubeSchema, Gen.fileStructureSchema,
        Gen.geometricNearSquareSchema, Gen.geometricRectangleSchema, Gen.geometricBiRectangleSchema,
        Gen.geometricBiZonedRectangleSchema, Gen.geometricBiRectangleConstrainedSchema, Gen.geometricRowwiseSchema, optAll, jtypeOk, h1]

theorem valid_file (A : Arith) (x : Parts) (dgeo ddes dpipe : Dict) :
    runValidator (specOf "validate_file_structure") (fileOf A x dgeo ddes dpipe) = .ok 0 := by
  v_simp [specOf, Gen.validators, fileOf]

theorem validators_eq : Gen.validators =
    [specOf "validate_file_structure", specOf "validate_fluid", specOf "validate_grout", specOf "validate_soil",
     specOf "validate_pipe", specOf "validate_borehole", specOf "validate_simulation", specOf "validate_geometric",
     specOf "validate_design", specOf "validate_loads"] := by
  simp [specOf, Gen.validators]


theorem specOf_sects :
    (specOf "validate_file_structure").sect = "" ∧
    (specOf "validate_fluid").sect = "fluid" ∧
    (specOf "validate_grout").sect = "grout" ∧
    (specOf "validate_soil").sect = "soil" ∧
    (specOf "validate_pipe").sect = "pipe" ∧
    (specOf "validate_borehole").sect = "borehole" ∧
    (specOf "validate_simulation").sect = "simulation" ∧
    (specOf "validate_geometric").sect = "geometric_constraints" ∧
    (specOf "validate_design").sect = "design" ∧
    (specOf "validate_loads").sect = "loads" := by
  simp [specOf, Gen.validators]

/-- Ranges of a complete manager's data, as written (the documented domain of the API). -/
structure StateValid (A : Arith) (x : Parts) : Prop where
  pipeOk : PipeOk x.pg x.pt
  percent0 : 0 ≤ x.f.percent
  percent60 : x.f.percent ≤ 60
  groutK : 0 ≤ x.gr.k
  groutRc : 0 ≤ x.gr.rhoCp
  soilK : 0 ≤ x.so.k
  soilRc : 0 ≤ x.so.rhoCp
  pipe : PipeValid A x.pg x.rough x.prc
  depth : 0 ≤ x.b.D
  months : 1 ≤ x.p.endMonth
  maxH : 0 ≤ x.p.maxHeight
  minH : 0 ≤ x.p.minHeight
  geom : GeomValid x.g
  flow : 0 ≤ x.d.vFlow
  loads : ∃ l : List Rat, x.loads = l.map Json.num ∧ l.length = 8760

theorem validate_inputOf (A : Arith) (x : Parts) (h : StateValid A x) : validateInputFile (inputOf A x) = .ok 0 := by
  obtain ⟨l, hl, hlen⟩ := h.loads
  have e0 := valid_file A x (geoJ x.g x.p) (desJ x.d x.p) (pipeJ A x.pg x.rough x.prc x.pt)
  have e1 := valid_fluid x.f h.percent0 h.percent60
  have e2 := valid_grout x.gr h.groutK h.groutRc
  have e3 := valid_soil x.so h.soilK h.soilRc
  have e4 := valid_pipe A x.pg x.rough x.prc x.pt h.pipeOk h.pipe
  have e5 := valid_borehole A x.b h.depth
  have e6 := valid_simulation x.p h.months
  have e7 := valid_geo x.g x.p h.geom h.maxH h.minH
  have e8 := valid_design x.d x.p h.flow
  have e9 := valid_loads l hlen
  simp only [fileOf, hl] at e0
  unfold validateInputFile inputOf fileOf
  rw [validators_eq]
  obtain ⟨s0, s1, s2, s3, s4, s5, s6, s7, s8, s9⟩ := specOf_sects
  simp only [validateFrom, s0, s1, s2, s3, s4, s5, s6, s7, s8, s9, e0]
  simp [pyGetItem, List.lookup, e0, e1, e2, e3, e4, e5, e6, e7, e8, hl, e9]

/-! ### The setters on explicit keyword lists -/

syntax "s_simp" (" [" Lean.Parser.Tactic.simpLemma,* "]")? : tactic
macro_rules
  | `(tactic| s_simp) => `(tactic| s_simp [])
  | `(tactic| s_simp [$ls,*]) => `(tactic|
      simp [applySetter, sigOf, Gen.setterSigs, resolveArgs, posIndex, nthName, missingRequired, optionalOf, Gen.setterOptional,
        argOf, num, optNum, asBool, uTube, failTail, truthy, parsePyConst, List.lookup, List.any, List.contains, List.elem,
        bind, Except.bind, pure, Except.pure, Functor.map, Except.map, pyStrUpper, optJson, $ls,*])

theorem flow_ofName (t : FlowCfg) : FlowCfg.ofName (upper t.name) = some t := by cases t <;> decide
theorem fluid_ofName (t : FluidType) : FluidType.ofName (upper t.name) = some t := by cases t <;> decide
theorem pipe_ofName (t : PipeType) : PipeType.ofName (upper t.name) = some t := by cases t <;> decide
theorem geom_ofName (t : GeomType) : GeomType.ofName (upper t.name) = some t := by cases t <;> decide

theorem set_fluid_api (A : Arith) (m : Mgr) (s : String) (ft : FluidType) (pc t : Rat) (h : FluidType.ofName (upper s) = some ft) :
    applySetter A m "set_fluid" [("fluid_name", .str s), ("concentration_percent", .num pc), ("temperature", .num t)]
      = .ok ({ m with fluid := some ⟨ft, pc, t⟩ }, 0) := by
  s_simp [h]

theorem set_fluid_cli (A : Arith) (m : Mgr) (s : String) (ft : FluidType) (pc t : Rat) (h : FluidType.ofName (upper s) = some ft) :
    applySetter A m "set_fluid" [("fluid_name", .str s), ("concentration_percent", .num pc), ("temperature", .num t), ("throw", .bool false)]
      = .ok ({ m with fluid := some ⟨ft, pc, t⟩ }, 0) := by
  s_simp [h]

theorem set_grout_eq (A : Arith) (m : Mgr) (k rc : Rat) :
    applySetter A m "set_grout" [("conductivity", .num k), ("rho_cp", .num rc)] = .ok ({ m with grout := some ⟨k, rc⟩ }, 0) := by
  s_simp

theorem set_soil_eq (A : Arith) (m : Mgr) (k rc t : Rat) :
    applySetter A m "set_soil" [("conductivity", .num k), ("rho_cp", .num rc), ("undisturbed_temp", .num t)]
      = .ok ({ m with soil := some ⟨k, rc, t⟩ }, 0) := by
  s_simp

theorem set_pipe_type_cli (A : Arith) (m : Mgr) (t : PipeType) :
    applySetter A m "set_pipe_type" [("#0", .str t.name), ("throw", .bool false)] = .ok ({ m with pipeType := some t }, 0) := by
  s_simp [pipe_ofName]

theorem set_single_eq (A : Arith) (m : Mgr) (a b s r k c : Rat) :
    applySetter A m "set_single_u_tube_pipe" [("inner_diameter", .num a), ("outer_diameter", .num b), ("shank_spacing", .num s),
        ("roughness", .num r), ("conductivity", .num k), ("rho_cp", .num c)]
      = .ok ({ m with pipeType := some .singleUTube, pipe := some ⟨.utube (A.half a) (A.half b) s k, r, c⟩ }, 0) := by
  s_simp

theorem set_dpar_eq (A : Arith) (m : Mgr) (a b s r k c : Rat) :
    applySetter A m "set_double_u_tube_pipe_parallel" [("inner_diameter", .num a), ("outer_diameter", .num b), ("shank_spacing", .num s),
        ("roughness", .num r), ("conductivity", .num k), ("rho_cp", .num c)]
      = .ok ({ m with pipeType := some .doubleUTubeParallel, pipe := some ⟨.utube (A.half a) (A.half b) s k, r, c⟩ }, 0) := by
  s_simp

theorem set_dser_eq (A : Arith) (m : Mgr) (a b s r k c : Rat) :
    applySetter A m "set_double_u_tube_pipe_series" [("inner_diameter", .num a), ("outer_diameter", .num b), ("shank_spacing", .num s),
        ("roughness", .num r), ("conductivity", .num k), ("rho_cp", .num c)]
      = .ok ({ m with pipeType := some .doubleUTubeSeries, pipe := some ⟨.utube (A.half a) (A.half b) s k, r, c⟩ }, 0) := by
  s_simp

theorem set_coax_eq (A : Arith) (m : Mgr) (a b c d r ki ko rc : Rat) :
    applySetter A m "set_coaxial_pipe" [("inner_pipe_d_in", .num a), ("inner_pipe_d_out", .num b), ("outer_pipe_d_in", .num c),
        ("outer_pipe_d_out", .num d), ("roughness", .num r), ("conductivity_inner", .num ki), ("conductivity_outer", .num ko),
        ("rho_cp", .num rc)]
      = .ok ({ m with pipeType := some .coaxial,
                      pipe := some ⟨.coax (A.half a) (A.half b) (A.half c) (A.half d) ki ko, r, rc⟩ }, 0) := by
  s_simp

theorem set_borehole_eq (A : Arith) (m : Mgr) (h d dia : Rat) :
    applySetter A m "set_borehole" [("height", .num h), ("buried_depth", .num d), ("diameter", .num dia)]
      = .ok ({ m with borehole := some ⟨h, d, A.half dia⟩ }, 0) := by
  s_simp

theorem set_loads_cli (A : Arith) (m : Mgr) (l : Json) :
    applySetter A m "set_ground_loads_from_hourly_list" [("#0", l)] = .ok ({ m with loads := some l }, 0) := by
  s_simp

theorem set_loads_api (A : Arith) (m : Mgr) (l : Json) :
    applySetter A m "set_ground_loads_from_hourly_list" [("hourly_ground_loads", l)] = .ok ({ m with loads := some l }, 0) := by
  s_simp

theorem set_sim_eq (A : Arith) (m : Mgr) (nm mx mn hx hn : Rat) (mb : Option Rat) (ct : Bool) :
    applySetter A m "set_simulation_parameters" [("num_months", .num nm), ("max_eft", .num mx), ("min_eft", .num mn),
        ("max_height", .num hx), ("min_height", .num hn), ("max_boreholes", optJson mb), ("continue_if_design_unmet", .bool ct)]
      = .ok ({ m with sim := some ⟨nm, mx, mn, hx, hn, mb, ct⟩ }, 0) := by
  cases mb <;> s_simp

theorem set_geom_type_cli (A : Arith) (m : Mgr) (t : GeomType) :
    applySetter A m "set_design_geometry_type" [("#0", .str t.name), ("throw", .bool false)] = .ok ({ m with geomType := some t }, 0) := by
  s_simp [geom_ofName]

theorem set_near_square_eq (A : Arith) (m : Mgr) (b l : Rat) :
    applySetter A m "set_geometry_constraints_near_square" [("b", .num b), ("length", .num l)]
      = .ok ({ m with geom := some (.nearSquare b l) }, 0) := by
  s_simp

theorem set_rectangle_eq (A : Arith) (m : Mgr) (l w bmin bmax : Rat) :
    applySetter A m "set_geometry_constraints_rectangle" [("length", .num l), ("width", .num w), ("b_min", .num bmin), ("b_max", .num bmax)]
      = .ok ({ m with geomType := some .rectangle, geom := some (.rectangle w l bmin bmax) }, 0) := by
  s_simp

theorem set_bi_rectangle_eq (A : Arith) (m : Mgr) (l w bmin bx by' : Rat) :
    applySetter A m "set_geometry_constraints_bi_rectangle"
        [("length", .num l), ("width", .num w), ("b_min", .num bmin), ("b_max_x", .num bx), ("b_max_y", .num by')]
      = .ok ({ m with geomType := some .biRectangle, geom := some (.biRectangle w l bmin bx by') }, 0) := by
  s_simp

theorem set_bi_zoned_eq (A : Arith) (m : Mgr) (l w bmin bx by' : Rat) :
    applySetter A m "set_geometry_constraints_bi_zoned_rectangle"
        [("length", .num l), ("width", .num w), ("b_min", .num bmin), ("b_max_x", .num bx), ("b_max_y", .num by')]
      = .ok ({ m with geomType := some .biZonedRectangle, geom := some (.biZoned w l bmin bx by') }, 0) := by
  s_simp

theorem set_constrained_eq (A : Arith) (m : Mgr) (bmin bx by' : Rat) (pb ng pb' ng' : Json)
    (hp : wrapIfFlat pb = .ok pb') (hn : wrapIfFlat ng = .ok ng') :
    applySetter A m "set_geometry_constraints_bi_rectangle_constrained"
        [("b_min", .num bmin), ("b_max_x", .num bx), ("b_max_y", .num by'), ("property_boundary", pb), ("no_go_boundaries", ng)]
      = .ok ({ m with geomType := some .biRectangleConstrained, geom := some (.constrained bmin bx by' pb' ng') }, 0) := by
  s_simp [hp, hn]

theorem set_rowwise_eq (A : Arith) (m : Mgr) (ratio : Option Rat) (maxSp minSp step maxRot minRot rotStep : Rat) (pb ng : Json) :
    applySetter A m "set_geometry_constraints_rowwise"
        [("perimeter_spacing_ratio", optJson ratio), ("max_spacing", .num maxSp), ("min_spacing", .num minSp),
         ("spacing_step", .num step), ("max_rotation", .num maxRot), ("min_rotation", .num minRot),
         ("rotate_step", .num rotStep), ("property_boundary", pb), ("no_go_boundaries", ng)]
      = .ok ({ m with geomType := some .rowWise,
                      geom := some (.rowWise ratio minSp maxSp step (A.toRad minRot) (A.toRad maxRot) rotStep pb ng minRot maxRot) }, 0) := by
  cases ratio <;> s_simp

theorem set_design_api (A : Arith) (m : Mgr) (g : Geom) (hg : m.geom = some g) (fr : Rat) (s : String) (fl : FlowCfg)
    (h : FlowCfg.ofName (upper s) = some fl) :
    applySetter A m "set_design" [("flow_rate", .num fr), ("flow_type_str", .str s)]
      = .ok ({ m with design := some ⟨fr, fl, g.type⟩ }, 0) := by
  s_simp [h, hg]

theorem set_design_cli (A : Arith) (m : Mgr) (g : Geom) (hg : m.geom = some g) (fr : Rat) (s : String) (fl : FlowCfg)
    (h : FlowCfg.ofName (upper s) = some fl) :
    applySetter A m "set_design" [("flow_rate", .num fr), ("flow_type_str", .str s), ("throw", .bool false)]
      = .ok ({ m with design := some ⟨fr, fl, g.type⟩ }, 0) := by
  s_simp [h, hg]


/-! ### The worker on a written file -/

syntax "r_simp" (" [" Lean.Parser.Tactic.simpLemma,* "]")? : tactic
macro_rules
  | `(tactic| r_simp) => `(tactic| r_simp [])
  | `(tactic| r_simp [$ls,*]) => `(tactic|
      simp [Gen.worker, execR, execS, execSs, evalArgs, varOf, getPath, pyGetItem, pyGet, parsePyConst,
        subjectLabel, List.lookup, bind, Except.bind, pure, Except.pure, Functor.map, Except.map, Option.orElse, optJson, $ls,*])

theorem desJ_flow_rate (d : Design) (p : SimParams) : (desJ d p).lookup "flow_rate" = some (.num d.vFlow) := by
  simp [desJ, List.lookup]
theorem desJ_flow_type (d : Design) (p : SimParams) : (desJ d p).lookup "flow_type" = some (.str d.flowType.name) := by
  simp [desJ, List.lookup]
theorem desJ_max_eft (d : Design) (p : SimParams) : (desJ d p).lookup "max_eft" = some (.num p.maxEft) := by
  simp [desJ, List.lookup]
theorem desJ_min_eft (d : Design) (p : SimParams) : (desJ d p).lookup "min_eft" = some (.num p.minEft) := by
  simp [desJ, List.lookup]
theorem desJ_max_bh (d : Design) (p : SimParams) : ((desJ d p).lookup "max_boreholes").getD .null = optJson p.maxBoreholes := by
  obtain ⟨e1, e2, e3, e4, e5, mb, ct⟩ := p
  cases mb <;> cases ct <;> simp [desJ, List.lookup, optJson]
theorem desJ_cont (d : Design) (p : SimParams) :
    ((desJ d p).lookup "continue_if_design_unmet").getD (.bool false) = .bool p.cont := by
  obtain ⟨e1, e2, e3, e4, e5, mb, ct⟩ := p
  cases mb <;> cases ct <;> simp [desJ, List.lookup]

macro "r_open" : tactic => `(tactic| (
  simp only [Gen.worker, List.drop_succ_cons, List.drop_zero, List.take_succ_cons, List.take_zero, List.cons_append, List.nil_append]
  simp only [execR]))

syntax "r_run" (" [" Lean.Parser.Tactic.simpLemma,* "]")? : tactic
macro_rules
  | `(tactic| r_run) => `(tactic| r_run [])
  | `(tactic| r_run [$ls,*]) => `(tactic|
      simp [execSs, execS, evalArgs, varOf, getPath, pyGetItem, pyGet, parsePyConst, List.lookup, Except.map, Functor.map, $ls,*])

def tailR (k : Nat) : List ROp := Gen.worker.drop k

def ranAll : List String := ["find_design", "prepare_results", "write_output_files"]

theorem stage5 (A : Arith) (m0 : Mgr) (g : Geom) (hg : m0.geom = some g) (d : Design) (p : SimParams) (env : REnv) (file : Json)
    (hd : env.lookup "design_props" = some (.obj (desJ d p))) :
    execR A (fun _ => false) file (tailR 24) { m := m0, env := env, atRun := none, ran := [] }
    = .ok (0, { m := { m0 with design := some ⟨d.vFlow, d.flowType, g.type⟩ }, env := env,
                atRun := some { m0 with design := some ⟨d.vFlow, d.flowType, g.type⟩ }, ran := ranAll }) := by
  r_simp [tailR, hd, desJ_flow_rate, desJ_flow_type, set_design_cli A m0 g hg d.vFlow d.flowType.name d.flowType (flow_ofName _), ranAll]

/-- What re-reading does to the geometry object: the radians are recomputed from the written degrees. -/
def reGeom (A : Arith) : Geom → Geom
  | .rowWise ratio minSp maxSp step _ _ rotStep pb ng minDeg maxDeg =>
      .rowWise ratio minSp maxSp step (A.toRad minDeg) (A.toRad maxDeg) rotStep pb ng minDeg maxDeg
  | g => g

/-- Polygon lists as the constructor of the constrained geometry leaves them: no empty polygon, no empty point. -/
def PolysShape (ps : List (List (List Rat))) : Prop := ∀ p ∈ ps, p ≠ [] ∧ ∀ pt ∈ p, pt ≠ []

theorem wrapIfFlat_polys (ps : List (List (List Rat))) (h : PolysShape ps) : wrapIfFlat (jPolys ps) = .ok (jPolys ps) := by
  cases ps with
  | nil => simp [jPolys, wrapIfFlat]
  | cons p rest =>
    obtain ⟨hp, hpt⟩ := h p List.mem_cons_self
    cases p with
    | nil => exact absurd rfl hp
    | cons pt r =>
      have := hpt pt List.mem_cons_self
      cases pt with
      | nil => exact absurd rfl this
      | cons q qs => simp [jPolys, jPoly, jNums, wrapIfFlat]

def GeomShape : Geom → Prop
  | .constrained _ _ _ pb ng => (∃ ps, pb = jPolys ps ∧ PolysShape ps) ∧ (∃ ns, ng = jPolys ns ∧ PolysShape ns)
  | _ => True

theorem geoJ_method (g : Geom) (p : SimParams) : (geoJ g p).lookup "method" = some (.str g.type.name) := by
  cases g with
  | rowWise ratio _ _ _ _ _ _ _ _ _ _ => cases ratio <;> simp [geoJ, geomRows, List.lookup, Geom.type, GeomType.name]
  | _ => simp [geoJ, geomRows, List.lookup, Geom.type, GeomType.name]
theorem geoJ_max_height (g : Geom) (p : SimParams) : (geoJ g p).lookup "max_height" = some (.num p.maxHeight) := by
  cases g with
  | rowWise ratio _ _ _ _ _ _ _ _ _ _ => cases ratio <;> simp [geoJ, geomRows, List.lookup]
  | _ => simp [geoJ, geomRows, List.lookup]
theorem geoJ_min_height (g : Geom) (p : SimParams) : (geoJ g p).lookup "min_height" = some (.num p.minHeight) := by
  cases g with
  | rowWise ratio _ _ _ _ _ _ _ _ _ _ => cases ratio <;> simp [geoJ, geomRows, List.lookup]
  | _ => simp [geoJ, geomRows, List.lookup]

theorem tailR23 : tailR 23 = (Gen.worker.drop 23).take 1 ++ tailR 24 := by simp [tailR, Gen.worker]

theorem stage4 (A : Arith) (m0 : Mgr) (g : Geom) (d : Design) (p : SimParams) (env : REnv) (file : Json)
    (hgt : m0.geomType = some g.type) (hs : GeomShape g)
    (hc : env.lookup "constraint_props" = some (.obj (geoJ g p)))
    (hd : env.lookup "design_props" = some (.obj (desJ d p))) :
    ∃ env', execR A (fun _ => false) file (tailR 23) { m := m0, env := env, atRun := none, ran := [] }
    = .ok (0, { m := { m0 with geom := some (reGeom A g), design := some ⟨d.vFlow, d.flowType, g.type⟩ }, env := env',
                atRun := some { m0 with geom := some (reGeom A g), design := some ⟨d.vFlow, d.flowType, g.type⟩ }, ran := ranAll }) := by
  rw [tailR23]
  cases g with
  | nearSquare b l =>
    refine ⟨env, ?_⟩
    have h5 := stage5 A { m0 with geom := some (.nearSquare b l) } (.nearSquare b l) rfl d p env file hd
    r_open
    simp [subjectLabel, hgt, GeomType.name, Geom.type, List.lookup]
    r_run [hc, geoJ, geomRows, set_near_square_eq]
    simpa [reGeom, Geom.type, hgt] using h5
  | rectangle w l bmin bx =>
    refine ⟨env, ?_⟩
    have h5 := stage5 A { m0 with geomType := some .rectangle, geom := some (.rectangle w l bmin bx) } (.rectangle w l bmin bx) rfl d p env file hd
    r_open
    simp [subjectLabel, hgt, GeomType.name, Geom.type, List.lookup]
    r_run [hc, geoJ, geomRows, set_rectangle_eq]
    simpa [reGeom, Geom.type, hgt] using h5
  | biRectangle w l bmin bx by' =>
    refine ⟨env, ?_⟩
    have h5 := stage5 A { m0 with geomType := some .biRectangle, geom := some (.biRectangle w l bmin bx by') } (.biRectangle w l bmin bx by') rfl d p env file hd
    r_open
    simp [subjectLabel, hgt, GeomType.name, Geom.type, List.lookup]
    r_run [hc, geoJ, geomRows, set_bi_rectangle_eq]
    simpa [reGeom, Geom.type, hgt] using h5
  | biZoned w l bmin bx by' =>
    refine ⟨env, ?_⟩
    have h5 := stage5 A { m0 with geomType := some .biZonedRectangle, geom := some (.biZoned w l bmin bx by') } (.biZoned w l bmin bx by') rfl d p env file hd
    r_open
    simp [subjectLabel, hgt, GeomType.name, Geom.type, List.lookup]
    r_run [hc, geoJ, geomRows, set_bi_zoned_eq]
    simpa [reGeom, Geom.type, hgt] using h5
  | constrained bmin bx by' pb ng =>
    obtain ⟨⟨ps, rfl, hps⟩, ⟨ns, rfl, hns⟩⟩ := hs
    refine ⟨env, ?_⟩
    have h5 := stage5 A { m0 with geomType := some .biRectangleConstrained, geom := some (.constrained bmin bx by' (jPolys ps) (jPolys ns)) }
      (.constrained bmin bx by' (jPolys ps) (jPolys ns)) rfl d p env file hd
    r_open
    simp [subjectLabel, hgt, GeomType.name, Geom.type, List.lookup]
    r_run [hc, geoJ, geomRows, set_constrained_eq A _ _ _ _ _ _ _ _ (wrapIfFlat_polys ps hps) (wrapIfFlat_polys ns hns)]
    simpa [reGeom, Geom.type, hgt] using h5
  | rowWise ratio minSp maxSp step minRot maxRot rotStep pb ng minDeg maxDeg =>
    refine ⟨("perimeter_spacing_ratio", optJson ratio) :: env, ?_⟩
    have hd' : List.lookup "design_props" (("perimeter_spacing_ratio", optJson ratio) :: env) = some (.obj (desJ d p)) := by
      simp [List.lookup, hd]
    have h5 := stage5 A { m0 with geomType := some GeomType.rowWise, geom := some (Geom.rowWise ratio minSp maxSp step (A.toRad minDeg) (A.toRad maxDeg) rotStep pb ng minDeg maxDeg) } (.rowWise ratio minSp maxSp step (A.toRad minDeg) (A.toRad maxDeg) rotStep pb ng minDeg maxDeg) rfl d p _ file hd'
    r_open
    simp [subjectLabel, hgt, GeomType.name, Geom.type, List.lookup]
    have hr : ((geoJ (.rowWise ratio minSp maxSp step minRot maxRot rotStep pb ng minDeg maxDeg) p).lookup "perimeter_spacing_ratio").getD .null
        = optJson ratio := by cases ratio <;> simp [geoJ, geomRows, List.lookup, optJson]
    cases ratio with
    | none =>
      have e := set_rowwise_eq A m0 none maxSp minSp step maxDeg minDeg rotStep pb ng
      simp only [optJson] at e
      r_run [hc, geoJ, geomRows, optJson, e]
      simpa [reGeom, Geom.type, hgt, optJson] using h5
    | some r =>
      have e := set_rowwise_eq A m0 (some r) maxSp minSp step maxDeg minDeg rotStep pb ng
      simp only [optJson] at e
      r_run [hc, geoJ, geomRows, optJson, e]
      simpa [reGeom, Geom.type, hgt, optJson] using h5

theorem tailR22 : tailR 22 = (Gen.worker.drop 22).take 1 ++ tailR 23 := by simp [tailR, Gen.worker]
theorem tailR17 : tailR 17 = (Gen.worker.drop 17).take 5 ++ tailR 22 := by simp [tailR, Gen.worker]
theorem tailR12 : tailR 12 = (Gen.worker.drop 12).take 5 ++ tailR 17 := by simp [tailR, Gen.worker]
theorem tailR0 : Gen.worker = Gen.worker.take 12 ++ tailR 12 := by simp [tailR, Gen.worker]

theorem stage3 (A : Arith) (m0 : Mgr) (g : Geom) (d : Design) (p : SimParams) (env : REnv) (file : Json) (hs : GeomShape g)
    (hc : env.lookup "constraint_props" = some (.obj (geoJ g p)))
    (hd : env.lookup "design_props" = some (.obj (desJ d p))) :
    ∃ env', execR A (fun _ => false) file (tailR 22) { m := m0, env := env, atRun := none, ran := [] }
    = .ok (0, WState.mk { m0 with geomType := some g.type, geom := some (reGeom A g), design := some ⟨d.vFlow, d.flowType, g.type⟩ } env'
                (some { m0 with geomType := some g.type, geom := some (reGeom A g), design := some ⟨d.vFlow, d.flowType, g.type⟩ }) ranAll) := by
  obtain ⟨env', h4⟩ := stage4 A { m0 with geomType := some g.type } g d p env file rfl hs hc hd
  refine ⟨env', ?_⟩
  rw [tailR22]
  r_open
  r_run [hc, geoJ_method, set_geom_type_cli]
  simpa using h4

/-- The local variables of the worker after its section bindings, on a written file. -/
def envOf (A : Arith) (x : Parts) : REnv :=
  [("ground_load_props", .arr x.loads), ("design_props", .obj (desJ x.d x.p)), ("constraint_props", .obj (geoJ x.g x.p)),
   ("sim_props", .obj [("num_months", .num x.p.endMonth)]),
   ("borehole_props", .obj [("buried_depth", .num x.b.D), ("diameter", .num (A.dbl x.b.rb))]),
   ("pipe_props", .obj (pipeJ A x.pg x.rough x.prc x.pt)),
   ("soil_props", .obj [("conductivity", .num x.so.k), ("rho_cp", .num x.so.rhoCp), ("undisturbed_temp", .num x.so.ugt)]),
   ("grout_props", .obj [("conductivity", .num x.gr.k), ("rho_cp", .num x.gr.rhoCp)]),
   ("fluid_props", .obj [("fluid_name", .str x.f.ftype.name), ("concentration_percent", .num x.f.percent), ("temperature", .num x.f.temperature)]),
   ("version", .str Gen.VERSION), ("inputs", inputOf A x)]

/-- The manager the loading path ends with, given a complete written manager. -/
def reloaded (A : Arith) (x : Parts) (pg' : PipeGeom) : Mgr :=
  Mgr.mk (some x.f) (some x.gr) (some x.so) (some ⟨pg', x.rough, x.prc⟩) (some x.pt)
    (some ⟨x.p.maxHeight, x.b.D, A.half (A.dbl x.b.rb)⟩) (some x.p) (some (.arr x.loads))
    (some x.g.type) (some (reGeom A x.g)) (some ⟨x.d.vFlow, x.d.flowType, x.g.type⟩)

def after2 (A : Arith) (x : Parts) (m0 : Mgr) : Mgr :=
  { m0 with borehole := some ⟨x.p.maxHeight, x.b.D, A.half (A.dbl x.b.rb)⟩, sim := some x.p, loads := some (.arr x.loads), geomType := some x.g.type, geom := some (reGeom A x.g), design := some ⟨x.d.vFlow, x.d.flowType, x.g.type⟩ }

theorem stage2 (A : Arith) (x : Parts) (m0 : Mgr) (file : Json) (hs : GeomShape x.g) :
    ∃ env', execR A (fun _ => false) file (tailR 17) { m := m0, env := envOf A x, atRun := none, ran := [] }
    = .ok (0, WState.mk (after2 A x m0) env' (some (after2 A x m0)) ranAll) := by
  obtain ⟨env', h3⟩ := stage3 A { m0 with borehole := some ⟨x.p.maxHeight, x.b.D, A.half (A.dbl x.b.rb)⟩, sim := some x.p, loads := some (.arr x.loads) } x.g x.d x.p
      (("continue_if_design_unmet", .bool x.p.cont) :: ("max_bh", optJson x.p.maxBoreholes) :: envOf A x) file hs
      (by simp [envOf, List.lookup]) (by simp [envOf, List.lookup])
  refine ⟨env', ?_⟩
  rw [tailR17]
  r_open
  r_run [envOf, geoJ_max_height, geoJ_min_height, desJ_max_eft, desJ_min_eft, desJ_max_bh, desJ_cont, set_borehole_eq, set_loads_cli,
    set_sim_eq]
  simpa [envOf, after2] using h3

/-- The pipe object after re-reading: every radius goes through `half (dbl r)`. -/
def rePipe (A : Arith) : PipeGeom → PipeGeom
  | .utube rIn rOut s k => .utube (A.half (A.dbl rIn)) (A.half (A.dbl rOut)) s k
  | .coax a b c d ki ko => .coax (A.half (A.dbl a)) (A.half (A.dbl b)) (A.half (A.dbl c)) (A.half (A.dbl d)) ki ko

theorem set_pipe_type_str (A : Arith) (m : Mgr) (s : String) (t : PipeType) (h : PipeType.ofName (upper s) = some t) :
    applySetter A m "set_pipe_type" [("#0", .str s), ("throw", .bool false)] = .ok ({ m with pipeType := some t }, 0) := by
  s_simp [h]

theorem stage1 (A : Arith) (x : Parts) (file : Json) (hp : PipeOk x.pg x.pt) (hs : GeomShape x.g) :
    ∃ env', execR A (fun _ => false) file (tailR 12) { m := {}, env := envOf A x, atRun := none, ran := [] }
    = .ok (0, WState.mk (reloaded A x (rePipe A x.pg)) env' (some (reloaded A x (rePipe A x.pg))) ranAll) := by
  obtain ⟨f, gr, so, pg, rough, prc, pt, b, p, loads, gt, g, d⟩ := x
  rw [tailR12]
  cases pg with
  | utube rIn rOut s k =>
    cases pt with
    | coaxial => simp [PipeOk] at hp
    | singleUTube =>
      obtain ⟨env', h2⟩ := stage2 A ⟨f, gr, so, .utube rIn rOut s k, rough, prc, .singleUTube, b, p, loads, gt, g, d⟩
        (Mgr.mk (some f) (some gr) (some so) (some ⟨.utube (A.half (A.dbl rIn)) (A.half (A.dbl rOut)) s k, rough, prc⟩) (some .singleUTube) none none none none none none) file hs
      refine ⟨env', ?_⟩
      r_open
      r_run [envOf, pipeJ, PipeType.name, set_fluid_cli A _ _ f.ftype _ _ (fluid_ofName _), set_grout_eq, set_soil_eq,
        set_pipe_type_str A _ "SINGLEUTUBE" .singleUTube (by decide)]
      simp [subjectLabel, PipeType.name, List.lookup]
      r_run [envOf, pipeJ, PipeType.name, set_single_eq]
      simpa [envOf, after2, reloaded, rePipe, pipeJ, PipeType.name] using h2
    | doubleUTubeParallel =>
      obtain ⟨env', h2⟩ := stage2 A ⟨f, gr, so, .utube rIn rOut s k, rough, prc, .doubleUTubeParallel, b, p, loads, gt, g, d⟩
        (Mgr.mk (some f) (some gr) (some so) (some ⟨.utube (A.half (A.dbl rIn)) (A.half (A.dbl rOut)) s k, rough, prc⟩) (some .doubleUTubeParallel) none none none none none none) file hs
      refine ⟨env', ?_⟩
      r_open
      r_run [envOf, pipeJ, PipeType.name, set_fluid_cli A _ _ f.ftype _ _ (fluid_ofName _), set_grout_eq, set_soil_eq,
        set_pipe_type_str A _ "DOUBLEUTUBEPARALLEL" .doubleUTubeParallel (by decide)]
      simp [subjectLabel, PipeType.name, List.lookup]
      r_run [envOf, pipeJ, PipeType.name, set_dpar_eq]
      simpa [envOf, after2, reloaded, rePipe, pipeJ, PipeType.name] using h2
    | doubleUTubeSeries =>
      obtain ⟨env', h2⟩ := stage2 A ⟨f, gr, so, .utube rIn rOut s k, rough, prc, .doubleUTubeSeries, b, p, loads, gt, g, d⟩
        (Mgr.mk (some f) (some gr) (some so) (some ⟨.utube (A.half (A.dbl rIn)) (A.half (A.dbl rOut)) s k, rough, prc⟩) (some .doubleUTubeSeries) none none none none none none) file hs
      refine ⟨env', ?_⟩
      r_open
      r_run [envOf, pipeJ, PipeType.name, set_fluid_cli A _ _ f.ftype _ _ (fluid_ofName _), set_grout_eq, set_soil_eq,
        set_pipe_type_str A _ "DOUBLEUTUBESERIES" .doubleUTubeSeries (by decide)]
      simp [subjectLabel, PipeType.name, List.lookup]
      r_run [envOf, pipeJ, PipeType.name, set_dser_eq]
      simpa [envOf, after2, reloaded, rePipe, pipeJ, PipeType.name] using h2
  | coax ca cb cc cd ki ko =>
    cases pt with
    | coaxial =>
      obtain ⟨env', h2⟩ := stage2 A ⟨f, gr, so, .coax ca cb cc cd ki ko, rough, prc, .coaxial, b, p, loads, gt, g, d⟩
        (Mgr.mk (some f) (some gr) (some so) (some ⟨.coax (A.half (A.dbl ca)) (A.half (A.dbl cb)) (A.half (A.dbl cc)) (A.half (A.dbl cd)) ki ko, rough, prc⟩) (some .coaxial) none none none none none none) file hs
      refine ⟨env', ?_⟩
      r_open
      r_run [envOf, pipeJ, PipeType.name, set_fluid_cli A _ _ f.ftype _ _ (fluid_ofName _), set_grout_eq, set_soil_eq,
        set_pipe_type_str A _ "COAXIAL" .coaxial (by decide)]
      simp [subjectLabel, PipeType.name, List.lookup]
      r_run [envOf, pipeJ, PipeType.name, set_coax_eq]
      simpa [envOf, after2, reloaded, rePipe, pipeJ, PipeType.name] using h2
    | _ => simp [PipeOk] at hp

theorem worker_inputOf (A : Arith) (x : Parts) (hp : PipeOk x.pg x.pt) (hs : GeomShape x.g)
    (hv : validateInputFile (inputOf A x) = .ok 0) :
    ∃ env', worker A (fun _ => false) (inputOf A x)
      = .ok (0, WState.mk (reloaded A x (rePipe A x.pg)) env' (some (reloaded A x (rePipe A x.pg))) ranAll) := by
  obtain ⟨env', h1⟩ := stage1 A x (inputOf A x) hp hs
  refine ⟨env', ?_⟩
  unfold worker
  rw [tailR0]
  simp only [Gen.worker, List.take_succ_cons, List.take_zero, List.cons_append, List.nil_append]
  simp only [execR, hv]
  r_run [inputOf, fileOf]
  simpa [envOf, inputOf, fileOf] using h1


/-! ### API configurations: `build` in explicit form -/

/-- `x / 2.0 * 2.0 = x` and `x * 2.0 / 2.0 = x`: true of IEEE doubles unless the halving underflows or
    the doubling overflows. -/
structure Arith.Exact (A : Arith) : Prop where
  dbl_half : ∀ x, A.dbl (A.half x) = x
  half_dbl : ∀ x, A.half (A.dbl x) = x

theorem exactArith_exact : exactArith.Exact :=
  ⟨fun x => by simp [exactArith], fun x => by simp [exactArith]⟩

def pipeGeomOf (A : Arith) : PipeArgs → PipeGeom
  | .single a b s _ k _ => .utube (A.half a) (A.half b) s k
  | .doublePar a b s _ k _ => .utube (A.half a) (A.half b) s k
  | .doubleSer a b s _ k _ => .utube (A.half a) (A.half b) s k
  | .coaxial a b c d _ ki ko _ => .coax (A.half a) (A.half b) (A.half c) (A.half d) ki ko
def PipeArgs.rough : PipeArgs → Rat
  | .single _ _ _ r _ _ => r | .doublePar _ _ _ r _ _ => r | .doubleSer _ _ _ r _ _ => r | .coaxial _ _ _ _ r _ _ _ => r
def PipeArgs.rhoCp : PipeArgs → Rat
  | .single _ _ _ _ _ c => c | .doublePar _ _ _ _ _ c => c | .doubleSer _ _ _ _ _ c => c | .coaxial _ _ _ _ _ _ _ c => c
def PipeArgs.ptype : PipeArgs → PipeType
  | .single .. => .singleUTube | .doublePar .. => .doubleUTubeParallel | .doubleSer .. => .doubleUTubeSeries | .coaxial .. => .coaxial

def geomOf (A : Arith) : GeomArgs → Geom
  | .nearSquare b l => .nearSquare b l
  | .rectangle l w bmin bmax => .rectangle w l bmin bmax
  | .biRectangle l w bmin bx by' => .biRectangle w l bmin bx by'
  | .biZoned l w bmin bx by' => .biZoned w l bmin bx by'
  | .constrained bmin bx by' pb ng => .constrained bmin bx by' (jPolys pb) (jPolys ng)
  | .rowWise ratio maxSp minSp step maxRot minRot rotStep pb ng =>
      .rowWise ratio minSp maxSp step (A.toRad minRot) (A.toRad maxRot) rotStep (jPoly pb) (jPolys ng) minRot maxRot

/-- `geom_type` after the API calls: every geometry setter records it except the near-square one. -/
def geomTypeOf : GeomArgs → Option GeomType
  | .nearSquare .. => none
  | .rectangle .. => some .rectangle
  | .biRectangle .. => some .biRectangle
  | .biZoned .. => some .biZonedRectangle
  | .constrained .. => some .biRectangleConstrained
  | .rowWise .. => some .rowWise

def partsOf (A : Arith) (c : Config) (ft : FluidType) (fl : FlowCfg) : Parts :=
  Parts.mk ⟨ft, c.percent, c.temperature⟩ ⟨c.groutK, c.groutRhoCp⟩ ⟨c.soilK, c.soilRhoCp, c.soilT⟩
    (pipeGeomOf A c.pipe) c.pipe.rough c.pipe.rhoCp c.pipe.ptype ⟨c.nominalHeight, c.buriedDepth, A.half c.diameter⟩
    ⟨c.numMonths, c.maxEft, c.minEft, c.maxHeight, c.minHeight, c.maxBoreholes, c.cont⟩ (c.loads.map Json.num)
    (geomTypeOf c.geom) (geomOf A c.geom) ⟨c.flowRate, fl, (geomOf A c.geom).type⟩

/-- The shape the constrained geometry's constructor needs (it indexes `[0][0]`). -/
def GeomArgsShape : GeomArgs → Prop
  | .constrained _ _ _ pb ng => PolysShape pb ∧ PolysShape ng
  | _ => True

theorem set_design_api' (A : Arith) (m : Mgr) (fr : Rat) (s : String) (fl : FlowCfg) (h : FlowCfg.ofName (upper s) = some fl) :
    applySetter A m "set_design" [("flow_rate", .num fr), ("flow_type_str", .str s)]
      = match m.geom with
        | none => .error .other
        | some g => .ok ({ m with design := some ⟨fr, fl, g.type⟩ }, 0) := by
  cases hg : m.geom <;> s_simp [h, hg]

theorem build_eq (A : Arith) (c : Config) (ft : FluidType) (fl : FlowCfg)
    (hf : FluidType.ofName (upper c.fluidName) = some ft) (hfl : FlowCfg.ofName (upper c.flowType) = some fl)
    (hs : GeomArgsShape c.geom) :
    build A c = .ok (partsOf A c ft fl).mgr := by
  obtain ⟨fluidName, percent, temperature, groutK, groutRhoCp, soilK, soilRhoCp, soilT, pipe, nominalHeight, buriedDepth, diameter,
    numMonths, maxEft, minEft, maxHeight, minHeight, maxBoreholes, cont, loads, geom, flowRate, flowType⟩ := c
  simp only at hf hfl hs
  cases geom with
  | constrained bmin bx by' pb ng =>
    have w1 := wrapIfFlat_polys _ hs.1
    have w2 := wrapIfFlat_polys _ hs.2
    cases pipe <;>
    simp [build, Config.calls, runCalls, PipeArgs.call, GeomArgs.call, set_fluid_api A _ _ ft _ _ hf, set_grout_eq, set_soil_eq,
      set_single_eq, set_dpar_eq, set_dser_eq, set_coax_eq, set_borehole_eq, set_sim_eq, set_loads_api, jNums,
      set_design_api' A _ _ _ fl hfl, set_constrained_eq A _ _ _ _ _ _ _ _ w1 w2,
      partsOf, Parts.mgr, pipeGeomOf, PipeArgs.rough, PipeArgs.rhoCp, PipeArgs.ptype, geomOf, geomTypeOf, Geom.type]
  | _ =>
    cases pipe <;>
    simp [build, Config.calls, runCalls, PipeArgs.call, GeomArgs.call, set_fluid_api A _ _ ft _ _ hf, set_grout_eq, set_soil_eq,
      set_single_eq, set_dpar_eq, set_dser_eq, set_coax_eq, set_borehole_eq, set_sim_eq, set_loads_api, set_near_square_eq,
      set_rectangle_eq, set_bi_rectangle_eq, set_bi_zoned_eq, set_rowwise_eq, jNums,
      set_design_api' A _ _ _ fl hfl,
      partsOf, Parts.mgr, pipeGeomOf, PipeArgs.rough, PipeArgs.rhoCp, PipeArgs.ptype, geomOf, geomTypeOf, Geom.type]

def PipeArgsValid : PipeArgs → Prop
  | .single a b s r k c => 0 ≤ a ∧ 0 ≤ b ∧ 0 ≤ s ∧ 0 ≤ r ∧ 0 ≤ k ∧ 0 ≤ c
  | .doublePar a b s r k c => 0 ≤ a ∧ 0 ≤ b ∧ 0 ≤ s ∧ 0 ≤ r ∧ 0 ≤ k ∧ 0 ≤ c
  | .doubleSer a b s r k c => 0 ≤ a ∧ 0 ≤ b ∧ 0 ≤ s ∧ 0 ≤ r ∧ 0 ≤ k ∧ 0 ≤ c
  | .coaxial a b c d r ki ko rc => 0 ≤ a ∧ 0 ≤ b ∧ 0 ≤ c ∧ 0 ≤ d ∧ 0 ≤ r ∧ 0 ≤ ki ∧ 0 ≤ ko ∧ 0 ≤ rc

def GeomArgsValid : GeomArgs → Prop
  | .nearSquare b l => 0 ≤ b ∧ 0 ≤ l
  | .rectangle l w bmin bmax => 0 ≤ l ∧ 0 ≤ w ∧ 0 ≤ bmin ∧ 0 ≤ bmax
  | .biRectangle l w bmin bx by' => 0 ≤ l ∧ 0 ≤ w ∧ 0 ≤ bmin ∧ 0 ≤ bx ∧ 0 ≤ by'
  | .biZoned l w bmin bx by' => 0 ≤ l ∧ 0 ≤ w ∧ 0 ≤ bmin ∧ 0 ≤ bx ∧ 0 ≤ by'
  | .constrained bmin bx by' pb ng => 0 ≤ bmin ∧ 0 ≤ bx ∧ 0 ≤ by' ∧ PolysOk pb ∧ PolysOk ng ∧ PolysShape pb ∧ PolysShape ng
  | .rowWise ratio maxSp minSp step maxRot minRot _ pb ng =>
      (∀ r, ratio = some r → 0 ≤ r) ∧ 0 ≤ maxSp ∧ 0 ≤ minSp ∧ 0 ≤ step ∧ -90 ≤ maxRot ∧ maxRot ≤ 90 ∧ -90 ≤ minRot ∧ minRot ≤ 90 ∧
      PolyOk pb ∧ PolysOk ng

/-- The documented domain of the API arguments (what "a configuration the API accepts" means here:
    the setters themselves check nothing but the three names). -/
structure ApiValid (c : Config) : Prop where
  fluid : ∃ ft, FluidType.ofName (upper c.fluidName) = some ft
  flowType : ∃ fl, FlowCfg.ofName (upper c.flowType) = some fl
  percent0 : 0 ≤ c.percent
  percent60 : c.percent ≤ 60
  groutK : 0 ≤ c.groutK
  groutRc : 0 ≤ c.groutRhoCp
  soilK : 0 ≤ c.soilK
  soilRc : 0 ≤ c.soilRhoCp
  pipe : PipeArgsValid c.pipe
  depth : 0 ≤ c.buriedDepth
  months : 1 ≤ c.numMonths
  maxH : 0 ≤ c.maxHeight
  minH : 0 ≤ c.minHeight
  geom : GeomArgsValid c.geom
  flow : 0 ≤ c.flowRate
  loads : c.loads.length = 8760

theorem ApiValid.shape {c : Config} (h : ApiValid c) : GeomArgsShape c.geom := by
  have := h.geom
  cases hg : c.geom <;> simp_all [GeomArgsShape, GeomArgsValid]

theorem stateValid_of_api (A : Arith) (hA : A.Exact) (c : Config) (h : ApiValid c) (ft : FluidType) (fl : FlowCfg) :
    StateValid A (partsOf A c ft fl) := by
  have hp := h.pipe
  have hg := h.geom
  refine ⟨?_, h.percent0, h.percent60, h.groutK, h.groutRc, h.soilK, h.soilRc, ?_, h.depth, h.months, h.maxH, h.minH, ?_, h.flow,
    ⟨c.loads, rfl, h.loads⟩⟩
  · cases hc : c.pipe <;> simp [partsOf, pipeGeomOf, PipeArgs.ptype, PipeOk, hc]
  · cases hc : c.pipe <;> simp_all [partsOf, pipeGeomOf, PipeArgs.rough, PipeArgs.rhoCp, PipeValid, PipeArgsValid, hA.dbl_half]
  · cases hc : c.geom <;> simp_all [partsOf, geomOf, GeomValid, GeomArgsValid]
    · exact ⟨⟨_, rfl, hg.2.2.2.1⟩, ⟨_, rfl, hg.2.2.2.2.1⟩⟩
    · exact ⟨⟨_, rfl, hg.2.2.2.2.2.2.2.2.1⟩, ⟨_, rfl, hg.2.2.2.2.2.2.2.2.2⟩⟩

theorem geomShape_of_api (A : Arith) (c : Config) (h : ApiValid c) : GeomShape (geomOf A c.geom) := by
  have hg := h.geom
  cases hc : c.geom <;> simp_all [geomOf, GeomShape, GeomArgsValid]
  exact ⟨⟨_, rfl, hg.2.2.2.2.2.1⟩, ⟨_, rfl, hg.2.2.2.2.2.2⟩⟩


/-! ### Key tables: what the loader reads against what the writer writes -/

def argKeysFrom (v : String) (args : List RArg) : List String :=
  args.filterMap fun a => if a.2.1 = "key" ∧ a.2.2.1 = v then some a.2.2.2 else none

/-- Keys read as `v["k"]` (a missing one raises KeyError) by the setter calls in simple statements. -/
def keysReadS (v : String) : List SOp → List String
  | [] => []
  | .call _ args :: rest => argKeysFrom v args ++ keysReadS v rest
  | _ :: rest => keysReadS v rest

/-- The same for the unconditional statements of the worker (chains excluded). -/
def keysReadTop (v : String) : List ROp → List String
  | [] => []
  | .simple (.call _ args) :: rest => argKeysFrom v args ++ keysReadTop v rest
  | .callGuard (.call _ args) _ :: rest => argKeysFrom v args ++ keysReadTop v rest
  | _ :: rest => keysReadTop v rest

def chainOf (subject : String) : List ROp → List (String × List SOp)
  | [] => []
  | .chain s branches _ _ :: rest => if s = subject then branches else chainOf subject rest
  | _ :: rest => chainOf subject rest

def rowsOfClass (cls : String) : List String := ((Gen.toInputOf.lookup cls).getD []).filterMap fun r => if r.2.2 = "" then some r.1 else none

/-- Keys `write_input_file` adds unconditionally to the dict variable `var` outside chains. -/
def extraKeys (var : String) : List WOp → List String
  | [] => []
  | .set v k _ c :: rest => (if v = var ∧ c = "" then [k] else []) ++ extraKeys var rest
  | .initLit v rows :: rest => (if v = var then rows.map (·.1) else []) ++ extraKeys var rest
  | _ :: rest => extraKeys var rest

/-- Keys set in the chain branches that apply to a pipe type (evaluated with the model's conditions). -/
def chainKeys (pt : PipeType) : List WOp → List String
  | [] => []
  | .chain branches _ :: rest =>
      (match pickBranch (evalMgrCond { pipeType := some pt }) branches with
       | .ok (some rows) => rows.map (fun r => r.2.1)
       | _ => []) ++ chainKeys pt rest
  | _ :: rest => chainKeys pt rest

def GeomType.className : GeomType → String
  | .nearSquare => "GeometricConstraintsNearSquare" | .rectangle => "GeometricConstraintsRectangle"
  | .biRectangle => "GeometricConstraintsBiRectangle" | .biZonedRectangle => "GeometricConstraintsBiZoned"
  | .biRectangleConstrained => "GeometricConstraintsBiRectangleConstrained" | .rowWise => "GeometricConstraintsRowWise"

def subsetB (a b : List String) : Bool := a.all (fun k => b.contains k)

/-- geometry branch of the loader ⊆ keys the matching geometry class writes (plus max/min height) -/
def geomKeysOk : Bool :=
  GeomType.all.all fun t =>
    subsetB (keysReadS "constraint_props" (((chainOf "ghe.geom_type" Gen.worker).lookup ("DesignGeomType." ++ t.name)).getD [])
              ++ keysReadTop "constraint_props" Gen.worker)
            (rowsOfClass t.className ++ extraKeys "d_geo" Gen.writeInputFile)

def pipeKeysOk : Bool :=
  PipeType.all.all fun t =>
    subsetB (keysReadS "pipe_props" (((chainOf "ghe.pipe_type" Gen.worker).lookup ("BHPipeType." ++ t.name)).getD [])
              ++ keysReadTop "pipe_props" Gen.worker)
            (extraKeys "d_pipe" Gen.writeInputFile ++ chainKeys t Gen.writeInputFile)

def fixedKeysOk : Bool :=
  subsetB (keysReadTop "borehole_props" Gen.worker) (rowsOfClass "GHEBorehole") &&
  subsetB (keysReadTop "sim_props" Gen.worker) (rowsOfClass "SimulationParameters") &&
  subsetB (keysReadTop "design_props" Gen.worker) (rowsOfClass "DesignBase" ++ extraKeys "d_des" Gen.writeInputFile)

/-- `set_x(**section)`: every written key is a parameter, every required parameter is written. -/
def splatOk (setter cls : String) : Bool :=
  let params := ((Gen.setterSigs.lookup setter).getD []).map (·.1)
  let opt := (Gen.setterOptional.lookup setter).getD []
  subsetB (rowsOfClass cls) params && subsetB (params.filter (fun q => !opt.contains q)) (rowsOfClass cls)

end GHEVerif.Config

namespace GHEVerif.Cli
open GHEVerif GHEVerif.Gen GHEVerif.Config
set_option linter.unusedSimpArgs false

/-! ### C18: validation verdict, exit status -/

/-- The argument `validate_input_file` hands to a validator. -/
def sectionArg (inst : Json) (v : ValidatorSpec) : Py Json := if v.sect = "" then .ok inst else pyGetItem inst v.sect

theorem validateFrom_zero_iff (inst : Json) (vs : List ValidatorSpec) :
    validateFrom inst vs = .ok 0 ↔ ∀ v ∈ vs, ∃ a, sectionArg inst v = .ok a ∧ runValidator v a = .ok 0 := by
  induction vs with
  | nil => simp [validateFrom]
  | cons v rest ih =>
    simp only [validateFrom, List.mem_cons, forall_eq_or_imp]
    rw [← ih]
    unfold sectionArg
    cases h1 : (if v.sect = "" then Except.ok inst else pyGetItem inst v.sect) with
    | error e => simp
    | ok a =>
      cases h2 : runValidator v a with
      | error e => simp [h2]
      | ok n =>
        cases h3 : validateFrom inst rest with
        | error e => simp [h2, h3]
        | ok m =>
          simp only [h2, h3, Except.ok.injEq, exists_eq_left']
          constructor
          · intro h; have : n = 0 ∧ m = 0 := by omega
            simp [this.1, this.2]
          · intro h; obtain ⟨h1, h2⟩ := h; simp_all

def opNoZero : ROp → Bool
  | .validateGuard rc => rc ≠ 0
  | .callGuard _ rc => rc ≠ 0
  | .chain _ _ _ elseRet => elseRet ≠ some 0
  | .ret code => code ≠ 0
  | _ => true

theorem execR_prefix (A : Arith) (r : String → Bool) (file : Json) (pre post : List ROp) (hpre : pre.all opNoZero = true) :
    ∀ (s s' : WState), execR A r file (pre ++ post) s = .ok (0, s') → ∃ s1, execR A r file post s1 = .ok (0, s') := by
  induction pre with
  | nil => intro s s' h; exact ⟨s, h⟩
  | cons op pre ih =>
    simp only [List.all_cons, Bool.and_eq_true] at hpre
    obtain ⟨hop, hrest⟩ := hpre
    intro s s' h
    cases op with
    | simple o =>
      simp only [List.cons_append, execR] at h
      split at h
      · cases h
      · exact ih hrest _ _ h
    | validateGuard rc =>
      simp only [List.cons_append, execR] at h
      split at h
      · cases h
      · split at h
        · simp [opNoZero] at hop; simp at h; exact absurd h.1 hop
        · exact ih hrest _ _ h
    | versionCheck =>
      simp only [List.cons_append, execR] at h
      exact ih hrest _ _ h
    | callGuard o rc =>
      simp only [List.cons_append, execR] at h
      split at h
      · cases h
      · split at h
        · simp [opNoZero] at hop; simp at h; exact absurd h.1 hop
        · exact ih hrest _ _ h
    | chain subject branches elseOps elseRet =>
      simp only [List.cons_append, execR] at h
      split at h
      · cases h
      · split at h
        · split at h
          · cases h
          · exact ih hrest _ _ h
        · split at h
          · cases h
          · split at h
            · simp [opNoZero] at hop; simp at h; exact absurd (by rw [h.1]) hop
            · exact ih hrest _ _ h
    | run what =>
      simp only [List.cons_append, execR] at h
      split at h
      · cases h
      · exact ih hrest _ _ h
    | ret code =>
      simp only [List.cons_append, execR] at h
      simp [opNoZero] at hop; simp at h; exact absurd h.1 hop

theorem worker_split : Gen.worker = Gen.worker.take 25 ++ [.run "find_design", .run "prepare_results", .run "write_output_files", .ret 0] := by
  simp [Gen.worker]

theorem worker_prefix_noZero : (Gen.worker.take 25).all opNoZero = true := by decide

/-- The worker returns 0 only after `write_output_files` ran, with no step raising. -/
theorem worker_zero_outputs (A : Arith) (r : String → Bool) (file : Json) (s : WState)
    (h : worker A r file = .ok (0, s)) :
    s.ran.contains "write_output_files" = true ∧ r "find_design" = false ∧ r "prepare_results" = false ∧ r "write_output_files" = false := by
  unfold Config.worker at h
  rw [worker_split] at h
  obtain ⟨s1, h1⟩ := execR_prefix A r file _ _ worker_prefix_noZero _ _ h
  simp only [execR] at h1
  by_cases a : r "find_design" = true
  · simp [a] at h1
  · by_cases b : r "prepare_results" = true
    · simp [a, b] at h1
    · by_cases c : r "write_output_files" = true
      · simp [a, b, c] at h1
      · simp [a, b, c] at h1
        subst h1
        simp_all

/-- Every non-zero return of the worker is 1 … and a failing validation is the first of them. -/
theorem worker_invalid (A : Arith) (r : String → Bool) (file : Json) (n : Nat) (hv : validateInputFile file = .ok n) (hn : n ≠ 0) :
    ∃ s, worker A r file = .ok (1, s) := by
  refine ⟨{ env := [("inputs", file)] }, ?_⟩
  unfold Config.worker
  simp [Gen.worker, execR, hv, hn]

theorem worker_validation_raises (A : Arith) (r : String → Bool) (file : Json) (e : PyErr) (hv : validateInputFile file = .error e) :
    worker A r file = .error e := by
  unfold Config.worker
  simp [Gen.worker, execR, hv]

theorem workerFile_zero_outputs (w : World) (s : WState) (h : workerFile w = .ok (0, s)) :
    s.ran.contains "write_output_files" = true := by
  unfold workerFile onFile at h
  cases hf : w.file with
  | none => simp [hf] at h
  | some j => simp [hf] at h; exact (worker_zero_outputs _ _ _ _ h).1

syntax "cli_simp" (" [" Lean.Parser.Tactic.simpLemma,* "]")? : tactic
macro_rules
  | `(tactic| cli_simp) => `(tactic| cli_simp [])
  | `(tactic| cli_simp [$ls,*]) => `(tactic|
      simp [processExit, run, callback, Gen.cliPaths, pickPath, guardsHold, evalGuard, exitOf, isWorkerCall, convertTruthy, $ls,*])

theorem callback_exit_zero_iff (vo : Bool) (cv : Option String) (od : Bool) (w : World) :
    processExit (.call vo cv od) w = 0 ↔
      (vo = true ∧ validateFile w = .ok 0) ∨
      (vo = false ∧ cv = some "IDF" ∧ w.idfRaises = false) ∨
      (vo = false ∧ convertTruthy cv = false ∧ od = true ∧ ∃ s, workerFile w = .ok (0, s)) := by
  cases vo with
  | true =>
    cases hv : validateFile w with
    | error e => cli_simp [hv]
    | ok n =>
      by_cases hn : n = 0
      · subst hn; cli_simp [hv]
      · cli_simp [hv, hn]
  | false =>
    cases cv with
    | none =>
      cases od with
      | false => cli_simp
      | true =>
        cases hw : workerFile w with
        | error e => cli_simp [hw]
        | ok r => obtain ⟨rc, s⟩ := r; cli_simp [hw]
    | some c =>
      by_cases h0 : c = ""
      · subst h0
        cases od with
        | false => cli_simp
        | true =>
          cases hw : workerFile w with
          | error e => cli_simp [hw]
          | ok r => obtain ⟨rc, s⟩ := r; cli_simp [hw]
      · by_cases hi : c = "IDF"
        · subst hi
          cases hr : w.idfRaises <;> cli_simp [hr]
        · cli_simp [h0, hi]

theorem lookup_dictSet (kv : Dict) (k : String) (v : Json) : (dictSet kv k v).lookup k = some v := by
  induction kv with
  | nil => simp [dictSet, List.lookup]
  | cons p rest ih =>
    obtain ⟨k', v'⟩ := p
    by_cases h : k' = k
    · subst h; simp [dictSet, List.lookup]
    · have h' : (k == k') = false := by simp [Ne.symm h]
      simp [dictSet, h, List.lookup, h', ih]

theorem dictSet_dictSet (kv : Dict) (k : String) (a b : Json) : dictSet (dictSet kv k a) k b = dictSet kv k b := by
  induction kv with
  | nil => simp [dictSet]
  | cons p rest ih =>
    obtain ⟨k', v'⟩ := p
    by_cases h : k' = k
    · subst h; simp [dictSet]
    · simp [dictSet, h, ih]

/-- A validator that upper-cases a name sees only the upper-cased name. -/
theorem runValidator_case (v : ValidatorSpec) (kv : Dict) (s s' : String) (hk : v.upperKey ≠ "") (h : upper s = upper s') :
    runValidator v (.obj (dictSet kv v.upperKey (.str s))) = runValidator v (.obj (dictSet kv v.upperKey (.str s'))) := by
  unfold runValidator
  simp [hk, pyContains, pyGetItem, lookup_dictSet, pyStrUpper, dictSet_dictSet, h]

theorem workerFile_zero_valid (w : World) (s : WState) (h : workerFile w = .ok (0, s)) : validateFile w = .ok 0 := by
  unfold workerFile onFile at h
  unfold validateFile onFile
  cases hf : w.file with
  | none => simp [hf] at h
  | some j =>
    simp only [hf] at h ⊢
    cases hv : validateInputFile j with
    | error e => rw [worker_validation_raises _ _ _ e hv] at h; cases h
    | ok n =>
      by_cases hn : n = 0
      · rw [hn]
      · obtain ⟨s1, h1⟩ := worker_invalid exactArith w.raisesAt j n hv hn
        rw [h1] at h; cases h


end GHEVerif.Cli
