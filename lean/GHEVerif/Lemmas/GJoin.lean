/- Helper lemmas for C11 (combined g-function). -/
import GHEVerif.Model.GJoin
import Mathlib.Tactic.Linarith
import Mathlib.Tactic.Ring
import Mathlib.Tactic.FieldSimp

namespace GHEVerif.GJoin
open GHEVerif

/-! ### max / min of a list -/

theorem ratMax_ge_left (a b : Rat) : a ≤ ratMax a b := by
  unfold ratMax; split <;> linarith
theorem ratMax_ge_right (a b : Rat) : b ≤ ratMax a b := by
  unfold ratMax; split <;> linarith
theorem ratMax_cases (a b : Rat) : ratMax a b = a ∨ ratMax a b = b := by
  unfold ratMax; split <;> simp
theorem ratMin_le_left (a b : Rat) : ratMin a b ≤ a := by
  unfold ratMin; split <;> linarith
theorem ratMin_le_right (a b : Rat) : ratMin a b ≤ b := by
  unfold ratMin; split <;> linarith
theorem ratMin_cases (a b : Rat) : ratMin a b = a ∨ ratMin a b = b := by
  unfold ratMin; split <;> simp

theorem foldl_ratMax_ge (xs : List Rat) : ∀ x, x ≤ xs.foldl ratMax x ∧ ∀ y ∈ xs, y ≤ xs.foldl ratMax x := by
  induction xs with
  | nil => intro x; simp
  | cons a xs ih =>
    intro x
    obtain ⟨h1, h2⟩ := ih (ratMax x a)
    refine ⟨le_trans (ratMax_ge_left x a) h1, ?_⟩
    intro y hy
    rcases List.mem_cons.mp hy with rfl | hy
    · exact le_trans (ratMax_ge_right x y) h1
    · exact h2 y hy

theorem foldl_ratMax_mem (xs : List Rat) : ∀ x, xs.foldl ratMax x = x ∨ xs.foldl ratMax x ∈ xs := by
  induction xs with
  | nil => intro x; simp
  | cons a xs ih =>
    intro x
    rcases ih (ratMax x a) with h | h
    · rcases ratMax_cases x a with e | e
      · left; show List.foldl ratMax (ratMax x a) xs = x; rw [h, e]
      · right; show List.foldl ratMax (ratMax x a) xs ∈ a :: xs; rw [h, e]; simp
    · right; show List.foldl ratMax (ratMax x a) xs ∈ a :: xs; exact List.mem_cons_of_mem _ h

theorem foldl_ratMin_le (xs : List Rat) : ∀ x, xs.foldl ratMin x ≤ x ∧ ∀ y ∈ xs, xs.foldl ratMin x ≤ y := by
  induction xs with
  | nil => intro x; simp
  | cons a xs ih =>
    intro x
    obtain ⟨h1, h2⟩ := ih (ratMin x a)
    refine ⟨le_trans h1 (ratMin_le_left x a), ?_⟩
    intro y hy
    rcases List.mem_cons.mp hy with rfl | hy
    · exact le_trans h1 (ratMin_le_right x y)
    · exact h2 y hy

theorem foldl_ratMin_mem (xs : List Rat) : ∀ x, xs.foldl ratMin x = x ∨ xs.foldl ratMin x ∈ xs := by
  induction xs with
  | nil => intro x; simp
  | cons a xs ih =>
    intro x
    rcases ih (ratMin x a) with h | h
    · rcases ratMin_cases x a with e | e
      · left; show List.foldl ratMin (ratMin x a) xs = x; rw [h, e]
      · right; show List.foldl ratMin (ratMin x a) xs ∈ a :: xs; rw [h, e]; simp
    · right; show List.foldl ratMin (ratMin x a) xs ∈ a :: xs; exact List.mem_cons_of_mem _ h

/-- `max(l)` of a non-empty list is an upper bound that is attained. -/
theorem pyMaxL_spec (l : List Rat) (hne : l ≠ []) :
    ∃ mx, pyMaxL l = .ok mx ∧ mx ∈ l ∧ ∀ y ∈ l, y ≤ mx := by
  cases l with
  | nil => exact absurd rfl hne
  | cons a xs =>
    refine ⟨xs.foldl ratMax a, rfl, ?_, ?_⟩
    · rcases foldl_ratMax_mem xs a with h | h
      · rw [h]; simp
      · exact List.mem_cons_of_mem _ h
    · intro y hy
      obtain ⟨h1, h2⟩ := foldl_ratMax_ge xs a
      rcases List.mem_cons.mp hy with rfl | hy
      · exact h1
      · exact h2 y hy

theorem pyMinL_spec (l : List Rat) (hne : l ≠ []) :
    ∃ mn, pyMinL l = .ok mn ∧ mn ∈ l ∧ ∀ y ∈ l, mn ≤ y := by
  cases l with
  | nil => exact absurd rfl hne
  | cons a xs =>
    refine ⟨xs.foldl ratMin a, rfl, ?_, ?_⟩
    · rcases foldl_ratMin_mem xs a with h | h
      · rw [h]; simp
      · exact List.mem_cons_of_mem _ h
    · intro y hy
      obtain ⟨h1, h2⟩ := foldl_ratMin_le xs a
      rcases List.mem_cons.mp hy with rfl | hy
      · exact h1
      · exact h2 y hy

/-- The minimum of a strictly increasing list is its head. -/
theorem pyMinL_sorted (m : Rat) (rest : List Rat) (hs : (m :: rest).Pairwise (· < ·)) :
    pyMinL (m :: rest) = .ok m := by
  obtain ⟨mn, h, hmem, hle⟩ := pyMinL_spec (m :: rest) (by simp)
  rw [h]
  have h1 : mn ≤ m := hle m (by simp)
  rcases List.mem_cons.mp hmem with e | e
  · rw [e]
  · have := List.rel_of_pairwise_cons hs e
    exact absurd h1 (not_le.mpr this)

/-! ### the scan of `combine_sts_lts` -/

theorem scanOp_eval (v m : Rat) : Gen.GJoinConsts.scanOp.eval v m = decide (v ≤ m) := rfl
theorem branchOp_eval (a b : Rat) : Gen.GJoinConsts.branchOp.eval a b = decide (a < b) := rfl

/-- The scan stops at the first element above `m`. -/
theorem scanStop_spec (m : Rat) (l : List Rat) :
    ∀ k, (∃ x ∈ l, m < x) →
      ∃ j, scanStop m l k = .ok (k + j) ∧ j < l.length ∧ (∀ x ∈ l.take j, x ≤ m) ∧
        ∃ y, l[j]? = some y ∧ m < y := by
  induction l with
  | nil => intro k h; obtain ⟨x, hx, _⟩ := h; simp at hx
  | cons a l ih =>
    intro k h
    unfold scanStop
    rw [scanOp_eval]
    by_cases ha : a ≤ m
    · simp only [ha, decide_true, if_true]
      have h' : ∃ x ∈ l, m < x := by
        obtain ⟨x, hx, hmx⟩ := h
        rcases List.mem_cons.mp hx with rfl | hx
        · exact absurd ha (not_le.mpr hmx)
        · exact ⟨x, hx, hmx⟩
      obtain ⟨j, e, hj, ht, y, hy, hmy⟩ := ih (k + 1) h'
      refine ⟨j + 1, by rw [e]; congr 1; omega, by simp; omega, ?_, y, by simpa using hy, hmy⟩
      intro x hx
      rw [List.take_succ_cons] at hx
      rcases List.mem_cons.mp hx with rfl | hx
      · exact ha
      · exact ht x hx
    · simp only [ha, decide_false]
      exact ⟨0, by simp, by simp, by simp, a, by simp, not_le.mp ha⟩

/-- If nothing is above `m` the scan runs off the end: `IndexError`. -/
theorem scanStop_all_le (m : Rat) (l : List Rat) : ∀ k, (∀ x ∈ l, x ≤ m) → scanStop m l k = .error .indexError := by
  induction l with
  | nil => intro k _; rfl
  | cons a l ih =>
    intro k h
    unfold scanStop
    rw [scanOp_eval]
    have ha : a ≤ m := h a (by simp)
    simp only [ha, decide_true, if_true]
    exact ih (k + 1) (fun x hx => h x (List.mem_cons_of_mem _ hx))

/-! ### sorting -/

theorem zip_pairwise_fst {R : Rat → Rat → Prop} (t g : List Rat) (hlen : t.length ≤ g.length)
    (h : t.Pairwise R) : (t.zip g).Pairwise (fun a b => R a.1 b.1) := by
  rw [← List.pairwise_map (f := Prod.fst) (R := R), List.map_fst_zip hlen]; exact h

/-- `interp1d` leaves an already increasing table as it is. -/
theorem sortPairs_of_sorted (l : List (Rat × Rat)) (h : l.Pairwise (fun a b => a.1 < b.1)) :
    sortPairs l = l := by
  unfold sortPairs
  apply List.mergeSort_of_pairwise
  exact h.imp (fun {a b} hab => by simpa using le_of_lt hab)

theorem sortPairs_perm (l : List (Rat × Rat)) : (sortPairs l).Perm l := List.mergeSort_perm _ _

theorem sortPairs_sorted (l : List (Rat × Rat)) : (sortPairs l).Pairwise (fun a b => a.1 ≤ b.1) := by
  have := List.pairwise_mergeSort (le := fun (a b : Rat × Rat) => decide (a.1 ≤ b.1))
    (fun a b c hab hbc => by simp at *; exact le_trans hab hbc)
    (fun a b => by simp; exact le_total _ _) l
  exact this.imp (fun {a b} h => by simpa using h)

/-- Distinct abscissae: the sorted table is strictly increasing. -/
theorem sortPairs_strict (l : List (Rat × Rat)) (hd : (l.map Prod.fst).Pairwise (· ≠ ·)) :
    (sortPairs l).Pairwise (fun a b => a.1 < b.1) := by
  have hp := sortPairs_perm l
  have hd' : (sortPairs l).Pairwise (fun a b => a.1 ≠ b.1) := by
    rw [List.pairwise_map] at hd
    exact (hp.pairwise_iff (fun {x y} h => Ne.symm h)).mpr hd
  have hs := sortPairs_sorted l
  exact (hs.and hd').imp (fun {a b} h => lt_of_le_of_ne h.1 h.2)

/-! ### piecewise-linear evaluation -/

theorem linSeg_left (x0 y0 x1 y1 : Rat) : linSeg x0 y0 x1 y1 x0 = y0 := by
  unfold linSeg; simp

theorem linSeg_right (x0 y0 x1 y1 : Rat) (h : x0 ≠ x1) : linSeg x0 y0 x1 y1 x1 = y1 := by
  unfold linSeg
  have : x1 - x0 ≠ 0 := sub_ne_zero.mpr (Ne.symm h)
  field_simp
  ring

/-- On a strictly increasing table the piecewise-linear interpolant reproduces every node. -/
theorem linEval_at_node : ∀ (nodes : List (Rat × Rat)), nodes.Pairwise (fun a b => a.1 < b.1) →
    ∀ p ∈ nodes, linEval nodes p.1 = p.2 := by
  intro nodes
  induction nodes with
  | nil => intro _ p hp; simp at hp
  | cons a rest ih =>
    intro hs p hp
    match rest, ih, hs, hp with
    | [], _, _, hp =>
      simp at hp; subst hp; obtain ⟨x, y⟩ := p; simp [linEval]
    | [b], _, hs, hp =>
      obtain ⟨x0, y0⟩ := a; obtain ⟨x1, y1⟩ := b
      have hlt : x0 < x1 := by simpa using hs
      simp only [List.mem_cons, List.not_mem_nil, or_false] at hp
      rcases hp with rfl | rfl
      · simp [linEval, linSeg_left]
      · simp [linEval, linSeg_right _ _ _ _ (ne_of_lt hlt)]
    | b :: c :: rest', ih, hs, hp =>
      obtain ⟨x0, y0⟩ := a; obtain ⟨x1, y1⟩ := b
      have hlt : x0 < x1 := List.rel_of_pairwise_cons hs (a' := (x1, y1)) (by simp)
      have hs' := (List.pairwise_cons.mp hs).2
      rcases List.mem_cons.mp hp with rfl | hp
      · simp [linEval, le_of_lt hlt, linSeg_left]
      · rcases List.mem_cons.mp hp with rfl | hp'
        · simp [linEval, linSeg_right _ _ _ _ (ne_of_lt hlt)]
        · have h1 : x1 < p.1 := List.rel_of_pairwise_cons hs' hp'
          have : ¬ p.1 ≤ x1 := not_le.mpr h1
          simp only [linEval, this, if_false]
          exact ih hs' p hp

/-- A node of a strictly increasing table is inside the table's range. -/
theorem outOfBounds_node (nodes : List (Rat × Rat)) (hs : nodes.Pairwise (fun a b => a.1 < b.1))
    (p : Rat × Rat) (hp : p ∈ nodes) : outOfBounds nodes p.1 = false := by
  unfold outOfBounds
  cases nodes with
  | nil => simp at hp
  | cons a rest =>
    have hne : (a :: rest) ≠ [] := by simp
    obtain ⟨ys, hys⟩ : ∃ ys, a :: rest = ys ++ [(a :: rest).getLast hne] :=
      ⟨_, (List.dropLast_append_getLast hne).symm⟩
    have hl : (a :: rest).getLast? = some ((a :: rest).getLast hne) := List.getLast?_eq_some_getLast hne
    rw [hl]
    simp only [List.head?_cons, Bool.or_eq_false_iff, decide_eq_false_iff_not, not_lt]
    constructor
    · rcases List.mem_cons.mp hp with rfl | h
      · exact le_refl _
      · exact le_of_lt (List.rel_of_pairwise_cons hs h)
    · rw [hys] at hs hp
      rcases List.mem_append.mp hp with h | h
      · exact le_of_lt ((List.pairwise_append.mp hs).2.2 p h _ (by simp))
      · simp at h; rw [h]

/-! ### Lagrange interpolation -/

theorem lagBasis_zero (xi : Rat) (others : List Rat) (q : Rat) (h : q ∈ others) : lagBasis xi others q = 0 := by
  induction others with
  | nil => simp at h
  | cons a l ih =>
    unfold lagBasis
    simp only [List.foldr_cons]
    rcases List.mem_cons.mp h with rfl | h
    · simp
    · have := ih h
      unfold lagBasis at this
      rw [this]; simp

theorem lagBasis_one (xi : Rat) (others : List Rat) (h : ∀ xj ∈ others, xj ≠ xi) : lagBasis xi others xi = 1 := by
  induction others with
  | nil => simp [lagBasis]
  | cons a l ih =>
    unfold lagBasis
    simp only [List.foldr_cons]
    have ha : xi - a ≠ 0 := sub_ne_zero.mpr (Ne.symm (h a (by simp)))
    have := ih (fun xj hxj => h xj (List.mem_cons_of_mem _ hxj))
    unfold lagBasis at this
    rw [this, div_self ha]; simp

/-- Every remaining term vanishes once `q` is among the abscissae already passed. -/
theorem lagAux_zero (post : List (Rat × Rat)) : ∀ (pre : List (Rat × Rat)) (q : Rat),
    q ∈ pre.map Prod.fst → lagAux pre post q = 0 := by
  induction post with
  | nil => intro pre q _; simp [lagAux]
  | cons a post ih =>
    intro pre q hq
    obtain ⟨x, y⟩ := a
    unfold lagAux
    rw [lagBasis_zero x _ q (by simp only [List.map_append, List.mem_append]; exact Or.inl hq)]
    rw [ih (pre ++ [(x, y)]) q (by simp only [List.map_append, List.mem_append]; exact Or.inl hq)]
    simp

theorem lagAux_at_node (post : List (Rat × Rat)) : ∀ (pre : List (Rat × Rat)) (p : Rat × Rat),
    ((pre ++ post).map Prod.fst).Pairwise (· ≠ ·) → p ∈ post → lagAux pre post p.1 = p.2 := by
  induction post with
  | nil => intro pre p _ hp; simp at hp
  | cons a post ih =>
    intro pre p hd hp
    obtain ⟨x, y⟩ := a
    unfold lagAux
    simp only [List.map_append, List.map_cons] at hd
    obtain ⟨hpre, hpost, hcross⟩ := List.pairwise_append.mp hd
    obtain ⟨hx, hpost'⟩ := List.pairwise_cons.mp hpost
    rcases List.mem_cons.mp hp with rfl | hp'
    · -- the node itself: basis = 1, the rest vanishes
      have h1 : lagBasis x ((pre ++ post).map Prod.fst) x = 1 := by
        apply lagBasis_one
        intro xj hxj
        simp only [List.map_append, List.mem_append] at hxj
        rcases hxj with h | h
        · exact hcross xj h x (by simp)
        · exact Ne.symm (hx xj h)
      have h2 : lagAux (pre ++ [(x, y)]) post x = 0 :=
        lagAux_zero post _ x (by simp)
      simp only [h1, h2]; ring
    · -- a later node: this term vanishes
      have hq : p.1 ∈ post.map Prod.fst := List.mem_map_of_mem hp'
      have h1 : lagBasis x ((pre ++ post).map Prod.fst) p.1 = 0 :=
        lagBasis_zero x _ p.1 (by simp only [List.map_append, List.mem_append]; exact Or.inr hq)
      have h2 := ih (pre ++ [(x, y)]) p (by
        simp only [List.append_assoc, List.cons_append, List.nil_append, List.map_append, List.map_cons]
        exact hd) hp'
      rw [h1, h2]; ring

/-- The interpolating polynomial through nodes with distinct abscissae reproduces every node —
    any number of nodes, any order. -/
theorem lagrangeEval_at_node (nodes : List (Rat × Rat)) (hd : (nodes.map Prod.fst).Pairwise (· ≠ ·))
    (p : Rat × Rat) (hp : p ∈ nodes) : lagrangeEval nodes p.1 = p.2 :=
  lagAux_at_node nodes [] p (by simpa using hd) hp

/-! ### one interpolant of the height table at a stored height -/

/-- Kinds for which the interpolant is covered by a theorem: linear (any number of nodes), the
    parabola through three nodes, the cubic through four, Lagrange (any number). -/
def Covered (k : RKind) (n : Nat) : Prop :=
  k = .linear ∨ (k = .quadratic ∧ n = 3) ∨ (k = .cubic ∧ n = 4) ∨ k = .lagrange

theorem evalTable_at_node (k : RKind) (extrap : Bool) (nodes : List (Rat × Rat))
    (hd : (nodes.map Prod.fst).Pairwise (· ≠ ·)) (p : Rat × Rat) (hp : p ∈ nodes)
    (hk : Covered k nodes.length) : evalTable k extrap nodes p.1 = .ok p.2 := by
  have hperm := sortPairs_perm nodes
  have hs := sortPairs_strict nodes hd
  have hps : p ∈ sortPairs nodes := hperm.mem_iff.mpr hp
  have hob := outOfBounds_node _ hs p hps
  have hlen : (sortPairs nodes).length = nodes.length := hperm.length_eq
  have hds : ((sortPairs nodes).map Prod.fst).Pairwise (· ≠ ·) := by
    rw [List.pairwise_map]; exact hs.imp (fun {a b} h => ne_of_lt h)
  rcases hk with rfl | ⟨rfl, hn⟩ | ⟨rfl, hn⟩ | rfl
  · simp only [evalTable, hob, Bool.and_false, Bool.false_eq_true, if_false]
    rw [linEval_at_node _ hs p hps]
  · simp only [evalTable, hob, Bool.and_false, Bool.false_eq_true, if_false, hlen, hn, if_true]
    rw [lagrangeEval_at_node _ hds p hps]
  · simp only [evalTable, hob, Bool.and_false, Bool.false_eq_true, if_false, hlen, hn, if_true]
    rw [lagrangeEval_at_node _ hds p hps]
  · simp only [evalTable]
    rw [lagrangeEval_at_node _ hd p hp]

/-! ### `mapM` in the `Except` monad -/

theorem mapM_ok {α β : Type} (f : α → Py β) (g : α → β) (l : List α) (h : ∀ x ∈ l, f x = .ok (g x)) :
    l.mapM f = .ok (l.map g) := by
  induction l with
  | nil => rfl
  | cons a l ih =>
    rw [List.mapM_cons, h a (by simp), ih (fun x hx => h x (List.mem_cons_of_mem _ hx))]
    rfl

theorem column_ok (curves : List Curve) (i : Nat) (h : ∀ c ∈ curves, i < c.g.length) :
    column curves i = .ok (curves.map (fun c => (c.h, c.g.getD i 0))) := by
  unfold column
  apply mapM_ok
  intro c hc
  have := h c hc
  simp [List.getD, this]

theorem range_map_getD (l : List Rat) (n : Nat) (h : l.length = n) :
    (List.range n).map (fun i => l.getD i 0) = l := by
  apply List.ext_getElem
  · simp [h]
  · intro i h1 h2
    simp at h1
    simp [List.getD, h, h1]

/-! ### the interpolation table at a stored height -/

theorem mapM_map_ok {α β γ : Type} (h : α → β) (f : β → Py γ) (g : α → γ) (l : List α)
    (hx : ∀ x ∈ l, f (h x) = .ok (g x)) : (l.map h).mapM f = .ok (l.map g) := by
  induction l with
  | nil => rfl
  | cons a l ih =>
    rw [List.map_cons, List.mapM_cons, hx a (by simp), ih (fun x hx' => hx x (List.mem_cons_of_mem _ hx'))]
    rfl

theorem interpTable_at_node (gf : GF) (tk : RKind) (tex : Bool) (c : Curve) (hc : c ∈ gf.curves)
    (hd : (gf.curves.map (·.h)).Pairwise (· ≠ ·))
    (hlen : ∀ c' ∈ gf.curves, c'.g.length = gf.logTime.length)
    (hk : Covered tk gf.curves.length) :
    interpTable gf tk tex c.h = .ok (c.g, c.rb) := by
  unfold interpTable
  have hcols : (List.range gf.logTime.length).mapM (column gf.curves)
      = .ok ((List.range gf.logTime.length).map (fun i => gf.curves.map (fun c' => (c'.h, c'.g.getD i 0)))) := by
    apply mapM_ok
    intro i hi
    apply column_ok
    intro c' hc'
    rw [hlen c' hc']; simpa using hi
  have hrb : evalTable tk tex (gf.curves.map (fun c' => (c'.h, c'.rb))) c.h = .ok c.rb := by
    have := evalTable_at_node tk tex (gf.curves.map (fun c' => (c'.h, c'.rb)))
      (by simpa [List.map_map, Function.comp_def] using hd) (c.h, c.rb)
      (List.mem_map.mpr ⟨c, hc, rfl⟩) (by simpa using hk)
    simpa using this
  have hg : ((List.range gf.logTime.length).map (fun i => gf.curves.map (fun c' => (c'.h, c'.g.getD i 0)))).mapM
      (fun nodes => evalTable tk tex nodes c.h)
      = .ok ((List.range gf.logTime.length).map (fun i => c.g.getD i 0)) := by
    apply mapM_map_ok
    intro i _
    have hmem : (c.h, c.g.getD i 0) ∈ gf.curves.map (fun c' => (c'.h, c'.g.getD i 0)) :=
      List.mem_map.mpr ⟨c, hc, rfl⟩
    have hdi : ((gf.curves.map (fun c' => (c'.h, c'.g.getD i 0))).map Prod.fst).Pairwise (· ≠ ·) := by
      simpa [List.map_map, Function.comp_def] using hd
    exact evalTable_at_node tk tex _ hdi (c.h, c.g.getD i 0) hmem (by simpa using hk)
  rw [hcols]
  simp only [bind, Except.bind, hrb, hg, pure, Except.pure]
  rw [range_map_getD c.g _ (hlen c hc)]

/-! ### the equivalent height and the `close_tolerance` snapping -/

theorem ratAbs_eq_abs (x : Rat) : ratAbs x = |x| := by
  unfold ratAbs
  split
  · rw [abs_of_neg (by assumption)]
  · rw [abs_of_nonneg (not_lt.mp (by assumption))]

theorem closeTolerance_pos : 0 < Gen.GJoinConsts.closeTolerance := by
  unfold Gen.GJoinConsts.closeTolerance; norm_num

theorem tolerance_pos : 0 < Gen.GJoinConsts.tolerance := by
  unfold Gen.GJoinConsts.tolerance; norm_num

/-- Stored heights are told apart by the snapping: any two differ by at least twice
    `close_tolerance` (2·10⁻⁶ m). -/
def Separated (hs : List Rat) : Prop :=
  ∀ a ∈ hs, ∀ b ∈ hs, a ≠ b → 2 * Gen.GJoinConsts.closeTolerance ≤ |a - b|

theorem sep_eq {hs : List Rat} (hsep : Separated hs) {a b : Rat} (ha : a ∈ hs) (hb : b ∈ hs)
    (h : |a - b| < 2 * Gen.GJoinConsts.closeTolerance) : a = b := by
  by_contra hne
  exact absurd (hsep a ha b hb hne) (not_le.mpr h)

/-- `h_eq` is the stored height `h` when `1/(B/H)·B` is exactly `h`, or within `close_tolerance`
    of `h` and `h` is the largest or the smallest stored height. -/
theorem hEqOf_node (B bOverH : Rat) (hs : List Rat) (h mx mn : Rat) (hb : bOverH ≠ 0)
    (hmx : pyMaxL hs = .ok mx) (hmn : pyMinL hs = .ok mn) (hmxm : mx ∈ hs) (hmnm : mn ∈ hs)
    (hh : h ∈ hs) (hsep : Separated hs)
    (hcase : 1 / bOverH * B = h ∨ (h = mx ∧ |1 / bOverH * B - mx| < Gen.GJoinConsts.closeTolerance)
      ∨ (h = mn ∧ |1 / bOverH * B - mn| < Gen.GJoinConsts.closeTolerance)) :
    hEqOf B bOverH hs = .ok h := by
  have hct := closeTolerance_pos
  unfold hEqOf
  simp only [hb, if_false, hmx, hmn, bind, Except.bind, pure, Except.pure, ratAbs_eq_abs]
  congr 1
  set h0 := 1 / bOverH * B with hh0
  set ct := Gen.GJoinConsts.closeTolerance with hctd
  rcases hcase with e | ⟨rfl, e⟩ | ⟨rfl, e⟩
  · rw [e]
    by_cases c1 : |h - mx| < ct
    · have : h = mx := sep_eq hsep hh hmxm (by linarith)
      subst this
      simp only [c1, if_true]
      by_cases c2 : |h - mn| < ct
      · simp only [c2, if_true]; exact (sep_eq hsep hh hmnm (by linarith)).symm
      · simp only [c2, if_false]
    · simp only [c1, if_false]
      by_cases c2 : |h - mn| < ct
      · simp only [c2, if_true]; exact (sep_eq hsep hh hmnm (by linarith)).symm
      · simp only [c2, if_false]
  · simp only [e, if_true]
    by_cases c2 : |h - mn| < ct
    · simp only [c2, if_true]; exact (sep_eq hsep hh hmnm (by linarith)).symm
    · simp only [c2, if_false]
  · by_cases c1 : |h0 - mx| < ct
    · simp only [c1, if_true]
      have : mx = h := by
        apply sep_eq hsep hmxm hh
        have := abs_sub_le mx h0 h
        rw [abs_sub_comm mx h0] at this
        linarith
      rw [this]; simp [hct]
    · simp only [c1, if_false, e, if_true]

/-- Rebuilt or reused, the table in use is the one of the present call. -/
theorem tableFor_eq (cache : Cache) (k : RKind) (ex : Bool) : tableFor cache k ex = (k, ex) := by
  unfold tableFor
  cases cache with
  | none => rfl
  | some ce =>
    by_cases h : ce = (k, ex)
    · simp [h]
    · simp [h]

/-! ### fixture for the non-vacuity examples of Props/C11 -/

/-- The sizing family `[60, 97.5, 135]` m, `B = 5` m, asked at `B/H = 5/97.5`: the middle curve. -/
def gf3 : GF :=
  { B := 5, d := 2, logTime := [-17 / 2, -39 / 5],
    curves := [⟨60, 3 / 40, [1, 2]⟩, ⟨195 / 2, 3 / 40, [3, 5]⟩, ⟨135, 3 / 40, [4, 9]⟩] }

set_option linter.unusedTactic false in
theorem gf3_separated : Separated (gf3.curves.map (·.h)) := by
  intro a ha b hb hne
  simp only [gf3, List.map_cons, List.map_nil, List.mem_cons, List.not_mem_nil, or_false] at ha hb
  unfold Gen.GJoinConsts.closeTolerance
  rcases ha with rfl | rfl | rfl <;> rcases hb with rfl | rfl | rfl <;>
    first
      | exact absurd rfl hne
      | (refine le_trans ?_ (le_abs_self _); norm_num; done)
      | (refine le_trans ?_ (neg_le_abs _); norm_num; done)

end GHEVerif.GJoin
