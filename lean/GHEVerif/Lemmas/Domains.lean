/- Helper lemmas for C03: the candidate-list generators of domains.py (exact instance `R = id`). -/
import GHEVerif.Model.Domains
import GHEVerif.Lemmas.Coords

namespace GHEVerif.Domains
open GHEVerif GHEVerif.Coords

/-! ### ranges, transposition -/

theorem mem_pyRange {lo hi n : Int} : n ∈ pyRange lo hi ↔ lo ≤ n ∧ n < hi := by
  simp only [pyRange, List.mem_map, List.mem_range]
  constructor
  · rintro ⟨k, hk, rfl⟩; omega
  · intro h; exact ⟨(n - lo).toNat, by omega, by omega⟩

theorem pyRange_pairwise_lt (lo hi : Int) : (pyRange lo hi).Pairwise (· < ·) := by
  unfold pyRange
  rw [List.pairwise_map]
  exact List.Pairwise.imp (by intro a b h; omega) List.pairwise_lt_range

theorem pyRange_eq_nil {lo hi : Int} : pyRange lo hi = [] ↔ hi ≤ lo := by
  simp only [pyRange, List.map_eq_nil_iff, List.range_eq_nil]
  omega

@[simp] theorem length_trIf (tr : Bool) (f : Field) : (trIf tr f).length = f.length := by
  cases tr <;> simp [trIf]

/-- What every candidate field has to satisfy, stated before the final transposition:
    `g` lies on the `L1 × L2` land (long side first) and is `d`-separated. -/
def Good (L1 L2 d : Rat) (tr : Bool) (f : Field) : Prop :=
  ∃ g, f = trIf tr g ∧ InLand L1 L2 g ∧ Sep d g

theorem Good.final {Lx Ly d : Rat} {f : Field}
    (h : Good (if Lx ≥ Ly then Lx else Ly) (if Lx ≥ Ly then Ly else Lx) d (if Lx ≥ Ly then false else true) f) :
    InLand Lx Ly f ∧ Sep d f := by
  obtain ⟨g, rfl, h1, h2⟩ := h
  by_cases c : Lx ≥ Ly
  · simp only [c, if_true] at h1 ⊢
    exact ⟨h1, h2⟩
  · simp only [c, if_false] at h1 ⊢
    exact ⟨inLand_transpose h1, sep_transpose h2⟩

theorem toNat_cast_le {n m : Int} (h : n ≤ m) (hm : 0 ≤ m) : ((n.toNat : Nat) : Rat) ≤ (m : Rat) := by
  have : ((n.toNat : Nat) : Int) ≤ m := by omega
  exact_mod_cast this

theorem good_rectangle {L1 L2 d sx sy : Rat} {tr : Bool} {nx ny : Int} (hd : 0 ≤ d) (hx : d ≤ sx) (hy : d ≤ sy)
    (h1 : ((nx.toNat : Nat) : Rat) - 1 ≤ L1 / sx) (h2 : ((ny.toNat : Nat) : Rat) - 1 ≤ L2 / sy)
    (hsx : 0 < sx) (hsy : 0 < sy) :
    Good L1 L2 d tr (trIf tr (rectangle id nx ny sx sy)) := by
  refine ⟨_, rfl, inLand_rectangle (le_of_lt hsx) (le_of_lt hsy) ?_ ?_, sep_rectangle hd hx hy⟩
  · exact (le_div_iff₀ hsx).mp h1
  · exact (le_div_iff₀ hsy).mp h2

/-! ### floor / ceil arithmetic -/

/-- `n ≤ ⌊L / b_min + 1⌋ ⇒ (n - 1)·b_min ≤ L`. -/
theorem le_nHigh {L bmin : Rat} (hb : 0 < bmin) {n : Int} (h : n ≤ nHigh id L bmin) :
    ((n : Rat) - 1) * bmin ≤ L := by
  simp only [nHigh, id_eq] at h
  have := Rat.le_floor_iff.mp h
  have h2 : (n : Rat) - 1 ≤ L / bmin := by linarith
  exact (le_div_iff₀ hb).mp h2

/-- `⌈L / b_max + 1⌉ ≥ 2` for a positive side and spacing. -/
theorem two_le_nLow {L bmax : Rat} (hL : 0 < L) (hb : 0 < bmax) : 2 ≤ nLow id L bmax := by
  simp only [nLow, id_eq]
  have : (1 : Int) < (L / bmax + 1).ceil := by
    rw [Rat.lt_ceil_iff]
    have : 0 < L / bmax := div_pos hL hb
    push_cast; linarith
  omega

/-- `n ≥ ⌈L / b_max + 1⌉ ⇒ L / (n - 1) ≤ b_max` (not needed for C03, recorded for the design). -/
theorem nLow_le {L bmax : Rat} (hL : 0 < L) (hb : 0 < bmax) {n : Int} (h : nLow id L bmax ≤ n) :
    L / ((n : Rat) - 1) ≤ bmax := by
  have h2 := two_le_nLow hL hb
  have h2n : (2 : Int) ≤ n := le_trans h2 h
  simp only [nLow, id_eq] at h
  have := Rat.ceil_le_iff.mp h
  have hn : (0 : Rat) < (n : Rat) - 1 := by
    have : (2 : Rat) ≤ (n : Rat) := by exact_mod_cast h2n
    linarith
  rw [div_le_iff₀ hn]
  have : L / bmax ≤ (n : Rat) - 1 := by linarith
  have := (div_le_iff₀ hb).mp this
  linarith

/-- Facts about one pass of the `rectangular` loop. -/
theorem rect_step {L1 L2 bmin : Rat} (hb : 0 < bmin) (hL2 : 0 ≤ L2) {n : Int} (hn : 2 ≤ n)
    (hle : ((n : Rat) - 1) * bmin ≤ L1) :
    bmin ≤ spacingOf id L1 n ∧ L1 / spacingOf id L1 n = (n : Rat) - 1 ∧
    1 ≤ (rectN2Arg id L1 L2 n).floor ∧
    (((rectN2Arg id L1 L2 n).floor : Int) : Rat) - 1 ≤ L2 / spacingOf id L1 n := by
  have hn1 : (0 : Rat) < (n : Rat) - 1 := by
    have : (2 : Rat) ≤ (n : Rat) := by exact_mod_cast hn
    linarith
  have hL1 : 0 < L1 := lt_of_lt_of_le (mul_pos hn1 hb) hle
  have hs : spacingOf id L1 n = L1 / ((n : Rat) - 1) := by simp [spacingOf, iq]
  have hbs : bmin ≤ spacingOf id L1 n := by rw [hs, le_div_iff₀ hn1]; linarith
  have hspos : 0 < spacingOf id L1 n := lt_of_lt_of_le hb hbs
  refine ⟨hbs, ?_, ?_, ?_⟩
  · rw [hs]; field_simp
  · rw [Rat.le_floor_iff]
    simp only [rectN2Arg, id_eq]
    have : 0 ≤ L2 / spacingOf id L1 n := div_nonneg hL2 (le_of_lt hspos)
    push_cast; linarith
  · have := Rat.floor_le (rectN2Arg id L1 L2 n)
    simp only [rectN2Arg, id_eq] at this ⊢
    linarith


theorem natCast_toNat {n : Int} (h : 0 ≤ n) : ((n.toNat : Nat) : Rat) = (n : Rat) := by
  have : ((n.toNat : Nat) : Int) = n := Int.toNat_of_nonneg h
  exact_mod_cast this

theorem rectLoop_good {L1 L2 bmin : Rat} {tr : Bool} {nMin : Int} (hb : 0 < bmin) (hL2 : 0 ≤ L2)
    (ns : List Int) (hns : ∀ n ∈ ns, 2 ≤ n ∧ nMin ≤ n ∧ ((n : Rat) - 1) * bmin ≤ L1)
    (n2old : Int) (first : Bool) :
    ∀ f ∈ rectLoop id L1 L2 tr nMin ns n2old first, Good L1 L2 bmin tr f := by
  induction ns generalizing n2old first with
  | nil => intro f hf; simp [rectLoop] at hf
  | cons n rest ih =>
    intro f hf
    obtain ⟨hn2, hmin, hle⟩ := hns n (by simp)
    obtain ⟨hbs, hq, hn2pos, hn2le⟩ := rect_step hb hL2 hn2 hle
    have hspos : 0 < spacingOf id L1 n := lt_of_lt_of_le hb hbs
    set b := spacingOf id L1 n with hbdef
    set n2 := (rectN2Arg id L1 L2 n).floor with hn2def
    have hnn : ((n.toNat : Nat) : Rat) = (n : Rat) := natCast_toNat (by omega)
    have hn2n : ((n2.toNat : Nat) : Rat) = (n2 : Rat) := natCast_toNat (by omega)
    have hL2b : 0 ≤ L2 / b := div_nonneg hL2 (le_of_lt hspos)
    unfold rectLoop at hf
    simp only [List.mem_append] at hf
    rcases hf with (hf | hf) | hf
    · -- the `_iter == 0` block
      split at hf
      · simp only [rectPre, List.mem_append, List.mem_map] at hf
        rcases hf with ⟨i, hi, rfl⟩ | ⟨j, hj, rfl⟩
        · rw [mem_pyRange] at hi
          refine good_rectangle (le_of_lt hb) hbs hbs ?_ ?_ hspos hspos
          · rw [hq]
            have := toNat_cast_le (n := i) (m := n) (by omega) (by omega)
            linarith
          · simpa using hL2b
        · rw [mem_pyRange] at hj
          refine good_rectangle (le_of_lt hb) hbs hbs ?_ ?_ hspos hspos
          · rw [hq]
            have := toNat_cast_le (n := nMin) (m := n) hmin (by omega)
            linarith
          · have := toNat_cast_le (n := j) (m := n2) (by omega) (by omega)
            linarith
      · simp at hf
    · split at hf
      · simp at hf
      · simp only [List.mem_singleton] at hf
        subst hf
        refine good_rectangle (le_of_lt hb) hbs hbs ?_ ?_ hspos hspos
        · rw [hq, hnn]
        · rw [hn2n]; exact hn2le
    · exact ih (fun m hm => hns m (by simp [hm])) _ _ f hf


/-- long side / short side / transposition flag, as every generator computes them -/
def long (Lx Ly : Rat) : Rat := if Lx ≥ Ly then Lx else Ly
def short (Lx Ly : Rat) : Rat := if Lx ≥ Ly then Ly else Lx
def trOf (Lx Ly : Rat) : Bool := if Lx ≥ Ly then false else true

theorem long_pos {Lx Ly : Rat} (hx : 0 < Lx) (hy : 0 < Ly) : 0 < long Lx Ly := by unfold long; split <;> assumption
theorem short_pos {Lx Ly : Rat} (hx : 0 < Lx) (hy : 0 < Ly) : 0 < short Lx Ly := by unfold short; split <;> assumption
theorem short_le_long (Lx Ly : Rat) : short Lx Ly ≤ long Lx Ly := by
  unfold short long; split
  · assumption
  · linarith

theorem rectangular_eq {Lx Ly bmin bmax : Rat} (hb : 0 < bmin) (hbm : 0 < bmax) (hLx : 0 < Lx) (hLy : 0 < Ly) :
    rectangular id Lx Ly bmin bmax =
      .ok (rectLoop id (long Lx Ly) (short Lx Ly) (trOf Lx Ly) (nLow id (long Lx Ly) bmax)
            (pyRange (nLow id (long Lx Ly) bmax) (nHigh id (long Lx Ly) bmin + 1)) 1 true) := by
  have h2 := two_le_nLow (long_pos hLx hLy) hbm
  have hL := long_pos hLx hLy
  unfold rectangular
  simp only []
  rw [if_neg (by intro h; rcases h with h | h <;> linarith)]
  rw [if_neg]
  · rfl
  · rintro ⟨_, h | h⟩
    · rw [mem_pyRange] at h
      change nLow id (long Lx Ly) bmax ≤ 1 ∧ _ at h
      omega
    · change long Lx Ly = 0 at h
      linarith

theorem Good.final' {Lx Ly d : Rat} {f : Field} (h : Good (long Lx Ly) (short Lx Ly) d (trOf Lx Ly) f) :
    InLand Lx Ly f ∧ Sep d f := Good.final h

theorem rectangular_good {Lx Ly bmin bmax : Rat} (hb : 0 < bmin) (hbm : 0 < bmax) (hLx : 0 < Lx) (hLy : 0 < Ly) :
    ∃ fs, rectangular id Lx Ly bmin bmax = .ok fs ∧ ∀ f ∈ fs, InLand Lx Ly f ∧ Sep bmin f := by
  refine ⟨_, rectangular_eq hb hbm hLx hLy, ?_⟩
  intro f hf
  have h2 := two_le_nLow (long_pos hLx hLy) hbm
  refine Good.final' (rectLoop_good hb (le_of_lt (short_pos hLx hLy)) _ ?_ _ _ f hf)
  intro n hn
  rw [mem_pyRange] at hn
  exact ⟨by omega, hn.1, le_nHigh hb (by omega)⟩


/-- The near-square candidate list written out: `k × k`, `k × (k+1)` for `k = 1 … n`. -/
def nsList (n : Nat) (b : Rat) : List Field :=
  (List.range n).flatMap (fun (k : Nat) => [rectangle id ((k : Int) + 1) ((k : Int) + 1) b b,
                                    rectangle id ((k : Int) + 1) ((k : Int) + 1 + 1) b b])

theorem squareAndNearSquare_eq {n : Int} (hn : 1 ≤ n) (b : Rat) :
    squareAndNearSquare id 1 n b = .ok (nsList n.toNat b) := by
  unfold squareAndNearSquare
  rw [if_neg (by omega), if_neg (by omega)]
  congr 1
  unfold nsList pyRange
  rw [List.flatMap_map]
  have : (n + 1 - 1).toNat = n.toNat := by congr 1; omega
  rw [this]
  congr 1
  funext k
  rw [add_comm (1 : Int) (k : Int)]

theorem nearSquareN_spec {length b : Rat} (hb : 0 < b) (hl : 0 ≤ length) :
    1 ≤ nearSquareN id length b ∧ ((nearSquareN id length b : Rat) - 1) * b ≤ length ∧
      length < (nearSquareN id length b : Rat) * b := by
  simp only [nearSquareN, id_eq]
  have h0 : 0 ≤ length / b := div_nonneg hl (le_of_lt hb)
  have h1 := Rat.floor_le (length / b)
  have h2 := Rat.lt_floor_add_one (length / b)
  have h3 : (0 : Int) ≤ (length / b).floor := by rw [Rat.le_floor_iff]; simpa using h0
  refine ⟨by omega, ?_, ?_⟩
  · push_cast
    have := (le_div_iff₀ hb).mp h1
    linarith
  · exact (div_lt_iff₀ hb).mp h2

theorem nsList_length (n : Nat) (b : Rat) : (nsList n b).length = 2 * n := by
  unfold nsList
  rw [flatMap_const_length _ _ 2 (by intro a; rfl)]
  simp [Nat.mul_comm]

theorem nsList_succ (n : Nat) (b : Rat) :
    nsList (n + 1) b = nsList n b ++ [rectangle id ((n : Int) + 1) ((n : Int) + 1) b b,
                                      rectangle id ((n : Int) + 1) ((n : Int) + 1 + 1) b b] := by
  simp [nsList, List.range_succ, List.flatMap_append]

theorem nsList_get (n : Nat) (b : Rat) (k : Nat) (hk : k < n) :
    (nsList n b)[2 * k]? = some (rectangle id ((k : Int) + 1) ((k : Int) + 1) b b) ∧
    (nsList n b)[2 * k + 1]? = some (rectangle id ((k : Int) + 1) ((k : Int) + 1 + 1) b b) := by
  induction n with
  | zero => omega
  | succ n ih =>
    rw [nsList_succ]
    by_cases h : k < n
    · obtain ⟨a, c⟩ := ih h
      have hl := nsList_length n b
      rw [List.getElem?_append_left (by omega), List.getElem?_append_left (by omega)]
      exact ⟨a, c⟩
    · have hkn : k = n := by omega
      subst hkn
      have hl := nsList_length k b
      rw [List.getElem?_append_right (by omega), List.getElem?_append_right (by omega)]
      simp [hl]

theorem nsList_sorted (n : Nat) (b : Rat) : ((nsList n b).map List.length).Pairwise (· ≤ ·) := by
  rw [List.pairwise_map]
  unfold nsList
  rw [List.pairwise_flatMap]
  constructor
  · intro k _
    simp only [List.pairwise_cons, List.mem_singleton, forall_eq, length_rectangle, List.not_mem_nil,
      IsEmpty.forall_iff, implies_true, List.Pairwise.nil, and_true]
    apply Nat.mul_le_mul_left; omega
  · refine List.Pairwise.imp ?_ List.pairwise_lt_range
    intro i j hij x hx y hy
    simp only [List.mem_cons, List.not_mem_nil, or_false] at hx hy
    have e1 : ((i : Int) + 1).toNat = i + 1 := by omega
    have e2 : ((i : Int) + 1 + 1).toNat = i + 2 := by omega
    have e3 : ((j : Int) + 1).toNat = j + 1 := by omega
    have e4 : ((j : Int) + 1 + 1).toNat = j + 2 := by omega
    have key : (i + 1) * (i + 2) ≤ (j + 1) * (j + 1) := Nat.mul_le_mul (by omega) (by omega)
    rcases hx with rfl | rfl <;> rcases hy with rfl | rfl <;> simp only [length_rectangle, e1, e2, e3, e4] <;> nlinarith


theorem roundHalfEven_intCast (k : Int) : roundHalfEven (k : Rat) = k := by
  unfold roundHalfEven
  simp

theorem round9_intCast (k : Int) : round9 id (k : Rat) = (k : Rat) := by
  unfold round9
  have : (k : Rat) * 1000000000 = ((k * 1000000000 : Int) : Rat) := by push_cast; ring
  rw [this, roundHalfEven_intCast]
  simp only [id_eq]
  push_cast
  field_simp

/-- The repaired row count of `bi_rectangular`: handed `b_2 = L_2 / (n_2 - 1)` it returns `n_2`
    (DESIGN.md C03 item 6; false before commit d554a10 in binary64, exact here). -/
theorem biN2_spacingOf {L2 : Rat} (hL2 : 0 < L2) {n2 : Int} (hn2 : 2 ≤ n2) :
    biN2 id L2 (spacingOf id L2 n2) = n2 := by
  have hn : (0 : Rat) < (n2 : Rat) - 1 := by
    have : (2 : Rat) ≤ (n2 : Rat) := by exact_mod_cast hn2
    linarith
  have e : L2 / spacingOf id L2 n2 = ((n2 - 1 : Int) : Rat) := by
    simp only [spacingOf, iq, id_eq]; push_cast; field_simp
  simp only [biN2, id_eq, e, round9_intCast]
  have : ((n2 - 1 : Int) : Rat) + 1 = ((n2 : Int) : Rat) := by push_cast; ring
  rw [this, Rat.ceil_intCast]

theorem spacingOf_ge {L bmin : Rat} (hb : 0 < bmin) {n : Int} (hn : 2 ≤ n) (hle : ((n : Rat) - 1) * bmin ≤ L) :
    bmin ≤ spacingOf id L n ∧ L / spacingOf id L n = (n : Rat) - 1 := by
  obtain ⟨a, b, _, _⟩ := rect_step (L2 := 0) hb (le_refl _) hn hle
  exact ⟨a, b⟩

/-- `bi_rectangular` as `bi_rectangle_nested` calls it (long side first, second spacing
    `L_2 / (n_2 - 1)`): no error, and the list written out. -/
theorem biRectangular_eq {L1 L2 bmin bmax1 : Rat} (tr : Bool) {n2 : Int} (hb : 0 < bmin) (hbm : 0 < bmax1)
    (hL2 : 0 < L2) (hL : L2 ≤ L1) (hn2 : 2 ≤ n2) :
    biRectangular id L1 L2 bmin bmax1 (spacingOf id L2 n2) tr =
      .ok (if pyRange (nLow id L1 bmax1) (nHigh id L1 bmin + 1) = [] then [] else
        biPre id tr (nLow id L1 bmax1) n2 (spacingOf id L1 (nLow id L1 bmax1)) (spacingOf id L2 n2)
        ++ (pyRange (nLow id L1 bmax1) (nHigh id L1 bmin + 1)).map (fun n1 =>
              trIf tr (rectangle id n1 n2 (spacingOf id L1 n1) (spacingOf id L2 n2)))) := by
  have hL1 : 0 < L1 := lt_of_lt_of_le hL2 hL
  have h2 := two_le_nLow hL1 hbm
  have hge : L1 ≥ L2 := hL
  have hs : spacingOf id L2 n2 ≠ 0 := by
    have hn : (0 : Rat) < (n2 : Rat) - 1 := by
      have : (2 : Rat) ≤ (n2 : Rat) := by exact_mod_cast hn2
      linarith
    have : 0 < spacingOf id L2 n2 := by simp only [spacingOf, iq, id_eq]; push_cast; exact div_pos hL2 hn
    exact ne_of_gt this
  unfold biRectangular
  simp only [hge, if_true]
  rw [if_neg (by intro h; rcases h with h | h <;> linarith)]
  by_cases hns : pyRange (nLow id L1 bmax1) (nHigh id L1 bmin + 1) = []
  · simp [hns]
  · rw [if_neg hns, if_neg hs, biN2_spacingOf hL2 hn2, if_neg, if_neg hns]
    rintro (h | h)
    · omega
    · rw [mem_pyRange] at h; omega


theorem mapM_eq_ok_map {α β : Type} (f : α → Py β) (g : α → β) (l : List α)
    (h : ∀ x ∈ l, f x = .ok (g x)) : l.mapM f = .ok (l.map g) := by
  induction l with
  | nil => rfl
  | cons a l ih =>
    rw [List.mapM_cons, h a (by simp), ih (fun x hx => h x (by simp [hx]))]
    rfl

/-- The list `bi_rectangular` returns for the second count `n2` (long side `L1`). -/
def biList (L1 L2 bmin bmax1 : Rat) (tr : Bool) (n2 : Int) : List Field :=
  if pyRange (nLow id L1 bmax1) (nHigh id L1 bmin + 1) = [] then [] else
    biPre id tr (nLow id L1 bmax1) n2 (spacingOf id L1 (nLow id L1 bmax1)) (spacingOf id L2 n2)
    ++ (pyRange (nLow id L1 bmax1) (nHigh id L1 bmin + 1)).map (fun n1 =>
          trIf tr (rectangle id n1 n2 (spacingOf id L1 n1) (spacingOf id L2 n2)))

theorem biRectangleNested_eq {Lx Ly bmin bmaxx bmaxy : Rat} (hb : 0 < bmin) (hbx : 0 < bmaxx) (hby : 0 < bmaxy)
    (hLx : 0 < Lx) (hLy : 0 < Ly) :
    biRectangleNested id Lx Ly bmin bmaxx bmaxy =
      .ok ((pyRange (nLow id (short Lx Ly) (if Lx ≥ Ly then bmaxy else bmaxx))
                    (nHigh id (short Lx Ly) bmin + 1)).map
            (biList (long Lx Ly) (short Lx Ly) bmin (if Lx ≥ Ly then bmaxx else bmaxy) (trOf Lx Ly))) := by
  have hb1 : 0 < (if Lx ≥ Ly then bmaxx else bmaxy) := by split <;> assumption
  have hb2 : 0 < (if Lx ≥ Ly then bmaxy else bmaxx) := by split <;> assumption
  have h2 := two_le_nLow (short_pos hLx hLy) hb2
  unfold biRectangleNested
  simp only []
  rw [if_neg (by intro h; rcases h with h | h <;> linarith)]
  apply mapM_eq_ok_map
  intro n2 hn2
  rw [mem_pyRange] at hn2
  change nLow id (short Lx Ly) _ ≤ n2 ∧ _ at hn2
  rw [if_neg (by omega)]
  exact biRectangular_eq _ hb hb1 (short_pos hLx hLy) (short_le_long Lx Ly) (by omega)

theorem biList_good {L1 L2 bmin bmax1 : Rat} {tr : Bool} {n2 : Int} (hb : 0 < bmin) (hbm : 0 < bmax1)
    (hL2 : 0 < L2) (hL : L2 ≤ L1) (hn2 : 2 ≤ n2) (hn2le : ((n2 : Rat) - 1) * bmin ≤ L2) :
    ∀ f ∈ biList L1 L2 bmin bmax1 tr n2, Good L1 L2 bmin tr f := by
  have hL1 : 0 < L1 := lt_of_lt_of_le hL2 hL
  have h2 := two_le_nLow hL1 hbm
  obtain ⟨hs2, hq2⟩ := spacingOf_ge hb hn2 hn2le
  have hs2pos : 0 < spacingOf id L2 n2 := lt_of_lt_of_le hb hs2
  have hn2n : ((n2.toNat : Nat) : Rat) = (n2 : Rat) := natCast_toNat (by omega)
  -- facts for any admissible first count
  have key : ∀ n1, nLow id L1 bmax1 ≤ n1 → n1 < nHigh id L1 bmin + 1 →
      bmin ≤ spacingOf id L1 n1 ∧ L1 / spacingOf id L1 n1 = (n1 : Rat) - 1 :=
    fun n1 h1 h3 => spacingOf_ge hb (by omega) (le_nHigh hb (by omega))
  intro f hf
  unfold biList at hf
  split at hf
  · simp at hf
  · rename_i hne
    have hne' : nLow id L1 bmax1 < nHigh id L1 bmin + 1 := by
      by_contra hc; exact hne (pyRange_eq_nil.mpr (by omega))
    obtain ⟨hsm, hqm⟩ := key _ (le_refl _) hne'
    have hsmpos : 0 < spacingOf id L1 (nLow id L1 bmax1) := lt_of_lt_of_le hb hsm
    have hmn : ((nLow id L1 bmax1).toNat : Rat) = (nLow id L1 bmax1 : Rat) := natCast_toNat (by omega)
    simp only [biPre, List.mem_append, List.mem_map] at hf
    rcases hf with (⟨i, hi, rfl⟩ | ⟨j, hj, rfl⟩) | ⟨n1, hn1, rfl⟩
    · rw [mem_pyRange] at hi
      refine good_rectangle (le_of_lt hb) hsm hs2 ?_ ?_ hsmpos hs2pos
      · rw [hqm]
        have := toNat_cast_le (n := i) (m := nLow id L1 bmax1) (by omega) (by omega)
        linarith
      · have : 0 ≤ L2 / spacingOf id L2 n2 := div_nonneg (le_of_lt hL2) (le_of_lt hs2pos)
        simpa using this
    · rw [mem_pyRange] at hj
      refine good_rectangle (le_of_lt hb) hsm hs2 ?_ ?_ hsmpos hs2pos
      · rw [hqm, hmn]
      · rw [hq2]
        have := toNat_cast_le (n := j) (m := n2) (by omega) (by omega)
        linarith
    · rw [mem_pyRange] at hn1
      obtain ⟨hs1, hq1⟩ := key n1 hn1.1 hn1.2
      have hs1pos : 0 < spacingOf id L1 n1 := lt_of_lt_of_le hb hs1
      have hnn : ((n1.toNat : Nat) : Rat) = (n1 : Rat) := natCast_toNat (by omega)
      refine good_rectangle (le_of_lt hb) hs1 hs2 ?_ ?_ hs1pos hs2pos
      · rw [hq1, hnn]
      · rw [hq2, hn2n]


/-- sizes of the `_iter == 0` block followed by anything at least `m·k` large -/
theorem pre_sizes_sorted (R : Rat → Rat) (tr : Bool) (m k : Int) (s1 s2 : Rat) (hm : 1 ≤ m) (hk : 1 ≤ k) :
    ((biPre R tr m k s1 s2).map List.length).Pairwise (· ≤ ·) ∧
    ∀ x ∈ (biPre R tr m k s1 s2).map List.length, x ≤ m.toNat * k.toNat := by
  unfold biPre
  simp only [List.map_append, List.map_map]
  constructor
  · rw [List.pairwise_append]
    refine ⟨?_, ?_, ?_⟩
    · rw [List.pairwise_map]
      refine List.Pairwise.imp ?_ (pyRange_pairwise_lt 1 m)
      intro a b hab
      simp only [Function.comp, length_trIf, length_rectangle, show (1 : Int).toNat = 1 from rfl, Nat.mul_one]
      omega
    · rw [List.pairwise_map]
      refine List.Pairwise.imp ?_ (pyRange_pairwise_lt 1 k)
      intro a b hab
      simp only [Function.comp, length_trIf, length_rectangle]
      exact Nat.mul_le_mul_left _ (by omega)
    · intro x hx y hy
      simp only [List.mem_map, Function.comp, length_trIf, length_rectangle] at hx hy
      obtain ⟨i, hi, rfl⟩ := hx
      obtain ⟨j, hj, rfl⟩ := hy
      rw [mem_pyRange] at hi hj
      have h1 : i.toNat ≤ m.toNat := by omega
      have h2 : 1 ≤ j.toNat := by omega
      calc i.toNat * (1 : Int).toNat = i.toNat := by simp
        _ ≤ m.toNat * 1 := by omega
        _ ≤ m.toNat * j.toNat := Nat.mul_le_mul_left _ h2
  · intro x hx
    simp only [List.mem_append, List.mem_map, Function.comp, length_trIf, length_rectangle] at hx
    rcases hx with ⟨i, hi, rfl⟩ | ⟨j, hj, rfl⟩
    · rw [mem_pyRange] at hi
      have h1 : i.toNat ≤ m.toNat := by omega
      have h2 : 1 ≤ k.toNat := by omega
      calc i.toNat * (1 : Int).toNat = i.toNat := by simp
        _ ≤ m.toNat * 1 := by omega
        _ ≤ m.toNat * k.toNat := Nat.mul_le_mul_left _ h2
    · rw [mem_pyRange] at hj
      exact Nat.mul_le_mul_left _ (by omega)

theorem biList_sorted (L1 L2 bmin bmax1 : Rat) (tr : Bool) (n2 : Int) (h2 : 1 ≤ nLow id L1 bmax1) (hn2 : 1 ≤ n2) :
    ((biList L1 L2 bmin bmax1 tr n2).map List.length).Pairwise (· ≤ ·) := by
  unfold biList
  split
  · simp
  · obtain ⟨p1, p2⟩ := pre_sizes_sorted id tr (nLow id L1 bmax1) n2 (spacingOf id L1 (nLow id L1 bmax1)) (spacingOf id L2 n2) h2 hn2
    rw [List.map_append, List.pairwise_append]
    refine ⟨p1, ?_, ?_⟩
    · rw [List.map_map, List.pairwise_map]
      refine List.Pairwise.imp ?_ (pyRange_pairwise_lt _ _)
      intro a b hab
      simp only [Function.comp, length_trIf, length_rectangle]
      exact Nat.mul_le_mul_right _ (by omega)
    · intro x hx y hy
      have := p2 x hx
      simp only [List.map_map, List.mem_map, Function.comp, length_trIf, length_rectangle] at hy
      obtain ⟨n1, hn1, rfl⟩ := hy
      rw [mem_pyRange] at hn1
      exact le_trans this (Nat.mul_le_mul_right _ (by omega))


/-- row count of `rectangular` for `n` columns -/
def rectN2 (L1 L2 : Rat) (n : Int) : Int := (rectN2Arg id L1 L2 n).floor

theorem rectN2Arg_eq (L1 L2 : Rat) (n : Int) : rectN2Arg id L1 L2 n = L2 * ((n : Rat) - 1) / L1 + 1 := by
  simp only [rectN2Arg, spacingOf, iq, id_eq]
  rw [div_div_eq_mul_div]; push_cast; ring

/-- monotonicity of `n ↦ ⌊L₂ (n-1) / L₁ + 1⌋` -/
theorem rectN2_mono {L1 L2 : Rat} (hL1 : 0 < L1) (hL2 : 0 ≤ L2) {n n' : Int} (h : n ≤ n') :
    rectN2 L1 L2 n ≤ rectN2 L1 L2 n' := by
  unfold rectN2
  rw [Rat.le_floor_iff]
  refine le_trans (Rat.floor_le _) ?_
  rw [rectN2Arg_eq, rectN2Arg_eq]
  have : (n : Rat) ≤ (n' : Rat) := by exact_mod_cast h
  have : L2 * ((n : Rat) - 1) ≤ L2 * ((n' : Rat) - 1) := by nlinarith
  have := div_le_div_of_nonneg_right this (le_of_lt hL1)
  linarith

theorem rectLoop_mem_size {L1 L2 : Rat} {tr : Bool} {nMin : Int} (ns : List Int) (n2old : Int) :
    ∀ f ∈ rectLoop id L1 L2 tr nMin ns n2old false,
      ∃ n ∈ ns, f.length = n.toNat * (rectN2 L1 L2 n).toNat := by
  induction ns generalizing n2old with
  | nil => intro f hf; simp [rectLoop] at hf
  | cons n rest ih =>
    intro f hf
    unfold rectLoop at hf
    simp only [Bool.false_eq_true, if_false, List.nil_append, List.mem_append] at hf
    rcases hf with hf | hf
    · split at hf
      · simp at hf
      · simp only [List.mem_singleton] at hf
        subst hf
        exact ⟨n, by simp, by simp [rectN2]⟩
    · obtain ⟨m, hm, e⟩ := ih _ f hf
      exact ⟨m, by simp [hm], e⟩

theorem rectLoop_sorted_tail {L1 L2 : Rat} (hL1 : 0 < L1) (hL2 : 0 ≤ L2) {tr : Bool} {nMin : Int}
    (ns : List Int) (hasc : ns.Pairwise (· < ·)) (n2old : Int) :
    ((rectLoop id L1 L2 tr nMin ns n2old false).map List.length).Pairwise (· ≤ ·) := by
  induction ns generalizing n2old with
  | nil => simp [rectLoop]
  | cons n rest ih =>
    rw [List.pairwise_cons] at hasc
    unfold rectLoop
    simp only [Bool.false_eq_true, if_false, List.nil_append, List.map_append]
    rw [List.pairwise_append]
    refine ⟨?_, ih hasc.2 _, ?_⟩
    · split <;> simp
    · intro x hx y hy
      split at hx
      · simp at hx
      · simp only [List.map_cons, List.map_nil, List.mem_singleton, length_trIf, length_rectangle] at hx
        rw [List.mem_map] at hy
        obtain ⟨f, hf, rfl⟩ := hy
        obtain ⟨m, hm, e⟩ := rectLoop_mem_size rest _ f hf
        have hnm : n ≤ m := le_of_lt (hasc.1 m hm)
        have := rectN2_mono hL1 hL2 hnm
        have e2 : (rectN2Arg id L1 L2 n).floor = rectN2 L1 L2 n := rfl
        rw [hx, e, e2]
        exact Nat.mul_le_mul (by omega) (by omega)

theorem rectN2_pos {L1 L2 : Rat} (hL1 : 0 < L1) (hL2 : 0 ≤ L2) {n : Int} (hn : 1 ≤ n) : 1 ≤ rectN2 L1 L2 n := by
  unfold rectN2
  rw [Rat.le_floor_iff, rectN2Arg_eq]
  have : (1 : Rat) ≤ (n : Rat) := by exact_mod_cast hn
  have : 0 ≤ L2 * ((n : Rat) - 1) / L1 := div_nonneg (mul_nonneg hL2 (by linarith)) (le_of_lt hL1)
  push_cast; linarith

/-- The whole `rectangular` loop (first pass with the `_iter == 0` block). -/
theorem rectLoop_sorted {L1 L2 : Rat} (hL1 : 0 < L1) (hL2 : 0 ≤ L2) {tr : Bool} {nMin : Int} (hmin : 1 ≤ nMin)
    (rest : List Int) (hasc : (nMin :: rest).Pairwise (· < ·)) :
    ((rectLoop id L1 L2 tr nMin (nMin :: rest) 1 true).map List.length).Pairwise (· ≤ ·) := by
  have hn2 := rectN2_pos hL1 hL2 hmin
  obtain ⟨p1, p2⟩ := pre_sizes_sorted id tr nMin (rectN2 L1 L2 nMin) (spacingOf id L1 nMin) (spacingOf id L1 nMin) hmin hn2
  rw [List.pairwise_cons] at hasc
  unfold rectLoop
  simp only [if_true, List.map_append]
  rw [List.append_assoc, List.pairwise_append]
  refine ⟨p1, ?_, ?_⟩
  · rw [List.pairwise_append]
    refine ⟨by split <;> simp, rectLoop_sorted_tail hL1 hL2 rest hasc.2 _, ?_⟩
    intro x hx y hy
    split at hx
    · simp at hx
    · simp only [List.map_cons, List.map_nil, List.mem_singleton, length_trIf, length_rectangle] at hx
      rw [List.mem_map] at hy
      obtain ⟨f, hf, rfl⟩ := hy
      obtain ⟨m, hm, e⟩ := rectLoop_mem_size rest _ f hf
      have hnm : nMin ≤ m := le_of_lt (hasc.1 m hm)
      have := rectN2_mono hL1 hL2 hnm
      have e2 : (rectN2Arg id L1 L2 nMin).floor = rectN2 L1 L2 nMin := rfl
      rw [hx, e, e2]
      exact Nat.mul_le_mul (by omega) (by omega)
  · intro x hx y hy
    have hx' := p2 x hx
    refine le_trans hx' ?_
    rw [List.mem_append] at hy
    rcases hy with hy | hy
    · split at hy
      · simp at hy
      · simp only [List.map_cons, List.map_nil, List.mem_singleton, length_trIf, length_rectangle] at hy
        rw [hy]; exact le_of_eq rfl
    · rw [List.mem_map] at hy
      obtain ⟨f, hf, rfl⟩ := hy
      obtain ⟨m, hm, e⟩ := rectLoop_mem_size rest _ f hf
      have hnm : nMin ≤ m := le_of_lt (hasc.1 m hm)
      have := rectN2_mono hL1 hL2 hnm
      rw [e]
      exact Nat.mul_le_mul (by omega) (by omega)


theorem pyRange_cons {lo hi : Int} (h : lo < hi) : pyRange lo hi = lo :: pyRange (lo + 1) hi := by
  unfold pyRange
  have e : (hi - lo).toNat = (hi - (lo + 1)).toNat + 1 := by omega
  rw [e, List.range_succ_eq_map]
  simp only [List.map_cons, List.map_map]
  congr 1
  · simp
  · apply List.map_congr_left
    intro k _
    simp only [Function.comp]
    push_cast; ring

theorem rectangular_sorted' {Lx Ly bmin bmax : Rat} (hb : 0 < bmin) (hbm : 0 < bmax) (hLx : 0 < Lx) (hLy : 0 < Ly) :
    ∃ fs, rectangular id Lx Ly bmin bmax = .ok fs ∧ (fs.map List.length).Pairwise (· ≤ ·) := by
  refine ⟨_, rectangular_eq hb hbm hLx hLy, ?_⟩
  have h2 := two_le_nLow (long_pos hLx hLy) hbm
  by_cases hlt : nLow id (long Lx Ly) bmax < nHigh id (long Lx Ly) bmin + 1
  · have hasc := pyRange_pairwise_lt (nLow id (long Lx Ly) bmax) (nHigh id (long Lx Ly) bmin + 1)
    rw [pyRange_cons hlt] at hasc ⊢
    exact rectLoop_sorted (long_pos hLx hLy) (le_of_lt (short_pos hLx hLy)) (by omega) _ hasc
  · rw [pyRange_eq_nil.mpr (by omega)]
    simp [rectLoop]


theorem good_of_zoned {n1 n2 ni1 ni2 : Int} {b1 b2 bmin L1 L2 : Rat} {tr : Bool} {z : Field}
    (hd : 0 < bmin) (h1 : bmin ≤ b1) (h2 : bmin ≤ b2)
    (hW : ((n1 : Rat) - 1) * b1 ≤ L1) (hH : ((n2 : Rat) - 1) * b2 ≤ L2) (hi1 : 1 ≤ ni1) (hi2 : 1 ≤ ni2)
    (h : zonedRectangle id n1 n2 b1 b2 ni1 ni2 = .ok z) : Good L1 L2 bmin tr (trIf tr z) := by
  obtain ⟨a, b⟩ := zonedRectangle_good hd h1 h2 hi1 hi2 hW hH h
  exact ⟨z, rfl, a, b⟩

theorem zonedLoop_good {n1 n2 : Int} {b1 b2 bmin L1 L2 : Rat} {tr : Bool}
    (hd : 0 < bmin) (h1 : bmin ≤ b1) (h2 : bmin ≤ b2)
    (hW : ((n1 : Rat) - 1) * b1 ≤ L1) (hH : ((n2 : Rat) - 1) * b2 ≤ L2) :
    ∀ (fuel : Nat) (ni1 ni2 : Int) (rest : List Field), 1 ≤ ni1 → 1 ≤ ni2 →
      zonedLoop id n1 n2 b1 b2 tr fuel ni1 ni2 = .ok rest → ∀ f ∈ rest, Good L1 L2 bmin tr f := by
  intro fuel
  induction fuel with
  | zero => intro ni1 ni2 rest _ _ h; simp [zonedLoop] at h
  | succ k ih =>
    intro ni1 ni2 rest hi1 hi2 h f hf
    simp only [zonedLoop, id_eq] at h
    split at h
    · split at h
      · cases h
      split at h
      · cases h
      split at h
      · cases h
      split at h
      · cases h
      · rename_i z hz
        split at h
        · cases h
        · rename_i rest' hrest
          simp only [Except.ok.injEq] at h
          subst h
          rw [List.mem_cons] at hf
          rcases hf with rfl | hf
          · refine good_of_zoned hd h1 h2 hW hH ?_ ?_ hz
            · split <;> omega
            · split <;> omega
          · refine ih _ _ rest' ?_ ?_ hrest f hf
            · split <;> omega
            · split <;> omega
    · simp only [Except.ok.injEq] at h
      subst h
      simp at hf

theorem zonedRectangleDomain_good {L1 L2 bmin : Rat} {a b : Int} {tr : Bool} {part : List Field}
    (hd : 0 < bmin) (hL : L2 ≤ L1) (ha : 2 ≤ a) (hb : 2 ≤ b)
    (hale : ((a : Rat) - 1) * bmin ≤ L1) (hble : ((b : Rat) - 1) * bmin ≤ L2)
    (h : zonedRectangleDomain id L1 L2 a b tr = .ok part) : ∀ f ∈ part, Good L1 L2 bmin tr f := by
  have hge : L1 ≥ L2 := hL
  obtain ⟨s1, q1⟩ := spacingOf_ge hd ha hale
  obtain ⟨s2, q2⟩ := spacingOf_ge hd hb hble
  have p1 : 0 < spacingOf id L1 a := lt_of_lt_of_le hd s1
  have p2 : 0 < spacingOf id L2 b := lt_of_lt_of_le hd s2
  have hW : ((a : Rat) - 1) * spacingOf id L1 a ≤ L1 := by
    rw [← q1]; exact le_of_eq (div_mul_cancel₀ _ (ne_of_gt p1))
  have hH : ((b : Rat) - 1) * spacingOf id L2 b ≤ L2 := by
    rw [← q2]; exact le_of_eq (div_mul_cancel₀ _ (ne_of_gt p2))
  unfold zonedRectangleDomain at h
  simp only [hge, if_true] at h
  split at h
  · cases h
  split at h
  · cases h
  · rename_i z hz
    split at h
    · cases h
    · rename_i rest hrest
      simp only [Except.ok.injEq] at h
      subst h
      intro f hf
      rw [List.mem_cons] at hf
      rcases hf with rfl | hf
      · exact good_of_zoned hd s1 s2 hW hH (le_refl _) (le_refl _) hz
      · exact zonedLoop_good hd s1 s2 hW hH _ _ _ _ (le_refl _) (le_refl _) hrest f hf


theorem mapM_ok_spec {α β : Type} (f : α → Py β) : ∀ (l : List α) (r : List β), l.mapM f = .ok r →
    (∀ x ∈ l, ∃ y, f x = .ok y) ∧ (∀ y ∈ r, ∃ x ∈ l, f x = .ok y) := by
  intro l
  induction l with
  | nil =>
    intro r h
    have : r = [] := by
      have h' : (pure [] : Py (List β)) = .ok r := by simpa using h
      cases h'; rfl
    subst this; simp
  | cons a l ih =>
    intro r h
    rw [List.mapM_cons] at h
    cases hfa : f a with
    | error e => rw [hfa] at h; cases h
    | ok y =>
      rw [hfa] at h
      cases hl : l.mapM f with
      | error e => rw [hl] at h; cases h
      | ok ys =>
        rw [hl] at h
        have : r = y :: ys := by cases h; rfl
        subst this
        obtain ⟨i1, i2⟩ := ih ys hl
        constructor
        · intro x hx
          rw [List.mem_cons] at hx
          rcases hx with rfl | hx
          · exact ⟨y, hfa⟩
          · exact i1 x hx
        · intro z hz
          rw [List.mem_cons] at hz
          rcases hz with rfl | hz
          · exact ⟨a, by simp, hfa⟩
          · obtain ⟨x, hx, e⟩ := i2 z hz
            exact ⟨x, by simp [hx], e⟩

theorem zonedPre_good {L1 L2 bmin : Rat} {tr : Bool} {a b : Int} (hd : 0 < bmin) (ha : 2 ≤ a) (hb : 2 ≤ b)
    (hale : ((a : Rat) - 1) * bmin ≤ L1) (hble : ((b : Rat) - 1) * bmin ≤ L2) :
    ∀ f ∈ zonedPre id tr a b (spacingOf id L1 a) (spacingOf id L2 b), Good L1 L2 bmin tr f := by
  obtain ⟨s1, q1⟩ := spacingOf_ge hd ha hale
  obtain ⟨s2, q2⟩ := spacingOf_ge hd hb hble
  have p1 : 0 < spacingOf id L1 a := lt_of_lt_of_le hd s1
  have p2 : 0 < spacingOf id L2 b := lt_of_lt_of_le hd s2
  have hW : ((a : Rat) - 1) * spacingOf id L1 a ≤ L1 := by
    rw [← q1]; exact le_of_eq (div_mul_cancel₀ _ (ne_of_gt p1))
  have hH : ((b : Rat) - 1) * spacingOf id L2 b ≤ L2 := by
    rw [← q2]; exact le_of_eq (div_mul_cancel₀ _ (ne_of_gt p2))
  have hL2 : 0 ≤ L2 / spacingOf id L2 b := by rw [q2]; have : (2 : Rat) ≤ (b : Rat) := by exact_mod_cast hb
                                              linarith
  intro f hf
  simp only [zonedPre, List.mem_append, List.mem_map] at hf
  rcases hf with ((⟨l, hl, rfl⟩ | ⟨l, hl, rfl⟩) | ⟨l, hl, rfl⟩) | ⟨l, hl, rfl⟩
  · rw [mem_pyRange] at hl
    refine good_rectangle (le_of_lt hd) s1 s2 ?_ ?_ p1 p2
    · rw [q1]
      have := toNat_cast_le (n := l) (m := a) (by omega) (by omega)
      linarith
    · simpa using hL2
  · rw [mem_pyRange] at hl
    refine ⟨_, rfl, ?_⟩
    rw [lShape_eq]
    refine perimeter_good (le_of_lt hd) s1 s2 (by omega) (by omega) hW ?_ (nodup_idxL _ _) bound_idxL
    have : (l : Rat) ≤ (b : Rat) := by exact_mod_cast (show l ≤ b by omega)
    nlinarith
  · rw [mem_pyRange] at hl
    refine ⟨_, rfl, ?_⟩
    rw [lopU_eq (by omega)]
    exact perimeter_good (le_of_lt hd) s1 s2 (by omega) (by omega) hW hH (nodup_idxU ha _ _) (bound_idxU (by omega))
  · rw [mem_pyRange] at hl
    refine ⟨_, rfl, ?_⟩
    rw [cShape_eq (by omega) (by omega)]
    exact perimeter_good (le_of_lt hd) s1 s2 (by omega) (by omega) hW hH (nodup_idxC ha hb (by omega)) (bound_idxC (by omega))

theorem zPath_head (len1 len2 cnt : Nat) : (0, 0) ∈ zPath len1 len2 (cnt + 1) 0 0 0 := by
  unfold zPath; simp

/-- The main loop of `bi_rectangle_zoned_nested`: one `zoned_rectangle_domain` per visited `(j, k)`. -/
def zParts (R : Rat → Rat) (L1 L2 bmin bmax1 bmax2 : Rat) (tr : Bool) : Py (List (List Field)) :=
  (zPath (pyRange (nLow R L1 bmax1) (nHigh R L1 bmin + 1)).length (pyRange (nLow R L2 bmax2) (nHigh R L2 bmin + 1)).length
      ((pyRange (nLow R L1 bmax1) (nHigh R L1 bmin + 1)).length + (pyRange (nLow R L2 bmax2) (nHigh R L2 bmin + 1)).length - 1)
      0 0 0).mapM (fun (jk : Nat × Nat) =>
    match (pyRange (nLow R L1 bmax1) (nHigh R L1 bmin + 1))[jk.1]?,
          (pyRange (nLow R L2 bmax2) (nHigh R L2 bmin + 1))[jk.2]? with
    | some a, some b => zonedRectangleDomain R L1 L2 a b tr
    | _, _ => .error .indexError)

/-- `bi_rectangle_zoned_nested` after the long/short side selection. -/
def zonedCore (R : Rat → Rat) (L1 L2 bmin bmax1 bmax2 : Rat) (tr : Bool) : Py (List (List Field)) :=
  if bmin = 0 ∨ bmax1 = 0 ∨ bmax2 = 0 then .error .zeroDiv else
  if (pyRange (nLow R L1 bmax1) (nHigh R L1 bmin + 1)).length
      + (pyRange (nLow R L2 bmax2) (nHigh R L2 bmin + 1)).length - 1 = 0 then .ok [[]] else
  if nLow R L1 bmax1 - 1 = 0 ∨ nLow R L2 bmax2 - 1 = 0 then .error .zeroDiv else
  match zParts R L1 L2 bmin bmax1 bmax2 tr with
  | .error e => .error e
  | .ok parts => .ok [zonedPre R tr (nLow R L1 bmax1) (nLow R L2 bmax2) (spacingOf R L1 (nLow R L1 bmax1))
                        (spacingOf R L2 (nLow R L2 bmax2)) ++ parts.flatten]

theorem biRectangleZonedNested_eq_core (R : Rat → Rat) (Lx Ly bmin bmaxx bmaxy : Rat) :
    biRectangleZonedNested R Lx Ly bmin bmaxx bmaxy =
      zonedCore R (long Lx Ly) (short Lx Ly) bmin (if Lx ≥ Ly then bmaxx else bmaxy)
        (if Lx ≥ Ly then bmaxy else bmaxx) (trOf Lx Ly) := rfl

theorem zonedCore_good {L1 L2 bmin bmax1 bmax2 : Rat} {tr : Bool} (hb : 0 < bmin) (hb1 : 0 < bmax1) (hb2 : 0 < bmax2)
    (hL2 : 0 < L2) (hL : L2 ≤ L1) {lists : List (List Field)}
    (h : zonedCore id L1 L2 bmin bmax1 bmax2 tr = .ok lists) :
    ∀ l ∈ lists, ∀ f ∈ l, Good L1 L2 bmin tr f := by
  have hL1 : 0 < L1 := lt_of_lt_of_le hL2 hL
  have t1 := two_le_nLow hL1 hb1
  have t2 := two_le_nLow hL2 hb2
  unfold zonedCore at h
  rw [if_neg (by intro h; rcases h with h | h | h <;> linarith)] at h
  split at h
  · simp only [Except.ok.injEq] at h
    subst h
    intro l hl f hf
    simp only [List.mem_singleton] at hl
    subst hl
    simp at hf
  rename_i hiters
  split at h
  · cases h
  split at h
  · cases h
  rename_i parts hparts
  simp only [Except.ok.injEq] at h
  subst h
  unfold zParts at hparts
  obtain ⟨m1, m2⟩ := mapM_ok_spec _ _ _ hparts
  -- what a successful element of the path gives
  have elem : ∀ (jk : Nat × Nat) (part : List Field),
      (match (pyRange (nLow id L1 bmax1) (nHigh id L1 bmin + 1))[jk.1]?,
             (pyRange (nLow id L2 bmax2) (nHigh id L2 bmin + 1))[jk.2]? with
        | some a, some b => zonedRectangleDomain id L1 L2 a b tr
        | _, _ => .error .indexError) = .ok part →
      ∃ a b : Int, 2 ≤ a ∧ 2 ≤ b ∧ ((a : Rat) - 1) * bmin ≤ L1 ∧ ((b : Rat) - 1) * bmin ≤ L2 ∧
        nLow id L1 bmax1 ≤ a ∧ nLow id L2 bmax2 ≤ b ∧ zonedRectangleDomain id L1 L2 a b tr = .ok part := by
    intro jk part he
    split at he
    · rename_i a b ha hb'
      have ha' := List.mem_of_getElem? ha
      have hb'' := List.mem_of_getElem? hb'
      rw [mem_pyRange] at ha' hb''
      exact ⟨a, b, by omega, by omega, le_nHigh hb (by omega), le_nHigh hb (by omega), ha'.1, hb''.1, he⟩
    · cases he
  intro l hl f hf
  simp only [List.mem_singleton] at hl
  subst hl
  rw [List.mem_append] at hf
  rcases hf with hf | hf
  · -- the preamble: the first path element succeeded, so both count ranges are non-empty
    obtain ⟨cnt, hcnt⟩ : ∃ cnt, (pyRange (nLow id L1 bmax1) (nHigh id L1 bmin + 1)).length
        + (pyRange (nLow id L2 bmax2) (nHigh id L2 bmin + 1)).length - 1 = cnt + 1 :=
      ⟨_, (Nat.succ_pred_eq_of_ne_zero hiters).symm⟩
    obtain ⟨part, hp⟩ := m1 (0, 0) (by rw [hcnt]; exact zPath_head _ _ _)
    obtain ⟨a, b, ha, hb', hale, hble, hamin, hbmin, _⟩ := elem (0, 0) part hp
    have e1 : ((nLow id L1 bmax1 : Int) : Rat) ≤ (a : Rat) := by exact_mod_cast hamin
    have e2 : ((nLow id L2 bmax2 : Int) : Rat) ≤ (b : Rat) := by exact_mod_cast hbmin
    exact zonedPre_good hb t1 t2 (by nlinarith) (by nlinarith) f hf
  · rw [List.mem_flatten] at hf
    obtain ⟨part, hpart, hfp⟩ := hf
    obtain ⟨jk, _, he⟩ := m2 part hpart
    obtain ⟨a, b, ha, hb', hale, hble, _, _, hz⟩ := elem jk part he
    exact zonedRectangleDomain_good hb hL ha hb' hale hble hz f hfp

theorem biRectangleZonedNested_good {Lx Ly bmin bmaxx bmaxy : Rat} (hb : 0 < bmin) (hbx : 0 < bmaxx) (hby : 0 < bmaxy)
    (hLx : 0 < Lx) (hLy : 0 < Ly) {lists : List (List Field)}
    (h : biRectangleZonedNested id Lx Ly bmin bmaxx bmaxy = .ok lists) :
    ∀ l ∈ lists, ∀ f ∈ l, InLand Lx Ly f ∧ Sep bmin f := by
  have hb1 : 0 < (if Lx ≥ Ly then bmaxx else bmaxy) := by split <;> assumption
  have hb2 : 0 < (if Lx ≥ Ly then bmaxy else bmaxx) := by split <;> assumption
  rw [biRectangleZonedNested_eq_core] at h
  intro l hl f hf
  exact Good.final' (zonedCore_good hb hb1 hb2 (short_pos hLx hLy) (short_le_long Lx Ly) h l hl f hf)


/-- last candidate of a bi-rectangular list: the `n₁max × n₂` grid -/
theorem biList_getLast {L1 L2 bmin bmax1 : Rat} {tr : Bool} (n2 : Int)
    (hne : nLow id L1 bmax1 < nHigh id L1 bmin + 1) :
    ((biList L1 L2 bmin bmax1 tr n2).getLast?).map List.length = some ((nHigh id L1 bmin).toNat * n2.toNat) := by
  have hne' : pyRange (nLow id L1 bmax1) (nHigh id L1 bmin + 1) ≠ [] := by
    rw [Ne, pyRange_eq_nil]; omega
  unfold biList
  rw [if_neg hne']
  have hlast : (pyRange (nLow id L1 bmax1) (nHigh id L1 bmin + 1)).getLast? = some (nHigh id L1 bmin) := by
    unfold pyRange
    have e : (nHigh id L1 bmin + 1 - nLow id L1 bmax1).toNat = (nHigh id L1 bmin - nLow id L1 bmax1).toNat + 1 := by omega
    rw [e, List.range_succ, List.map_append, List.getLast?_append]
    simp
    omega
  rw [List.getLast?_append, List.getLast?_map, hlast]
  simp

theorem biList_head {L1 L2 bmin bmax1 : Rat} {tr : Bool} (n2 : Int) (h2 : 2 ≤ nLow id L1 bmax1)
    (hne : nLow id L1 bmax1 < nHigh id L1 bmin + 1) :
    ((biList L1 L2 bmin bmax1 tr n2).head?).map List.length = some 1 := by
  have hne' : pyRange (nLow id L1 bmax1) (nHigh id L1 bmin + 1) ≠ [] := by
    rw [Ne, pyRange_eq_nil]; omega
  unfold biList
  rw [if_neg hne']
  unfold biPre
  rw [pyRange_cons (show (1 : Int) < nLow id L1 bmax1 by omega)]
  simp

/-- The outer list of the bi-rectangle search (`Bisection2D`: one borehole, then the last
    candidate of every inner list) is ordered by non-decreasing count. -/
theorem outer_sorted {L1 L2 bmin bmax1 : Rat} {tr : Bool} (lo hi : Int) (hlo : 0 ≤ lo)
    (hne : nLow id L1 bmax1 < nHigh id L1 bmin + 1) :
    (((pyRange lo hi).map (biList L1 L2 bmin bmax1 tr)).map
        (fun l => ((l.getLast?).map List.length).getD 0)).Pairwise (· ≤ ·) := by
  rw [List.map_map, List.pairwise_map]
  refine List.Pairwise.imp_of_mem ?_ (pyRange_pairwise_lt lo hi)
  intro a b ha hb hab
  rw [mem_pyRange] at ha hb
  simp only [Function.comp, biList_getLast _ hne, Option.getD_some]
  exact Nat.mul_le_mul_left _ (by omega)


/-! ### which inputs raise -/
/-- `zoned_rectangle` does not raise when the interior counts fit. -/
theorem zonedRectangle_ok {nx ny nix nit : Int} (sx sy : Rat) (h1 : 0 ≤ nix) (h2 : 0 ≤ nit)
    (hx : nix ≤ nx - 2) (hy : nit ≤ ny - 2) :
    ∃ z, zonedRectangle id nx ny sx sy nix nit = .ok z := by
  unfold zonedRectangle
  rw [if_neg (by omega), if_neg (by omega), if_neg (by omega)]
  exact ⟨_, rfl⟩

/-- the comparison `ratio_1 > ratio` of the zoned loop, in integers -/
theorem ratio_gt_iff {n1 n2 ni1 ni2 : Int} {b1 b2 : Rat} (hb1 : 0 < b1) (hb2 : 0 < b2)
    (hn1 : 2 ≤ n1) (hn2 : 2 ≤ n2) (hi1 : 0 ≤ ni1) (hi2 : 0 ≤ ni2) :
    ((iq (n1 - 1) * b1 / iq (ni1 + 1)) / (iq (n2 - 1) * b2 / iq (ni2 + 2)) > b1 / b2) ↔
      (ni1 + 1) * (n2 - 1) < (n1 - 1) * (ni2 + 2) := by
  simp only [iq]
  have a1 : (0 : Rat) < ((n1 - 1 : Int) : Rat) := by exact_mod_cast (show (0 : Int) < n1 - 1 by omega)
  have a2 : (0 : Rat) < ((n2 - 1 : Int) : Rat) := by exact_mod_cast (show (0 : Int) < n2 - 1 by omega)
  have a3 : (0 : Rat) < ((ni1 + 1 : Int) : Rat) := by exact_mod_cast (show (0 : Int) < ni1 + 1 by omega)
  have a4 : (0 : Rat) < ((ni2 + 2 : Int) : Rat) := by exact_mod_cast (show (0 : Int) < ni2 + 2 by omega)
  have e : ((n1 - 1 : Int) : Rat) * b1 / ((ni1 + 1 : Int) : Rat) / (((n2 - 1 : Int) : Rat) * b2 / ((ni2 + 2 : Int) : Rat))
      = (b1 / b2) * ((((n1 - 1) * (ni2 + 2) : Int) : Rat) / (((ni1 + 1) * (n2 - 1) : Int) : Rat)) := by
    push_cast; field_simp
  rw [e, gt_iff_lt]
  have hr : 0 < b1 / b2 := div_pos hb1 hb2
  have hden : (0 : Rat) < (((ni1 + 1) * (n2 - 1) : Int) : Rat) := by
    rw [Int.cast_mul]; exact mul_pos a3 a2
  constructor
  · intro h
    have : 1 < (((n1 - 1) * (ni2 + 2) : Int) : Rat) / (((ni1 + 1) * (n2 - 1) : Int) : Rat) := by
      by_contra hc
      have := mul_le_mul_of_nonneg_left (not_lt.mp hc) (le_of_lt hr)
      linarith
    rw [one_lt_div hden] at this
    exact_mod_cast this
  · intro h
    have h' : (((ni1 + 1) * (n2 - 1) : Int) : Rat) < (((n1 - 1) * (ni2 + 2) : Int) : Rat) := by exact_mod_cast h
    have := (one_lt_div hden).mpr h'
    nlinarith

theorem zonedLoop_ok {n1 n2 : Int} {b1 b2 : Rat} (tr : Bool) (hb1 : 0 < b1) (hb2 : 0 < b2)
    (hn1 : 3 ≤ n1) (hn2 : 3 ≤ n2) :
    ∀ (fuel : Nat) (ni1 ni2 : Int), 1 ≤ ni1 → 1 ≤ ni2 → ni1 ≤ n1 - 2 → ni2 ≤ n2 - 2 →
      (n1 - 2 - ni1) + (n2 - 2 - ni2) < (fuel : Int) →
      ∃ rest, zonedLoop id n1 n2 b1 b2 tr fuel ni1 ni2 = .ok rest := by
  intro fuel
  induction fuel with
  | zero => intro ni1 ni2 _ _ _ _ h; omega
  | succ k ih =>
    intro ni1 ni2 h1 h2 h3 h4 hf
    simp only [zonedLoop, id_eq]
    split
    · rename_i hc
      have p1 : (0 : Rat) < iq (n1 - 1) * b1 := by
        simp only [iq]; exact mul_pos (by exact_mod_cast (show (0 : Int) < n1 - 1 by omega)) hb1
      have p2 : (0 : Rat) < iq (n2 - 1) * b2 := by
        simp only [iq]; exact mul_pos (by exact_mod_cast (show (0 : Int) < n2 - 1 by omega)) hb2
      have p4 : (0 : Rat) < iq (ni2 + 2) := by simp only [iq]; exact_mod_cast (show (0 : Int) < ni2 + 2 by omega)
      rw [if_neg (ne_of_gt hb2), if_neg (by omega), if_neg (ne_of_gt (div_pos p2 p4))]
      have key := ratio_gt_iff (n1 := n1) (n2 := n2) (ni1 := ni1) (ni2 := ni2) hb1 hb2 (by omega) (by omega) (by omega) (by omega)
      by_cases hgt : (iq (n1 - 1) * b1 / iq (ni1 + 1)) / (iq (n2 - 1) * b2 / iq (ni2 + 2)) > b1 / b2
      · have hint := key.mp hgt
        -- then n_i1 can still grow
        have hlt : ni1 < n1 - 2 := by
          by_contra hc2
          have e : ni1 = n1 - 2 := by omega
          have : ni2 < n2 - 2 := by omega
          subst e
          have : (n1 - 2 + 1) * (n2 - 1) ≥ (n1 - 1) * (ni2 + 2) := by nlinarith
          omega
        simp only [hgt, if_true]
        obtain ⟨z, hz⟩ := zonedRectangle_ok (nx := n1) (ny := n2) b1 b2 (show 0 ≤ ni1 + 1 by omega) (show 0 ≤ ni2 by omega) (by omega) (by omega)
        obtain ⟨rest, hrest⟩ := ih (ni1 + 1) ni2 (by omega) h2 (by omega) h4 (by omega)
        rw [hz, hrest]
        exact ⟨_, rfl⟩
      · have hint : ¬ ((ni1 + 1) * (n2 - 1) < (n1 - 1) * (ni2 + 2)) := fun h => hgt (key.mpr h)
        have hlt : ni2 < n2 - 2 := by
          by_contra hc2
          have e : ni2 = n2 - 2 := by omega
          have : ni1 < n1 - 2 := by omega
          subst e
          apply hint
          nlinarith
        simp only [hgt, if_false]
        obtain ⟨z, hz⟩ := zonedRectangle_ok (nx := n1) (ny := n2) b1 b2 (show 0 ≤ ni1 by omega) (show 0 ≤ ni2 + 1 by omega) (by omega) (by omega)
        obtain ⟨rest, hrest⟩ := ih ni1 (ni2 + 1) h1 (by omega) h3 (by omega) (by omega)
        rw [hz, hrest]
        exact ⟨_, rfl⟩
    · exact ⟨_, rfl⟩

theorem zonedRectangleDomain_ok {L1 L2 : Rat} (tr : Bool) (hL2 : 0 < L2) (hL : L2 ≤ L1) {a b : Int} (ha : 3 ≤ a) (hb : 3 ≤ b) :
    ∃ part, zonedRectangleDomain id L1 L2 a b tr = .ok part := by
  have hge : L1 ≥ L2 := hL
  have hL1 : 0 < L1 := lt_of_lt_of_le hL2 hL
  have p1 : 0 < spacingOf id L1 a := by
    simp only [spacingOf, iq, id_eq]
    exact div_pos hL1 (by exact_mod_cast (show (0 : Int) < a - 1 by omega))
  have p2 : 0 < spacingOf id L2 b := by
    simp only [spacingOf, iq, id_eq]
    exact div_pos hL2 (by exact_mod_cast (show (0 : Int) < b - 1 by omega))
  unfold zonedRectangleDomain
  simp only [hge, if_true]
  rw [if_neg (by omega)]
  obtain ⟨z, hz⟩ := zonedRectangle_ok (nx := a) (ny := b) (spacingOf id L1 a) (spacingOf id L2 b)
    (show (0 : Int) ≤ 1 by omega) (show (0 : Int) ≤ 1 by omega) (by omega) (by omega)
  obtain ⟨rest, hrest⟩ := zonedLoop_ok tr p1 p2 ha hb (a.toNat + b.toNat) 1 1 (le_refl _) (le_refl _) (by omega) (by omega)
    (by push_cast; omega)
  rw [hz, hrest]
  exact ⟨_, rfl⟩

/-- fewer than three rows in one direction: `zoned_rectangle` raises ValueError -/
theorem zonedRectangleDomain_valueError {L1 L2 : Rat} (tr : Bool) (hL : L2 ≤ L1) {a b : Int} (ha : 2 ≤ a) (hb : 2 ≤ b)
    (h3 : a < 3 ∨ b < 3) : zonedRectangleDomain id L1 L2 a b tr = .error .valueError := by
  have hge : L1 ≥ L2 := hL
  unfold zonedRectangleDomain
  simp only [hge, if_true]
  rw [if_neg (by omega)]
  have : zonedRectangle id a b (spacingOf id L1 a) (spacingOf id L2 b) 1 1 = .error .valueError := by
    unfold zonedRectangle
    by_cases c : (1 : Int) > a - 2
    · rw [if_pos c]
    · rw [if_neg c, if_pos (by omega)]
  rw [this]

theorem mapM_all_ok {α β : Type} (f : α → Py β) (l : List α) (h : ∀ x ∈ l, ∃ y, f x = .ok y) :
    ∃ r, l.mapM f = .ok r := by
  induction l with
  | nil => exact ⟨[], rfl⟩
  | cons a l ih =>
    obtain ⟨y, hy⟩ := h a (by simp)
    obtain ⟨r, hr⟩ := ih (fun x hx => h x (by simp [hx]))
    refine ⟨y :: r, ?_⟩
    rw [List.mapM_cons, hy, hr]; rfl

theorem mapM_head_error {α β : Type} (f : α → Py β) (a : α) (l : List α) (e : PyErr) (h : f a = .error e) :
    (a :: l).mapM f = .error e := by
  rw [List.mapM_cons, h]; rfl

theorem zPath_bounds (len1 len2 : Nat) :
    ∀ (cnt i j k : Nat), (cnt = 0 ∨ (j < len1 ∧ k < len2 ∧ cnt + j + k + 1 ≤ len1 + len2)) →
      ∀ p ∈ zPath len1 len2 cnt i j k, p.1 < len1 ∧ p.2 < len2 := by
  intro cnt
  induction cnt with
  | zero => intro i j k _ p hp; simp [zPath] at hp
  | succ c ih =>
    intro i j k h p hp
    rcases h with h | ⟨hj, hk, hc⟩
    · omega
    unfold zPath at hp
    rw [List.mem_cons] at hp
    rcases hp with rfl | hp
    · exact ⟨hj, hk⟩
    · split at hp
      · split at hp
        · exact ih _ _ _ (Or.inr ⟨by omega, hk, by omega⟩) p hp
        · exact ih _ _ _ (by omega) p hp
      · split at hp
        · exact ih _ _ _ (Or.inr ⟨hj, by omega, by omega⟩) p hp
        · exact ih _ _ _ (by omega) p hp

theorem length_pyRange (lo hi : Int) : (pyRange lo hi).length = (hi - lo).toNat := by simp [pyRange]

theorem pyRange_getElem? {lo hi : Int} {j : Nat} {a : Int} (h : (pyRange lo hi)[j]? = some a) : lo ≤ a ∧ a < hi := by
  have := List.mem_of_getElem? h
  rwa [mem_pyRange] at this

/-- Exactly which positive inputs make `bi_rectangle_zoned_nested` raise:
    * at most one admissible count in total: no loop pass, result `[[]]`;
    * one of the two count ranges empty (and the other with ≥ 2 counts): IndexError;
    * both non-empty but a side admits fewer than three rows at the maximum spacing: ValueError;
    * otherwise it returns a list of candidates. -/
theorem zonedCore_cases {L1 L2 bmin bmax1 bmax2 : Rat} (tr : Bool) (hb : 0 < bmin) (hb1 : 0 < bmax1) (hb2 : 0 < bmax2)
    (hL2 : 0 < L2) (hL : L2 ≤ L1) :
    let len1 := (pyRange (nLow id L1 bmax1) (nHigh id L1 bmin + 1)).length
    let len2 := (pyRange (nLow id L2 bmax2) (nHigh id L2 bmin + 1)).length
    (len1 + len2 ≤ 1 → zonedCore id L1 L2 bmin bmax1 bmax2 tr = .ok [[]]) ∧
    (2 ≤ len1 + len2 → (len1 = 0 ∨ len2 = 0) → zonedCore id L1 L2 bmin bmax1 bmax2 tr = .error .indexError) ∧
    (1 ≤ len1 → 1 ≤ len2 → (nLow id L1 bmax1 < 3 ∨ nLow id L2 bmax2 < 3) →
        zonedCore id L1 L2 bmin bmax1 bmax2 tr = .error .valueError) ∧
    (1 ≤ len1 → 1 ≤ len2 → 3 ≤ nLow id L1 bmax1 → 3 ≤ nLow id L2 bmax2 →
        ∃ ls, zonedCore id L1 L2 bmin bmax1 bmax2 tr = .ok ls) := by
  intro len1 len2
  have hL1 : 0 < L1 := lt_of_lt_of_le hL2 hL
  have t1 := two_le_nLow hL1 hb1
  have t2 := two_le_nLow hL2 hb2
  have pre : ¬ (bmin = 0 ∨ bmax1 = 0 ∨ bmax2 = 0) := by intro h; rcases h with h | h | h <;> linarith
  have pre2 : ¬ (nLow id L1 bmax1 - 1 = 0 ∨ nLow id L2 bmax2 - 1 = 0) := by omega
  refine ⟨?_, ?_, ?_, ?_⟩
  · intro h
    unfold zonedCore
    rw [if_neg pre, if_pos (by show len1 + len2 - 1 = 0; omega)]
  · intro h2 h0
    have hz : zParts id L1 L2 bmin bmax1 bmax2 tr = .error .indexError := by
      unfold zParts
      obtain ⟨c, hc⟩ : ∃ c, len1 + len2 - 1 = c + 1 := ⟨len1 + len2 - 2, by omega⟩
      show (zPath len1 len2 (len1 + len2 - 1) 0 0 0).mapM _ = _
      rw [hc]
      unfold zPath
      apply mapM_head_error
      rcases h0 with h0 | h0
      · have : (pyRange (nLow id L1 bmax1) (nHigh id L1 bmin + 1))[(0, 0).1]? = none := by
          rw [List.getElem?_eq_none_iff]; show len1 ≤ 0; omega
        simp only [this]
      · have : (pyRange (nLow id L2 bmax2) (nHigh id L2 bmin + 1))[(0, 0).2]? = none := by
          rw [List.getElem?_eq_none_iff]; show len2 ≤ 0; omega
        simp only [this]
        split <;> simp_all
    unfold zonedCore
    rw [if_neg pre, if_neg (by show ¬ (len1 + len2 - 1 = 0); omega), if_neg pre2, hz]
  · intro h1 h2 h3
    have l1 : nLow id L1 bmax1 < nHigh id L1 bmin + 1 := by
      have := length_pyRange (nLow id L1 bmax1) (nHigh id L1 bmin + 1); change len1 = _ at this; omega
    have l2 : nLow id L2 bmax2 < nHigh id L2 bmin + 1 := by
      have := length_pyRange (nLow id L2 bmax2) (nHigh id L2 bmin + 1); change len2 = _ at this; omega
    have hz : zParts id L1 L2 bmin bmax1 bmax2 tr = .error .valueError := by
      unfold zParts
      obtain ⟨c, hc⟩ : ∃ c, len1 + len2 - 1 = c + 1 := ⟨len1 + len2 - 2, by omega⟩
      show (zPath len1 len2 (len1 + len2 - 1) 0 0 0).mapM _ = _
      rw [hc]
      unfold zPath
      apply mapM_head_error
      simp only [pyRange_cons l1, pyRange_cons l2, List.getElem?_cons_zero]
      exact zonedRectangleDomain_valueError tr hL t1 t2 h3
    unfold zonedCore
    rw [if_neg pre, if_neg (by show ¬ (len1 + len2 - 1 = 0); omega), if_neg pre2, hz]
  · intro h1 h2 h3 h4
    have hb := zPath_bounds len1 len2 (len1 + len2 - 1) 0 0 0 (Or.inr ⟨by omega, by omega, by omega⟩)
    have hz : ∃ parts, zParts id L1 L2 bmin bmax1 bmax2 tr = .ok parts := by
      unfold zParts
      apply mapM_all_ok
      intro jk hjk
      obtain ⟨q1, q2⟩ := hb jk hjk
      obtain ⟨a, ha⟩ : ∃ a, (pyRange (nLow id L1 bmax1) (nHigh id L1 bmin + 1))[jk.1]? = some a :=
        ⟨_, List.getElem?_eq_getElem q1⟩
      obtain ⟨b, hb'⟩ : ∃ b, (pyRange (nLow id L2 bmax2) (nHigh id L2 bmin + 1))[jk.2]? = some b :=
        ⟨_, List.getElem?_eq_getElem q2⟩
      simp only [ha, hb']
      exact zonedRectangleDomain_ok tr hL2 hL (by have := pyRange_getElem? ha; omega) (by have := pyRange_getElem? hb'; omega)
    obtain ⟨parts, hparts⟩ := hz
    unfold zonedCore
    rw [if_neg pre, if_neg (by show ¬ (len1 + len2 - 1 = 0); omega), if_neg pre2, hparts]
    exact ⟨_, rfl⟩


/-! ### rounding-robustness of `rectangular` -/

theorem nearP_trIf {δ : Rat} (tr : Bool) {fR f : Field} (h : List.Forall₂ (NearP δ) fR f) :
    List.Forall₂ (NearP δ) (trIf tr fR) (trIf tr f) := by
  cases tr
  · exact h
  · exact nearP_transpose h

theorem spacingOf_near {u : Rat} {R : Rat → Rat} (hR : RelErr u R) (L : Rat) (n : Int) :
    Near u (spacingOf R L n) (spacingOf id L n) := hR _

/-- closeness after the coordinate roundings: spacing rounded once, product and sum rounded -/
def delta (u : Rat) : Rat := bump u (bump u u)

theorem rectLoop_near {u : Rat} {R : Rat → Rat} (hR : RelErr u R) (hu : 0 ≤ u) {L1 L2 : Rat} {tr : Bool} {nMin : Int}
    (ns : List Int) (hdec : ∀ n ∈ ns, (rectN2Arg R L1 L2 n).floor = (rectN2Arg id L1 L2 n).floor)
    (n2old : Int) (first : Bool) :
    List.Forall₂ (List.Forall₂ (NearP (delta u)))
      (rectLoop R L1 L2 tr nMin ns n2old first) (rectLoop id L1 L2 tr nMin ns n2old first) := by
  induction ns generalizing n2old first with
  | nil => simp only [rectLoop]; exact List.Forall₂.nil
  | cons n rest ih =>
    have hs := spacingOf_near hR L1 n
    have rn : ∀ a b : Int, List.Forall₂ (NearP (delta u))
        (trIf tr (rectangle R a b (spacingOf R L1 n) (spacingOf R L1 n)))
        (trIf tr (rectangle id a b (spacingOf id L1 n) (spacingOf id L1 n))) :=
      fun a b => nearP_trIf tr (rectangle_near hR hu a b hs hs)
    simp only [rectLoop]
    rw [hdec n (by simp)]
    refine forall₂_append (forall₂_append ?_ ?_) (ih (fun m hm => hdec m (by simp [hm])) _ _)
    · cases first
      · simp only [Bool.false_eq_true, if_false]; exact List.Forall₂.nil
      · simp only [if_true, rectPre]
        exact forall₂_append (forall₂_map_same _ _ _ (fun i _ => rn i 1)) (forall₂_map_same _ _ _ (fun j _ => rn nMin j))
    · split
      · exact List.Forall₂.nil
      · exact List.Forall₂.cons (rn _ _) List.Forall₂.nil

theorem rectangular_eqR (R : Rat → Rat) {Lx Ly bmin bmax : Rat} (hb : 0 < bmin) (hbm : 0 < bmax) (hLx : 0 < Lx) (hLy : 0 < Ly)
    (h2 : 2 ≤ nLow R (long Lx Ly) bmax) :
    rectangular R Lx Ly bmin bmax =
      .ok (rectLoop R (long Lx Ly) (short Lx Ly) (trOf Lx Ly) (nLow R (long Lx Ly) bmax)
            (pyRange (nLow R (long Lx Ly) bmax) (nHigh R (long Lx Ly) bmin + 1)) 1 true) := by
  have hL := long_pos hLx hLy
  unfold rectangular
  simp only []
  rw [if_neg (by intro h; rcases h with h | h <;> linarith), if_neg]
  · rfl
  · rintro ⟨_, h | h⟩
    · rw [mem_pyRange] at h
      change nLow R (long Lx Ly) bmax ≤ 1 ∧ _ at h
      omega
    · change long Lx Ly = 0 at h
      linarith

/-- `rectangular` computed with a rounding `R` that takes the same branches as exact arithmetic
    returns the same list shape with every coordinate `delta u`-close. -/
theorem rectangular_near {u : Rat} {R : Rat → Rat} (hR : RelErr u R) (hu : 0 ≤ u) {Lx Ly bmin bmax : Rat}
    (hb : 0 < bmin) (hbm : 0 < bmax) (hLx : 0 < Lx) (hLy : 0 < Ly)
    (h1 : nLow R (long Lx Ly) bmax = nLow id (long Lx Ly) bmax)
    (h2 : nHigh R (long Lx Ly) bmin = nHigh id (long Lx Ly) bmin)
    (h3 : ∀ n ∈ pyRange (nLow id (long Lx Ly) bmax) (nHigh id (long Lx Ly) bmin + 1),
        (rectN2Arg R (long Lx Ly) (short Lx Ly) n).floor = (rectN2Arg id (long Lx Ly) (short Lx Ly) n).floor) :
    ∃ fsR fs, rectangular R Lx Ly bmin bmax = .ok fsR ∧ rectangular id Lx Ly bmin bmax = .ok fs ∧
      List.Forall₂ (List.Forall₂ (NearP (delta u))) fsR fs := by
  have t2 := two_le_nLow (long_pos hLx hLy) hbm
  refine ⟨_, _, rectangular_eqR R hb hbm hLx hLy (by rw [h1]; exact t2), rectangular_eq hb hbm hLx hLy, ?_⟩
  rw [h1, h2]
  exact rectLoop_near hR hu _ h3 _ _


/-- A perturbation smaller than the distance of `y` to every integer does not change `floor`. -/
theorem floor_eq_of_clear {x y δ : Rat} (h : |x - y| ≤ δ) (hc : ∀ k : Int, δ < |y - (k : Rat)|) : x.floor = y.floor := by
  have h1 := Rat.floor_le y
  have h2 := Rat.lt_floor_add_one y
  have c1 := hc y.floor
  have c2 := hc (y.floor + 1)
  rw [abs_of_nonneg (by linarith)] at c1
  rw [abs_of_neg (by linarith)] at c2
  obtain ⟨a, b⟩ := abs_le.mp h
  apply le_antisymm
  · have : x.floor < y.floor + 1 := by rw [Rat.floor_lt_iff]; linarith
    omega
  · rw [Rat.le_floor_iff]; linarith

theorem ceil_eq_of_clear {x y δ : Rat} (h : |x - y| ≤ δ) (hc : ∀ k : Int, δ < |y - (k : Rat)|) : x.ceil = y.ceil := by
  have h1 : y ≤ (y.ceil : Rat) := Rat.le_ceil
  have h2 : ((y.ceil - 1 : Int) : Rat) < y := by rw [← Rat.lt_ceil_iff]; omega
  have c1 := hc y.ceil
  have c2 := hc (y.ceil - 1)
  rw [abs_of_nonpos (by linarith)] at c1
  rw [abs_of_pos (by linarith)] at c2
  obtain ⟨a, b⟩ := abs_le.mp h
  push_cast at h2 c2
  apply le_antisymm
  · rw [Rat.ceil_le_iff]; linarith
  · have : y.ceil - 1 < x.ceil := by rw [Rat.lt_ceil_iff]; push_cast; linarith
    omega

/-- error of `R (R q + 1)` (the arguments of `ceil(L/b_max + 1)`, `floor(L/b_min + 1)`) -/
theorem arg1_err {u : Rat} {R : Rat → Rat} (hR : RelErr u R) (hu : 0 ≤ u) (hu1 : u ≤ 1) {q : Rat} (hq : 0 ≤ q) :
    |R (R q + 1) - (q + 1)| ≤ 3 * u * (q + 1) := by
  have e1 := hR q
  rw [abs_of_nonneg hq] at e1
  have e2 := hR (R q + 1)
  obtain ⟨a, b⟩ := abs_le.mp e1
  have hs : 0 ≤ R q + 1 := by nlinarith
  rw [abs_of_nonneg hs] at e2
  have tri : |R (R q + 1) - (q + 1)| ≤ |R (R q + 1) - (R q + 1)| + |R q - q| := by
    have := abs_add_le (R (R q + 1) - (R q + 1)) (R q - q)
    have e : R (R q + 1) - (R q + 1) + (R q - q) = R (R q + 1) - (q + 1) := by ring
    rwa [e] at this
  have : u * (R q + 1) ≤ u * ((1 + u) * q + 1) := mul_le_mul_of_nonneg_left (by linarith) hu
  nlinarith

theorem nHigh_eq_of_clear {u : Rat} {R : Rat → Rat} (hR : RelErr u R) (hu : 0 ≤ u) (hu1 : u ≤ 1) {L b : Rat}
    (hq : 0 ≤ L / b) (hc : ∀ k : Int, 3 * u * (L / b + 1) < |L / b + 1 - (k : Rat)|) :
    nHigh R L b = nHigh id L b := by
  simp only [nHigh, id_eq]
  exact floor_eq_of_clear (arg1_err hR hu hu1 hq) hc

theorem nLow_eq_of_clear {u : Rat} {R : Rat → Rat} (hR : RelErr u R) (hu : 0 ≤ u) (hu1 : u ≤ 1) {L b : Rat}
    (hq : 0 ≤ L / b) (hc : ∀ k : Int, 3 * u * (L / b + 1) < |L / b + 1 - (k : Rat)|) :
    nLow R L b = nLow id L b := by
  simp only [nLow, id_eq]
  exact ceil_eq_of_clear (arg1_err hR hu hu1 hq) hc

/-- error of the argument of `n_2 = floor(length_2 / b + 1)` with `b = R (length_1 / (n - 1))` -/
theorem rectN2Arg_err {u : Rat} {R : Rat → Rat} (hR : RelErr u R) (hu : 0 ≤ u) (hu1 : u ≤ 1 / 8) {L1 L2 : Rat}
    (hL1 : 0 < L1) (hL2 : 0 ≤ L2) {n : Int} (hn : 2 ≤ n) :
    |rectN2Arg R L1 L2 n - rectN2Arg id L1 L2 n| ≤ 7 * u * rectN2Arg id L1 L2 n := by
  have hbpos : 0 < spacingOf id L1 n := by
    simp only [spacingOf, iq, id_eq]
    exact div_pos hL1 (by exact_mod_cast (show (0 : Int) < n - 1 by omega))
  have hq : 0 ≤ L2 / spacingOf id L1 n := div_nonneg hL2 (le_of_lt hbpos)
  have n1 : Near (2 * u) (L2 / spacingOf R L1 n) (L2 / spacingOf id L1 n) :=
    (spacingOf_near hR L1 n).div_left L2 hbpos hu (by linarith)
  have n2 : Near (bump u (2 * u)) (R (L2 / spacingOf R L1 n)) (L2 / spacingOf id L1 n) := n1.round hR hu
  set q := L2 / spacingOf id L1 n with hqdef
  set t := R (L2 / spacingOf R L1 n) with htdef
  have e1 : |t - q| ≤ bump u (2 * u) * q := by have := n2; unfold Near at this; rwa [abs_of_nonneg hq] at this
  have hb4 : bump u (2 * u) ≤ 4 * u := by unfold bump; nlinarith
  have e1' : |t - q| ≤ 4 * u * q := le_trans e1 (mul_le_mul_of_nonneg_right hb4 hq)
  obtain ⟨a, b⟩ := abs_le.mp e1'
  have h4 : 4 * u * q ≤ 1 / 2 * q := mul_le_mul_of_nonneg_right (by linarith) hq
  have ht : 0 ≤ t + 1 := by linarith
  have e2 := hR (t + 1)
  rw [abs_of_nonneg ht] at e2
  show |R (t + 1) - (id (id q + 1))| ≤ 7 * u * (id (id q + 1))
  simp only [id_eq]
  have tri : |R (t + 1) - (q + 1)| ≤ |R (t + 1) - (t + 1)| + |t - q| := by
    have := abs_add_le (R (t + 1) - (t + 1)) (t - q)
    have e : R (t + 1) - (t + 1) + (t - q) = R (t + 1) - (q + 1) := by ring
    rwa [e] at this
  have h5 : u * (t + 1) ≤ u * (3 / 2 * q + 1) := mul_le_mul_of_nonneg_left (by linarith) hu
  nlinarith


theorem delta_bounds {u : Rat} (hu : 0 ≤ u) (hu1 : u ≤ 1 / 8) : 0 ≤ delta u ∧ delta u ≤ 4 * u := by
  unfold delta bump
  constructor
  · positivity
  · nlinarith [mul_nonneg hu hu, mul_nonneg (mul_nonneg hu hu) hu]

theorem forall₂_mem_left' {α β : Type} {P : α → β → Prop} {l1 : List α} {l2 : List β} (h : List.Forall₂ P l1 l2) :
    ∀ a ∈ l1, ∃ b ∈ l2, P a b := forall₂_mem_left h

/-- **Rounding-robust version of the rectangle theorems.**  For any rounding `R` of relative error
    `u ≤ 1/8` and any positive input none of whose `floor`/`ceil` arguments lies within the stated
    multiple of `u` of an integer, `rectangular` computed with `R` does not raise, has the list
    shape of the exact instance, every coordinate is within relative `delta u ≤ 4u` of the exact
    one, hence every candidate is on the land enlarged by `1 + delta u` and its boreholes are
    separated by `b_min − 2·delta u·max(Lx, Ly)`. -/
theorem rectangular_robust {u : Rat} {R : Rat → Rat} (hR : RelErr u R) (hu : 0 ≤ u) (hu1 : u ≤ 1 / 8)
    {Lx Ly bmin bmax : Rat} (hb : 0 < bmin) (hbm : 0 < bmax) (hLx : 0 < Lx) (hLy : 0 < Ly)
    (c1 : ∀ k : Int, 3 * u * (long Lx Ly / bmax + 1) < |long Lx Ly / bmax + 1 - (k : Rat)|)
    (c2 : ∀ k : Int, 3 * u * (long Lx Ly / bmin + 1) < |long Lx Ly / bmin + 1 - (k : Rat)|)
    (c3 : ∀ n ∈ pyRange (nLow id (long Lx Ly) bmax) (nHigh id (long Lx Ly) bmin + 1), ∀ k : Int,
        7 * u * rectN2Arg id (long Lx Ly) (short Lx Ly) n < |rectN2Arg id (long Lx Ly) (short Lx Ly) n - (k : Rat)|) :
    ∃ fsR fs, rectangular R Lx Ly bmin bmax = .ok fsR ∧ rectangular id Lx Ly bmin bmax = .ok fs ∧
      List.Forall₂ (List.Forall₂ (NearP (delta u))) fsR fs ∧
      ∀ f ∈ fsR, InLand ((1 + delta u) * Lx) ((1 + delta u) * Ly) f ∧ Sep (bmin - 2 * delta u * max Lx Ly) f := by
  have hL1 := long_pos hLx hLy
  have hL2 := short_pos hLx hLy
  have t2 := two_le_nLow hL1 hbm
  obtain ⟨d0, d4⟩ := delta_bounds hu hu1
  have h1 := nLow_eq_of_clear hR hu (by linarith) (le_of_lt (div_pos hL1 hbm)) c1
  have h2 := nHigh_eq_of_clear hR hu (by linarith) (le_of_lt (div_pos hL1 hb)) c2
  have h3 : ∀ n ∈ pyRange (nLow id (long Lx Ly) bmax) (nHigh id (long Lx Ly) bmin + 1),
      (rectN2Arg R (long Lx Ly) (short Lx Ly) n).floor = (rectN2Arg id (long Lx Ly) (short Lx Ly) n).floor := by
    intro n hn
    have hn' := hn
    rw [mem_pyRange] at hn'
    exact floor_eq_of_clear (rectN2Arg_err hR hu hu1 hL1 (le_of_lt hL2) (by omega)) (c3 n hn)
  obtain ⟨fsR, fs, e1, e2, hnear⟩ := rectangular_near hR hu hb hbm hLx hLy h1 h2 h3
  refine ⟨fsR, fs, e1, e2, hnear, ?_⟩
  obtain ⟨fs', e2', hgood⟩ := rectangular_good hb hbm hLx hLy
  have : fs' = fs := by rw [e2] at e2'; cases e2'; rfl
  subst this
  intro f hf
  obtain ⟨g, hg, hfg⟩ := forall₂_mem_left hnear f hf
  exact approx_of_near d0 (by linarith) hfg (hgood g hg).1 (hgood g hg).2

/-- a number strictly between `m + δ` and `m + 1 − δ` is farther than `δ` from every integer -/
theorem clear_of_between {y δ : Rat} (hδ : 0 ≤ δ) (m : Int) (h1 : (m : Rat) + δ < y) (h2 : y + δ < (m : Rat) + 1) :
    ∀ k : Int, δ < |y - (k : Rat)| := by
  intro k
  by_cases hk : k ≤ m
  · have : (k : Rat) ≤ (m : Rat) := by exact_mod_cast hk
    rw [abs_of_nonneg (by linarith)]; linarith
  · have : (m : Rat) + 1 ≤ (k : Rat) := by exact_mod_cast (show m + 1 ≤ k by omega)
    rw [abs_of_neg (by linarith)]; linarith

end GHEVerif.Domains
