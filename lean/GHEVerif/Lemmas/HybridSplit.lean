/- Sums over whole years of months, and the specification of `split_loads_by_month`. -/
import GHEVerif.Lemmas.HybridProc

namespace GHEVerif.Hybrid
open GHEVerif

theorem pyRange_append (lo mid hi : Int) (h1 : lo ≤ mid) (h2 : mid ≤ hi) :
    pyRange lo hi = pyRange lo mid ++ pyRange mid hi := by
  induction hi, h2 using Int.leInduction with
  | base => rw [pyRange_empty mid mid (le_refl _)]; simp
  | succ e he ih => rw [pyRange_succ lo e (by omega), pyRange_succ mid e he, ih, List.append_assoc]

theorem pyRange_shift (lo hi k : Int) : pyRange (lo + k) (hi + k) = (pyRange lo hi).map (· + k) := by
  unfold pyRange
  rw [show hi + k - (lo + k) = hi - lo by ring, List.map_map]
  apply List.map_congr_left
  intro a _; simp; ring

theorem recAt_add12 (base : List MonthRec) (i : Int) : recAt base (i + 12) = recAt base i := by
  unfold recAt; rw [monthIndex_add12]

/-- A 12-periodic function summed over `n` whole years of months. -/
theorem sum_years (g : Int → Rat) (hg : ∀ i, g (i + 12) = g i) (n : Nat) :
    ((pyRange 1 (12 * (n : Int) + 1)).map g).sum = (n : Rat) * ((pyRange 1 13).map g).sum := by
  induction n with
  | zero => simp [pyRange_empty]
  | succ n ih =>
    have hshift : ∀ k : Nat, ((pyRange (1 + 12 * (k : Int)) (13 + 12 * (k : Int))).map g).sum = ((pyRange 1 13).map g).sum := by
      intro k
      induction k with
      | zero => simp
      | succ k ihk =>
        rw [← ihk]
        have := pyRange_shift (1 + 12 * (k : Int)) (13 + 12 * (k : Int)) 12
        rw [show (1 : Int) + 12 * ((k + 1 : Nat) : Int) = 1 + 12 * (k : Int) + 12 by push_cast; ring,
          show (13 : Int) + 12 * ((k + 1 : Nat) : Int) = 13 + 12 * (k : Int) + 12 by push_cast; ring, this, List.map_map]
        congr 1
        apply List.map_congr_left
        intro a _; simp [hg]
    rw [pyRange_append 1 (12 * (n : Int) + 1) (12 * ((n + 1 : Nat) : Int) + 1) (by omega) (by push_cast; omega)]
    rw [List.map_append, List.sum_append, ih]
    have := hshift n
    rw [show (1 : Int) + 12 * (n : Int) = 12 * (n : Int) + 1 by ring,
      show (13 : Int) + 12 * (n : Int) = 12 * ((n + 1 : Nat) : Int) + 1 by push_cast; ring] at this
    rw [this]; push_cast; ring

/-! ### split_loads_by_month -/

theorem rej_sub_ext (x : Rat) : rejection x - extraction x = -x / 1000 := by
  unfold rejection extraction ratAbs
  by_cases h : x < 0
  · have : ¬ (x ≥ 0) := by linarith
    simp [h, this]
  · have : x ≥ 0 := by linarith
    simp [h, this]; ring

theorem sum_rej_sub_ext (l : List Rat) : (l.map rejection).sum - (l.map extraction).sum = -l.sum / 1000 := by
  induction l with
  | nil => simp
  | cons a l ih =>
    simp only [List.map_cons, List.sum_cons]
    have := rej_sub_ext a
    linear_combination this + ih

theorem pySlice_map (f : Rat → Rat) (l : List Rat) (a n : Nat) : pySlice (l.map f) a n = (pySlice l a n).map f := by
  unfold pySlice; simp [List.map_take, List.map_drop]

theorem statOf_totals (rej ext : List Rat) (s : MonthStat) (h : statOf rej ext = .ok s) :
    s.cl = rej.sum ∧ s.hl = ext.sum ∧ pyMax rej = .ok s.pcl ∧ pyMax ext = .ok s.phl := by
  unfold statOf at h
  cases h1 : pyMax rej with
  | error e => rw [h1] at h; cases h
  | ok a =>
    cases h2 : pyMax ext with
    | error e => rw [h1, h2] at h; cases h
    | ok b =>
      rw [h1, h2] at h
      simp only [bind, Except.bind] at h
      cases h3 : pyDiv rej.sum (rej.length : Rat) with
      | error e => rw [h3] at h; cases h
      | ok c =>
        cases h4 : pyDiv ext.sum (ext.length : Rat) with
        | error e => rw [h3, h4] at h; cases h
        | ok d =>
          rw [h3, h4] at h
          simp only [pure, Except.pure, Except.ok.injEq] at h
          subst h
          exact ⟨rfl, rfl, rfl, rfl⟩


/-- Hours before entry `k` of a list of month lengths (days). -/
def hoursBefore (ds : List Int) (k : Nat) : Nat := ((ds.take k).map (fun d => (Gen.HRS_IN_DAY * d).toNat)).sum

theorem splitAux_spec (rej ext : List Rat) (ds : List Int) : ∀ (prev : Nat) (out : List MonthStat),
    splitAux rej ext prev ds = .ok out →
    out.length = ds.length ∧ ∀ k (hk : k < ds.length) (hk' : k < out.length),
      statOf (pySlice rej (prev + hoursBefore ds k) (Gen.HRS_IN_DAY * ds[k]).toNat)
             (pySlice ext (prev + hoursBefore ds k) (Gen.HRS_IN_DAY * ds[k]).toNat) = .ok out[k] := by
  induction ds with
  | nil =>
    intro prev out h
    simp only [splitAux, pure, Except.pure, Except.ok.injEq] at h
    subst h; simp
  | cons d ds ih =>
    intro prev out h
    simp only [splitAux, bind, Except.bind] at h
    cases h1 : statOf (pySlice rej prev (Gen.HRS_IN_DAY * d).toNat) (pySlice ext prev (Gen.HRS_IN_DAY * d).toNat) with
    | error e => rw [h1] at h; cases h
    | ok s =>
      rw [h1] at h
      simp only [] at h
      cases h2 : splitAux rej ext (prev + (Gen.HRS_IN_DAY * d).toNat) ds with
      | error e => rw [h2] at h; cases h
      | ok rest =>
        rw [h2] at h
        simp only [pure, Except.pure, Except.ok.injEq] at h
        subst h
        obtain ⟨l1, l2⟩ := ih _ _ h2
        refine ⟨by simp [l1], ?_⟩
        intro k hk hk'
        cases k with
        | zero => simpa [hoursBefore] using h1
        | succ k =>
          have := l2 k (by simpa using hk) (by simpa using hk')
          simp only [List.getElem_cons_succ]
          rw [← this]
          simp only [hoursBefore, List.take_succ_cons, List.map_cons, List.sum_cons]
          congr 2 <;> omega

end GHEVerif.Hybrid
