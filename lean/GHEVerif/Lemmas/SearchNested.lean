/- Lemmas lifting the 1D search theorems to Bisection2D / BisectionZD. -/
import GHEVerif.Lemmas.Search

namespace GHEVerif.Search
open GHEVerif

/-! ### nested searches: the selection is the selection of a 1D search of the chosen list -/

theorem bisect2D_selected {nc : List (List Nat)} {E2 : Nat → Nat → Rat → Rat} {cfg : Cfg}
    {l k : Nat} {hh : Rat} {tr : Trace2} (h : bisect2D nc E2 cfg = (.selected l k hh, tr)) :
    l < nc.length ∧ ∃ p tr', bisect1D (nc.getD l []) (E2 l) cfg = (.selected k hh p, tr') := by
  unfold bisect2D at h
  cases ho : outerCounts nc with
  | none => simp [ho] at h
  | some oc =>
    simp only [ho] at h
    generalize hr : truncDesc (nc.getD 0 []).length (bisect1D oc (outerE nc E2) cfg) = r at h
    obtain ⟨o1, t1⟩ := r
    cases o1 with
    | valueError => simp at h
    | pyError e => simp at h
    | selected key _ _ =>
      simp only at h
      cases hp : pyPrev nc.length key with
      | none => simp [hp] at h
      | some l' =>
        simp only [hp] at h
        generalize hr2 : bisect1D (nc.getD l' []) (E2 l') cfg = r2 at h
        obtain ⟨o2, t2⟩ := r2
        cases o2 with
        | valueError => simp at h
        | pyError e => simp at h
        | selected k' h' p' =>
          simp only at h
          injection h with h1 _
          injection h1 with e1 e2 e3
          subst e1; subst e2; subst e3
          refine ⟨?_, p', t2, hr2⟩
          unfold pyPrev at hp
          by_cases hn : nc.length = 0
          · simp [hn] at hp
          · simp only [hn, if_false] at hp
            by_cases hk : key = 0
            · simp only [hk, if_true] at hp; injection hp with hp; omega
            · simp only [hk, if_false] at hp
              by_cases hlt : key - 1 < nc.length
              · simp only [hlt, if_true] at hp; injection hp with hp; omega
              · simp [hlt] at hp

/-- Invariant of the `search_successive` loop: every recorded entry is the selection of the 1D
    search of its list, with total drilling `count × sized height`. -/
def DoneOK (nc : List (List Nat)) (E2 : Nat → Nat → Rat → Rat) (sz : Nat → Nat → Rat) (cfg : Cfg)
    (done : List (Nat × Nat × Rat)) : Prop :=
  ∀ e ∈ done, e.1 < nc.length ∧
    (∃ h1 p tr', bisect1D (nc.getD e.1 []) (E2 e.1) cfg = (.selected e.2.1 h1 p, tr')) ∧
    e.2.2 = ((nc.getD e.1 []).getD e.2.1 0 : Nat) * sz e.1 e.2.1

theorem zdLoop_done (nc : List (List Nat)) (E2 : Nat → Nat → Rat → Rat) (sz : Nat → Nat → Rat) (cfg : Cfg)
    (maxI : Nat) : ∀ fuel st, DoneOK nc E2 sz cfg st.done →
      DoneOK nc E2 sz cfg (zdLoop nc E2 sz cfg maxI fuel st).1.done := by
  intro fuel
  induction fuel with
  | zero => intro st h; simpa [zdLoop] using h
  | succ f ih =>
    intro st h
    unfold zdLoop
    by_cases hc : st.i < nc.length ∧ st.i < maxI
    · simp only [hc, not_true_eq_false, if_false, and_self]
      generalize hr : bisect1D (nc.getD st.i []) (E2 st.i) cfg = r
      obtain ⟨o, t⟩ := r
      cases o with
      | valueError => simpa using h
      | pyError e => simpa using h
      | selected k h1 p =>
        simp only
        have hnew : DoneOK nc E2 sz cfg (st.done ++ [(st.i, k, ((nc.getD st.i []).getD k 0 : Nat) * sz st.i k)]) := by
          intro e he
          rcases List.mem_append.mp he with he | he
          · exact h e he
          · simp at he; subst he
            exact ⟨hc.1, ⟨h1, p, t, hr⟩, rfl⟩
        by_cases hlt : st.old < ((nc.getD st.i []).getD k 0 : Nat) * sz st.i k
        · simp only [hlt, if_true]; exact hnew
        · simp only [hlt, if_false]; exact ih _ hnew
    · simp only [hc, not_false_eq_true, if_true]; exact h

theorem argMinTotal_mem {l : List (Nat × Nat × Rat)} {m : Nat × Nat × Rat} (h : argMinTotal l = some m) :
    m ∈ l ∧ ∀ e ∈ l, m.2.2 ≤ e.2.2 := by
  cases l with
  | nil => simp [argMinTotal] at h
  | cons x rest =>
    simp only [argMinTotal, Option.some.injEq] at h
    subst h
    -- fold invariant
    have key : ∀ (rest : List (Nat × Nat × Rat)) (acc : Nat × Nat × Rat) (seen : List (Nat × Nat × Rat)),
        acc ∈ seen → (∀ e ∈ seen, acc.2.2 ≤ e.2.2) →
        (rest.foldl (fun m y => if y.2.2 < m.2.2 then y else m) acc) ∈ seen ++ rest ∧
        ∀ e ∈ seen ++ rest, (rest.foldl (fun m y => if y.2.2 < m.2.2 then y else m) acc).2.2 ≤ e.2.2 := by
      intro rest
      induction rest with
      | nil => intro acc seen h1 h2; simp only [List.foldl_nil, List.append_nil]; exact ⟨h1, h2⟩
      | cons y rest ih =>
        intro acc seen h1 h2
        simp only [List.foldl_cons]
        by_cases hy : y.2.2 < acc.2.2
        · simp only [hy, if_true]
          have := ih y (seen ++ [y]) (by simp) (by
            intro e he
            rcases List.mem_append.mp he with he | he
            · exact le_trans (le_of_lt hy) (h2 e he)
            · simp at he; subst he; exact le_refl _)
          simpa [List.append_assoc] using this
        · simp only [hy, if_false]
          have := ih acc (seen ++ [y]) (List.mem_append_left _ h1) (by
            intro e he
            rcases List.mem_append.mp he with he | he
            · exact h2 e he
            · simp at he; subst he; exact not_lt.mp hy)
          simpa [List.append_assoc] using this
    have := key rest x [x] (by simp) (by intro e he; simp at he; subst he; exact le_refl _)
    simpa using this

/-- The per-list results recorded by `search_successive` (for stating the minimality). -/
def zdDone (nc : List (List Nat)) (E2 : Nat → Nat → Rat → Rat) (sz : Nat → Nat → Rat) (cfg : Cfg) :
    List (Nat × Nat × Rat) :=
  match outerCounts nc with
  | none => []
  | some oc =>
    match (bisect1D oc (outerE nc E2) cfg).1 with
    | .selected key _ _ =>
      let start := if key > 0 then key - 1 else key
      (zdLoop nc E2 sz cfg (start + 7) (nc.length + 1)
        { i := start, old := 99999, done := [], trace := tag none (bisect1D oc (outerE nc E2) cfg).2 }).1.done
    | _ => []

theorem bisectZD_selected {nc : List (List Nat)} {E2 : Nat → Nat → Rat → Rat} {sz : Nat → Nat → Rat} {cfg : Cfg}
    {l k : Nat} {hh : Rat} {tr : Trace2} (h : bisectZD nc E2 sz cfg = (.selected l k hh, tr)) :
    hh = sz l k ∧ l < nc.length ∧
      (∃ h1 p tr', bisect1D (nc.getD l []) (E2 l) cfg = (.selected k h1 p, tr')) ∧
      (∀ e ∈ zdDone nc E2 sz cfg, ((nc.getD l []).getD k 0 : Nat) * sz l k ≤ e.2.2) := by
  unfold bisectZD at h
  unfold zdDone
  cases ho : outerCounts nc with
  | none => simp [ho] at h
  | some oc =>
    simp only [ho] at h ⊢
    generalize hr : bisect1D oc (outerE nc E2) cfg = r at h ⊢
    obtain ⟨o1, t1⟩ := r
    cases o1 with
    | valueError => simp at h
    | pyError e => simp at h
    | selected key h0 p0 =>
      simp only at h ⊢
      generalize hz : zdLoop nc E2 sz cfg ((if key > 0 then key - 1 else key) + 7) (nc.length + 1)
        { i := if key > 0 then key - 1 else key, old := 99999, done := [], trace := tag none t1 } = z at h ⊢
      obtain ⟨st, err⟩ := z
      have hdone : DoneOK nc E2 sz cfg st.done := by
        have := zdLoop_done nc E2 sz cfg ((if key > 0 then key - 1 else key) + 7) (nc.length + 1)
          { i := if key > 0 then key - 1 else key, old := 99999, done := [], trace := tag none t1 }
          (by intro e he; simp at he)
        rw [hz] at this; exact this
      cases err with
      | some e => simp at h
      | none =>
        simp only at h
        cases ha : argMinTotal st.done with
        | none => simp [ha] at h
        | some m =>
          obtain ⟨ml, mk, mt⟩ := m
          simp only [ha] at h
          injection h with h1 _
          injection h1 with e1 e2 e3
          subst e1; subst e2
          obtain ⟨hmem, hmin⟩ := argMinTotal_mem ha
          obtain ⟨d1, d2, d3⟩ := hdone _ hmem
          refine ⟨e3.symm, d1, d2, ?_⟩
          intro e he
          have := hmin e he
          simp only at d3 this
          rw [← d3]; exact this


end GHEVerif.Search
