/- Lemmas about the GHE.size state machine (Model/Report.lean), shared by C01 and C12. -/
import GHEVerif.Model.Report
import GHEVerif.Lemmas.Search

namespace GHEVerif.Report
open GHEVerif GHEVerif.Search

/-- `GHE.size` is "set the mid height, solve, assign the returned height, simulate again" and the
    objective is "assign h, simulate, cost, return" — as regenerated from the source. -/
theorem size_statements' :
    Gen.sizeOps = [.setMid, .solve, .setReturned, .simulate] ∧
    Gen.objectiveOps = [.setH, .simulate, .cost, .ret] := by decide

/-- The substantive one: whatever the excess function, the bracket, Brent's iterates and answer —
    bracketed root, clamp at minimum height, clamp at maximum height — after `GHE.size` the
    simulated temperatures held by the object were computed **at the height the object now has**,
    and that height is the one `solve_root` returned.  (False before the F6 repair: with a clamp at
    the lower bound the last simulation had been at the upper bound.) -/
theorem size_simAt (f : Rat → Rat) (lo hi : Rat) (its : List Rat) (brent : Rat)
    (st st' : GState) (h : size f lo hi its brent st = .ok st') :
    st'.simAt = some st'.H ∧
      ∃ kind, solveRoot ((hi + lo) / 2) f lo hi brent = .ok (kind, st'.H) := by
  unfold size at h
  rw [size_statements'.1, size_statements'.2] at h
  simp only [runSize] at h
  cases hs : solveRoot ((hi + lo) / 2) f lo hi brent with
  | error e => simp [hs] at h
  | ok kr =>
    obtain ⟨kind, r⟩ := kr
    simp only [hs] at h
    cases kind <;> simp only at h <;> injection h with h <;> subst h <;> exact ⟨rfl, _, rfl⟩


end GHEVerif.Report
