/- Calendar lemmas for the hybrid-load group: closed forms of the translated `monthdays`,
   `first_month_hour`, `last_month_hour` (Gen/Funcs.lean), for every month. -/
import GHEVerif.Model.Hybrid
import Mathlib.Tactic.Linarith
import Mathlib.Tactic.Ring
import Mathlib.Tactic.FieldSimp
import Mathlib.Tactic.IntervalCases

namespace GHEVerif.Hybrid
open GHEVerif

theorem pyIndex_nat {α} (l : List α) (k : Nat) (h : k < l.length) : pyIndex l (k : Int) = .ok l[k] := by
  unfold pyIndex
  have h1 : ¬ ((k : Int) < 0) := by omega
  have h3 : ¬ ((l.length : Int) ≤ (k : Int)) := by omega
  simp [h1, h3, h]

theorem pyIndex_of_nonneg {α} [Inhabited α] (l : List α) (i : Int) (h0 : 0 ≤ i) (h : i < l.length) :
    pyIndex l i = .ok (l.getD i.toNat default) := by
  obtain ⟨k, rfl⟩ := Int.eq_ofNat_of_zero_le h0
  have hk : k < l.length := by omega
  rw [pyIndex_nat l k hk]; simp [hk]

/-- The month-length table `monthdays` indexes for year `y`. -/
def numDays (y : Int) : List Int := if Int.fmod y 4 = 0 then Gen.numDaysLeap else Gen.numDaysCommon

/-- Closed form of `monthdays`: the table entry of the residue of the month modulo 12
    (residue 0 is December). -/
def mdays (y : Int) (m : Int) : Int := (numDays y).getD (m % 12).toNat 0

theorem table_index (T : List Int) (hlen : T.length = 13) (h12 : T.getD 12 0 = T.getD 0 0) (m : Int) (hm : 0 ≤ m) :
    pyIndex T (if m > 12 then Int.fmod m 12 else m) = .ok (T.getD (m % 12).toNat 0) := by
  have hf : Int.fmod m 12 = m % 12 := Int.fmod_eq_emod_of_nonneg m (by norm_num)
  by_cases h : m > 12
  · simp only [h, if_true, hf]
    rw [pyIndex_of_nonneg T (m % 12) (by omega) (by omega)]; rfl
  · simp only [h, if_false]
    rw [pyIndex_of_nonneg T m hm (by omega)]
    by_cases h2 : m = 12
    · subst h2; simpa using h12
    · have : m % 12 = m := by omega
      rw [this]; rfl

theorem monthdays_eq (y : Int) (m : Int) (hm : 0 ≤ m) : Gen.monthdays m y = .ok (mdays y m) := by
  unfold Gen.monthdays
  simp only []
  have e : (if m > 12 then (pyMod m 12 >>= fun q_1 => pure q_1) else pure m : Py Int)
      = pure (if m > 12 then Int.fmod m 12 else m) := by
    by_cases h : m > 12
    · simp [h, pyMod]; rfl
    · simp [h]
  rw [e]
  simp only [pure_bind, bind_pure]
  unfold mdays numDays
  by_cases hl : Int.fmod y 4 = 0
  · simp only [hl, decide_true, if_true]
    exact table_index _ (by decide) (by decide) m hm
  · simp only [hl, decide_false, if_false]
    exact table_index _ (by decide) (by decide) m hm

theorem pyRange_succ (lo hi : Int) (h : lo ≤ hi) : pyRange lo (hi + 1) = pyRange lo hi ++ [hi] := by
  unfold pyRange
  have : (hi + 1 - lo).toNat = (hi - lo).toNat + 1 := by omega
  rw [this, List.range_succ, List.map_append]
  simp; omega

theorem pyRange_empty (lo hi : Int) (h : hi ≤ lo) : pyRange lo hi = [] := by
  unfold pyRange
  have : (hi - lo).toNat = 0 := by omega
  rw [this]; rfl

theorem mem_pyRange (lo hi i : Int) : i ∈ pyRange lo hi ↔ lo ≤ i ∧ i < hi := by
  unfold pyRange
  simp only [List.mem_map, List.mem_range]
  constructor
  · rintro ⟨k, hk, rfl⟩; omega
  · intro ⟨h1, h2⟩; exact ⟨(i - lo).toNat, by omega, by omega⟩

theorem foldlM_acc (f : Int → Int → Py Int) (g : Int → Int) (l : List Int)
    (h : ∀ acc i, i ∈ l → f acc i = .ok (acc + g i)) (a : Int) :
    List.foldlM f a l = .ok (a + (l.map g).sum) := by
  induction l generalizing a with
  | nil => simp [List.foldlM]; rfl
  | cons x xs ih =>
    rw [List.foldlM_cons, h a x (by simp)]
    show List.foldlM f (a + g x) xs = _
    rw [ih (fun acc i hi => h acc i (by simp [hi]))]
    simp [add_assoc]

theorem sum_map_mul (l : List Int) (g : Int → Int) (c : Int) :
    (l.map (fun i => g i * c)).sum = c * (l.map g).sum := by
  induction l with
  | nil => simp
  | cons a l ih => simp [List.sum_cons, ih]; ring

/-- Days in the first `n` simulated months. -/
def cumDays (y : Int) (n : Nat) : Int := ((pyRange 1 ((n : Int) + 1)).map (mdays y)).sum

theorem cumDays_zero (y : Int) : cumDays y 0 = 0 := by
  unfold cumDays; rw [pyRange_empty _ _ (by omega)]; rfl

theorem cumDays_succ (y : Int) (n : Nat) : cumDays y (n + 1) = cumDays y n + mdays y ((n : Int) + 1) := by
  unfold cumDays
  push_cast
  rw [pyRange_succ 1 ((n : Int) + 1) (by omega)]
  simp

theorem mdays_one (y : Int) : mdays y 1 = 31 := by
  unfold mdays numDays; split <;> decide

theorem lastMonthHour_eq (y : Int) (n : Nat) : Gen.lastMonthHour (n : Int) [y] = .ok (24 * cumDays y n) := by
  unfold Gen.lastMonthHour
  simp only []
  rw [foldlM_acc _ (fun i => mdays y i * Gen.HRS_IN_DAY)]
  · show (if (n : Int) = 1 then _ else _) = _
    have e24 : Gen.HRS_IN_DAY = 24 := rfl
    by_cases h1 : (n : Int) = 1
    · have : n = 1 := by omega
      subst this
      simp only [h1, if_true]
      rw [cumDays_succ, cumDays_zero, e24]; simp [mdays_one]; rfl
    · simp only [h1, if_false]
      unfold cumDays
      rw [e24, sum_map_mul]; simp; rfl
  · intro acc i hi
    rw [mem_pyRange] at hi
    have : ¬ ((([y].length : Nat) : Int) > 1) := by simp
    simp only [this, if_false]
    rw [show pyIndex [y] (0 : Int) = .ok y from rfl]
    simp only [bind, Except.bind, pure, Except.pure]
    rw [monthdays_eq y i (by omega)]


theorem mdays_fmod (y i : Int) (hi : 0 ≤ i) : mdays y (Int.fmod i 12) = mdays y i := by
  unfold mdays
  rw [Int.fmod_eq_emod_of_nonneg i (by norm_num)]
  congr 2
  omega

theorem sum_map_mul' (l : List Int) (g : Int → Int) (c : Int) :
    (l.map (fun i => c * g i)).sum = c * (l.map g).sum := by
  induction l with
  | nil => simp
  | cons a l ih => simp [List.sum_cons, ih]; ring

theorem firstMonthHour_eq (y : Int) (k : Nat) :
    Gen.firstMonthHour ((k : Int) + 1) [y] = .ok (1 + 24 * cumDays y k) := by
  unfold Gen.firstMonthHour
  simp only []
  have e24 : Gen.HRS_IN_DAY = 24 := rfl
  by_cases h1 : ((k : Int) + 1) > 1
  · simp only [h1, if_true]
    rw [foldlM_acc _ (fun i => Gen.HRS_IN_DAY * mdays y i)]
    · unfold cumDays
      rw [e24, sum_map_mul']; rfl
    · intro acc i hi
      rw [mem_pyRange] at hi
      have : ¬ ((([y].length : Nat) : Int) > 1) := by simp
      simp only [this, if_false]
      rw [show pyIndex [y] (0 : Int) = .ok y from rfl]
      simp only [bind, Except.bind, pure, Except.pure]
      rw [monthdays_eq y _ (by rw [Int.fmod_eq_emod_of_nonneg i (by norm_num)]; omega), mdays_fmod y i (by omega)]
  · have : k = 0 := by omega
    subst this
    simp [cumDays_zero]; rfl


theorem numDays_common (y : Int) (hy : Int.fmod y 4 ≠ 0) : numDays y = Gen.numDaysCommon := by
  simp [numDays, hy]

theorem mdays_nat (y : Int) (hy : Int.fmod y 4 ≠ 0) (n j : Nat) :
    mdays y ((n : Int) + (j : Int)) = Gen.numDaysCommon.getD ((n % 12 + j) % 12) 0 := by
  unfold mdays
  rw [numDays_common y hy]
  congr 1
  omega

theorem year_sum : ∀ r : Nat, r < 12 →
    ((List.range 12).map (fun j => Gen.numDaysCommon.getD ((r + (j + 1)) % 12) 0)).sum = 365 := by
  decide

theorem cumDays_add (y : Int) (n k : Nat) :
    cumDays y (n + k) = cumDays y n + ((List.range k).map (fun j => mdays y ((n : Int) + ((j + 1 : Nat) : Int)))).sum := by
  induction k with
  | zero => simp
  | succ k ih =>
    rw [← Nat.add_assoc, cumDays_succ, ih, List.range_succ, List.map_append, List.sum_append]
    simp; ring_nf

/-- A non-leap simulated year has 365 days, whatever month it starts in. -/
theorem cumDays_add12 (y : Int) (hy : Int.fmod y 4 ≠ 0) (n : Nat) : cumDays y (n + 12) = cumDays y n + 365 := by
  rw [cumDays_add]
  congr 1
  rw [← year_sum (n % 12) (Nat.mod_lt _ (by norm_num))]
  congr 1
  apply List.map_congr_left
  intro j _
  exact mdays_nat y hy n (j + 1)

theorem cumDays_mul12 (y : Int) (hy : Int.fmod y 4 ≠ 0) (q k : Nat) : cumDays y (12 * q + k) = 365 * q + cumDays y k := by
  induction q with
  | zero => simp
  | succ q ih =>
    have : 12 * (q + 1) + k = (12 * q + k) + 12 := by ring
    rw [this, cumDays_add12 y hy, ih]; push_cast; ring

/-- Days before each month of a common year (index = months elapsed). -/
def cumCommon : List Int := [0, 31, 59, 90, 120, 151, 181, 212, 243, 273, 304, 334, 365]

theorem cumDays_table (y : Int) (hy : Int.fmod y 4 ≠ 0) (k : Nat) (hk : k ≤ 12) : cumDays y k = cumCommon.getD k 0 := by
  have h := cumDays_add y 0 k
  simp only [cumDays_zero, zero_add] at h
  rw [h]
  have : ∀ j : Nat, mdays y (((0 : Nat) : Int) + ((j + 1 : Nat) : Int)) = Gen.numDaysCommon.getD ((0 % 12 + (j + 1)) % 12) 0 :=
    fun j => mdays_nat y hy 0 (j + 1)
  simp only [this]
  interval_cases k <;> decide

end GHEVerif.Hybrid
