/-
  Helper lemmas for C13 (model: GHEVerif/Model/Api.lean).

  Part 1 — one GHE: two objects that differ only in what earlier calls left behind (interpolation
  table, time axis, results, trace) behave identically, for `simulate`, the objective of `size`,
  brentq's probes, `size`, `compute_g_functions`, and hence for every sequence of operations
  (`runG_refines`).  Since fix 5ab5ff6 the interpolation table is rebuilt whenever it was built
  for another (kind, fill mode), so no hypothesis on the heights is needed.
  Part 2 — one search object: the run from any borehole height equals the run that does not know
  the height (`runSearch_sim`, `designFrom_indep`).
  Part 3 — managers and heap: what a history leaves in a manager's slots (`inv_runOps`).
-/
import GHEVerif.Model.Api
import Mathlib.Tactic.SplitIfs
namespace GHEVerif.Api
open GHEVerif

/-- What `g_function_interpolation` returns does not depend on the table it finds. -/
theorem lookupCore_reset (hs : List Rat) (tb : Option (Kind × Fill)) (h : Rat) :
    (lookupCore hs tb h).1 = (lookupCore hs none h).1 := by
  match hs with
  | [] => rfl
  | [h0] =>
      simp only [lookupCore]
      split_ifs <;> rfl
  | h0 :: h1 :: t =>
      have htb : (if tb = some (kindOf (h0 :: h1 :: t).length, fillOf (h0 :: h1 :: t) h)
                  then tb.getD (kindOf (h0 :: h1 :: t).length, fillOf (h0 :: h1 :: t) h)
                  else (kindOf (h0 :: h1 :: t).length, fillOf (h0 :: h1 :: t) h)) =
                 (kindOf (h0 :: h1 :: t).length, fillOf (h0 :: h1 :: t) h) := by
        split_ifs with hc
        · rw [hc]; rfl
        · rfl
      have htn : (if (none : Option (Kind × Fill)) = some (kindOf (h0 :: h1 :: t).length, fillOf (h0 :: h1 :: t) h)
                  then (none : Option (Kind × Fill)).getD (kindOf (h0 :: h1 :: t).length, fillOf (h0 :: h1 :: t) h)
                  else (kindOf (h0 :: h1 :: t).length, fillOf (h0 :: h1 :: t) h)) =
                 (kindOf (h0 :: h1 :: t).length, fillOf (h0 :: h1 :: t) h) := by
        split_ifs <;> rfl
      simp only [lookupCore, htb, htn]

theorem lookup_heights (gf : GF) (h : Rat) : (lookup gf h).2.heights = gf.heights := rfl

theorem lookup_reset (gf : GF) (h : Rat) :
    (lookup gf h).1 = (lookup { gf with table := none } h).1 :=
  lookupCore_reset gf.heights gf.table h

/-- Two GHE objects that differ at most in what earlier calls left behind. -/
structure Eqv (g g' : GHE) : Prop where
  st : g.st = g'.st
  field : g.field = g'.field
  hLoad : g.hLoad = g'.hLoad
  heights : g.gf.heights = g'.gf.heights
  tok : g.gf.tok = g'.gf.tok

theorem lookup_tok (gf : GF) (h : Rat) : (lookup gf h).2.tok = gf.tok := rfl

theorem simulate_eqv (K : Kernels) (b : BH) (g g' : GHE) (m : Method) (he : Eqv g g') :
    (simulate K b g m).1 = (simulate K b g' m).1 ∧ Eqv (simulate K b g m).2 (simulate K b g' m).2 ∧
    (∀ t, (simulate K b g m).1 = .ok t → (simulate K b g m).2.last = (simulate K b g' m).2.last) := by
  obtain ⟨h1, h2, h3, h4, h5⟩ := he
  have e3 : (lookup g.gf b.H).1 = (lookup g'.gf b.H).1 := by
    rw [lookup_reset g.gf, lookup_reset g'.gf]; unfold lookup; rw [h4]
  unfold simulate
  by_cases hz : b.H = 0
  · simp only [hz, if_true]; exact ⟨trivial, ⟨h1, h2, h3, h4, h5⟩, fun _ h => by cases h⟩
  · simp only [hz, if_false]
    have k1 := lookup_heights g.gf b.H
    have k2 := lookup_heights g'.gf b.H
    have q1 := lookup_tok g.gf b.H
    have q2 := lookup_tok g'.gf b.H
    rcases hL : lookup g.gf b.H with ⟨r, gf1⟩
    rcases hL' : lookup g'.gf b.H with ⟨r', gf1'⟩
    rw [hL] at k1 q1 e3
    rw [hL'] at k2 q2 e3
    simp only at k1 k2 q1 q2 e3
    subst e3
    have hh : gf1.heights = gf1'.heights := by rw [k1, k2, h4]
    have ht : gf1.tok = gf1'.tok := by rw [q1, q2, h5]
    cases r with
    | error e => exact ⟨rfl, ⟨h1, h2, h3, hh, ht⟩, fun _ h => by cases h⟩
    | ok look =>
      cases m with
      | hybrid =>
        simp only [h1, h2, h3, h5]
        exact ⟨by first | rfl | trivial, ⟨rfl, rfl, rfl, hh, ht⟩, by simp⟩
      | hourly =>
        simp only [h1, h2, h3, h5]
        split_ifs
        · exact ⟨by first | rfl | trivial, ⟨rfl, rfl, rfl, hh, ht⟩, by simp⟩
        · exact ⟨by first | rfl | trivial, ⟨rfl, rfl, rfl, hh, ht⟩, by simp⟩
      | other => exact ⟨rfl, ⟨h1, h2, h3, hh, ht⟩, fun _ h => by cases h⟩

/-- Results of a stateful GHE operation on two equivalent objects: same outcome, same borehole,
    equivalent objects. -/
structure Rel3 {α : Type} (r r' : Py α × BH × GHE) : Prop where
  out : r.1 = r'.1
  b : r.2.1 = r'.2.1
  eqv : Eqv r.2.2 r'.2.2

theorem objective_eqv (K : Kernels) (m : Method) (h : Rat) (b : BH) (g g' : GHE) (he : Eqv g g') :
    Rel3 (objective K m h b g) (objective K m h b g') := by
  have hs := simulate_eqv K { b with H := h } g g' m he
  simp only [objective]
  rcases h1 : simulate K { b with H := h } g m with ⟨r, g1⟩
  rcases h2 : simulate K { b with H := h } g' m with ⟨r', g1'⟩
  rw [h1, h2] at hs
  obtain ⟨e1, e2, _⟩ := hs
  simp only at e1 e2
  subst e1
  cases r with
  | error e => exact ⟨rfl, rfl, e2⟩
  | ok t => exact ⟨by simp only [he.st], rfl, e2⟩

theorem runProbe_eqv (K : Kernels) (m : Method) (p : Probe) :
    ∀ (b : BH) (g g' : GHE), Eqv g g' → Rel3 (runProbe K m p b g) (runProbe K m p b g') := by
  induction p with
  | ret x => intro b g g' he; exact ⟨rfl, rfl, he⟩
  | raise e => intro b g g' he; exact ⟨rfl, rfl, he⟩
  | ask h k ih =>
    intro b g g' he
    have ho := objective_eqv K m h b g g' he
    simp only [runProbe]
    rcases h1 : objective K m h b g with ⟨r, b1, g1⟩
    rcases h2 : objective K m h b g' with ⟨r', b1', g1'⟩
    rw [h1, h2] at ho
    obtain ⟨e1, e2, e3⟩ := ho
    simp only at e1 e2 e3
    subst e1; subst e2
    cases r with
    | error e => exact ⟨rfl, rfl, e3⟩
    | ok v => exact ih v b1 g1 g1' e3

theorem solveRoot_eqv (K : Kernels) (m : Method) (lo hi : Rat) (b : BH) (g g' : GHE) (he : Eqv g g') :
    Rel3 (solveRoot K m lo hi b g) (solveRoot K m lo hi b g') := by
  have ho := objective_eqv K m lo b g g' he
  simp only [solveRoot]
  rcases h1 : objective K m lo b g with ⟨r, b1, g1⟩
  rcases h2 : objective K m lo b g' with ⟨r', b1', g1'⟩
  rw [h1, h2] at ho
  obtain ⟨e1, e2, e3⟩ := ho
  simp only at e1 e2 e3
  subst e1; subst e2
  cases r with
  | error e => exact ⟨rfl, rfl, e3⟩
  | ok minus =>
    have ho2 := objective_eqv K m hi b1 g1 g1' e3
    simp only
    rcases h3 : objective K m hi b1 g1 with ⟨r2, b2, g2⟩
    rcases h4 : objective K m hi b1 g1' with ⟨r2', b2', g2'⟩
    rw [h3, h4] at ho2
    obtain ⟨f1, f2, f3⟩ := ho2
    simp only at f1 f2 f3
    subst f1; subst f2
    cases r2 with
    | error e => exact ⟨rfl, rfl, f3⟩
    | ok plus =>
      simp only
      cases sgn minus with
      | error e => exact ⟨rfl, rfl, f3⟩
      | ok sm =>
        cases sgn plus with
        | error e => exact ⟨rfl, rfl, f3⟩
        | ok sp =>
          simp only
          split_ifs
          · exact runProbe_eqv K m _ b2 g2 g2' f3
          · exact ⟨rfl, rfl, f3⟩
          · exact ⟨rfl, rfl, f3⟩

theorem size_eqv (K : Kernels) (m : Method) (b : BH) (g g' : GHE) (he : Eqv g g') :
    Rel3 (size K m b g) (size K m b g') ∧
    (∀ u, (size K m b g).1 = .ok u → (size K m b g).2.2.last = (size K m b g').2.2.last) := by
  have hr := solveRoot_eqv K m g.st.sim.minH g.st.sim.maxH
    { b with H := (g.st.sim.maxH + g.st.sim.minH) / 2 } g g' he
  simp only [size]
  rw [← he.st]
  rcases h1 : solveRoot K m g.st.sim.minH g.st.sim.maxH { b with H := (g.st.sim.maxH + g.st.sim.minH) / 2 } g with ⟨r, b1, g1⟩
  rcases h2 : solveRoot K m g.st.sim.minH g.st.sim.maxH { b with H := (g.st.sim.maxH + g.st.sim.minH) / 2 } g' with ⟨r', b1', g1'⟩
  rw [h1, h2] at hr
  obtain ⟨e1, e2, e3⟩ := hr
  simp only at e1 e2 e3
  subst e1; subst e2
  cases r with
  | error e => exact ⟨⟨rfl, rfl, e3⟩, fun _ h => by cases h⟩
  | ok x =>
    have hs := simulate_eqv K { b1 with H := x } g1 g1' m e3
    simp only
    rcases h3 : simulate K { b1 with H := x } g1 m with ⟨r2, g2⟩
    rcases h4 : simulate K { b1 with H := x } g1' m with ⟨r2', g2'⟩
    rw [h3, h4] at hs
    obtain ⟨f1, f2, f3⟩ := hs
    simp only at f1 f2 f3
    subst f1
    cases r2 with
    | error e => exact ⟨⟨rfl, rfl, f2⟩, fun _ h => by cases h⟩
    | ok t => exact ⟨⟨rfl, rfl, f2⟩, fun _ _ => f3 t rfl⟩

theorem computeG_eqv (K : Kernels) (b : BH) (g g' : GHE) (he : Eqv g g') :
    (computeG K b g).1 = (computeG K b g').1 ∧ Eqv (computeG K b g).2 (computeG K b g').2 := by
  obtain ⟨h1, h2, h3, h4, h5⟩ := he
  simp only [computeG, h1, h2]
  split_ifs
  · exact ⟨rfl, ⟨rfl, rfl, h3, rfl, rfl⟩⟩
  · exact ⟨rfl, ⟨h1, h2, h3, h4, h5⟩⟩

/-- States of one GHE + borehole that differ at most in what earlier calls left in the object. -/
def RelS (s s' : GSt) : Prop := s.b = s'.b ∧ Eqv s.g s'.g

theorem gstep_eqv (K : Kernels) (op : GOp) (s s' : GSt) (hr : RelS s s') :
    (gstep K op s).1 = (gstep K op s').1 ∧ RelS (gstep K op s).2 (gstep K op s').2 := by
  obtain ⟨hb, he⟩ := hr
  cases op with
  | setH h => exact ⟨rfl, by simp only [gstep, hb]; exact ⟨rfl, he⟩⟩
  | simulate m =>
    have h := simulate_eqv K s.b s.g s'.g m he
    simp only [gstep, ← hb]
    rcases h1 : simulate K s.b s.g m with ⟨r, g1⟩
    rcases h2 : simulate K s.b s'.g m with ⟨r', g1'⟩
    rw [h1, h2] at h
    obtain ⟨e1, e2, _⟩ := h
    simp only at e1 e2
    subst e1
    cases r <;> exact ⟨rfl, rfl, e2⟩
  | size m =>
    have h := size_eqv K m s.b s.g s'.g he
    simp only [gstep, ← hb]
    rcases h1 : size K m s.b s.g with ⟨r, b1, g1⟩
    rcases h2 : size K m s.b s'.g with ⟨r', b1', g1'⟩
    rw [h1, h2] at h
    obtain ⟨⟨e1, e2, e3⟩, e5⟩ := h
    simp only at e1 e2 e3 e5
    subst e1; subst e2
    cases r with
    | error e => exact ⟨rfl, rfl, e3⟩
    | ok u => simp only [e5 u rfl]; exact ⟨trivial, rfl, e3⟩
  | cgf =>
    have h := computeG_eqv K s.b s.g s'.g he
    simp only [gstep, ← hb]
    rcases h1 : computeG K s.b s.g with ⟨r, g1⟩
    rcases h2 : computeG K s.b s'.g with ⟨r', g1'⟩
    rw [h1, h2] at h
    obtain ⟨e1, e2⟩ := h
    simp only at e1 e2
    subst e1
    cases r <;> exact ⟨rfl, rfl, e2⟩
  | setGF tok hs => exact ⟨rfl, by simp only [gstep, hb]; exact ⟨rfl, ⟨he.st, he.field, he.hLoad, rfl, rfl⟩⟩⟩

theorem relS_reset (s s' : GSt) (hr : RelS s s') : RelS s (resetS s') := by
  obtain ⟨hb, ⟨h1, h2, h3, h4, h5⟩⟩ := hr
  exact ⟨hb, ⟨h1, h2, h3, h4, h5⟩⟩

theorem runG_refines (K : Kernels) (ops : List GOp) :
    ∀ (s s' : GSt), RelS s s' → (runG K ops s).1 = specG K ops s' := by
  induction ops with
  | nil => intro s s' _; rfl
  | cons op r ih =>
    intro s s' hr
    have h := gstep_eqv K op s (resetS s') (relS_reset s s' hr)
    simp only [runG, specG]
    rw [← h.1, ih (gstep K op s).2 (gstep K op (resetS s')).2 h.2]

/-! ## Part 2 — one search object -/

/-- The constructor of a search object does not raise for field `f` at borehole height `h0`. -/
def CtorOk (K : Kernels) (st : Static) (D rb h0 : Rat) (f : FieldId) : Prop :=
  (K.gcalcOk st f D rb h0 && K.buildOk st f D rb h0) = true

/-- Well-formedness of a search routine with respect to the borehole height it finds when it
    starts.  The flag says whether `self.ghe` was built at a height the routine itself chose.
    While it is `false` the routine may build objects at the height it found (`ctor`, must not
    raise) but may neither return nor size that object. -/
inductive Safe (ok : FieldId → Prop) : Bool → Search → Prop
  | ret (f : FieldId) : Safe ok true (.ret f)
  | raise (b : Bool) (e : PyErr) : Safe ok b (.raise e)
  | ctorU (f : FieldId) (k : Search) : ok f → Safe ok false k → Safe ok false (.ctor f k)
  | ctorK (f : FieldId) (k : Search) : Safe ok true k → Safe ok true (.ctor f k)
  | eval (b : Bool) (f : FieldId) (h : Rat) (k : Rat → Search) : (∀ v, Safe ok true (k v)) → Safe ok b (.eval f h k)
  | init (b : Bool) (f : FieldId) (h : Rat) (k : Search) : Safe ok true k → Safe ok b (.init f h k)
  | sizeCur (k : Rat → Search) : (∀ v, Safe ok true (k v)) → Safe ok true (.sizeCur k)

/-- Concrete search state `s` (height `h0` found in the shared borehole, `self.ghe` either absent or
    a never-simulated object) against the specification state `s'` that knows neither. -/
structure Unknown (h0 : Rat) (s s' : SS) : Prop where
  hH : s.H = some h0
  hH' : s'.H = none
  hcur' : s'.cur = none
  hD : s.D = s'.D
  hrb : s.rb = s'.rb
  hlog : s.log = s'.log
  htr : ∀ g, s.cur = some g → g.trace = []

theorem retire_unknown (h0 : Rat) (s s' : SS) (hu : Unknown h0 s s') : retire s = retire s' := by
  obtain ⟨_, _, hc, _, _, hl, ht⟩ := hu
  unfold retire
  rw [hc, hl]
  cases hcur : s.cur with
  | none => rfl
  | some g => simp [ht g hcur]

theorem initGHE_unknown (K : Kernels) (st : Static) (f : FieldId) (h h0 : Rat) (s s' : SS) (hu : Unknown h0 s s') :
    (initGHE K st f h s).1 = (initGHE K st f h s').1 ∧
    ((initGHE K st f h s).1 = .ok () → (initGHE K st f h s).2 = (initGHE K st f h s').2) := by
  have hr := retire_unknown h0 s s' hu
  obtain ⟨_, _, hc, hD, hrb, hl, _⟩ := hu
  simp only [initGHE, hD, hrb, hr]
  split_ifs
  · exact ⟨rfl, fun h => by cases h⟩
  · refine ⟨rfl, fun _ => ?_⟩
    cases s; cases s'; simp_all
  · exact ⟨rfl, fun h => by cases h⟩

theorem runSearch_sim (K : Kernels) (st : Static) (h0 : Rat) (D rb : Rat) (t : Search) (b : Bool)
    (hs : Safe (CtorOk K st D rb h0) b t) :
    ∀ (s s' : SS), b = false → Unknown h0 s s' → s.D = D → s.rb = rb →
      (runSearch K st t s).1 = (runSearch K st t s').1 ∧
      (∀ f, (runSearch K st t s).1 = .ok f → (runSearch K st t s).2 = (runSearch K st t s').2) := by
  induction hs with
  | ret f => intro s s' hb; cases hb
  | raise b e => intro s s' _ _ _ _; exact ⟨rfl, fun f h => by cases h⟩
  | ctorU f k hok _ ih =>
    intro s s' hb hu hD hrb
    have hr := retire_unknown h0 s s' hu
    have hu' := hu
    obtain ⟨hH, hH', hc, hD', hrb', hl, htr⟩ := hu
    simp only [runSearch, hH, hH']
    have : (K.gcalcOk st f s.D s.rb h0 && K.buildOk st f s.D s.rb h0) = true := by rw [hD, hrb]; exact hok
    simp only [this, if_true]
    exact ih { H := some h0, D := s.D, rb := s.rb, cur := some (mkGHE st f h0), log := retire s }
      { H := none, D := s'.D, rb := s'.rb, cur := none, log := retire s' } rfl
      ⟨rfl, rfl, rfl, hD', hrb', hr, fun g hg => by cases hg; rfl⟩ hD hrb
  | ctorK f k _ _ => intro s s' hb; cases hb
  | eval b f h k _ _ =>
    intro s s' _ hu _ _
    have hi := initGHE_unknown K st f h h0 s s' hu
    simp only [runSearch]
    rcases h1 : initGHE K st f h s with ⟨r, s1⟩
    rcases h2 : initGHE K st f h s' with ⟨r', s1'⟩
    rw [h1, h2] at hi
    obtain ⟨e1, e2⟩ := hi
    simp only at e1 e2
    subst e1
    cases r with
    | error e => exact ⟨rfl, fun f h => by cases h⟩
    | ok u => cases u; rw [e2 rfl]; exact ⟨rfl, fun _ _ => rfl⟩
  | init b f h k _ _ =>
    intro s s' _ hu _ _
    have hi := initGHE_unknown K st f h h0 s s' hu
    simp only [runSearch]
    rcases h1 : initGHE K st f h s with ⟨r, s1⟩
    rcases h2 : initGHE K st f h s' with ⟨r', s1'⟩
    rw [h1, h2] at hi
    obtain ⟨e1, e2⟩ := hi
    simp only at e1 e2
    subst e1
    cases r with
    | error e => exact ⟨rfl, fun f h => by cases h⟩
    | ok u => cases u; rw [e2 rfl]; exact ⟨rfl, fun _ _ => rfl⟩
  | sizeCur k _ _ => intro s s' hb; cases hb

/-- `find_design` of a design (search, then `compute_g_functions`, `size`) gives the same outcome
    from whatever height the shared borehole holds as the specification that never sees a height. -/
theorem designFrom_indep (K : Kernels) (cfg : Config) (h0 : Rat)
    (hs : Safe (CtorOk K cfg.st cfg.D cfg.rb h0) false (K.strategy cfg)) :
    (designFrom K cfg { H := some h0, D := cfg.D, rb := cfg.rb, cur := none, log := [] }).1 = design K cfg ∧
    (∀ r, design K cfg = .ok r →
      (designFrom K cfg { H := some h0, D := cfg.D, rb := cfg.rb, cur := none, log := [] }).2.H = some r.H) := by
  have hu : Unknown h0 { H := some h0, D := cfg.D, rb := cfg.rb, cur := none, log := [] }
      { H := none, D := cfg.D, rb := cfg.rb, cur := none, log := [] } :=
    ⟨rfl, rfl, rfl, rfl, rfl, rfl, fun g h => by cases h⟩
  have h := runSearch_sim K cfg.st h0 cfg.D cfg.rb _ false hs _ _ rfl hu rfl rfl
  unfold design designFrom
  rcases h1 : runSearch K cfg.st (K.strategy cfg) { H := some h0, D := cfg.D, rb := cfg.rb, cur := none, log := [] } with ⟨r, s1⟩
  rcases h2 : runSearch K cfg.st (K.strategy cfg) { H := none, D := cfg.D, rb := cfg.rb, cur := none, log := [] } with ⟨r', s1'⟩
  rw [h1, h2] at h
  obtain ⟨e1, e2⟩ := h
  simp only at e1 e2
  subst e1
  cases r with
  | error e => exact ⟨rfl, fun r h => by cases h⟩
  | ok f =>
    have := e2 f rfl
    subst this
    refine ⟨rfl, ?_⟩
    simp only
    intro r
    split
    · split
      · intro h; cases h
      · split
        · intro h; cases h
        · intro h; cases h; rfl
    · intro h; cases h


/-! ## Part 3 — managers and the heap -/
def okUnit {α : Type} : Py α → Py Unit
  | .ok _ => .ok ()
  | .error e => .error e

/-- `find_design` on a manager whose design captured complete components: the outcome is the
    pure `design` of the captured configuration, whatever height the shared borehole holds and
    whatever else the world contains. -/
theorem findDesign_config (K : Kernels) (w : World) (m : Nat) (mg : Manager) (d : Snapshot) (st : Static) (r : Nat) (cell : BH)
    (hm : w.mgrs[m]? = some mg) (hready : mg.ready = true) (hd : mg.design = some d) (hst : d.static? = some st)
    (hr : d.bh = some r) (hc : w.heap[r]? = some cell)
    (hs : Safe (CtorOk K st cell.D cell.rb cell.H) false
            (K.strategy { st := st, geom := d.geom, D := cell.D, rb := cell.rb, keepContour := d.keepContour })) :
    (findDesign K m w).1 = okUnit (design K { st := st, geom := d.geom, D := cell.D, rb := cell.rb, keepContour := d.keepContour }) ∧
    ∀ rs, design K { st := st, geom := d.geom, D := cell.D, rb := cell.rb, keepContour := d.keepContour } = .ok rs →
      resultOf (findDesign K m w).2 m = some rs ∧ ((findDesign K m w).2.heap[r]?).map (·.H) = some rs.H := by
  have hi := designFrom_indep K { st := st, geom := d.geom, D := cell.D, rb := cell.rb, keepContour := d.keepContour } cell.H hs
  have hmlt : m < w.mgrs.length := by
    rcases Nat.lt_or_ge m w.mgrs.length with h | h
    · exact h
    · rw [List.getElem?_eq_none h] at hm; cases hm
  have hrlt : r < w.heap.length := by
    rcases Nat.lt_or_ge r w.heap.length with h | h
    · exact h
    · rw [List.getElem?_eq_none h] at hc; cases hc
  simp only [findDesign, hm, hready, hd, hst, hr, hc, Bool.not_true, Bool.false_eq_true, if_false]
  simp only at hi
  rcases h1 : designFrom K { st := st, geom := d.geom, D := cell.D, rb := cell.rb, keepContour := d.keepContour }
      { H := some cell.H, D := cell.D, rb := cell.rb, cur := none, log := [] } with ⟨res, s1⟩
  rw [h1] at hi
  obtain ⟨e1, e2⟩ := hi
  simp only at e1 e2
  rw [← e1]
  cases res with
  | error e => exact ⟨rfl, fun rs h => by cases h⟩
  | ok rs =>
    refine ⟨rfl, fun rs' h => ?_⟩
    cases h
    have := e2 rs e1.symm
    simp only [resultOf, this, Option.getD_some]
    constructor
    · simp [List.getElem?_set, hmlt]
    · simp [List.getElem?_set, hrlt]


/-- What a history has left: `n` managers; manager `m` (if it exists) holds exactly the slots `s`
    (borehole dereferenced, height dropped); every borehole reference is valid; the default
    `keep_contour` object is untouched. -/
structure Inv (m : Nat) (w : World) (n : Nat) (s : Slots) : Prop where
  len : w.mgrs.length = n
  slots : ∀ (mg : Manager), w.mgrs[m]? = some mg → absSlots w mg = s
  fresh : n ≤ m → s = {}
  refs : ∀ (i : Nat) (mg : Manager) (r : Nat), w.mgrs[i]? = some mg → mg.bh = some r → r < w.heap.length
  kc : w.keepContour = [true, false]

theorem getElem?_set' {α : Type} (l : List α) (i j : Nat) (a : α) :
    (l.set i a)[j]? = if i = j ∧ i < l.length then some a else l[j]? := by
  by_cases h : i = j
  · subst h
    by_cases h2 : i < l.length
    · simp [h2]
    · simp [h2, List.getElem?_eq_none (Nat.le_of_not_lt h2)]
  · simp [List.getElem?_set_ne h, h]

/-- A setter that goes through `updMgr`, leaves the borehole reference alone and acts on the
    slots as `g`. -/
theorem inv_updMgr (m m' : Nat) (w : World) (n : Nat) (s : Slots) (f : Manager → Manager) (g : Slots → Slots)
    (hbh : ∀ mg, (f mg).bh = mg.bh)
    (hg : ∀ (w : World) mg, absSlots w (f mg) = g (absSlots w mg))
    (hi : Inv m w n s) :
    Inv m (updMgr w m' f).2 n (if n ≤ m then s else if m' = m then g s else s) := by
  obtain ⟨hl, hs, hf, hrf, hk⟩ := hi
  unfold updMgr
  cases hm' : w.mgrs[m']? with
  | none =>
    have : ¬ (m' = m ∧ m < n) := by
      rintro ⟨rfl, h⟩
      rw [List.getElem?_eq_none_iff] at hm'
      omega
    refine ⟨hl, fun mg h => ?_, fun h => by simp [h, hf h], hrf, hk⟩
    split_ifs with h1 h2
    · exact hs mg h
    · exact absurd ⟨h2, by omega⟩ this
    · exact hs mg h
  | some mg' =>
    have hlt : m' < w.mgrs.length := by
      rcases Nat.lt_or_ge m' w.mgrs.length with h | h
      · exact h
      · rw [List.getElem?_eq_none h] at hm'; cases hm'
    refine ⟨by simp [hl], fun mg h => ?_, fun h => by simp [h, hf h], fun i mg r h hb => ?_, hk⟩
    · simp only [getElem?_set'] at h
      have hnm : ¬ n ≤ m := by
        intro hle
        have : w.mgrs[m]? = none := by rw [List.getElem?_eq_none_iff]; omega
        split_ifs at h with hc
        · omega
        · rw [this] at h; cases h
      simp only [hnm, if_false]
      split_ifs at h with hc
      · obtain ⟨rfl, _⟩ := hc
        cases h
        simp only [if_true]
        have := hs mg' hm'
        have e : absSlots { heap := w.heap, mgrs := w.mgrs.set m' (f mg'), keepContour := w.keepContour } (f mg') = absSlots w (f mg') := rfl
        rw [e, hg, this]
      · have hne : m' ≠ m := by
          intro he; exact hc ⟨he, hlt⟩
        simp only [hne, if_false]
        exact hs mg h
    · simp only [getElem?_set'] at h
      split_ifs at h with hc
      · cases h
        rw [hbh] at hb
        exact hrf m' mg' r hm' hb
      · exact hrf i mg r h hb


/-- Same component slots (everything `absSlots` reads). -/
def SameSlots (a b : Manager) : Prop :=
  a.fluid = b.fluid ∧ a.grout = b.grout ∧ a.soil = b.soil ∧ a.pipe = b.pipe ∧ a.pipeType = b.pipeType ∧
  a.bh = b.bh ∧ a.sim = b.sim ∧ a.loads = b.loads ∧ a.geom = b.geom

/-- A world change that keeps the number of managers and of borehole objects, every borehole's
    depth and radius, and every manager's component slots. -/
structure Frame (w w' : World) : Prop where
  mlen : w'.mgrs.length = w.mgrs.length
  hlen : w'.heap.length = w.heap.length
  cell : ∀ (r : Nat) (c' : BH), w'.heap[r]? = some c' → ∃ c, w.heap[r]? = some c ∧ c.D = c'.D ∧ c.rb = c'.rb
  mgr : ∀ (i : Nat) (mg' : Manager), w'.mgrs[i]? = some mg' → ∃ mg, w.mgrs[i]? = some mg ∧ SameSlots mg mg'
  kc : w'.keepContour = w.keepContour

theorem Frame.refl (w : World) : Frame w w :=
  ⟨rfl, rfl, fun _ c h => ⟨c, h, rfl, rfl⟩, fun _ mg h => ⟨mg, h, rfl, rfl, rfl, rfl, rfl, rfl, rfl, rfl, rfl⟩, rfl⟩

theorem inv_frame (m : Nat) (w w' : World) (n : Nat) (s : Slots) (hf : Frame w w') (hi : Inv m w n s) : Inv m w' n s := by
  obtain ⟨hl, hs, hfr, hrf, hk⟩ := hi
  obtain ⟨f1, f2, f3, f4, f5⟩ := hf
  refine ⟨by rw [f1, hl], fun mg' h => ?_, hfr, fun i mg' r h hb => ?_, by rw [f5, hk]⟩
  · obtain ⟨mg, h1, e1, e2, e3, e4, e5, e6, e7, e8, e9⟩ := f4 m mg' h
    rw [← hs mg h1]
    unfold absSlots
    rw [e1, e2, e3, e4, e5, e6, e7, e8, e9]
    congr 1
    cases hb : mg'.bh with
    | none => rfl
    | some r =>
      simp only [Option.bind_some]
      have hr := hrf m mg r h1 (by rw [e6, hb])
      have : ∃ c', w'.heap[r]? = some c' := by
        have : r < w'.heap.length := by rw [f2]; exact hr
        exact ⟨w'.heap[r], List.getElem?_eq_getElem this⟩
      obtain ⟨c', hc'⟩ := this
      obtain ⟨c, hc, d1, d2⟩ := f3 r c' hc'
      rw [hc', hc]; simp [d1, d2]
  · obtain ⟨mg, h1, e⟩ := f4 i mg' h
    rw [f2]
    exact hrf i mg r h1 (by rw [e.2.2.2.2.2.1, hb])

theorem frame_setDesign (K : Kernels) (m : Nat) (flow : Rat) (ft : FlowType) (w : World) : Frame w (setDesign K m flow ft w).2 := by
  unfold setDesign
  cases hm : w.mgrs[m]? with
  | none => exact Frame.refl w
  | some mg =>
    simp only
    split_ifs
    · exact Frame.refl w
    · cases hg : mg.geom with
      | none => exact Frame.refl w
      | some ge =>
        simp only
        split_ifs
        · refine ⟨by simp, rfl, fun _ c h => ⟨c, h, rfl, rfl⟩, fun i mg' h => ?_, rfl⟩
          simp only [getElem?_set'] at h
          split_ifs at h with hc
          · cases h; obtain ⟨rfl, _⟩ := hc
            exact ⟨mg, hm, rfl, rfl, rfl, rfl, rfl, rfl, rfl, rfl, hg⟩
          · exact ⟨mg', h, rfl, rfl, rfl, rfl, rfl, rfl, rfl, rfl, rfl⟩
        · exact Frame.refl w

theorem frame_findDesign (K : Kernels) (m : Nat) (w : World) : Frame w (findDesign K m w).2 := by
  unfold findDesign
  cases hm : w.mgrs[m]? with
  | none => exact Frame.refl w
  | some mg =>
    simp only
    split_ifs
    · exact Frame.refl w
    · cases hd : mg.design with
      | none => exact Frame.refl w
      | some d =>
        simp only
        cases hst : d.static? with
        | none => exact Frame.refl w
        | some st =>
          cases hr : d.bh with
          | none => exact Frame.refl w
          | some r =>
            simp only
            cases hc : w.heap[r]? with
            | none => exact Frame.refl w
            | some cell =>
              simp only
              have hcell : ∀ (x : Rat) (r' : Nat) (c' : BH), (w.heap.set r { cell with H := x })[r']? = some c' →
                  ∃ c, w.heap[r']? = some c ∧ c.D = c'.D ∧ c.rb = c'.rb := by
                intro x r' c' h
                simp only [getElem?_set'] at h
                split_ifs at h with hcc
                · cases h; obtain ⟨rfl, _⟩ := hcc; exact ⟨cell, hc, rfl, rfl⟩
                · exact ⟨c', h, rfl, rfl⟩
              split
              · exact ⟨rfl, by simp, hcell _, fun _ mg h => ⟨mg, h, rfl, rfl, rfl, rfl, rfl, rfl, rfl, rfl, rfl⟩, rfl⟩
              · refine ⟨by simp, by simp, hcell _, fun i mg' h => ?_, rfl⟩
                simp only [getElem?_set'] at h
                split_ifs at h with hcc
                · cases h; obtain ⟨rfl, _⟩ := hcc
                  exact ⟨mg, hm, rfl, rfl, rfl, rfl, rfl, rfl, rfl, rfl, rfl⟩
                · exact ⟨mg', h, rfl, rfl, rfl, rfl, rfl, rfl, rfl, rfl, rfl⟩


theorem inv_noop (m : Nat) (w : World) (n : Nat) (s : Slots) (m' : Nat) (e : PyErr) (hi : Inv m w n s) :
    Inv m (match w.mgrs[m']? with | none => ((.error .other : Py Unit), w) | some _ => (.error e, w)).2 n s := by
  cases w.mgrs[m']? <;> exact hi

theorem inv_newManager (m : Nat) (w : World) (n : Nat) (s : Slots) (hi : Inv m w n s) :
    Inv m { w with mgrs := w.mgrs ++ [{}] } (n + 1) s := by
  obtain ⟨hl, hs, hf, hrf, hk⟩ := hi
  refine ⟨by simp [hl], fun mg h => ?_, fun h => hf (by omega), fun i mg r h hb => ?_, hk⟩
  · rcases Nat.lt_or_ge m w.mgrs.length with hlt | hge
    · rw [List.getElem?_append_left hlt] at h
      exact hs mg h
    · rw [List.getElem?_append_right hge] at h
      have hm0 : m - w.mgrs.length = 0 := by
        rcases Nat.eq_zero_or_pos (m - w.mgrs.length) with h0 | h0
        · exact h0
        · rw [List.getElem?_eq_none (by simp; omega)] at h; cases h
      rw [hm0] at h
      cases h
      rw [hf (by omega)]
      rfl
  · rcases Nat.lt_or_ge i w.mgrs.length with hlt | hge
    · rw [List.getElem?_append_left hlt] at h
      exact hrf i mg r h hb
    · rw [List.getElem?_append_right hge] at h
      rcases Nat.eq_zero_or_pos (i - w.mgrs.length) with h0 | h0
      · rw [h0] at h; cases h; cases hb
      · rw [List.getElem?_eq_none (by simp; omega)] at h; cases h

theorem inv_setBorehole (m m' : Nat) (h d dia : Rat) (w : World) (n : Nat) (s : Slots) (hi : Inv m w n s) :
    Inv m (step (K := K) (.setBorehole m' h d dia) w).2 n
      (if n ≤ m then s else if m' = m then { s with bore := some (d, dia / 2) } else s) := by
  obtain ⟨hl, hs, hf, hrf, hk⟩ := hi
  simp only [step]
  cases hm' : w.mgrs[m']? with
  | none =>
    have : ¬ (m' = m ∧ m < n) := by
      rintro ⟨rfl, h⟩
      rw [List.getElem?_eq_none_iff] at hm'
      omega
    refine ⟨hl, fun mg h => ?_, fun h => by simp [h, hf h], hrf, hk⟩
    split_ifs with h1 h2
    · exact hs mg h
    · exact absurd ⟨h2, by omega⟩ this
    · exact hs mg h
  | some mg' =>
    have hlt : m' < w.mgrs.length := by
      rcases Nat.lt_or_ge m' w.mgrs.length with h | h
      · exact h
      · rw [List.getElem?_eq_none h] at hm'; cases hm'
    refine ⟨by simp [hl], fun mg hmg => ?_, fun h => by simp [h, hf h], fun i mg r hmg hb => ?_, hk⟩
    · simp only [getElem?_set'] at hmg
      have hnm : ¬ n ≤ m := by
        intro hle
        have : w.mgrs[m]? = none := by rw [List.getElem?_eq_none_iff]; omega
        split_ifs at hmg with hc
        · omega
        · rw [this] at hmg; cases hmg
      simp only [hnm, if_false]
      split_ifs at hmg with hc
      · obtain ⟨rfl, _⟩ := hc
        cases hmg
        simp only [if_true]
        rw [← hs mg' hm']
        simp [absSlots]
      · have hne : m' ≠ m := fun he => hc ⟨he, hlt⟩
        simp only [hne, if_false]
        rw [← hs mg hmg]
        unfold absSlots
        congr 1
        cases hb : mg.bh with
        | none => rfl
        | some r =>
          have := hrf m mg r hmg hb
          simp only [Option.bind_some]
          rw [List.getElem?_append_left this]
    · simp only [getElem?_set'] at hmg
      split_ifs at hmg with hc
      · cases hmg; cases hb; simp
      · have := hrf i mg r hmg hb
        simp; omega

theorem inv_step (K : Kernels) (m : Nat) (op : Op) (w : World) (n : Nat) (s : Slots) (hi : Inv m w n s) :
    Inv m (step K op w).2 (countStep op n) (slotsStep K m op n s) := by
  have hnle : ∀ s' : Slots, n ≤ m → (if n ≤ m then s else s') = s := fun _ h => by simp [h]
  cases op with
  | newManager =>
    have : slotsStep K m .newManager n s = s := by unfold slotsStep; split_ifs <;> rfl
    rw [this]; exact inv_newManager m w n s hi
  | setFluid m' v =>
    simp only [step, slotsStep, countStep]
    by_cases hok : K.fluidOk v = true
    · simp only [hok, if_true, and_true]
      exact inv_updMgr m m' w n s _ (fun s => { s with fluid := some v }) (fun _ => rfl) (fun _ _ => rfl) hi
    · have hok' : K.fluidOk v = false := by simpa using hok
      simp only [hok', Bool.false_eq_true, and_false, if_false]
      have : (if n ≤ m then s else s) = s := by split_ifs <;> rfl
      rw [this]; exact inv_noop m w n s m' _ hi
  | setGrout m' v => exact inv_updMgr m m' w n s _ (fun s => { s with grout := some v }) (fun _ => rfl) (fun _ _ => rfl) hi
  | setSoil m' v => exact inv_updMgr m m' w n s _ (fun s => { s with soil := some v }) (fun _ => rfl) (fun _ _ => rfl) hi
  | setPipe m' pt v => exact inv_updMgr m m' w n s _ (fun s => { s with pipeType := some pt, pipe := some v }) (fun _ => rfl) (fun _ _ => rfl) hi
  | setPipeType m' pt =>
    cases pt with
    | none =>
      have : slotsStep K m (.setPipeType m' none) n s = s := by unfold slotsStep; split_ifs <;> rfl
      rw [this]; exact inv_noop m w n s m' _ hi
    | some pt => exact inv_updMgr m m' w n s _ (fun s => { s with pipeType := some pt }) (fun _ => rfl) (fun _ _ => rfl) hi
  | setBorehole m' h d dia => exact inv_setBorehole (K := K) m m' h d dia w n s hi
  | setSim m' sp => exact inv_updMgr m m' w n s _ (fun s => { s with sim := some sp }) (fun _ => rfl) (fun _ _ => rfl) hi
  | setLoads m' l => exact inv_updMgr m m' w n s _ (fun s => { s with loads := some l }) (fun _ => rfl) (fun _ _ => rfl) hi
  | setGeomType m' k =>
    have : slotsStep K m (.setGeomType m' k) n s = s := by unfold slotsStep; split_ifs <;> rfl
    rw [this]
    cases k with
    | none => exact inv_noop m w n s m' _ hi
    | some k =>
      have := inv_updMgr m m' w n s (fun mg => { mg with geomType := some k }) id (fun _ => rfl) (fun _ _ => rfl) hi
      have e : (if n ≤ m then s else if m' = m then id s else s) = s := by split_ifs <;> rfl
      rw [e] at this; exact this
  | setGeom m' g => exact inv_updMgr m m' w n s _ (fun s => { s with geom := some g }) (fun _ => rfl) (fun _ _ => rfl) hi
  | setDesign m' flow ft =>
    have : slotsStep K m (.setDesign m' flow ft) n s = s := by unfold slotsStep; split_ifs <;> rfl
    rw [this]; exact inv_frame m w _ n s (frame_setDesign K m' flow ft w) hi
  | findDesign m' =>
    have : slotsStep K m (.findDesign m') n s = s := by unfold slotsStep; split_ifs <;> rfl
    rw [this]; exact inv_frame m w _ n s (frame_findDesign K m' w) hi

theorem inv_runOps (K : Kernels) (m : Nat) (hist : List Op) :
    ∀ (w : World) (n : Nat) (s : Slots), Inv m w n s →
      Inv m (runOps K hist w) (lastSlots K m hist (n, s)).1 (lastSlots K m hist (n, s)).2 := by
  induction hist with
  | nil => intro w n s hi; exact hi
  | cons op r ih => intro w n s hi; exact ih _ _ _ (inv_step K m op w n s hi)

theorem inv_empty (m : Nat) : Inv m {} 0 {} :=
  ⟨rfl, fun mg h => (by cases h), fun _ => rfl, fun i mg r h _ => (by cases h), rfl⟩


/-- Height currently held by the borehole object manager `m` refers to. -/
def boreHeight (w : World) (m : Nat) : Option Rat :=
  ((w.mgrs[m]?).bind (·.bh)).bind (fun r => (w.heap[r]?).map (·.H))

theorem config_some (s : Slots) (flow : Rat) (ft : FlowType) (kc : List Bool) (cfg : Config)
    (h : s.config? flow ft kc = some cfg) :
    s.fluid = some cfg.st.fluid ∧ s.pipe = some cfg.st.pipe ∧ s.grout = some cfg.st.grout ∧ s.soil = some cfg.st.soil ∧
    s.pipeType = some cfg.st.pipeType ∧ s.loads = some cfg.st.loads ∧ s.sim = some cfg.st.sim ∧ s.bore = some (cfg.D, cfg.rb) ∧
    s.geom = some cfg.geom ∧ cfg.st.flow = flow ∧ cfg.st.flowType = ft ∧ cfg.keepContour = kc := by
  unfold Slots.config? at h
  split at h
  · rename_i h1 h2 h3 h4 h5 h6 h7 h8 h9
    cases h
    exact ⟨h1, h2, h3, h4, h5, h6, h7, h8, h9, rfl, rfl, rfl⟩
  · cases h

def snapOf (mg : Manager) (flow : Rat) (ft : FlowType) (ge : Geom) (kc : List Bool) : Snapshot :=
  { flow := flow, flowType := ft, bh := mg.bh, pipeType := mg.pipeType, fluid := mg.fluid, pipe := mg.pipe,
    grout := mg.grout, soil := mg.soil, sim := mg.sim, geom := ge, loads := mg.loads, keepContour := kc }

theorem find_design_pure_aux (K : Kernels) (hist : List Op) (m : Nat) (flow : Rat) (ft : FlowType) (cfg : Config)
    (hcfg : (lastSlots K m hist (0, {})).2.config? flow ft [true, false] = some cfg)
    (hft : ft ≠ .other) (hgeom : K.geomOk cfg.geom [true, false] = true) (hloads : 0 < cfg.st.loads.len)
    (hsafe : ∀ h0, boreHeight (runOps K hist {}) m = some h0 →
      Safe (CtorOk K cfg.st cfg.D cfg.rb h0) false (K.strategy cfg)) :
    (step K (.findDesign m) (step K (.setDesign m flow ft) (runOps K hist {})).2).1 = okUnit (design K cfg) ∧
    ∀ rs, design K cfg = .ok rs →
      resultOf (step K (.findDesign m) (step K (.setDesign m flow ft) (runOps K hist {})).2).2 m = some rs := by
  have hi := inv_runOps K m hist {} 0 {} (inv_empty m)
  generalize runOps K hist {} = w at hi hsafe
  generalize lastSlots K m hist (0, {}) = ns at hi hcfg
  obtain ⟨n, s⟩ := ns
  simp only at hi hcfg
  obtain ⟨hl, hs, hf, hrf, hk⟩ := hi
  obtain ⟨c1, c2, c3, c4, c5, c6, c7, c8, c9, c10, c11, c12⟩ := config_some s flow ft _ cfg hcfg
  have hmn : m < n := by
    rcases Nat.lt_or_ge m n with h | h
    · exact h
    · rw [hf h] at c1; cases c1
  have hmlt : m < w.mgrs.length := by omega
  have hm : w.mgrs[m]? = some w.mgrs[m] := List.getElem?_eq_getElem hmlt
  generalize w.mgrs[m] = mg at hm
  have ha := hs mg hm
  have a1 : mg.fluid = some cfg.st.fluid := by rw [← c1, ← ha]; rfl
  have a2 : mg.pipe = some cfg.st.pipe := by rw [← c2, ← ha]; rfl
  have a3 : mg.grout = some cfg.st.grout := by rw [← c3, ← ha]; rfl
  have a4 : mg.soil = some cfg.st.soil := by rw [← c4, ← ha]; rfl
  have a5 : mg.pipeType = some cfg.st.pipeType := by rw [← c5, ← ha]; rfl
  have a6 : mg.loads = some cfg.st.loads := by rw [← c6, ← ha]; rfl
  have a7 : mg.sim = some cfg.st.sim := by rw [← c7, ← ha]; rfl
  have a9 : mg.geom = some cfg.geom := by rw [← c9, ← ha]; rfl
  have a8 : mg.bh.bind (fun r => (w.heap[r]?).map (fun c => (c.D, c.rb))) = some (cfg.D, cfg.rb) := by rw [← c8, ← ha]; rfl
  obtain ⟨r, hr, hcell⟩ : ∃ r, mg.bh = some r ∧ (w.heap[r]?).map (fun c => (c.D, c.rb)) = some (cfg.D, cfg.rb) := by
    cases hb : mg.bh with
    | none => rw [hb] at a8; cases a8
    | some r => rw [hb] at a8; exact ⟨r, rfl, a8⟩
  obtain ⟨cell, hc, hD, hrb⟩ : ∃ cell, w.heap[r]? = some cell ∧ cell.D = cfg.D ∧ cell.rb = cfg.rb := by
    cases hh : w.heap[r]? with
    | none => rw [hh] at hcell; cases hcell
    | some cell => rw [hh] at hcell; simp at hcell; exact ⟨cell, rfl, hcell.1, hcell.2⟩
  have hbh : boreHeight w m = some cell.H := by simp [boreHeight, hm, hr, hc]
  have hsf := hsafe cell.H hbh
  -- the world after set_design
  have hw1 : (step K (.setDesign m flow ft) w).2 =
      { w with mgrs := w.mgrs.set m { mg with design := some (snapOf mg flow ft cfg.geom w.keepContour) } } := by
    simp only [step, setDesign, hm, hft, if_false, a9, hk, hgeom, if_true, snapOf]
  rw [hw1]
  have hcfgeq : cfg = { st := cfg.st, geom := cfg.geom, D := cell.D, rb := cell.rb, keepContour := w.keepContour } := by
    cases cfg; simp_all
  have hst : (⟨cfg.st.fluid, cfg.st.pipe, cfg.st.grout, cfg.st.soil, cfg.st.pipeType, cfg.st.loads, cfg.st.sim, flow, ft⟩ : Static) = cfg.st := by
    rw [← c10, ← c11]
  have hm1 : ({ w with mgrs := w.mgrs.set m { mg with design := some (snapOf mg flow ft cfg.geom w.keepContour) } } : World).mgrs[m]? =
      some { mg with design := some (snapOf mg flow ft cfg.geom w.keepContour) } := by simp [hmlt]
  have key := findDesign_config K _ m _ (snapOf mg flow ft cfg.geom w.keepContour) cfg.st r cell hm1
    (by simp [Manager.ready, a1, a2, a3, a4, a6, a7, a9, hr, loadsTruthy, hloads])
    rfl
    (by simp only [snapOf, Snapshot.static?, a1, a2, a3, a4, a5, a6, a7]; rw [hst])
    hr hc (by simp only [snapOf]; rw [← hcfgeq, hD, hrb]; exact hsf)
  simp only [step]
  simp only [snapOf] at key
  rw [← hcfgeq] at key
  exact ⟨key.1, fun rs h => (key.2 rs h).1⟩


theorem step_keepContour (K : Kernels) (op : Op) (w : World) : (step K op w).2.keepContour = w.keepContour := by
  cases op with
  | newManager => rfl
  | setFluid m v => simp only [step, updMgr]; split_ifs <;> (cases w.mgrs[m]? <;> rfl)
  | setGrout m v => simp only [step, updMgr]; cases w.mgrs[m]? <;> rfl
  | setSoil m v => simp only [step, updMgr]; cases w.mgrs[m]? <;> rfl
  | setPipe m pt v => simp only [step, updMgr]; cases w.mgrs[m]? <;> rfl
  | setPipeType m pt => cases pt <;> (simp only [step, updMgr]; cases w.mgrs[m]? <;> rfl)
  | setBorehole m h d dia => simp only [step]; cases w.mgrs[m]? <;> rfl
  | setSim m sp => simp only [step, updMgr]; cases w.mgrs[m]? <;> rfl
  | setLoads m l => simp only [step, updMgr]; cases w.mgrs[m]? <;> rfl
  | setGeomType m k => cases k <;> (simp only [step, updMgr]; cases w.mgrs[m]? <;> rfl)
  | setGeom m g => simp only [step, updMgr]; cases w.mgrs[m]? <;> rfl
  | setDesign m flow ft => exact (frame_setDesign K m flow ft w).kc
  | findDesign m => exact (frame_findDesign K m w).kc

theorem runOps_keepContour (K : Kernels) (hist : List Op) : ∀ w : World, (runOps K hist w).keepContour = w.keepContour := by
  induction hist with
  | nil => intro w; rfl
  | cons op r ih => intro w; simp only [runOps]; rw [ih, step_keepContour]

theorem lastSlots_append (K : Kernels) (m : Nat) (h1 h2 : List Op) :
    ∀ a : Nat × Slots, lastSlots K m (h1 ++ h2) a = lastSlots K m h2 (lastSlots K m h1 a) := by
  induction h1 with
  | nil => intro a; rfl
  | cons op r ih => intro a; obtain ⟨n, s⟩ := a; simp only [List.cons_append, lastSlots]; exact ih _

theorem runOps_append (K : Kernels) (h1 h2 : List Op) : ∀ w : World, runOps K (h1 ++ h2) w = runOps K h2 (runOps K h1 w) := by
  induction h1 with
  | nil => intro w; rfl
  | cons op r ih => intro w; simp only [List.cons_append, runOps]; exact ih _

/-! ## Refused calls -/

theorem updMgr_error (w : World) (m : Nat) (f : Manager → Manager) (e : PyErr) (h : (updMgr w m f).1 = .error e) :
    (updMgr w m f).2 = w := by
  unfold updMgr at h ⊢
  cases hm : w.mgrs[m]? with
  | none => rfl
  | some mg => rw [hm] at h; cases h

theorem setDesign_error (K : Kernels) (m : Nat) (flow : Rat) (ft : FlowType) (w : World) (e : PyErr)
    (h : (setDesign K m flow ft w).1 = .error e) : (setDesign K m flow ft w).2 = w := by
  unfold setDesign at h ⊢
  cases hm : w.mgrs[m]? with
  | none => rfl
  | some mg =>
    rw [hm] at h
    simp only at h ⊢
    split_ifs at h ⊢ with h1
    · rfl
    · cases hg : mg.geom with
      | none => rfl
      | some ge =>
        rw [hg] at h
        simp only at h ⊢
        split_ifs at h ⊢ with h2
        all_goals rfl

/-- A refused setter / set_design call (unknown pipe type, geometry type, fluid, flow type;
    geometry missing; candidate generation raising; no such manager) leaves the whole world —
    every slot of every manager, `pipe_type`, `geom_type`, design, search, heap — exactly as it was. -/
theorem refused_call_is_identity_aux (K : Kernels) (op : Op) (w : World) (e : PyErr)
    (hop : ∀ m, op ≠ .findDesign m) (h : (step K op w).1 = .error e) : (step K op w).2 = w := by
  cases op with
  | newManager => cases h
  | setFluid m v =>
    simp only [step] at h ⊢
    split_ifs at h ⊢
    · exact updMgr_error w m _ e h
    · cases w.mgrs[m]? <;> rfl
  | setGrout m v => exact updMgr_error w m _ e h
  | setSoil m v => exact updMgr_error w m _ e h
  | setPipe m pt v => exact updMgr_error w m _ e h
  | setPipeType m pt =>
    cases pt with
    | none => simp only [step]; cases w.mgrs[m]? <;> rfl
    | some pt => exact updMgr_error w m _ e h
  | setBorehole m hh d dia =>
    simp only [step] at h ⊢
    cases hm : w.mgrs[m]? with
    | none => rfl
    | some mg => rw [hm] at h; cases h
  | setSim m sp => exact updMgr_error w m _ e h
  | setLoads m l => exact updMgr_error w m _ e h
  | setGeomType m k =>
    cases k with
    | none => simp only [step]; cases w.mgrs[m]? <;> rfl
    | some k => exact updMgr_error w m _ e h
  | setGeom m g => exact updMgr_error w m _ e h
  | setDesign m flow ft => exact setDesign_error K m flow ft w e h
  | findDesign m => exact absurd rfl (hop m)

/-- `find_design` refused by its own test (a slot empty / no design) leaves the world as it was. -/
theorem findDesign_not_ready (K : Kernels) (m : Nat) (w : World) (mg : Manager) (hm : w.mgrs[m]? = some mg)
    (hr : mg.ready = false) : findDesign K m w = (.error .valueError, w) := by
  simp [findDesign, hm, hr]


end GHEVerif.Api
