/-
  Helper lemmas for C10 (short-time radial model, Model/Radial.lean).
  1. cell table: chain (tiling), region starts, centres, thermal mass and layer-resistance telescoping;
  2. one implicit step on index functions (`StepEq`): energy balance, linearity, discrete minimum
     principle, monotonicity in time;
  3. bridge: the lists `assemble` / `rhs` build are exactly the coefficients of `StepEq`;
  4. resampling: `interpAt` (numpy.interp) bounds and monotonicity, `linspace`, `resample`.
  5. the model's own solve: `elimination_exact` (induction over the rows), `pivots_ne_zero` (strict row
     diagonal dominance), `assembled_pivots`, `triSolve_solves_assembled`, the model trajectory;
  6. whole-table positivity from valid inputs (`ValidInputs`, `core_cells_ok`, `core_coefficients_pos`).
-/
import GHEVerif.Model.Radial
import Mathlib.Tactic.Linarith
import Mathlib.Tactic.Ring
import Mathlib.Tactic.FieldSimp
import Mathlib.Tactic.Positivity
import Mathlib.Tactic.LinearCombination
import Mathlib.Data.List.Chain
import Mathlib.Data.List.Basic
import Mathlib.Data.List.GetD
import Mathlib.Data.Finset.Max
import Mathlib.Algebra.BigOperators.Group.List.Basic
import Mathlib.Algebra.BigOperators.Group.Finset.Basic
import Mathlib.Algebra.Field.Basic
import Mathlib.Algebra.CharZero.Defs
import Mathlib.Algebra.Order.Field.Basic

namespace GHEVerif.Radial
open List


section CellTable
variable {K : Type} [Field K]

@[simp] theorem regionCells_length (E : Env K) (r0 t k rc : K) (n : Nat) :
    (regionCells E r0 t k rc n).length = n := by simp [regionCells]

theorem regionCells_getElem (E : Env K) (r0 t k rc : K) (n j : Nat) (h : j < (regionCells E r0 t k rc n).length) :
    (regionCells E r0 t k rc n)[j] = fillSingleCell E (r0 + (j : K) * t) t k rc := by
  simp [regionCells]

/-- Inside one region consecutive cells share a face. -/
theorem regionCells_chain (E : Env K) (r0 t k rc : K) (n : Nat) :
    IsChain (fun a b : Cell K => a.rOut = b.rIn) (regionCells E r0 t k rc n) := by
  rw [isChain_iff_getElem]
  intro i hi
  rw [regionCells_getElem, regionCells_getElem]
  simp only [fillSingleCell]
  push_cast
  ring

theorem regionCells_head (E : Env K) (r0 t k rc : K) (n : Nat) :
    ∀ c ∈ (regionCells E r0 t k rc n).head?, c.rIn = r0 := by
  intro c hc
  cases n with
  | zero => simp [regionCells] at hc
  | succ n =>
    simp [regionCells, List.range_succ_eq_map, fillSingleCell] at hc
    subst hc; simp

theorem regionCells_last (E : Env K) (r0 r1 k rc : K) (n : Nat) (hn : (n : K) ≠ 0) :
    ∀ c ∈ (regionCells E r0 ((r1 - r0) / (n : K)) k rc n).getLast?, c.rOut = r1 := by
  intro c hc
  cases n with
  | zero => simp at hn
  | succ n =>
    simp [regionCells, List.range_succ, fillSingleCell] at hc
    subst hc
    push_cast at hn ⊢
    field_simp
    ring

theorem getLast?_append_ne {α} (A B : List α) (h : B ≠ []) : (A ++ B).getLast? = B.getLast? := by
  rw [List.getLast?_append]
  cases hB : B.getLast? with
  | none => simp [List.getLast?_eq_none_iff] at hB; exact absurd hB h
  | some b => simp

theorem regionCells_ne_nil (E : Env K) (r0 t k rc : K) (n : Nat) (h : 0 < n) : regionCells E r0 t k rc n ≠ [] := by
  intro h0
  have := congrArg List.length h0
  simp at this; omega

/-- All five regions are non-empty. -/
def Counts.Pos (C : Counts) : Prop := 0 < C.nFluid ∧ 0 < C.nConv ∧ 0 < C.nPipe ∧ 0 < C.nGrout ∧ 0 < C.nSoil

theorem core_length (E : Env K) (C : Counts) (x : Inputs K) (rf rpg : K) :
    (fillRadialCellsCore E C x rf rpg).length = C.total := by
  simp [fillRadialCellsCore, Counts.total]; omega

/-- The whole table is a chain: `r_out i = r_in (i+1)` across all five regions. -/
theorem core_chain [CharZero K] (E : Env K) (C : Counts) (hC : C.Pos) (x : Inputs K) (rf rpg : K) :
    IsChain (fun a b : Cell K => a.rOut = b.rIn) (fillRadialCellsCore E C x rf rpg) := by
  obtain ⟨h1, h2, h3, h4, h5⟩ := hC
  have c1 : (C.nFluid : K) ≠ 0 := by exact_mod_cast h1.ne'
  have c2 : (C.nConv : K) ≠ 0 := by exact_mod_cast h2.ne'
  have c3 : (C.nPipe : K) ≠ 0 := by exact_mod_cast h3.ne'
  have c4 : (C.nGrout : K) ≠ 0 := by exact_mod_cast h4.ne'
  unfold fillRadialCellsCore
  simp only [geometry]
  refine IsChain.append (IsChain.append (IsChain.append (IsChain.append (regionCells_chain ..) (regionCells_chain ..) ?_)
    (regionCells_chain ..) ?_) (regionCells_chain ..) ?_) (regionCells_chain ..) ?_
  · intro a ha b hb
    rw [regionCells_last E _ _ _ _ _ c1 a ha, regionCells_head E _ _ _ _ _ b hb]
  · intro a ha b hb
    rw [getLast?_append_ne _ _ (regionCells_ne_nil _ _ _ _ _ _ h2)] at ha
    rw [regionCells_last E _ _ _ _ _ c2 a ha, regionCells_head E _ _ _ _ _ b hb]
  · intro a ha b hb
    rw [getLast?_append_ne _ _ (regionCells_ne_nil _ _ _ _ _ _ h3)] at ha
    rw [regionCells_last E _ _ _ _ _ c3 a ha, regionCells_head E _ _ _ _ _ b hb]
  · intro a ha b hb
    rw [getLast?_append_ne _ _ (regionCells_ne_nil _ _ _ _ _ _ h4)] at ha
    rw [regionCells_last E _ _ _ _ _ c4 a ha, regionCells_head E _ _ _ _ _ b hb]


theorem core_head (E : Env K) (C : Counts) (hC : C.Pos) (x : Inputs K) (rf rpg : K) :
    ∀ c ∈ (fillRadialCellsCore E C x rf rpg).head?, c.rIn = (geometry E C x).rFluid := by
  intro c hc
  have hne := regionCells_ne_nil E (geometry E C x).rFluid (geometry E C x).thFluid
    ((Gen.Radial.conductivityFluid : Nat) : K) (rhoCpEqFluid x (geometry E C x)) C.nFluid hC.1
  unfold fillRadialCellsCore at hc
  simp only [List.append_assoc] at hc
  rw [List.head?_append] at hc
  obtain ⟨a, as, ha⟩ := List.exists_cons_of_ne_nil hne
  have := regionCells_head E (geometry E C x).rFluid (geometry E C x).thFluid
    ((Gen.Radial.conductivityFluid : Nat) : K) (rhoCpEqFluid x (geometry E C x)) C.nFluid
  rw [ha] at hc this
  simp at hc this
  rw [← hc]; exact this

theorem core_last [CharZero K] (E : Env K) (C : Counts) (hC : C.Pos) (x : Inputs K) (rf rpg : K) :
    ∀ c ∈ (fillRadialCellsCore E C x rf rpg).getLast?, c.rOut = (geometry E C x).rFar := by
  intro c hc
  have c5 : (C.nSoil : K) ≠ 0 := by exact_mod_cast hC.2.2.2.2.ne'
  unfold fillRadialCellsCore at hc
  simp only [] at hc
  rw [getLast?_append_ne _ _ (regionCells_ne_nil _ _ _ _ _ _ hC.2.2.2.2)] at hc
  simp only [geometry] at hc ⊢
  exact regionCells_last E _ _ _ _ _ c5 c hc

theorem regionCells_center (h2 : (2 : K) ≠ 0) (E : Env K) (r0 t k rc : K) (n : Nat) :
    ∀ c ∈ regionCells E r0 t k rc n, c.rC = (c.rIn + c.rOut) / 2 := by
  intro c hc
  simp only [regionCells, List.mem_map] at hc
  obtain ⟨j, _, rfl⟩ := hc
  simp only [fillSingleCell]
  push_cast
  field_simp
  ring

theorem core_center [CharZero K] (E : Env K) (C : Counts) (x : Inputs K) (rf rpg : K) :
    ∀ c ∈ fillRadialCellsCore E C x rf rpg, c.rC = (c.rIn + c.rOut) / 2 := by
  intro c hc
  simp only [fillRadialCellsCore, List.mem_append] at hc
  have h2 : (2 : K) ≠ 0 := by exact_mod_cast (two_ne_zero : (2 : ℕ) ≠ 0)
  rcases hc with (((h | h) | h) | h) | h <;> exact regionCells_center h2 E _ _ _ _ _ c h

/-- Region starts: the first cell of each region begins at the region's radius. -/
theorem core_region_starts (E : Env K) (C : Counts) (hC : C.Pos) (x : Inputs K) (rf rpg : K) :
    let cells := fillRadialCellsCore E C x rf rpg
    let g := geometry E C x
    (cells[C.nFluid]?.map (·.rIn) = some g.rConv) ∧
    (cells[C.nFluid + C.nConv]?.map (·.rIn) = some g.rInTube) ∧
    (cells[C.nFluid + C.nConv + C.nPipe]?.map (·.rIn) = some g.rOutTube) ∧
    (cells[C.bhWall]?.map (·.rIn) = some g.rB) := by
  obtain ⟨h1, h2, h3, h4, h5⟩ := hC
  have key : ∀ (r0 t k rc : K) (n : Nat), 0 < n →
      (regionCells E r0 t k rc n)[0]?.map (·.rIn) = some r0 := by
    intro r0 t k rc n hn
    cases n with
    | zero => omega
    | succ n => simp [regionCells, List.range_succ_eq_map, fillSingleCell]
  intro cells g
  simp only [cells, fillRadialCellsCore, Counts.bhWall]
  refine ⟨?_, ?_, ?_, ?_⟩
  · rw [List.append_assoc, List.append_assoc, List.append_assoc, List.getElem?_append_right (by simp)]
    simp only [regionCells_length, Nat.sub_self]
    rw [List.getElem?_append_left (by simp; omega)]
    exact key _ _ _ _ _ h2
  · rw [List.append_assoc, List.append_assoc, List.getElem?_append_right (by simp)]
    simp only [List.length_append, regionCells_length, Nat.sub_self]
    rw [List.getElem?_append_left (by simp; omega)]
    exact key _ _ _ _ _ h3
  · rw [List.append_assoc, List.getElem?_append_right (by simp; omega)]
    simp only [List.length_append, regionCells_length, Nat.sub_self]
    rw [List.getElem?_append_left (by simp; omega)]
    exact key _ _ _ _ _ h4
  · rw [List.getElem?_append_right (by simp; omega)]
    simp only [List.length_append, regionCells_length, Nat.sub_self]
    exact key _ _ _ _ _ h5


theorem regionCells_succ (E : Env K) (r0 t k rc : K) (n : Nat) :
    regionCells E r0 t k rc (n + 1) = regionCells E r0 t k rc n ++ [fillSingleCell E (r0 + (n : K) * t) t k rc] := by
  simp [regionCells, List.range_succ]

/-- Thermal mass of a region: the volumes telescope. -/
theorem regionCells_mass_sum (E : Env K) (r0 t k rc : K) (n : Nat) :
    ((regionCells E r0 t k rc n).map (fun c => c.rhoCp * c.vol)).sum
      = rc * (E.pi * ((r0 + (n : K) * t) * (r0 + (n : K) * t) - r0 * r0)) := by
  induction n with
  | zero => simp [regionCells]
  | succ n ih =>
    rw [regionCells_succ, List.map_append, List.sum_append, ih]
    simp only [fillSingleCell, List.map_cons, List.map_nil, List.sum_cons, List.sum_nil]
    push_cast
    ring

theorem core_take_fluid (E : Env K) (C : Counts) (x : Inputs K) (rf rpg : K) :
    (fillRadialCellsCore E C x rf rpg).take C.nFluid
      = regionCells E (geometry E C x).rFluid (geometry E C x).thFluid ((Gen.Radial.conductivityFluid : Nat) : K)
          (rhoCpEqFluid x (geometry E C x)) C.nFluid := by
  unfold fillRadialCellsCore
  simp only [List.append_assoc]
  exact List.take_left' (by simp)

end CellTable

section Layers
variable {K : Type} [Field K] [LinearOrder K] [IsStrictOrderedRing K]

/-- `ln(r_out/r_in)/(2 pi k)` of one cell: the radial resistance of the layer. -/
def layerR (E : Env K) (c : Cell K) : K := E.log (c.rOut / c.rIn) / (twoPi E * c.k)

/-- What the theorems need of `log`: `log (a/b) = log a - log b` on positives. -/
def LogDiv (E : Env K) : Prop := ∀ a b : K, 0 < a → 0 < b → E.log (a / b) = E.log a - E.log b

/-- The layer resistances of one region telescope. -/
theorem regionCells_layer_sum (E : Env K) (hlog : LogDiv E) (r0 t k rc : K) (hr : 0 < r0) (ht : 0 ≤ t) (n : Nat) :
    ((regionCells E r0 t k rc n).map (layerR E)).sum
      = (E.log (r0 + (n : K) * t) - E.log r0) / (twoPi E * k) := by
  induction n with
  | zero => simp [regionCells]
  | succ n ih =>
    rw [regionCells_succ, List.map_append, List.sum_append, ih]
    simp only [layerR, fillSingleCell, List.map_cons, List.map_nil, List.sum_cons, List.sum_nil, add_zero]
    have h1 : 0 < r0 + (n : K) * t := by positivity
    have h2 : 0 < r0 + (n : K) * t + t := by positivity
    rw [hlog _ _ h2 h1]
    push_cast
    rw [← add_div]
    congr 1
    have : r0 + ((n : K) + 1) * t = r0 + (n : K) * t + t := by ring
    rw [this]; ring


theorem core_middle (E : Env K) (C : Counts) (x : Inputs K) (rf rpg : K) :
    ((fillRadialCellsCore E C x rf rpg).drop C.nFluid).take (C.nConv + C.nPipe + C.nGrout)
      = regionCells E (geometry E C x).rConv (geometry E C x).thConv (kConv E (geometry E C x) rf) (ofRat Gen.Radial.rhoCpConv) C.nConv
        ++ regionCells E (geometry E C x).rInTube (geometry E C x).thPipe (kPipeGrout E (geometry E C x) rpg) x.rcPipe C.nPipe
        ++ regionCells E (geometry E C x).rOutTube (geometry E C x).thGrout (kPipeGrout E (geometry E C x) rpg) x.rcGrout C.nGrout := by
  unfold fillRadialCellsCore
  simp only [List.append_assoc]
  rw [List.drop_left' (by simp)]
  rw [← List.append_assoc, ← List.append_assoc]
  rw [List.take_left' (by simp; omega)]
  simp only [List.append_assoc]

/-- The layers between the fluid and the borehole wall (convection, pipe, grout cells) sum to
    `rf + rpg`, the two effective resistances the table was built from. -/
theorem core_layers_sum (E : Env K) (hlog : LogDiv E) (C : Counts) (hC : C.Pos) (x : Inputs K) (rf rpg : K)
    (h0 : 0 < (geometry E C x).rConv) (h1 : (geometry E C x).rConv < (geometry E C x).rInTube)
    (h2 : (geometry E C x).rInTube ≤ (geometry E C x).rOutTube) (h3 : (geometry E C x).rOutTube ≤ x.rB)
    (hl1 : E.log ((geometry E C x).rInTube / (geometry E C x).rConv) ≠ 0)
    (hl2 : E.log (x.rB / (geometry E C x).rInTube) ≠ 0)
    (hpi : E.pi ≠ 0) (hrf : rf ≠ 0) (hrpg : rpg ≠ 0) :
    ((((fillRadialCellsCore E C x rf rpg).drop C.nFluid).take (C.nConv + C.nPipe + C.nGrout)).map (layerR E)).sum
      = rf + rpg := by
  obtain ⟨_, p2, p3, p4, _⟩ := hC
  have c2 : (C.nConv : K) ≠ 0 := by exact_mod_cast p2.ne'
  have c3 : (C.nPipe : K) ≠ 0 := by exact_mod_cast p3.ne'
  have c4 : (C.nGrout : K) ≠ 0 := by exact_mod_cast p4.ne'
  rw [core_middle, List.map_append, List.map_append, List.sum_append, List.sum_append]
  have hIn : 0 < (geometry E C x).rInTube := lt_trans h0 h1
  have hOut : 0 < (geometry E C x).rOutTube := lt_of_lt_of_le hIn h2
  have hB : 0 < x.rB := lt_of_lt_of_le hOut h3
  have gB : (geometry E C x).rB = x.rB := rfl
  have t2 : (geometry E C x).thConv = ((geometry E C x).rInTube - (geometry E C x).rConv) / (C.nConv : K) := rfl
  have t3 : (geometry E C x).thPipe = ((geometry E C x).rOutTube - (geometry E C x).rInTube) / (C.nPipe : K) := rfl
  have t4 : (geometry E C x).thGrout = (x.rB - (geometry E C x).rOutTube) / (C.nGrout : K) := rfl
  rw [regionCells_layer_sum E hlog _ _ _ _ h0 (by rw [t2]; apply div_nonneg (by linarith) (by positivity)),
      regionCells_layer_sum E hlog _ _ _ _ hIn (by rw [t3]; apply div_nonneg (by linarith) (by positivity)),
      regionCells_layer_sum E hlog _ _ _ _ hOut (by rw [t4]; apply div_nonneg (by linarith) (by positivity))]
  have e2 : (geometry E C x).rConv + (C.nConv : K) * (geometry E C x).thConv = (geometry E C x).rInTube := by
    rw [t2]; field_simp; ring
  have e3 : (geometry E C x).rInTube + (C.nPipe : K) * (geometry E C x).thPipe = (geometry E C x).rOutTube := by
    rw [t3]; field_simp; ring
  have e4 : (geometry E C x).rOutTube + (C.nGrout : K) * (geometry E C x).thGrout = x.rB := by
    rw [t4]; field_simp; ring
  rw [e2, e3, e4]
  have hl1' := hl1
  have hl2' := hl2
  rw [hlog _ _ hIn h0] at hl1'
  rw [hlog _ _ hB hIn] at hl2'
  have k1 : kConv E (geometry E C x) rf = (E.log (geometry E C x).rInTube - E.log (geometry E C x).rConv) / (twoPi E * rf) := by
    unfold kConv; rw [hlog _ _ hIn h0]
  have k2 : kPipeGrout E (geometry E C x) rpg = (E.log x.rB - E.log (geometry E C x).rInTube) / (twoPi E * rpg) := by
    unfold kPipeGrout; rw [gB, hlog _ _ hB hIn]
  have htp : twoPi E ≠ 0 := by
    unfold twoPi; push_cast; exact mul_ne_zero two_ne_zero hpi
  rw [k1, k2]
  have A : (E.log (geometry E C x).rInTube - E.log (geometry E C x).rConv) /
      (twoPi E * ((E.log (geometry E C x).rInTube - E.log (geometry E C x).rConv) / (twoPi E * rf))) = rf := by
    field_simp
  have B : (E.log (geometry E C x).rOutTube - E.log (geometry E C x).rInTube) /
        (twoPi E * ((E.log x.rB - E.log (geometry E C x).rInTube) / (twoPi E * rpg)))
      + (E.log x.rB - E.log (geometry E C x).rOutTube) /
        (twoPi E * ((E.log x.rB - E.log (geometry E C x).rInTube) / (twoPi E * rpg))) = rpg := by
    rw [← add_div]
    have : E.log (geometry E C x).rOutTube - E.log (geometry E C x).rInTube + (E.log x.rB - E.log (geometry E C x).rOutTube)
        = E.log x.rB - E.log (geometry E C x).rInTube := by ring
    rw [this]
    field_simp
  rw [A, add_assoc, B]

end Layers


section Abstract
variable {K : Type} [Field K]

/-- One fully implicit step written on index functions.  Rows `0 … m` are unknowns' equations
    (`m + 1 = n - 1` cells carry an energy equation), node `m + 1` is the fixed far field.
    `κ i` is the conductance between cells `i` and `i+1`, `a i` the heat capacity of cell `i`
    divided by the time step, `q` the flux into cell 0. -/
structure StepEq (m : ℕ) (κ a : ℕ → K) (q : K) (T T' : ℕ → K) : Prop where
  row0 : (-κ 0 / a 0 - 1) * T' 0 + κ 0 / a 0 * T' 1 = -T 0 - q / a 0
  row : ∀ i, i < m →
    κ i / a (i + 1) * T' i + (-κ i / a (i + 1) - κ (i + 1) / a (i + 1) - 1) * T' (i + 1)
      + κ (i + 1) / a (i + 1) * T' (i + 2) = -T (i + 1)
  far : T' (m + 1) = T (m + 1)

theorem StepEq.flux0 {m : ℕ} {κ a : ℕ → K} {q : K} {T T' : ℕ → K} (h : StepEq m κ a q T T') (ha : a 0 ≠ 0) :
    a 0 * (T' 0 - T 0) = q - κ 0 * (T' 0 - T' 1) := by
  have := h.row0
  field_simp at this
  linear_combination (-1 : K) * this

theorem StepEq.flux {m : ℕ} {κ a : ℕ → K} {q : K} {T T' : ℕ → K} (h : StepEq m κ a q T T') (i : ℕ) (hi : i < m)
    (ha : a (i + 1) ≠ 0) :
    a (i + 1) * (T' (i + 1) - T (i + 1)) = κ i * (T' i - T' (i + 1)) - κ (i + 1) * (T' (i + 1) - T' (i + 2)) := by
  have := h.row i hi
  field_simp at this
  linear_combination (-1 : K) * this

/-- Energy balance of one step: what the cells `0 … m` gained (per unit time) is the flux
    put in at the core minus the flux leaving into the fixed far-field cell. -/
theorem StepEq.energy {m : ℕ} {κ a : ℕ → K} {q : K} {T T' : ℕ → K} (h : StepEq m κ a q T T')
    (ha : ∀ i, i ≤ m → a i ≠ 0) :
    ∑ i ∈ Finset.range (m + 1), a i * (T' i - T i) = q - κ m * (T' m - T' (m + 1)) := by
  have key : ∀ j, j ≤ m → ∑ i ∈ Finset.range (j + 1), a i * (T' i - T i) = q - κ j * (T' j - T' (j + 1)) := by
    intro j
    induction j with
    | zero => intro _; simp [h.flux0 (ha 0 (Nat.zero_le _))]
    | succ j ih =>
      intro hj
      rw [Finset.sum_range_succ, ih (by omega), h.flux j (by omega) (ha (j + 1) hj)]
      ring
  exact key m le_rfl

/-- The step relation is linear: differences of solutions solve the difference problem. -/
theorem StepEq.sub {m : ℕ} {κ a : ℕ → K} {q q₂ : K} {T T' S S' : ℕ → K}
    (h : StepEq m κ a q T T') (h₂ : StepEq m κ a q₂ S S') :
    StepEq m κ a (q - q₂) (fun i => T i - S i) (fun i => T' i - S' i) where
  row0 := by linear_combination h.row0 - h₂.row0
  row := by intro i hi; linear_combination h.row i hi - h₂.row i hi
  far := by show T' (m + 1) - S' (m + 1) = T (m + 1) - S (m + 1); rw [h.far, h₂.far]

end Abstract

section Order
variable {K : Type} [Field K] [LinearOrder K] [IsStrictOrderedRing K]

/-- Discrete minimum principle for one implicit step: with positive conductances and
    capacities and a non-negative flux, a lower bound of the old temperatures is a lower bound
    of the new ones (look at the cell where the new temperature is smallest). -/
theorem StepEq.min_principle {m : ℕ} {κ a : ℕ → K} {q : K} {T T' : ℕ → K} (h : StepEq m κ a q T T')
    (hκ : ∀ i, i ≤ m → 0 < κ i) (ha : ∀ i, i ≤ m → 0 < a i) (hq : 0 ≤ q) (L : K)
    (hL : ∀ i, i ≤ m + 1 → L ≤ T i) : ∀ i, i ≤ m + 1 → L ≤ T' i := by
  obtain ⟨j, hj, hmin⟩ := Finset.exists_min_image (Finset.range (m + 2)) T' ⟨0, by simp⟩
  have hjm : j ≤ m + 1 := by simp at hj; omega
  have hjL : L ≤ T' j := by
    rcases Nat.lt_or_ge j (m + 1) with hlt | hge
    · cases j with
      | zero =>
        have f := h.flux0 (ha 0 (by omega)).ne'
        have h1 : T' 0 ≤ T' 1 := hmin 1 (by simp)
        have hk := hκ 0 (by omega)
        have h2 : 0 ≤ a 0 * (T' 0 - T 0) := by
          rw [f]; nlinarith
        have h3 : 0 ≤ T' 0 - T 0 := (mul_nonneg_iff_of_pos_left (ha 0 (by omega))).mp h2
        have := hL 0 (by omega)
        linarith
      | succ i =>
        have f := h.flux i (by omega) (ha (i + 1) (by omega)).ne'
        have h1 : T' (i + 1) ≤ T' i := hmin i (by simp; omega)
        have h1' : T' (i + 1) ≤ T' (i + 2) := hmin (i + 2) (by simp; omega)
        have hk := hκ i (by omega)
        have hk' := hκ (i + 1) (by omega)
        have h2 : 0 ≤ a (i + 1) * (T' (i + 1) - T (i + 1)) := by
          rw [f]; nlinarith
        have h3 : 0 ≤ T' (i + 1) - T (i + 1) := (mul_nonneg_iff_of_pos_left (ha (i + 1) (by omega))).mp h2
        have := hL (i + 1) (by omega)
        linarith
    · have : j = m + 1 := by omega
      rw [this, h.far]; exact hL _ le_rfl
  intro i hi
  exact le_trans hjL (hmin i (by simp; omega))

/-- Constant injection from a uniform start, over a horizon of `N` steps: every temperature is
    non-decreasing from step to step and never below the initial temperature. -/
theorem monotone_in_time {m : ℕ} {κ a : ℕ → K} {q : K} (Tk : ℕ → ℕ → K) (T0 : K) (N : ℕ)
    (hstep : ∀ k, k < N → StepEq m κ a q (Tk k) (Tk (k + 1)))
    (hκ : ∀ i, i ≤ m → 0 < κ i) (ha : ∀ i, i ≤ m → 0 < a i) (hq : 0 ≤ q)
    (hinit : ∀ i, i ≤ m + 1 → Tk 0 i = T0) :
    ∀ k, k < N → ∀ i, i ≤ m + 1 → Tk k i ≤ Tk (k + 1) i ∧ T0 ≤ Tk k i := by
  have mono : ∀ k, k < N → ∀ i, i ≤ m + 1 → Tk k i ≤ Tk (k + 1) i := by
    intro k
    induction k with
    | zero =>
      intro hk i hi
      rw [hinit i hi]
      exact (hstep 0 hk).min_principle hκ ha hq T0 (fun j hj => (hinit j hj).ge) i hi
    | succ k ih =>
      intro hk i hi
      have hd := ((hstep (k + 1) hk).sub (hstep k (by omega))).min_principle hκ ha (by simp) 0
        (fun j hj => by have := ih (by omega) j hj; show (0 : K) ≤ Tk (k + 1) j - Tk k j; linarith) i hi
      have hd' : (0 : K) ≤ Tk (k + 1 + 1) i - Tk (k + 1) i := hd
      linarith
  have lower : ∀ k, k < N → ∀ i, i ≤ m + 1 → T0 ≤ Tk k i := by
    intro k
    induction k with
    | zero => intro _ i hi; exact (hinit i hi).ge
    | succ k ih =>
      intro hk i hi
      exact le_trans (ih (by omega) i hi) (mono k (by omega) i hi)
  intro k hk i hi
  exact ⟨mono k hk i hi, lower k hk i hi⟩

end Order


theorem range_map_take {α} (c : ℕ → α) (m : ℕ) : ((List.range (m + 2)).map c).take m = (List.range m).map c := by
  apply List.ext_getElem
  · simp
  · intro i h1 h2; simp

theorem range_map_drop1_take {α} (c : ℕ → α) (m : ℕ) :
    (((List.range (m + 2)).map c).drop 1).take m = (List.range m).map (fun i => c (i + 1)) := by
  apply List.ext_getElem
  · simp
  · intro i h1 h2; simp [Nat.add_comm]

theorem range_map_drop2 {α} (c : ℕ → α) (m : ℕ) :
    ((List.range (m + 2)).map c).drop 2 = (List.range m).map (fun i => c (i + 2)) := by
  apply List.ext_getElem
  · simp
  · intro i h1 h2; simp [Nat.add_comm]

theorem zipWith_range_map {α β γ} (f : α → β → γ) (g : ℕ → α) (h : ℕ → β) (m : ℕ) :
    List.zipWith f ((List.range m).map g) ((List.range m).map h) = (List.range m).map (fun i => f (g i) (h i)) := by
  apply List.ext_getElem
  · simp
  · intro i h1 h2; simp

theorem zip_range_map {α β} (g : ℕ → α) (h : ℕ → β) (m : ℕ) :
    List.zip ((List.range m).map g) ((List.range m).map h) = (List.range m).map (fun i => (g i, h i)) := by
  apply List.ext_getElem
  · simp
  · intro i h1 h2; simp


section Bridge
variable {K : Type} [Field K]

/-- Conductance between a cell and its east neighbour. -/
def cond (E : Env K) (a b : Cell K) : K := 1 / (half1 E a + half2 E b)
/-- Heat capacity of a cell per unit length divided by the time step (`ad`). -/
def capRate (dt : K) (c : Cell K) : K := c.rhoCp * c.vol / dt

theorem head?_range_map {α} (c : ℕ → α) (m : ℕ) : ((List.range (m + 2)).map c).head? = some (c 0) := by
  simp [List.range_succ_eq_map]

theorem head?_drop1_range_map {α} (c : ℕ → α) (m : ℕ) : (((List.range (m + 2)).map c).drop 1).head? = some (c 1) := by
  simp [List.range_succ_eq_map]

theorem assemble_range (E : Env K) (m : ℕ) (dt : K) (c : ℕ → Cell K) :
    (assemble E (m + 2) dt ((List.range (m + 2)).map c)).ae0 = cond E (c 0) (c 1) ∧
    (assemble E (m + 2) dt ((List.range (m + 2)).map c)).ad0 = capRate dt (c 0) ∧
    (assemble E (m + 2) dt ((List.range (m + 2)).map c)).ae
      = (List.range m).map (fun i => cond E (c (i + 1)) (c (i + 2))) ∧
    (assemble E (m + 2) dt ((List.range (m + 2)).map c)).aw
      = (List.range m).map (fun i => -cond E (c i) (c (i + 1))) ∧
    (assemble E (m + 2) dt ((List.range (m + 2)).map c)).ad
      = (List.range m).map (fun i => capRate dt (c (i + 1))) := by
  unfold assemble
  simp only [Nat.add_sub_cancel, range_map_take, range_map_drop1_take, range_map_drop2, head?_range_map,
    head?_drop1_range_map, List.map_map, zipWith_range_map, zip_range_map, Nat.cast_one, Nat.cast_zero]
  refine ⟨rfl, rfl, ?_, ?_, ?_⟩
  · rfl
  · apply List.map_congr_left; intro i _; simp [cond, neg_div]
  · rfl

theorem assemble_range_diag (E : Env K) (m : ℕ) (dt : K) (c : ℕ → Cell K) :
    (assemble E (m + 2) dt ((List.range (m + 2)).map c)).dl
      = (List.range m).map (fun i => cond E (c i) (c (i + 1)) / capRate dt (c (i + 1))) ++ [0] ∧
    (assemble E (m + 2) dt ((List.range (m + 2)).map c)).d
      = [-cond E (c 0) (c 1) / capRate dt (c 0) - 1]
        ++ (List.range m).map (fun i => -cond E (c i) (c (i + 1)) / capRate dt (c (i + 1))
              - cond E (c (i + 1)) (c (i + 2)) / capRate dt (c (i + 1)) - 1) ++ [1] ∧
    (assemble E (m + 2) dt ((List.range (m + 2)).map c)).du
      = [cond E (c 0) (c 1) / capRate dt (c 0)]
        ++ (List.range m).map (fun i => cond E (c (i + 1)) (c (i + 2)) / capRate dt (c (i + 1))) := by
  unfold assemble
  simp only [Nat.add_sub_cancel, range_map_take, range_map_drop1_take, range_map_drop2, head?_range_map,
    head?_drop1_range_map, List.map_map, zipWith_range_map, zip_range_map, Nat.cast_one, Nat.cast_zero]
  refine ⟨?_, ?_, ?_⟩
  · congr 1
    apply List.map_congr_left; intro i _; simp [cond, capRate, neg_div]
  · congr 2
    apply List.map_congr_left; intro i _; simp [cond, capRate, neg_div]
  · rfl

theorem getD_range_map {α} (f : ℕ → α) (n i : ℕ) (hi : i < n) (d : α) : ((List.range n).map f).getD i d = f i := by
  simp [List.getD_eq_getElem?_getD, hi]

theorem getD_mid {α} (a z : α) (f : ℕ → α) (m i : ℕ) (hi : i < m) (d : α) :
    ([a] ++ (List.range m).map f ++ [z]).getD (i + 1) d = f i := by
  simp [List.getD_eq_getElem?_getD, List.getElem?_append, hi]

theorem getD_first {α} (a : α) (l : List α) (d : α) : ([a] ++ l).getD 0 d = a := by simp

theorem getD_last {α} (a z : α) (f : ℕ → α) (m : ℕ) (d : α) :
    ([a] ++ (List.range m).map f ++ [z]).getD (m + 1) d = z := by
  simp [List.getD_eq_getElem?_getD, List.getElem?_append]

theorem getD_dl_mid {α} (z : α) (f : ℕ → α) (m i : ℕ) (hi : i < m) (d : α) :
    ((List.range m).map f ++ [z]).getD i d = f i := by
  simp [List.getD_eq_getElem?_getD, List.getElem?_append, hi]

theorem getD_dl_last {α} (z : α) (f : ℕ → α) (m : ℕ) (d : α) :
    ((List.range m).map f ++ [z]).getD m d = z := by
  simp [List.getD_eq_getElem?_getD, List.getElem?_append]

theorem getD_du_mid {α} (a : α) (f : ℕ → α) (m i : ℕ) (hi : i < m) (d : α) :
    ([a] ++ (List.range m).map f).getD (i + 1) d = f i := by
  simp [List.getD_eq_getElem?_getD, hi]

theorem getD_du_out {α} (a : α) (f : ℕ → α) (m : ℕ) (d : α) :
    ([a] ++ (List.range m).map f).getD (m + 1) d = d := by
  simp [List.getD_eq_getElem?_getD]

theorem rhs_range (m : ℕ) (q ad0 : K) (t : ℕ → K) :
    rhs (m + 2) q ad0 ((List.range (m + 2)).map t)
      = [-t 0 - q / ad0] ++ (List.range m).map (fun i => -t (i + 1)) ++ [t (m + 1)] := by
  unfold rhs
  simp only [Nat.add_sub_cancel, range_map_drop1_take, List.map_map]
  congr 1
  · congr 1
    simp [List.range_succ_eq_map]
  · apply List.ext_getElem
    · simp
    · intro i h1 h2
      simp at h1 h2
      subst h2
      simp

/-- `x` solves the tridiagonal system `(dl, d, du) x = b` (row `i`:
    `dl[i-1] x[i-1] + d[i] x[i] + du[i] x[i+1] = b[i]`, absent entries read as 0). -/
def SolvesTri (dl d du b x : List K) : Prop :=
  x.length = d.length ∧ ∀ i, i < d.length →
    (if i = 0 then 0 else dl.getD (i - 1) 0 * x.getD (i - 1) 0) + d.getD i 0 * x.getD i 0
      + du.getD i 0 * x.getD (i + 1) 0 = b.getD i 0

instance [DecidableEq K] (dl d du b x : List K) : Decidable (SolvesTri dl d du b x) := by
  unfold SolvesTri; infer_instance
end Bridge

section Bridge2
variable {K : Type} [Field K]

/-- Bridge: a solution of the assembled tridiagonal system (the lists `assemble` and `rhs`
    build, i.e. what is handed to LAPACK) is a solution of the step equations `StepEq` with
    `κ i = cond (cell i) (cell (i+1))` and `a i = ρc_p V / Δt` of cell `i`. -/
theorem solvesTri_stepEq (E : Env K) (m : ℕ) (dt q : K) (c : ℕ → Cell K) (t t' : ℕ → K)
    (h : SolvesTri (assemble E (m + 2) dt ((List.range (m + 2)).map c)).dl
            (assemble E (m + 2) dt ((List.range (m + 2)).map c)).d
            (assemble E (m + 2) dt ((List.range (m + 2)).map c)).du
            (rhs (m + 2) q (assemble E (m + 2) dt ((List.range (m + 2)).map c)).ad0 ((List.range (m + 2)).map t))
            ((List.range (m + 2)).map t')) :
    StepEq m (fun i => cond E (c i) (c (i + 1))) (fun i => capRate dt (c i)) q t t' := by
  obtain ⟨hdl, hd, hdu⟩ := assemble_range_diag E m dt c
  obtain ⟨_, had0, _, _, _⟩ := assemble_range E m dt c
  rw [hdl, hd, hdu, had0, rhs_range] at h
  obtain ⟨_, hrow⟩ := h
  have hlen : ([-cond E (c 0) (c 1) / capRate dt (c 0) - 1]
        ++ (List.range m).map (fun i => -cond E (c i) (c (i + 1)) / capRate dt (c (i + 1))
              - cond E (c (i + 1)) (c (i + 2)) / capRate dt (c (i + 1)) - 1) ++ [1]).length = m + 2 := by
    simp
  rw [hlen] at hrow
  refine ⟨?_, ?_, ?_⟩
  · have := hrow 0 (by omega)
    rw [if_pos rfl, List.append_assoc, getD_first, getD_first, List.append_assoc, getD_first,
      getD_range_map _ _ _ (by omega), getD_range_map _ _ _ (by omega)] at this
    simpa using this
  · intro i hi
    have := hrow (i + 1) (by omega)
    rw [if_neg (by omega), Nat.add_sub_cancel, getD_dl_mid _ _ _ _ hi, getD_mid _ _ _ _ _ hi, getD_du_mid _ _ _ _ hi,
      getD_mid _ _ _ _ _ hi, getD_range_map _ _ _ (by omega), getD_range_map _ _ _ (by omega),
      getD_range_map _ _ _ (by omega)] at this
    exact this
  · have := hrow (m + 1) (by omega)
    rw [if_neg (by omega), Nat.add_sub_cancel, getD_dl_last, getD_last, getD_du_out, getD_last,
      getD_range_map _ _ _ (by omega)] at this
    simpa using this

end Bridge2

section Steps
variable {K : Type} [Field K]

/-- Energy balance summed over `N` steps: stored = injected - leak (all per unit time step). -/
theorem energy_over_steps {m : ℕ} {κ a : ℕ → K} {q : K} (Tk : ℕ → ℕ → K) (N : ℕ)
    (hstep : ∀ k, k < N → StepEq m κ a q (Tk k) (Tk (k + 1))) (ha : ∀ i, i ≤ m → a i ≠ 0) :
    ∑ i ∈ Finset.range (m + 1), a i * (Tk N i - Tk 0 i)
      = (N : K) * q - ∑ k ∈ Finset.range N, κ m * (Tk (k + 1) m - Tk (k + 1) (m + 1)) := by
  induction N with
  | zero => simp
  | succ N ih =>
    have e := (hstep N (by omega)).energy ha
    have ih' := ih (fun k hk => hstep k (by omega))
    have split : ∑ i ∈ Finset.range (m + 1), a i * (Tk (N + 1) i - Tk 0 i)
        = ∑ i ∈ Finset.range (m + 1), a i * (Tk N i - Tk 0 i)
          + ∑ i ∈ Finset.range (m + 1), a i * (Tk (N + 1) i - Tk N i) := by
      rw [← Finset.sum_add_distrib]
      apply Finset.sum_congr rfl
      intro i _; ring
    rw [split, ih', e, Finset.sum_range_succ (fun k => κ m * (Tk (k + 1) m - Tk (k + 1) (m + 1)))]
    push_cast
    ring

theorem list_eq_range_map {α} (l : List α) (d : α) : l = (List.range l.length).map (fun i => l.getD i d) := by
  apply List.ext_getElem
  · simp
  · intro i h1 h2; simp [List.getD_eq_getElem?_getD, h1]

theorem fillRadialCells_ok (E : Env K) (C : Counts) (x : Inputs K) (rf rpg : K) (cells : List (Cell K))
    (h : fillRadialCells E C x rf rpg = .ok cells) : cells = fillRadialCellsCore E C x rf rpg := by
  unfold fillRadialCells at h
  split at h
  · exact absurd h (by simp)
  · injection h with h; exact h.symm
end Steps

section Resample
variable {K : Type} [Field K] [LinearOrder K] [IsStrictOrderedRing K]

/-- The comparison of the environment is the order of the field. -/
def LeSpec (E : Env K) : Prop := ∀ a b : K, E.le a b = true ↔ a ≤ b

theorem lt_spec (E : Env K) (h : LeSpec E) (a b : K) : lt E a b = true ↔ a < b := by
  unfold lt
  rw [Bool.and_eq_true, h a b]
  constructor
  · rintro ⟨h1, h2⟩
    have : ¬ b ≤ a := by
      intro hb; rw [← h b a] at hb; simp [hb] at h2
    exact lt_of_not_ge this
  · intro hab
    refine ⟨hab.le, ?_⟩
    have : ¬ (E.le b a = true) := by rw [h b a]; exact not_le.mpr hab
    simpa using this

/-- Last element of `y0 :: ys`. -/
def lastOf : K → List K → K
  | y0, [] => y0
  | _, y1 :: ys => lastOf y1 ys

theorem head_le_lastOf : ∀ (ys : List K) (y0 : K), IsChain (· ≤ ·) (y0 :: ys) → y0 ≤ lastOf y0 ys
  | [], _, _ => le_rfl
  | y1 :: ys, y0, h => by
    rw [isChain_cons_cons] at h
    exact le_trans h.1 (head_le_lastOf ys y1 h.2)

theorem head_le_lastOf_of_lt : ∀ (xs : List K) (x0 : K), IsChain (· < ·) (x0 :: xs) → x0 ≤ lastOf x0 xs
  | [], _, _ => le_rfl
  | x1 :: xs, x0, h => by
    rw [isChain_cons_cons] at h
    exact le_trans h.1.le (head_le_lastOf_of_lt xs x1 h.2)

theorem seg_bounds {x0 x1 y0 y1 x : K} (hx : x0 < x1) (hy : y0 ≤ y1) (h0 : x0 ≤ x) (h1 : x ≤ x1) :
    y0 ≤ (y1 - y0) / (x1 - x0) * (x - x0) + y0 ∧ (y1 - y0) / (x1 - x0) * (x - x0) + y0 ≤ y1 := by
  have hd : 0 < x1 - x0 := sub_pos.mpr hx
  have hs : 0 ≤ (y1 - y0) / (x1 - x0) := div_nonneg (sub_nonneg.mpr hy) hd.le
  constructor
  · have : 0 ≤ (y1 - y0) / (x1 - x0) * (x - x0) := mul_nonneg hs (sub_nonneg.mpr h0)
    linarith
  · have h2 : (y1 - y0) / (x1 - x0) * (x - x0) ≤ (y1 - y0) / (x1 - x0) * (x1 - x0) :=
      mul_le_mul_of_nonneg_left (by linarith) hs
    rw [div_mul_cancel₀ _ hd.ne'] at h2
    linarith

theorem interpAt_cons_cons (E : Env K) (x0 x1 y0 y1 : K) (xs ys : List K) (x : K) :
    interpAt E (x0 :: x1 :: xs) (y0 :: y1 :: ys) x
      = if lt E x x1 then (if E.le x x0 then y0 else (y1 - y0) / (x1 - x0) * (x - x0) + y0)
        else interpAt E (x1 :: xs) (y1 :: ys) x := by
  rw [interpAt]

theorem interpAt_single (E : Env K) (x0 y0 x : K) : interpAt E [x0] [y0] x = y0 := by
  rw [interpAt]
  all_goals simp

/-- Linear interpolation of a non-decreasing table stays between its first and last value. -/
theorem interpAt_bounds (E : Env K) (hle : LeSpec E) :
    ∀ (xs ys : List K) (x0 y0 : K), xs.length = ys.length → IsChain (· < ·) (x0 :: xs) → IsChain (· ≤ ·) (y0 :: ys) →
      ∀ x, x0 ≤ x → y0 ≤ interpAt E (x0 :: xs) (y0 :: ys) x ∧ interpAt E (x0 :: xs) (y0 :: ys) x ≤ lastOf y0 ys
  | [], [], x0, y0, _, _, _, x, _ => by rw [interpAt_single]; exact ⟨le_rfl, le_rfl⟩
  | [], _ :: _, _, _, hl, _, _, _, _ => by simp at hl
  | _ :: _, [], _, _, hl, _, _, _, _ => by simp at hl
  | x1 :: xs, y1 :: ys, x0, y0, hl, hx, hy, x, h0 => by
    rw [isChain_cons_cons] at hx hy
    have hl' : xs.length = ys.length := by simpa using hl
    have htail := head_le_lastOf ys y1 hy.2
    rw [interpAt_cons_cons]
    show _ ∧ _ ≤ lastOf y1 ys
    by_cases hlt : lt E x x1 = true
    · rw [if_pos hlt]
      have hx1 : x < x1 := (lt_spec E hle x x1).mp hlt
      by_cases hxe : E.le x x0 = true
      · rw [if_pos hxe]; exact ⟨le_rfl, le_trans hy.1 htail⟩
      · rw [if_neg hxe]
        have := seg_bounds hx.1 hy.1 h0 hx1.le
        exact ⟨this.1, le_trans this.2 htail⟩
    · rw [if_neg hlt]
      have hx1 : x1 ≤ x := by
        by_contra hc; exact hlt ((lt_spec E hle x x1).mpr (lt_of_not_ge hc))
      have := interpAt_bounds E hle xs ys x1 y1 hl' hx.2 hy.2 x hx1
      exact ⟨le_trans hy.1 this.1, this.2⟩

/-- Linear interpolation of a non-decreasing table over increasing nodes is non-decreasing. -/
theorem interpAt_mono (E : Env K) (hle : LeSpec E) :
    ∀ (xs ys : List K) (x0 y0 : K), xs.length = ys.length → IsChain (· < ·) (x0 :: xs) → IsChain (· ≤ ·) (y0 :: ys) →
      ∀ x x', x0 ≤ x → x ≤ x' → interpAt E (x0 :: xs) (y0 :: ys) x ≤ interpAt E (x0 :: xs) (y0 :: ys) x'
  | [], [], x0, y0, _, _, _, x, x', _, _ => by rw [interpAt_single, interpAt_single]
  | [], _ :: _, _, _, hl, _, _, _, _, _, _ => by simp at hl
  | _ :: _, [], _, _, hl, _, _, _, _, _, _ => by simp at hl
  | x1 :: xs, y1 :: ys, x0, y0, hl, hx, hy, x, x', h0, hxx => by
    have hxc := hx
    have hyc := hy
    rw [isChain_cons_cons] at hx hy
    have hl' : xs.length = ys.length := by simpa using hl
    rw [interpAt_cons_cons, interpAt_cons_cons]
    have hd : 0 < x1 - x0 := sub_pos.mpr hx.1
    have hs : 0 ≤ (y1 - y0) / (x1 - x0) := div_nonneg (sub_nonneg.mpr hy.1) hd.le
    by_cases hlt : lt E x x1 = true
    · have hx1 : x < x1 := (lt_spec E hle x x1).mp hlt
      rw [if_pos hlt]
      by_cases hlt' : lt E x' x1 = true
      · have hx1' : x' < x1 := (lt_spec E hle x' x1).mp hlt'
        rw [if_pos hlt']
        by_cases hxe : E.le x x0 = true
        · rw [if_pos hxe]
          by_cases hxe' : E.le x' x0 = true
          · rw [if_pos hxe']
          · rw [if_neg hxe']
            exact (seg_bounds hx.1 hy.1 (le_trans h0 hxx) hx1'.le).1
        · rw [if_neg hxe]
          have hx0 : ¬ x ≤ x0 := by rw [← hle x x0]; exact hxe
          have hxe' : ¬ (E.le x' x0 = true) := by
            rw [hle x' x0]; intro hc; exact hx0 (le_trans hxx hc)
          rw [if_neg hxe']
          have := mul_le_mul_of_nonneg_left (sub_le_sub_right hxx x0) hs
          linarith
      · rw [if_neg hlt']
        have hx1' : x1 ≤ x' := by
          by_contra hc; exact hlt' ((lt_spec E hle x' x1).mpr (lt_of_not_ge hc))
        have lo := (interpAt_bounds E hle xs ys x1 y1 hl' hx.2 hy.2 x' hx1').1
        by_cases hxe : E.le x x0 = true
        · rw [if_pos hxe]; exact le_trans hy.1 lo
        · rw [if_neg hxe]
          exact le_trans (seg_bounds hx.1 hy.1 h0 hx1.le).2 lo
    · rw [if_neg hlt]
      have hx1 : x1 ≤ x := by
        by_contra hc; exact hlt ((lt_spec E hle x x1).mpr (lt_of_not_ge hc))
      have hlt' : ¬ (lt E x' x1 = true) := by
        rw [lt_spec E hle]; exact not_lt.mpr (le_trans hx1 hxx)
      rw [if_neg hlt']
      exact interpAt_mono E hle xs ys x1 y1 hl' hx.2 hy.2 x x' hx1 hxx


theorem getLast?_eq_lastOf : ∀ (xs : List K) (x0 : K), (x0 :: xs).getLast? = some (lastOf x0 xs)
  | [], _ => rfl
  | x1 :: xs, x0 => by
    rw [List.getLast?_cons_cons]; exact getLast?_eq_lastOf xs x1

theorem linspace_getElem (start stop : K) (num : ℕ) (hnum : 2 ≤ num) (i : ℕ) (h : i < (linspace start stop num).length) :
    (linspace start stop num)[i] = (i : K) * ((stop - start) / ((num - 1 : ℕ) : K)) + start := by
  have hi : i < num := by simpa [linspace] using h
  simp only [linspace, List.getElem_map, List.getElem_range]
  split
  · next he =>
    have hn : ((num - 1 : ℕ) : K) ≠ 0 := by
      have : 0 < num - 1 := by omega
      exact_mod_cast this.ne'
    have : i = num - 1 := by omega
    rw [this]
    field_simp
    ring
  · rfl

theorem linspace_length (start stop : K) (num : ℕ) : (linspace start stop num).length = num := by
  simp [linspace]

/-- The resampled curve (`interp1d` on `linspace`) of a non-decreasing table over increasing
    abscissae is non-decreasing and stays within the table's range. -/
theorem resample_mono (E : Env K) (hle : LeSpec E) (xs ys : List K) (x0 y0 : K) (num : ℕ) (hnum : 2 ≤ num)
    (hl : xs.length = ys.length) (hx : IsChain (· < ·) (x0 :: xs)) (hy : IsChain (· ≤ ·) (y0 :: ys))
    (u v : List K) (h : resample E (x0 :: xs) (y0 :: ys) num = .ok (u, v)) :
    IsChain (· ≤ ·) v ∧ ∀ w ∈ v, y0 ≤ w ∧ w ≤ lastOf y0 ys := by
  unfold resample at h
  rw [getLast?_eq_lastOf] at h
  simp only [List.head?_cons] at h
  injection h with h
  injection h with hu hv
  subst hu
  subst hv
  have hstep : 0 ≤ (lastOf x0 xs - x0) / ((num - 1 : ℕ) : K) :=
    div_nonneg (sub_nonneg.mpr (head_le_lastOf_of_lt xs x0 hx)) (by positivity)
  have hlo : ∀ i (h : i < (linspace x0 (lastOf x0 xs) num).length), x0 ≤ (linspace x0 (lastOf x0 xs) num)[i] := by
    intro i h
    rw [linspace_getElem _ _ _ hnum]
    have : 0 ≤ (i : K) * ((lastOf x0 xs - x0) / ((num - 1 : ℕ) : K)) := mul_nonneg (by positivity) hstep
    linarith
  constructor
  · rw [isChain_iff_getElem]
    intro i hi
    simp only [List.length_map] at hi
    simp only [List.getElem_map]
    apply interpAt_mono E hle xs ys x0 y0 hl hx hy _ _ (hlo i (by omega))
    rw [linspace_getElem _ _ _ hnum, linspace_getElem _ _ _ hnum]
    have : (i : K) ≤ ((i + 1 : ℕ) : K) := by exact_mod_cast Nat.le_succ i
    have := mul_le_mul_of_nonneg_right this hstep
    linarith
  · intro w hw
    rw [List.mem_map] at hw
    obtain ⟨a, ha, rfl⟩ := hw
    obtain ⟨i, hi, rfl⟩ := List.getElem_of_mem ha
    exact interpAt_bounds E hle xs ys x0 y0 hl hx hy _ (hlo i hi)

end Resample

section Thomas
variable {K : Type} [Field K]

/-- Row form of "x solves the tridiagonal system": rows `(l, d, u)`, right-hand sides, the unknown
    before the first row, the unknowns.  Beyond the end the unknown reads 0. -/
def RowsSolved : List (K × K × K) → List K → K → List K → Prop
  | [], [], _, [] => True
  | (l, d, u) :: rows, b :: bs, xPrev, x :: xs => l * xPrev + d * x + u * xs.headD 0 = b ∧ RowsSolved rows bs x xs
  | _, _, _, _ => False

/-- The elimination is exact whenever no pivot vanishes (induction over the rows; the invariant is
    the reduced previous row `dPrev·xPrev + uPrev·x = bPrev`). -/
theorem elimination_exact :
    ∀ (rows : List (K × K × K)) (b : List K) (dPrev uPrev bPrev xPrev : K),
      rows.length = b.length → dPrev ≠ 0 → (∀ f ∈ factorGo rows dPrev uPrev, f.dP ≠ 0) →
      dPrev * xPrev + uPrev * (backGo (factorGo rows dPrev uPrev) (fwdGo (factorGo rows dPrev uPrev) b bPrev)).1 = bPrev →
      RowsSolved rows b xPrev (backGo (factorGo rows dPrev uPrev) (fwdGo (factorGo rows dPrev uPrev) b bPrev)).2 ∧
      (backGo (factorGo rows dPrev uPrev) (fwdGo (factorGo rows dPrev uPrev) b bPrev)).1
        = (backGo (factorGo rows dPrev uPrev) (fwdGo (factorGo rows dPrev uPrev) b bPrev)).2.headD 0
  | [], [], _, _, _, _, _, _, _, _ => by simp [factorGo, fwdGo, backGo, RowsSolved]
  | [], _ :: _, _, _, _, _, hl, _, _, _ => by simp at hl
  | _ :: _, [], _, _, _, _, hl, _, _, _ => by simp at hl
  | (l, d, u) :: rows, b0 :: bs, dPrev, uPrev, bPrev, xPrev, hl, hd, hp, hprev => by
    have hl' : rows.length = bs.length := by simpa using hl
    simp only [factorGo, fwdGo, backGo] at hp hprev ⊢
    have hdP : d - l / dPrev * uPrev ≠ 0 := hp _ (List.mem_cons_self ..)
    have hp' : ∀ f ∈ factorGo rows (d - l / dPrev * uPrev) u, f.dP ≠ 0 := fun f hf => hp f (List.mem_cons_of_mem _ hf)
    have key : ∀ r B : K, (d - l / dPrev * uPrev) * ((B - u * r) / (d - l / dPrev * uPrev)) + u * r = B := by
      intro r B; rw [mul_div_cancel₀ _ hdP]; ring
    have ih := elimination_exact rows bs (d - l / dPrev * uPrev) u (b0 - l / dPrev * bPrev)
      ((b0 - l / dPrev * bPrev - u * (backGo (factorGo rows (d - l / dPrev * uPrev) u)
          (fwdGo (factorGo rows (d - l / dPrev * uPrev) u) bs (b0 - l / dPrev * bPrev))).1) / (d - l / dPrev * uPrev))
      hl' hdP hp' (key _ _)
    refine ⟨⟨?_, ih.1⟩, rfl⟩
    rw [← ih.2]
    have e1 : l = l / dPrev * dPrev := by field_simp
    have e2 : d = (d - l / dPrev * uPrev) + l / dPrev * uPrev := by ring
    set r := (backGo (factorGo rows (d - l / dPrev * uPrev) u)
          (fwdGo (factorGo rows (d - l / dPrev * uPrev) u) bs (b0 - l / dPrev * bPrev))).1 with hr
    set dP := d - l / dPrev * uPrev with hdPdef
    set x := (b0 - l / dPrev * bPrev - u * r) / dP with hx
    have hx' : dP * x + u * r = b0 - l / dPrev * bPrev := key r _
    calc l * xPrev + d * x + u * r
        = l / dPrev * (dPrev * xPrev + uPrev * x) + (dP * x + u * r) := by
          conv_lhs => rw [e1, e2]
          ring
      _ = b0 := by rw [hprev, hx']; ring

theorem getD_one_eq_headD (x : K) (xs : List K) : (x :: xs).getD 1 0 = xs.headD 0 := by
  cases xs <;> simp

/-- Index form of `RowsSolved`. -/
theorem rowsSolved_getD :
    ∀ (rows : List (K × K × K)) (b : List K) (xPrev : K) (x : List K), RowsSolved rows b xPrev x →
      x.length = rows.length ∧ ∀ i, i < rows.length →
        (rows.getD i (0, 0, 0)).1 * (if i = 0 then xPrev else x.getD (i - 1) 0)
          + (rows.getD i (0, 0, 0)).2.1 * x.getD i 0 + (rows.getD i (0, 0, 0)).2.2 * x.getD (i + 1) 0 = b.getD i 0
  | [], [], _, [], _ => by simp
  | [], [], _, _ :: _, h => by simp [RowsSolved] at h
  | [], _ :: _, _, _, h => by simp [RowsSolved] at h
  | _ :: _, [], _, _, h => by simp [RowsSolved] at h
  | _ :: _, _ :: _, _, [], h => by simp [RowsSolved] at h
  | (l, d, u) :: rows, b0 :: bs, xPrev, x :: xs, h => by
    simp only [RowsSolved] at h
    obtain ⟨ihl, ih⟩ := rowsSolved_getD rows bs x xs h.2
    refine ⟨by simp [ihl], ?_⟩
    intro i hi
    cases i with
    | zero =>
      simp only [List.getD_cons_zero]
      rw [getD_one_eq_headD]; exact h.1
    | succ j =>
      have hj : j < rows.length := by simpa using hi
      have := ih j hj
      simp only [List.getD_cons_succ, if_neg (Nat.succ_ne_zero j), Nat.add_sub_cancel]
      cases j with
      | zero => simpa using this
      | succ k => simpa using this


theorem rowsOf_length (dl d du : List K) (hdl : dl.length + 1 = d.length) (hdu : du.length + 1 = d.length) :
    (rowsOf dl d du).length = d.length := by
  simp [rowsOf]; omega

theorem rowsOf_getD (dl d du : List K) (hdl : dl.length + 1 = d.length) (hdu : du.length + 1 = d.length)
    (i : ℕ) (hi : i < d.length) :
    (rowsOf dl d du).getD i (0, 0, 0) = ((0 :: dl).getD i 0, d.getD i 0, (du ++ [0]).getD i 0) := by
  have h1 : i < (0 :: dl).length := by simp; omega
  have h2 : i < (du ++ [0]).length := by simp; omega
  have h3 : i < (List.zip d (du ++ [0])).length := by simp; omega
  have e : rowsOf dl d du = List.zipWith (fun l (du : K × K) => (l, du.1, du.2)) (0 :: dl) (List.zip d (du ++ [0])) := by
    simp [rowsOf]
  rw [e, List.getD_eq_getElem?_getD, List.getD_eq_getElem?_getD, List.getD_eq_getElem?_getD, List.getD_eq_getElem?_getD,
    List.getElem?_zipWith, List.getElem?_eq_getElem h3, List.getElem_zip,
    List.getElem?_eq_getElem h1, List.getElem?_eq_getElem hi, List.getElem?_eq_getElem h2]
  rfl

theorem getD_append_zero (du : List K) (i : ℕ) : (du ++ [0]).getD i 0 = du.getD i 0 := by
  rcases Nat.lt_or_ge i du.length with h | h
  · rw [List.getD_append _ _ _ _ h]
  · rw [List.getD_append_right _ _ _ _ h, List.getD_eq_default _ _ h]
    cases i - du.length <;> simp

/-- The model's solve returns an exact solution of the tridiagonal system whenever no pivot of
    its elimination vanishes. -/
theorem triSolve_solves_of_pivots (dl d du b : List K) (hdl : dl.length + 1 = d.length) (hdu : du.length + 1 = d.length)
    (hb : b.length = d.length) (hpiv : ∀ f ∈ factor (rowsOf dl d du), f.dP ≠ 0) :
    SolvesTri dl d du b (triSolve dl d du b) := by
  have hlen := rowsOf_length dl d du hdl hdu
  have h := elimination_exact (rowsOf dl d du) b ((1 : ℕ) : K) ((0 : ℕ) : K) ((0 : ℕ) : K) 0 (by rw [hlen, hb])
    (by simp) hpiv (by simp)
  obtain ⟨hxl, hrows⟩ := rowsSolved_getD _ _ _ _ h.1
  refine ⟨by rw [← hlen]; exact hxl, ?_⟩
  intro i hi
  have := hrows i (by rw [hlen]; exact hi)
  rw [rowsOf_getD dl d du hdl hdu i hi] at this
  simp only at this
  have hdu' : (du ++ [0]).getD i 0 = du.getD i 0 := getD_append_zero du i
  rw [hdu'] at this
  cases i with
  | zero => simpa [triSolve, factor, solveFac] using this
  | succ j =>
    rw [if_neg (Nat.succ_ne_zero j)] at this ⊢
    simpa [triSolve, factor, solveFac] using this

end Thomas

section Pivots
variable {K : Type} [Field K] [LinearOrder K] [IsStrictOrderedRing K]

/-- Strict row diagonal dominance keeps every pivot of the elimination away from 0
    (invariant: `|u_prev| < |d'_prev|`). -/
theorem pivots_ne_zero :
    ∀ (rows : List (K × K × K)) (dPrev uPrev : K), |uPrev| < |dPrev| →
      (∀ r ∈ rows, |r.1| + |r.2.2| < |r.2.1|) → ∀ f ∈ factorGo rows dPrev uPrev, f.dP ≠ 0
  | [], _, _, _, _, f, hf => by simp [factorGo] at hf
  | (l, d, u) :: rows, dPrev, uPrev, hprev, hdom, f, hf => by
    have hrow := hdom (l, d, u) (List.mem_cons_self ..)
    simp only at hrow
    have hdpos : 0 < |dPrev| := lt_of_le_of_lt (abs_nonneg _) hprev
    have h1 : |l / dPrev * uPrev| ≤ |l| := by
      rw [abs_mul, abs_div, div_mul_eq_mul_div, div_le_iff₀ hdpos]
      exact mul_le_mul_of_nonneg_left hprev.le (abs_nonneg _)
    have h2 : |d| - |l / dPrev * uPrev| ≤ |d - l / dPrev * uPrev| := abs_sub_abs_le_abs_sub _ _
    have h3 : |u| < |d - l / dPrev * uPrev| := by linarith [abs_nonneg l]
    simp only [factorGo, List.mem_cons] at hf
    rcases hf with rfl | hf
    · simp only
      intro h0; rw [h0, abs_zero] at h3; exact absurd h3 (not_lt.mpr (abs_nonneg _))
    · exact pivots_ne_zero rows _ _ h3 (fun r hr => hdom r (List.mem_cons_of_mem _ hr)) f hf


/-- The assembled system is strictly row diagonally dominant when conductances and capacities are
    positive, so the model's elimination meets no zero pivot. -/
theorem assembled_pivots (E : Env K) (m : ℕ) (dt : K) (c : ℕ → Cell K)
    (hκ : ∀ i, i ≤ m → 0 < cond E (c i) (c (i + 1))) (ha : ∀ i, i ≤ m → 0 < capRate dt (c i)) :
    ∀ f ∈ factor (rowsOf (assemble E (m + 2) dt ((List.range (m + 2)).map c)).dl
                          (assemble E (m + 2) dt ((List.range (m + 2)).map c)).d
                          (assemble E (m + 2) dt ((List.range (m + 2)).map c)).du), f.dP ≠ 0 := by
  obtain ⟨hdl, hd, hdu⟩ := assemble_range_diag E m dt c
  rw [hdl, hd, hdu]
  set dl := (List.range m).map (fun i => cond E (c i) (c (i + 1)) / capRate dt (c (i + 1))) ++ [0] with hdl'
  set d := [-cond E (c 0) (c 1) / capRate dt (c 0) - 1]
        ++ (List.range m).map (fun i => -cond E (c i) (c (i + 1)) / capRate dt (c (i + 1))
              - cond E (c (i + 1)) (c (i + 2)) / capRate dt (c (i + 1)) - 1) ++ [1] with hd'
  set du := [cond E (c 0) (c 1) / capRate dt (c 0)]
        ++ (List.range m).map (fun i => cond E (c (i + 1)) (c (i + 2)) / capRate dt (c (i + 1))) with hdu'
  have l1 : dl.length + 1 = d.length := by simp [hdl', hd']
  have l2 : du.length + 1 = d.length := by simp [hdu', hd']
  have l3 : d.length = m + 2 := by simp [hd']
  unfold factor
  apply pivots_ne_zero
  · simp
  · intro r hr
    obtain ⟨i, hi, rfl⟩ := List.getElem_of_mem hr
    have hi' : i < d.length := by rw [← rowsOf_length dl d du l1 l2]; exact hi
    have e : (rowsOf dl d du)[i] = (rowsOf dl d du).getD i (0, 0, 0) := by
      rw [List.getD_eq_getElem _ _ hi]
    rw [e, rowsOf_getD dl d du l1 l2 i hi', getD_append_zero]
    simp only
    rcases Nat.eq_zero_or_pos i with rfl | hpos
    · have p := div_pos (hκ 0 (by omega)) (ha 0 (by omega))
      have e1 : d.getD 0 0 = -cond E (c 0) (c 1) / capRate dt (c 0) - 1 := by rw [hd', List.append_assoc, getD_first]
      have e2 : du.getD 0 0 = cond E (c 0) (c 1) / capRate dt (c 0) := by rw [hdu', getD_first]
      rw [e1, e2, List.getD_cons_zero, abs_zero, abs_of_pos p, neg_div,
        abs_of_neg (by linarith : -(cond E (c 0) (c 1) / capRate dt (c 0)) - 1 < 0)]
      linarith
    · obtain ⟨j, rfl⟩ : ∃ j, i = j + 1 := ⟨i - 1, by omega⟩
      rw [List.getD_cons_succ]
      rcases Nat.lt_or_ge j m with hj | hj
      · have p := div_pos (hκ j (by omega)) (ha (j + 1) (by omega))
        have q := div_pos (hκ (j + 1) (by omega)) (ha (j + 1) (by omega))
        rw [hdl', hd', hdu', getD_dl_mid _ _ _ _ hj, getD_mid _ _ _ _ _ hj, getD_du_mid _ _ _ _ hj, abs_of_pos p, abs_of_pos q,
          neg_div, abs_of_neg (by linarith)]
        linarith
      · have : j = m := by omega
        subst this
        rw [hdl', hd', hdu', getD_dl_last, getD_last, getD_du_out]
        simp

/-- (capstone of the solve) With positive conductances and capacities the model's own `triSolve`
    returns an exact solution of the system it assembled, for every right-hand side. -/
theorem triSolve_solves_assembled (E : Env K) (m : ℕ) (dt : K) (c : ℕ → Cell K) (b : List K) (hb : b.length = m + 2)
    (hκ : ∀ i, i ≤ m → 0 < cond E (c i) (c (i + 1))) (ha : ∀ i, i ≤ m → 0 < capRate dt (c i)) :
    SolvesTri (assemble E (m + 2) dt ((List.range (m + 2)).map c)).dl
      (assemble E (m + 2) dt ((List.range (m + 2)).map c)).d
      (assemble E (m + 2) dt ((List.range (m + 2)).map c)).du b
      (triSolve (assemble E (m + 2) dt ((List.range (m + 2)).map c)).dl
        (assemble E (m + 2) dt ((List.range (m + 2)).map c)).d
        (assemble E (m + 2) dt ((List.range (m + 2)).map c)).du b) := by
  have hp := assembled_pivots E m dt c hκ ha
  obtain ⟨hdl, hd, hdu⟩ := assemble_range_diag E m dt c
  apply triSolve_solves_of_pivots _ _ _ _ _ _ _ hp
  · rw [hdl, hd]; simp
  · rw [hdu, hd]; simp
  · rw [hd, hb]; simp

end Pivots

section Traj
variable {K : Type} [Field K] [LinearOrder K] [IsStrictOrderedRing K]

/-- What the loop body of the model does to the temperature list: build the right-hand side,
    solve with the factorised matrix (`stepOnce`: `solveFac fac (rhs n q ad0 s.T)`). -/
def modelStep (E : Env K) (m : ℕ) (dt q : K) (c : ℕ → Cell K) (T : List K) : List K :=
  triSolve (assemble E (m + 2) dt ((List.range (m + 2)).map c)).dl
    (assemble E (m + 2) dt ((List.range (m + 2)).map c)).d
    (assemble E (m + 2) dt ((List.range (m + 2)).map c)).du
    (rhs (m + 2) q (assemble E (m + 2) dt ((List.range (m + 2)).map c)).ad0 T)

/-- The model's temperature list after `k` passes of the loop. -/
def modelTraj (E : Env K) (m : ℕ) (dt q : K) (c : ℕ → Cell K) (T0 : List K) (k : ℕ) : List K :=
  (modelStep E m dt q c)^[k] T0

omit [LinearOrder K] [IsStrictOrderedRing K] in
theorem rhs_length (m : ℕ) (q ad0 : K) (T : List K) (hT : T.length = m + 2) : (rhs (m + 2) q ad0 T).length = m + 2 := by
  simp [rhs, hT]

theorem modelStep_spec (E : Env K) (m : ℕ) (dt q : K) (c : ℕ → Cell K) (T : List K) (hT : T.length = m + 2)
    (hκ : ∀ i, i ≤ m → 0 < cond E (c i) (c (i + 1))) (ha : ∀ i, i ≤ m → 0 < capRate dt (c i)) :
    (modelStep E m dt q c T).length = m + 2 ∧
    SolvesTri (assemble E (m + 2) dt ((List.range (m + 2)).map c)).dl
      (assemble E (m + 2) dt ((List.range (m + 2)).map c)).d
      (assemble E (m + 2) dt ((List.range (m + 2)).map c)).du
      (rhs (m + 2) q (assemble E (m + 2) dt ((List.range (m + 2)).map c)).ad0 T) (modelStep E m dt q c T) := by
  have h := triSolve_solves_assembled E m dt c
    (rhs (m + 2) q (assemble E (m + 2) dt ((List.range (m + 2)).map c)).ad0 T) (rhs_length m q _ T hT) hκ ha
  refine ⟨?_, h⟩
  have hdlen : (assemble E (m + 2) dt ((List.range (m + 2)).map c)).d.length = m + 2 := by
    rw [(assemble_range_diag E m dt c).2.1]; simp
  exact h.1.trans hdlen

theorem modelTraj_length (E : Env K) (m : ℕ) (dt q : K) (c : ℕ → Cell K) (T0 : List K) (hT : T0.length = m + 2)
    (hκ : ∀ i, i ≤ m → 0 < cond E (c i) (c (i + 1))) (ha : ∀ i, i ≤ m → 0 < capRate dt (c i)) (k : ℕ) :
    (modelTraj E m dt q c T0 k).length = m + 2 := by
  induction k with
  | zero => simpa [modelTraj] using hT
  | succ k ih =>
    unfold modelTraj at ih ⊢
    rw [Function.iterate_succ_apply']
    exact (modelStep_spec E m dt q c _ ih hκ ha).1

/-- Every pass of the model's loop produces an exact solution of the assembled system for the
    previous temperatures (in the index-function form the step theorems use). -/
theorem modelTraj_solves (E : Env K) (m : ℕ) (dt q : K) (c : ℕ → Cell K) (T0 : List K) (hT : T0.length = m + 2)
    (hκ : ∀ i, i ≤ m → 0 < cond E (c i) (c (i + 1))) (ha : ∀ i, i ≤ m → 0 < capRate dt (c i)) (k : ℕ) :
    SolvesTri (assemble E (m + 2) dt ((List.range (m + 2)).map c)).dl
      (assemble E (m + 2) dt ((List.range (m + 2)).map c)).d
      (assemble E (m + 2) dt ((List.range (m + 2)).map c)).du
      (rhs (m + 2) q (assemble E (m + 2) dt ((List.range (m + 2)).map c)).ad0
        ((List.range (m + 2)).map (fun i => (modelTraj E m dt q c T0 k).getD i 0)))
      ((List.range (m + 2)).map (fun i => (modelTraj E m dt q c T0 (k + 1)).getD i 0)) := by
  have l0 := modelTraj_length E m dt q c T0 hT hκ ha k
  have l1 := modelTraj_length E m dt q c T0 hT hκ ha (k + 1)
  have e0 := list_eq_range_map (modelTraj E m dt q c T0 k) 0
  have e1 := list_eq_range_map (modelTraj E m dt q c T0 (k + 1)) 0
  rw [l0] at e0
  rw [l1] at e1
  rw [← e0, ← e1]
  have : modelTraj E m dt q c T0 (k + 1) = modelStep E m dt q c (modelTraj E m dt q c T0 k) := by
    unfold modelTraj; rw [Function.iterate_succ_apply']
  rw [this]
  exact (modelStep_spec E m dt q c _ l0 hκ ha).2

end Traj

section TablePos
variable {K : Type} [Field K] [LinearOrder K] [IsStrictOrderedRing K]

/-- What the positivity results need of `log`: positive above 1 (true of `Real.log`). -/
def LogPos (E : Env K) : Prop := ∀ x : K, 1 < x → 0 < E.log x

/-- A well-formed cell: positive radii in order, positive conductivity, capacity and volume. -/
def CellOK (c : Cell K) : Prop := 0 < c.rIn ∧ c.rIn < c.rC ∧ c.rC < c.rOut ∧ 0 < c.k ∧ 0 < c.rhoCp ∧ 0 < c.vol

theorem fillSingleCell_ok (E : Env K) (hpi : 0 < E.pi) (inner thick k rc : K) (h1 : 0 < inner) (h2 : 0 < thick)
    (h3 : 0 < k) (h4 : 0 < rc) : CellOK (fillSingleCell E inner thick k rc) := by
  unfold CellOK fillSingleCell
  simp only
  push_cast
  refine ⟨h1, by linarith, by linarith, h3, h4, ?_⟩
  apply mul_pos hpi
  nlinarith

theorem regionCells_ok (E : Env K) (hpi : 0 < E.pi) (r0 t k rc : K) (n : ℕ) (h1 : 0 < r0) (h2 : 0 < t)
    (h3 : 0 < k) (h4 : 0 < rc) : ∀ c ∈ regionCells E r0 t k rc n, CellOK c := by
  intro c hc
  simp only [regionCells, List.mem_map] at hc
  obtain ⟨j, _, rfl⟩ := hc
  exact fillSingleCell_ok E hpi _ _ _ _ (by positivity) h2 h3 h4

/-- Conductance between two well-formed cells, and the capacity rate of one, are positive. -/
theorem cond_pos_of_ok (E : Env K) (hlog : LogPos E) (hpi : 0 < E.pi) (a b : Cell K) (ha : CellOK a) (hb : CellOK b) :
    0 < cond E a b := by
  obtain ⟨a1, a2, a3, a4, _, _⟩ := ha
  obtain ⟨b1, b2, _, b4, _, _⟩ := hb
  have tp : 0 < twoPi E := by unfold twoPi; push_cast; linarith
  have h1 : 0 < half1 E a := div_pos (hlog _ ((one_lt_div (lt_trans a1 a2)).mpr a3)) (mul_pos tp a4)
  have h2 : 0 < half2 E b := div_pos (hlog _ ((one_lt_div b1).mpr b2)) (mul_pos tp b4)
  unfold cond; exact one_div_pos.mpr (add_pos h1 h2)

theorem capRate_pos_of_ok (dt : K) (hdt : 0 < dt) (a : Cell K) (ha : CellOK a) : 0 < capRate dt a := by
  unfold capRate; exact div_pos (mul_pos ha.2.2.2.2.1 ha.2.2.2.2.2) hdt

/-- Validity of the inputs, stated on the inputs and the derived radii. -/
structure ValidInputs (E : Env K) (C : Counts) (x : Inputs K) (rf rpg : K) : Prop where
  pi_pos : 0 < E.pi
  counts : C.Pos
  rFluid_pos : 0 < (geometry E C x).rFluid          -- sqrt2·r_po − 2 (r_po − r_pi) > 0
  wall : x.rPi < x.rPo
  rPi_pos : 0 < x.rPi
  fits : (geometry E C x).rOutTube < x.rB           -- sqrt2·r_po < r_b
  far : x.rB < (geometry E C x).rFar                -- r_b < far-field radius
  rf_pos : 0 < rf
  rpg_pos : 0 < rpg
  kSoil_pos : 0 < x.kSoil
  rcSoil_pos : 0 < x.rcSoil
  rcGrout_pos : 0 < x.rcGrout
  rcPipe_pos : 0 < x.rcPipe
  rcFluid_pos : 0 < x.rcFluid

theorem geo_steps (E : Env K) (C : Counts) (x : Inputs K) :
    (geometry E C x).rConv = (geometry E C x).rFluid + 3 / 4 * (x.rPo - x.rPi) ∧
    (geometry E C x).rInTube = (geometry E C x).rConv + (x.rPo - x.rPi) / 4 ∧
    (geometry E C x).rOutTube = (geometry E C x).rInTube + (x.rPo - x.rPi) ∧
    (geometry E C x).rB = x.rB := by
  simp only [geometry]
  push_cast
  refine ⟨by ring, by ring, by ring, trivial⟩

/-- (2) Every cell of the table built from valid inputs is well-formed. -/
theorem core_cells_ok (E : Env K) (hlog : LogPos E) (C : Counts) (x : Inputs K) (rf rpg : K)
    (hv : ValidInputs E C x rf rpg) : ∀ c ∈ fillRadialCellsCore E C x rf rpg, CellOK c := by
  obtain ⟨g1, g2, g3, g4⟩ := geo_steps E C x
  obtain ⟨p1, p2, p3, p4, p5⟩ := hv.counts
  have tw : 0 < x.rPo - x.rPi := sub_pos.mpr hv.wall
  have hF := hv.rFluid_pos
  have hC : 0 < (geometry E C x).rConv := by rw [g1]; positivity
  have hI : 0 < (geometry E C x).rInTube := by rw [g2]; positivity
  have hO : 0 < (geometry E C x).rOutTube := by rw [g3]; positivity
  have hB : 0 < x.rB := lt_trans hO hv.fits
  have n1 : (0 : K) < C.nFluid := by exact_mod_cast p1
  have n2 : (0 : K) < C.nConv := by exact_mod_cast p2
  have n3 : (0 : K) < C.nPipe := by exact_mod_cast p3
  have n4 : (0 : K) < C.nGrout := by exact_mod_cast p4
  have n5 : (0 : K) < C.nSoil := by exact_mod_cast p5
  have t1 : 0 < (geometry E C x).thFluid := by
    show 0 < ((geometry E C x).rConv - (geometry E C x).rFluid) / (C.nFluid : K)
    apply div_pos _ n1; rw [g1]; linarith
  have t2 : 0 < (geometry E C x).thConv := by
    show 0 < ((geometry E C x).rInTube - (geometry E C x).rConv) / (C.nConv : K)
    apply div_pos _ n2; rw [g2]; linarith
  have t3 : 0 < (geometry E C x).thPipe := by
    show 0 < ((geometry E C x).rOutTube - (geometry E C x).rInTube) / (C.nPipe : K)
    apply div_pos _ n3; rw [g3]; linarith
  have t4 : 0 < (geometry E C x).thGrout := by
    show 0 < (x.rB - (geometry E C x).rOutTube) / (C.nGrout : K)
    apply div_pos _ n4; linarith [hv.fits]
  have t5 : 0 < (geometry E C x).thSoil := by
    show 0 < ((geometry E C x).rFar - x.rB) / (C.nSoil : K)
    apply div_pos _ n5; linarith [hv.far]
  have tp : 0 < twoPi E := by unfold twoPi; push_cast; linarith [hv.pi_pos]
  have k1 : (0 : K) < ((Gen.Radial.conductivityFluid : ℕ) : K) := by
    have : 0 < Gen.Radial.conductivityFluid := by decide
    exact_mod_cast this
  have k2 : 0 < kConv E (geometry E C x) rf := by
    unfold kConv
    exact div_pos (hlog _ ((one_lt_div hC).mpr (by rw [g2]; linarith))) (mul_pos tp hv.rf_pos)
  have k3 : 0 < kPipeGrout E (geometry E C x) rpg := by
    unfold kPipeGrout
    rw [g4]
    exact div_pos (hlog _ ((one_lt_div hI).mpr (by linarith [hv.fits]))) (mul_pos tp hv.rpg_pos)
  have c1 : 0 < rhoCpEqFluid x (geometry E C x) := by
    unfold rhoCpEqFluid
    apply div_pos
    · have := hv.rPi_pos; have := hv.rcFluid_pos; push_cast; positivity
    · rw [g1]; nlinarith
  have c2 : (0 : K) < ofRat Gen.Radial.rhoCpConv := by
    have : (ofRat Gen.Radial.rhoCpConv : K) = 1 := by
      simp [ofRat, Gen.Radial.rhoCpConv]
    rw [this]; exact one_pos
  intro c hc
  simp only [fillRadialCellsCore, List.mem_append] at hc
  rcases hc with (((h | h) | h) | h) | h
  · exact regionCells_ok E hv.pi_pos _ _ _ _ _ hF t1 k1 c1 c h
  · exact regionCells_ok E hv.pi_pos _ _ _ _ _ hC t2 k2 c2 c h
  · exact regionCells_ok E hv.pi_pos _ _ _ _ _ hI t3 k3 hv.rcPipe_pos c h
  · exact regionCells_ok E hv.pi_pos _ _ _ _ _ hO t4 k3 hv.rcGrout_pos c h
  · exact regionCells_ok E hv.pi_pos _ _ _ _ _ (by rw [g4]; exact hB) t5 hv.kSoil_pos hv.rcSoil_pos c h


theorem core_temp {K : Type} [Field K] (E : Env K) (C : Counts) (x : Inputs K) (rf rpg : K) :
    ∀ c ∈ fillRadialCellsCore E C x rf rpg, c.temp = ((Gen.Radial.initTemp : ℕ) : K) := by
  intro c hc
  simp only [fillRadialCellsCore, List.mem_append, regionCells, List.mem_map] at hc
  rcases hc with (((⟨j, _, rfl⟩ | ⟨j, _, rfl⟩) | ⟨j, _, rfl⟩) | ⟨j, _, rfl⟩) | ⟨j, _, rfl⟩ <;> rfl

/-- (2) Hence all conductances and capacity rates of the assembled system are positive. -/
theorem core_coefficients_pos (E : Env K) (hlog : LogPos E) (C : Counts) (x : Inputs K) (rf rpg dt : K)
    (hv : ValidInputs E C x rf rpg) (hdt : 0 < dt) (dflt : Cell K) :
    (∀ i, i + 1 < (fillRadialCellsCore E C x rf rpg).length →
      0 < cond E ((fillRadialCellsCore E C x rf rpg).getD i dflt) ((fillRadialCellsCore E C x rf rpg).getD (i + 1) dflt)) ∧
    (∀ i, i < (fillRadialCellsCore E C x rf rpg).length →
      0 < capRate dt ((fillRadialCellsCore E C x rf rpg).getD i dflt)) := by
  have ok := core_cells_ok E hlog C x rf rpg hv
  have mem : ∀ i, i < (fillRadialCellsCore E C x rf rpg).length →
      CellOK ((fillRadialCellsCore E C x rf rpg).getD i dflt) := by
    intro i hi
    rw [List.getD_eq_getElem _ _ hi]
    exact ok _ (List.getElem_mem hi)
  exact ⟨fun i hi => cond_pos_of_ok E hlog hv.pi_pos _ _ (mem i (by omega)) (mem (i + 1) hi),
    fun i hi => capRate_pos_of_ok dt hdt _ (mem i hi)⟩

end TablePos

section StepOnce
variable {K : Type} [Field K]

/-- What one successful pass of the model's loop body leaves in the state: the temperatures are the
    solve of the right-hand side built from the previous temperatures, and the appended `g`, `g_bhw`
    are the formulas of the theorems evaluated at the new fluid / wall temperature. -/
theorem stepOnce_ok (E : Env K) (n bhIdx : ℕ) (fac : List (Fac K)) (ad0 q dt tS c0 rb : K) (s s' : LoopState K)
    (h : stepOnce E n bhIdx fac ad0 q dt tS c0 rb s = .ok s') :
    s'.T = solveFac fac (rhs n q ad0 s.T) ∧ s'.nSteps = s.nSteps + 1 ∧ s'.time = s.time + dt ∧
    s'.g = c0 * ((s'.T.headD 0 - ((Gen.Radial.initTemp : ℕ) : K)) / q - rb) :: s.g ∧
    s'.gBhw = c0 * (((s'.T.drop bhIdx).headD 0 - ((Gen.Radial.initTemp : ℕ) : K)) / q) :: s.gBhw := by
  unfold stepOnce at h
  simp only [bind, Except.bind, pure, Except.pure, throw, throwThe, MonadExceptOf.throw, Nat.cast_zero] at h
  split at h
  · exact absurd h (by simp)
  · split at h
    · exact absurd h (by simp)
    · injection h with h
      subst h
      simp
end StepOnce

end GHEVerif.Radial
