/- Duration lemmas for C07: scipy's inverse interpolation on a sorted table, summation by parts
   for the temporal superposition, closed forms of the two 48-hour responses. -/
import GHEVerif.Lemmas.HybridAxis
import Mathlib.Tactic.Linarith
import Mathlib.Tactic.FieldSimp

namespace GHEVerif.Hybrid
open GHEVerif

theorem insSorted_ge (p : Rat × Rat) (l : List (Rat × Rat)) (h : ∀ a ∈ l, a.1 ≤ p.1) : insSorted p l = l ++ [p] := by
  induction l with
  | nil => rfl
  | cons a l ih =>
    have ha : ¬ (p.1 < a.1) := not_lt.mpr (h a (by simp))
    simp only [insSorted, ha, if_false, List.cons_append]
    rw [ih (fun b hb => h b (by simp [hb]))]

theorem foldl_insSorted (l acc : List (Rat × Rat)) (h1 : ∀ a ∈ acc, ∀ b ∈ l, a.1 ≤ b.1)
    (h2 : l.Pairwise (fun a b => a.1 ≤ b.1)) :
    List.foldl (fun acc p => insSorted p acc) acc l = acc ++ l := by
  induction l generalizing acc with
  | nil => simp
  | cons x l ih =>
    rw [List.foldl_cons, insSorted_ge x acc (fun a ha => h1 a ha x (by simp))]
    rw [List.pairwise_cons] at h2
    rw [ih (acc ++ [x]) ?_ h2.2]
    · simp
    · intro a ha b hb
      rcases List.mem_append.mp ha with ha | ha
      · exact h1 a ha b (by simp [hb])
      · simp at ha; subst ha; exact h2.1 b hb

/-- numpy's stable argsort leaves an already sorted table unchanged. -/
theorem stableSort_sorted (l : List (Rat × Rat)) (h : l.Pairwise (fun a b => a.1 ≤ b.1)) : stableSort l = l := by
  unfold stableSort
  rw [foldl_insSorted l [] (by simp) h]; simp

/-- `searchsorted(side="left")` on a sorted table: everything before the count is `< m`, everything
    from it on is `≥ m`. -/
theorem count_lt_sorted (l : List (Rat × Rat)) (hs : l.Pairwise (fun a b => a.1 ≤ b.1)) (m : Rat) :
    (l.filter (fun p => decide (p.1 < m))).length ≤ l.length ∧
    (∀ j, j < (l.filter (fun p => decide (p.1 < m))).length → (l.getD j (0, 0)).1 < m) ∧
    (∀ j, (l.filter (fun p => decide (p.1 < m))).length ≤ j → j < l.length → m ≤ (l.getD j (0, 0)).1) := by
  induction l with
  | nil => simp
  | cons a l ih =>
    rw [List.pairwise_cons] at hs
    obtain ⟨i1, i2, i3⟩ := ih hs.2
    by_cases ha : a.1 < m
    · simp only [List.filter_cons, ha, decide_true, if_true, List.length_cons]
      refine ⟨by omega, ?_, ?_⟩
      · intro j hj
        cases j with
        | zero => simpa using ha
        | succ j => simpa using i2 j (by omega)
      · intro j h1 h2
        cases j with
        | zero => omega
        | succ j => simpa using i3 j (by omega) (by omega)
    · have hall : ∀ b ∈ l, ¬ (b.1 < m) := fun b hb => by
        have := hs.1 b hb; intro h; exact ha (lt_of_le_of_lt this h)
      have hf : l.filter (fun p => decide (p.1 < m)) = [] := by
        rw [List.filter_eq_nil_iff]; intro b hb; simpa using hall b hb
      simp only [List.filter_cons, ha, decide_false, hf, Bool.false_eq_true, if_false, List.length_nil, List.length_cons]
      refine ⟨by omega, by intro j hj; omega, ?_⟩
      intro j _ h2
      cases j with
      | zero => simpa using not_lt.mp ha
      | succ j =>
        have hj : j < l.length := by omega
        have : l.getD j (0, 0) ∈ l := by
          rw [List.getD_eq_getElem?_getD, List.getElem?_eq_getElem hj]; simp
        simpa using not_lt.mp (hall _ this)


theorem hourGrid_length (n : Nat) : (hourGrid n).length = n := by simp [hourGrid]

theorem hourGrid_getD (n j : Nat) (h : j < n) : (hourGrid n).getD j 0 = (j : Rat) := by
  unfold hourGrid
  rw [List.getD_eq_getElem?_getD, List.getElem?_eq_getElem (by simpa using h)]
  simp

theorem zip_getD (xs ys : List Rat) (j : Nat) (h1 : j < xs.length) (h2 : j < ys.length) :
    (xs.zip ys).getD j (0, 0) = (xs.getD j 0, ys.getD j 0) := by
  rw [List.getD_eq_getElem?_getD, List.getD_eq_getElem?_getD, List.getD_eq_getElem?_getD,
    List.getElem?_eq_getElem (by simp; omega), List.getElem?_eq_getElem h1, List.getElem?_eq_getElem h2]
  simp

/-- Inverse piecewise-linear interpolation in a non-decreasing table `xs` (values at hours
    `0..n`), for a level `m` with `xs[0] < m ≤ xs[n]`: scipy's `interp1d(xs, hours)(m)` is finite,
    lies in `(0, n]`, and is the point of the bracketing interval `k < d ≤ k+1` where the
    interpolant of the table equals `m`. -/
theorem interp_bounds (xs : List Rat) (n : Nat) (hlen : xs.length = n + 1) (hs : xs.Pairwise (· ≤ ·))
    (m : Rat) (h0 : xs.getD 0 0 < m) (hN : m ≤ xs.getD n 0) :
    ∃ (d : Rat) (k : Nat), interpExtrap xs (hourGrid (n + 1)) m = .val d ∧ 0 < d ∧ d ≤ (n : Rat) ∧
      k < n ∧ xs.getD k 0 < m ∧ m ≤ xs.getD (k + 1) 0 ∧ (k : Rat) < d ∧ d ≤ (k : Rat) + 1 ∧
      xs.getD k 0 + (d - (k : Rat)) * (xs.getD (k + 1) 0 - xs.getD k 0) = m := by
  set pts := xs.zip (hourGrid (n + 1)) with hpts
  have hl : pts.length = n + 1 := by simp [hpts, hlen, hourGrid_length]
  have hsorted : pts.Pairwise (fun a b => a.1 ≤ b.1) := by
    have : pts.map Prod.fst = xs := by
      rw [hpts, List.map_fst_zip]; simp [hlen, hourGrid_length]
    rw [← this, List.pairwise_map] at hs
    exact hs
  have hget : ∀ j, j ≤ n → pts.getD j (0, 0) = (xs.getD j 0, (j : Rat)) := by
    intro j hj
    rw [hpts, zip_getD _ _ j (by omega) (by rw [hourGrid_length]; omega), hourGrid_getD _ _ (by omega)]
  obtain ⟨c1, c2, c3⟩ := count_lt_sorted pts hsorted m
  set cnt := (pts.filter (fun p => decide (p.1 < m))).length with hcnt
  have hc1 : 1 ≤ cnt := by
    by_contra h
    have := c3 0 (by omega) (by omega)
    rw [hget 0 (by omega)] at this
    exact absurd h0 (not_lt.mpr this)
  have hc2 : cnt ≤ n := by
    by_contra h
    have := c2 n (by omega)
    rw [hget n (le_refl _)] at this
    exact absurd this (not_lt.mpr hN)
  have hlo := c2 (cnt - 1) (by omega)
  have hhi := c3 cnt (le_refl _) (by omega)
  rw [hget (cnt - 1) (by omega)] at hlo
  rw [hget cnt hc2] at hhi
  simp only at hlo hhi
  have hne : ¬ (xs.getD cnt 0 = xs.getD (cnt - 1) 0) := by intro h; rw [h] at hhi; linarith
  have hpos : 0 < xs.getD cnt 0 - xs.getD (cnt - 1) 0 := by linarith
  have hk : ((cnt - 1 : Nat) : Rat) = (cnt : Rat) - 1 := by
    rw [Nat.cast_sub hc1]; simp
  refine ⟨((cnt : Rat) - ((cnt - 1 : Nat) : Rat)) / (xs.getD cnt 0 - xs.getD (cnt - 1) 0) * (m - xs.getD (cnt - 1) 0) + ((cnt - 1 : Nat) : Rat),
    cnt - 1, ?_, ?_⟩
  · unfold interpExtrap
    simp only []
    rw [← hpts, stableSort_sorted pts hsorted, hl, ← hcnt]
    have : max 1 (min cnt (n + 1 - 1)) = cnt := by omega
    rw [this, hget (cnt - 1) (by omega), hget cnt hc2]
    simp only [hne, if_false]
  · have hfrac : ((cnt : Rat) - ((cnt - 1 : Nat) : Rat)) / (xs.getD cnt 0 - xs.getD (cnt - 1) 0) * (m - xs.getD (cnt - 1) 0)
        = (m - xs.getD (cnt - 1) 0) / (xs.getD cnt 0 - xs.getD (cnt - 1) 0) := by
      rw [hk]; field_simp; ring
    rw [hfrac]
    have f0 : 0 < (m - xs.getD (cnt - 1) 0) / (xs.getD cnt 0 - xs.getD (cnt - 1) 0) := div_pos (by linarith) hpos
    have f1 : (m - xs.getD (cnt - 1) 0) / (xs.getD cnt 0 - xs.getD (cnt - 1) 0) ≤ 1 := by
      rw [div_le_iff₀ hpos]; linarith
    have hcn : (cnt : Rat) ≤ (n : Rat) := by exact_mod_cast hc2
    have hc1R : (1 : Rat) ≤ (cnt : Rat) := by exact_mod_cast hc1
    have hsucc : cnt - 1 + 1 = cnt := by omega
    refine ⟨by rw [hk]; linarith, by rw [hk]; linarith, by omega, hlo, by rw [hsucc]; exact hhi,
      by linarith, by linarith, ?_⟩
    rw [hsucc]
    field_simp
    ring

theorem range_sum_succ (f : Nat → Rat) (n : Nat) :
    ((List.range (n + 1)).map f).sum = f 0 + ((List.range n).map (fun j => f (j + 1))).sum := by
  rw [List.range_succ_eq_map, List.map_cons, List.sum_cons, List.map_map]
  rfl

/-- Summation by parts as an inequality: a load history bounded by `M` convolved with a
    non-negative non-decreasing step response stays below `M − w 0` times the response. -/
theorem abel_bound (s : Nat → Rat) (hs1 : 0 ≤ s 1) (hmono : ∀ k, 1 ≤ k → s k ≤ s (k + 1)) (M : Rat) :
    ∀ (n : Nat) (w : Nat → Rat), (∀ k, k ≤ n + 1 → w k ≤ M) →
      ((List.range (n + 1)).map (fun j => (w (j + 1) - w j) * s (n + 1 - j))).sum ≤ (M - w 0) * s (n + 1) := by
  have hs : ∀ k, 1 ≤ k → 0 ≤ s k := by
    intro k hk
    induction k, hk using Nat.le_induction with
    | base => exact hs1
    | succ k hk ih => exact le_trans ih (hmono k hk)
  intro n
  induction n with
  | zero =>
    intro w hw
    have h1 := hw 1 (by omega)
    have h2 := hs 1 (le_refl _)
    simp
    nlinarith
  | succ n ih =>
    intro w hw
    rw [range_sum_succ]
    have e : ((List.range (n + 1)).map (fun j => (fun j => (w (j + 1) - w j) * s (n + 1 + 1 - j)) (j + 1))).sum
        = ((List.range (n + 1)).map (fun j => ((fun k => w (k + 1)) (j + 1) - (fun k => w (k + 1)) j) * s (n + 1 - j))).sum := by
      congr 1
      apply List.map_congr_left
      intro j _
      show (w (j + 1 + 1) - w (j + 1)) * s (n + 1 + 1 - (j + 1)) = _
      congr 2
      omega
    rw [e]
    have := ih (fun k => w (k + 1)) (fun k hk => hw (k + 1) (by omega))
    simp only at this ⊢
    have h1 := hw 1 (by omega)
    have hm := hmono (n + 1) (by omega)
    have key : (M - w 1) * s (n + 1) ≤ (M - w 1) * s (n + 1 + 1) := mul_le_mul_of_nonneg_left hm (by linarith)
    simp only [Nat.zero_add, Nat.sub_zero] at this ⊢
    nlinarith

theorem telescope (w : Nat → Rat) (n : Nat) :
    ((List.range n).map (fun j => w (j + 1) - w j)).sum = w n - w 0 := by
  induction n with
  | zero => simp
  | succ n ih => rw [List.range_succ, List.map_append, List.sum_append, ih]; simp


/-! ### the two responses of `perform_current_month_simulation` -/

/-- Step response (K per kW) of the borehole after `k` hours: `g_sts(k h)/(2πk_s) + R_b`. -/
def stepResp (G : Nat → Rat) (tpk rb : Rat) (k : Nat) : Rat := G k / tpk + rb

theorem qdt_getD (q : List Rat) (j : Nat) (h : j + 1 < q.length) :
    (qdt q).getD j 0 = q.getD (j + 1) 0 - q.getD j 0 := by
  unfold qdt
  have h1 : j < q.length := by omega
  have h2 : j < q.tail.length := by simp; omega
  rw [List.getD_eq_getElem?_getD, List.getD_eq_getElem?_getD, List.getD_eq_getElem?_getD,
    List.getElem?_eq_getElem (by simp; omega), List.getElem?_eq_getElem h, List.getElem?_eq_getElem h1]
  simp

theorem sum_map_mul_right' (l : List Nat) (f : Nat → Rat) (c : Rat) :
    (l.map (fun j => f j * c)).sum = (l.map f).sum * c := by
  induction l with
  | nil => simp
  | cons a l ih => simp [List.sum_cons, ih]; ring

/-- `simulate_hourly` at hour `n` is the superposition of the load changes with the step response. -/
theorem responseFrom_eq (G : Nat → Rat) (tpk rb : Rat) (q : List Rat) (hq0 : q.getD 0 0 = 0) (n : Nat)
    (hn : n < q.length) :
    responseFrom G tpk rb (qdt q) q n =
      ((List.range n).map (fun j => (q.getD (j + 1) 0 - q.getD j 0) * stepResp G tpk rb (n - j))).sum := by
  unfold responseFrom
  have e1 : (List.range n).map (fun j => (qdt q).getD j 0 / tpk * G (n - j))
      = (List.range n).map (fun j => (q.getD (j + 1) 0 - q.getD j 0) * (G (n - j) / tpk)) := by
    apply List.map_congr_left
    intro j hj
    rw [List.mem_range] at hj
    rw [qdt_getD q j (by omega)]; ring
  have e2 : q.getD n 0 * rb = ((List.range n).map (fun j => (q.getD (j + 1) 0 - q.getD j 0) * rb)).sum := by
    rw [sum_map_mul_right' _ (fun j => q.getD (j + 1) 0 - q.getD j 0) rb, telescope (fun k => q.getD k 0) n, hq0]; ring
  rw [e1, e2, ← List.sum_map_add]
  congr 1
  apply List.map_congr_left
  intro j _
  unfold stepResp; ring

theorem response_getD (G : Nat → Rat) (tpk rb : Rat) (q : List Rat) (k : Nat) (hk : k + 1 < q.length) :
    (response G tpk rb q).getD (k + 1) 0 = responseFrom G tpk rb (qdt q) q (k + 1) := by
  unfold response
  simp only [List.getD_cons_succ]
  rw [List.getD_eq_getElem?_getD, List.getElem?_eq_getElem (by simp; omega)]
  simp

theorem response_length (G : Nat → Rat) (tpk rb : Rat) (q : List Rat) : (response G tpk rb q).length = q.length - 1 + 1 := by
  simp [response]

theorem stepResp_mono (G : Nat → Rat) (tpk rb : Rat) (htpk : 0 < tpk) (hG : ∀ k, 1 ≤ k → G k ≤ G (k + 1)) :
    ∀ k, 1 ≤ k → stepResp G tpk rb k ≤ stepResp G tpk rb (k + 1) := by
  intro k hk
  unfold stepResp
  have := hG k hk
  have : G k / tpk ≤ G (k + 1) / tpk := div_le_div_of_nonneg_right this (le_of_lt htpk)
  linarith

theorem mono_of_succ (s : Nat → Rat) (h : ∀ k, 1 ≤ k → s k ≤ s (k + 1)) (a b : Nat) (ha : 1 ≤ a) (hab : a ≤ b) : s a ≤ s b := by
  induction b, hab using Nat.le_induction with
  | base => exact le_refl _
  | succ b hb ih => exact le_trans ih (h b (by omega))

/-- Peak-step response: `(peak − avg) · stepResp n` at every hour `1 ≤ n ≤ 48`. -/
theorem peak_response (G : Nat → Rat) (tpk rb p a : Rat) (n : Nat) (hn : n < 48) :
    responseFrom G tpk rb (qdt (qPeak p a)) (qPeak p a) (n + 1) = (p - a) * stepResp G tpk rb (n + 1) := by
  have hlen : (qPeak p a).length = 49 := by simp [qPeak, Gen.twoDayFactor, Gen.HRS_IN_DAY]
  have h0 : (qPeak p a).getD 0 0 = 0 := rfl
  have hk : ∀ k, 1 ≤ k → k ≤ 48 → (qPeak p a).getD k 0 = p - a := by
    intro k k1 k2
    obtain ⟨j, rfl⟩ : ∃ j, k = j + 1 := ⟨k - 1, by omega⟩
    simp only [qPeak, List.getD_cons_succ]
    rw [List.getD_eq_getElem?_getD, List.getElem?_eq_getElem (by simp [Gen.twoDayFactor, Gen.HRS_IN_DAY]; omega)]
    simp
  rw [responseFrom_eq G tpk rb _ h0 (n + 1) (by omega), range_sum_succ]
  simp only [h0, hk 1 (le_refl _) (by omega), Nat.sub_zero, sub_zero]
  have : ((List.range n).map (fun j => ((qPeak p a).getD (j + 1 + 1) 0 - (qPeak p a).getD (j + 1) 0) * stepResp G tpk rb (n + 1 - (j + 1)))).sum = 0 := by
    apply List.sum_eq_zero
    intro x hx
    rw [List.mem_map] at hx
    obtain ⟨j, hj, rfl⟩ := hx
    rw [List.mem_range] at hj
    rw [hk (j + 1 + 1) (by omega) (by omega), hk (j + 1) (by omega) (by omega)]; ring
  rw [this]; ring

theorem mapM_ok {α β} (f : α → Py β) (g : α → β) (l : List α) (h : ∀ x ∈ l, f x = .ok (g x)) :
    l.mapM f = .ok (l.map g) := by
  induction l with
  | nil => rfl
  | cons x xs ih =>
    rw [List.mapM_cons, h x (by simp), ih (fun y hy => h y (by simp [hy]))]
    rfl

/-- `q_nominal` in closed form (the window has 48 entries after the leading 0 and the peak is not 0). -/
theorem qNominal_eq (td : List Rat) (p a : Rat) (hlen : td.length = 49) (hp : p ≠ 0) :
    qNominal td p a = .ok (0 :: (List.range 48).map (fun k => (td.getD (k + 1) 0 - a) / p * td.getD (k + 1) 0)) := by
  unfold qNominal
  have e48 : (Gen.twoDayFactor * Gen.HRS_IN_DAY).toNat = 48 := rfl
  rw [e48, mapM_ok _ (fun k => (td.getD (k + 1) 0 - a) / p * td.getD (k + 1) 0)]
  · rfl
  · intro k hk
    rw [List.mem_range] at hk
    have : pyIndex td ((k : Int) + 1) = .ok (td.getD (k + 1) 0) := by
      have := pyIndex_of_nonneg td ((k : Int) + 1) (by omega) (by omega)
      rw [this]; congr 2
    rw [this]
    simp only [bind, Except.bind, pyDiv, hp, if_false, pure, Except.pure]

theorem foldl_ratMax_spec (xs : List Rat) (x : Rat) :
    xs.foldl ratMax x ∈ x :: xs ∧ ∀ y ∈ x :: xs, y ≤ xs.foldl ratMax x := by
  induction xs generalizing x with
  | nil => simp
  | cons a xs ih =>
    obtain ⟨i1, i2⟩ := ih (ratMax x a)
    simp only [List.foldl_cons]
    have hm : ratMax x a = x ∨ ratMax x a = a := by unfold ratMax; split <;> simp
    have hx : x ≤ ratMax x a := by unfold ratMax; split <;> [exact le_of_lt ‹_›; exact le_refl _]
    have ha : a ≤ ratMax x a := by unfold ratMax; split <;> [exact le_refl _; exact not_lt.mp ‹_›]
    refine ⟨?_, ?_⟩
    · rcases List.mem_cons.mp i1 with h | h
      · rw [h]; rcases hm with h' | h' <;> rw [h'] <;> simp
      · exact List.mem_cons_of_mem _ (List.mem_cons_of_mem _ h)
    · intro y hy
      rcases List.mem_cons.mp hy with rfl | hy
      · exact le_trans hx (i2 _ (by simp))
      · rcases List.mem_cons.mp hy with rfl | hy
        · exact le_trans ha (i2 _ (by simp))
        · exact i2 y (by simp [hy])

theorem pyMax_spec (l : List Rat) (m : Rat) (h : pyMax l = .ok m) : m ∈ l ∧ ∀ y ∈ l, y ≤ m := by
  cases l with
  | nil => cases h
  | cons x xs =>
    simp only [pyMax, Except.ok.injEq] at h
    subst h
    exact foldl_ratMax_spec xs x

/-- Each nominal load stays below the peak step: `(q − avg)·q/peak ≤ peak − avg` for `0 ≤ q ≤ peak`. -/
theorem nominal_le_step (v p a : Rat) (hv0 : 0 ≤ v) (hvp : v ≤ p) (hp : 0 < p) (ha : 0 ≤ a) (hap : a ≤ p) :
    (v - a) / p * v ≤ p - a := by
  rw [div_mul_eq_mul_div, div_le_iff₀ hp]
  by_cases h : a ≤ v
  · nlinarith
  · have : v < a := not_le.mp h
    nlinarith

/-- The design's `duration_bounds` together with `duration_definition`: for every short-time response
    `G` that is non-decreasing in the lag with a non-negative one-hour step response, every window
    with `0 ≤ qᵢ ≤ peak` and `0 ≤ avg < peak`, `perform_current_month_simulation` returns a finite
    duration in `(0, 48]`; and unless it is the placeholder, it is the time `d ∈ (k, k+1]` at which
    the piecewise-linear interpolant of the peak-step response equals the maximum `m` of the nominal
    response. -/
theorem peakDuration_bounds (G : Nat → Rat) (tpk rb : Rat) (td : List Rat) (p a : Rat)
    (hlen : td.length = 49) (htpk : 0 < tpk) (hG : ∀ k, 1 ≤ k → G k ≤ G (k + 1))
    (hS : 0 ≤ stepResp G tpk rb 1)
    (hq : ∀ k, 1 ≤ k → k ≤ 48 → 0 ≤ td.getD k 0 ∧ td.getD k 0 ≤ p) (ha : 0 ≤ a) (hap : a < p) :
    ∃ d, peakDuration G tpk rb td p a = .ok (.val d) ∧ 0 < d ∧ d ≤ 48 ∧
      (d = Gen.hybridDelta ∨
        ∃ (m : Rat) (k : Nat) (qn : List Rat), qNominal td p a = .ok qn ∧ pyMax (response G tpk rb qn) = .ok m ∧
          0 < m ∧ k < 48 ∧ (k : Rat) < d ∧ d ≤ (k : Rat) + 1 ∧
          (response G tpk rb (qPeak p a)).getD k 0
            + (d - (k : Rat)) * ((response G tpk rb (qPeak p a)).getD (k + 1) 0 - (response G tpk rb (qPeak p a)).getD k 0) = m) := by
  have hp : 0 < p := by linarith
  have hM : 0 < p - a := by linarith
  have smono := stepResp_mono G tpk rb htpk hG
  have sge : ∀ k, 1 ≤ k → 0 ≤ stepResp G tpk rb k := fun k hk => le_trans hS (mono_of_succ _ smono 1 k (le_refl _) hk)
  -- nominal loads
  have hqn := qNominal_eq td p a hlen (ne_of_gt hp)
  set qn : List Rat := 0 :: (List.range 48).map (fun k => (td.getD (k + 1) 0 - a) / p * td.getD (k + 1) 0) with hqndef
  have qlen : qn.length = 49 := by simp [hqndef]
  have q0 : qn.getD 0 0 = 0 := rfl
  have qle : ∀ k, qn.getD k 0 ≤ p - a := by
    intro k
    cases k with
    | zero => rw [q0]; exact le_of_lt hM
    | succ k =>
      by_cases hk : k < 48
      · have : qn.getD (k + 1) 0 = (td.getD (k + 1) 0 - a) / p * td.getD (k + 1) 0 := by
          simp only [hqndef, List.getD_cons_succ]
          rw [List.getD_eq_getElem?_getD, List.getElem?_eq_getElem (by simpa using hk)]
          simp
        rw [this]
        obtain ⟨v0, v1⟩ := hq (k + 1) (by omega) (by omega)
        exact nominal_le_step _ p a v0 v1 hp ha (le_of_lt hap)
      · rw [List.getD_eq_getElem?_getD, List.getElem?_eq_none (by rw [qlen]; omega)]
        exact le_of_lt hM
  -- nominal response ≤ peak-step response
  have hnm : ∀ k, k < 48 → responseFrom G tpk rb (qdt qn) qn (k + 1) ≤ (p - a) * stepResp G tpk rb (k + 1) := by
    intro k hk
    rw [responseFrom_eq G tpk rb qn q0 (k + 1) (by rw [qlen]; omega)]
    have := abel_bound (stepResp G tpk rb) hS smono (p - a) k (fun j => qn.getD j 0) (fun j _ => qle j)
    simp only [q0, sub_zero] at this
    exact this
  -- the two response tables
  have htpkL : response G tpk rb (qPeak p a) = 0 :: (List.range 48).map (fun k => (p - a) * stepResp G tpk rb (k + 1)) := by
    unfold response
    have : (qPeak p a).length - 1 = 48 := by simp [qPeak, Gen.twoDayFactor, Gen.HRS_IN_DAY]
    simp only [this]
    congr 1
    apply List.map_congr_left
    intro k hk
    rw [List.mem_range] at hk
    exact peak_response G tpk rb p a k hk
  have htnmL : response G tpk rb qn = 0 :: (List.range 48).map (fun k => responseFrom G tpk rb (qdt qn) qn (k + 1)) := by
    unfold response
    have : qn.length - 1 = 48 := by rw [qlen]
    simp only [this]
  have hsorted : (response G tpk rb (qPeak p a)).Pairwise (· ≤ ·) := by
    rw [htpkL, List.pairwise_cons]
    refine ⟨?_, ?_⟩
    · intro x hx
      rw [List.mem_map] at hx
      obtain ⟨k, _, rfl⟩ := hx
      exact mul_nonneg (le_of_lt hM) (sge (k + 1) (by omega))
    · rw [List.pairwise_map]
      exact List.Pairwise.imp (fun {x y} (h : x < y) =>
        mul_le_mul_of_nonneg_left (mono_of_succ _ smono (x + 1) (y + 1) (by omega) (by omega)) (le_of_lt hM)) List.pairwise_lt_range
  have hlenL : (response G tpk rb (qPeak p a)).length = 48 + 1 := by rw [htpkL]; simp
  have hg0 : (response G tpk rb (qPeak p a)).getD 0 0 = 0 := by rw [htpkL]; rfl
  have hg48 : (response G tpk rb (qPeak p a)).getD 48 0 = (p - a) * stepResp G tpk rb 48 := by
    rw [htpkL]
    simp only [List.getD_cons_succ]
    rw [List.getD_eq_getElem?_getD, List.getElem?_eq_getElem (by simp)]
    simp
  -- the maximum of the nominal response
  obtain ⟨m, hm⟩ : ∃ m, pyMax (response G tpk rb qn) = .ok m := by rw [htnmL]; exact ⟨_, rfl⟩
  obtain ⟨mmem, _⟩ := pyMax_spec _ m hm
  have hmle : m ≤ (p - a) * stepResp G tpk rb 48 := by
    rw [htnmL] at mmem
    rcases List.mem_cons.mp mmem with h | h
    · rw [h]; exact mul_nonneg (le_of_lt hM) (sge 48 (by omega))
    · rw [List.mem_map] at h
      obtain ⟨k, hk, rfl⟩ := h
      rw [List.mem_range] at hk
      exact le_trans (hnm k hk) (mul_le_mul_of_nonneg_left (mono_of_succ _ smono (k + 1) 48 (by omega) (by omega)) (le_of_lt hM))
  unfold peakDuration
  rw [hqn]
  simp only [bind, Except.bind, hm]
  by_cases hpos : m > 0
  · simp only [hpos, if_true, pure, Except.pure]
    rw [hlenL]
    obtain ⟨d, k, e1, e2, e3, e4, _, _, e7, e8, e9⟩ := interp_bounds _ 48 hlenL hsorted m (by rw [hg0]; exact hpos) (by rw [hg48]; exact hmle)
    refine ⟨d, by rw [e1], e2, by exact_mod_cast e3, Or.inr ⟨m, k, qn, rfl, hm, hpos, e4, e7, e8, e9⟩⟩
  · simp only [hpos, if_false, pure, Except.pure]
    refine ⟨Gen.hybridDelta, rfl, delta_pos, ?_, Or.inl rfl⟩
    unfold Gen.hybridDelta; norm_num

end GHEVerif.Hybrid
