/- Helper lemmas for the search group (C01, C02, C05, C12). -/
import GHEVerif.Model.Search
import Mathlib.Tactic.Linarith
import Mathlib.Tactic.Ring
import Mathlib.Tactic.FieldSimp
import Mathlib.Tactic.NormNum
import Mathlib.Algebra.Order.Floor.Ring
import Mathlib.Data.Rat.Floor

namespace GHEVerif.Search
open GHEVerif

/-! ### `sign` and `check_bracket` as regenerated from utilities.py -/

theorem sign_pos {x : Rat} (h : 0 < x) : Gen.sign x = .ok 1 := by
  have hx : x ≠ 0 := ne_of_gt h
  have ha : ratAbs x = x := by unfold ratAbs; simp [not_lt.mpr (le_of_lt h)]
  unfold Gen.sign pyDiv
  simp only [ha, hx, if_false]
  have : x / x = 1 := div_self hx
  have f1 : Rat.floor 1 = 1 := by decide
  simp [bind, Except.bind, pure, Except.pure, this, pyTrunc, f1]

theorem sign_neg {x : Rat} (h : x < 0) : Gen.sign x = .ok (-1) := by
  have hx : x ≠ 0 := ne_of_lt h
  have ha : ratAbs x = -x := by unfold ratAbs; simp [h]
  unfold Gen.sign pyDiv
  simp only [ha, hx, if_false]
  have : -x / x = -1 := by field_simp
  have c1 : (-1 : Rat).ceil = -1 := by decide
  have n1 : ¬ ((1 : Rat) ≤ 0) := by norm_num
  simp [bind, Except.bind, pure, Except.pure, this, pyTrunc, c1, n1]

theorem sign_zero : Gen.sign 0 = .error .zeroDiv := by
  unfold Gen.sign pyDiv; simp [bind, Except.bind]

theorem sign_ok_iff {x : Rat} {s : Int} : Gen.sign x = .ok s ↔ (0 < x ∧ s = 1) ∨ (x < 0 ∧ s = -1) := by
  rcases lt_trichotomy x 0 with h | h | h
  · rw [sign_neg h]; constructor
    · intro e; right; exact ⟨h, by injection e with e; exact e.symm⟩
    · rintro (⟨h', _⟩ | ⟨_, rfl⟩); · linarith
      rfl
  · subst h; rw [sign_zero]; constructor
    · intro e; cases e
    · rintro (⟨h', _⟩ | ⟨h', _⟩) <;> exact absurd h' (lt_irrefl _)
  · rw [sign_pos h]; constructor
    · intro e; left; exact ⟨h, by injection e with e; exact e.symm⟩
    · rintro (⟨_, rfl⟩ | ⟨h', _⟩); · rfl
      linarith

theorem sign_error_iff {x : Rat} {e : PyErr} : Gen.sign x = .error e ↔ (x = 0 ∧ e = .zeroDiv) := by
  rcases lt_trichotomy x 0 with h | h | h
  · rw [sign_neg h]; constructor
    · intro e; cases e
    · rintro ⟨rfl, _⟩; exact absurd h (lt_irrefl _)
  · subst h; rw [sign_zero]; constructor
    · intro e; injection e with e; exact ⟨rfl, e.symm⟩
    · rintro ⟨_, rfl⟩; rfl
  · rw [sign_pos h]; constructor
    · intro e; cases e
    · rintro ⟨rfl, _⟩; exact absurd h (lt_irrefl _)

theorem checkBracket_iff (a b : Int) :
    Gen.checkBracket a b = true ↔ (a < 0 ∧ 0 < b) ∨ (b < 0 ∧ 0 < a) := by
  unfold Gen.checkBracket; simp

/-- On the signs of two non-zero excesses, `check_bracket` says exactly "opposite strict signs". -/
theorem bracket_of_signs {x y : Rat} {sx sy : Int} (hx : Gen.sign x = .ok sx) (hy : Gen.sign y = .ok sy) :
    Gen.checkBracket sx sy = true ↔ (x < 0 ∧ 0 < y) ∨ (y < 0 ∧ 0 < x) := by
  rw [checkBracket_iff]
  rcases sign_ok_iff.mp hx with ⟨hx, rfl⟩ | ⟨hx, rfl⟩ <;> rcases sign_ok_iff.mp hy with ⟨hy, rfl⟩ | ⟨hy, rfl⟩ <;>
    constructor <;> intro h <;> rcases h with ⟨h1, h2⟩ | ⟨h1, h2⟩ <;>
    first | omega | linarith | (left; constructor <;> first | assumption | omega) | (right; constructor <;> first | assumption | omega)

/-! ### the insertion-ordered dict -/

theorem mem_dictSet_self (d : Dict) (k : Nat) (v : Rat) : (k, v) ∈ dictSet d k v := by
  induction d with
  | nil => simp [dictSet]
  | cons x d ih =>
    obtain ⟨k', v'⟩ := x
    unfold dictSet
    by_cases h : k' = k
    · simp [h]
    · simp [h, ih]

theorem mem_dictSet_of_mem_ne (d : Dict) (k : Nat) (v : Rat) (a : Nat) (b : Rat)
    (h : (a, b) ∈ d) (hne : a ≠ k) : (a, b) ∈ dictSet d k v := by
  induction d with
  | nil => simp at h
  | cons x d ih =>
    obtain ⟨k', v'⟩ := x
    unfold dictSet
    by_cases hk : k' = k
    · simp only [hk, if_true]
      rcases List.mem_cons.mp h with h | h
      · injection h with h1 h2; exact absurd (h1.trans hk) hne
      · exact List.mem_cons_of_mem _ h
    · simp only [hk, if_false]
      rcases List.mem_cons.mp h with h | h
      · rw [h]; exact List.mem_cons_self
      · exact List.mem_cons_of_mem _ (ih h)

theorem mem_of_mem_dictSet (d : Dict) (k : Nat) (v : Rat) (a : Nat) (b : Rat)
    (h : (a, b) ∈ dictSet d k v) : (a, b) ∈ d ∨ (a, b) = (k, v) := by
  induction d with
  | nil => simp [dictSet] at h; right; exact Prod.ext h.1 h.2
  | cons x d ih =>
    obtain ⟨k', v'⟩ := x
    unfold dictSet at h
    by_cases hk : k' = k
    · simp only [hk, if_true] at h
      rcases List.mem_cons.mp h with h | h
      · right; exact h
      · left; exact List.mem_cons_of_mem _ h
    · simp only [hk, if_false] at h
      rcases List.mem_cons.mp h with h | h
      · left; rw [h]; exact List.mem_cons_self
      · rcases ih h with h | h
        · left; exact List.mem_cons_of_mem _ h
        · right; exact h

/-- "Every remembered value is the oracle's value": the dict invariant. -/
def MemOK (E : Nat → Rat → Rat) (maxH : Rat) (d : Dict) : Prop := ∀ kv ∈ d, kv.2 = E kv.1 maxH

theorem MemOK.set {E : Nat → Rat → Rat} {maxH : Rat} {d : Dict} (h : MemOK E maxH d) (k : Nat) :
    MemOK E maxH (dictSet d k (E k maxH)) := by
  intro kv hkv
  obtain ⟨a, b⟩ := kv
  rcases mem_of_mem_dictSet d k _ a b hkv with h' | h'
  · exact h _ h'
  · injection h' with h1 h2; subst h1; exact h2

/-- Re-evaluating a candidate never forgets or changes anything that was remembered. -/
theorem MemOK.mono {E : Nat → Rat → Rat} {maxH : Rat} {d : Dict} (h : MemOK E maxH d) (k : Nat)
    (kv : Nat × Rat) (hkv : kv ∈ d) : kv ∈ dictSet d k (E k maxH) := by
  obtain ⟨a, b⟩ := kv
  by_cases hak : a = k
  · have : b = E a maxH := h _ hkv
    subst hak; rw [this]; exact mem_dictSet_self _ _ _
  · exact mem_dictSet_of_mem_ne d k _ a b hkv hak

/-! ### loop induction -/

/-- Induction principle for the bisection loop: a predicate on (iteration count, state) that holds
    initially and is preserved by every successful step holds for the final state. -/
theorem loop_induct (E : Nat → Rat → Rat) (maxH : Rat) (lsign : Int) (P : Nat → St → Prop)
    (hstep : ∀ i s cs, P i s → mid s ≠ s.l → mid s ≠ s.r → Gen.sign (E (mid s) maxH) = .ok cs →
      P (i + 1) (stepSt E maxH lsign s (mid s) cs)) :
    ∀ fuel i s, P i s → ∀ i' s', loop E maxH lsign fuel i s = (i', s', none) → P i' s' := by
  intro fuel
  induction fuel with
  | zero => intro i s h i' s' e; simp [loop] at e; obtain ⟨rfl, rfl⟩ := e; exact h
  | succ f ih =>
    intro i s h i' s' e
    unfold loop at e
    by_cases hc : mid s = s.l ∨ mid s = s.r
    · simp only [hc, if_true] at e
      simp at e; obtain ⟨rfl, rfl⟩ := e; exact h
    · simp only [hc, if_false] at e
      rw [not_or] at hc
      cases hs : Gen.sign (E (mid s) maxH) with
      | error er => simp [hs] at e
      | ok cs =>
        simp only [hs] at e
        exact ih _ _ (hstep i s cs h hc.1 hc.2 hs) _ _ e

/-- When the loop stops without exception it stopped because the bracket is adjacent, provided
    the fuel was enough: `r - l ≤ 2 ^ fuel`. -/
theorem loop_adjacent (E : Nat → Rat → Rat) (maxH : Rat) (lsign : Int) :
    ∀ fuel i s, s.l < s.r → s.r - s.l ≤ 2 ^ fuel →
      ∀ i' s', loop E maxH lsign fuel i s = (i', s', none) → s'.r = s'.l + 1 := by
  intro fuel
  induction fuel with
  | zero =>
    intro i s hlr hg i' s' e
    simp [loop] at e; obtain ⟨_, rfl⟩ := e
    simp at hg; omega
  | succ f ih =>
    intro i s hlr hg i' s' e
    unfold loop at e
    by_cases hc : mid s = s.l ∨ mid s = s.r
    · simp only [hc, if_true] at e
      simp at e; obtain ⟨_, rfl⟩ := e
      unfold mid at hc; omega
    · simp only [hc, if_false] at e
      rw [not_or] at hc
      cases hs : Gen.sign (E (mid s) maxH) with
      | error er => simp [hs] at e
      | ok cs =>
        simp only [hs] at e
        have hm1 : s.l < mid s := by unfold mid at hc ⊢; omega
        have hm2 : mid s < s.r := by unfold mid at hc ⊢; omega
        have hp : 2 ^ (f + 1) = 2 * 2 ^ f := by ring
        refine ih _ _ ?_ ?_ _ _ e
        · unfold stepSt; by_cases hcs : cs = lsign <;> simp [hcs] <;> assumption
        · unfold stepSt; by_cases hcs : cs = lsign <;> simp [hcs] <;> unfold mid <;> omega


/-! ### the loop invariant -/

structure Inv (E : Nat → Rat → Rat) (maxH : Rat) (xr : Nat) (i : Nat) (s : St) : Prop where
  lr : s.l ≤ s.r
  rxr : s.r ≤ xr
  ib : i + (s.r - s.l) ≤ xr
  memOK : MemOK E maxH s.mem
  keysLe : ∀ kv ∈ s.mem, kv.1 ≤ xr
  lIn : (s.l, E s.l maxH) ∈ s.mem
  rIn : (s.r, E s.r maxH) ∈ s.mem
  memTr : ∀ kv ∈ s.mem, (kv.1, maxH) ∈ s.trace
  trMem : ∀ k, (k, maxH) ∈ s.trace → (k, E k maxH) ∈ s.mem
  zeroIn : (0, E 0 maxH) ∈ s.mem
  xrIn : (xr, E xr maxH) ∈ s.mem

theorem mem0_mem (E : Nat → Rat → Rat) (cfg : Cfg) (xr : Nat) (kv : Nat × Rat) :
    kv ∈ mem0 E cfg xr ↔ kv = (0, E 0 cfg.maxH) ∨ kv = (xr, E xr cfg.maxH) := by
  unfold mem0
  by_cases h : xr = 0
  · subst h; simp [dictSet]
  · have : ¬ (0 = xr) := fun e => h e.symm
    simp [dictSet, this]

theorem inv_init (E : Nat → Rat → Rat) (cfg : Cfg) (xr : Nat) :
    Inv E cfg.maxH xr 0 { l := 0, r := xr, mem := mem0 E cfg xr, trace := tr0 cfg xr } := by
  refine ⟨Nat.zero_le _, le_refl _, by simp, ?_, ?_, ?_, ?_, ?_, ?_,
    (mem0_mem E cfg xr _).mpr (Or.inl rfl), (mem0_mem E cfg xr _).mpr (Or.inr rfl)⟩
  · intro kv h; rcases (mem0_mem E cfg xr kv).mp h with rfl | rfl <;> rfl
  · intro kv h; rcases (mem0_mem E cfg xr kv).mp h with rfl | rfl <;> simp
  · exact (mem0_mem E cfg xr _).mpr (Or.inl rfl)
  · exact (mem0_mem E cfg xr _).mpr (Or.inr rfl)
  · intro kv h; rcases (mem0_mem E cfg xr kv).mp h with rfl | rfl <;> simp [tr0]
  · intro k h
    simp only [tr0, List.mem_cons, Prod.mk.injEq, List.not_mem_nil, or_false] at h
    rcases h with ⟨hk, _⟩ | ⟨hk, _⟩ | ⟨hk, _⟩ <;> rw [hk]
    · exact (mem0_mem E cfg xr _).mpr (Or.inl rfl)
    · exact (mem0_mem E cfg xr _).mpr (Or.inl rfl)
    · exact (mem0_mem E cfg xr _).mpr (Or.inr rfl)

theorem inv_step (E : Nat → Rat → Rat) (maxH : Rat) (lsign : Int) (xr : Nat) (i : Nat) (s : St) (cs : Int)
    (h : Inv E maxH xr i s) (h1 : mid s ≠ s.l) (h2 : mid s ≠ s.r) :
    Inv E maxH xr (i + 1) (stepSt E maxH lsign s (mid s) cs) := by
  have hm1 : s.l < mid s := by have := h.lr; unfold mid at h1 h2 ⊢; omega
  have hm2 : mid s < s.r := by have := h.lr; unfold mid at h1 h2 ⊢; omega
  have hmemOK : MemOK E maxH (dictSet s.mem (mid s) (E (mid s) maxH)) := h.memOK.set _
  have hmono := h.memOK.mono (mid s)
  have hself := mem_dictSet_self s.mem (mid s) (E (mid s) maxH)
  have hxr := h.rxr
  have hib := h.ib
  by_cases hcs : cs = lsign
  · refine ⟨?_, ?_, ?_, ?_, ?_, ?_, ?_, ?_, ?_, hmono _ h.zeroIn, hmono _ h.xrIn⟩ <;> simp only [stepSt, hcs, if_true]
    · omega
    · exact hxr
    · omega
    · exact hmemOK
    · intro kv hkv; obtain ⟨a, b⟩ := kv
      rcases mem_of_mem_dictSet _ _ _ _ _ hkv with h' | h'
      · exact h.keysLe _ h'
      · injection h' with e1 _; simp only [e1]; omega
    · exact hself
    · exact hmono _ h.rIn
    · intro kv hkv; obtain ⟨a, b⟩ := kv
      rcases mem_of_mem_dictSet _ _ _ _ _ hkv with h' | h'
      · exact List.mem_append_left _ (h.memTr _ h')
      · injection h' with e1 _; simp [e1]
    · intro k hk
      rcases List.mem_append.mp hk with hk | hk
      · exact hmono _ (h.trMem k hk)
      · simp at hk; rw [hk]; exact hself
  · refine ⟨?_, ?_, ?_, ?_, ?_, ?_, ?_, ?_, ?_, hmono _ h.zeroIn, hmono _ h.xrIn⟩ <;> simp only [stepSt, hcs, if_false]
    · omega
    · omega
    · omega
    · exact hmemOK
    · intro kv hkv; obtain ⟨a, b⟩ := kv
      rcases mem_of_mem_dictSet _ _ _ _ _ hkv with h' | h'
      · exact h.keysLe _ h'
      · injection h' with e1 _; simp only [e1]; omega
    · exact hmono _ h.lIn
    · exact hself
    · intro kv hkv; obtain ⟨a, b⟩ := kv
      rcases mem_of_mem_dictSet _ _ _ _ _ hkv with h' | h'
      · exact List.mem_append_left _ (h.memTr _ h')
      · injection h' with e1 _; simp [e1]
    · intro k hk
      rcases List.mem_append.mp hk with hk | hk
      · exact hmono _ (h.trMem k hk)
      · simp at hk; rw [hk]; exact hself

/-- The invariant holds for the state the loop ends in. -/
theorem inv_final (E : Nat → Rat → Rat) (cfg : Cfg) (lsign : Int) (xr : Nat) (i' : Nat) (s' : St)
    (e : loop E cfg.maxH lsign cfg.maxIter 0 { l := 0, r := xr, mem := mem0 E cfg xr, trace := tr0 cfg xr } = (i', s', none)) :
    Inv E cfg.maxH xr i' s' :=
  loop_induct E cfg.maxH lsign (Inv E cfg.maxH xr)
    (fun i s cs h h1 h2 _ => inv_step E cfg.maxH lsign xr i s cs h h1 h2) _ _ _ (inv_init E cfg xr) _ _ e


/-! ### the final pick -/

theorem lexLt_iff (a b : Nat × Rat) : lexLt a b = true ↔ a.1 < b.1 ∨ (a.1 = b.1 ∧ a.2 < b.2) := by
  unfold lexLt; simp

theorem lexLt_irrefl (a : Nat × Rat) : lexLt a a = false := by
  rw [Bool.eq_false_iff]; intro h; rw [lexLt_iff] at h
  rcases h with h | ⟨_, h⟩
  · exact absurd h (lt_irrefl _)
  · exact absurd h (lt_irrefl _)

/-- If `x` is below `m` and `y` is not below `m`, then `y` is not below `x`. -/
theorem lexLt_keep {x m y : Nat × Rat} (hxm : lexLt x m = true) (hym : ¬ lexLt y m = true) :
    ¬ lexLt y x = true := by
  rw [lexLt_iff] at *
  rw [not_or] at hym
  obtain ⟨h1, h2⟩ := hym
  rintro (h | ⟨h3, h4⟩)
  · rcases hxm with h' | ⟨h', _⟩ <;> omega
  · rcases hxm with h' | ⟨h', h''⟩
    · omega
    · exact h2 ⟨by omega, by linarith⟩

/-- "`acc` is the lexicographically smallest negative entry of `seen`" (or none is negative). -/
def MinSpec (seen : List (Nat × Rat)) : Option (Nat × Rat) → Prop
  | none => ∀ x ∈ seen, ¬ x.2 < 0
  | some m => m ∈ seen ∧ m.2 < 0 ∧ ∀ x ∈ seen, x.2 < 0 → ¬ lexLt x m = true

theorem lexStep_spec (seen : List (Nat × Rat)) (acc : Option (Nat × Rat)) (y : Nat × Rat)
    (h : MinSpec seen acc) : MinSpec (seen ++ [y]) (lexStep acc y) := by
  unfold lexStep
  by_cases hy : y.2 < 0
  · simp only [hy, if_true]
    cases acc with
    | none =>
      simp only [MinSpec] at h ⊢
      refine ⟨by simp, hy, ?_⟩
      intro x hx hxn
      rcases List.mem_append.mp hx with hx | hx
      · exact absurd hxn (h x hx)
      · simp at hx; subst hx; rw [lexLt_irrefl]; simp
    | some m =>
      simp only [MinSpec] at h
      obtain ⟨hm1, hm2, hm3⟩ := h
      by_cases hlt : lexLt y m = true
      · simp only [hlt, if_true, MinSpec]
        refine ⟨by simp, hy, ?_⟩
        intro x hx hxn
        rcases List.mem_append.mp hx with hx | hx
        · exact lexLt_keep hlt (hm3 x hx hxn)
        · simp at hx; subst hx; rw [lexLt_irrefl]; simp
      · simp only [hlt, MinSpec]
        refine ⟨List.mem_append_left _ hm1, hm2, ?_⟩
        intro x hx hxn
        rcases List.mem_append.mp hx with hx | hx
        · exact hm3 x hx hxn
        · simp at hx; subst hx; exact hlt
  · simp only [hy, if_false]
    cases acc with
    | none =>
      simp only [MinSpec] at h ⊢
      intro x hx
      rcases List.mem_append.mp hx with hx | hx
      · exact h x hx
      · simp at hx; subst hx; exact hy
    | some m =>
      simp only [MinSpec] at h ⊢
      obtain ⟨hm1, hm2, hm3⟩ := h
      refine ⟨List.mem_append_left _ hm1, hm2, ?_⟩
      intro x hx hxn
      rcases List.mem_append.mp hx with hx | hx
      · exact hm3 x hx hxn
      · simp at hx; subst hx; exact absurd hxn hy

theorem lexFold_spec (l : List (Nat × Rat)) :
    ∀ (acc : Option (Nat × Rat)) (seen : List (Nat × Rat)), MinSpec seen acc →
      MinSpec (seen ++ l) (l.foldl lexStep acc) := by
  induction l with
  | nil => intro acc seen h; simpa using h
  | cons y l ih =>
    intro acc seen h
    have := ih (lexStep acc y) (seen ++ [y]) (lexStep_spec seen acc y h)
    simpa [List.append_assoc] using this

theorem lexMinNeg_spec (l : List (Nat × Rat)) : MinSpec l (lexMinNeg l) := by
  have := lexFold_spec l none [] (by simp [MinSpec])
  simpa [lexMinNeg] using this

theorem keyOfValue_some {d : Dict} {v : Rat} {k : Nat} (h : keyOfValue d v = some k) : (k, v) ∈ d := by
  unfold keyOfValue at h
  cases hf : d.find? (fun kv => decide (kv.2 = v)) with
  | none => simp [hf] at h
  | some kv =>
    simp [hf] at h
    have h1 := List.mem_of_find?_eq_some hf
    have h2 := List.find?_some hf
    simp at h2
    obtain ⟨a, b⟩ := kv
    simp at h h2; subst h; subst h2; exact h1

theorem keyOfValue_exists {d : Dict} {v : Rat} (h : ∃ k, (k, v) ∈ d) : ∃ k, keyOfValue d v = some k := by
  obtain ⟨k, hk⟩ := h
  unfold keyOfValue
  cases hf : d.find? (fun kv => decide (kv.2 = v)) with
  | none =>
    rw [List.find?_eq_none] at hf
    have := hf _ hk; simp at this
  | some kv => exact ⟨kv.1, by simp⟩


theorem keyOfPair_some {counts : List Nat} {d : Dict} {m : Nat × Rat} {k : Nat} (h : keyOfPair counts d m = some k) :
    (k, m.2) ∈ d ∧ counts.getD k 0 = m.1 := by
  unfold keyOfPair at h
  have hk := List.min?_mem h
  obtain ⟨kv, hkv, rfl⟩ := List.mem_map.mp hk
  obtain ⟨hmem, hc⟩ := List.mem_filter.mp hkv
  simp only [Bool.and_eq_true, decide_eq_true_eq] at hc
  obtain ⟨a, b⟩ := kv
  simp only at hc ⊢
  exact ⟨by rw [← hc.2]; exact hmem, hc.1⟩

theorem keyOfPair_exists {counts : List Nat} {d : Dict} {m : Nat × Rat} (h : ∃ kv ∈ d, (counts.getD kv.1 0, kv.2) = m) :
    ∃ k, keyOfPair counts d m = some k := by
  obtain ⟨kv, hkv, he⟩ := h
  unfold keyOfPair
  have hne : ((d.filter (fun kv => decide (counts.getD kv.1 0 = m.1) && decide (kv.2 = m.2))).map (·.1)) ≠ [] := by
    intro hnil
    have : kv.1 ∈ ((d.filter (fun kv => decide (counts.getD kv.1 0 = m.1) && decide (kv.2 = m.2))).map (·.1)) := by
      refine List.mem_map.mpr ⟨kv, List.mem_filter.mpr ⟨hkv, ?_⟩, rfl⟩
      simp only [Bool.and_eq_true, decide_eq_true_eq]
      rw [← he]; exact ⟨rfl, rfl⟩
    rw [hnil] at this; simp at this
  cases hmin : ((d.filter (fun kv => decide (counts.getD kv.1 0 = m.1) && decide (kv.2 = m.2))).map (·.1)).min? with
  | none => exact absurd (List.min?_eq_none_iff.mp hmin) hne
  | some k => exact ⟨k, rfl⟩

/-! ### the stages of `bisect1D` -/

/-- What "go on with the bisection" means: the left-end sign is that of `E 0 maxH`, all three
    initial excesses are non-zero, and one of the two max-height ends is feasible. -/
theorem pre_inr {E : Nat → Rat → Rat} {cfg : Cfg} {xr : Nat} {ls : Int} (h : pre E cfg xr = .inr ls) :
    Gen.sign (E 0 cfg.maxH) = .ok ls ∧ E 0 cfg.minH ≠ 0 ∧ E 0 cfg.maxH ≠ 0 ∧ E xr cfg.maxH ≠ 0 ∧
      (E 0 cfg.maxH < 0 ∨ E xr cfg.maxH < 0) ∧
      ¬ ((E 0 cfg.minH < 0 ∧ 0 < E 0 cfg.maxH) ∨ (E 0 cfg.maxH < 0 ∧ 0 < E 0 cfg.minH)) := by
  unfold pre at h
  cases h1 : Gen.sign (E 0 cfg.minH) with
  | error e => simp [h1] at h
  | ok s0l =>
    cases h2 : Gen.sign (E 0 cfg.maxH) with
    | error e => simp [h1, h2] at h
    | ok s0u =>
      simp only [h1, h2] at h
      by_cases hb : Gen.checkBracket s0l s0u = true
      · simp [hb] at h
      · simp only [hb] at h
        cases h3 : Gen.sign (E xr cfg.maxH) with
        | error e => simp [h3] at h
        | ok sm1 =>
          simp only [h3] at h
          have n1 : E 0 cfg.minH ≠ 0 := by
            rcases sign_ok_iff.mp h1 with ⟨h', _⟩ | ⟨h', _⟩ <;> [exact ne_of_gt h'; exact ne_of_lt h']
          have n2 : E 0 cfg.maxH ≠ 0 := by
            rcases sign_ok_iff.mp h2 with ⟨h', _⟩ | ⟨h', _⟩ <;> [exact ne_of_gt h'; exact ne_of_lt h']
          have n3 : E xr cfg.maxH ≠ 0 := by
            rcases sign_ok_iff.mp h3 with ⟨h', _⟩ | ⟨h', _⟩ <;> [exact ne_of_gt h'; exact ne_of_lt h']
          have nb := (bracket_of_signs h1 h2).not.mp hb
          by_cases hb2 : Gen.checkBracket s0u sm1 = true
          · simp only [hb2, if_true] at h
            injection h with h; subst h
            refine ⟨rfl, n1, n2, n3, ?_, nb⟩
            rcases (bracket_of_signs h2 h3).mp hb2 with ⟨a, _⟩ | ⟨a, _⟩
            · exact Or.inl a
            · exact Or.inr a
          · simp only [hb2] at h
            by_cases c1 : E 0 cfg.minH < 0
            · simp [c1] at h
            · simp only [c1, if_false] at h
              by_cases c2 : E xr cfg.maxH > 0
              · simp [c2] at h
              · simp only [c2, if_false] at h
                injection h with h; subst h
                refine ⟨rfl, n1, n2, n3, Or.inr ?_, nb⟩
                rcases lt_trichotomy (E xr cfg.maxH) 0 with h' | h' | h'
                · exact h'
                · exact absurd h' n3
                · exact absurd h' c2

/-- The part after the loop always selects an evaluated, feasible candidate when at least one
    remembered excess is negative. -/
theorem finish_selects {counts : List Nat} {E : Nat → Rat → Rat} {cfg : Cfg} {xr i : Nat} {s : St}
    (hinv : Inv E cfg.maxH xr i s) (hlen : xr < counts.length) (hneg : ∃ kv ∈ s.mem, kv.2 < 0) :
    ∃ k k', finish counts E cfg i s = (.selected k cfg.maxH .bisection, s.trace ++ [(i, cfg.maxH)]) ∧
      E k cfg.maxH < 0 ∧ k ≤ xr ∧ (k, cfg.maxH) ∈ s.trace ++ [(i, cfg.maxH)] ∧
      -- k' is the candidate the sorted scan stops at; `values.index` then returns the first
      -- remembered candidate with the same excess value, which is k
      (k', cfg.maxH) ∈ s.trace ++ [(i, cfg.maxH)] ∧ E k' cfg.maxH = E k cfg.maxH ∧
      (∀ j, (j, cfg.maxH) ∈ s.trace ++ [(i, cfg.maxH)] → E j cfg.maxH < 0 →
          ¬ lexLt (counts.getD j 0, E j cfg.maxH) (counts.getD k' 0, E k' cfg.maxH) = true) ∧
      -- since the F32 repair the key is carried through the sort: k has the borehole count of k' too
      counts.getD k 0 = counts.getD k' 0 := by
  have hi : i ≤ xr := by have := hinv.ib; omega
  have hilen : ¬ counts.length ≤ i := by omega
  set mem' := dictSet s.mem i (E i cfg.maxH) with hmem'
  have hOK : MemOK E cfg.maxH mem' := hinv.memOK.set _
  have hmono := hinv.memOK.mono i
  obtain ⟨kv0, hkv0, hkv0neg⟩ := hneg
  have hkv0' : kv0 ∈ mem' := hmono _ hkv0
  -- the lexicographic minimum among the negative (count, value) pairs
  set pairs := mem'.map (fun kv => (counts.getD kv.1 0, kv.2)) with hpairs
  have hspec := lexMinNeg_spec pairs
  cases hm : lexMinNeg pairs with
  | none =>
    rw [hm] at hspec
    simp only [MinSpec] at hspec
    have := hspec (counts.getD kv0.1 0, kv0.2) (by rw [hpairs]; exact List.mem_map.mpr ⟨kv0, hkv0', rfl⟩)
    exact absurd hkv0neg this
  | some m =>
    rw [hm] at hspec
    simp only [MinSpec] at hspec
    obtain ⟨hm1, hm2, hm3⟩ := hspec
    obtain ⟨kvm, hkvm, hkvm_eq⟩ := List.mem_map.mp (by rw [hpairs] at hm1; exact hm1)
    have hv : kvm.2 = m.2 := by rw [← hkvm_eq]
    obtain ⟨k, hk⟩ := keyOfPair_exists (counts := counts) (d := mem') (m := m) ⟨kvm, hkvm, hkvm_eq⟩
    have hkmem : (k, m.2) ∈ mem' := (keyOfPair_some hk).1
    have hEk : m.2 = E k cfg.maxH := hOK _ hkmem
    -- a non-positive value exists, so max(...) does not raise
    have hmax : ∃ eoi, maxOf ((mem'.map (·.2)).filter (fun v => decide (v ≤ 0))) = some eoi := by
      have : kv0.2 ∈ (mem'.map (·.2)).filter (fun v => decide (v ≤ 0)) := by
        simp only [List.mem_filter, List.mem_map, decide_eq_true_eq]
        exact ⟨⟨kv0, hkv0', rfl⟩, le_of_lt hkv0neg⟩
      cases hl : (mem'.map (·.2)).filter (fun v => decide (v ≤ 0)) with
      | nil => rw [hl] at this; simp at this
      | cons a t => exact ⟨_, rfl⟩
    obtain ⟨eoi, heoi⟩ := hmax
    have hfp : finalPick counts mem' = some k := by
      unfold finalPick
      simp only [heoi, ← hpairs, hm, hk]
    have hmemTr : ∀ kv ∈ mem', (kv.1, cfg.maxH) ∈ s.trace ++ [(i, cfg.maxH)] := by
      intro kv hkv; obtain ⟨a, b⟩ := kv
      rcases mem_of_mem_dictSet _ _ _ _ _ hkv with h' | h'
      · exact List.mem_append_left _ (hinv.memTr _ h')
      · injection h' with e1 _; simp [e1]
    have hkeys : ∀ kv ∈ mem', kv.1 ≤ xr := by
      intro kv hkv; obtain ⟨a, b⟩ := kv
      rcases mem_of_mem_dictSet _ _ _ _ _ hkv with h' | h'
      · exact hinv.keysLe _ h'
      · injection h' with e1 _; simp only [e1]; exact hi
    have hEkvm : kvm.2 = E kvm.1 cfg.maxH := hOK _ hkvm
    have hcnt : counts.getD k 0 = counts.getD kvm.1 0 := by
      rw [(keyOfPair_some hk).2, ← hkvm_eq]
    refine ⟨k, kvm.1, ?_, by rw [← hEk]; exact hm2, hkeys _ hkmem, hmemTr _ hkmem, hmemTr _ hkvm,
      by rw [← hEkvm, hv, hEk], ?_, hcnt⟩
    · unfold finish
      simp only [hilen, if_false, ← hmem', hfp]
    · intro j hj hjneg
      -- every max-height evaluation is remembered
      have hjmem : (j, E j cfg.maxH) ∈ mem' := by
        rcases List.mem_append.mp hj with hj | hj
        · exact hmono _ (hinv.trMem j hj)
        · simp at hj; rw [hj]; exact mem_dictSet_self _ _ _
      have hjp : (counts.getD j 0, E j cfg.maxH) ∈ pairs := by
        rw [hpairs]; exact List.mem_map.mpr ⟨(j, E j cfg.maxH), hjmem, rfl⟩
      have := hm3 _ hjp hjneg
      rw [← hkvm_eq] at this
      rw [← hEkvm]; exact this


/-- `pre` continues with the bisection only when the two max-height ends have opposite strict
    signs: the code's last `else: pass` arm is unreachable. -/
theorem pre_inr_bracket {E : Nat → Rat → Rat} {cfg : Cfg} {xr : Nat} {ls : Int} (h : pre E cfg xr = .inr ls) :
    (E 0 cfg.maxH < 0 ∧ 0 < E xr cfg.maxH) ∨ (E xr cfg.maxH < 0 ∧ 0 < E 0 cfg.maxH) := by
  obtain ⟨_, n1, n2, n3, hneg, nb⟩ := pre_inr h
  unfold pre at h
  cases h1 : Gen.sign (E 0 cfg.minH) with
  | error e => simp [h1] at h
  | ok s0l =>
    cases h2 : Gen.sign (E 0 cfg.maxH) with
    | error e => simp [h1, h2] at h
    | ok s0u =>
      simp only [h1, h2] at h
      by_cases hb : Gen.checkBracket s0l s0u = true
      · simp [hb] at h
      · simp only [hb] at h
        cases h3 : Gen.sign (E xr cfg.maxH) with
        | error e => simp [h3] at h
        | ok sm1 =>
          simp only [h3] at h
          by_cases hb2 : Gen.checkBracket s0u sm1 = true
          · exact (bracket_of_signs h2 h3).mp hb2
          · simp only [hb2] at h
            by_cases c1 : E 0 cfg.minH < 0
            · simp [c1] at h
            · simp only [c1, if_false] at h
              by_cases c2 : E xr cfg.maxH > 0
              · simp [c2] at h
              · -- t0l > 0, hence t0u > 0 (no bracket at the lower bound), and tm1 < 0
                have p1 : 0 < E 0 cfg.minH := lt_of_le_of_ne (not_lt.mp c1) (Ne.symm n1)
                have p3 : E xr cfg.maxH < 0 := lt_of_le_of_ne (not_lt.mp c2) n3
                have p2 : 0 < E 0 cfg.maxH := by
                  rcases lt_trichotomy (E 0 cfg.maxH) 0 with h' | h' | h'
                  · exact absurd (Or.inr ⟨h', p1⟩) nb
                  · exact absurd h' n2
                  · exact h'
                exact Or.inr ⟨p3, p2⟩

theorem pre_inl_cases {E : Nat → Rat → Rat} {cfg : Cfg} {xr : Nat} {o : Outcome} (h : pre E cfg xr = .inl o) :
    (o = .pyError .zeroDiv ∧ (E 0 cfg.minH = 0 ∨ E 0 cfg.maxH = 0 ∨ E xr cfg.maxH = 0)) ∨
    (o = .selected 0 cfg.maxH .bracket0 ∧
        ((E 0 cfg.minH < 0 ∧ 0 < E 0 cfg.maxH) ∨ (E 0 cfg.maxH < 0 ∧ 0 < E 0 cfg.minH))) ∨
    (o = (if cfg.cont then .selected 0 cfg.minH .tooSmallCont else .valueError) ∧
        E 0 cfg.minH < 0 ∧ E 0 cfg.maxH < 0 ∧ E xr cfg.maxH < 0) ∨
    (o = (if cfg.cont then .selected xr cfg.maxH .tooBigCont else .valueError) ∧
        0 < E 0 cfg.minH ∧ 0 < E 0 cfg.maxH ∧ 0 < E xr cfg.maxH) := by
  unfold pre at h
  cases h1 : Gen.sign (E 0 cfg.minH) with
  | error e =>
    simp only [h1] at h
    obtain ⟨z, rfl⟩ := sign_error_iff.mp h1
    left; injection h with h; exact ⟨h.symm, Or.inl z⟩
  | ok s0l =>
    cases h2 : Gen.sign (E 0 cfg.maxH) with
    | error e =>
      simp only [h1, h2] at h
      obtain ⟨z, rfl⟩ := sign_error_iff.mp h2
      left; injection h with h; exact ⟨h.symm, Or.inr (Or.inl z)⟩
    | ok s0u =>
      simp only [h1, h2] at h
      by_cases hb : Gen.checkBracket s0l s0u = true
      · simp only [hb, if_true] at h
        right; left; injection h with h
        exact ⟨h.symm, (bracket_of_signs h1 h2).mp hb⟩
      · simp only [hb] at h
        have nb := (bracket_of_signs h1 h2).not.mp hb
        cases h3 : Gen.sign (E xr cfg.maxH) with
        | error e =>
          simp only [h3] at h
          obtain ⟨z, rfl⟩ := sign_error_iff.mp h3
          left; injection h with h; exact ⟨h.symm, Or.inr (Or.inr z)⟩
        | ok sm1 =>
          simp only [h3] at h
          have nz1 : E 0 cfg.minH ≠ 0 := by
            rcases sign_ok_iff.mp h1 with ⟨h', _⟩ | ⟨h', _⟩ <;> [exact ne_of_gt h'; exact ne_of_lt h']
          have nz2 : E 0 cfg.maxH ≠ 0 := by
            rcases sign_ok_iff.mp h2 with ⟨h', _⟩ | ⟨h', _⟩ <;> [exact ne_of_gt h'; exact ne_of_lt h']
          have nz3 : E xr cfg.maxH ≠ 0 := by
            rcases sign_ok_iff.mp h3 with ⟨h', _⟩ | ⟨h', _⟩ <;> [exact ne_of_gt h'; exact ne_of_lt h']
          by_cases hb2 : Gen.checkBracket s0u sm1 = true
          · simp [hb2] at h
          · simp only [hb2] at h
            have nb2 := (bracket_of_signs h2 h3).not.mp hb2
            by_cases c1 : E 0 cfg.minH < 0
            · simp only [c1, if_true] at h
              right; right; left; injection h with h
              have p2 : E 0 cfg.maxH < 0 := by
                rcases lt_trichotomy (E 0 cfg.maxH) 0 with h' | h' | h'
                · exact h'
                · exact absurd h' nz2
                · exact absurd (Or.inl ⟨c1, h'⟩) nb
              have p3 : E xr cfg.maxH < 0 := by
                rcases lt_trichotomy (E xr cfg.maxH) 0 with h' | h' | h'
                · exact h'
                · exact absurd h' nz3
                · exact absurd (Or.inl ⟨p2, h'⟩) nb2
              exact ⟨h.symm, c1, p2, p3⟩
            · simp only [c1, if_false] at h
              by_cases c2 : E xr cfg.maxH > 0
              · simp only [c2, if_true] at h
                right; right; right; injection h with h
                have p1 : 0 < E 0 cfg.minH := lt_of_le_of_ne (not_lt.mp c1) (Ne.symm nz1)
                have p2 : 0 < E 0 cfg.maxH := by
                  rcases lt_trichotomy (E 0 cfg.maxH) 0 with h' | h' | h'
                  · exact absurd (Or.inr ⟨h', p1⟩) nb
                  · exact absurd h' nz2
                  · exact h'
                exact ⟨h.symm, p1, p2, c2⟩
              · simp [c2] at h

/-- Without an excess of exactly zero the loop never raises. -/
theorem loop_no_error (E : Nat → Rat → Rat) (maxH : Rat) (lsign : Int) (hnz : ∀ c, E c maxH ≠ 0) :
    ∀ fuel i s, (loop E maxH lsign fuel i s).2.2 = none := by
  intro fuel
  induction fuel with
  | zero => intro i s; simp [loop]
  | succ f ih =>
    intro i s
    unfold loop
    by_cases hc : mid s = s.l ∨ mid s = s.r
    · simp [hc]
    · simp only [hc, if_false]
      cases hs : Gen.sign (E (mid s) maxH) with
      | error e => exact absurd (sign_error_iff.mp hs).1 (hnz _)
      | ok cs => simp only; exact ih _ _

/-- Variant with the non-zero hypothesis only for the candidates the loop can reach. -/
theorem loop_no_error_on (E : Nat → Rat → Rat) (maxH : Rat) (lsign : Int) (xr : Nat)
    (hnz : ∀ c, c ≤ xr → E c maxH ≠ 0) :
    ∀ fuel i s, s.l ≤ s.r → s.r ≤ xr → (loop E maxH lsign fuel i s).2.2 = none := by
  intro fuel
  induction fuel with
  | zero => intro i s _ _; simp [loop]
  | succ f ih =>
    intro i s hlr hr
    unfold loop
    by_cases hc : mid s = s.l ∨ mid s = s.r
    · simp [hc]
    · simp only [hc, if_false]
      rw [not_or] at hc
      have hm : mid s ≤ xr := by unfold mid at hc ⊢; omega
      cases hs : Gen.sign (E (mid s) maxH) with
      | error e => exact absurd (sign_error_iff.mp hs).1 (hnz _ hm)
      | ok cs =>
        simp only
        have hm1 : s.l < mid s := by unfold mid at hc ⊢; omega
        have hm2 : mid s < s.r := by unfold mid at hc ⊢; omega
        apply ih
        · unfold stepSt; by_cases hcs : cs = lsign <;> simp [hcs] <;> omega
        · unfold stepSt; by_cases hcs : cs = lsign <;> simp [hcs] <;> omega

/-- The loop raises only `ZeroDivisionError`, and only on an excess of exactly zero. -/
theorem loop_error (E : Nat → Rat → Rat) (maxH : Rat) (lsign : Int) :
    ∀ fuel i s e, (loop E maxH lsign fuel i s).2.2 = some e → e = .zeroDiv ∧ ∃ c, E c maxH = 0 := by
  intro fuel
  induction fuel with
  | zero => intro i s e h; simp [loop] at h
  | succ f ih =>
    intro i s e h
    unfold loop at h
    by_cases hc : mid s = s.l ∨ mid s = s.r
    · simp [hc] at h
    · simp only [hc, if_false] at h
      cases hs : Gen.sign (E (mid s) maxH) with
      | error e' =>
        simp only [hs] at h
        obtain ⟨z, rfl⟩ := sign_error_iff.mp hs
        simp at h; exact ⟨h.symm, _, z⟩
      | ok cs => simp only [hs] at h; exact ih _ _ _ h

theorem upperIndex_ok {counts : List Nat} {cap : Option Nat} {xr : Nat} (h : upperIndex counts cap = .ok xr) :
    xr < counts.length ∧ (∀ c, cap = some c → counts.getD xr 0 < c) := by
  unfold upperIndex at h
  cases cap with
  | none =>
    simp only at h
    by_cases hl : counts.length = 0
    · simp [hl] at h
    · simp only [hl, if_false] at h
      injection h with h; subst h
      exact ⟨by omega, by intro c hc; cases hc⟩
  | some c =>
    simp only at h
    cases hg : ((List.range counts.length).filter (fun i => decide (counts.getD i 0 < c))).getLast? with
    | none => rw [hg] at h; cases h
    | some i =>
      rw [hg] at h
      injection h with h; subst h
      have := List.mem_of_getLast? hg
      simp only [List.mem_filter, List.mem_range, decide_eq_true_eq] at this
      exact ⟨this.1, by intro c' hc'; injection hc' with hc'; subst hc'; exact this.2⟩

theorem upperIndex_error {counts : List Nat} {cap : Option Nat} {e : PyErr} (h : upperIndex counts cap = .error e) :
    (e = .indexError ∧ counts = [] ∧ cap = none) ∨
    (e = .valueError ∧ ∃ c, cap = some c ∧ ∀ i < counts.length, ¬ counts.getD i 0 < c) := by
  unfold upperIndex at h
  cases cap with
  | none =>
    simp only at h
    by_cases hl : counts.length = 0
    · simp only [hl, if_true] at h; injection h with h
      exact Or.inl ⟨h.symm, List.length_eq_zero_iff.mp hl, rfl⟩
    · simp [hl] at h
  | some c =>
    simp only at h
    cases hg : ((List.range counts.length).filter (fun i => decide (counts.getD i 0 < c))).getLast? with
    | none =>
      rw [hg] at h; injection h with h
      refine Or.inr ⟨h.symm, c, rfl, ?_⟩
      intro i hi hlt
      rw [List.getLast?_eq_none_iff] at hg
      have : i ∈ (List.range counts.length).filter (fun i => decide (counts.getD i 0 < c)) :=
        List.mem_filter.mpr ⟨List.mem_range.mpr hi, decide_eq_true hlt⟩
      rw [hg] at this; simp at this
    | some i => rw [hg] at h; cases h

/-- The initial state of the loop. -/
def st0 (E : Nat → Rat → Rat) (cfg : Cfg) (xr : Nat) : St :=
  { l := 0, r := xr, mem := mem0 E cfg xr, trace := tr0 cfg xr }

/-- Exhaustive description of `bisect1D` by stage. -/
theorem bisect1D_spec (counts : List Nat) (E : Nat → Rat → Rat) (cfg : Cfg) :
    (∃ e, upperIndex counts cfg.cap = .error e ∧
        bisect1D counts E cfg = (if e = .valueError then .valueError else .pyError e, [])) ∨
    ∃ xr, upperIndex counts cfg.cap = .ok xr ∧
      ((∃ o, pre E cfg xr = .inl o ∧ bisect1D counts E cfg = (o, tr0 cfg xr)) ∨
       (∃ ls, pre E cfg xr = .inr ls ∧
          ((∃ i s e, loop E cfg.maxH ls cfg.maxIter 0 (st0 E cfg xr) = (i, s, some e) ∧
              bisect1D counts E cfg = (.pyError e, s.trace)) ∨
           (∃ i s, loop E cfg.maxH ls cfg.maxIter 0 (st0 E cfg xr) = (i, s, none) ∧
              bisect1D counts E cfg = finish counts E cfg i s)))) := by
  unfold bisect1D
  cases hu : upperIndex counts cfg.cap with
  | error e => left; exact ⟨e, rfl, rfl⟩
  | ok xr =>
    right; refine ⟨xr, rfl, ?_⟩
    simp only
    cases hp : pre E cfg xr with
    | inl o => left; exact ⟨o, rfl, rfl⟩
    | inr ls =>
      right; refine ⟨ls, rfl, ?_⟩
      simp only
      have hst : ({ l := 0, r := xr, mem := mem0 E cfg xr, trace := tr0 cfg xr } : St) = st0 E cfg xr := rfl
      rw [hst]
      rcases hl : loop E cfg.maxH ls cfg.maxIter 0 (st0 E cfg xr) with ⟨i, s, oe⟩
      cases oe with
      | none => right; exact ⟨i, s, rfl, rfl⟩
      | some e => left; exact ⟨i, s, e, rfl, rfl⟩


/-- A selection through the bisection path went through every stage. -/
theorem bisect1D_bisection_path {counts : List Nat} {E : Nat → Rat → Rat} {cfg : Cfg}
    {k : Nat} {h : Rat} {tr : List (Nat × Rat)}
    (hsel : bisect1D counts E cfg = (.selected k h .bisection, tr)) :
    ∃ xr ls i s, upperIndex counts cfg.cap = .ok xr ∧ pre E cfg xr = .inr ls ∧
      loop E cfg.maxH ls cfg.maxIter 0 (st0 E cfg xr) = (i, s, none) ∧ Inv E cfg.maxH xr i s ∧
      (∃ kv ∈ s.mem, kv.2 < 0) ∧
      finish counts E cfg i s = (.selected k h .bisection, tr) := by
  rcases bisect1D_spec counts E cfg with ⟨e, _, hb⟩ | ⟨xr, hu, ⟨o, hp, hb⟩ | ⟨ls, hp, ⟨i, s, e, _, hb⟩ | ⟨i, s, hl, hb⟩⟩⟩
  · rw [hb] at hsel; by_cases he : e = .valueError <;> simp [he] at hsel
  · rw [hb] at hsel; injection hsel with h1 _; subst h1
    rcases pre_inl_cases hp with ⟨h', _⟩ | ⟨h', _⟩ | ⟨h', _⟩ | ⟨h', _⟩
    · cases h'
    · cases h'
    · by_cases hc : cfg.cont = true <;> simp [hc] at h'
    · by_cases hc : cfg.cont = true <;> simp [hc] at h'
  · rw [hb] at hsel; cases hsel
  · have hinv := inv_final E cfg ls xr i s hl
    obtain ⟨_, _, _, _, hneg, _⟩ := pre_inr hp
    refine ⟨xr, ls, i, s, hu, hp, hl, hinv, ?_, by rw [← hb]; exact hsel⟩
    rcases hneg with h0 | hx
    · exact ⟨_, hinv.zeroIn, h0⟩
    · exact ⟨_, hinv.xrIn, hx⟩

/-- A selection that did not come from the bisection came from one of the three early exits. -/
theorem bisect1D_early {counts : List Nat} {E : Nat → Rat → Rat} {cfg : Cfg}
    {k : Nat} {h : Rat} {p : Path} {tr : List (Nat × Rat)}
    (hsel : bisect1D counts E cfg = (.selected k h p, tr)) (hp : p ≠ .bisection) :
    ∃ xr, upperIndex counts cfg.cap = .ok xr ∧ pre E cfg xr = .inl (.selected k h p) ∧ tr = tr0 cfg xr := by
  rcases bisect1D_spec counts E cfg with ⟨e, _, hb⟩ | ⟨xr, hu, ⟨o, hpre, hb⟩ | ⟨ls, hpre, ⟨i, s, e, _, hb⟩ | ⟨i, s, hl, hb⟩⟩⟩
  · rw [hb] at hsel; by_cases he : e = .valueError <;> simp [he] at hsel
  · rw [hb] at hsel; injection hsel with h1 h2; subst h1; subst h2
    exact ⟨xr, hu, hpre, rfl⟩
  · rw [hb] at hsel; cases hsel
  · exfalso
    rw [hb] at hsel
    unfold finish at hsel
    by_cases hlen : counts.length ≤ i
    · simp [hlen] at hsel
    · simp only [hlen, if_false] at hsel
      cases hf : finalPick counts (dictSet s.mem i (E i cfg.maxH)) with
      | none => simp [hf] at hsel
      | some k' => simp only [hf] at hsel; injection hsel with h1 _; injection h1 with _ _ h3; exact hp h3.symm


end GHEVerif.Search
