/- Helper lemmas for C20 (flow specifications): closed forms of the generated definitions. -/
import GHEVerif.Model.Flow
import Mathlib.Tactic.Linarith
import Mathlib.Tactic.Ring
import Mathlib.Tactic.FieldSimp
import Mathlib.Tactic.Positivity

namespace GHEVerif.Flow
open GHEVerif

theorem length_cast_ne_zero {cs : List (Rat × Rat)} (h : cs ≠ []) : ((cs.length : Nat) : Rat) ≠ 0 := by
  have : cs.length ≠ 0 := by simpa using h
  exact_mod_cast this

theorem length_cast_pos {cs : List (Rat × Rat)} (h : cs ≠ []) : (0 : Rat) < ((cs.length : Nat) : Rat) := by
  have : 0 < cs.length := List.length_pos_iff.mpr h
  exact_mod_cast this

/-! ### `retrieve_flow`, Bisection1D copy -/

theorem rf1D_borehole (v : Rat) (cs : List (Rat × Rat)) (rho : Rat) :
    Gen.retrieveFlow1D .borehole v cs rho = .ok (v * (cs.length : Rat), massFlow v rho) := by
  simp [Gen.retrieveFlow1D, massFlow]; rfl

theorem rf1D_system (v : Rat) (cs : List (Rat × Rat)) (rho : Rat) (h : cs ≠ []) :
    Gen.retrieveFlow1D .system v cs rho = .ok (v, massFlow (v / (cs.length : Rat)) rho) := by
  simp [Gen.retrieveFlow1D, pyDiv, length_cast_ne_zero h, massFlow]

theorem rf1D_system_nil (v rho : Rat) : Gen.retrieveFlow1D .system v [] rho = .error .zeroDiv := by
  simp [Gen.retrieveFlow1D, pyDiv]

theorem rf1D_other (v : Rat) (cs : List (Rat × Rat)) (rho : Rat) :
    Gen.retrieveFlow1D .other v cs rho = .error .valueError := by
  simp [Gen.retrieveFlow1D]

/-! ### `retrieve_flow`, RowWise copy (proved separately from the generated text, not via the other copy) -/

theorem rfRW_borehole (v : Rat) (cs : List (Rat × Rat)) (rho : Rat) :
    Gen.retrieveFlowRW .borehole v cs rho = .ok (v * (cs.length : Rat), massFlow v rho) := by
  simp [Gen.retrieveFlowRW, massFlow]; rfl

theorem rfRW_system (v : Rat) (cs : List (Rat × Rat)) (rho : Rat) (h : cs ≠ []) :
    Gen.retrieveFlowRW .system v cs rho = .ok (v, massFlow (v / (cs.length : Rat)) rho) := by
  simp [Gen.retrieveFlowRW, pyDiv, length_cast_ne_zero h, massFlow]

theorem rfRW_system_nil (v rho : Rat) : Gen.retrieveFlowRW .system v [] rho = .error .zeroDiv := by
  simp [Gen.retrieveFlowRW, pyDiv]

theorem rfRW_other (v : Rat) (cs : List (Rat × Rat)) (rho : Rat) :
    Gen.retrieveFlowRW .other v cs rho = .error .valueError := by
  simp [Gen.retrieveFlowRW]

/-! ### either copy -/

theorem retrieveFlow_borehole (c : Copy) (v : Rat) (cs : List (Rat × Rat)) (rho : Rat) :
    retrieveFlow c .borehole v cs rho = .ok (v * (cs.length : Rat), massFlow v rho) := by
  cases c
  · exact rf1D_borehole v cs rho
  · exact rfRW_borehole v cs rho

theorem retrieveFlow_system (c : Copy) (v : Rat) (cs : List (Rat × Rat)) (rho : Rat) (h : cs ≠ []) :
    retrieveFlow c .system v cs rho = .ok (v, massFlow (v / (cs.length : Rat)) rho) := by
  cases c
  · exact rf1D_system v cs rho h
  · exact rfRW_system v cs rho h

theorem retrieveFlow_system_nil (c : Copy) (v rho : Rat) :
    retrieveFlow c .system v [] rho = .error .zeroDiv := by
  cases c
  · exact rf1D_system_nil v rho
  · exact rfRW_system_nil v rho

theorem retrieveFlow_other (c : Copy) (v : Rat) (cs : List (Rat × Rat)) (rho : Rat) :
    retrieveFlow c .other v cs rho = .error .valueError := by
  cases c
  · exact rf1D_other v cs rho
  · exact rfRW_other v cs rho

/-- Both specifications in one formula (non-empty field, a real flow type). -/
theorem retrieveFlow_spec (c : Copy) (ft : FlowType) (v : Rat) (cs : List (Rat × Rat)) (rho : Rat)
    (hft : ft ≠ .other) (h : cs ≠ []) :
    retrieveFlow c ft v cs rho =
      .ok (systemSpec ft v cs.length, massFlow (perBoreholeSpec ft v cs.length) rho) := by
  cases ft with
  | borehole => simpa [systemSpec, perBoreholeSpec] using retrieveFlow_borehole c v cs rho
  | system => simpa [systemSpec, perBoreholeSpec] using retrieveFlow_system c v cs rho h
  | other => exact absurd rfl hft

/-! ### the `BaseGHE.__init__` slice -/

theorem baseGheFlow_pos (vs : Rat) (cs : List (Rat × Rat)) (rho : Rat) (h : cs ≠ []) :
    Gen.baseGheFlow vs cs rho =
      .ok (vs / (cs.length : Rat), massFlow (vs / (cs.length : Rat)) rho, massFlow (vs / (cs.length : Rat)) rho) := by
  simp [Gen.baseGheFlow, pyDiv, length_cast_ne_zero h, massFlow]

theorem baseGheFlow_nil (vs rho : Rat) : Gen.baseGheFlow vs [] rho = .error .zeroDiv := by
  simp [Gen.baseGheFlow, pyDiv]

/-- `system flow / n` gives back the per-borehole flow the specification meant. -/
theorem systemSpec_div (ft : FlowType) (v : Rat) (n : Nat) (hn : n ≠ 0) (hft : ft ≠ .other) :
    systemSpec ft v n / (n : Rat) = perBoreholeSpec ft v n := by
  have hn' : (n : Rat) ≠ 0 := by exact_mod_cast hn
  cases ft with
  | borehole => simp [systemSpec, perBoreholeSpec]; field_simp
  | system => simp [systemSpec, perBoreholeSpec]
  | other => exact absurd rfl hft

/-- … and conversely the system flow is `n` times the per-borehole flow. -/
theorem systemSpec_eq_mul (ft : FlowType) (v : Rat) (n : Nat) (hn : n ≠ 0) (hft : ft ≠ .other) :
    systemSpec ft v n = (n : Rat) * perBoreholeSpec ft v n := by
  have hn' : (n : Rat) ≠ 0 := by exact_mod_cast hn
  rw [← systemSpec_div ft v n hn hft]
  field_simp

/-- Closed form of a whole `initialize_ghe` call. -/
theorem initializeGhe_closed (c : Copy) (ft : FlowType) (v : Rat) (cs : List (Rat × Rat)) (rho : Rat)
    (hft : ft ≠ .other) (h : cs ≠ []) :
    initializeGhe c ft v cs rho = .ok
      { vFlowSystem := systemSpec ft v cs.length
        mFlowG := massFlow (perBoreholeSpec ft v cs.length) rho
        vFlowBorehole := perBoreholeSpec ft v cs.length
        mFlowGhe := massFlow (perBoreholeSpec ft v cs.length) rho
        mFlowBhe := massFlow (perBoreholeSpec ft v cs.length) rho
        nbh := cs.length } := by
  have hlen : cs.length ≠ 0 := by simpa using h
  have hsp : spacingCheck cs = .ok () := by
    cases cs with
    | nil => exact absurd rfl h
    | cons a t => rfl
  unfold initializeGhe
  rw [retrieveFlow_spec c ft v cs rho hft h]
  simp only [bind, Except.bind, hsp]
  rw [baseGheFlow_pos _ cs rho h, systemSpec_div ft v cs.length hlen hft]
  rfl

theorem initializeGhe_other (c : Copy) (v : Rat) (cs : List (Rat × Rat)) (rho : Rat) :
    initializeGhe c .other v cs rho = .error .valueError := by
  unfold initializeGhe
  rw [retrieveFlow_other]; rfl

theorem initializeGhe_system_nil (c : Copy) (v rho : Rat) :
    initializeGhe c .system v [] rho = .error .zeroDiv := by
  unfold initializeGhe
  rw [retrieveFlow_system_nil]; rfl

theorem initializeGhe_borehole_nil (c : Copy) (v rho : Rat) :
    initializeGhe c .borehole v [] rho = .error .indexError := by
  unfold initializeGhe
  rw [retrieveFlow_borehole]; rfl

/-- `massFlow` is linear in the volumetric flow. -/
theorem massFlow_mul_n (vb rho : Rat) (n : Rat) : massFlow vb rho * n = massFlow (vb * n) rho := by
  unfold massFlow; ring

/-- Strict decrease of `V / n` in `n` for a positive system flow. -/
theorem div_lt_div_of_length_lt (V : Rat) (hV : 0 < V) (n1 n2 : Nat) (h1 : 0 < n1) (h12 : n1 < n2) :
    V / (n2 : Rat) < V / (n1 : Rat) := by
  have p1 : (0 : Rat) < (n1 : Rat) := by exact_mod_cast h1
  have p12 : (n1 : Rat) < (n2 : Rat) := by exact_mod_cast h12
  exact div_lt_div_of_pos_left hV p1 p12

theorem div_le_div_of_length_le (V : Rat) (hV : 0 ≤ V) (n1 n2 : Nat) (h1 : 0 < n1) (h12 : n1 ≤ n2) :
    V / (n2 : Rat) ≤ V / (n1 : Rat) := by
  have p1 : (0 : Rat) < (n1 : Rat) := by exact_mod_cast h1
  have p12 : (n1 : Rat) ≤ (n2 : Rat) := by exact_mod_cast h12
  exact div_le_div_of_nonneg_left hV p1 p12

theorem massFlow_strictMono (rho : Rat) (hrho : 0 < rho) (a b : Rat) (hab : a < b) :
    massFlow a rho < massFlow b rho := by
  unfold massFlow
  have : a / 1000 < b / 1000 := by linarith
  exact mul_lt_mul_of_pos_right this hrho

theorem massFlow_mono (rho : Rat) (hrho : 0 ≤ rho) (a b : Rat) (hab : a ≤ b) :
    massFlow a rho ≤ massFlow b rho := by
  unfold massFlow
  have : a / 1000 ≤ b / 1000 := by linarith
  exact mul_le_mul_of_nonneg_right this hrho

/-! ### `set_design` call histories -/

theorem stepCall_geom (m : Manager) (c : Call) : (stepCall m c).geom = m.geom := by
  unfold stepCall setDesign
  split
  · rfl
  · split
    · rfl
    · split <;> rfl

theorem afterCalls_geom (m : Manager) (calls : List Call) : (afterCalls m calls).geom = m.geom := by
  unfold afterCalls
  induction calls generalizing m with
  | nil => rfl
  | cons c cs ih => simp only [List.foldl_cons]; rw [ih, stepCall_geom]

theorem stepCall_design (m : Manager) (k : Nat) (hk : k < nMethods) (hg : m.geom = some k) (c : Call) :
    (stepCall m c).design = if validCall c then some (c.1, c.2.1, k) else m.design := by
  unfold stepCall setDesign validCall
  by_cases h : c.2.1 = FlowType.other
  · simp [h]
  · simp [h, hg, hk]

theorem afterCalls_snoc (m : Manager) (cs : List Call) (c : Call) :
    afterCalls m (cs ++ [c]) = stepCall (afterCalls m cs) c := by
  unfold afterCalls; rw [List.foldl_append]; rfl

/-- Invariant of a call history: the stored design is that of the last call that named a flow type. -/
theorem afterCalls_design (m : Manager) (k : Nat) (hk : k < nMethods) (hg : m.geom = some k) (calls : List Call) :
    (afterCalls m calls).design =
      match (calls.filter validCall).getLast? with
      | some c => some (c.1, c.2.1, k)
      | none => m.design := by
  induction calls using List.reverseRecOn with
  | nil => rfl
  | append_singleton cs c ih =>
    rw [afterCalls_snoc, stepCall_design _ k hk (by rw [afterCalls_geom]; exact hg), ih, List.filter_append]
    by_cases hv : validCall c
    · simp [hv, List.filter]
    · simp [hv, List.filter]

theorem lastValid_snoc (l : List Call) (c : Call) (hv : validCall c = true) :
    ((l ++ [c]).filter validCall).getLast? = some c := by
  simp [List.filter_append, List.filter, hv]

end GHEVerif.Flow
