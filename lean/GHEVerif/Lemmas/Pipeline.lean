/- `GHEManager.find_design`: the regenerated statement list and what running it amounts to
   (used by Props/C01 and Props/C02). -/
import GHEVerif.Model.Pipeline
import GHEVerif.Lemmas.Report

namespace GHEVerif.Pipeline
open GHEVerif GHEVerif.Search GHEVerif.Report

/-- The statements of `GHEManager.find_design` as regenerated from manager.py on this run. -/
theorem find_design_statements :
    Gen.findDesignOps = [.startTimer, .search, .computeG, .stopTimer, .size, .ret0] := by decide

/-- Running those statements is: search, then size the selected field on the three-height
    objective — whatever the search class (`α`, `β` are its candidate identifier and extra output). -/
theorem findDesignG_eq_spec {α β : Type} (search : SearchRes α β) (E : α → Rat → Rat) (minH maxH : Rat)
    (f : α → Rat → Rat) (its : α → List Rat) (brent : α → Rat) :
    findDesignG search E minH maxH f its brent = findDesignSpec search minH maxH f its brent := by
  unfold findDesignG findDesignSpec
  rw [find_design_statements]
  simp only [runMgr, mgrStep, Bool.false_eq_true, if_false]
  cases search with
  | valueError => rfl
  | pyError e => rfl
  | selected k h p =>
    simp only [Bool.false_eq_true, if_false, if_true]
    cases size (f k) minH maxH (its k) (brent k) { H := h, simAt := none, returned := 0 } with
    | error e => rfl
    | ok st => rfl

end GHEVerif.Pipeline
