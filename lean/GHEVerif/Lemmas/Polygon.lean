/-
  Helper lemmas about Model/Polygon.lean (point-in-polygon test), used by Props/C16.lean and
  meant to be reused by C04.

  A. the squaring cascade decides the on-edge comparison over the reals (`ltMulSqrt_iff`,
     `ltSumSqrt_iff`, `onBand_iff` with the triangle inequality `rdist_triangle`);
  B. one edge of the ray loop in crossing-number terms (`cross_eq`, `edgeStep_of_counted`);
  C. loop invariant and closed form (`rayLoop_eq`, `classify_eq_spec`);
  D. the cyclic edge list under rotation and reversal (`edges_rotate`, `edges_reverse`),
     symmetry of the per-edge predicates, `spec_congr`;
  E. closed segments (`OnSegment`, `hitsLine_onSegment`, `onSegment_onBand`).
-/
import GHEVerif.Model.Polygon
import Mathlib.Analysis.Real.Sqrt
import Mathlib.Data.List.Rotate
import Mathlib.Tactic.Linarith
import Mathlib.Tactic.Ring
import Mathlib.Tactic.FieldSimp
import Mathlib.Tactic.Positivity
import Mathlib.Tactic.NormNum

namespace GHEVerif.Polygon

/-! ### A. square-root cascade -/

theorem ltMulSqrt_iff (x c d : ℚ) (hd : 0 ≤ d) :
    ltMulSqrt x c d = true ↔ (x : ℝ) < (c : ℝ) * Real.sqrt (d : ℝ) := by
  have hdR : (0 : ℝ) ≤ (d : ℝ) := by exact_mod_cast hd
  have hs0 : 0 ≤ Real.sqrt (d : ℝ) := Real.sqrt_nonneg _
  have hss : Real.sqrt (d : ℝ) * Real.sqrt (d : ℝ) = (d : ℝ) := Real.mul_self_sqrt hdR
  set s := Real.sqrt (d : ℝ) with hs
  unfold ltMulSqrt
  by_cases hc : 0 ≤ c
  · have hcR : (0 : ℝ) ≤ (c : ℝ) := by exact_mod_cast hc
    rw [if_pos hc]
    by_cases hx : x < 0
    · have hxR : (x : ℝ) < 0 := by exact_mod_cast hx
      rw [if_pos hx]
      simp only [true_iff]
      have : 0 ≤ (c : ℝ) * s := mul_nonneg hcR hs0
      linarith
    · rw [if_neg hx]
      have hxR : (0 : ℝ) ≤ (x : ℝ) := by exact_mod_cast (not_lt.mp hx)
      rw [decide_eq_true_iff]
      have h1 : (x * x < c * c * d) ↔ ((x : ℝ) * x < (c : ℝ) * c * d) := by
        constructor <;> intro h <;> exact_mod_cast h
      rw [h1, mul_self_lt_mul_self_iff hxR (mul_nonneg hcR hs0)]
      have : (c : ℝ) * s * (c * s) = c * c * d := by rw [← hss]; ring
      rw [this]
  · rw [if_neg hc]
    have hcR : (c : ℝ) < 0 := by exact_mod_cast (not_le.mp hc)
    by_cases hx : 0 ≤ x
    · have hxR : (0 : ℝ) ≤ (x : ℝ) := by exact_mod_cast hx
      rw [if_pos hx]
      simp only [Bool.false_eq_true, false_iff, not_lt]
      have : (c : ℝ) * s ≤ 0 := mul_nonpos_of_nonpos_of_nonneg hcR.le hs0
      linarith
    · rw [if_neg hx]
      have hxR : (x : ℝ) < 0 := by exact_mod_cast (not_le.mp hx)
      rw [decide_eq_true_iff]
      have h1 : (c * c * d < x * x) ↔ ((c : ℝ) * c * d < (x : ℝ) * x) := by
        constructor <;> intro h <;> exact_mod_cast h
      have h2 : (x : ℝ) < c * s ↔ (-(c : ℝ)) * s < -x := by constructor <;> intro h <;> linarith
      rw [h1, h2, mul_self_lt_mul_self_iff (mul_nonneg (by linarith) hs0) (by linarith)]
      have : -(c : ℝ) * s * (-c * s) = c * c * d := by rw [← hss]; ring
      rw [this]; simp

/-- Pure real-number core of the cascade. -/
theorem sumSqrt_core (A B D t : ℝ) (hA : 0 ≤ A) (hB : 0 ≤ B) (hD : 0 ≤ D) (ht : 0 < t) :
    (-(t * t + D * D - A * A - B * B) < 2 * t * D ∧
      4 * (A * A) * (B * B) - (t * t + D * D - A * A - B * B) * (t * t + D * D - A * A - B * B)
        - 4 * t * t * (D * D) < 4 * (t * t + D * D - A * A - B * B) * t * D) ↔ A + B - D < t := by
  set M := (t + D) * (t + D) - (A + B) * (A + B) + 2 * A * B with hM
  have hAB : 0 ≤ 2 * A * B := by positivity
  have e1 : (-(t * t + D * D - A * A - B * B) < 2 * t * D) ↔ 0 < M := by
    constructor <;> intro h <;> (simp only [hM] at *; nlinarith)
  have e2 : (4 * (A * A) * (B * B) - (t * t + D * D - A * A - B * B) * (t * t + D * D - A * A - B * B)
        - 4 * t * t * (D * D) < 4 * (t * t + D * D - A * A - B * B) * t * D) ↔ (2 * A * B) * (2 * A * B) < M * M := by
    have : M * M - (2 * A * B) * (2 * A * B) = 4 * (t * t + D * D - A * A - B * B) * t * D -
      (4 * (A * A) * (B * B) - (t * t + D * D - A * A - B * B) * (t * t + D * D - A * A - B * B)
        - 4 * t * t * (D * D)) := by simp only [hM]; ring
    constructor <;> intro h <;> linarith
  rw [e1, e2]
  have hR : 0 ≤ t + D := by linarith
  have hS : 0 ≤ A + B := by linarith
  have e3 : A + B - D < t ↔ (A + B) * (A + B) < (t + D) * (t + D) := by
    rw [← mul_self_lt_mul_self_iff hS hR]; constructor <;> intro h <;> linarith
  rw [e3]
  constructor
  · rintro ⟨hM0, hlt⟩
    have := (mul_self_lt_mul_self_iff hAB hM0.le).mpr hlt
    simp only [hM] at this; linarith
  · intro h
    have h2 : 2 * A * B < M := by simp only [hM]; linarith
    exact ⟨by linarith, (mul_self_lt_mul_self_iff hAB (by linarith)).mp h2⟩

theorem ltSumSqrt_iff (a b d t : ℚ) (ha : 0 ≤ a) (hb : 0 ≤ b) (hd : 0 ≤ d) :
    ltSumSqrt a b d t = true ↔
      0 < t ∧ Real.sqrt (a : ℝ) + Real.sqrt (b : ℝ) - Real.sqrt (d : ℝ) < (t : ℝ) := by
  unfold ltSumSqrt
  by_cases ht : t ≤ 0
  · rw [if_pos ht]
    simp only [Bool.false_eq_true, false_iff, not_and]
    intro h; exact absurd h (not_lt.mpr ht)
  · rw [if_neg ht]
    have htq : 0 < t := not_le.mp ht
    have htR : (0 : ℝ) < (t : ℝ) := by exact_mod_cast htq
    have haR : (0 : ℝ) ≤ (a : ℝ) := by exact_mod_cast ha
    have hbR : (0 : ℝ) ≤ (b : ℝ) := by exact_mod_cast hb
    have hdR : (0 : ℝ) ≤ (d : ℝ) := by exact_mod_cast hd
    simp only [Bool.and_eq_true, ltMulSqrt_iff _ _ _ hd]
    have hA := Real.mul_self_sqrt haR
    have hB := Real.mul_self_sqrt hbR
    have hD := Real.mul_self_sqrt hdR
    have core := sumSqrt_core (Real.sqrt a) (Real.sqrt b) (Real.sqrt d) t (Real.sqrt_nonneg _)
      (Real.sqrt_nonneg _) (Real.sqrt_nonneg _) htR
    rw [hA, hB, hD] at core
    push_cast
    constructor
    · intro h; exact ⟨htq, core.mp h⟩
    · intro h; exact core.mpr h.2

theorem sqDist_nonneg (a b : Pt) : 0 ≤ sqDist a b := by
  unfold sqDist; nlinarith [mul_self_nonneg (a.1 - b.1), mul_self_nonneg (a.2 - b.2)]

theorem sqDist_comm (a b : Pt) : sqDist a b = sqDist b a := by
  unfold sqDist; ring

/-- The real number `distance(a, b)` of the source: `sqrt((a0-b0)**2 + (a1-b1)**2)`. -/
noncomputable def rdist (a b : Pt) : ℝ := Real.sqrt ((sqDist a b : ℚ) : ℝ)

theorem rdist_nonneg (a b : Pt) : 0 ≤ rdist a b := Real.sqrt_nonneg _

theorem rdist_comm (a b : Pt) : rdist a b = rdist b a := by unfold rdist; rw [sqDist_comm]

theorem minkowski2 (a b c d : ℝ) :
    Real.sqrt ((a + c) * (a + c) + (b + d) * (b + d)) ≤
      Real.sqrt (a * a + b * b) + Real.sqrt (c * c + d * d) := by
  have h1 : 0 ≤ a * a + b * b := by nlinarith [mul_self_nonneg a, mul_self_nonneg b]
  have h2 : 0 ≤ c * c + d * d := by nlinarith [mul_self_nonneg c, mul_self_nonneg d]
  set P := Real.sqrt (a * a + b * b) with hP
  set Q := Real.sqrt (c * c + d * d) with hQ
  have hP0 : 0 ≤ P := Real.sqrt_nonneg _
  have hQ0 : 0 ≤ Q := Real.sqrt_nonneg _
  have hPP : P * P = a * a + b * b := Real.mul_self_sqrt h1
  have hQQ : Q * Q = c * c + d * d := Real.mul_self_sqrt h2
  have cs : a * c + b * d ≤ P * Q := by
    have : (a * c + b * d) ^ 2 ≤ (a * a + b * b) * (c * c + d * d) := by
      nlinarith [sq_nonneg (a * d - b * c)]
    have h3 := Real.abs_le_sqrt this
    rw [Real.sqrt_mul h1] at h3
    exact le_trans (le_abs_self _) h3
  rw [Real.sqrt_le_iff]
  refine ⟨by positivity, ?_⟩
  nlinarith

theorem rdist_triangle (u v p : Pt) : rdist u v ≤ rdist u p + rdist v p := by
  unfold rdist sqDist
  have := minkowski2 ((u.1 : ℝ) - p.1) ((u.2 : ℝ) - p.2) ((p.1 : ℝ) - v.1) ((p.2 : ℝ) - v.2)
  have e1 : ((u.1 : ℝ) - p.1 + (p.1 - v.1)) = u.1 - v.1 := by ring
  have e2 : ((u.2 : ℝ) - p.2 + (p.2 - v.2)) = u.2 - v.2 := by ring
  rw [e1, e2] at this
  have e3 : ((p.1 : ℝ) - v.1) * (p.1 - v.1) + (p.2 - v.2) * (p.2 - v.2) =
      (v.1 - p.1) * (v.1 - p.1) + (v.2 - p.2) * (v.2 - p.2) := by ring
  rw [e3] at this
  push_cast
  exact this

/-- The executable band test is the source's comparison
    `abs(distance(v1,p) + distance(v2,p) - distance(v1,v2)) < on_edge_tolerance` over the reals. -/
theorem onBand_iff (tol : ℚ) (e : Edge) (p : Pt) :
    onBand tol e p = true ↔ |rdist e.1 p + rdist e.2 p - rdist e.1 e.2| < (tol : ℝ) := by
  unfold onBand
  rw [ltSumSqrt_iff _ _ _ _ (sqDist_nonneg _ _) (sqDist_nonneg _ _) (sqDist_nonneg _ _)]
  have h := rdist_triangle e.1 e.2 p
  have h0 : 0 ≤ rdist e.1 p + rdist e.2 p - rdist e.1 e.2 := by linarith
  rw [abs_of_nonneg h0]
  unfold rdist at *
  constructor
  · intro h; exact h.2
  · intro h; refine ⟨?_, h⟩
    have : (0 : ℝ) < (tol : ℝ) := lt_of_le_of_lt h0 h
    exact_mod_cast this

/-! ### B. one edge of the ray loop -/

theorem counted_iff (e : Edge) (p : Pt) :
    counted e p = true ↔ (e.1.2 < p.2 ∧ p.2 ≤ e.2.2) ∨ (e.2.2 < p.2 ∧ p.2 ≤ e.1.2) := by
  unfold counted; simp

theorem counted_ne (e : Edge) (p : Pt) (h : counted e p = true) : e.1.2 ≠ e.2.2 := by
  rw [counted_iff] at h
  intro heq; rcases h with h | h <;> (rw [heq] at h; linarith [h.1, h.2])

/-- `c = (xAt − px)·(v2y − v1y)` on non-horizontal edges. -/
theorem cross_eq (e : Edge) (p : Pt) (h : e.1.2 ≠ e.2.2) :
    cross e p = (xAt e p.2 - p.1) * (e.2.2 - e.1.2) := by
  unfold cross xAt Gen.ppcCross
  have h' : e.2.2 - e.1.2 ≠ 0 := sub_ne_zero.mpr (Ne.symm h)
  field_simp
  ring

theorem inRange_iff (py v1y v2y : ℚ) :
    Gen.ppcInRange py v1y v2y = true ↔ (v1y ≤ py ∧ py ≤ v2y) ∨ (py ≤ v1y ∧ v2y ≤ py) := by
  unfold Gen.ppcInRange Gen.ppcBetween; simp

theorem skip_iff (py v1y v2y : ℚ) :
    Gen.ppcSkip py v1y v2y = true ↔ (py = v1y ∧ v1y ≤ v2y) ∨ (py = v2y ∧ v2y ≤ v1y) := by
  unfold Gen.ppcSkip; simp

theorem edgeStep_of_not_counted (e : Edge) (p : Pt) (h : counted e p = false) :
    edgeStep e p = .skip := by
  unfold edgeStep
  by_cases hin : Gen.ppcInRange p.2 e.1.2 e.2.2 = true
  · rw [if_pos hin]
    have hs : Gen.ppcSkip p.2 e.1.2 e.2.2 = true := by
      rw [skip_iff]
      rw [inRange_iff] at hin
      have hc : ¬ ((e.1.2 < p.2 ∧ p.2 ≤ e.2.2) ∨ (e.2.2 < p.2 ∧ p.2 ≤ e.1.2)) := by
        rw [← counted_iff]; simp [h]
      push Not at hc
      rcases hin with ⟨h1, h2⟩ | ⟨h1, h2⟩
      · rcases lt_or_eq_of_le h1 with hlt | heq
        · exact absurd h2 (not_le.mpr (hc.1 hlt))
        · left; exact ⟨heq.symm, by linarith⟩
      · rcases lt_or_eq_of_le h2 with hlt | heq
        · exact absurd h1 (not_le.mpr (hc.2 hlt))
        · right; exact ⟨heq.symm, by linarith⟩
    rw [if_pos hs]
  · rw [if_neg hin]

theorem edgeStep_of_counted (e : Edge) (p : Pt) (h : counted e p = true) :
    edgeStep e p = if xAt e p.2 = p.1 then .zero else if p.1 < xAt e p.2 then .toggle else .keep := by
  have hne := counted_ne e p h
  have hc := cross_eq e p hne
  rw [counted_iff] at h
  unfold edgeStep
  have hin : Gen.ppcInRange p.2 e.1.2 e.2.2 = true := by
    rw [inRange_iff]; rcases h with h | h
    · left; exact ⟨h.1.le, h.2⟩
    · right; exact ⟨h.2, h.1.le⟩
  have hs : ¬ Gen.ppcSkip p.2 e.1.2 e.2.2 = true := by
    rw [skip_iff]; rintro (⟨h1, h2⟩ | ⟨h1, h2⟩) <;> rcases h with h | h <;> linarith [h.1, h.2]
  rw [if_pos hin, if_neg hs]
  have hz : Gen.ppcIsZero (cross e p) = true ↔ xAt e p.2 = p.1 := by
    unfold Gen.ppcIsZero; rw [hc]; simp only [decide_eq_true_eq]
    rw [mul_eq_zero, sub_eq_zero, sub_eq_zero]
    constructor
    · rintro (h1 | h1); exact h1; exact absurd h1.symm hne
    · intro h1; left; exact h1
  by_cases hx : xAt e p.2 = p.1
  · rw [if_pos (hz.mpr hx), if_pos hx]
  · rw [if_neg (fun h' => hx (hz.mp h')), if_neg hx]
    have ht : Gen.ppcToggle e.1.2 e.2.2 (cross e p) = true ↔ p.1 < xAt e p.2 := by
      unfold Gen.ppcToggle; rw [hc]
      simp only [decide_eq_true_eq, decide_eq_decide, gt_iff_lt]
      rcases lt_or_gt_of_ne hne with hlt | hgt
      · have hpos : 0 < e.2.2 - e.1.2 := by linarith
        constructor
        · intro h1
          have := h1.mp hlt
          have := (mul_pos_iff_of_pos_right hpos).mp this
          linarith
        · intro h1; constructor
          · intro _; exact mul_pos (by linarith) hpos
          · intro _; exact hlt
      · have hneg : e.2.2 - e.1.2 < 0 := by linarith
        constructor
        · intro h1
          rcases lt_or_gt_of_ne hx with h2 | h2
          · have : 0 < (xAt e p.2 - p.1) * (e.2.2 - e.1.2) := mul_pos_of_neg_of_neg (by linarith) hneg
            have := h1.mpr this
            linarith
          · exact h2
        · intro h1; constructor
          · intro h2; linarith
          · intro h2
            have : (xAt e p.2 - p.1) * (e.2.2 - e.1.2) < 0 := mul_neg_of_pos_of_neg (by linarith) hneg
            linarith
    by_cases hp : p.1 < xAt e p.2
    · rw [if_pos (ht.mpr hp), if_pos hp]
    · rw [if_neg (fun h' => hp (ht.mp h')), if_neg hp]

/-! ### C. loop invariant, closed form -/

/-- Loop invariant of the ray loop: the result is `0` as soon as some counted edge passes through
    `p`; otherwise the flag `inside` has been flipped once per crossing. -/
theorem rayLoop_eq (es : List Edge) (p : Pt) (s : Bool) :
    rayLoop es p s =
      if es.any (fun e => hitsLine e p) then 0
      else if (s != decide (es.countP (fun e => crosses e p) % 2 = 1)) then -1 else 1 := by
  induction es generalizing s with
  | nil => cases s <;> simp [rayLoop, Gen.ppcRetIfInside, Gen.ppcRetIfNotInside]
  | cons e es ih =>
    unfold rayLoop
    by_cases hc : counted e p = true
    · rw [edgeStep_of_counted e p hc]
      by_cases hx : xAt e p.2 = p.1
      · have hh : hitsLine e p = true := by simp [hitsLine, hc, hx]
        simp [hx, hh, Gen.ppcRetZero]
      · have hh : hitsLine e p = false := by simp [hitsLine, hx]
        by_cases hp : p.1 < xAt e p.2
        · have hcr : crosses e p = true := by simp [crosses, hc, hp]
          simp only [if_neg hx, if_pos hp, ih, List.any_cons, hh, Bool.false_or,
            List.countP_cons_of_pos (p := fun e => crosses e p) (l := es) (a := e) hcr]
          have par : decide ((List.countP (fun e => crosses e p) es + 1) % 2 = 1) =
              !decide (List.countP (fun e => crosses e p) es % 2 = 1) := by
            rcases Nat.mod_two_eq_zero_or_one (List.countP (fun e => crosses e p) es) with h | h
            · have : (List.countP (fun e => crosses e p) es + 1) % 2 = 1 := by omega
              simp [h, this]
            · have : (List.countP (fun e => crosses e p) es + 1) % 2 = 0 := by omega
              simp [h, this]
          rw [par]
          cases s <;> cases decide (List.countP (fun e => crosses e p) es % 2 = 1) <;> rfl
        · have hcr : ¬ crosses e p = true := by simp [crosses, hp]
          simp only [if_neg hx, if_neg hp, ih, List.any_cons, hh, Bool.false_or,
            List.countP_cons_of_neg (p := fun e => crosses e p) (l := es) (a := e) hcr]
    · have hc' : counted e p = false := by simpa using hc
      rw [edgeStep_of_not_counted e p hc']
      have hh : hitsLine e p = false := by simp [hitsLine, hc']
      have hcr : ¬ crosses e p = true := by simp [crosses, hc']
      simp only [ih, List.any_cons, hh, Bool.false_or,
        List.countP_cons_of_neg (p := fun e => crosses e p) (l := es) (a := e) hcr]

theorem classify_eq_spec (tol : ℚ) (poly : List Pt) (p : Pt) :
    classify tol poly p = spec tol poly p := by
  unfold classify spec crossings
  rw [rayLoop_eq]
  by_cases hb : (edges poly).any (fun e => onBand tol e p) = true
  · simp [hb, Gen.ppcRetBand]
  · simp only [hb, Gen.ppcInitInside]
    by_cases hz : (edges poly).any (fun e => hitsLine e p) = true
    · simp [hz]
    · simp only [hz]
      rcases Nat.mod_two_eq_zero_or_one (List.countP (fun e => crosses e p) (edges poly)) with h | h
        <;> simp [h]

/-! ### D. rotation, reversal, symmetry -/

theorem edgesFrom_concat (l : List Pt) (a x : Pt) :
    edgesFrom a (l ++ [x]) = edgesFrom a l ++ [(l.getLastD a, x)] := by
  induction l generalizing a with
  | nil => simp [edgesFrom]
  | cons b l ih => simp only [List.cons_append, edgesFrom, ih, List.getLastD_cons]

theorem edges_cons (h : Pt) (t : List Pt) : edges (h :: t) = (t.getLastD h, h) :: edgesFrom h t := by
  unfold edges; rw [List.getLast?_cons]; simp [edgesFrom]

theorem edges_concat (t : List Pt) (h : Pt) : edges (t ++ [h]) = edgesFrom h (t ++ [h]) := by
  unfold edges; rw [List.getLast?_concat]

theorem edges_rotate_one (h : Pt) (t : List Pt) : (edges (t ++ [h])).Perm (edges (h :: t)) := by
  rw [edges_concat, edgesFrom_concat, edges_cons]
  exact List.perm_append_singleton _ _

theorem edges_rotate (poly : List Pt) (k : Nat) : (edges (poly.rotate k)).Perm (edges poly) := by
  induction k generalizing poly with
  | zero => simp
  | succ k ih =>
    cases poly with
    | nil => simp
    | cons h t =>
      rw [List.rotate_cons_succ]
      exact (ih (t ++ [h])).trans (edges_rotate_one h t)

theorem reverse_cons_eq (a : Pt) (l : List Pt) :
    (a :: l).reverse = l.getLastD a :: (a :: l).reverse.tail := by
  induction l using List.reverseRecOn with
  | nil => simp
  | append_singleton l x _ => simp

/-- Edges of the reversed walk `a, l₀, …, lₙ`. -/
theorem edgesFrom_reverse (l : List Pt) (a : Pt) :
    edgesFrom (l.getLastD a) ((a :: l).reverse.tail) = ((edgesFrom a l).map Prod.swap).reverse := by
  induction l using List.reverseRecOn with
  | nil => simp [edgesFrom]
  | append_singleton l x ih =>
    have e1 : (a :: (l ++ [x])).reverse.tail = (a :: l).reverse := by simp
    rw [e1, reverse_cons_eq a l, edgesFrom_concat]
    simp only [List.getLastD_concat, edgesFrom, ih]
    simp

theorem edges_reverse (poly : List Pt) :
    (edges poly.reverse).Perm ((edges poly).map Prod.swap) := by
  cases poly with
  | nil => simp [edges]
  | cons h t =>
    have e1 : (h :: t).reverse = t.reverse ++ [h] := by simp
    rw [e1, edges_concat]
    have e2 := edgesFrom_reverse (t ++ [h]) h
    have e3 : (h :: (t ++ [h])).reverse.tail = t.reverse ++ [h] := by simp
    rw [e3, List.getLastD_concat] at e2
    rw [e2]
    refine (List.reverse_perm _).trans (List.Perm.map _ ?_)
    rw [← edges_concat]
    exact edges_rotate_one h t

theorem onBand_swap (tol : ℚ) (e : Edge) (p : Pt) : onBand tol e.swap p = onBand tol e p := by
  unfold onBand ltSumSqrt
  simp only [Prod.fst_swap, Prod.snd_swap]
  rw [sqDist_comm e.2 e.1]
  have : ∀ a b : ℚ, 4 * a * b = 4 * b * a := fun a b => by ring
  have h2 : ∀ t d a b : ℚ, t * t + d - a - b = t * t + d - b - a := fun t d a b => by ring
  rw [this (sqDist e.2 p), h2 _ _ (sqDist e.2 p)]

theorem counted_swap (e : Edge) (p : Pt) : counted e.swap p = counted e p := by
  unfold counted; simp only [Prod.fst_swap, Prod.snd_swap]
  rw [Bool.eq_iff_iff]; simp only [decide_eq_true_eq]; exact or_comm

theorem xAt_swap (e : Edge) (y : ℚ) (h : e.1.2 ≠ e.2.2) : xAt e.swap y = xAt e y := by
  unfold xAt; simp only [Prod.fst_swap, Prod.snd_swap]
  have h1 : e.2.2 - e.1.2 ≠ 0 := sub_ne_zero.mpr (Ne.symm h)
  have h2 : e.1.2 - e.2.2 ≠ 0 := sub_ne_zero.mpr h
  field_simp
  ring

theorem crosses_swap (e : Edge) (p : Pt) : crosses e.swap p = crosses e p := by
  unfold crosses; rw [counted_swap]
  by_cases hc : counted e p = true
  · rw [xAt_swap e p.2 (counted_ne e p hc)]
  · simp [hc]

theorem hitsLine_swap (e : Edge) (p : Pt) : hitsLine e.swap p = hitsLine e p := by
  unfold hitsLine; rw [counted_swap]
  by_cases hc : counted e p = true
  · rw [xAt_swap e p.2 (counted_ne e p hc)]
  · simp [hc]

/-- `spec` (hence `classify`) depends on the edge list only up to permutation and up to swapping
    the ends of each edge. -/
theorem spec_congr (tol : ℚ) (poly poly' : List Pt) (p : Pt)
    (h : (edges poly').Perm (edges poly) ∨ (edges poly').Perm ((edges poly).map Prod.swap)) :
    spec tol poly' p = spec tol poly p := by
  unfold spec crossings
  rcases h with h | h
  · rw [h.any_eq, h.any_eq, h.countP_eq]
  · rw [h.any_eq, h.any_eq, h.countP_eq, List.any_map, List.any_map, List.countP_map]
    have e1 : ((fun e => onBand tol e p) ∘ Prod.swap) = (fun e => onBand tol e p) := by
      funext e; exact onBand_swap tol e p
    have e2 : ((fun e => hitsLine e p) ∘ Prod.swap) = (fun e => hitsLine e p) := by
      funext e; exact hitsLine_swap e p
    have e3 : ((fun e => crosses e p) ∘ Prod.swap) = (fun e => crosses e p) := by
      funext e; exact crosses_swap e p
    rw [e1, e2, e3]

theorem classify_rotate_perm (tol : ℚ) (poly : List Pt) (p : Pt) (k : ℕ) :
    classify tol (poly.rotate k) p = classify tol poly p := by
  rw [classify_eq_spec, classify_eq_spec]; exact spec_congr _ _ _ _ (Or.inl (edges_rotate poly k))

theorem classify_reverse_perm (tol : ℚ) (poly : List Pt) (p : Pt) :
    classify tol poly.reverse p = classify tol poly p := by
  rw [classify_eq_spec, classify_eq_spec]; exact spec_congr _ _ _ _ (Or.inr (edges_reverse poly))

/-! ### E. closed segments -/

/-- `p` lies on the closed segment `e`. -/
def OnSegment (e : Edge) (p : Pt) : Prop :=
  ∃ t : ℚ, 0 ≤ t ∧ t ≤ 1 ∧ p.1 = e.1.1 + t * (e.2.1 - e.1.1) ∧ p.2 = e.1.2 + t * (e.2.2 - e.1.2)

theorem hitsLine_onSegment (e : Edge) (p : Pt) (h : hitsLine e p = true) : OnSegment e p := by
  unfold hitsLine at h
  simp only [Bool.and_eq_true, decide_eq_true_eq] at h
  obtain ⟨hc, hx⟩ := h
  have hne := counted_ne e p hc
  have hd : e.2.2 - e.1.2 ≠ 0 := sub_ne_zero.mpr (Ne.symm hne)
  rw [counted_iff] at hc
  refine ⟨(p.2 - e.1.2) / (e.2.2 - e.1.2), ?_, ?_, ?_, ?_⟩
  · rcases hc with hc | hc
    · exact div_nonneg (by linarith [hc.1]) (by linarith [hc.1, hc.2])
    · exact div_nonneg_of_nonpos (by linarith [hc.2]) (by linarith [hc.1, hc.2])
  · rcases hc with hc | hc
    · rw [div_le_one (by linarith [hc.1, hc.2])]; linarith [hc.2]
    · rw [div_le_one_of_neg (by linarith [hc.1, hc.2])]; linarith [hc.1]
  · rw [← hx]; unfold xAt; field_simp
  · field_simp; ring

theorem onSegment_dists (e : Edge) (p : Pt) (h : OnSegment e p) :
    rdist e.1 p + rdist e.2 p - rdist e.1 e.2 = 0 := by
  obtain ⟨t, h0, h1, hx, hy⟩ := h
  have hd := sqDist_nonneg e.1 e.2
  have hdR : (0 : ℝ) ≤ ((sqDist e.1 e.2 : ℚ) : ℝ) := by exact_mod_cast hd
  have e1 : sqDist e.1 p = t * t * sqDist e.1 e.2 := by unfold sqDist; rw [hx, hy]; ring
  have e2 : sqDist e.2 p = (1 - t) * (1 - t) * sqDist e.1 e.2 := by unfold sqDist; rw [hx, hy]; ring
  have ht0 : (0 : ℝ) ≤ (t : ℝ) := by exact_mod_cast h0
  have ht1 : (0 : ℝ) ≤ 1 - (t : ℝ) := by
    have : (t : ℝ) ≤ 1 := by exact_mod_cast h1
    linarith
  unfold rdist
  rw [e1, e2]
  push_cast
  rw [Real.sqrt_mul (mul_self_nonneg _), Real.sqrt_mul_self ht0,
    Real.sqrt_mul (mul_self_nonneg _), Real.sqrt_mul_self ht1]
  ring

theorem onSegment_onBand (tol : ℚ) (htol : 0 < tol) (e : Edge) (p : Pt) (h : OnSegment e p) :
    onBand tol e p = true := by
  rw [onBand_iff, onSegment_dists e p h, abs_zero]
  exact_mod_cast htol

end GHEVerif.Polygon
