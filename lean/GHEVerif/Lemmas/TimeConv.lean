/- Helper lemmas for C19 (time conversion). -/
import GHEVerif.Model.TimeConv
import Mathlib.Tactic.Linarith
import Mathlib.Tactic.Ring
import Mathlib.Tactic.FieldSimp
import Mathlib.Tactic.Positivity
import Mathlib.Algebra.Order.Floor.Ring
import Mathlib.Data.Rat.Floor

namespace GHEVerif.TimeConv

theorem take_succ_sum (L : List Int) (n : Nat) (h : n < L.length) :
    (L.take (n + 1)).sum = (L.take n).sum + L[n] := by
  induction L generalizing n with
  | nil => simp at h
  | cons a L ih =>
    cases n with
    | zero => simp
    | succ n =>
      simp only [List.length_cons, Nat.add_lt_add_iff_right] at h
      simp [List.take_succ_cons, ih n h]; ring

/-- Loop invariant of the month search in `ghe_time_convert`, for any table of positive
    month lengths. -/
theorem gtcFind_spec (h : Int) (L : List Int) (hpos : ∀ t ∈ L, 0 < t) :
    ∀ (idx : Nat) (s : Int), s ≤ h → h < s + L.sum →
      idx ≤ gtcFind h idx s L ∧ gtcFind h idx s L < idx + L.length ∧
      s + (L.take (gtcFind h idx s L - idx)).sum ≤ h ∧
      h < s + (L.take (gtcFind h idx s L - idx + 1)).sum := by
  induction L with
  | nil => intro idx s h1 h2; simp at h2; omega
  | cons a L ih =>
    intro idx s h1 h2
    have ha : 0 < a := hpos a (by simp)
    simp only [List.sum_cons] at h2
    unfold gtcFind
    by_cases hc : s + a - 1 ≥ h
    · simp only [hc, if_true]
      simp; omega
    · simp only [hc, if_false]
      have hpos' : ∀ t ∈ L, 0 < t := fun t ht => hpos t (by simp [ht])
      obtain ⟨i1, i2, i3, i4⟩ := ih hpos' (idx + 1) (s + a) (by omega) (by omega)
      refine ⟨by omega, by simp; omega, ?_, ?_⟩
      · have : gtcFind h (idx + 1) (s + a) L - idx = (gtcFind h (idx + 1) (s + a) L - (idx + 1)) + 1 := by omega
        rw [this, List.take_succ_cons, List.sum_cons]; omega
      · have : gtcFind h (idx + 1) (s + a) L - idx + 1 = (gtcFind h (idx + 1) (s + a) L - (idx + 1) + 1) + 1 := by omega
        rw [this, List.take_succ_cons, List.sum_cons]; omega

theorem take_sum_mono (L : List Int) (hpos : ∀ t ∈ L, 0 < t) (a b : Nat) (hab : a ≤ b) :
    (L.take a).sum ≤ (L.take b).sum := by
  induction L generalizing a b with
  | nil => simp
  | cons x L ih =>
    have hx : 0 < x := hpos x (by simp)
    have hpos' : ∀ t ∈ L, 0 < t := fun t ht => hpos t (by simp [ht])
    cases a with
    | zero =>
      cases b with
      | zero => simp
      | succ b =>
        simp only [List.take_zero, List.sum_nil, List.take_succ_cons, List.sum_cons]
        have := ih hpos' 0 b (Nat.zero_le _)
        simp at this; omega
    | succ a =>
      cases b with
      | zero => omega
      | succ b =>
        simp only [List.take_succ_cons, List.sum_cons]
        have := ih hpos' a b (by omega); omega

/-- Months elapsed inside the year after `r` hours (specification side of `hours_to_month`). -/
def G : List Int → Rat → Rat
  | [], _ => 0
  | t :: ts, r => if r ≤ (t : Rat) then r / (t : Rat) else 1 + G ts (r - (t : Rat))

@[simp] theorem sumR_nil : sumR [] = 0 := by simp [sumR]
@[simp] theorem sumR_cons (a : Int) (L : List Int) : sumR (a :: L) = (a : Rat) + sumR L := by simp [sumR]

theorem sumR_nonneg (L : List Int) (hpos : ∀ t ∈ L, 0 < t) : 0 ≤ sumR L := by
  induction L with
  | nil => simp
  | cons a L ih =>
    have ha : (0 : Rat) < (a : Rat) := by exact_mod_cast hpos a (by simp)
    have := ih (fun t ht => hpos t (by simp [ht]))
    simp; linarith

theorem sumR_pos (L : List Int) (hpos : ∀ t ∈ L, 0 < t) (hne : L ≠ []) : 0 < sumR L := by
  cases L with
  | nil => exact absurd rfl hne
  | cons a L =>
    have ha : (0 : Rat) < (a : Rat) := by exact_mod_cast hpos a (by simp)
    have := sumR_nonneg L (fun t ht => hpos t (by simp [ht]))
    simp; linarith


theorem sumR_eq_cast_sum (L : List Int) : sumR L = ((L.sum : Int) : Rat) := by
  induction L with
  | nil => simp
  | cons a L ih => simp [ih]

theorem sumR_take_succ (L : List Int) (n : Nat) (h : n < L.length) :
    sumR (L.take (n + 1)) = sumR (L.take n) + (L[n] : Rat) := by
  rw [sumR_eq_cast_sum, sumR_eq_cast_sum, take_succ_sum L n h]; push_cast; ring

theorem sumR_take_le (L : List Int) (hpos : ∀ t ∈ L, 0 < t) (n : Nat) : sumR (L.take n) ≤ sumR L := by
  have := take_sum_mono L hpos (min n L.length) L.length (Nat.min_le_right _ _)
  rw [List.take_length] at this
  have e : L.take n = L.take (min n L.length) := by
    rw [List.take_eq_take_iff]; simp
  rw [e, sumR_eq_cast_sum, sumR_eq_cast_sum]; exact_mod_cast this

/-- Loop invariant of the month search in `hours_to_month`. -/
theorem htmFind_spec (r : Rat) (L : List Int) (hpos : ∀ t ∈ L, 0 < t) :
    ∀ (idx : Nat) (s : Rat), L ≠ [] → r - s ≤ sumR L →
      idx ≤ htmFind r idx s L ∧ htmFind r idx s L - idx < L.length ∧
      ∃ t, L[htmFind r idx s L - idx]? = some t ∧
        ((htmFind r idx s L - idx : Nat) : Rat) + (r - s - sumR (L.take (htmFind r idx s L - idx))) / (t : Rat)
          = G L (r - s) := by
  induction L with
  | nil => intro idx s hne; exact absurd rfl hne
  | cons a L ih =>
    intro idx s _ hle
    have ha : (0 : Rat) < (a : Rat) := by exact_mod_cast hpos a (by simp)
    have hpos' : ∀ t ∈ L, 0 < t := fun t ht => hpos t (by simp [ht])
    unfold htmFind
    by_cases hc : s + (a : Rat) ≥ r
    · simp only [hc, if_true]
      refine ⟨le_refl _, by simp, a, by simp, ?_⟩
      have : r - s ≤ (a : Rat) := by linarith
      simp [G, this]
    · simp only [hc, if_false]
      have hgt : ¬ (r - s ≤ (a : Rat)) := by intro h; apply hc; linarith
      have hne' : L ≠ [] := by
        intro h; subst h; simp at hle; exact hgt (by linarith)
      have hle' : r - (s + (a : Rat)) ≤ sumR L := by simp at hle; linarith
      obtain ⟨i1, i2, t, ht, hv⟩ := ih hpos' (idx + 1) (s + (a : Rat)) hne' hle'
      set m := htmFind r (idx + 1) (s + (a : Rat)) L with hm
      have e : m - idx = (m - (idx + 1)) + 1 := by omega
      refine ⟨by omega, by simp; omega, t, ?_, ?_⟩
      · rw [e]; simpa using ht
      · rw [e, List.take_succ_cons, sumR_cons]
        simp only [G, hgt, if_false]
        rw [← sub_sub r s (a : Rat)] at hv
        rw [← hv]; push_cast; ring

theorem G_nonneg (L : List Int) (hpos : ∀ t ∈ L, 0 < t) : ∀ r, 0 ≤ r → 0 ≤ G L r := by
  induction L with
  | nil => intro r _; simp [G]
  | cons a L ih =>
    intro r hr
    have ha : (0 : Rat) < (a : Rat) := by exact_mod_cast hpos a (by simp)
    have hpos' : ∀ t ∈ L, 0 < t := fun t ht => hpos t (by simp [ht])
    unfold G
    split
    · positivity
    · have := ih hpos' (r - a) (by linarith); linarith

theorem G_zero (L : List Int) (hpos : ∀ t ∈ L, 0 < t) : G L 0 = 0 := by
  cases L with
  | nil => simp [G]
  | cons a L =>
    have ha : (0 : Rat) < (a : Rat) := by exact_mod_cast hpos a (by simp)
    simp [G, le_of_lt ha]

theorem G_total (L : List Int) (hpos : ∀ t ∈ L, 0 < t) : G L (sumR L) = (L.length : Rat) := by
  induction L with
  | nil => simp [G]
  | cons a L ih =>
    have ha : (0 : Rat) < (a : Rat) := by exact_mod_cast hpos a (by simp)
    have hpos' : ∀ t ∈ L, 0 < t := fun t ht => hpos t (by simp [ht])
    by_cases hL : L = []
    · subst hL; simp [G, ne_of_gt ha]
    · have hs := sumR_pos L hpos' hL
      have : ¬ ((a : Rat) + sumR L ≤ (a : Rat)) := by intro h; linarith
      simp only [G, sumR_cons, this, if_false, List.length_cons]
      rw [add_sub_cancel_left, ih hpos']; push_cast; ring

theorem G_pos (L : List Int) (hpos : ∀ t ∈ L, 0 < t) (hne : L ≠ []) : ∀ r, 0 < r → 0 < G L r := by
  cases L with
  | nil => exact absurd rfl hne
  | cons a L =>
    intro r hr
    have ha : (0 : Rat) < (a : Rat) := by exact_mod_cast hpos a (by simp)
    have hpos' : ∀ t ∈ L, 0 < t := fun t ht => hpos t (by simp [ht])
    unfold G
    split
    · positivity
    · rename_i h
      have := G_nonneg L hpos' (r - a) (by linarith); linarith

/-- The month counter is strictly increasing in the elapsed hours across the whole year. -/
theorem G_strictMono (L : List Int) (hpos : ∀ t ∈ L, 0 < t) :
    ∀ r1 r2, 0 ≤ r1 → r1 < r2 → r2 ≤ sumR L → G L r1 < G L r2 := by
  induction L with
  | nil => intro r1 r2 h0 h1 h2; simp at h2; linarith
  | cons a L ih =>
    intro r1 r2 h0 h1 h2
    have ha : (0 : Rat) < (a : Rat) := by exact_mod_cast hpos a (by simp)
    have hpos' : ∀ t ∈ L, 0 < t := fun t ht => hpos t (by simp [ht])
    simp only [sumR_cons] at h2
    unfold G
    by_cases c1 : r1 ≤ (a : Rat)
    · by_cases c2 : r2 ≤ (a : Rat)
      · simp only [c1, c2, if_true]
        exact div_lt_div_of_pos_right h1 ha
      · simp only [c1, c2, if_true, if_false]
        have hne : L ≠ [] := by
          intro h; subst h; simp at h2; exact c2 h2
        have := G_pos L hpos' hne (r2 - a) (by linarith)
        have : r1 / (a : Rat) ≤ 1 := by rw [div_le_one ha]; exact c1
        linarith
    · have c2 : ¬ r2 ≤ (a : Rat) := by intro h; apply c1; linarith
      simp only [c1, c2, if_false]
      have := ih hpos' (r1 - a) (r2 - a) (by linarith) (by linarith) (by linarith)
      linarith

theorem G_lt_length (L : List Int) (hpos : ∀ t ∈ L, 0 < t) (r : Rat) (h0 : 0 ≤ r) (h1 : r < sumR L) :
    G L r < (L.length : Rat) := by
  rw [← G_total L hpos]; exact G_strictMono L hpos r (sumR L) h0 h1 (le_refl _)

/-- Closed form on each month: `x` hours into month `m` (both ends included). -/
theorem G_prefix (L : List Int) (hpos : ∀ t ∈ L, 0 < t) :
    ∀ (m : Nat) (hm : m < L.length) (x : Rat), 0 ≤ x → x ≤ (L[m] : Rat) →
      G L (sumR (L.take m) + x) = (m : Rat) + x / (L[m] : Rat) := by
  induction L with
  | nil => intro m hm; simp at hm
  | cons a L ih =>
    intro m hm x hx0 hx1
    have ha : (0 : Rat) < (a : Rat) := by exact_mod_cast hpos a (by simp)
    have hpos' : ∀ t ∈ L, 0 < t := fun t ht => hpos t (by simp [ht])
    cases m with
    | zero =>
      simp only [List.take_zero, sumR_nil, zero_add, List.getElem_cons_zero] at hx1 ⊢
      simp [G, hx1]
    | succ k =>
      have hm' : k < L.length := by simpa using hm
      simp only [List.take_succ_cons, sumR_cons, List.getElem_cons_succ] at hx1 ⊢
      have hs := sumR_nonneg (L.take k) (fun t ht => hpos' t (List.mem_of_mem_take ht))
      unfold G
      by_cases c : (a : Rat) + sumR (L.take k) + x ≤ (a : Rat)
      · -- only possible when k = 0 and x = 0: the breakpoint itself
        have hx : x = 0 := by linarith
        have hs0 : sumR (L.take k) = 0 := by linarith
        have hk : k = 0 := by
          by_contra hk
          have : L.take k ≠ [] := by
            intro h
            have h1 : (L.take k).length = 0 := by rw [h]; rfl
            rw [List.length_take] at h1
            omega
          have := sumR_pos (L.take k) (fun t ht => hpos' t (List.mem_of_mem_take ht)) this
          linarith
        subst hx; subst hk
        simp [ne_of_gt ha]
      · simp only [c, if_false]
        have := ih hpos' k hm' x hx0 hx1
        rw [show (a : Rat) + sumR (L.take k) + x - (a : Rat) = sumR (L.take k) + x by ring, this]
        push_cast; ring

theorem floor_bounds (q : Rat) : ((Rat.floor q : Int) : Rat) ≤ q ∧ q < ((Rat.floor q : Int) : Rat) + 1 := by
  have h1 := Int.floor_le q
  have h2 := Int.lt_floor_add_one q
  exact ⟨h1, h2⟩

/-- `hours_to_month` in closed form: whole years times the table length plus the month
    counter of the remainder. -/
theorem hoursToMonthT_eq (T : List Int) (hpos : ∀ t ∈ T, 0 < t) (hne : T ≠ []) (h : Rat) :
    hoursToMonthT T h =
      .ok (((Rat.floor (h / sumR T) : Int) : Rat) * (T.length : Rat)
            + G T (h - ((Rat.floor (h / sumR T) : Int) : Rat) * sumR T)) := by
  have hS := sumR_pos T hpos hne
  obtain ⟨f1, f2⟩ := floor_bounds (h / sumR T)
  set y : Int := Rat.floor (h / sumR T) with hy
  have hr0 : 0 ≤ h - (y : Rat) * sumR T := by
    have := (le_div_iff₀ hS).mp f1; linarith
  have hr1 : h - (y : Rat) * sumR T < sumR T := by
    have := (div_lt_iff₀ hS).mp f2; linarith
  obtain ⟨_, i2, t, ht, hv⟩ := htmFind_spec (h - (y : Rat) * sumR T) T hpos 0 0 hne (by linarith)
  simp only [Nat.sub_zero, sub_zero] at i2 ht hv
  have htpos : 0 < t := hpos t (List.mem_of_getElem? ht)
  unfold hoursToMonthT
  simp only [ne_of_gt hS, if_false, ← hy, ht, ne_of_gt htpos]
  rw [← hv]; ring_nf

/-- The value `hours_to_month` returns (closed form of `hoursToMonthT_eq`). -/
def F (T : List Int) (h : Rat) : Rat :=
  ((Rat.floor (h / sumR T) : Int) : Rat) * (T.length : Rat)
    + G T (h - ((Rat.floor (h / sumR T) : Int) : Rat) * sumR T)

theorem floor_year (S : Rat) (hS : 0 < S) (y : Int) (r : Rat) (h0 : 0 ≤ r) (h1 : r < S) :
    Rat.floor (((y : Rat) * S + r) / S) = y := by
  have : (Rat.floor (((y : Rat) * S + r) / S) : Int) = ⌊((y : Rat) * S + r) / S⌋ := rfl
  rw [this, Int.floor_eq_iff]
  constructor
  · rw [le_div_iff₀ hS]; linarith
  · rw [div_lt_iff₀ hS]; linarith

/-- `y` whole years plus `r` hours (0 ≤ r ≤ one year) gives `y·len + G r`: the year-end value
    from the left agrees with the year-start value from the right. -/
theorem F_year_shift (T : List Int) (hpos : ∀ t ∈ T, 0 < t) (hne : T ≠ []) (y : Int) (r : Rat)
    (h0 : 0 ≤ r) (h1 : r ≤ sumR T) :
    F T ((y : Rat) * sumR T + r) = (y : Rat) * (T.length : Rat) + G T r := by
  have hS := sumR_pos T hpos hne
  rcases lt_or_eq_of_le h1 with hlt | heq
  · unfold F
    rw [floor_year (sumR T) hS y r h0 hlt]
    congr 1; congr 1; ring
  · subst heq
    have e : (y : Rat) * sumR T + sumR T = ((y + 1 : Int) : Rat) * sumR T + 0 := by push_cast; ring
    unfold F
    rw [e, floor_year (sumR T) hS (y + 1) 0 (le_refl _) hS, G_total T hpos]
    have : ((y + 1 : Int) : Rat) * sumR T + 0 - ((y + 1 : Int) : Rat) * sumR T = 0 := by ring
    rw [this, G_zero T hpos]; push_cast; ring

theorem F_strictMono (T : List Int) (hpos : ∀ t ∈ T, 0 < t) (hne : T ≠ []) (h1 h2 : Rat) (hlt : h1 < h2) :
    F T h1 < F T h2 := by
  have hS := sumR_pos T hpos hne
  obtain ⟨a1, a2⟩ := floor_bounds (h1 / sumR T)
  obtain ⟨b1, b2⟩ := floor_bounds (h2 / sumR T)
  set y1 : Int := Rat.floor (h1 / sumR T) with hy1
  set y2 : Int := Rat.floor (h2 / sumR T) with hy2
  have r10 : 0 ≤ h1 - (y1 : Rat) * sumR T := by have := (le_div_iff₀ hS).mp a1; linarith
  have r11 : h1 - (y1 : Rat) * sumR T < sumR T := by have := (div_lt_iff₀ hS).mp a2; linarith
  have r20 : 0 ≤ h2 - (y2 : Rat) * sumR T := by have := (le_div_iff₀ hS).mp b1; linarith
  have r21 : h2 - (y2 : Rat) * sumR T < sumR T := by have := (div_lt_iff₀ hS).mp b2; linarith
  have hle : y1 ≤ y2 := by
    have : (Rat.floor (h1 / sumR T) : Int) = ⌊h1 / sumR T⌋ := rfl
    have : (Rat.floor (h2 / sumR T) : Int) = ⌊h2 / sumR T⌋ := rfl
    show ⌊h1 / sumR T⌋ ≤ ⌊h2 / sumR T⌋
    exact Int.floor_le_floor (by rw [div_le_div_iff_of_pos_right hS]; exact le_of_lt hlt)
  have hlen : (0 : Rat) < (T.length : Rat) := by
    have : 0 < T.length := List.length_pos_of_ne_nil hne
    exact_mod_cast this
  unfold F
  rw [← hy1, ← hy2]
  rcases lt_or_eq_of_le hle with hlt' | heq
  · have g1 := G_lt_length T hpos _ r10 r11
    have g2 := G_nonneg T hpos _ r20
    have : (y1 : Rat) + 1 ≤ (y2 : Rat) := by exact_mod_cast hlt'
    nlinarith
  · rw [← heq] at r21 ⊢
    have := G_strictMono T hpos _ _ r10 (by linarith : h1 - (y1 : Rat) * sumR T < h2 - (y1 : Rat) * sumR T)
      (le_of_lt r21)
    linarith


end GHEVerif.TimeConv
