/- Pulse lemmas for C07: which entries a retained month emits and where, the two-day window. -/
import GHEVerif.Lemmas.HybridAxis

namespace GHEVerif.Hybrid
open GHEVerif

/-- `(load, from, to)` for every entry of a sequence starting at `h0`. -/
def triples : Rat → List (Rat × Rat) → List (Rat × Rat × Rat)
  | _, [] => []
  | h0, (q, h) :: t => (q, h0, h) :: triples h t

theorem pulses_of_month (y : Int) (r : MonthRec) (i : Int) (rate : Rat)
    (hc : 0 < r.pcl → 0 ≤ r.dcl ∧ r.dcl ≤ 2 * noonOf (1 + lmh y (i - 1)) r.dayc)
    (hh : 0 < r.phl → 0 ≤ r.dhl ∧ r.dhl ≤ 2 * noonOf (1 + lmh y (i - 1)) r.dayh) :
    let segs := monthSegments r true rate
      (peakHours (1 + lmh y (i - 1)) r.dayc r.dcl).1 (peakHours (1 + lmh y (i - 1)) r.dayc r.dcl).2
      (peakHours (1 + lmh y (i - 1)) r.dayh r.dhl).1 (peakHours (1 + lmh y (i - 1)) r.dayh r.dhl).2
      ((lmh y i : Int) : Rat)
    let T := triples ((lmh y (i - 1) : Int) : Rat) segs
    (0 < r.pcl → (r.pcl, (coolWindow (1 + lmh y (i - 1)) r).1, (coolWindow (1 + lmh y (i - 1)) r).2) ∈ T) ∧
    (0 < r.phl → (-r.phl, (heatWindow (1 + lmh y (i - 1)) r).1, (heatWindow (1 + lmh y (i - 1)) r).2) ∈ T) ∧
    (∀ t ∈ T, t.1 = rate ∨ (0 < r.pcl ∧ t.1 = r.pcl) ∨ (0 < r.phl ∧ t.1 = -r.phl)) := by
  intro segs T
  have pc : 0 < r.pcl → peakHours (1 + lmh y (i - 1)) r.dayc r.dcl =
      (noonOf (1 + lmh y (i - 1)) r.dayc - r.dcl / 2, noonOf (1 + lmh y (i - 1)) r.dayc + r.dcl / 2) := by
    intro h; obtain ⟨a, b⟩ := hc h
    exact peakHours_centered _ _ _ a (by linarith)
  have ph : 0 < r.phl → peakHours (1 + lmh y (i - 1)) r.dayh r.dhl =
      (noonOf (1 + lmh y (i - 1)) r.dayh - r.dhl / 2, noonOf (1 + lmh y (i - 1)) r.dayh + r.dhl / 2) := by
    intro h; obtain ⟨a, b⟩ := hh h
    exact peakHours_centered _ _ _ a (by linarith)
  simp only [T, segs]
  unfold monthSegments
  rcases lt_trichotomy r.dayc r.dayh with d | d | d
  · have hne : r.dayc ≠ r.dayh := by omega
    simp only [coolWindow, heatWindow, hne, if_false]
    by_cases c : 0 < r.pcl <;> by_cases h : 0 < r.phl
    · rw [pc c, ph h]
      simp [d, c, h, triples]
    · rw [pc c]
      simp [d, c, h, triples]
    · rw [ph h]
      simp [d, c, h, triples]
    · simp [d, c, h, triples]
  · simp only [coolWindow, heatWindow, d, if_true]
    rw [d] at pc
    generalize noonOf (1 + lmh y (i - 1)) r.dayh = N at *
    have e1 : N - r.dcl / 2 - r.dcl / 2 = N - r.dcl := by ring
    have e3 : N + r.dhl / 2 + r.dhl / 2 = N + r.dhl := by ring
    by_cases c : 0 < r.pcl <;> by_cases h : 0 < r.phl
    · rw [pc c, ph h]
      simp [c, h, triples, e1, e3]
    · rw [pc c]
      simp [c, h, triples, e1]
    · rw [ph h]
      simp [c, h, triples, e3]
    · simp [c, h, triples]
  · have hne : r.dayc ≠ r.dayh := by omega
    have nd : ¬ (r.dayc < r.dayh) := by omega
    simp only [coolWindow, heatWindow, hne, if_false]
    by_cases c : 0 < r.pcl <;> by_cases h : 0 < r.phl
    · rw [pc c, ph h]
      simp [d, nd, c, h, triples]
    · rw [pc c]
      simp [d, nd, c, h, triples]
    · rw [ph h]
      simp [d, nd, c, h, triples]
    · simp [d, nd, c, h, triples]


/-- The list `process_two_day_loads` slices: the last 24 hours of the year, then the year. -/
theorem withLastDay_eq (l : List Rat) : withLastDay l = l.drop (l.length - 24) ++ l := rfl

/-- The two-day window of a peak on 0-based day `day` of a month preceded by `hb` hours
    (`hb` a whole number of days): hours `[hb + 24(day−1), hb + 24(day+1))` of the year, i.e. the day
    before and the peak day; for a peak on 1 January (`hb = 0`, `day = 0`) the day before is
    31 December of the same profile. -/
theorem twoDayWindow_spec (l : List Rat) (hl : 24 ≤ l.length) (hb day : Nat) :
    (24 ≤ hb + 24 * day → twoDayWindow (withLastDay l) (24 + (hb : Int)) (day : Int) = pySlice l (hb + 24 * day - 24) 48) ∧
    (twoDayWindow (withLastDay l) 24 0 = l.drop (l.length - 24) ++ l.take 24) := by
  have e24 : Gen.HRS_IN_DAY = 24 := rfl
  have e2 : Gen.twoDayFactor = 2 := rfl
  have hA : (l.drop (l.length - 24)).length = 24 := by simp; omega
  constructor
  · intro h
    unfold twoDayWindow pySlice
    rw [withLastDay_eq, e24, e2]
    have hs : (24 + (hb : Int) + ((day : Int) - 1) * 24).toNat = 24 + (hb + 24 * day - 24) := by omega
    simp only [hs, show ((2 : Int) * 24).toNat = 48 from rfl]
    rw [List.drop_append, hA]
    have : (l.drop (l.length - 24)).drop (24 + (hb + 24 * day - 24)) = [] := by
      apply List.drop_eq_nil_of_le; rw [hA]; omega
    rw [this]
    simp
  · unfold twoDayWindow pySlice
    rw [withLastDay_eq, e24, e2]
    simp only [show (24 + ((0 : Int) - 1) * 24).toNat = 0 from rfl, show ((2 : Int) * 24).toNat = 48 from rfl, List.drop_zero]
    rw [List.take_append, hA]
    simp
    omega

end GHEVerif.Hybrid
