/- Helper lemmas for C03: the coordinate generators of coordinates.py (exact instance `R = id`). -/
import GHEVerif.Model.Coords
import Mathlib.Tactic.Linarith
import Mathlib.Tactic.Ring
import Mathlib.Tactic.FieldSimp
import Mathlib.Tactic.Positivity
import Mathlib.Algebra.Order.Floor.Ring
import Mathlib.Data.Rat.Floor
import Mathlib.Algebra.Order.Field.Power
import Mathlib.Tactic.NormNum

namespace GHEVerif.Coords

/-- Every borehole of the field lies in the rectangle `[0, Lx] × [0, Ly]`. -/
def InLand (Lx Ly : Rat) (f : Field) : Prop :=
  ∀ p ∈ f, 0 ≤ p.1 ∧ p.1 ≤ Lx ∧ 0 ≤ p.2 ∧ p.2 ≤ Ly

/-- Two boreholes are `d`-separated when they differ by at least `d` in one coordinate
    (hence their distance is at least `d`). -/
def SepP (d : Rat) (p q : Point) : Prop := d ≤ |p.1 - q.1| ∨ d ≤ |p.2 - q.2|

/-- Boreholes at different positions of the list are `d`-separated.  For `d > 0` this contains
    "no coincident boreholes" (`Sep.nodup`) and "distance ≥ d" (`SepP.dist_sq`). -/
def Sep (d : Rat) (f : Field) : Prop := f.Pairwise (SepP d)

theorem SepP.symm {d : Rat} {p q : Point} (h : SepP d p q) : SepP d q p := by
  unfold SepP at *
  rcases h with h | h
  · left; rwa [abs_sub_comm]
  · right; rwa [abs_sub_comm]

theorem SepP.dist_sq {d : Rat} {p q : Point} (hd : 0 ≤ d) (h : SepP d p q) :
    d ^ 2 ≤ (p.1 - q.1) ^ 2 + (p.2 - q.2) ^ 2 := by
  rcases h with h | h
  · have := sq_le_sq' (by linarith [abs_nonneg (p.1 - q.1)]) h
    rw [sq_abs] at this; nlinarith [sq_nonneg (p.2 - q.2)]
  · have := sq_le_sq' (by linarith [abs_nonneg (p.2 - q.2)]) h
    rw [sq_abs] at this; nlinarith [sq_nonneg (p.1 - q.1)]

theorem SepP.ne {d : Rat} {p q : Point} (hd : 0 < d) (h : SepP d p q) : p ≠ q := by
  rintro rfl
  rcases h with h | h <;> simp at h <;> linarith

theorem Sep.nodup {d : Rat} {f : Field} (hd : 0 < d) (h : Sep d f) : f.Nodup :=
  List.Pairwise.imp (fun hpq => SepP.ne hd hpq) h

theorem SepP.mono {d d' : Rat} {p q : Point} (hdd : d ≤ d') (h : SepP d' p q) : SepP d p q := by
  rcases h with h | h
  · exact Or.inl (le_trans hdd h)
  · exact Or.inr (le_trans hdd h)

theorem Sep.mono {d d' : Rat} {f : Field} (hdd : d ≤ d') (h : Sep d' f) : Sep d f :=
  List.Pairwise.imp (fun hpq => SepP.mono hdd hpq) h

/-- the Euclidean form of the spacing statement -/
theorem Sep.spaced {d : Rat} {f : Field} (hd : 0 < d) (h : Sep d f) :
    f.Nodup ∧ f.Pairwise (fun p q => d ^ 2 ≤ (p.1 - q.1) ^ 2 + (p.2 - q.2) ^ 2) :=
  ⟨h.nodup hd, List.Pairwise.imp (fun hpq => SepP.dist_sq (le_of_lt hd) hpq) h⟩

/-! ### transpose -/

theorem inLand_transpose {Lx Ly : Rat} {f : Field} (h : InLand Lx Ly f) : InLand Ly Lx (transpose f) := by
  intro p hp
  simp only [transpose, List.mem_map] at hp
  obtain ⟨q, hq, rfl⟩ := hp
  obtain ⟨a, b, c, d⟩ := h q hq
  exact ⟨c, d, a, b⟩

theorem sep_transpose {d : Rat} {f : Field} (h : Sep d f) : Sep d (transpose f) := by
  unfold Sep transpose
  rw [List.pairwise_map]
  exact List.Pairwise.imp (fun hpq => by
    rcases hpq with h | h
    · exact Or.inr h
    · exact Or.inl h) h

@[simp] theorem length_transpose (f : Field) : (transpose f).length = f.length := by simp [transpose]

/-! ### rectangle -/

theorem mem_rectangleO {nx ny : Int} {sx sy x0 y0 : Rat} {p : Point} :
    p ∈ rectangleO id nx ny sx sy x0 y0 ↔
      ∃ i < nx.toNat, ∃ j < ny.toNat, p = (x0 + (i : Rat) * sx, y0 + (j : Rat) * sy) := by
  simp only [rectangleO, id_eq, List.mem_flatMap, List.mem_map, List.mem_range]
  constructor
  · rintro ⟨x, ⟨i, hi, rfl⟩, y, ⟨j, hj, rfl⟩, rfl⟩
    exact ⟨i, hi, j, hj, rfl⟩
  · rintro ⟨i, hi, j, hj, rfl⟩
    exact ⟨_, ⟨i, hi, rfl⟩, _, ⟨j, hj, rfl⟩, rfl⟩

/-- The membership lemma of DESIGN.md: the points of `rectangle(nx, ny, sx, sy)` are exactly
    `(i·sx, j·sy)`, `i < nx`, `j < ny`. -/
theorem mem_rectangle {nx ny : Int} {sx sy : Rat} {p : Point} :
    p ∈ rectangle id nx ny sx sy ↔
      ∃ i < nx.toNat, ∃ j < ny.toNat, p = ((i : Rat) * sx, (j : Rat) * sy) := by
  simp [rectangle, mem_rectangleO]

theorem flatMap_const_length {α β : Type} (l : List α) (g : α → List β) (k : Nat)
    (h : ∀ a, (g a).length = k) : (l.flatMap g).length = l.length * k := by
  induction l with
  | nil => simp
  | cons a l ih => simp [List.flatMap_cons, ih, h, Nat.succ_mul, Nat.add_comm]

@[simp] theorem length_rectangleO (R : Rat → Rat) (nx ny : Int) (sx sy x0 y0 : Rat) :
    (rectangleO R nx ny sx sy x0 y0).length = nx.toNat * ny.toNat := by
  unfold rectangleO
  rw [flatMap_const_length _ _ ny.toNat (by intro a; simp)]
  simp

@[simp] theorem length_rectangle (R : Rat → Rat) (nx ny : Int) (sx sy : Rat) :
    (rectangle R nx ny sx sy).length = nx.toNat * ny.toNat := by
  simp [rectangle]

theorem abs_natmul_sub {i j : Nat} (h : i < j) {s d : Rat} (hd : d ≤ s) (hs : 0 ≤ s) (c : Rat) :
    d ≤ |(c + (i : Rat) * s) - (c + (j : Rat) * s)| := by
  have h1 : ((i : Rat) + 1) ≤ (j : Rat) := by exact_mod_cast h
  have : (c + (i : Rat) * s) - (c + (j : Rat) * s) = -(((j : Rat) - (i : Rat)) * s) := by ring
  rw [this, abs_neg, abs_of_nonneg (by nlinarith)]
  nlinarith

theorem sep_rectangleO {nx ny : Int} {sx sy x0 y0 d : Rat} (hd : 0 ≤ d) (hx : d ≤ sx) (hy : d ≤ sy) :
    Sep d (rectangleO id nx ny sx sy x0 y0) := by
  unfold Sep rectangleO
  simp only [id_eq]
  rw [List.pairwise_flatMap]
  constructor
  · intro x _
    rw [List.pairwise_map, List.pairwise_map]
    refine List.Pairwise.imp ?_ List.pairwise_lt_range
    intro i j hij
    exact Or.inr (abs_natmul_sub hij hy (by linarith) y0)
  · rw [List.pairwise_map]
    refine List.Pairwise.imp ?_ List.pairwise_lt_range
    intro i j hij p hp q hq
    simp only [List.mem_map] at hp hq
    obtain ⟨_, _, rfl⟩ := hp
    obtain ⟨_, _, rfl⟩ := hq
    exact Or.inl (abs_natmul_sub hij hx (by linarith) x0)

theorem sep_rectangle {nx ny : Int} {sx sy d : Rat} (hd : 0 ≤ d) (hx : d ≤ sx) (hy : d ≤ sy) :
    Sep d (rectangle id nx ny sx sy) := sep_rectangleO hd hx hy

/-- A grid with `(nx-1)·sx ≤ Lx` and `(ny-1)·sy ≤ Ly` (or with no rows at all) is on the land. -/
theorem inLand_rectangle {nx ny : Int} {sx sy Lx Ly : Rat} (hsx : 0 ≤ sx) (hsy : 0 ≤ sy)
    (hx : ((nx.toNat : Rat) - 1) * sx ≤ Lx) (hy : ((ny.toNat : Rat) - 1) * sy ≤ Ly) :
    InLand Lx Ly (rectangle id nx ny sx sy) := by
  intro p hp
  rw [mem_rectangle] at hp
  obtain ⟨i, hi, j, hj, rfl⟩ := hp
  have hi' : (i : Rat) + 1 ≤ (nx.toNat : Rat) := by exact_mod_cast hi
  have hj' : (j : Rat) + 1 ≤ (ny.toNat : Rat) := by exact_mod_cast hj
  have i0 : (0 : Rat) ≤ (i : Rat) := Nat.cast_nonneg i
  have j0 : (0 : Rat) ≤ (j : Rat) := Nat.cast_nonneg j
  refine ⟨by positivity, ?_, by positivity, ?_⟩
  · show (i : Rat) * sx ≤ Lx; nlinarith
  · show (j : Rat) * sy ≤ Ly; nlinarith

/-! ### perimeter shapes as lists of grid indices -/

/-- grid point `(i·sx, j·sy)` -/
def emb (sx sy : Rat) (ij : Nat × Nat) : Point := ((ij.1 : Rat) * sx, (ij.2 : Rat) * sy)

theorem abs_natmul_ne {i j : Nat} (h : i ≠ j) {s d : Rat} (hd : d ≤ s) (hs : 0 ≤ s) :
    d ≤ |(i : Rat) * s - (j : Rat) * s| := by
  rcases Nat.lt_or_gt_of_ne h with h | h
  · simpa using abs_natmul_sub h hd hs 0
  · rw [abs_sub_comm]; simpa using abs_natmul_sub h hd hs 0

/-- A duplicate-free list of grid indices within bounds gives a field on the land whose
    boreholes are separated by the smaller grid spacing. -/
theorem grid_good {idx : List (Nat × Nat)} {sx sy d W H : Rat} (hd : 0 ≤ d) (hx : d ≤ sx) (hy : d ≤ sy)
    (hn : idx.Nodup) (hb : ∀ ij ∈ idx, (ij.1 : Rat) * sx ≤ W ∧ (ij.2 : Rat) * sy ≤ H) :
    InLand W H (idx.map (emb sx sy)) ∧ Sep d (idx.map (emb sx sy)) := by
  have hsx : 0 ≤ sx := le_trans hd hx
  have hsy : 0 ≤ sy := le_trans hd hy
  constructor
  · intro p hp
    rw [List.mem_map] at hp
    obtain ⟨ij, hij, rfl⟩ := hp
    obtain ⟨h1, h2⟩ := hb ij hij
    exact ⟨mul_nonneg (Nat.cast_nonneg _) hsx, h1, mul_nonneg (Nat.cast_nonneg _) hsy, h2⟩
  · unfold Sep
    rw [List.pairwise_map]
    refine List.Pairwise.imp ?_ hn
    intro a b hab
    by_cases h1 : a.1 = b.1
    · have h2 : a.2 ≠ b.2 := by
        intro h2; exact hab (Prod.ext h1 h2)
      exact Or.inr (abs_natmul_ne h2 hy hsy)
    · exact Or.inl (abs_natmul_ne h1 hx hsx)

theorem mem_rangeFrom {lo hi : Int} {k : Nat} : k ∈ rangeFrom lo hi ↔ lo ≤ (k : Int) ∧ (k : Int) < hi := by
  simp only [rangeFrom, List.mem_filter, List.mem_range, decide_eq_true_eq]
  omega

theorem nodup_rangeFrom (lo hi : Int) : (rangeFrom lo hi).Nodup :=
  List.Nodup.filter _ List.nodup_range

def idxL (nx ny : Int) : List (Nat × Nat) :=
  (List.range nx.toNat).map (fun i => (i, 0)) ++ (rangeFrom 1 ny).map (fun j => (0, j))

theorem lShape_eq (nx ny : Int) (sx sy : Rat) : lShape id nx ny sx sy = (idxL nx ny).map (emb sx sy) := by
  simp [lShape, idxL, emb, Function.comp_def]

theorem nodup_idxL (nx ny : Int) : (idxL nx ny).Nodup := by
  unfold idxL
  rw [List.nodup_append]
  refine ⟨?_, ?_, ?_⟩
  · exact List.Nodup.map (fun a b h => by simpa using h) List.nodup_range
  · exact List.Nodup.map (fun a b h => by simpa using h) (nodup_rangeFrom _ _)
  · intro a ha b hb
    simp only [List.mem_map, List.mem_range, mem_rangeFrom] at ha hb
    obtain ⟨i, _, rfl⟩ := ha
    obtain ⟨j, hj, rfl⟩ := hb
    intro h
    simp only [Prod.mk.injEq] at h
    omega


theorem cast_pred {n : Int} (h : 1 ≤ n) : ((n - 1 : Int) : Rat) = ((n.toNat - 1 : Nat) : Rat) := by
  have : ((n.toNat - 1 : Nat) : Int) = n - 1 := by omega
  rw [← this]; simp

/-! #### lop_u -/
def idxU (nx ny1 ny2 : Int) : List (Nat × Nat) :=
  (List.range nx.toNat).map (fun i => (i, 0)) ++ (rangeFrom 1 ny1).map (fun j => (0, j))
    ++ (rangeFrom 1 ny2).map (fun j => (nx.toNat - 1, j))

theorem lopU_eq {nx : Int} (hnx : 1 ≤ nx) (ny1 ny2 : Int) (sx sy : Rat) :
    lopU id nx ny1 sx sy ny2 = (idxU nx ny1 ny2).map (emb sx sy) := by
  simp [lopU, idxU, emb, Function.comp_def, cast_pred hnx]

theorem nodup_idxU {nx : Int} (hnx : 2 ≤ nx) (ny1 ny2 : Int) : (idxU nx ny1 ny2).Nodup := by
  unfold idxU
  rw [List.nodup_append, List.nodup_append]
  refine ⟨⟨?_, ?_, ?_⟩, ?_, ?_⟩
  · exact List.Nodup.map (fun a b h => by simpa using h) List.nodup_range
  · exact List.Nodup.map (fun a b h => by simpa using h) (nodup_rangeFrom _ _)
  · intro a ha b hb
    simp only [List.mem_map, List.mem_range, mem_rangeFrom] at ha hb
    obtain ⟨i, _, rfl⟩ := ha
    obtain ⟨j, hj, rfl⟩ := hb
    intro h
    simp only [Prod.mk.injEq] at h
    omega
  · exact List.Nodup.map (fun a b h => by simpa using h) (nodup_rangeFrom _ _)
  · intro a ha b hb
    simp only [List.mem_append, List.mem_map, List.mem_range, mem_rangeFrom] at ha hb
    obtain ⟨j, hj, rfl⟩ := hb
    intro h
    rcases ha with ⟨i, _, rfl⟩ | ⟨i, hi, rfl⟩ <;> simp only [Prod.mk.injEq] at h <;> omega

theorem bound_idxU {nx ny1 ny2 : Int} (h12 : ny2 ≤ ny1) :
    ∀ ij ∈ idxU nx ny1 ny2, ij.1 ≤ nx.toNat - 1 ∧ ij.2 ≤ ny1.toNat - 1 := by
  intro ij h
  simp only [idxU, List.mem_append, List.mem_map, List.mem_range, mem_rangeFrom] at h
  rcases h with (⟨i, hi, rfl⟩ | ⟨j, hj, rfl⟩) | ⟨j, hj, rfl⟩ <;> simp only <;> omega

/-! #### l_shape bounds -/
theorem bound_idxL {nx ny : Int} : ∀ ij ∈ idxL nx ny, ij.1 ≤ nx.toNat - 1 ∧ ij.2 ≤ ny.toNat - 1 := by
  intro ij h
  simp only [idxL, List.mem_append, List.mem_map, List.mem_range, mem_rangeFrom] at h
  rcases h with ⟨i, hi, rfl⟩ | ⟨j, hj, rfl⟩ <;> simp only <;> omega

/-! #### c_shape -/
def idxC (nx1 ny nx2 : Int) : List (Nat × Nat) :=
  (List.range nx1.toNat).map (fun i => (i, 0)) ++ (rangeFrom 1 ny).map (fun j => (0, j))
    ++ (rangeFrom 1 ny).map (fun j => (nx1.toNat - 1, j))
    ++ (rangeFrom 1 (nx2 + 1)).map (fun i => (i, ny.toNat - 1))

theorem cShape_eq {nx1 ny : Int} (hnx : 1 ≤ nx1) (hny : 1 ≤ ny) (nx2 : Int) (sx sy : Rat) :
    cShape id nx1 ny sx sy nx2 = (idxC nx1 ny nx2).map (emb sx sy) := by
  simp [cShape, idxC, emb, Function.comp_def, cast_pred hnx, cast_pred hny]

theorem nodup_idxC {nx1 ny nx2 : Int} (hnx : 2 ≤ nx1) (hny : 2 ≤ ny) (h2 : nx2 ≤ nx1 - 2) : (idxC nx1 ny nx2).Nodup := by
  unfold idxC
  rw [List.nodup_append, List.nodup_append, List.nodup_append]
  refine ⟨⟨⟨?_, ?_, ?_⟩, ?_, ?_⟩, ?_, ?_⟩
  · exact List.Nodup.map (fun a b h => by simpa using h) List.nodup_range
  · exact List.Nodup.map (fun a b h => by simpa using h) (nodup_rangeFrom _ _)
  · intro a ha b hb
    simp only [List.mem_map, List.mem_range, mem_rangeFrom] at ha hb
    obtain ⟨i, _, rfl⟩ := ha
    obtain ⟨j, hj, rfl⟩ := hb
    intro h
    simp only [Prod.mk.injEq] at h
    omega
  · exact List.Nodup.map (fun a b h => by simpa using h) (nodup_rangeFrom _ _)
  · intro a ha b hb
    simp only [List.mem_append, List.mem_map, List.mem_range, mem_rangeFrom] at ha hb
    obtain ⟨j, hj, rfl⟩ := hb
    intro h
    rcases ha with ⟨i, _, rfl⟩ | ⟨i, hi, rfl⟩ <;> simp only [Prod.mk.injEq] at h <;> omega
  · exact List.Nodup.map (fun a b h => by simp only [Prod.mk.injEq] at h; exact h.1) (nodup_rangeFrom _ _)
  · intro a ha b hb
    simp only [List.mem_append, List.mem_map, List.mem_range, mem_rangeFrom] at ha hb
    obtain ⟨j, hj, rfl⟩ := hb
    intro h
    rcases ha with (⟨i, _, rfl⟩ | ⟨i, hi, rfl⟩) | ⟨i, hi, rfl⟩ <;> simp only [Prod.mk.injEq] at h <;> omega

theorem bound_idxC {nx1 ny nx2 : Int} (h2 : nx2 ≤ nx1 - 2) :
    ∀ ij ∈ idxC nx1 ny nx2, ij.1 ≤ nx1.toNat - 1 ∧ ij.2 ≤ ny.toNat - 1 := by
  intro ij h
  simp only [idxC, List.mem_append, List.mem_map, List.mem_range, mem_rangeFrom] at h
  rcases h with ((⟨i, hi, rfl⟩ | ⟨j, hj, rfl⟩) | ⟨j, hj, rfl⟩) | ⟨i, hi, rfl⟩ <;> simp only <;> omega

/-! #### open_rectangle -/
def idxO (nx ny : Int) : List (Nat × Nat) :=
  (List.range nx.toNat).map (fun i => (i, 0))
    ++ (rangeFrom 1 (ny - 1)).flatMap (fun j => [(0, j), (nx.toNat - 1, j)])
    ++ (List.range nx.toNat).map (fun i => (i, ny.toNat - 1))

theorem openRectangle_eq {nx ny : Int} (hnx : 2 < nx) (hny : 2 < ny) (sx sy : Rat) :
    openRectangle id nx ny sx sy = (idxO nx ny).map (emb sx sy) := by
  unfold openRectangle
  rw [if_pos ⟨hnx, hny⟩]
  simp [idxO, emb, Function.comp_def, cast_pred (show 1 ≤ nx by omega), cast_pred (show 1 ≤ ny by omega),
    List.map_flatMap]

theorem nodup_idxO {nx ny : Int} (hnx : 2 < nx) (hny : 2 < ny) : (idxO nx ny).Nodup := by
  unfold idxO
  rw [List.nodup_append, List.nodup_append]
  refine ⟨⟨?_, ?_, ?_⟩, ?_, ?_⟩
  · exact List.Nodup.map (fun a b h => by simpa using h) List.nodup_range
  · rw [List.nodup_flatMap]
    constructor
    · intro j _
      simp only [List.nodup_cons, List.mem_singleton, Prod.mk.injEq, List.not_mem_nil, not_false_eq_true,
        List.nodup_nil, and_true]
      omega
    · refine List.Pairwise.imp_of_mem ?_ (nodup_rangeFrom _ _)
      intro a b _ _ hab
      simp only [Function.onFun, List.disjoint_cons_left, List.mem_cons, Prod.mk.injEq, List.not_mem_nil,
        or_false, List.disjoint_nil_left, and_true]
      omega
  · intro a ha b hb
    simp only [List.mem_map, List.mem_range, List.mem_flatMap, mem_rangeFrom, List.mem_cons, List.not_mem_nil,
      or_false] at ha hb
    obtain ⟨i, _, rfl⟩ := ha
    obtain ⟨j, hj, rfl | rfl⟩ := hb <;> (intro h; simp only [Prod.mk.injEq] at h; omega)
  · exact List.Nodup.map (fun a b h => by simp only [Prod.mk.injEq] at h; exact h.1) List.nodup_range
  · intro a ha b hb
    simp only [List.mem_append, List.mem_map, List.mem_range, List.mem_flatMap, mem_rangeFrom, List.mem_cons,
      List.not_mem_nil, or_false] at ha hb
    obtain ⟨j, hj, rfl⟩ := hb
    intro h
    rcases ha with ⟨i, _, rfl⟩ | ⟨i, hi, rfl | rfl⟩ <;> simp only [Prod.mk.injEq] at h <;> omega

theorem bound_idxO {nx ny : Int} :
    ∀ ij ∈ idxO nx ny, (ij.1 ≤ nx.toNat - 1 ∧ ij.2 ≤ ny.toNat - 1) ∧
      (ij.1 = 0 ∨ ij.1 = nx.toNat - 1 ∨ ij.2 = 0 ∨ ij.2 = ny.toNat - 1) := by
  intro ij h
  simp only [idxO, List.mem_append, List.mem_map, List.mem_range, List.mem_flatMap, mem_rangeFrom, List.mem_cons,
    List.not_mem_nil, or_false] at h
  rcases h with (⟨i, hi, rfl⟩ | ⟨j, hj, rfl | rfl⟩) | ⟨i, hi, rfl⟩ <;>
    refine ⟨by simp only; omega, ?_⟩ <;> simp


theorem InLand.mono {W H W' H' : Rat} {f : Field} (h : InLand W' H' f) (hW : W' ≤ W) (hH : H' ≤ H) : InLand W H f := by
  intro p hp
  obtain ⟨a, b, c, d⟩ := h p hp
  exact ⟨a, le_trans b hW, c, le_trans d hH⟩

theorem natCast_toNat' {n : Int} (h : 0 ≤ n) : ((n.toNat : Nat) : Rat) = (n : Rat) := by
  have : ((n.toNat : Nat) : Int) = n := Int.toNat_of_nonneg h
  exact_mod_cast this

/-- A perimeter shape given by grid indices inside the `nx × ny` grid. -/
theorem perimeter_good {idx : List (Nat × Nat)} {nx ny : Int} {sx sy d W H : Rat} (hd : 0 ≤ d) (hx : d ≤ sx) (hy : d ≤ sy)
    (hnx : 1 ≤ nx) (hny : 1 ≤ ny) (hW : ((nx : Rat) - 1) * sx ≤ W) (hH : ((ny : Rat) - 1) * sy ≤ H)
    (hn : idx.Nodup) (hb : ∀ ij ∈ idx, ij.1 ≤ nx.toNat - 1 ∧ ij.2 ≤ ny.toNat - 1) :
    InLand W H (idx.map (emb sx sy)) ∧ Sep d (idx.map (emb sx sy)) := by
  have hsx : 0 ≤ sx := le_trans hd hx
  have hsy : 0 ≤ sy := le_trans hd hy
  have ex : ((nx.toNat - 1 : Nat) : Rat) = (nx : Rat) - 1 := by rw [← cast_pred hnx]; push_cast; ring
  have ey : ((ny.toNat - 1 : Nat) : Rat) = (ny : Rat) - 1 := by rw [← cast_pred hny]; push_cast; ring
  refine grid_good hd hx hy hn ?_
  intro ij hij
  obtain ⟨h1, h2⟩ := hb ij hij
  have h1' : (ij.1 : Rat) ≤ (nx : Rat) - 1 := by rw [← ex]; exact_mod_cast h1
  have h2' : (ij.2 : Rat) ≤ (ny : Rat) - 1 := by rw [← ey]; exact_mod_cast h2
  exact ⟨le_trans (mul_le_mul_of_nonneg_right h1' hsx) hW, le_trans (mul_le_mul_of_nonneg_right h2' hsy) hH⟩

theorem zonedRectangle_good {nx ny nix nit : Int} {sx sy d W H : Rat} {z : Field}
    (hd : 0 < d) (hx : d ≤ sx) (hy : d ≤ sy) (h1 : 1 ≤ nix) (h2 : 1 ≤ nit)
    (hW : ((nx : Rat) - 1) * sx ≤ W) (hH : ((ny : Rat) - 1) * sy ≤ H)
    (h : zonedRectangle id nx ny sx sy nix nit = .ok z) : InLand W H z ∧ Sep d z := by
  unfold zonedRectangle at h
  split at h
  · cases h
  rename_i c1
  split at h
  · cases h
  rename_i c2
  split at h
  · cases h
  simp only [id_eq, Except.ok.injEq] at h
  subst h
  have hnx : 2 < nx := by omega
  have hny : 2 < ny := by omega
  have hsx : 0 < sx := lt_of_lt_of_le hd hx
  have hsy : 0 < sy := lt_of_lt_of_le hd hy
  -- the interior spacings
  set W' : Rat := ((nx - 1 : Int) : Rat) * sx with hW'
  set H' : Rat := ((ny - 1 : Int) : Rat) * sy with hH'
  set bix : Rat := W' / ((nix + 1 : Int) : Rat) with hbix
  set biy : Rat := H' / ((nit + 1 : Int) : Rat) with hbiy
  have cnx : (3 : Rat) ≤ (nx : Rat) := by exact_mod_cast (show (3 : Int) ≤ nx by omega)
  have cny : (3 : Rat) ≤ (ny : Rat) := by exact_mod_cast (show (3 : Int) ≤ ny by omega)
  have cix : (1 : Rat) ≤ (nix : Rat) := by exact_mod_cast h1
  have cit : (1 : Rat) ≤ (nit : Rat) := by exact_mod_cast h2
  have cix2 : (nix : Rat) + 1 ≤ (nx : Rat) - 1 := by
    have : nix + 1 ≤ nx - 1 := by omega
    exact_mod_cast this
  have cit2 : (nit : Rat) + 1 ≤ (ny : Rat) - 1 := by
    have : nit + 1 ≤ ny - 1 := by omega
    exact_mod_cast this
  have eW : W' = ((nx : Rat) - 1) * sx := by rw [hW']; push_cast; ring
  have eH : H' = ((ny : Rat) - 1) * sy := by rw [hH']; push_cast; ring
  have dx : (0 : Rat) < ((nix + 1 : Int) : Rat) := by push_cast; linarith
  have dy : (0 : Rat) < ((nit + 1 : Int) : Rat) := by push_cast; linarith
  have ebx : bix * ((nix : Rat) + 1) = W' := by rw [hbix]; push_cast; field_simp
  have eby : biy * ((nit : Rat) + 1) = H' := by rw [hbiy]; push_cast; field_simp
  have gbx : sx ≤ bix := by
    rw [hbix, le_div_iff₀ dx, eW]; push_cast; nlinarith
  have gby : sy ≤ biy := by
    rw [hbiy, le_div_iff₀ dy, eH]; push_cast; nlinarith
  have bixpos : 0 < bix := lt_of_lt_of_le hsx gbx
  have biypos : 0 < biy := lt_of_lt_of_le hsy gby
  -- perimeter
  rw [openRectangle_eq hnx hny]
  obtain ⟨pl, ps⟩ := perimeter_good (le_of_lt hd) hx hy (by omega) (by omega) hW hH (nodup_idxO hnx hny)
    (fun ij hij => (bound_idxO ij hij).1) (sx := sx) (sy := sy)
  -- interior points
  have hint : ∀ q ∈ rectangleO id nix nit bix biy bix biy,
      bix ≤ q.1 ∧ q.1 ≤ W' - bix ∧ biy ≤ q.2 ∧ q.2 ≤ H' - biy := by
    intro q hq
    rw [mem_rectangleO] at hq
    obtain ⟨i, hi, j, hj, rfl⟩ := hq
    have hi' : (i : Rat) + 1 ≤ (nix : Rat) := by
      have : ((i : Nat) : Int) + 1 ≤ nix := by omega
      exact_mod_cast this
    have hj' : (j : Rat) + 1 ≤ (nit : Rat) := by
      have : ((j : Nat) : Int) + 1 ≤ nit := by omega
      exact_mod_cast this
    have i0 : (0 : Rat) ≤ (i : Rat) := Nat.cast_nonneg i
    have j0 : (0 : Rat) ≤ (j : Rat) := Nat.cast_nonneg j
    refine ⟨?_, ?_, ?_, ?_⟩
    · show bix ≤ bix + (i : Rat) * bix; nlinarith
    · show bix + (i : Rat) * bix ≤ W' - bix; nlinarith
    · show biy ≤ biy + (j : Rat) * biy; nlinarith
    · show biy + (j : Rat) * biy ≤ H' - biy; nlinarith
  have hW'W : W' ≤ W := by rw [eW]; exact hW
  have hH'H : H' ≤ H := by rw [eH]; exact hH
  constructor
  · intro p hp
    rw [List.mem_append] at hp
    rcases hp with hp | hp
    · exact pl p hp
    · obtain ⟨a, b, c, e⟩ := hint p hp
      exact ⟨by linarith, by linarith, by linarith, by linarith⟩
  · unfold Sep
    rw [List.pairwise_append]
    refine ⟨ps, sep_rectangleO (le_of_lt hd) (le_trans hx gbx) (le_trans hy gby), ?_⟩
    intro p hp q hq
    obtain ⟨a, b, c, e⟩ := hint q hq
    rw [List.mem_map] at hp
    obtain ⟨ij, hij, rfl⟩ := hp
    have ex : ((nx.toNat - 1 : Nat) : Rat) * sx = W' := by rw [hW', cast_pred (show 1 ≤ nx by omega)]
    have ey : ((ny.toNat - 1 : Nat) : Rat) * sy = H' := by rw [hH', cast_pred (show 1 ≤ ny by omega)]
    rcases (bound_idxO ij hij).2 with h | h | h | h
    · left
      show d ≤ |(ij.1 : Rat) * sx - q.1|
      rw [h, Nat.cast_zero, zero_mul, zero_sub, abs_neg, abs_of_nonneg (by linarith)]; linarith
    · left
      show d ≤ |(ij.1 : Rat) * sx - q.1|
      rw [h, ex, abs_of_nonneg (by linarith)]; linarith
    · right
      show d ≤ |(ij.2 : Rat) * sy - q.2|
      rw [h, Nat.cast_zero, zero_mul, zero_sub, abs_neg, abs_of_nonneg (by linarith)]; linarith
    · right
      show d ≤ |(ij.2 : Rat) * sy - q.2|
      rw [h, ey, abs_of_nonneg (by linarith)]; linarith


/-! ### binary64 rounding: relative error of `fl64` -/

theorem pow2_eq_zpow (e : Int) : pow2 e = (2 : Rat) ^ e := by
  unfold pow2
  split
  · rename_i h
    have : e = ((e.toNat : Nat) : Int) := (Int.toNat_of_nonneg h).symm
    conv_rhs => rw [this]
    rw [zpow_natCast]; push_cast; rfl
  · rename_i h
    have : e = -((((-e).toNat : Nat)) : Int) := by omega
    conv_rhs => rw [this]
    rw [zpow_neg, zpow_natCast]; push_cast; simp

theorem pow2_pos (e : Int) : 0 < pow2 e := by rw [pow2_eq_zpow]; positivity

theorem pow2_add (a b : Int) : pow2 (a + b) = pow2 a * pow2 b := by
  simp only [pow2_eq_zpow]; exact zpow_add₀ (by norm_num) a b

theorem roundHalfEven_err (q : Rat) : |((roundHalfEven q : Int) : Rat) - q| ≤ 1 / 2 := by
  unfold roundHalfEven
  have h1 := Rat.floor_le q
  have h2 := Rat.lt_floor_add_one q
  push_cast at h2
  simp only []
  split
  · rw [abs_le]; constructor <;> linarith
  · split
    · rw [abs_le]; push_cast; constructor <;> linarith
    · have e : q - (q.floor : Rat) = 1 / 2 := by
        rename_i a b; have := not_lt.mp a; have := not_lt.mp b; linarith
      split
      · rw [abs_le]; constructor <;> linarith
      · rw [abs_le]; push_cast; constructor <;> linarith

theorem normExp_spec {a : Rat} (ha : 0 < a) : (4503599627370496 : Rat) ≤ a / pow2 (normExp a) := by
  have hnum : 0 < a.num := Rat.num_pos.mpr ha
  have hden : 0 < a.den := a.den_pos
  set ln := Nat.log2 a.num.natAbs with hln
  set ld := Nat.log2 a.den with hld
  have h1 : 2 ^ ln ≤ a.num.natAbs := Nat.log2_self_le (by omega)
  have h2 : a.den < 2 ^ (ld + 1) := Nat.lt_log2_self
  have hnumR : ((2 ^ ln : Nat) : Rat) ≤ (a.num : Rat) := by
    have : ((2 ^ ln : Nat) : Int) ≤ a.num := by
      have : (a.num.natAbs : Int) = a.num := Int.natAbs_of_nonneg (le_of_lt hnum)
      rw [← this]; exact_mod_cast h1
    exact_mod_cast this
  have hdenR : (a.den : Rat) ≤ ((2 ^ (ld + 1) : Nat) : Rat) := by exact_mod_cast le_of_lt h2
  have hdpos : (0 : Rat) < (a.den : Rat) := by exact_mod_cast hden
  have ea : a = (a.num : Rat) / (a.den : Rat) := (Rat.num_div_den a).symm
  -- a ≥ 2^(ln - ld - 1)
  have hlow : pow2 ((ln : Int) - (ld : Int) - 1) ≤ a := by
    have e1 : pow2 ((ln : Int) - (ld : Int) - 1) = ((2 ^ ln : Nat) : Rat) / ((2 ^ (ld + 1) : Nat) : Rat) := by
      rw [pow2_eq_zpow, show (ln : Int) - (ld : Int) - 1 = (ln : Int) - ((ld + 1 : Nat) : Int) by push_cast; ring,
        zpow_sub₀ (by norm_num), zpow_natCast, zpow_natCast]; push_cast; rfl
    rw [e1, ea]
    have hp : (0 : Rat) < ((2 ^ (ld + 1) : Nat) : Rat) := by positivity
    rw [div_le_div_iff₀ hp hdpos]
    have : (0 : Rat) ≤ ((2 ^ ln : Nat) : Rat) := by positivity
    nlinarith
  set e0 : Int := (ln : Int) - (ld : Int) - 52 with he0
  have hm0 : (2251799813685248 : Rat) ≤ a / pow2 e0 := by
    rw [le_div_iff₀ (pow2_pos _)]
    have : (2251799813685248 : Rat) * pow2 e0 = pow2 ((ln : Int) - (ld : Int) - 1) := by
      have h51 : pow2 51 = 2251799813685248 := by rw [pow2_eq_zpow]; norm_num
      rw [show (ln : Int) - (ld : Int) - 1 = 51 + e0 by omega, pow2_add, h51]
    rw [this]; exact hlow
  have step_dn : a / pow2 (e0 - 1) = 2 * (a / pow2 e0) := by
    rw [show e0 = (e0 - 1) + 1 by ring, pow2_add, show e0 - 1 + 1 - 1 = e0 - 1 by ring]
    have : pow2 1 = 2 := by rw [pow2_eq_zpow]; norm_num
    rw [this]
    have := pow2_pos (e0 - 1)
    field_simp
  have step_up : a / pow2 (e0 + 1) = (a / pow2 e0) / 2 := by
    rw [pow2_add]
    have : pow2 1 = 2 := by rw [pow2_eq_zpow]; norm_num
    rw [this]
    have := pow2_pos e0
    field_simp
  have hne : normExp a = if a / pow2 e0 < 4503599627370496 then e0 - 1
      else if 9007199254740992 ≤ a / pow2 e0 then e0 + 1 else e0 := rfl
  rw [hne]
  split
  · rw [step_dn]; linarith
  · split
    · rw [step_up]; linarith
    · rename_i h _; exact not_lt.mp h

/-- `fl64` is a rounding with relative error at most `2^-53` (unit roundoff of binary64),
    for every rational in the normal range the model idealises. -/
theorem fl64_relErr (q : Rat) : |fl64 q - q| ≤ |q| / 9007199254740992 := by
  unfold fl64
  split
  · rename_i h; subst h; simp
  rename_i hq
  have key : ∀ a : Rat, 0 < a →
      |((roundHalfEven (a / pow2 (normExp a)) : Int) : Rat) * pow2 (normExp a) - a| ≤ a / 9007199254740992 := by
    intro a ha
    have hp := pow2_pos (normExp a)
    have hm := normExp_spec ha
    have hr := roundHalfEven_err (a / pow2 (normExp a))
    have e : ((roundHalfEven (a / pow2 (normExp a)) : Int) : Rat) * pow2 (normExp a) - a
        = (((roundHalfEven (a / pow2 (normExp a)) : Int) : Rat) - a / pow2 (normExp a)) * pow2 (normExp a) := by
      field_simp
    rw [e, abs_mul, abs_of_pos hp]
    have h2 : 4503599627370496 * pow2 (normExp a) ≤ a := (le_div_iff₀ hp).mp hm
    have : |((roundHalfEven (a / pow2 (normExp a)) : Int) : Rat) - a / pow2 (normExp a)| * pow2 (normExp a)
        ≤ 1 / 2 * pow2 (normExp a) := mul_le_mul_of_nonneg_right hr (le_of_lt hp)
    linarith
  simp only []
  by_cases hneg : q < 0
  · simp only [hneg, if_true]
    have := key (-q) (by linarith)
    rw [abs_of_neg hneg]
    have e : -(((roundHalfEven (-q / pow2 (normExp (-q))) : Int) : Rat) * pow2 (normExp (-q))) - q
        = -((((roundHalfEven (-q / pow2 (normExp (-q))) : Int) : Rat) * pow2 (normExp (-q))) - (-q)) := by ring
    rw [e, abs_neg]; exact this
  · simp only [hneg, if_false]
    have hpos : 0 < q := lt_of_le_of_ne (not_lt.mp hneg) (Ne.symm hq)
    rw [abs_of_pos hpos]
    exact key q hpos


/-! ### rounding-robustness: closeness of the rounded and the exact instance -/

/-- `R` rounds with relative error at most `u`. -/
def RelErr (u : Rat) (R : Rat → Rat) : Prop := ∀ q, |R q - q| ≤ u * |q|

theorem fl64_RelErr : RelErr (1 / 9007199254740992) fl64 := by
  intro q; have := fl64_relErr q; rw [div_eq_mul_inv] at this; rw [one_div]; linarith [mul_comm |q| (9007199254740992 : Rat)⁻¹]

theorem id_RelErr {u : Rat} (hu : 0 ≤ u) : RelErr u id := by
  intro q; simp; exact mul_nonneg hu (abs_nonneg q)

/-- `x` approximates `y` with relative error at most `ε`. -/
def Near (ε x y : Rat) : Prop := |x - y| ≤ ε * |y|

theorem Near.refl {ε : Rat} (hε : 0 ≤ ε) (y : Rat) : Near ε y y := by
  unfold Near; simp; exact mul_nonneg hε (abs_nonneg y)

theorem Near.mono {ε ε' x y : Rat} (h : Near ε x y) (hle : ε ≤ ε') : Near ε' x y :=
  le_trans h (mul_le_mul_of_nonneg_right hle (abs_nonneg y))

theorem Near.abs_bound {ε x y : Rat} (h : Near ε x y) : |x| ≤ (1 + ε) * |y| := by
  unfold Near at h
  have := abs_sub_abs_le_abs_sub x y
  linarith

/-- one more rounding: `ε ↦ ε + u + ε u` -/
def bump (u ε : Rat) : Rat := ε + u + ε * u

theorem Near.round {u ε x y : Rat} {R : Rat → Rat} (hR : RelErr u R) (hu : 0 ≤ u) (h : Near ε x y) :
    Near (bump u ε) (R x) y := by
  have h1 := hR x
  have h2 := h.abs_bound
  unfold Near at *
  have : |R x - y| ≤ |R x - x| + |x - y| := by
    have := abs_add_le (R x - x) (x - y); simpa using this
  have h3 : u * |x| ≤ u * ((1 + ε) * |y|) := mul_le_mul_of_nonneg_left h2 hu
  unfold bump
  nlinarith [abs_nonneg y]

theorem Near.const_mul {ε x y : Rat} (c : Rat) (h : Near ε x y) : Near ε (c * x) (c * y) := by
  unfold Near at *
  rw [← mul_sub, abs_mul, abs_mul]
  nlinarith [abs_nonneg c, abs_nonneg y]

theorem Near.zero_add {ε x y : Rat} (h : Near ε x y) : Near ε (0 + x) (0 + y) := by simpa using h

/-- a quotient with an approximate positive denominator -/
theorem Near.div_left {ε x y : Rat} (c : Rat) (hy : 0 < y) (hε : 0 ≤ ε) (hε1 : ε ≤ 1 / 2) (h : Near ε x y) :
    Near (2 * ε) (c / x) (c / y) := by
  unfold Near at *
  rw [abs_of_pos hy] at h
  have hx : (1 - ε) * y ≤ x := by have := (_root_.abs_le.mp h).1; linarith
  have hxpos : 0 < x := lt_of_lt_of_le (by nlinarith) hx
  have e : c / x - c / y = c / y * ((y - x) / x) := by field_simp
  rw [e, abs_mul, mul_comm]
  refine mul_le_mul_of_nonneg_right ?_ (abs_nonneg _)
  rw [abs_div, abs_of_pos hxpos, div_le_iff₀ hxpos]
  have : |y - x| ≤ ε * y := by rw [abs_sub_comm]; exact h
  have hx2 : y ≤ 2 * x := by nlinarith
  nlinarith [mul_le_mul_of_nonneg_left hx2 hε]

theorem Near.upper {ε x y : Rat} (h : Near ε x y) (hy : 0 ≤ y) : x ≤ (1 + ε) * y := by
  unfold Near at h; rw [abs_of_nonneg hy] at h; have := (_root_.abs_le.mp h).2; linarith

theorem Near.lower {ε x y : Rat} (h : Near ε x y) (hy : 0 ≤ y) : (1 - ε) * y ≤ x := by
  unfold Near at h; rw [abs_of_nonneg hy] at h; have := (_root_.abs_le.mp h).1; linarith

/-- pointwise closeness of boreholes -/
def NearP (ε : Rat) (p q : Point) : Prop := Near ε p.1 q.1 ∧ Near ε p.2 q.2

theorem forall₂_map_same {α β γ : Type} {P : β → γ → Prop} (f : α → β) (g : α → γ) (l : List α)
    (h : ∀ a ∈ l, P (f a) (g a)) : List.Forall₂ P (l.map f) (l.map g) := by
  induction l with
  | nil => exact List.Forall₂.nil
  | cons a l ih => exact List.Forall₂.cons (h a (by simp)) (ih (fun x hx => h x (by simp [hx])))

theorem forall₂_map {α β γ δ : Type} {P : α → β → Prop} {Q : γ → δ → Prop} {f : α → γ} {g : β → δ}
    {l1 : List α} {l2 : List β} (h : List.Forall₂ P l1 l2) (hfg : ∀ a b, P a b → Q (f a) (g b)) :
    List.Forall₂ Q (l1.map f) (l2.map g) := by
  induction h with
  | nil => exact List.Forall₂.nil
  | cons hab _ ih => exact List.Forall₂.cons (hfg _ _ hab) ih

theorem forall₂_append {α β : Type} {P : α → β → Prop} {l1 l1' : List α} {l2 l2' : List β}
    (h : List.Forall₂ P l1 l2) (h' : List.Forall₂ P l1' l2') : List.Forall₂ P (l1 ++ l1') (l2 ++ l2') := by
  induction h with
  | nil => exact h'
  | cons hab _ ih => exact List.Forall₂.cons hab ih

theorem forall₂_flatMap {α β γ δ : Type} {P : α → β → Prop} {Q : γ → δ → Prop} {f : α → List γ} {g : β → List δ}
    {l1 : List α} {l2 : List β} (h : List.Forall₂ P l1 l2) (hfg : ∀ a b, P a b → List.Forall₂ Q (f a) (g b)) :
    List.Forall₂ Q (l1.flatMap f) (l2.flatMap g) := by
  induction h with
  | nil => exact List.Forall₂.nil
  | cons hab _ ih => simp only [List.flatMap_cons]; exact forall₂_append (hfg _ _ hab) ih

/-- The grid computed with rounding `R` from approximate spacings is pointwise close to the exact
    grid: two more roundings per coordinate. -/
theorem rectangle_near {u ε : Rat} {R : Rat → Rat} (hR : RelErr u R) (hu : 0 ≤ u) (nx ny : Int) {sx sy sx' sy' : Rat}
    (hx : Near ε sx' sx) (hy : Near ε sy' sy) :
    List.Forall₂ (NearP (bump u (bump u ε))) (rectangle R nx ny sx' sy') (rectangle id nx ny sx sy) := by
  unfold rectangle rectangleO
  refine forall₂_flatMap (P := Near (bump u (bump u ε))) (forall₂_map_same _ _ _ ?_) ?_
  · intro i _
    exact ((hx.const_mul (i : Rat)).round hR hu).zero_add.round hR hu
  · intro a b hab
    refine forall₂_map (P := Near (bump u (bump u ε))) (forall₂_map_same _ _ _ ?_) (fun y y' hyy => ⟨hab, hyy⟩)
    intro j _
    exact ((hy.const_mul (j : Rat)).round hR hu).zero_add.round hR hu


theorem forall₂_mem_left {α β : Type} {P : α → β → Prop} {l1 : List α} {l2 : List β} (h : List.Forall₂ P l1 l2) :
    ∀ a ∈ l1, ∃ b ∈ l2, P a b := by
  induction h with
  | nil => intro a ha; simp at ha
  | cons hab _ ih =>
    intro x hx
    rw [List.mem_cons] at hx
    rcases hx with rfl | hx
    · exact ⟨_, by simp, hab⟩
    · obtain ⟨b, hb, hp⟩ := ih x hx
      exact ⟨b, by simp [hb], hp⟩

theorem forall₂_pairwise {α β : Type} {P : α → β → Prop} {Q : β → β → Prop} {Q' : α → α → Prop}
    {l1 : List α} {l2 : List β} (h : List.Forall₂ P l1 l2) (hq : l2.Pairwise Q)
    (tr : ∀ a a' b b', b ∈ l2 → b' ∈ l2 → P a b → P a' b' → Q b b' → Q' a a') : l1.Pairwise Q' := by
  induction h with
  | nil => exact List.Pairwise.nil
  | @cons a b l1 l2 hab htail ih =>
    rw [List.pairwise_cons] at hq ⊢
    constructor
    · intro a' ha'
      obtain ⟨b', hb', hp⟩ := forall₂_mem_left htail a' ha'
      exact tr a a' b b' (by simp) (by simp [hb']) hab hp (hq.1 b' hb')
    · exact ih hq.2 (fun x x' y y' hy hy' => tr x x' y y' (by simp [hy]) (by simp [hy']))

theorem nearP_transpose {δ : Rat} {fR f : Field} (h : List.Forall₂ (NearP δ) fR f) :
    List.Forall₂ (NearP δ) (transpose fR) (transpose f) := by
  unfold transpose
  exact forall₂_map h (fun a b hab => ⟨hab.2, hab.1⟩)

/-- A field pointwise `δ`-close to a field that is on the land and `d`-separated is on the land
    enlarged by the factor `1 + δ` and `(d − 2 δ max(Lx, Ly))`-separated. -/
theorem approx_of_near {δ d Lx Ly : Rat} {fR f : Field} (hδ0 : 0 ≤ δ) (hδ : δ ≤ 1)
    (h : List.Forall₂ (NearP δ) fR f) (hin : InLand Lx Ly f) (hsep : Sep d f) :
    InLand ((1 + δ) * Lx) ((1 + δ) * Ly) fR ∧ Sep (d - 2 * δ * max Lx Ly) fR := by
  constructor
  · intro p hp
    obtain ⟨q, hq, h1, h2⟩ := forall₂_mem_left h p hp
    obtain ⟨a, b, c, e⟩ := hin q hq
    have u1 := h1.upper a
    have l1 := h1.lower a
    have u2 := h2.upper c
    have l2 := h2.lower c
    refine ⟨?_, ?_, ?_, ?_⟩
    · nlinarith
    · nlinarith
    · nlinarith
    · nlinarith
  · unfold Sep
    refine forall₂_pairwise h hsep ?_
    intro p p' q q' hq hq' hp hp' hs
    obtain ⟨a, b, c, e⟩ := hin q hq
    obtain ⟨a', b', c', e'⟩ := hin q' hq'
    have mx : Lx ≤ max Lx Ly := le_max_left _ _
    have my : Ly ≤ max Lx Ly := le_max_right _ _
    have tri : ∀ x x' y y' : Rat, |y - y'| ≤ |x - x'| + |x - y| + |x' - y'| := by
      intro x x' y y'
      have e1 : y - y' = (x - x') + (-(x - y)) + (x' - y') := by ring
      rw [e1]
      have := abs_add_three (x - x') (-(x - y)) (x' - y')
      rwa [abs_neg] at this
    rcases hs with hs | hs
    · left
      have n1 : |p.1 - q.1| ≤ δ * q.1 := by have := hp.1; unfold Near at this; rwa [abs_of_nonneg a] at this
      have n2 : |p'.1 - q'.1| ≤ δ * q'.1 := by have := hp'.1; unfold Near at this; rwa [abs_of_nonneg a'] at this
      have := tri p.1 p'.1 q.1 q'.1
      nlinarith
    · right
      have n1 : |p.2 - q.2| ≤ δ * q.2 := by have := hp.2; unfold Near at this; rwa [abs_of_nonneg c] at this
      have n2 : |p'.2 - q'.2| ≤ δ * q'.2 := by have := hp'.2; unfold Near at this; rwa [abs_of_nonneg c'] at this
      have := tri p.2 p'.2 q.2 q'.2
      nlinarith

end GHEVerif.Coords
