/-
  C09 — Simulated fluid temperatures equal the documented temporal superposition.
  Property theorems only; helper lemmas live in GHEVerif/Lemmas/Superpose.lean, the model in
  GHEVerif/Model/Superpose.lean.  The literal constants of `GHE.simulate` /
  `BaseGHE._simulate_detailed` are `Gen.sim*` / `Gen.det*` (Gen/SimConsts.lean) and `Gen.cost`,
  `Gen.SEC_IN_HR`, all regenerated from the source on every check: `source_constants` and the
  theorems that unfold them break when the source changes.

  Notation of the documented formula: `qn q i` is the field load of step `i` in W (`qn q 0 = 0`),
  `G n i` stands for `g(ln((t_n − t_{i−1})·3600/t_s))`, `P = {H, twoPiK = 2πk, Tg, Rb, mdot, cp, N}`.
-/
import GHEVerif.Lemmas.Superpose

namespace GHEVerif.C09
open GHEVerif GHEVerif.Superpose Finset

/-- The constants and slice bounds the model takes from the source have the documented values:
    kW→W factor 1000, the two leading zeros of the hybrid arrays dropped, rejection = −extraction,
    8760 h per 12 months, hour `k` ends at `k`, `q_0 = 0` at `t_0 = 0`, the factor 2 of the
    outlet correction, 3600 s/h. -/
theorem source_constants :
    Gen.simKwToW = 1000 ∧ Gen.simHybridLoadDrop = 2 ∧ Gen.simHybridHourDrop = 2 ∧ Gen.simHourlySign = -1 ∧
    Gen.simMonthsPlus = 1 ∧ Gen.simMonthsPerYear = 12 ∧ Gen.simHoursPerYear = 8760 ∧
    Gen.simHoursPerYearCeil = 8760 ∧ Gen.simHoursPerYearDiv = 8760 ∧
    Gen.simArangeStart = 1 ∧ Gen.simArangeStopPlus = 1 ∧ Gen.simArangeStep = 1 ∧
    Gen.detLoadPrepend = 0 ∧ Gen.detTimePrepend = 0 ∧ Gen.detDiffLo = 1 ∧ Gen.detDiffHi = -1 ∧
    Gen.detLoopStart = 1 ∧ Gen.detLoopStopPlus = 1 ∧ Gen.detOutletFactor = 2 ∧ Gen.SEC_IN_HR = 3600 := by
  decide

/-! ### 1. The closed form -/

/-- `eft_formula`: for every load list, time axis (long enough), `G` and parameters the run
    succeeds with one result per load step, and step `n` equals
    `T_g + Σ_{i=1..n} (q_i − q_{i−1})·G n i/(2πk·H·N) + q_n·R_b/(H·N) − q_n/(2·ṁ·c_p·N)`;
    the stored `dTb` is the sum alone. -/
theorem eft_formula (q t : List Rat) (G : Nat → Nat → Rat) (P : Params) (ht : q.length ≤ t.length) :
    ∃ eft dtb, simulateDetailed q t G P = .ok (eft, dtb) ∧ eft.length = q.length ∧ dtb.length = q.length ∧
      ∀ n, 1 ≤ n → n ≤ q.length →
        eft.getD (n - 1) 0 =
          P.Tg + (∑ i ∈ Finset.Icc 1 n, (qn q i - qn q (i - 1)) * G n i / (P.twoPiK * P.H * (P.N : Rat)))
            + qn q n * P.Rb / (P.H * (P.N : Rat)) - qn q n / (2 * P.mdot * P.cp * (P.N : Rat)) ∧
        dtb.getD (n - 1) 0 =
          ∑ i ∈ Finset.Icc 1 n, (qn q i - qn q (i - 1)) * G n i / (P.twoPiK * P.H * (P.N : Rat)) := by
  refine ⟨_, _, simulateDetailed_ok q t G P ht, by simp [loopIndices_length], by simp [loopIndices_length], ?_⟩
  intro n h1 hn
  obtain ⟨k, rfl⟩ : ∃ k, n = k + 1 := ⟨n - 1, by omega⟩
  simp only [Nat.add_sub_cancel]
  rw [map_loopIndices_getD _ _ _ (by omega), map_loopIndices_getD _ _ _ (by omega),
    eftStep_eq_formula q G P (k + 1) hn, deltaTb_eq_formulaTb q G P (k + 1) hn]
  exact ⟨rfl, rfl⟩

/-- The error branch: a time axis shorter than the load list raises IndexError (no partial result). -/
theorem time_axis_too_short (q t : List Rat) (G : Nat → Nat → Rat) (P : Params) (ht : t.length < q.length) :
    simulateDetailed q t G P = .error .indexError :=
  simulateDetailed_error q t G P ht

/-- Evaluating the loop at a subset of the indices (what the line protocol does for hourly runs)
    gives exactly the corresponding entries of the full run. -/
theorem steps_are_independent (steps : List Nat) (q t : List Rat) (G : Nat → Nat → Rat) (P : Params)
    (r : List Rat × List Rat) (h : simulateDetailed q t G P = .ok r)
    (hs : ∀ s ∈ steps, 1 ≤ s ∧ s ≤ q.length) :
    simulateDetailedAt steps q t G P =
      .ok (steps.map (fun s => r.1.getD (s - 1) 0), steps.map (fun s => r.2.getD (s - 1) 0)) := by
  obtain ⟨ht, h1, h2⟩ := simulateDetailed_result h
  unfold simulateDetailedAt
  rw [if_neg (by omega), h1, h2]
  congr 2
  · apply List.map_congr_left
    intro s hs'
    obtain ⟨a, b⟩ := hs s hs'
    obtain ⟨k, rfl⟩ : ∃ k, s = k + 1 := ⟨s - 1, by omega⟩
    simp only [Nat.add_sub_cancel]
    rw [map_loopIndices_getD _ _ _ (by omega)]
  · apply List.map_congr_left
    intro s hs'
    obtain ⟨a, b⟩ := hs s hs'
    obtain ⟨k, rfl⟩ : ∃ k, s = k + 1 := ⟨s - 1, by omega⟩
    simp only [Nat.add_sub_cancel]
    rw [map_loopIndices_getD _ _ _ (by omega)]

/-! ### 2. Consequences: zero load, linearity, additivity, ground-temperature shift -/

/-- `zero_load`: a zero load returns exactly the ground temperature at every step, and a zero
    wall-temperature change — for every `G` and every parameter set (no hypothesis at all). -/
theorem zero_load (q t : List Rat) (G : Nat → Nat → Rat) (P : Params) (hq : ∀ x ∈ q, x = 0)
    (ht : q.length ≤ t.length) :
    simulateDetailed q t G P = .ok (List.replicate q.length P.Tg, List.replicate q.length 0) := by
  rw [simulateDetailed_ok q t G P ht]
  have hz : qn q = fun _ => 0 := funext (qn_all_zero q hq)
  congr 2
  · rw [List.eq_replicate_iff]
    refine ⟨by simp [loopIndices_length], ?_⟩
    intro b hb
    simp only [loopIndices, List.map_map, List.mem_map, List.mem_range, Function.comp] at hb
    obtain ⟨k, hk, rfl⟩ := hb
    rw [eftStep_eq_formula q G P (k + 1) (by omega), formula_eq_dep, hz, dep_zero, add_zero]
  · rw [List.eq_replicate_iff]
    refine ⟨by simp [loopIndices_length], ?_⟩
    intro b hb
    simp only [loopIndices, List.map_map, List.mem_map, List.mem_range, Function.comp] at hb
    obtain ⟨k, hk, rfl⟩ := hb
    rw [deltaTb_eq_formulaTb q G P (k + 1) (by omega), formulaTb_eq_depTb, hz, depTb_zero]

/-- `linear_in_load`: scaling every load by `a` scales every departure from the ground
    temperature (and every wall-temperature change) by `a`. -/
theorem linear_in_load (a : Rat) (q t : List Rat) (G : Nat → Nat → Rat) (P : Params)
    (r r' : List Rat × List Rat)
    (h : simulateDetailed q t G P = .ok r)
    (h' : simulateDetailed (q.map (fun x => a * x)) t G P = .ok r') :
    ∀ k, k < q.length →
      r'.1.getD k 0 - P.Tg = a * (r.1.getD k 0 - P.Tg) ∧ r'.2.getD k 0 = a * r.2.getD k 0 := by
  obtain ⟨_, h1, h2⟩ := simulateDetailed_result h
  obtain ⟨_, h1', h2'⟩ := simulateDetailed_result h'
  intro k hk
  have hl : (q.map (fun x => a * x)).length = q.length := by simp
  have hqn : qn (q.map (fun x => a * x)) = fun i => a * qn q i := funext (qn_map_mul q a)
  rw [h1, h2, h1', h2', hl]
  rw [map_loopIndices_getD _ _ _ hk, map_loopIndices_getD _ _ _ hk, map_loopIndices_getD _ _ _ hk,
    map_loopIndices_getD _ _ _ hk]
  rw [eftStep_eq_formula _ G P (k + 1) (by rw [hl]; omega), eftStep_eq_formula q G P (k + 1) (by omega),
    deltaTb_eq_formulaTb _ G P (k + 1) (by rw [hl]; omega), deltaTb_eq_formulaTb q G P (k + 1) (by omega),
    formula_eq_dep, formula_eq_dep, formulaTb_eq_depTb, formulaTb_eq_depTb, hqn, dep_smul, depTb_smul]
  exact ⟨by ring, rfl⟩

/-- `additive`: the departure caused by the sum of two load sequences is the sum of the departures
    (temporal and load superposition). -/
theorem additive (q₁ q₂ t : List Rat) (G : Nat → Nat → Rat) (P : Params) (hl : q₁.length = q₂.length)
    (r₁ r₂ r : List Rat × List Rat)
    (h₁ : simulateDetailed q₁ t G P = .ok r₁) (h₂ : simulateDetailed q₂ t G P = .ok r₂)
    (h : simulateDetailed (List.zipWith (fun x y => x + y) q₁ q₂) t G P = .ok r) :
    ∀ k, k < q₁.length →
      r.1.getD k 0 - P.Tg = (r₁.1.getD k 0 - P.Tg) + (r₂.1.getD k 0 - P.Tg) ∧
      r.2.getD k 0 = r₁.2.getD k 0 + r₂.2.getD k 0 := by
  obtain ⟨_, a1, a2⟩ := simulateDetailed_result h₁
  obtain ⟨_, b1, b2⟩ := simulateDetailed_result h₂
  obtain ⟨_, c1, c2⟩ := simulateDetailed_result h
  intro k hk
  have hlz : (List.zipWith (fun x y => x + y) q₁ q₂).length = q₁.length := by simp [hl]
  have hqn : qn (List.zipWith (fun x y => x + y) q₁ q₂) = fun i => qn q₁ i + qn q₂ i :=
    funext (qn_zipWith_add q₁ q₂ hl)
  have hk2 : k < q₂.length := by omega
  rw [a1, a2, b1, b2, c1, c2, hlz]
  rw [map_loopIndices_getD _ _ _ hk, map_loopIndices_getD _ _ _ hk, map_loopIndices_getD _ _ _ hk,
    map_loopIndices_getD _ _ _ hk, map_loopIndices_getD _ _ _ hk2, map_loopIndices_getD _ _ _ hk2]
  rw [eftStep_eq_formula _ G P (k + 1) (by rw [hlz]; omega), eftStep_eq_formula q₁ G P (k + 1) (by omega),
    eftStep_eq_formula q₂ G P (k + 1) (by omega),
    deltaTb_eq_formulaTb _ G P (k + 1) (by rw [hlz]; omega), deltaTb_eq_formulaTb q₁ G P (k + 1) (by omega),
    deltaTb_eq_formulaTb q₂ G P (k + 1) (by omega),
    formula_eq_dep, formula_eq_dep, formula_eq_dep, formulaTb_eq_depTb, formulaTb_eq_depTb, formulaTb_eq_depTb,
    hqn, dep_add, depTb_add]
  exact ⟨by ring, rfl⟩

/-- `shift_ground_temp`: shifting the ground temperature by `d` shifts every result by `d` and
    leaves the wall-temperature changes alone. -/
theorem shift_ground_temp (d : Rat) (q t : List Rat) (G : Nat → Nat → Rat) (P : Params)
    (r r' : List Rat × List Rat)
    (h : simulateDetailed q t G P = .ok r)
    (h' : simulateDetailed q t G { P with Tg := P.Tg + d } = .ok r') :
    r'.2 = r.2 ∧ ∀ k, k < q.length → r'.1.getD k 0 = r.1.getD k 0 + d := by
  obtain ⟨_, h1, h2⟩ := simulateDetailed_result h
  obtain ⟨_, h1', h2'⟩ := simulateDetailed_result h'
  refine ⟨by rw [h2, h2']; rfl, ?_⟩
  intro k hk
  rw [h1, h1', map_loopIndices_getD _ _ _ hk, map_loopIndices_getD _ _ _ hk]
  unfold eftStep
  have : deltaTb q G { P with Tg := P.Tg + d } (k + 1) = deltaTb q G P (k + 1) := rfl
  have hq : qB q { P with Tg := P.Tg + d } = qB q P := rfl
  simp only [this, hq]
  ring

/-! ### 3. Sign of the departure -/

/-- `sign_of_departure` (the hypothesis-carrying form; the unconditional statement "rejection
    raises, extraction lowers the temperature" is FALSE of the formula and of the code, finding
    F11, see `sign_needs_the_hypothesis`).  If at step `n` the values `G n ·` are non-increasing
    in `i` (g non-decreasing in time) and the last-step coefficient
    `G n n/(2πk·H) + R_b/H − 1/(2·ṁ·c_p)` is non-negative, then a non-negative (rejection) load
    sequence gives `EFT_n ≥ T_g` and a non-positive (extraction) one `EFT_n ≤ T_g`. -/
theorem sign_of_departure (q t : List Rat) (G : Nat → Nat → Rat) (P : Params)
    (r : List Rat × List Rat) (h : simulateDetailed q t G P = .ok r)
    (hH : 0 < P.H) (hk : 0 < P.twoPiK) (hN : 0 < P.N)
    (n : Nat) (h1 : 1 ≤ n) (hn : n ≤ q.length)
    (hmono : ∀ i, 1 ≤ i → i < n → G n (i + 1) ≤ G n i)
    (hcoef : 0 ≤ G n n / (P.twoPiK * P.H) + P.Rb / P.H - 1 / (2 * P.mdot * P.cp)) :
    ((∀ x ∈ q, 0 ≤ x) → P.Tg ≤ r.1.getD (n - 1) 0) ∧
    ((∀ x ∈ q, x ≤ 0) → r.1.getD (n - 1) 0 ≤ P.Tg) := by
  obtain ⟨_, e1, _⟩ := simulateDetailed_result h
  obtain ⟨m, rfl⟩ : ∃ m, n = m + 1 := ⟨n - 1, by omega⟩
  simp only [Nat.add_sub_cancel]
  rw [e1, map_loopIndices_getD _ _ _ (by omega), eftStep_eq_formula q G P (m + 1) hn, formula_eq_dep]
  have hm : ∀ i, 1 ≤ i → i ≤ m → G (m + 1) (i + 1) ≤ G (m + 1) i := fun i a b => hmono i a (by omega)
  constructor
  · intro hq
    have := dep_nonneg (qn q) (qn_zero_index q) (qn_nonneg q hq) G P m hH hk hN hm hcoef
    linarith
  · intro hq
    have hneg : ∀ x ∈ q.map (fun x => (-1 : Rat) * x), 0 ≤ x := by
      intro x hx
      simp only [List.mem_map] at hx
      obtain ⟨y, hy, rfl⟩ := hx
      have := hq y hy
      linarith
    have h0 := dep_nonneg (qn (q.map (fun x => (-1 : Rat) * x))) (qn_zero_index _) (qn_nonneg _ hneg) G P m hH hk hN hm hcoef
    have hqn : qn (q.map (fun x => (-1 : Rat) * x)) = fun i => (-1 : Rat) * qn q i := funext (qn_map_mul q (-1))
    rw [hqn, dep_smul] at h0
    linarith

/-- Finding F11 as a theorem: without the hypothesis on the last-step coefficient the sign
    statement fails.  Two-step witness (H = 400 m, 2πk ≈ 25, R_b = 0.1, ṁ = 0.05 kg/s,
    c_p = 4000, one borehole, `G ≡ 1`, a pure rejection load of 1000 W): `G` is constant (so
    non-increasing), every load is positive, and both results are BELOW the ground temperature. -/
theorem sign_needs_the_hypothesis :
    ∃ (q t : List Rat) (G : Nat → Nat → Rat) (P : Params) (r : List Rat × List Rat),
      simulateDetailed q t G P = .ok r ∧ 0 < P.H ∧ 0 < P.twoPiK ∧ 0 < P.N ∧ 0 < P.mdot ∧ 0 < P.cp ∧ 0 < P.Rb ∧
      (∀ x ∈ q, 0 < x) ∧ (∀ n i, G n (i + 1) ≤ G n i) ∧
      (∀ n, 1 ≤ n → n ≤ q.length → r.1.getD (n - 1) 0 < P.Tg) := by
  refine ⟨[1000, 1000], [1, 2], fun _ _ => 1, ⟨400, 25, 15, 1 / 10, 1 / 20, 4000, 1⟩, _, rfl, ?_⟩
  refine ⟨by decide +kernel, by decide +kernel, by decide +kernel, by decide +kernel, by decide +kernel,
    by decide +kernel, by decide +kernel, fun _ _ => le_refl _, ?_⟩
  intro n h1 hn
  have : n = 1 ∨ n = 2 := by simp at hn; omega
  rcases this with rfl | rfl <;> decide +kernel

/-! ### 4. The excess temperature -/

/-- `excess_def`: `BaseGHE.cost` (translated from the source) is `max(over, under)`. -/
theorem excess_def (maxAllow minAllow maxEft minEft : Rat) :
    Gen.cost maxAllow minAllow maxEft minEft = max (maxEft - maxAllow) (minAllow - minEft) := by
  unfold Gen.cost ratMax
  simp only []
  rcases lt_or_ge (maxEft - maxAllow) (minAllow - minEft) with h | h
  · rw [if_pos h, max_eq_right h.le]
  · rw [if_neg (not_lt.mpr h), max_eq_left h]

/-- The excess is non-positive exactly when every simulated temperature is inside the limits
    (`maxEft`/`minEft` being the extremes of the list, as `GHE.simulate` returns them). -/
theorem excess_nonpos_iff (maxAllow minAllow : Rat) (s : SimOut)
    (hmax : s.maxEft ∈ s.hpEft) (hmin : s.minEft ∈ s.hpEft)
    (hb : ∀ x ∈ s.hpEft, s.minEft ≤ x ∧ x ≤ s.maxEft) :
    costOf maxAllow minAllow s ≤ 0 ↔ ∀ x ∈ s.hpEft, minAllow ≤ x ∧ x ≤ maxAllow := by
  unfold costOf
  rw [excess_def, max_le_iff]
  constructor
  · intro ⟨h1, h2⟩ x hx
    obtain ⟨a, b⟩ := hb x hx
    exact ⟨by linarith, by linarith⟩
  · intro h
    exact ⟨by linarith [(h _ hmax).2], by linarith [(h _ hmin).1]⟩

/-! ### 5. Unit handling of `GHE.simulate` (kW→W, hours→seconds, field→per borehole, sign) -/

/-- `hybrid_formula`: whenever `GHE.simulate(HYBRID)` succeeds, there is one result per stored
    load after the two leading zeros, and step `n` is the documented formula with
    `q_i = 1000·load[i+1]` (kW → W), `t_i = hour[i+1]` (hours; `·3600/t_s` inside `g(ln ·)`),
    per-borehole division by `N`; the returned pair are the extremes of the list. -/
theorem hybrid_formula (load hour : List Rat) (gln : Rat → Rat) (ts : Rat) (P : Params) (s : SimOut)
    (h : ghSimulateHybrid load hour gln ts P = .ok s) :
    let Q : Nat → Rat := fun i => if i = 0 then 0 else 1000 * load.getD (i + 1) 0
    let T : Nat → Rat := fun i => if i = 0 then 0 else hour.getD (i + 1) 0
    load.length - 2 ≤ hour.length - 2 ∧ 0 < load.length - 2 ∧
    s.hpEft.length = load.length - 2 ∧ s.dTb.length = load.length - 2 ∧
    (∀ n, 1 ≤ n → n ≤ load.length - 2 →
      s.hpEft.getD (n - 1) 0 =
        P.Tg + (∑ i ∈ Finset.Icc 1 n,
                  (Q i - Q (i - 1)) * gln ((T n - T (i - 1)) * 3600 / ts) / (P.twoPiK * P.H * (P.N : Rat)))
          + Q n * P.Rb / (P.H * (P.N : Rat)) - Q n / (2 * P.mdot * P.cp * (P.N : Rat)) ∧
      s.dTb.getD (n - 1) 0 =
        ∑ i ∈ Finset.Icc 1 n,
          (Q i - Q (i - 1)) * gln ((T n - T (i - 1)) * 3600 / ts) / (P.twoPiK * P.H * (P.N : Rat))) ∧
    s.maxEft ∈ s.hpEft ∧ s.minEft ∈ s.hpEft ∧ (∀ x ∈ s.hpEft, s.minEft ≤ x ∧ x ≤ s.maxEft) := by
  intro Q T
  unfold ghSimulateHybrid at h
  obtain ⟨r, hr, hf⟩ := bind_ok h
  obtain ⟨f1, f2, f3, f4, f5, f6⟩ := finishSim_ok hf
  set q := (load.drop Gen.simHybridLoadDrop).map (fun x => x * Gen.simKwToW) with hq
  set t := hour.drop Gen.simHybridHourDrop with htdef
  have hql : q.length = load.length - 2 := by simp [hq, Gen.simHybridLoadDrop]
  have htl : t.length = hour.length - 2 := by simp [htdef, Gen.simHybridHourDrop]
  obtain ⟨ht, e1, e2⟩ := simulateDetailed_result hr
  have hne : 0 < q.length := by
    rcases Nat.eq_zero_or_pos q.length with h0 | h0
    · exfalso
      have : r.1 = [] := by rw [e1, h0]; rfl
      rw [finishSim_nil this] at hf
      cases hf
    · exact h0
  have hQ : ∀ i, qn q i = Q i := by
    intro i
    unfold qn
    by_cases hi : i = 0
    · simp [hi, Q]
    · simp only [hi, if_false, Q]
      rw [hq, drop_map_getD]
      have : i - 1 + Gen.simHybridLoadDrop = i + 1 := by simp [Gen.simHybridLoadDrop]; omega
      rw [this]
      rfl
  have hT : ∀ i, (timeAxis t).getD i 0 = T i := by
    intro i
    rw [timeAxis_getD]
    by_cases hi : i = 0
    · simp [hi, T]
    · simp only [hi, if_false, T]
      rw [htdef, drop_getD]
      have : i - 1 + Gen.simHybridHourDrop = i + 1 := by simp [Gen.simHybridHourDrop]; omega
      rw [this]
  refine ⟨by omega, by omega, ?_, ?_, ?_, by rw [f1]; exact f3, by rw [f1]; exact f4, ?_⟩
  · rw [f1, e1]; simp [loopIndices_length, hql]
  · rw [f2, e2]; simp [loopIndices_length, hql]
  · intro n h1 hn
    obtain ⟨k, rfl⟩ : ∃ k, n = k + 1 := ⟨n - 1, by omega⟩
    simp only [Nat.add_sub_cancel]
    rw [f1, f2, e1, e2, map_loopIndices_getD _ _ _ (by omega), map_loopIndices_getD _ _ _ (by omega),
      eftStep_eq_formula q _ P (k + 1) (by omega), deltaTb_eq_formulaTb q _ P (k + 1) (by omega)]
    unfold formula formulaTb Gof
    simp only [hQ, hT]
    have h3600 : ((Gen.SEC_IN_HR : Int) : Rat) = 3600 := by decide +kernel
    rw [h3600]
    exact ⟨rfl, rfl⟩
  · intro x hx
    rw [f1] at hx
    exact ⟨f6 x hx, f5 x hx⟩

/-- `hourly_formula`: for an 8760-hour load list and a horizon of `y ≥ 1` whole years
    `GHE.simulate(HOURLY)` succeeds with `8760·y` steps, and step `n` is the documented formula with
    `q_i = −loads[(i−1) mod 8760]` (extraction → rejection, the year repeated) and `t_i = i` hours. -/
theorem hourly_formula (loads : List Rat) (hl : loads.length = 8760) (y : Nat) (hy : 1 ≤ y) (s : Int)
    (gln : Rat → Rat) (ts : Rat) (P : Params) :
    let Q : Nat → Rat := fun i => if i = 0 then 0 else -loads.getD ((i - 1) % 8760) 0
    ∃ out, ghSimulateHourly loads s (s + 12 * y - 1) gln ts P = .ok out ∧
      out.hpEft.length = 8760 * y ∧ out.dTb.length = 8760 * y ∧
      (∀ n, 1 ≤ n → n ≤ 8760 * y →
        out.hpEft.getD (n - 1) 0 =
          P.Tg + (∑ i ∈ Finset.Icc 1 n,
                    (Q i - Q (i - 1)) * gln ((((n : Rat) - ((i - 1 : Nat) : Rat))) * 3600 / ts) / (P.twoPiK * P.H * (P.N : Rat)))
            + Q n * P.Rb / (P.H * (P.N : Rat)) - Q n / (2 * P.mdot * P.cp * (P.N : Rat)) ∧
        out.dTb.getD (n - 1) 0 =
          ∑ i ∈ Finset.Icc 1 n,
            (Q i - Q (i - 1)) * gln ((((n : Rat) - ((i - 1 : Nat) : Rat))) * 3600 / ts) / (P.twoPiK * P.H * (P.N : Rat))) ∧
      out.maxEft ∈ out.hpEft ∧ out.minEft ∈ out.hpEft ∧ (∀ x ∈ out.hpEft, out.minEft ≤ x ∧ x ≤ out.maxEft) := by
  intro Q
  unfold ghSimulateHourly
  rw [hourlyInputs_whole_years loads hl y hy s]
  set q := ((List.replicate y loads).flatten).map (fun x => (-1 : Rat) * x) with hq
  have hcast : (8760 * (y : Int) + 1) = (((8760 * y : Nat) : Int) + 1) := by push_cast; ring
  rw [hcast]
  set t := (pyRange 1 (((8760 * y : Nat) : Int) + 1)).map (fun (k : Int) => (k : Rat)) with htdef
  have hql : q.length = 8760 * y := by
    simp [hq, List.length_flatten, List.map_replicate, List.sum_replicate, hl, Nat.mul_comm]
  have htl : t.length = 8760 * y := pyRange_cast_length _
  simp only []
  rw [simulateDetailed_ok q t _ P (by omega)]
  set r : List Rat × List Rat :=
    ((loopIndices q.length).map (fun i => eftStep q (Gof gln ts (timeAxis t)) P i),
     (loopIndices q.length).map (fun i => deltaTb q (Gof gln ts (timeAxis t)) P i)) with hr
  have hne : r.1 ≠ [] := by
    intro h
    have : r.1.length = 0 := by rw [h]; rfl
    simp [hr, loopIndices_length, hql] at this
    omega
  have hfin : ∃ out, finishSim r = .ok out := by
    unfold finishSim
    cases h1 : r.1 with
    | nil => exact absurd h1 hne
    | cons x xs => exact ⟨_, rfl⟩
  obtain ⟨out, hout⟩ := hfin
  refine ⟨out, hout, ?_⟩
  obtain ⟨f1, f2, f3, f4, f5, f6⟩ := finishSim_ok hout
  have hQ : ∀ i, i ≤ 8760 * y → qn q i = Q i := by
    intro i hi
    unfold qn
    by_cases h0 : i = 0
    · simp [h0, Q]
    · simp only [h0, if_false, Q]
      rw [hq]
      simp only [List.getD_eq_getElem?_getD, List.getElem?_map]
      have hk : i - 1 < y * loads.length := by rw [hl, Nat.mul_comm]; omega
      have := flatten_replicate_getD loads y (i - 1) hk
      simp only [List.getD_eq_getElem?_getD] at this
      have hlt : i - 1 < ((List.replicate y loads).flatten).length := by
        simp [List.length_flatten, List.map_replicate, List.sum_replicate]; exact hk
      rw [List.getElem?_eq_getElem hlt] at this ⊢
      simp only [Option.map_some, Option.getD_some] at this ⊢
      rw [this, hl]
      ring
  have hT : ∀ i, i ≤ 8760 * y → (timeAxis t).getD i 0 = (i : Rat) := by
    intro i hi
    rw [timeAxis_getD]
    by_cases h0 : i = 0
    · simp [h0]
    · simp only [h0, if_false]
      rw [htdef, pyRange_cast_getD _ _ (by omega)]
      have : ((i - 1 : Nat) : Rat) = (i : Rat) - 1 := by
        rw [Nat.cast_sub (by omega)]; simp
      rw [this]; ring
  refine ⟨?_, ?_, ?_, by rw [f1]; exact f3, by rw [f1]; exact f4, ?_⟩
  · rw [f1, hr]; simp [loopIndices_length, hql]
  · rw [f2, hr]; simp [loopIndices_length, hql]
  · intro n h1 hn
    obtain ⟨k, rfl⟩ : ∃ k, n = k + 1 := ⟨n - 1, by omega⟩
    simp only [Nat.add_sub_cancel]
    rw [f1, f2, hr]
    simp only []
    rw [map_loopIndices_getD _ _ _ (by omega), map_loopIndices_getD _ _ _ (by omega),
      eftStep_eq_formula q _ P (k + 1) (by omega), deltaTb_eq_formulaTb q _ P (k + 1) (by omega)]
    unfold formula formulaTb Gof
    have h3600 : ((Gen.SEC_IN_HR : Int) : Rat) = 3600 := by decide +kernel
    rw [h3600, hQ (k + 1) hn, hT (k + 1) hn]
    have hsum : ∀ i ∈ Finset.Icc 1 (k + 1),
        (qn q i - qn q (i - 1)) * gln ((((k + 1 : Nat) : Rat) - (timeAxis t).getD (i - 1) 0) * 3600 / ts) / (P.twoPiK * P.H * (P.N : Rat))
        = (Q i - Q (i - 1)) * gln ((((k + 1 : Nat) : Rat) - ((i - 1 : Nat) : Rat)) * 3600 / ts) / (P.twoPiK * P.H * (P.N : Rat)) := by
      intro i hi
      rw [Finset.mem_Icc] at hi
      rw [hQ i (by omega), hQ (i - 1) (by omega), hT (i - 1) (by omega)]
    rw [Finset.sum_congr rfl hsum]
    exact ⟨rfl, rfl⟩
  · intro x hx
    rw [f1] at hx
    exact ⟨f6 x hx, f5 x hx⟩

/-- `hourly_repeated_formula` (the replication branch after the repair 05a458d,
    `q_dot = (q_dot * n_years)[:n_hours]`): a horizon of `12a + b` months, `0 < b ≤ 12` (so
    `n_years = a + 1`), and a load list of at most `a` whole years whose `a + 1` copies cover the
    horizon.  The run succeeds over exactly `n_hours = 730·(12a + b)` steps and satisfies
    `HourlySpec` (Lemmas/Superpose.lean): step `k` is the documented formula with
    `q_i = −loads[(i−1) mod len]`, `t_i = i` hours; `dTb` is the sum; the returned pair are the
    extremes.  The horizon need not be a whole number of copies of the list: it ends inside the
    last copy. -/
theorem hourly_repeated_formula (loads : List Rat) (a b : Nat) (hb0 : 0 < b) (hb : b ≤ 12)
    (hrep : loads.length / 8760 ≤ a) (hcover : 730 * (12 * a + b) ≤ (a + 1) * loads.length)
    (s e : Int) (hm : e - s + 1 = 12 * (a : Int) + b) (gln : Rat → Rat) (ts : Rat) (P : Params) :
    ∃ out, ghSimulateHourly loads s e gln ts P = .ok out ∧
      HourlySpec loads (730 * (12 * a + b)) gln ts P out := by
  unfold ghSimulateHourly
  rw [hourlyInputs_repeated loads a b hb0 hb hrep s e hm]
  set n := 730 * (12 * a + b) with hn
  set flat := (List.replicate (a + 1) loads).flatten with hflat
  have hflen : flat.length = (a + 1) * loads.length := by
    simp [hflat, List.length_flatten, List.map_replicate, List.sum_replicate]
  set q := (flat.take n).map (fun x => (-1 : Rat) * x) with hq
  set t := (pyRange 1 ((n : Int) + 1)).map (fun (k : Int) => (k : Rat)) with htdef
  have hql : q.length = n := by simp [hq, hflen]; omega
  have htl : t.length = n := pyRange_cast_length _
  have hnpos : 0 < n := by omega
  simp only []
  rw [simulateDetailed_ok q t _ P (by omega)]
  set r : List Rat × List Rat :=
    ((loopIndices q.length).map (fun i => eftStep q (Gof gln ts (timeAxis t)) P i),
     (loopIndices q.length).map (fun i => deltaTb q (Gof gln ts (timeAxis t)) P i)) with hr
  have hne : r.1 ≠ [] := by
    intro h
    have : r.1.length = 0 := by rw [h]; rfl
    simp [hr, loopIndices_length, hql] at this
    omega
  have hfin : ∃ out, finishSim r = .ok out := by
    unfold finishSim
    cases h1 : r.1 with
    | nil => exact absurd h1 hne
    | cons x xs => exact ⟨_, rfl⟩
  obtain ⟨out, hout⟩ := hfin
  refine ⟨out, hout, ?_⟩
  obtain ⟨f1, f2, f3, f4, f5, f6⟩ := finishSim_ok hout
  unfold HourlySpec
  intro Q
  have hQ : ∀ i, i ≤ n → qn q i = Q i := by
    intro i hi
    unfold qn
    by_cases h0 : i = 0
    · simp [h0, Q]
    · simp only [h0, if_false, Q]
      rw [hq]
      have hk : i - 1 < (a + 1) * loads.length := by omega
      have hkn : i - 1 < n := by omega
      have := flatten_replicate_getD loads (a + 1) (i - 1) hk
      simp only [List.getD_eq_getElem?_getD, List.getElem?_map, List.getElem?_take, hkn, if_true] at this ⊢
      have hlt : i - 1 < flat.length := by rw [hflen]; exact hk
      rw [List.getElem?_eq_getElem hlt] at this ⊢
      simp only [Option.map_some, Option.getD_some] at this ⊢
      rw [this]
      ring
  have hT : ∀ i, i ≤ n → (timeAxis t).getD i 0 = (i : Rat) := by
    intro i hi
    rw [timeAxis_getD]
    by_cases h0 : i = 0
    · simp [h0]
    · simp only [h0, if_false]
      rw [htdef, pyRange_cast_getD _ _ (by omega)]
      have : ((i - 1 : Nat) : Rat) = (i : Rat) - 1 := by
        rw [Nat.cast_sub (by omega)]; simp
      rw [this]; ring
  refine ⟨?_, ?_, ?_, by rw [f1]; exact f3, by rw [f1]; exact f4, ?_⟩
  · rw [f1, hr]; simp [loopIndices_length, hql]
  · rw [f2, hr]; simp [loopIndices_length, hql]
  · intro k h1 hk
    obtain ⟨j, rfl⟩ : ∃ j, k = j + 1 := ⟨k - 1, by omega⟩
    simp only [Nat.add_sub_cancel]
    rw [f1, f2, hr]
    simp only []
    rw [map_loopIndices_getD _ _ _ (by omega), map_loopIndices_getD _ _ _ (by omega),
      eftStep_eq_formula q _ P (j + 1) (by omega), deltaTb_eq_formulaTb q _ P (j + 1) (by omega)]
    unfold formula formulaTb Gof
    have h3600 : ((Gen.SEC_IN_HR : Int) : Rat) = 3600 := by decide +kernel
    rw [h3600, hQ (j + 1) hk, hT (j + 1) hk]
    have hsum : ∀ i ∈ Finset.Icc 1 (j + 1),
        (qn q i - qn q (i - 1)) * gln ((((j + 1 : Nat) : Rat) - (timeAxis t).getD (i - 1) 0) * 3600 / ts) / (P.twoPiK * P.H * (P.N : Rat))
        = (Q i - Q (i - 1)) * gln ((((j + 1 : Nat) : Rat) - ((i - 1 : Nat) : Rat)) * 3600 / ts) / (P.twoPiK * P.H * (P.N : Rat)) := by
      intro i hi
      rw [Finset.mem_Icc] at hi
      rw [hQ i (by omega), hQ (i - 1) (by omega), hT (i - 1) (by omega)]
    rw [Finset.sum_congr rfl hsum]
    exact ⟨rfl, rfl⟩
  · intro x hx
    rw [f1] at hx
    exact ⟨f6 x hx, f5 x hx⟩

/-- The inputs that raised IndexError before the repair, first family: an 8760-hour list with a
    horizon of more than 12 months that is not a whole number of years now runs over exactly
    `730·n_months` steps with the year repeated. -/
theorem hourly_partial_year_succeeds (loads : List Rat) (hl : loads.length = 8760) (a b : Nat)
    (ha : 1 ≤ a) (hb0 : 0 < b) (hb : b < 12) (s e : Int) (hm : e - s + 1 = 12 * (a : Int) + b)
    (gln : Rat → Rat) (ts : Rat) (P : Params) :
    ∃ out, ghSimulateHourly loads s e gln ts P = .ok out ∧
      HourlySpec loads (730 * (12 * a + b)) gln ts P out :=
  hourly_repeated_formula loads a b hb0 (by omega) (by rw [hl]; omega) (by rw [hl]; omega) s e hm gln ts P

/-- Second family: `k ≥ 2` whole years of loads and a horizon of `y > k` whole years now run over
    exactly `8760·y` steps with the list repeated. -/
theorem hourly_multiyear_list_succeeds (loads : List Rat) (k y : Nat) (hl : loads.length = 8760 * k) (hk : 2 ≤ k)
    (hy : k < y) (s : Int) (gln : Rat → Rat) (ts : Rat) (P : Params) :
    ∃ out, ghSimulateHourly loads s (s + 12 * y - 1) gln ts P = .ok out ∧
      HourlySpec loads (8760 * y) gln ts P out := by
  have h := hourly_repeated_formula loads (y - 1) 12 (by decide) (le_refl _)
    (by rw [hl, Nat.mul_div_cancel_left _ (by decide : 0 < 8760)]; omega)
    (by
      rw [hl]
      have h1 : y - 1 + 1 = y := by omega
      rw [h1]
      calc 730 * (12 * (y - 1) + 12) = 8760 * y := by omega
        _ = y * (8760 * 1) := by ring
        _ ≤ y * (8760 * k) := Nat.mul_le_mul_left _ (Nat.mul_le_mul_left _ (by omega)))
    s (s + 12 * y - 1) (by push_cast [Nat.cast_sub (by omega : 1 ≤ y)]; ring) gln ts P
  have e : 730 * (12 * (y - 1) + 12) = 8760 * y := by omega
  rw [e] at h
  exact h

/-- `hourly_never_index_error`: after the repair no horizon / list length makes the hourly method
    index past its time axis — for every load list and every pair of months the run either
    succeeds or (empty result only) raises the ValueError of `max([])`. -/
theorem hourly_never_index_error (loads : List Rat) (s e : Int) (gln : Rat → Rat) (ts : Rat) (P : Params) :
    ghSimulateHourly loads s e gln ts P ≠ .error .indexError := by
  unfold ghSimulateHourly
  simp only []
  rw [simulateDetailed_ok _ _ _ P (hourlyInputs_axis_long_enough loads s e)]
  intro h
  change finishSim _ = _ at h
  unfold finishSim at h
  split at h <;> cases h

/-! ### Non-vacuity -/

/-- A concrete parameter set / `G` used by the examples (4 boreholes of 100 m, `G n i = n − i + 1`). -/
def exP : Params := ⟨100, 12, 15, 1 / 10, 1 / 2, 4000, 4⟩
def exG : Nat → Nat → Rat := fun n i => ((n + 1 - i : Nat) : Rat)

-- eft_formula / zero_load / linear / additive / shift: the success hypothesis holds for every
-- input with a long enough time axis, and the model really computes numbers:
example (q t : List Rat) (G : Nat → Nat → Rat) (P : Params) (ht : q.length ≤ t.length) :
    ∃ r, simulateDetailed q t G P = .ok r := ⟨_, simulateDetailed_ok q t G P ht⟩
example : (match simulateDetailed [4800, -2400] [1, 2] exG exP with
           | .ok r => r.1 == [15 + 1 + 12 / 10 - 3 / 10, 15 + (2 - 3 / 2) - 6 / 10 + 15 / 100] && r.2 == [1, 1 / 2]
           | .error _ => false) = true := by decide +kernel
example : simulateDetailed [0, 0, 0] [1, 2, 3] exG exP = .ok (List.replicate 3 exP.Tg, List.replicate 3 0) :=
  zero_load [0, 0, 0] [1, 2, 3] exG exP (by simp) (by simp)
-- time_axis_too_short
example : simulateDetailed [1, 2, 3] [1, 2] exG exP = .error .indexError :=
  time_axis_too_short _ _ _ _ (by decide)
-- sign_of_departure: its hypotheses are satisfiable (and give the conclusion on this instance)
example : exP.Tg ≤ ((loopIndices 2).map (fun i => eftStep [4800, 100] exG exP i)).getD 1 0 :=
  (sign_of_departure [4800, 100] [1, 2] exG exP _ (simulateDetailed_ok _ _ _ _ (by decide))
    (by decide +kernel) (by decide +kernel) (by decide) 2 (by decide) (by decide)
    (by intro i h1 h2; have : i = 1 := by omega
        subst this; decide +kernel)
    (by decide +kernel)).1 (by intro x hx; simp at hx; rcases hx with rfl | rfl <;> decide +kernel)
-- hybrid_formula: a run that succeeds
example : (ghSimulateHybrid [0, 0, 3, -1] [0, 0, 5, 9] (fun x => x) 7200 exP).toOption.isSome = true := by
  decide +kernel
-- hourly_formula: the hypotheses are satisfiable
example : ∃ out, ghSimulateHourly (List.replicate 8760 1) 1 (1 + 12 * (2 : Nat) - 1) (fun x => x) 7200 exP = .ok out :=
  let ⟨out, h, _⟩ := hourly_formula (List.replicate 8760 1) List.length_replicate 2 (by decide) 1 (fun x => x) 7200 exP
  ⟨out, h⟩
-- the former IndexError inputs (13 months with a one-year list; 36 months with a two-year list)
example : ∃ out, ghSimulateHourly (List.replicate 8760 1) 1 13 (fun x => x) 7200 exP = .ok out ∧ out.hpEft.length = 9490 :=
  let ⟨out, h, hs⟩ := hourly_partial_year_succeeds (List.replicate 8760 1) List.length_replicate 1 1 (by decide) (by decide)
    (by decide) 1 13 (by decide) (fun x => x) 7200 exP
  ⟨out, h, hs.1⟩
example : ∃ out, ghSimulateHourly (List.replicate (8760 * 2) 1) 1 (1 + 12 * (3 : Nat) - 1) (fun x => x) 7200 exP = .ok out ∧
    out.hpEft.length = 26280 :=
  let ⟨out, h, hs⟩ := hourly_multiyear_list_succeeds (List.replicate (8760 * 2) 1) 2 3 List.length_replicate (by decide) (by decide)
    1 (fun x => x) 7200 exP
  ⟨out, h, hs.1⟩
-- hourly_repeated_formula with a horizon that is not a whole number of copies: 1000 loads, 1 month
example : ∃ out, ghSimulateHourly (List.replicate 1000 1) 1 1 (fun x => x) 7200 exP = .ok out ∧ out.hpEft.length = 730 :=
  let ⟨out, h, hs⟩ := hourly_repeated_formula (List.replicate 1000 1) 0 1 (by decide) (by decide)
    (by rw [List.length_replicate]) (by rw [List.length_replicate]; decide) 1 1 (by decide) (fun x => x) 7200 exP
  ⟨out, h, hs.1⟩
-- excess_nonpos_iff
example : costOf 35 5 ⟨[20, 30], [0, 0], 30, 20⟩ ≤ 0 :=
  (excess_nonpos_iff 35 5 ⟨[20, 30], [0, 0], 30, 20⟩ (by simp) (by simp)
    (by intro x hx; simp at hx; rcases hx with rfl | rfl <;> constructor <;> decide +kernel)).2
    (by intro x hx; simp at hx; rcases hx with rfl | rfl <;> constructor <;> decide +kernel)

end GHEVerif.C09
