/-
  C11 — Combined g-function is well formed and interpolation-consistent.
  Property theorems only; helper lemmas live in GHEVerif/Lemmas/GJoin.lean, the executable model in
  GHEVerif/Model/GJoin.lean.  The comparison operators of `combine_sts_lts`, the tolerances and the
  kind ladder of `g_function_interpolation` are `Gen.GJoinConsts.*`, regenerated from
  ground_heat_exchangers.py / gfunction.py on every check: flipping `<=` in the scan, or changing a
  tolerance or a threshold, breaks `source_constants_as_transcribed` and the theorems built on it.

  Not theorems (decided by differential runs in harness/c11.py): 4–5 stored heights (scipy's
  not-a-knot splines; the model solves the same collocation system over `Rat`), and the analytical
  finite-line-source anchor (a statement about pygfunction's quadrature).
-/
import GHEVerif.Lemmas.GJoin
import Mathlib.Analysis.SpecialFunctions.Log.Basic

namespace GHEVerif.C11
open GHEVerif GHEVerif.GJoin

theorem source_constants_as_transcribed :
    Gen.GJoinConsts.branchOp = .lt ∧ Gen.GJoinConsts.scanOp = .le ∧
    Gen.GJoinConsts.nCubic = 5 ∧ Gen.GJoinConsts.nQuadratic = 3 ∧ Gen.GJoinConsts.nLinear = 2 ∧
    Gen.GJoinConsts.reqLinear = 2 ∧ Gen.GJoinConsts.reqQuadratic = 3 ∧ Gen.GJoinConsts.reqCubic = 4 ∧
    Gen.GJoinConsts.reqLagrange = 2 ∧
    |Gen.GJoinConsts.tolerance - 1 / 1000| < 1 / 10 ^ 18 ∧
    |Gen.GJoinConsts.closeTolerance - 1 / 10 ^ 6| < 1 / 10 ^ 21 := by
  refine ⟨rfl, rfl, rfl, rfl, rfl, rfl, rfl, rfl, rfl, ?_, ?_⟩
  · unfold Gen.GJoinConsts.tolerance; rw [abs_lt]; constructor <;> norm_num
  · unfold Gen.GJoinConsts.closeTolerance; rw [abs_lt]; constructor <;> norm_num

theorem eskilson_axis_strictly_increasing :
    Gen.eskilsonLogTimes.Pairwise (· < ·) ∧ Gen.eskilsonLogTimes.head? = some (-17 / 2) ∧
    Gen.eskilsonLogTimes.length = 27 := by
  refine ⟨?_, ?_, rfl⟩
  · unfold Gen.eskilsonLogTimes; simp only [List.pairwise_cons, List.mem_cons, List.not_mem_nil, or_false, forall_eq_or_imp, forall_eq]; norm_num
  · unfold Gen.eskilsonLogTimes; norm_num

/-- **Join, well-formed case (both branches).**  Both inputs strictly increasing, no short-time
    abscissa equal to the first long-time abscissa `m`.  There is a cut index `i` (depending on the
    abscissae only) such that, for every pair of ordinate lists of matching lengths, the code
    returns the first `i` short-time points followed by *all* long-time points; the joined axis is
    strictly increasing; the kept short-time abscissae are exactly those below `m` (all the dropped
    ones are above it); and `i` is the whole short-time list iff all of it lies below `m`
    (the `max_sts < min_lts` branch) — every input falls in one of the two branches. -/
theorem join_strictly_increasing (m : Rat) (ltsRest stsT : List Rat)
    (hsts : stsT.Pairwise (· < ·)) (hlts : (m :: ltsRest).Pairwise (· < ·)) (hne : stsT ≠ [])
    (hneq : ∀ x ∈ stsT, x ≠ m) :
    ∃ i, i ≤ stsT.length ∧
      (stsT.take i ++ m :: ltsRest).Pairwise (· < ·) ∧
      (∀ x ∈ stsT.take i, x < m) ∧ (∀ x ∈ stsT.drop i, m < x) ∧
      (i = stsT.length ↔ ∀ x ∈ stsT, x < m) ∧
      ∀ (ltsG stsG : List Rat), stsG.length = stsT.length → ltsG.length = (m :: ltsRest).length →
        combineStsLts (m :: ltsRest) ltsG stsT stsG
          = .ok ((stsT.take i ++ m :: ltsRest).zip (stsG.take i ++ ltsG)) ∧
        (stsT.take i ++ m :: ltsRest).length = (stsG.take i ++ ltsG).length := by
  obtain ⟨mx, hmx, hmxm, hmxle⟩ := pyMaxL_spec stsT hne
  have hmn := pyMinL_sorted m ltsRest hlts
  -- what is needed of a cut index
  have key : ∀ i, i ≤ stsT.length → (∀ x ∈ stsT.take i, x < m) → (∀ x ∈ stsT.drop i, m < x) →
      (∀ (ltsG stsG : List Rat), stsG.length = stsT.length →
        joinLists (m :: ltsRest) ltsG stsT stsG = .ok (stsT.take i ++ m :: ltsRest, stsG.take i ++ ltsG)) →
      ∃ i, i ≤ stsT.length ∧
      (stsT.take i ++ m :: ltsRest).Pairwise (· < ·) ∧
      (∀ x ∈ stsT.take i, x < m) ∧ (∀ x ∈ stsT.drop i, m < x) ∧
      (i = stsT.length ↔ ∀ x ∈ stsT, x < m) ∧
      ∀ (ltsG stsG : List Rat), stsG.length = stsT.length → ltsG.length = (m :: ltsRest).length →
        combineStsLts (m :: ltsRest) ltsG stsT stsG
          = .ok ((stsT.take i ++ m :: ltsRest).zip (stsG.take i ++ ltsG)) ∧
        (stsT.take i ++ m :: ltsRest).length = (stsG.take i ++ ltsG).length := by
    intro i hi hlo hhi hj
    have hpw : (stsT.take i ++ m :: ltsRest).Pairwise (· < ·) := by
      rw [List.pairwise_append]
      refine ⟨hsts.sublist (List.take_sublist _ _), hlts, ?_⟩
      intro a ha b hb
      rcases List.mem_cons.mp hb with rfl | hb
      · exact hlo a ha
      · exact lt_trans (hlo a ha) (List.rel_of_pairwise_cons hlts hb)
    refine ⟨i, hi, hpw, hlo, hhi, ?_, ?_⟩
    · constructor
      · intro e x hx
        have : stsT.take i = stsT := by rw [e]; exact List.take_length
        exact hlo x (by rw [this]; exact hx)
      · intro hall
        by_contra hne'
        have hlt : i < stsT.length := lt_of_le_of_ne hi hne'
        have hmem : stsT[i] ∈ stsT.drop i := by
          rw [List.mem_drop_iff_getElem]
          exact ⟨0, by simpa using hlt, by simp⟩
        exact absurd (hall _ (List.getElem_mem hlt)) (not_lt.mpr (le_of_lt (hhi _ hmem)))
    · intro ltsG stsG hgs hgl
      have hlen : (stsT.take i ++ m :: ltsRest).length = (stsG.take i ++ ltsG).length := by
        simp only [List.length_append, List.length_take, hgs, hgl]
      refine ⟨?_, hlen⟩
      unfold combineStsLts
      rw [hj ltsG stsG hgs]
      simp only [bind, Except.bind, interp1dCtor, hlen, ne_eq, not_true_eq_false, if_false]
      have : ¬ (stsG.take i ++ ltsG).length = 0 := by
        rw [← hlen]; simp
      simp only [this, if_false]
      congr 1
      exact sortPairs_of_sorted _ (zip_pairwise_fst _ _ (le_of_eq hlen) hpw)
  by_cases hbr : mx < m
  · -- plain concatenation
    apply key stsT.length (le_refl _)
    · intro x hx; rw [List.take_length] at hx; exact lt_of_le_of_lt (hmxle x hx) hbr
    · intro x hx; simp at hx
    · intro ltsG stsG hgs
      unfold joinLists
      simp only [hmx, hmn, bind, Except.bind, branchOp_eval, hbr, decide_true, if_true, pure, Except.pure,
        List.take_length]
      rw [← hgs, List.take_length]
  · -- truncation at the first short-time point above m
    have hgt : m < mx := lt_of_le_of_ne (not_lt.mp hbr) (Ne.symm (hneq mx hmxm))
    obtain ⟨j, hscan, hj, htake, y, hy, hmy⟩ := scanStop_spec m stsT 0 ⟨mx, hmxm, hgt⟩
    apply key j (le_of_lt hj)
    · intro x hx
      exact lt_of_le_of_ne (htake x hx) (hneq x (List.mem_of_mem_take hx))
    · intro x hx
      have hyj : stsT[j] = y := by
        have := List.getElem?_eq_getElem hj
        rw [this] at hy; exact Option.some.inj hy
      have hd : stsT.drop j = stsT[j] :: stsT.drop (j + 1) := List.drop_eq_getElem_cons hj
      rw [hd] at hx
      rcases List.mem_cons.mp hx with rfl | hx
      · rw [hyj]; exact hmy
      · have hpd : (stsT.drop j).Pairwise (· < ·) := hsts.sublist (List.drop_sublist _ _)
        rw [hd] at hpd
        have := List.rel_of_pairwise_cons hpd hx
        rw [hyj] at this; exact lt_trans hmy this
    · intro ltsG stsG _
      unfold joinLists
      simp only [hmx, hmn, bind, Except.bind, branchOp_eval, hbr, decide_false, hscan, pure, Except.pure]
      simp

/-- **The joined curve reproduces its parts.**  Calling the returned `interp1d` at any joined
    abscissa returns the joined ordinate: the (radius-corrected) long-time values on the long-time
    points and the short-time values on the kept short-time points. -/
theorem join_values_reproduced (m : Rat) (ltsRest ltsG stsT stsG : List Rat)
    (hsts : stsT.Pairwise (· < ·)) (hlts : (m :: ltsRest).Pairwise (· < ·)) (hne : stsT ≠ [])
    (hneq : ∀ x ∈ stsT, x ≠ m)
    (hgs : stsG.length = stsT.length) (hgl : ltsG.length = (m :: ltsRest).length) :
    ∃ tbl, combineStsLts (m :: ltsRest) ltsG stsT stsG = .ok tbl ∧
      (∀ p ∈ tbl, callInterp tbl p.1 = .ok p.2) ∧
      (∀ k (hk : k < (m :: ltsRest).length) (hk' : k < ltsG.length),
          callInterp tbl ((m :: ltsRest)[k]) = .ok ltsG[k]) ∧
      (∀ k (hk : k < stsT.length) (hk' : k < stsG.length), stsT[k] < m →
          callInterp tbl stsT[k] = .ok stsG[k]) := by
  obtain ⟨i, hi, hpw, hlo, hhi, _, hall⟩ := join_strictly_increasing m ltsRest stsT hsts hlts hne hneq
  obtain ⟨hc, hlen⟩ := hall ltsG stsG hgs hgl
  have hs : ((stsT.take i ++ m :: ltsRest).zip (stsG.take i ++ ltsG)).Pairwise (fun a b => a.1 < b.1) :=
    zip_pairwise_fst _ _ (le_of_eq hlen) hpw
  have hnode : ∀ p ∈ (stsT.take i ++ m :: ltsRest).zip (stsG.take i ++ ltsG),
      callInterp ((stsT.take i ++ m :: ltsRest).zip (stsG.take i ++ ltsG)) p.1 = .ok p.2 := by
    intro p hp
    unfold callInterp
    rw [outOfBounds_node _ hs p hp, linEval_at_node _ hs p hp]; rfl
  have hti : (stsT.take i).length = i := by simp [List.length_take, hi]
  have hgi : (stsG.take i).length = i := by simp [List.length_take, hgs, hi]
  refine ⟨_, hc, hnode, ?_, ?_⟩
  · intro k hk hk'
    have h1 : i + k < (stsT.take i ++ m :: ltsRest).length := by
      rw [List.length_append, hti]; omega
    have h2 : i + k < (stsG.take i ++ ltsG).length := by rw [← hlen]; exact h1
    have hmem : ((m :: ltsRest)[k], ltsG[k]) ∈ (stsT.take i ++ m :: ltsRest).zip (stsG.take i ++ ltsG) := by
      rw [List.mem_iff_getElem]
      refine ⟨i + k, by rw [List.length_zip, ← hlen, Nat.min_self]; exact h1, ?_⟩
      rw [List.getElem_zip]
      congr 1
      · rw [List.getElem_append_right (by rw [hti]; omega)]; simp [hti]
      · rw [List.getElem_append_right (by rw [hgi]; omega)]; simp [hgi]
    exact hnode ((m :: ltsRest)[k], ltsG[k]) hmem
  · intro k hk hk' hlt
    have hki : k < i := by
      by_contra hge
      have hmem : stsT[k] ∈ stsT.drop i := by
        rw [List.mem_drop_iff_getElem]
        exact ⟨k - i, by omega, by congr 1; omega⟩
      exact absurd hlt (not_lt.mpr (le_of_lt (hhi _ hmem)))
    have h1 : k < (stsT.take i ++ m :: ltsRest).length := by
      rw [List.length_append, hti]; omega
    have hmem : (stsT[k], stsG[k]) ∈ (stsT.take i ++ m :: ltsRest).zip (stsG.take i ++ ltsG) := by
      rw [List.mem_iff_getElem]
      refine ⟨k, by rw [List.length_zip, ← hlen, Nat.min_self]; exact h1, ?_⟩
      rw [List.getElem_zip]
      congr 1
      · rw [List.getElem_append_left (by rw [hti]; exact hki)]; simp
      · rw [List.getElem_append_left (by rw [hgi]; exact hki)]; simp
    exact hnode (stsT[k], stsG[k]) hmem

/-- **Boundary, excluded from the well-formed case:** the last short-time abscissa *equals* the
    first long-time one.  The scan runs off the end of the list: the code raises `IndexError`. -/
theorem join_equal_last (m : Rat) (ltsRest ltsG stsInit stsG : List Rat)
    (hsts : (stsInit ++ [m]).Pairwise (· < ·)) (hlts : (m :: ltsRest).Pairwise (· < ·)) :
    combineStsLts (m :: ltsRest) ltsG (stsInit ++ [m]) stsG = .error .indexError := by
  obtain ⟨mx, hmx, hmxm, hmxle⟩ := pyMaxL_spec (stsInit ++ [m]) (by simp)
  have hmn := pyMinL_sorted m ltsRest hlts
  have hall : ∀ x ∈ stsInit ++ [m], x ≤ m := by
    intro x hx
    rcases List.mem_append.mp hx with h | h
    · exact le_of_lt ((List.pairwise_append.mp hsts).2.2 x h m (by simp))
    · simp at h; rw [h]
  have hbr : ¬ mx < m := not_lt.mpr (hmxle m (by simp))
  unfold combineStsLts joinLists
  simp only [hmx, hmn, bind, Except.bind, branchOp_eval, hbr, decide_false, scanStop_all_le m _ 0 hall]
  rfl

/-- **Boundary, excluded from the well-formed case:** an inner short-time abscissa equals the
    first long-time one and a later one lies above it.  The code returns a table in which that
    abscissa occurs twice (`≤` in the scan keeps the short-time copy): not strictly increasing. -/
theorem join_equal_inner (m : Rat) (ltsRest ltsG stsT stsG : List Rat)
    (hsts : stsT.Pairwise (· < ·)) (hlts : (m :: ltsRest).Pairwise (· < ·))
    (hm : m ∈ stsT) (habove : ∃ y ∈ stsT, m < y) :
    ∃ i, joinLists (m :: ltsRest) ltsG stsT stsG = .ok (stsT.take i ++ m :: ltsRest, stsG.take i ++ ltsG) ∧
      m ∈ stsT.take i ∧ ¬ (stsT.take i ++ m :: ltsRest).Pairwise (· < ·) := by
  obtain ⟨mx, hmx, hmxm, hmxle⟩ := pyMaxL_spec stsT (List.ne_nil_of_mem hm)
  have hmn := pyMinL_sorted m ltsRest hlts
  have hbr : ¬ mx < m := not_lt.mpr (hmxle m hm)
  obtain ⟨j, hscan, hj, htake, y, hy, hmy⟩ := scanStop_spec m stsT 0 habove
  have hyj : stsT[j] = y := by
    have := List.getElem?_eq_getElem hj
    rw [this] at hy; exact Option.some.inj hy
  have hmt : m ∈ stsT.take j := by
    have hsplit : m ∈ stsT.take j ++ stsT.drop j := by rw [List.take_append_drop]; exact hm
    rcases List.mem_append.mp hsplit with h | h
    · exact h
    · exfalso
      have hd : stsT.drop j = stsT[j] :: stsT.drop (j + 1) := List.drop_eq_getElem_cons hj
      have hpd : (stsT.drop j).Pairwise (· < ·) := hsts.sublist (List.drop_sublist _ _)
      rw [hd] at hpd h
      rcases List.mem_cons.mp h with e | h'
      · rw [hyj] at e; rw [e] at hmy; exact lt_irrefl _ hmy
      · have := List.rel_of_pairwise_cons hpd h'
        rw [hyj] at this; exact lt_irrefl _ (lt_trans hmy this)
  refine ⟨j, ?_, hmt, ?_⟩
  · unfold joinLists
    simp only [hmx, hmn, bind, Except.bind, branchOp_eval, hbr, decide_false, hscan, pure, Except.pure]
    simp
  · intro hpw
    have := (List.pairwise_append.mp hpw).2.2 m hmt m (by simp)
    exact lt_irrefl _ this

/-! ### Interpolation over height at a stored height -/

/-- **Interpolating at a stored height returns the stored curve** — table kinds.
    `k` is the kind the call resolves to; `Covered` = linear with any number of curves, the
    parabola for three, the cubic for four, Lagrange with any number.  `h_eq` lands on the stored
    height `c.h` when `1/(B/H)·B` is exactly `c.h`, or within `close_tolerance` of it and `c.h` is
    the largest / smallest stored height.  Whatever table an earlier call left behind (`cache`), the
    answer is the same (the table is rebuilt when it was built for another kind or fill mode). -/
theorem interp_at_node (gf : GF) (bOverH : Rat) (kind : Kind) (k : RKind) (cache : Cache)
    (c : Curve) (mx mn : Rat)
    (hc : c ∈ gf.curves) (hd : (gf.curves.map (·.h)).Pairwise (· ≠ ·))
    (hlen : ∀ c' ∈ gf.curves, c'.g.length = gf.logTime.length)
    (hsep : Separated (gf.curves.map (·.h))) (hb : bOverH ≠ 0)
    (hmx : pyMaxL (gf.curves.map (·.h)) = .ok mx) (hmn : pyMinL (gf.curves.map (·.h)) = .ok mn)
    (hres : resolveKind kind gf.curves.length = .ok (some k))
    (hcov : Covered k gf.curves.length)
    (hcase : 1 / bOverH * gf.B = c.h
      ∨ (c.h = mx ∧ |1 / bOverH * gf.B - mx| < Gen.GJoinConsts.closeTolerance)
      ∨ (c.h = mn ∧ |1 / bOverH * gf.B - mn| < Gen.GJoinConsts.closeTolerance)) :
    ∃ o, gFunctionInterpolation gf bOverH kind cache = .ok o ∧ o.g = c.g ∧ o.rb = c.rb ∧
      o.hEq = c.h ∧ o.d = gf.d ∧ o.warned = false ∧ o.single = false := by
  have hhs : c.h ∈ gf.curves.map (·.h) := List.mem_map.mpr ⟨c, hc, rfl⟩
  have hne : gf.curves.map (·.h) ≠ [] := List.ne_nil_of_mem hhs
  obtain ⟨mx', e1, hmxm, hmxle⟩ := pyMaxL_spec _ hne
  obtain ⟨mn', e2, hmnm, hmnle⟩ := pyMinL_spec _ hne
  have : mx' = mx := by rw [hmx] at e1; exact (Except.ok.inj e1).symm
  subst this
  have : mn' = mn := by rw [hmn] at e2; exact (Except.ok.inj e2).symm
  subst this
  have hq := hEqOf_node gf.B bOverH _ c.h mx' mn' hb hmx hmn hmxm hmnm hhs hsep hcase
  have hex : needsExtrap c.h mn' mx' = false := by
    unfold needsExtrap
    simp [hmnle c.h hhs, hmxle c.h hhs]
  unfold gFunctionInterpolation
  simp only [hq, hmx, hmn, hres, bind, Except.bind, hex, tableFor_eq,
    interpTable_at_node gf k false c hc hd hlen hcov, pure, Except.pure]
  exact ⟨_, rfl, rfl, rfl, rfl, rfl, rfl, rfl⟩

/-- **No dependence on the call history.**  Whatever table state earlier calls left behind, a call
    returns the same curve, radius, depth, equivalent height and warning as on a fresh object. -/
theorem interp_independent_of_history (gf : GF) (bOverH : Rat) (kind : Kind) (cache : Cache) :
    (gFunctionInterpolation gf bOverH kind cache).map (fun o => (o.g, o.rb, o.d, o.hEq, o.warned, o.single))
      = (gFunctionInterpolation gf bOverH kind none).map (fun o => (o.g, o.rb, o.d, o.hEq, o.warned, o.single)) := by
  unfold gFunctionInterpolation
  cases hq : hEqOf gf.B bOverH (gf.curves.map (·.h)) with
  | error e => simp only [hq, bind, Except.bind, Except.map]
  | ok hEq =>
    cases hmx : pyMaxL (gf.curves.map (·.h)) with
    | error e => simp only [hq, hmx, bind, Except.bind, Except.map]
    | ok mx =>
      cases hmn : pyMinL (gf.curves.map (·.h)) with
      | error e => simp only [hq, hmx, hmn, bind, Except.bind, Except.map]
      | ok mn =>
        cases hr : resolveKind kind gf.curves.length with
        | error e => simp only [hq, hmx, hmn, bind, Except.bind, Except.map]
        | ok r =>
          cases r with
          | none =>
            simp only [hq, hmx, hmn, bind, Except.bind, singleCurve]
            split
            · rfl
            · split
              · rfl
              · split <;> rfl
          | some k =>
            simp only [hq, hmx, hmn, bind, Except.bind, tableFor_eq]

/-- What the pipeline produces: `kind="default"` resolves to linear for two stored heights, to the
    parabola for three (`[min, avg, max]` during sizing); Lagrange and linear for any number. -/
theorem default_kinds_covered :
    resolveKind .default 2 = .ok (some .linear) ∧ Covered .linear 2 ∧
    resolveKind .default 3 = .ok (some .quadratic) ∧ Covered .quadratic 3 ∧
    resolveKind .default 4 = .ok (some .quadratic) ∧ resolveKind .default 5 = .ok (some .cubic) ∧
    (∀ n, 2 ≤ n → resolveKind .lagrange n = .ok (some .lagrange) ∧ Covered .lagrange n) ∧
    (∀ n, 2 ≤ n → resolveKind .linear n = .ok (some .linear) ∧ Covered .linear n) ∧
    resolveKind .cubic 4 = .ok (some .cubic) ∧ Covered .cubic 4 ∧
    resolveKind .cubic 3 = .ok (some .quadratic) ∧ resolveKind .quadratic 2 = .ok (some .linear) := by
  refine ⟨by decide, Or.inl rfl, by decide, Or.inr (Or.inl ⟨rfl, rfl⟩), by decide, by decide, ?_, ?_, by decide,
    Or.inr (Or.inr (Or.inl ⟨rfl, rfl⟩)), by decide, by decide⟩
  · intro n hn
    refine ⟨?_, Or.inr (Or.inr (Or.inr rfl))⟩
    simp only [resolveKind, RKind.required, Gen.GJoinConsts.reqLagrange]
    have h1 : ¬ n < 2 := by omega
    simp only [h1, if_false]
  · intro n hn
    refine ⟨?_, Or.inl rfl⟩
    simp only [resolveKind, RKind.required, Gen.GJoinConsts.reqLinear]
    have h1 : ¬ n < 2 := by omega
    simp only [h1, if_false]

/-- **One stored height** (`[H]` during the search).  The stored curve is returned, and — because
    `(h_eq − H)/H < tol  or  H − h_eq < tol` is true for *every* `h_eq` when `H > 0` — it is returned
    for any requested height: the "requires two g-function curves" `ValueError` cannot occur. -/
theorem interp_single_curve (gf : GF) (c : Curve) (bOverH : Rat) (cache : Cache)
    (hcur : gf.curves = [c]) (hpos : 0 < c.h) (hb : bOverH ≠ 0) :
    ∃ o, gFunctionInterpolation gf bOverH .default cache = .ok o ∧ o.g = c.g ∧ o.rb = c.rb ∧
      o.d = gf.d ∧ o.single = true ∧ o.cache = cache ∧
      ((1 / bOverH * gf.B = c.h ∨ |1 / bOverH * gf.B - c.h| < Gen.GJoinConsts.closeTolerance) →
        o.hEq = c.h ∧ o.warned = false) := by
  have hmx : pyMaxL [c.h] = .ok c.h := rfl
  have hmn : pyMinL [c.h] = .ok c.h := rfl
  have hres : resolveKind .default 1 = .ok none := by decide
  have htol := tolerance_pos
  -- whatever h_eq is, the one-curve rule accepts it
  have hq : ∃ h', hEqOf gf.B bOverH [c.h] = .ok h' := by
    unfold hEqOf
    simp only [hb, if_false, hmx, hmn, bind, Except.bind, pure, Except.pure]
    exact ⟨_, rfl⟩
  obtain ⟨h', hq⟩ := hq
  have hrule : (h' - c.h) / c.h < Gen.GJoinConsts.tolerance ∨ c.h - h' < Gen.GJoinConsts.tolerance := by
    by_cases hle : h' ≤ c.h
    · left
      have : (h' - c.h) / c.h ≤ 0 := div_nonpos_of_nonpos_of_nonneg (by linarith) (le_of_lt hpos)
      linarith
    · right; linarith [not_le.mp hle]
  unfold gFunctionInterpolation
  simp only [hcur, List.map_cons, List.map_nil, hq, hmx, hmn, List.length_singleton, hres, bind, Except.bind,
    singleCurve, ne_of_gt hpos, if_false, hrule, if_true]
  refine ⟨_, rfl, rfl, rfl, rfl, rfl, rfl, ?_⟩
  intro hcase
  have hnode := hEqOf_node gf.B bOverH [c.h] c.h c.h c.h hb hmx hmn (by simp) (by simp) (by simp)
    (by intro a ha b hb' hne; simp at ha hb'; exact absurd (ha.trans hb'.symm) hne)
    (by rcases hcase with h | h
        · exact Or.inl h
        · exact Or.inr (Or.inl ⟨rfl, h⟩))
  have : h' = c.h := by rw [hnode] at hq; exact (Except.ok.inj hq).symm
  subst this
  refine ⟨rfl, ?_⟩
  simp [needsExtrap]

/-! ### Borehole-radius correction -/

/-- The correction is the identity for equal radii (over ℝ, `Real.log`). -/
theorem radius_correction_id (g : List ℝ) (rb : ℝ) (hrb : rb ≠ 0) :
    radiusCorrectionG Real.log g rb rb = g := by
  unfold radiusCorrectionG
  simp [div_self hrb]

/-- The correction is additive in `ln` of the radius ratio: correcting `r₀ → r₁` and then
    `r₁ → r₂` is correcting `r₀ → r₂`; the total shift is `ln(r₂/r₀)`. -/
theorem radius_correction_additive (g : List ℝ) (r0 r1 r2 : ℝ) (h0 : 0 < r0) (h1 : 0 < r1) (h2 : 0 < r2) :
    radiusCorrectionG Real.log (radiusCorrectionG Real.log g r0 r1) r1 r2 = radiusCorrectionG Real.log g r0 r2 ∧
    radiusCorrectionG Real.log g r0 r2 = g.map (fun v => v - (Real.log r2 - Real.log r0)) := by
  unfold radiusCorrectionG
  have e1 : Real.log (r1 / r0) = Real.log r1 - Real.log r0 := Real.log_div (ne_of_gt h1) (ne_of_gt h0)
  have e2 : Real.log (r2 / r1) = Real.log r2 - Real.log r1 := Real.log_div (ne_of_gt h2) (ne_of_gt h1)
  have e3 : Real.log (r2 / r0) = Real.log r2 - Real.log r0 := Real.log_div (ne_of_gt h2) (ne_of_gt h0)
  constructor
  · rw [List.map_map]
    apply List.map_congr_left
    intro v _
    simp only [Function.comp, e1, e2, e3]; ring
  · rw [e3]

/-- The executable (`Rat`) model with Python's error branches takes the same value whenever both
    radii are positive (no exception), for any `log`; with `log 1 = 0` it is the identity for equal
    radii, and with `log (a·b) = log a + log b` on positives it is additive. -/
theorem radius_correction_model (log : Rat → Rat) (g : List Rat) (rb rbStar : Rat) (h0 : 0 < rb) (h1 : 0 < rbStar) :
    radiusCorrection log g rb rbStar = .ok (g.map (fun v => v - log (rbStar / rb))) ∧
    (log 1 = 0 → radiusCorrection log g rb rb = .ok g) ∧
    ((∀ a b, 0 < a → 0 < b → log (a * b) = log a + log b) → ∀ r2, 0 < r2 →
      (radiusCorrection log g rb rbStar >>= fun g1 => radiusCorrection log g1 rbStar r2)
        = radiusCorrection log g rb r2) := by
  have hgen : ∀ (g : List Rat) (a b : Rat), 0 < a → 0 < b →
      radiusCorrection log g a b = .ok (g.map (fun v => v - log (b / a))) := by
    intro g a b ha hb
    unfold radiusCorrection radiusCorrectionG
    cases g with
    | nil => rfl
    | cons x xs =>
      have : ¬ b / a ≤ 0 := not_le.mpr (div_pos hb ha)
      simp only [ne_of_gt ha, if_false, this]
  refine ⟨hgen g rb rbStar h0 h1, ?_, ?_⟩
  · intro hl
    rw [hgen g rb rb h0 h0, div_self (ne_of_gt h0), hl]; simp
  · intro hmul r2 h2
    rw [hgen g rb rbStar h0 h1, hgen g rb r2 h0 h2]
    show radiusCorrection log _ rbStar r2 = _
    rw [hgen _ rbStar r2 h1 h2, List.map_map]
    congr 1
    apply List.map_congr_left
    intro v _
    have : r2 / rb = (r2 / rbStar) * (rbStar / rb) := by field_simp
    simp only [Function.comp, this, hmul _ _ (div_pos h2 h1) (div_pos h1 h0)]; ring

/-! ### `grab_g_function`: the curve handed to the simulation -/

/-- **Composition.**  Whenever the height interpolation returns a curve `o₀` (theorems
    `interp_at_node` / `interp_single_curve` say which) of the length of the long-time axis, both
    radii are positive and the short-time axis is as in `join_strictly_increasing`, then
    `grab_g_function` returns — for `g` and for `g_bhw`, with the *same* cut — the short-time points
    below the first long-time point followed by the radius-corrected long-time curve
    `o₀.g − log(r_b*/r_b)` on the whole long-time axis, on a strictly increasing axis. -/
theorem grab_well_formed (log : Rat → Rat) (gf : GF) (rbStar : Rat) (stsT stsG stsGbhw : List Rat)
    (bOverH : Rat) (cache : Cache) (o0 : InterpOut) (m : Rat) (ltsRest : List Rat)
    (hint : gFunctionInterpolation gf bOverH .default cache = .ok o0)
    (hgl : o0.g.length = gf.logTime.length) (hrb : 0 < o0.rb) (hrs : 0 < rbStar)
    (haxis : gf.logTime = m :: ltsRest) (hlts : (m :: ltsRest).Pairwise (· < ·))
    (hsts : stsT.Pairwise (· < ·)) (hne : stsT ≠ []) (hneq : ∀ x ∈ stsT, x ≠ m)
    (hgs : stsG.length = stsT.length) (hgb : stsGbhw.length = stsT.length) :
    ∃ i, i ≤ stsT.length ∧
      grabGFunction log gf rbStar stsT stsG stsGbhw bOverH cache = .ok
        { g := (stsT.take i ++ gf.logTime).zip (stsG.take i ++ o0.g.map (fun v => v - log (rbStar / o0.rb))),
          gBhw := (stsT.take i ++ gf.logTime).zip (stsGbhw.take i ++ o0.g.map (fun v => v - log (rbStar / o0.rb))),
          rb := o0.rb, hEq := o0.hEq, cache := o0.cache } ∧
      (stsT.take i ++ gf.logTime).Pairwise (· < ·) ∧
      (∀ x ∈ stsT.take i, x < m) ∧ (∀ x ∈ stsT.drop i, m < x) := by
  obtain ⟨i, hi, hpw, hlo, hhi, _, hall⟩ := join_strictly_increasing m ltsRest stsT hsts hlts hne hneq
  have hcl : (o0.g.map (fun v => v - log (rbStar / o0.rb))).length = (m :: ltsRest).length := by
    rw [List.length_map, hgl, haxis]
  obtain ⟨h1, _⟩ := hall _ stsG hgs hcl
  obtain ⟨h2, _⟩ := hall _ stsGbhw hgb hcl
  refine ⟨i, hi, ?_, by rw [haxis]; exact hpw, hlo, hhi⟩
  unfold grabGFunction
  simp only [hint, bind, Except.bind, (radius_correction_model log o0.g o0.rb rbStar hrb hrs).1, haxis, h1, h2,
    pure, Except.pure]

/-! ### Error branches and the table state -/

/-- **Error branches of the join**: an empty short-time or long-time list is the `ValueError` of
    `max([])` / `min([])`; ordinate lists of the wrong length are the `ValueError` of `interp1d`. -/
theorem join_degenerate_raises (ltsT ltsG stsT stsG : List Rat) :
    combineStsLts ltsT ltsG [] stsG = .error .valueError ∧
    (stsT ≠ [] → combineStsLts [] ltsG stsT stsG = .error .valueError) ∧
    (∀ t g, joinLists ltsT ltsG stsT stsG = .ok (t, g) → t.length ≠ g.length →
      combineStsLts ltsT ltsG stsT stsG = .error .valueError) := by
  refine ⟨rfl, ?_, ?_⟩
  · intro hne
    obtain ⟨mx, hmx, _, _⟩ := pyMaxL_spec stsT hne
    unfold combineStsLts joinLists
    simp only [hmx, bind, Except.bind]
    rfl
  · intro t g hj hlen
    unfold combineStsLts
    simp only [hj, bind, Except.bind, interp1dCtor, ne_eq, hlen, not_false_eq_true, if_true]

/-- The table state reported after a successful table call is the one `tableAfter` predicts (the
    function the harness uses to thread the state through calls that raise): `built_for` of the
    present call. -/
theorem table_state_consistent (gf : GF) (bOverH : Rat) (kind : Kind) (cache : Cache) (o : InterpOut)
    (h : gFunctionInterpolation gf bOverH kind cache = .ok o) (hs : o.single = false) :
    o.cache = tableAfter gf bOverH kind cache := by
  unfold gFunctionInterpolation at h
  unfold tableAfter
  cases hq : hEqOf gf.B bOverH (gf.curves.map (·.h)) with
  | error e => simp [hq, bind, Except.bind] at h
  | ok hEq =>
    cases hmx : pyMaxL (gf.curves.map (·.h)) with
    | error e => simp [hq, hmx, bind, Except.bind] at h
    | ok mx =>
      cases hmn : pyMinL (gf.curves.map (·.h)) with
      | error e => simp [hq, hmx, hmn, bind, Except.bind] at h
      | ok mn =>
        cases hr : resolveKind kind gf.curves.length with
        | error e => simp [hq, hmx, hmn, hr, bind, Except.bind] at h
        | ok ok =>
          cases ok with
          | none =>
            simp only [hq, hmx, hmn, hr, bind, Except.bind] at h
            unfold singleCurve at h
            split at h
            · simp at h
            · split at h
              · simp at h
              · split at h
                · injection h with h; subst h; simp at hs
                · simp at h
          | some k =>
            simp only [hq, hmx, hmn, hr, bind, Except.bind, tableFor_eq] at h
            cases ht : interpTable gf k (needsExtrap hEq mn mx) hEq with
            | error e => simp [ht] at h
            | ok v =>
              simp only [ht, pure, Except.pure] at h
              injection h with h; subst h
              simp only
              unfold interpTable at ht
              cases hc : (List.range gf.logTime.length).mapM (column gf.curves) with
              | error e => simp [hc, bind, Except.bind] at ht
              | ok cols => simp only [hq, hmx, hmn]

/-! ### Non-vacuity: each set of hypotheses is met by a concrete input -/

/-- Truncating branch: the short-time axis `[-15,-10,-9,-8]` overlaps the first long-time point. -/
example : ∃ tbl, combineStsLts [-17 / 2, -39 / 5] [3, 4] [-15, -10, -9, -8] [0, 1, 2, 5] = .ok tbl := by
  obtain ⟨i, _, _, _, _, _, h⟩ := join_strictly_increasing (-17 / 2) [-39 / 5] [-15, -10, -9, -8]
    (by simp only [List.pairwise_cons, List.mem_cons, List.not_mem_nil, or_false, forall_eq_or_imp, forall_eq]; norm_num)
    (by simp only [List.pairwise_cons, List.mem_cons, List.not_mem_nil, or_false, forall_eq]; norm_num)
    (by simp)
    (by simp only [List.mem_cons, List.not_mem_nil, or_false, forall_eq_or_imp, forall_eq]; norm_num)
  exact ⟨_, (h [3, 4] [0, 1, 2, 5] rfl rfl).1⟩

/-- Concatenating branch (everything below −8.5) with ordinates: values are reproduced. -/
example : ∃ tbl, combineStsLts [-17 / 2, -39 / 5] [3, 4] [-15, -10, -9] [0, 1, 2] = .ok tbl ∧
    callInterp tbl (-39 / 5) = .ok 4 ∧ callInterp tbl (-10) = .ok 1 := by
  obtain ⟨tbl, h, _, hl, hs⟩ := join_values_reproduced (-17 / 2) [-39 / 5] [3, 4] [-15, -10, -9] [0, 1, 2]
    (by simp only [List.pairwise_cons, List.mem_cons, List.not_mem_nil, or_false, forall_eq_or_imp, forall_eq]; norm_num)
    (by simp only [List.pairwise_cons, List.mem_cons, List.not_mem_nil, or_false, forall_eq]; norm_num)
    (by simp)
    (by simp only [List.mem_cons, List.not_mem_nil, or_false, forall_eq_or_imp, forall_eq]; norm_num)
    rfl rfl
  exact ⟨tbl, h, hl 1 (by simp) (by simp), hs 1 (by simp) (by simp) (by norm_num)⟩

example : combineStsLts ((-17 / 2 : Rat) :: [-39 / 5]) [3, 4] ([-15, -10] ++ [-17 / 2]) [0, 1, 2] = .error .indexError :=
  join_equal_last (-17 / 2) [-39 / 5] [3, 4] [-15, -10] [0, 1, 2]
    (by simp only [List.cons_append, List.nil_append, List.pairwise_cons, List.mem_cons, List.not_mem_nil, or_false, forall_eq_or_imp, forall_eq]; norm_num)
    (by simp only [List.pairwise_cons, List.mem_cons, List.not_mem_nil, or_false, forall_eq]; norm_num)

example : ∃ i, (-17 / 2 : Rat) ∈ [-15, -17 / 2, -8].take i := by
  obtain ⟨i, _, h, _⟩ := join_equal_inner (-17 / 2) [-39 / 5] [3, 4] [-15, -17 / 2, -8] [0, 1, 2]
    (by simp only [List.pairwise_cons, List.mem_cons, List.not_mem_nil, or_false, forall_eq_or_imp, forall_eq]; norm_num)
    (by simp only [List.pairwise_cons, List.mem_cons, List.not_mem_nil, or_false, forall_eq]; norm_num)
    (by simp) ⟨-8, by simp, by norm_num⟩
  exact ⟨i, h⟩

/-- The sizing family `[60, 97.5, 135]` m (`GJoin.gf3`), `B = 5` m, asked at `B/H = 5/97.5`: the middle curve. -/
example : ∃ o, gFunctionInterpolation gf3 (2 / 39) .default none = .ok o ∧ o.g = [3, 5] ∧ o.rb = 3 / 40 := by
  obtain ⟨o, h, hg, hr, _⟩ := interp_at_node gf3 (2 / 39) .default .quadratic none ⟨195 / 2, 3 / 40, [3, 5]⟩ 135 60
    (by simp [gf3])
    (by simp only [gf3, List.map_cons, List.map_nil, List.pairwise_cons, List.mem_cons, List.not_mem_nil, or_false, forall_eq_or_imp, forall_eq]; norm_num)
    (by intro c' hc'; simp only [gf3, List.mem_cons, List.not_mem_nil, or_false] at hc'; rcases hc' with rfl | rfl | rfl <;> rfl)
    gf3_separated (by norm_num)
    (by simp only [gf3, List.map_cons, List.map_nil, pyMaxL, List.foldl, ratMax]; norm_num)
    (by simp only [gf3, List.map_cons, List.map_nil, pyMinL, List.foldl, ratMin]; norm_num)
    (by decide) (Or.inr (Or.inl ⟨rfl, rfl⟩))
    (Or.inl (by simp only [gf3]; norm_num))
  exact ⟨o, h, hg, hr⟩

/-- Snapping: asked 4·10⁻⁷ m above the largest stored height, the largest curve is returned;
    whatever table an earlier call left (here: a linear, extrapolating one). -/
example : ∃ o, gFunctionInterpolation gf3 (5 / (135 + 4 / 10 ^ 7)) .default (some (.linear, true)) = .ok o ∧
    o.g = [4, 9] := by
  obtain ⟨o, h, hg, _⟩ := interp_at_node gf3 (5 / (135 + 4 / 10 ^ 7)) .default .quadratic (some (.linear, true)) ⟨135, 3 / 40, [4, 9]⟩ 135 60
    (by simp [gf3])
    (by simp only [gf3, List.map_cons, List.map_nil, List.pairwise_cons, List.mem_cons, List.not_mem_nil, or_false, forall_eq_or_imp, forall_eq]; norm_num)
    (by intro c' hc'; simp only [gf3, List.mem_cons, List.not_mem_nil, or_false] at hc'; rcases hc' with rfl | rfl | rfl <;> rfl)
    gf3_separated (by norm_num)
    (by simp only [gf3, List.map_cons, List.map_nil, pyMaxL, List.foldl, ratMax]; norm_num)
    (by simp only [gf3, List.map_cons, List.map_nil, pyMinL, List.foldl, ratMin]; norm_num)
    (by decide) (Or.inr (Or.inl ⟨rfl, rfl⟩))
    (Or.inr (Or.inl ⟨rfl, by
      simp only [gf3]; unfold Gen.GJoinConsts.closeTolerance
      rw [abs_of_nonneg (by norm_num)]; norm_num⟩))
  exact ⟨o, h, hg⟩

/-- One stored height (the search phase), asked at a *different* height: still the stored curve. -/
example : ∃ o, gFunctionInterpolation { B := 5, d := 2, logTime := [-17 / 2], curves := [⟨96, 3 / 40, [7]⟩] }
    (5 / 300) .default none = .ok o ∧ o.g = [7] := by
  obtain ⟨o, h, hg, _⟩ := interp_single_curve { B := 5, d := 2, logTime := [-17 / 2], curves := [⟨96, 3 / 40, [7]⟩] }
    ⟨96, 3 / 40, [7]⟩ (5 / 300) none rfl (by norm_num) (by norm_num)
  exact ⟨o, h, hg⟩

example : combineStsLts [-17 / 2] [1, 2] [-9] [0] = .error .valueError :=
  (join_degenerate_raises [-17 / 2] [1, 2] [-9] [0]).2.2 [-9, -17 / 2] [0, 1, 2]
    (by simp only [joinLists, pyMaxL, pyMinL, List.foldl, bind, Except.bind, branchOp_eval, pure, Except.pure]; norm_num)
    (by simp)

example : radiusCorrectionG Real.log [1, 2] (3 / 40) (3 / 40) = [1, 2] :=
  radius_correction_id _ _ (by norm_num)

example : radiusCorrectionG Real.log (radiusCorrectionG Real.log [1, 2] (3 / 40) (1 / 10)) (1 / 10) (1 / 20)
    = radiusCorrectionG Real.log [1, 2] (3 / 40) (1 / 20) :=
  (radius_correction_additive _ _ _ _ (by norm_num) (by norm_num) (by norm_num)).1

example : radiusCorrection (fun _ => 1 / 4) [1, 2] (3 / 40) (1 / 10) = .ok [3 / 4, 7 / 4] := by
  rw [(radius_correction_model _ _ _ _ (by norm_num) (by norm_num)).1]; norm_num

end GHEVerif.C11
