/-
  C02 — Height bounds, borehole cap and the unmet-design policy are honoured.
  Theorems about `bisect1D` (Bisection1D.search) and `solveRoot` (utilities.solve_root) for every
  candidate list, excess function, cap and flag.  Helper lemmas: Lemmas/Search.lean.
-/
import GHEVerif.Lemmas.Search
import GHEVerif.Lemmas.SearchNested
import GHEVerif.Lemmas.SearchRowWise
import GHEVerif.Lemmas.Pipeline

namespace GHEVerif.C02
open GHEVerif GHEVerif.Search GHEVerif.Report GHEVerif.Pipeline

/-- Every selection of the search lies at or below the upper index fixed by the cap filter. -/
theorem selected_le_upper (counts : List Nat) (E : Nat → Rat → Rat) (cfg : Cfg)
    (k : Nat) (h : Rat) (p : Path) (tr : List (Nat × Rat))
    (hsel : bisect1D counts E cfg = (.selected k h p, tr)) :
    ∃ xr, upperIndex counts cfg.cap = .ok xr ∧ k ≤ xr := by
  by_cases hp : p = .bisection
  · subst hp
    obtain ⟨xr, ls, i, s, hu, _, _, hinv, hneg, hfin⟩ := bisect1D_bisection_path hsel
    obtain ⟨k', _, hf, _, hle, _⟩ := finish_selects (counts := counts) hinv (upperIndex_ok hu).1 hneg
    rw [hf] at hfin
    injection hfin with h1 _
    injection h1 with h1 _ _
    subst h1
    exact ⟨xr, hu, hle⟩
  · obtain ⟨xr, hu, hpre, _⟩ := bisect1D_early hsel hp
    refine ⟨xr, hu, ?_⟩
    rcases pre_inl_cases hpre with ⟨h', _⟩ | ⟨h', _⟩ | ⟨h', _⟩ | ⟨h', _⟩
    · cases h'
    · injection h' with h1 _ _; omega
    · by_cases hc : cfg.cont = true
      · simp [hc] at h'; omega
      · simp [hc] at h'
    · by_cases hc : cfg.cont = true
      · simp [hc] at h'; omega
      · simp [hc] at h'

/-- `max_boreholes` is honoured: with candidate counts in non-decreasing order (C03), every
    selected field has fewer boreholes than the cap (the code's filter is strict). -/
theorem cap_respected (counts : List Nat) (E : Nat → Rat → Rat) (cfg : Cfg) (c : Nat)
    (hcap : cfg.cap = some c)
    (hsorted : ∀ i j, i ≤ j → j < counts.length → counts.getD i 0 ≤ counts.getD j 0)
    (k : Nat) (h : Rat) (p : Path) (tr : List (Nat × Rat))
    (hsel : bisect1D counts E cfg = (.selected k h p, tr)) :
    counts.getD k 0 < c := by
  obtain ⟨xr, hu, hle⟩ := selected_le_upper counts E cfg k h p tr hsel
  obtain ⟨hlen, hc⟩ := upperIndex_ok hu
  have := hsorted k xr hle hlen
  have := hc c hcap
  omega

/-- Loads too large: every candidate up to the largest allowed one fails at maximum height (and the
    smallest one also fails at minimum height).  The search raises `ValueError` unless the user
    asked to continue, in which case it returns the largest allowed candidate at maximum height. -/
theorem unmet_too_large (counts : List Nat) (E : Nat → Rat → Rat) (cfg : Cfg) (xr : Nat)
    (hu : upperIndex counts cfg.cap = .ok xr)
    (h0 : 0 < E 0 cfg.minH) (h1 : 0 < E 0 cfg.maxH) (h2 : 0 < E xr cfg.maxH) :
    bisect1D counts E cfg =
      (if cfg.cont then .selected xr cfg.maxH .tooBigCont else .valueError, tr0 cfg xr) := by
  rcases bisect1D_spec counts E cfg with ⟨e, he, _⟩ | ⟨xr', hu', ⟨o, hp, hb⟩ | ⟨ls, hp, _⟩⟩
  · rw [hu] at he; cases he
  · rw [hu] at hu'; injection hu' with hu'; subst hu'
    rw [hb]
    rcases pre_inl_cases hp with ⟨_, hz⟩ | ⟨_, hs⟩ | ⟨_, hs⟩ | ⟨ho, _⟩
    · rcases hz with hz | hz | hz <;> linarith
    · rcases hs with ⟨a, _⟩ | ⟨a, _⟩ <;> linarith
    · linarith [hs.1]
    · rw [ho]
  · rw [hu] at hu'; injection hu' with hu'; subst hu'
    rcases pre_inr_bracket hp with ⟨a, _⟩ | ⟨a, _⟩ <;> linarith

/-- Loads too small: the smallest candidate over-satisfies the limits even at minimum height (and
    the largest allowed one is feasible as well).  `ValueError` unless the user asked to continue,
    in which case the smallest candidate at minimum height is returned. -/
theorem unmet_too_small (counts : List Nat) (E : Nat → Rat → Rat) (cfg : Cfg) (xr : Nat)
    (hu : upperIndex counts cfg.cap = .ok xr)
    (h0 : E 0 cfg.minH < 0) (h1 : E 0 cfg.maxH < 0) (h2 : E xr cfg.maxH < 0) :
    bisect1D counts E cfg =
      (if cfg.cont then .selected 0 cfg.minH .tooSmallCont else .valueError, tr0 cfg xr) := by
  rcases bisect1D_spec counts E cfg with ⟨e, he, _⟩ | ⟨xr', hu', ⟨o, hp, hb⟩ | ⟨ls, hp, _⟩⟩
  · rw [hu] at he; cases he
  · rw [hu] at hu'; injection hu' with hu'; subst hu'
    rw [hb]
    rcases pre_inl_cases hp with ⟨_, hz⟩ | ⟨_, hs⟩ | ⟨ho, _⟩ | ⟨_, hs⟩
    · rcases hz with hz | hz | hz <;> linarith
    · rcases hs with ⟨_, a⟩ | ⟨_, a⟩ <;> linarith
    · rw [ho]
    · linarith [hs.1]
  · rw [hu] at hu'; injection hu' with hu'; subst hu'
    rcases pre_inr_bracket hp with ⟨_, a⟩ | ⟨_, a⟩ <;> linarith


/-- `max_boreholes` in the nested searches: the field returned by `Bisection2D` / `BisectionZD` has
    fewer boreholes than the cap whenever the chosen inner list is in non-decreasing order. -/
theorem cap_respected_2D (nc : List (List Nat)) (E2 : Nat → Nat → Rat → Rat) (cfg : Cfg) (c : Nat)
    (hcap : cfg.cap = some c) (l k : Nat) (hh : Rat) (tr : Trace2)
    (h : bisect2D nc E2 cfg = (.selected l k hh, tr))
    (hsorted : ∀ i j, i ≤ j → j < (nc.getD l []).length → (nc.getD l []).getD i 0 ≤ (nc.getD l []).getD j 0) :
    (nc.getD l []).getD k 0 < c := by
  obtain ⟨_, p, tr', h1⟩ := bisect2D_selected h
  exact cap_respected _ _ cfg c hcap hsorted k hh p tr' h1

theorem cap_respected_ZD (nc : List (List Nat)) (E2 : Nat → Nat → Rat → Rat) (sz : Nat → Nat → Rat) (cfg : Cfg)
    (c : Nat) (hcap : cfg.cap = some c) (l k : Nat) (hh : Rat) (tr : Trace2)
    (h : bisectZD nc E2 sz cfg = (.selected l k hh, tr))
    (hsorted : ∀ i j, i ≤ j → j < (nc.getD l []).length → (nc.getD l []).getD i 0 ≤ (nc.getD l []).getD j 0) :
    (nc.getD l []).getD k 0 < c := by
  obtain ⟨_, _, ⟨h1, p, tr', hs⟩, _⟩ := bisectZD_selected h
  exact cap_respected _ _ cfg c hcap hsorted k h1 p tr' hs

/-- The code's last `else: pass` arm before the loop cannot be taken: the bisection starts only
    from a genuine bracket between candidate 0 and the largest allowed candidate. -/
theorem else_pass_unreachable (E : Nat → Rat → Rat) (cfg : Cfg) (xr : Nat) (ls : Int)
    (h : pre E cfg xr = .inr ls) :
    (E 0 cfg.maxH < 0 ∧ 0 < E xr cfg.maxH) ∨ (E xr cfg.maxH < 0 ∧ 0 < E 0 cfg.maxH) :=
  pre_inr_bracket h

/-- Exception types.  On non-degenerate input (no evaluated excess is exactly zero) with a
    non-empty candidate list, `Bisection1D.search` ends with a selection or with `ValueError`; no
    other exception type escapes.  (Since the F17 repair this includes a cap at or below the
    smallest candidate.) -/
theorem only_value_error (counts : List Nat) (E : Nat → Rat → Rat) (cfg : Cfg)
    (hnz : ∀ i h, E i h ≠ 0) (hne : counts ≠ []) :
    ∀ e, (bisect1D counts E cfg).1 ≠ .pyError e := by
  intro e
  rcases bisect1D_spec counts E cfg with ⟨e', he, hb⟩ | ⟨xr, hu, ⟨o, hp, hb⟩ | ⟨ls, hp, ⟨i, s, e', hl, hb⟩ | ⟨i, s, hl, hb⟩⟩⟩
  · rw [hb]
    rcases upperIndex_error he with ⟨_, h, _⟩ | ⟨h, _⟩
    · exact absurd h hne
    · simp [h]
  · rw [hb]
    rcases pre_inl_cases hp with ⟨_, hz⟩ | ⟨ho, _⟩ | ⟨ho, _⟩ | ⟨ho, _⟩
    · rcases hz with hz | hz | hz <;> exact absurd hz (hnz _ _)
    · rw [ho]; simp
    · rw [ho]; by_cases hc : cfg.cont = true <;> simp [hc]
    · rw [ho]; by_cases hc : cfg.cont = true <;> simp [hc]
  · exfalso
    have := loop_no_error E cfg.maxH ls (fun c => hnz c cfg.maxH) cfg.maxIter 0 (st0 E cfg xr)
    rw [hl] at this; cases this
  · have hinv := inv_final E cfg ls xr i s hl
    obtain ⟨_, _, _, _, hneg, _⟩ := pre_inr hp
    have hneg' : ∃ kv ∈ s.mem, kv.2 < 0 := by
      rcases hneg with h0 | hx
      · exact ⟨_, hinv.zeroIn, h0⟩
      · exact ⟨_, hinv.xrIn, hx⟩
    obtain ⟨k, _, hf, _⟩ := finish_selects (counts := counts) hinv (upperIndex_ok hu).1 hneg'
    rw [hb, hf]; simp

/-- A cap that no candidate satisfies ends the search with `ValueError` (F17 repair), never with
    an IndexError. -/
theorem cap_too_small_value_error (counts : List Nat) (E : Nat → Rat → Rat) (cfg : Cfg) (c : Nat)
    (hcap : cfg.cap = some c) (hall : ∀ i < counts.length, ¬ counts.getD i 0 < c) :
    bisect1D counts E cfg = (.valueError, []) := by
  rcases bisect1D_spec counts E cfg with ⟨e', he, hb⟩ | ⟨xr, hu, _⟩
  · rw [hb]
    rcases upperIndex_error he with ⟨_, _, h⟩ | ⟨h, _⟩
    · rw [hcap] at h; cases h
    · simp [h]
  · exfalso
    obtain ⟨h1, h2⟩ := upperIndex_ok hu
    exact hall xr h1 (h2 c hcap)

/-- Whatever happens, the only other exception types the search can raise are `ZeroDivisionError`
    (an excess of exactly zero) and `IndexError` (an empty candidate list). -/
theorem exception_kinds (counts : List Nat) (E : Nat → Rat → Rat) (cfg : Cfg) (e : PyErr)
    (h : (bisect1D counts E cfg).1 = .pyError e) : e = .zeroDiv ∨ e = .indexError := by
  rcases bisect1D_spec counts E cfg with ⟨e', he, hb⟩ | ⟨xr, hu, ⟨o, hp, hb⟩ | ⟨ls, hp, ⟨i, s, e', hl, hb⟩ | ⟨i, s, hl, hb⟩⟩⟩
  · rw [hb] at h
    rcases upperIndex_error he with ⟨h', _, _⟩ | ⟨h', _⟩
    · subst h'; simp at h; exact Or.inr h.symm
    · subst h'; simp at h
  · rw [hb] at h; simp only at h; subst h
    rcases pre_inl_cases hp with ⟨ho, _⟩ | ⟨ho, _⟩ | ⟨ho, _⟩ | ⟨ho, _⟩
    · injection ho with ho; exact Or.inl ho
    · cases ho
    · by_cases hc : cfg.cont = true <;> simp [hc] at ho
    · by_cases hc : cfg.cont = true <;> simp [hc] at ho
  · rw [hb] at h; injection h with h; subst h
    have := loop_error E cfg.maxH ls cfg.maxIter 0 (st0 E cfg xr) e' (by rw [hl])
    exact Or.inl this.1
  · rw [hb] at h
    unfold finish at h
    by_cases hlen : counts.length ≤ i
    · simp only [hlen, if_true] at h; injection h with h; exact Or.inr h.symm
    · simp only [hlen, if_false] at h
      cases hf : finalPick counts (dictSet s.mem i (E i cfg.maxH)) with
      | none => rw [hf] at h; cases h
      | some k => rw [hf] at h; cases h

/-! ### RowWise search -/

/-- RowWise unmet policy: when both the densest and the sparsest field fail at maximum height the
    search raises `ValueError` unless the user asked to continue, in which case it returns the
    densest field (flagged as an escape). -/
theorem rowwise_unmet_too_large (Es : Rat → Rat) (nb : Rat → Nat) (szs : Rat → Rat) (E1 : Rat)
    (Esub : Nat → Rat) (c : RWCfg) (h1 : 0 < Es c.start) (h2 : 0 < Es c.stop) :
    (rowwiseSearch Es nb szs E1 Esub c).1 =
      (if c.cont then .selected (.atSpacing c.start) true else .valueError) := by
  unfold rowwiseSearch
  simp only
  have : Es c.start > 0 ∧ Es c.stop > 0 := ⟨h1, h2⟩
  rw [if_pos this]

/-- The dense field fails but the sparse one passes (excess not monotone in the spacing), or an
    end excess is exactly zero: the search reports an error (`ValueError`), it does not return a
    design. -/
theorem rowwise_inconsistent_ends (Es : Rat → Rat) (nb : Rat → Nat) (szs : Rat → Rat) (E1 : Rat)
    (Esub : Nat → Rat) (c : RWCfg) (h1 : 0 < Es c.start) (h2 : Es c.stop ≤ 0) :
    (rowwiseSearch Es nb szs E1 Esub c).1 = .valueError := by
  unfold rowwiseSearch
  simp only
  have n1 : ¬ (Es c.start > 0 ∧ Es c.stop > 0) := by intro h; linarith [h.2]
  have n2 : ¬ (Es c.start < 0 ∧ 0 < Es c.stop) := by intro h; linarith [h.1]
  have n3 : ¬ (Es c.stop < 0 ∧ Es c.start < 0) := by intro h; linarith [h.2]
  rw [if_neg n1, if_neg n2, if_neg n3]

/-- Both end fields pass: the RowWise search always returns a design (a sub-field of the sparsest
    field, a single borehole, or the sparsest field itself since the F5 repair) — never an error. -/
theorem rowwise_both_pass_returns_design (Es : Rat → Rat) (nb : Rat → Nat) (szs : Rat → Rat) (E1 : Rat)
    (Esub : Nat → Rat) (c : RWCfg) (h1 : Es c.start < 0) (h2 : Es c.stop < 0) :
    ∃ f, (rowwiseSearch Es nb szs E1 Esub c).1 = .selected f false ∧
      (f = .single ∨ f = .atSpacing c.stop ∨ ∃ n, f = .sub n) := by
  unfold rowwiseSearch
  simp only
  have n1 : ¬ (Es c.start > 0 ∧ Es c.stop > 0) := by intro h; linarith [h.2]
  have n2 : ¬ (Es c.start < 0 ∧ 0 < Es c.stop) := by intro h; linarith [h.2]
  have n3 : Es c.stop < 0 ∧ Es c.start < 0 := ⟨h2, h1⟩
  rw [if_neg n1, if_neg n2, if_pos n3]
  by_cases c4 : E1 ≤ 0
  · rw [if_pos c4]; exact ⟨_, rfl, Or.inl rfl⟩
  · rw [if_neg c4]
    refine ⟨_, rfl, ?_⟩
    -- the removal bisection keeps either the initial selection or a sub-field
    have key : ∀ fuel (r : RWRem), (r.sel = .atSpacing c.stop ∨ ∃ n, r.sel = .sub n) →
        ((rwRemove Esub fuel r).sel = .atSpacing c.stop ∨ ∃ n, (rwRemove Esub fuel r).sel = .sub n) := by
      intro fuel
      induction fuel with
      | zero => intro r h; simpa [rwRemove] using h
      | succ f ih =>
        intro r h
        unfold rwRemove
        simp only
        by_cases he : Esub ((r.nmax + r.nmin) / 2) ≤ 0
        · simp only [he, if_true]
          split
          · right; exact ⟨_, rfl⟩
          · apply ih; right; exact ⟨_, rfl⟩
        · simp only [he, if_false]
          split
          · simpa using h
          · apply ih; simpa using h
    rcases key c.maxIter { nmax := nb c.stop, nmin := 1, sel := .atSpacing c.stop, trace := [.sp c.start, .sp c.stop] ++ [.one] } (Or.inl rfl) with h | h
    · right; left; exact h
    · right; right; exact h

/-- Height window: in all three branches of `solve_root` the returned height lies in
    `[lower, upper]` (Brent's iterate is inside the bracket by its contract). -/
theorem height_in_window (x : Rat) (f : Rat → Rat) (lo hi brent : Rat) (hle : lo ≤ hi)
    (hb : lo ≤ brent ∧ brent ≤ hi) (kind : RootKind) (H : Rat)
    (h : solveRoot x f lo hi brent = .ok (kind, H)) (hk : kind ≠ .unchanged) : lo ≤ H ∧ H ≤ hi := by
  unfold solveRoot at h
  cases h1 : sgn (f lo) with
  | error e => simp [h1] at h
  | ok sm =>
    cases h2 : sgn (f hi) with
    | error e => simp [h1, h2] at h
    | ok sp =>
      simp only [h1, h2] at h
      by_cases c1 : sp ≠ sm
      · rw [if_pos c1] at h; injection h with h; injection h with _ h; subst h; exact hb
      · rw [if_neg c1] at h
        by_cases c2 : sp = -1 ∧ sm = -1
        · rw [if_pos c2] at h; injection h with h; injection h with _ h; subst h
          exact ⟨le_refl _, hle⟩
        · rw [if_neg c2] at h
          by_cases c3 : sp = 1 ∧ sm = 1
          · rw [if_pos c3] at h; injection h with h; injection h with _ h; subst h
            exact ⟨hle, le_refl _⟩
          · rw [if_neg c3] at h; injection h with h; injection h with h _; exact absurd h.symm hk

/-- `solve_root`'s last branch hands back the starting value. -/
theorem solveRoot_unchanged (x : Rat) (f : Rat → Rat) (lo hi brent H : Rat)
    (h : solveRoot x f lo hi brent = .ok (.unchanged, H)) : H = x := by
  unfold solveRoot at h
  cases h1 : sgn (f lo) with
  | error e => simp [h1] at h
  | ok sm =>
    cases h2 : sgn (f hi) with
    | error e => simp [h1, h2] at h
    | ok sp =>
      simp only [h1, h2] at h
      by_cases c1 : sp ≠ sm
      · rw [if_pos c1] at h; injection h with h; injection h with h _; cases h
      · rw [if_neg c1] at h
        by_cases c2 : sp = -1 ∧ sm = -1
        · rw [if_pos c2] at h; injection h with h; injection h with h _; cases h
        · rw [if_neg c2] at h
          by_cases c3 : sp = 1 ∧ sm = 1
          · rw [if_pos c3] at h; injection h with h; injection h with h _; cases h
          · rw [if_neg c3] at h; injection h with h; injection h with _ h; exact h.symm

/-- The height window at the level of `GHEManager.find_design`, for EVERY design method and every
    outcome of the search (ordinary selection or `continue_if_design_unmet` fallback, feasible or not):
    whenever a design is returned, its height lies in `[min_height, max_height]` and the stored
    temperatures were computed at it — provided only that Brent's answer stays inside its bracket. -/
theorem find_design_height_in_window {α β : Type} (search : SearchRes α β) (E : α → Rat → Rat) (minH maxH : Rat)
    (f : α → Rat → Rat) (its : α → List Rat) (brent : α → Rat) (d : DesignG α β)
    (hres : findDesignG search E minH maxH f its brent = .design d)
    (hwin : minH ≤ maxH) (hb : ∀ k, minH ≤ brent k ∧ brent k ≤ maxH) :
    minH ≤ d.st.H ∧ d.st.H ≤ maxH ∧ d.st.simAt = some d.st.H := by
  rw [findDesignG_eq_spec] at hres
  unfold findDesignSpec at hres
  cases search with
  | valueError => simp at hres
  | pyError e => simp at hres
  | selected k h p =>
    simp only at hres
    cases hs : size (f k) minH maxH (its k) (brent k) { H := h, simAt := none, returned := 0 } with
    | error e => simp [hs] at hres
    | ok st =>
      simp only [hs] at hres
      injection hres with hres
      subst hres
      obtain ⟨h1, kind, hk⟩ := size_simAt (f k) minH maxH (its k) (brent k) _ _ hs
      simp only
      by_cases hu : kind = .unchanged
      · subst hu
        have hx := solveRoot_unchanged _ _ _ _ _ _ hk
        refine ⟨?_, ?_, h1⟩ <;> rw [hx] <;> linarith
      · obtain ⟨h2, h3⟩ := height_in_window _ (f k) minH maxH (brent k) hwin (hb k) kind st.H hk hu
        exact ⟨h2, h3, h1⟩

/-- Non-vacuity of the unmet policy: three candidates that all fail, flag off → ValueError;
    flag on → the largest candidate below the cap (index 1 for cap 5) at max height. -/
example :
    (bisect1D [1, 4, 9] (fun _ _ => 2) { cap := some 5, cont := false, maxIter := 15, minH := 60, maxH := 135 }).1
      = .valueError ∧
    (bisect1D [1, 4, 9] (fun _ _ => 2) { cap := some 5, cont := true, maxIter := 15, minH := 60, maxH := 135 }).1
      = .selected 1 135 .tooBigCont := by decide +kernel

end GHEVerif.C02
