/-
  C19 — Output tables label time correctly.
  Property theorems only; helper lemmas live in GHEVerif/Lemmas/TimeConv.lean.
  The month tables are `Gen.daysInYearGTC` / `Gen.daysInYearHTM`, regenerated from
  ghedesigner/output.py on every check: changing a month length there breaks
  `tables_are_the_common_year`.
-/
import GHEVerif.Lemmas.TimeConv
import GHEVerif.Gen.Report

namespace GHEVerif.C19
open GHEVerif GHEVerif.TimeConv

/-- The non-leap (common-year) calendar, written here independently of the source. -/
def commonYear : List Int := [31, 28, 31, 30, 31, 30, 31, 31, 30, 31, 30, 31]

/-- Hours elapsed before month index `m` (0-based) of the common year. -/
def cum (m : Nat) : Int := ((commonYear.map (24 * ·)).take m).sum

/-- Both tables in output.py are the common-year calendar and a day has 24 hours. -/
theorem tables_are_the_common_year :
    Gen.daysInYearGTC = commonYear ∧ Gen.daysInYearHTM = commonYear ∧ Gen.HRS_IN_DAY = 24 := by
  decide

/-- General statement (any table of positive whole-day month lengths): the label of hour `h`
    is the unique (month, day, hour) with `h = hours before the month + 24 (day-1) + (hour-1)`. -/
theorem time_convert_correct_general (days : List Int) (hpos : ∀ d ∈ days, 0 < d) (h : Int)
    (h0 : 0 ≤ h) (hlt : h < (days.map (24 * ·)).sum) :
    ∃ m : Nat, m < days.length ∧
      gheTimeConvertT (days.map (24 * ·)) 24 h =
        ((m : Int) + 1, (h - ((days.map (24 * ·)).take m).sum) / 24 + 1,
                        (h - ((days.map (24 * ·)).take m).sum) % 24 + 1) ∧
      0 ≤ h - ((days.map (24 * ·)).take m).sum ∧
      h - ((days.map (24 * ·)).take m).sum < 24 * (days[m]?.getD 0) := by
  set T := days.map (24 * ·) with hT
  have hposT : ∀ t ∈ T, 0 < t := by
    intro t ht
    simp only [hT, List.mem_map] at ht
    obtain ⟨d, hd, rfl⟩ := ht
    have := hpos d hd; omega
  obtain ⟨_, i2, i3, i4⟩ := gtcFind_spec h T hposT 0 0 h0 (by simpa using hlt)
  simp only [Nat.sub_zero, zero_add] at i2 i3 i4
  have hlen : T.length = days.length := by simp [hT]
  refine ⟨gtcFind h 0 0 T, by omega, ?_, by omega, ?_⟩
  · unfold gheTimeConvertT
    have hnn : 0 ≤ h - (T.take (gtcFind h 0 0 T)).sum := by omega
    simp only [Int.fdiv_eq_ediv_of_nonneg _ (by norm_num : (0:Int) ≤ 24),
      Int.fmod_eq_emod_of_nonneg _ (by norm_num : (0:Int) ≤ 24)]
  · rw [take_succ_sum T _ (by omega)] at i4
    have hm : gtcFind h 0 0 T < days.length := by omega
    have : T[gtcFind h 0 0 T]'(by omega) = 24 * (days[gtcFind h 0 0 T]?.getD 0) := by
      have key : ∀ (l : List Int) (i : Nat) (hi : i < l.length), l[i] = l[i]?.getD 0 := by
        intro l i hi; simp [hi]
      simp only [hT, List.getElem_map]
      rw [← key]
    omega

/-- `ghe_time_convert` on the real tables: for every hour of the year the label
    (month, day, hour) is in range and decodes back to the hour index. -/
theorem time_convert_correct (h : Int) (h0 : 0 ≤ h) (hlt : h < 8760) :
    ∃ m : Nat, m < 12 ∧
      gheTimeConvert h = ((m : Int) + 1, (h - cum m) / 24 + 1, (h - cum m) % 24 + 1) ∧
      1 ≤ (h - cum m) / 24 + 1 ∧ (h - cum m) / 24 + 1 ≤ commonYear[m]?.getD 0 ∧
      1 ≤ (h - cum m) % 24 + 1 ∧ (h - cum m) % 24 + 1 ≤ 24 ∧
      h = cum m + 24 * ((h - cum m) / 24 + 1 - 1) + ((h - cum m) % 24 + 1 - 1) := by
  have hpos : ∀ d ∈ commonYear, 0 < d := by decide
  obtain ⟨m, hm, heq, hl0, hl1⟩ := time_convert_correct_general commonYear hpos h h0 (by
    have : (commonYear.map (24 * ·)).sum = 8760 := by decide
    omega)
  refine ⟨m, by simpa [commonYear] using hm, ?_, ?_⟩
  · have : hoursInYearGTC = commonYear.map (24 * ·) := by decide
    unfold gheTimeConvert
    rw [this]
    have h24 : Gen.HRS_IN_DAY = 24 := by decide
    rw [h24]; exact heq
  · unfold cum; omega

/-- The label determines the hour: distinct hours of the year get distinct labels. -/
theorem time_convert_injective (h1 h2 : Int) (a0 : 0 ≤ h1) (a1 : h1 < 8760) (b0 : 0 ≤ h2) (b1 : h2 < 8760)
    (heq : gheTimeConvert h1 = gheTimeConvert h2) : h1 = h2 := by
  obtain ⟨m1, _, e1, _, _, _, _, r1⟩ := time_convert_correct h1 a0 a1
  obtain ⟨m2, _, e2, _, _, _, _, r2⟩ := time_convert_correct h2 b0 b1
  rw [e1, e2] at heq
  simp only [Prod.mk.injEq] at heq
  obtain ⟨hm, hd, hk⟩ := heq
  have : m1 = m2 := by omega
  subst this
  omega


/-! ### `hours_to_month` -/

/-- Hours in each month of the common year. -/
def hiy : List Int := commonYear.map (24 * ·)

/-- Hours elapsed before month index `m`, as a rational. -/
def cumR (m : Nat) : Rat := sumR (hiy.take m)

theorem hiy_facts : hoursInYearHTM = hiy ∧ sumR hiy = 8760 ∧ hiy.length = 12 ∧ (∀ t ∈ hiy, 0 < t) ∧ hiy ≠ [] := by
  refine ⟨by decide, by decide +kernel, by decide, by decide, by decide⟩

/-- `hours_to_month` never raises and returns the closed form
    `12·⌊h/8760⌋ + (months elapsed in the remainder)`. -/
theorem hours_to_month_closed_form (h : Rat) : hoursToMonth h = .ok (F hiy h) := by
  obtain ⟨e, _, _, hpos, hne⟩ := hiy_facts
  unfold hoursToMonth; rw [e]; exact hoursToMonthT_eq hiy hpos hne h

/-- Formula: `y` whole years, then `x` hours into month `m` (0 ≤ x ≤ month length, **both ends
    included**, so consecutive pieces agree at every month end — continuity):
    the result is `12 y + m + x / (hours in month m)`.  Any year `y`, sub-hour `x` included. -/
theorem hours_to_month_formula (y : Int) (m : Nat) (hm : m < 12) (x : Rat) (hx0 : 0 ≤ x)
    (hx1 : x ≤ ((hiy[m]?.getD 0 : Int) : Rat)) :
    hoursToMonth (8760 * (y : Rat) + cumR m + x) =
      .ok (12 * (y : Rat) + (m : Rat) + x / ((hiy[m]?.getD 0 : Int) : Rat)) := by
  obtain ⟨_, hsum, hlen, hpos, hne⟩ := hiy_facts
  have hm' : m < hiy.length := by omega
  have hget : hiy[m]?.getD 0 = hiy[m] := by simp [hm']
  rw [hget] at hx1 ⊢
  have htpos : (0 : Rat) < (hiy[m] : Rat) := by exact_mod_cast hpos _ (List.getElem_mem hm')
  have hc0 : 0 ≤ cumR m := sumR_nonneg _ (fun t ht => hpos t (List.mem_of_mem_take ht))
  have hc1 : cumR m + x ≤ sumR hiy := by
    have h1 : sumR (hiy.take (m + 1)) = cumR m + (hiy[m] : Rat) := sumR_take_succ hiy m hm'
    have h2 : sumR (hiy.take (m + 1)) ≤ sumR hiy := sumR_take_le hiy hpos (m + 1)
    linarith
  rw [hours_to_month_closed_form]
  have e : 8760 * (y : Rat) + cumR m + x = (y : Rat) * sumR hiy + (cumR m + x) := by rw [hsum]; ring
  rw [e, F_year_shift hiy hpos hne y (cumR m + x) (by linarith) hc1]
  unfold cumR
  rw [G_prefix hiy hpos m hm' x hx0 hx1, hlen]; push_cast; ring_nf

/-- Month ends fall on integers: `y` years plus the first `m` months is exactly `12 y + m`. -/
theorem hours_to_month_month_end_integer (y : Int) (m : Nat) (hm : m ≤ 12) :
    hoursToMonth (8760 * (y : Rat) + cumR m) = .ok (12 * (y : Rat) + (m : Rat)) := by
  obtain ⟨_, hsum, hlen, hpos, hne⟩ := hiy_facts
  rcases Nat.lt_or_ge m 12 with hlt | hge
  · have := hours_to_month_formula y m hlt 0 (le_refl _) (by
      have hm' : m < hiy.length := by omega
      have : hiy[m]?.getD 0 = hiy[m] := by simp [hm']
      rw [this]; exact_mod_cast le_of_lt (hpos _ (List.getElem_mem hm')))
    simpa using this
  · have hm12 : m = 12 := by omega
    subst hm12
    have hc : cumR 12 = sumR hiy := by unfold cumR; rw [← hlen, List.take_length]
    rw [hours_to_month_closed_form, hc]
    have e : 8760 * (y : Rat) + sumR hiy = (y : Rat) * sumR hiy + sumR hiy := by rw [hsum]; ring
    rw [e, F_year_shift hiy hpos hne y (sumR hiy) (by rw [hsum]; norm_num) (le_refl _), G_total hiy hpos, hlen]
    push_cast; ring_nf

/-- Strictly increasing in the elapsed time (all rationals, hence all sub-hour resolutions). -/
theorem hours_to_month_strictMono (h1 h2 : Rat) (hlt : h1 < h2) :
    ∃ v1 v2, hoursToMonth h1 = .ok v1 ∧ hoursToMonth h2 = .ok v2 ∧ v1 < v2 := by
  obtain ⟨_, _, _, hpos, hne⟩ := hiy_facts
  exact ⟨F hiy h1, F hiy h2, hours_to_month_closed_form h1, hours_to_month_closed_form h2,
    F_strictMono hiy hpos hne h1 h2 hlt⟩

/-- Non-vacuity: hour 1000.5 lies 256.5 h into February (index 1) of year 0. -/
example : hoursToMonth (8760 * ((0 : Int) : Rat) + cumR 1 + (513 / 2 : Rat)) = .ok (0 + 1 + (513 / 2 : Rat) / 672) := by
  have := hours_to_month_formula 0 1 (by norm_num) (513 / 2) (by norm_num) (by
    show (513 / 2 : Rat) ≤ ((hiy[1]?.getD 0 : Int) : Rat)
    have : hiy[1]?.getD 0 = 672 := by decide
    rw [this]; norm_num)
  have h672 : hiy[1]?.getD 0 = 672 := by decide
  rw [h672] at this
  simpa using this

/-- Independent exhaustive check over the whole year (a finite quantifier, decided by the
    kernel): all 8760 labels are in range and decode to their hour. -/
theorem time_convert_table_check :
    (List.range 8760).all (fun n =>
      let (m, d, k) := gheTimeConvert (n : Int)
      decide (1 ≤ m ∧ m ≤ 12 ∧ 1 ≤ d ∧ d ≤ commonYear[(m - 1).toNat]?.getD 0 ∧ 1 ≤ k ∧ k ≤ 24 ∧
        (n : Int) = cum (m - 1).toNat + 24 * (d - 1) + (k - 1))) = true := by
  set_option maxRecDepth 100000 in decide +kernel

/-! ### the loads table and the bore-field table -/

/-- The loop of `get_hourly_loading_data` as regenerated from output.py on this run (locals renamed
    in order of appearance): it walks `enumerate(design.ghe.hourly_extraction_ground_loads)` and
    appends `[month, day, hour, index, load]` with the label of `ghe_time_convert(index)`. -/
theorem loading_table_statements :
    Gen.loadingSourceExpr = "v1 = v0.ghe.hourly_extraction_ground_loads" ∧
    Gen.loadingLoopExpr = "for (v3, v4) in enumerate(v1)" ∧
    Gen.loadingBody = ["v5, v6, v7 = self.ghe_time_convert(v3)", "v2.append([v5, v6, v7, v3, v4])"] ∧
    Gen.loadingReturnExpr = "return v2" := by decide

/-- The loads table echoes the input loads, all of them, in order, each with its index. -/
theorem loading_rows_echo (loads : List Rat) :
    (loadingRows loads).map (fun r => r.2.2.2.2) = loads ∧
    (loadingRows loads).map (fun r => r.2.2.2.1) = List.range loads.length ∧
    (loadingRows loads).length = loads.length := by
  unfold loadingRows
  refine ⟨?_, ?_, by simp⟩
  · simp [List.map_map, Function.comp_def]
  · simp only [List.map_map, Function.comp_def, List.zipIdx_eq_zip_range', List.range_eq_range']
    exact List.map_snd_zip (by simp)

/-- Row `i` of the loads table carries load `i` under the calendar label of hour `i` of the common
    year: month `m+1`, day and hour in range, decoding back to `i` (for the 8760 hours the property
    quantifies over). -/
theorem loading_rows_labels (loads : List Rat) (i : Nat) (hi : i < loads.length) (h8760 : i < 8760) :
    ∃ m : Nat, m < 12 ∧
      (loadingRows loads)[i]? = some ((m : Int) + 1, ((i : Int) - cum m) / 24 + 1, ((i : Int) - cum m) % 24 + 1, i, loads[i]) ∧
      1 ≤ ((i : Int) - cum m) / 24 + 1 ∧ ((i : Int) - cum m) / 24 + 1 ≤ commonYear[m]?.getD 0 ∧
      (i : Int) = cum m + 24 * (((i : Int) - cum m) / 24 + 1 - 1) + (((i : Int) - cum m) % 24 + 1 - 1) := by
  obtain ⟨m, hm, heq, d1, d2, _, _, hdec⟩ := time_convert_correct (i : Int) (by omega) (by omega)
  refine ⟨m, hm, ?_, d1, d2, hdec⟩
  unfold loadingRows
  simp [hi, heq]

/-- The bore-field table lists exactly the selected coordinates, in order. -/
theorem bore_rows_echo (coords : List (Rat × Rat)) :
    (boreRows coords).length = coords.length ∧
    ∀ i (h : i < coords.length), (boreRows coords)[i]? = some [coords[i].1, coords[i].2] := by
  unfold boreRows
  refine ⟨by simp, fun i h => by simp [h]⟩

/-- Non-vacuity: three loads give three rows labelled 1 January, hours 1..3. -/
example : loadingRows [5, -7, 0] = [(1, 1, 1, 0, 5), (1, 1, 2, 1, -7), (1, 1, 3, 2, 0)] := by decide +kernel

end GHEVerif.C19
