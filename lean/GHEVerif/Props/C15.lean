/-
  C15 — Equivalent single U-tube preserves the exchanger's bulk properties.
  Property theorems only; helper lemmas live in GHEVerif/Lemmas/EquivTube.lean.

  All statements are about the ℝ instantiation (`realOps`: π, √, ln) of the SAME definitions the
  driver runs at `Float` against the real code (Model/EquivTube.lean).  Constants (2 tubes, the
  brackets `/100 … ·10` and `[0.01, 7]`, spacing `/10`, `/3`) are `Gen` definitions regenerated from
  the source.  Third-party parts are universally quantified parameters: the convection correlation
  `hConv`, Brent's method `brent` (with its contract `BrentSpec` as a hypothesis where a theorem
  needs it), the multipole resistance `Rb`.  The flags say what the source does with the solver's
  result and with pygfunction's delta-circuit; theorems that do not mention a flag hold for every
  flag value (hence for the code as it is, `codeFlags`, and for repaired variants).

  The full statement of the property ("… and reproduces R_b within 0.1 %") is FALSE of the code:
  `rb_unrefreshed` shows why (the grout solve cannot change R_b'), `rb_claim_fails_witness` is the
  negation on a concrete witness, `rb_matched` is the provable part (it needs `groutRefresh`).
  Likewise "reproduces R_conv + R_pipe" holds exactly when the bracket contains the root
  (`rfp_matched`); `rfp_unmatchable` (finding F10) and `rfp_lower_clamp_keeps_upper` (new finding:
  the discarded result leaves the pipe at the wrong end of the bracket) are the other two branches.
-/
import GHEVerif.Lemmas.EquivTube

namespace GHEVerif.C15
open GHEVerif GHEVerif.EquivTube

/-! ### 1. Volumes -/

/-- The `n = 2` equivalent tubes hold the fluid volume handed to the conversion:
    `n·π·r_pi'² = V_fluid` (for every borehole radius and every other input). -/
theorem fluid_volume_preserved (rb : ℝ) (v : Vols ℝ) (h : 0 ≤ v.volFluid) :
    (Gen.eqTubeN : ℝ) * Real.pi * (equivGeometry realOps rb v).rIn ^ 2 = v.volFluid :=
  geom_rIn_sq rb v h

/-- … and the pipe-wall volume: `n·π·(r_po'² − r_pi'²) = V_pipe`. -/
theorem wall_volume_preserved (rb : ℝ) (v : Vols ℝ) (hf : 0 ≤ v.volFluid) (hp : 0 ≤ v.volPipe) :
    (Gen.eqTubeN : ℝ) * Real.pi * ((equivGeometry realOps rb v).rOut ^ 2 - (equivGeometry realOps rb v).rIn ^ 2)
      = v.volPipe := by
  have h1 := geom_rIn_sq rb v hf
  have h2 := geom_rOut_sq rb v (by linarith)
  unfold nEq at h1 h2
  linear_combination h2 - h1

/-- End to end for a double (any multiple) U-tube: the equivalent tubes have the fluid and wall
    cross-sections of the `nPipes·2` original tubes. -/
theorem double_u_volumes_preserved (nPipes : Nat) (rIn rOut hF kP rb : ℝ) (h0 : 0 ≤ rIn) (h1 : rIn ≤ rOut) :
    let g := equivGeometry realOps rb (uTubeVolumes realOps nPipes rIn rOut hF kP)
    (Gen.eqTubeN : ℝ) * Real.pi * g.rIn ^ 2 = ((nPipes * Gen.tubesPerU : Nat) : ℝ) * Real.pi * rIn ^ 2 ∧
    (Gen.eqTubeN : ℝ) * Real.pi * (g.rOut ^ 2 - g.rIn ^ 2)
      = ((nPipes * Gen.tubesPerU : Nat) : ℝ) * Real.pi * (rOut ^ 2 - rIn ^ 2) := by
  intro g
  have hn : (0 : ℝ) ≤ ((nPipes * Gen.tubesPerU : Nat) : ℝ) := Nat.cast_nonneg _
  have hvf : (uTubeVolumes realOps nPipes rIn rOut hF kP).volFluid
      = ((nPipes * Gen.tubesPerU : Nat) : ℝ) * Real.pi * rIn ^ 2 := by
    simp only [uTubeVolumes, realOps_pi, realOps_ofRat]; push_cast; ring
  have hvp : (uTubeVolumes realOps nPipes rIn rOut hF kP).volPipe
      = ((nPipes * Gen.tubesPerU : Nat) : ℝ) * Real.pi * (rOut ^ 2 - rIn ^ 2) := by
    simp only [uTubeVolumes, realOps_pi, realOps_ofRat]; push_cast; ring
  have hpi := Real.pi_pos
  have hf : 0 ≤ (uTubeVolumes realOps nPipes rIn rOut hF kP).volFluid := by rw [hvf]; positivity
  have hp : 0 ≤ (uTubeVolumes realOps nPipes rIn rOut hF kP).volPipe := by
    rw [hvp]
    have : 0 ≤ rOut ^ 2 - rIn ^ 2 := by nlinarith
    positivity
  exact ⟨(fluid_volume_preserved rb _ hf).trans hvf, (wall_volume_preserved rb _ hf hp).trans hvp⟩

/-- End to end for a coaxial exchanger (inner pipe `r_ii < r_io`, annulus up to `r_oi`, outer pipe to
    `r_oo`): fluid = inner bore + annulus, wall = the two pipe walls. -/
theorem coaxial_volumes_preserved (rii rio roi roo hFa kO rb : ℝ) (h0 : 0 ≤ rii) (h1 : rii ≤ rio) (h2 : rio ≤ roi)
    (h3 : roi ≤ roo) :
    let g := equivGeometry realOps rb (concentricTubeVolumes realOps rii rio roi roo hFa kO)
    (Gen.eqTubeN : ℝ) * Real.pi * g.rIn ^ 2 = Real.pi * rii ^ 2 + Real.pi * (roi ^ 2 - rio ^ 2) ∧
    (Gen.eqTubeN : ℝ) * Real.pi * (g.rOut ^ 2 - g.rIn ^ 2)
      = Real.pi * (rio ^ 2 - rii ^ 2) + Real.pi * (roo ^ 2 - roi ^ 2) := by
  intro g
  have hvf : (concentricTubeVolumes realOps rii rio roi roo hFa kO).volFluid
      = Real.pi * rii ^ 2 + Real.pi * (roi ^ 2 - rio ^ 2) := by
    simp [concentricTubeVolumes]; ring
  have hvp : (concentricTubeVolumes realOps rii rio roi roo hFa kO).volPipe
      = Real.pi * (rio ^ 2 - rii ^ 2) + Real.pi * (roo ^ 2 - roi ^ 2) := by
    simp [concentricTubeVolumes]; ring
  have hpi := Real.pi_pos
  have a1 : 0 ≤ roi ^ 2 - rio ^ 2 := by nlinarith
  have a2 : 0 ≤ rio ^ 2 - rii ^ 2 := by nlinarith
  have a3 : 0 ≤ roo ^ 2 - roi ^ 2 := by nlinarith
  have hf : 0 ≤ (concentricTubeVolumes realOps rii rio roi roo hFa kO).volFluid := by rw [hvf]; positivity
  have hp : 0 ≤ (concentricTubeVolumes realOps rii rio roi roo hFa kO).volPipe := by rw [hvp]; positivity
  exact ⟨(fluid_volume_preserved rb _ hf).trans hvf, (wall_volume_preserved rb _ hf hp).trans hvp⟩

/-- Non-vacuity: the repository's double U-tube (4 tubes, r_in 17.02 mm) gives `2π r'² = 4π r²`. -/
example : (Gen.eqTubeN : ℝ) * Real.pi *
    (equivGeometry realOps 0.07 (uTubeVolumes realOps 2 0.01702 0.02108 1292 0.4)).rIn ^ 2
      = ((2 * Gen.tubesPerU : Nat) : ℝ) * Real.pi * (0.01702 : ℝ) ^ 2 :=
  (double_u_volumes_preserved 2 0.01702 0.02108 1292 0.4 0.07 (by norm_num) (by norm_num)).1

/-! ### 2. The borehole-enlargement rule -/

/-- Whatever the original borehole radius, the two equivalent tubes lie inside the (possibly
    enlarged) borehole copy (`shank + r_po' ≤ r_b'`), do not overlap (`r_po' < shank`, i.e. centre
    distance `2·shank > 2 r_po'`), the shank spacing is positive and the borehole never shrinks. -/
theorem enlarged_fits (rb : ℝ) (v : Vols ℝ) (h : 0 < v.volFluid + v.volPipe) :
    let g := equivGeometry realOps rb v
    0 < g.s ∧ g.shank + g.rOut ≤ g.rB ∧ g.rOut < g.shank ∧ rb ≤ g.rB := by
  apply geom_fits
  rw [geom_rOut]
  exact Real.sqrt_pos.mpr (div_pos h nEqPi_pos)

/-- The rule in closed form: if `2 r_b − 4 r_po' ≤ 0` the copy gets `r_b' = 1.2·(4 r_po' − r_b)`,
    otherwise it keeps `r_b`; the tubes sit at `±(spacing/6 + r_po')`. -/
theorem enlargement_rule (rb : ℝ) (v : Vols ℝ) :
    let g := equivGeometry realOps rb v
    (rb * 2 - 2 * g.rOut * 2 ≤ 0 →
        g.rB = (4 * g.rOut - rb) * (6 / 5) ∧ g.spacing = (4 * g.rOut - rb) / 5 ∧ g.enlarged = true) ∧
    (0 < rb * 2 - 2 * g.rOut * 2 → g.rB = rb ∧ g.spacing = rb * 2 - 4 * g.rOut ∧ g.enlarged = false) ∧
    g.s = g.spacing / 3 ∧ g.shank = g.spacing / 6 + g.rOut :=
  geom_closed rb v

/-- Non-vacuity of both branches of the rule (`r_po' = 1`: volumes `2π`). -/
example : (equivGeometry realOps 1 ⟨Real.pi, Real.pi, 1, 1⟩).enlarged = true ∧
    (equivGeometry realOps 3 ⟨Real.pi, Real.pi, 1, 1⟩).enlarged = false := by
  have hr : ∀ rb : ℝ, (equivGeometry realOps rb ⟨Real.pi, Real.pi, 1, 1⟩).rOut = 1 := by
    intro rb
    rw [geom_rOut, nEq_two]
    have : (Real.pi + Real.pi) / (2 * Real.pi) = 1 := by
      have := Real.pi_pos.ne'
      field_simp; ring
    simp [this]
  constructor
  · exact ((enlargement_rule 1 _).1 (by rw [hr]; norm_num)).2.2
  · exact ((enlargement_rule 3 _).2.1 (by rw [hr]; norm_num)).2.2

/-! ### 3. `R_fp(k)` and the pipe-conductivity solve -/

/-- `R_fp(k) = R_f + ln(r_o/r_i)/(2πk)` is strictly decreasing in the conductivity. -/
theorem rfp_monotone (rF rIn rOut k1 k2 : ℝ) (h0 : 0 < rIn) (h1 : rIn < rOut) (hk1 : 0 < k1) (hk : k1 < k2) :
    rF + pipeR realOps rIn rOut k2 < rF + pipeR realOps rIn rOut k1 := by
  have := pipeR_strictAnti h0 h1 hk1 hk
  linarith

/-- `solve_root` never falls through: the value it returns is Brent's, the lower or the upper bound
    (the initial guess `x` is never returned), and which one is decided by the end signs alone. -/
theorem solve_root_cases (np : Bool) (brent : (ℝ → ℝ) → ℝ → ℝ → Py (ℝ × ℝ)) (x : ℝ) (f : ℝ → ℝ) (lo hi : ℝ)
    (s : Solve ℝ) (h : solveRoot realOps np brent x f (some lo) (some hi) = .ok s) :
    (s.branch = .brent ∧ f lo * f hi < 0 ∧ brent f lo hi = .ok (s.result, s.last)) ∨
    (s.branch = .lower ∧ f lo < 0 ∧ f hi < 0 ∧ s.result = lo ∧ s.last = hi) ∨
    (s.branch = .upper ∧ 0 < f lo ∧ 0 < f hi ∧ s.result = hi ∧ s.last = hi) := by
  rcases lt_trichotomy (f lo) 0 with a | a | a
  · rcases lt_trichotomy (f hi) 0 with b | b | b
    · rw [solveRoot_lower np brent x f lo hi a b] at h
      injection h with h; subst h
      exact Or.inr (Or.inl ⟨rfl, a, b, rfl, rfl⟩)
    · rw [solveRoot_zero_hi np brent x f lo hi a.ne b] at h; cases h
    · rw [solveRoot_brent_np np brent x f lo hi a b] at h
      obtain ⟨r, l, hb, hs⟩ := brentOutcome_ok _ _ h
      subst hs
      exact Or.inl ⟨rfl, mul_neg_of_neg_of_pos a b, hb⟩
  · rw [solveRoot_zero_lo np brent x f lo hi a] at h; cases h
  · rcases lt_trichotomy (f hi) 0 with b | b | b
    · rw [solveRoot_brent_pn np brent x f lo hi a b] at h
      obtain ⟨r, l, hb, hs⟩ := brentOutcome_ok _ _ h
      subst hs
      exact Or.inl ⟨rfl, mul_neg_of_pos_of_neg a b, hb⟩
    · rw [solveRoot_zero_hi np brent x f lo hi a.ne' b] at h; cases h
    · rw [solveRoot_upper np brent x f lo hi a b] at h
      injection h with h; subst h
      exact Or.inr (Or.inr ⟨rfl, a, b, rfl, rfl⟩)

/-- The error branch, stated: an objective value of exactly 0 at a bracket end makes `solve_root`
    raise (ValueError through NaN for numpy scalars, ZeroDivisionError for Python floats). -/
theorem solve_root_zero_raises (np : Bool) (brent : (ℝ → ℝ) → ℝ → ℝ → Py (ℝ × ℝ)) (x : ℝ) (f : ℝ → ℝ) (lo hi : ℝ)
    (h : f lo = 0 ∨ f hi = 0) :
    solveRoot realOps np brent x f (some lo) (some hi) = .error (if np then .valueError else .zeroDiv) := by
  by_cases a : f lo = 0
  · exact solveRoot_zero_lo np brent x f lo hi a
  · exact solveRoot_zero_hi np brent x f lo hi a (h.resolve_left a)

/-- **R_fp is matched when the bracket contains the root.**  If `R_fp(k_lo) > target > R_fp(k_hi)`
    on the bracket `[k_p'/100, 10 k_p']` and Brent's method honours its contract with tolerance `δ`
    (smaller than the conductivity it stops at), then the conversion succeeds through Brent's
    branch and the `R_fp` of the equivalent tube is within `R_p(k)·δ/(k−δ)` of `R_conv + R_pipe`,
    `k` being the conductivity left in the pipe.  Holds for every flag value. -/
theorem rfp_matched (fl : Flags) (brent : (ℝ → ℝ) → ℝ → ℝ → Py (ℝ × ℝ)) (hConv : ℝ → ℝ) (rb kg0 δ : ℝ) (v : Vols ℝ)
    (hf : 0 < v.volFluid) (hp : 0 < v.volPipe)
    (hlo : v.resistConv + v.resistPipe < eqRfp hConv rb v (kpLo rb v))
    (hhi : eqRfp hConv rb v (kpHi rb v) < v.resistConv + v.resistPipe)
    (out : ℝ × ℝ)
    (hb : brent (fun k => eqRfp hConv rb v k - (v.resistConv + v.resistPipe)) (kpLo rb v) (kpHi rb v) = .ok out)
    (hspec : BrentSpec (fun k => eqRfp hConv rb v k - (v.resistConv + v.resistPipe)) (kpLo rb v) (kpHi rb v) δ out)
    (hδ : δ < out.2) :
    ∃ t sol, equivalentSingleUTube realOps fl brent hConv rb kg0 v = .ok (t, sol) ∧ sol.branch = .brent ∧
      t.kPipe = (if fl.pipeResultUsed then out.1 else out.2) ∧
      |t.rFp - (v.resistConv + v.resistPipe)| ≤
        pipeR realOps t.geom.rIn t.geom.rOut out.2 * (δ / (out.2 - δ)) := by
  obtain ⟨x, l⟩ := out
  refine ⟨pipeTube realOps fl hConv rb kg0 v ⟨x, l, .brent⟩, ⟨x, l, .brent⟩, ?_, rfl, rfl, ?_⟩
  · rw [equivalentSingleUTube_eq, solveRoot_brent_pn _ _ _ _ _ _ (by linarith) (by linarith), hb]
    rfl
  · obtain ⟨r, _, _, hr0, _, hl⟩ := hspec
    simp only at hr0 hl hδ
    rw [pipeTube_rFp]
    have e : eqRfp hConv rb v l - (v.resistConv + v.resistPipe)
        = pipeR realOps (equivGeometry realOps rb v).rIn (equivGeometry realOps rb v).rOut l
          - pipeR realOps (equivGeometry realOps rb v).rIn (equivGeometry realOps rb v).rOut r := by
      unfold eqRfp at hr0 ⊢
      linarith
    rw [e]
    exact pipeR_close (geom_rIn_pos rb v hf) (geom_rIn_lt_rOut rb v hf.le hp) hδ hl

/-- **Finding F10, as a theorem.**  When the convective resistance of the equivalent tube alone
    reaches the target (`R_f' ≥ R_conv + R_pipe`: low-flow coaxial cases), no positive pipe
    conductivity matches, the objective is positive on the whole bracket, `solve_root` takes the
    `upper` branch without calling Brent, and the pipe is left at `10·k_p'` with
    `R_fp' > R_conv + R_pipe`. -/
theorem rfp_unmatchable (fl : Flags) (brent : (ℝ → ℝ) → ℝ → ℝ → Py (ℝ × ℝ)) (hConv : ℝ → ℝ) (rb kg0 : ℝ) (v : Vols ℝ)
    (hf : 0 < v.volFluid) (hp : 0 < v.volPipe) (hr : 0 < v.resistPipe)
    (h : v.resistConv + v.resistPipe ≤ eqRf hConv rb v) :
    (∀ k, 0 < k → v.resistConv + v.resistPipe < eqRfp hConv rb v k) ∧
    ∃ t sol, equivalentSingleUTube realOps fl brent hConv rb kg0 v = .ok (t, sol) ∧ sol.branch = .upper ∧
      t.kPipe = kpHi rb v ∧ t.rFp = eqRfp hConv rb v (kpHi rb v) ∧ v.resistConv + v.resistPipe < t.rFp := by
  have hk0 := geom_kPipe0_pos rb v hf hp hr
  have key : ∀ k, 0 < k → v.resistConv + v.resistPipe < eqRfp hConv rb v k := by
    intro k hk
    have := pipeR_pos (geom_rIn_pos rb v hf) (geom_rIn_lt_rOut rb v hf.le hp) hk
    unfold eqRfp; linarith
  refine ⟨key, pipeTube realOps fl hConv rb kg0 v ⟨kpHi rb v, kpHi rb v, .upper⟩, ⟨kpHi rb v, kpHi rb v, .upper⟩, ?_, rfl, ?_, rfl, ?_⟩
  · rw [equivalentSingleUTube_eq, solveRoot_upper _ _ _ _ _ _ (by linarith [key _ (kpLo_pos rb v hk0)])
      (by linarith [key _ (kpHi_pos rb v hk0)])]
    rfl
  · rw [pipeTube_kPipe]; simp
  · rw [pipeTube_rFp]; exact key _ (kpHi_pos rb v hk0)

/-- **New finding, as a theorem.**  When the root lies below the bracket (`R_fp(k_lo) < target`:
    laminar double U-tubes, whose `resist_conv` is large), `solve_root` returns the LOWER bound —
    but the code discards that value (`pipeResultUsed = false`, read from the source) and the pipe
    keeps the conductivity of the objective's last evaluation, the UPPER bound: of all points of the
    bracket the one whose `R_fp` is farthest from the target. -/
theorem rfp_lower_clamp_keeps_upper (fl : Flags) (hfl : fl.pipeResultUsed = false)
    (brent : (ℝ → ℝ) → ℝ → ℝ → Py (ℝ × ℝ)) (hConv : ℝ → ℝ) (rb kg0 : ℝ) (v : Vols ℝ)
    (hf : 0 < v.volFluid) (hp : 0 < v.volPipe) (hr : 0 < v.resistPipe)
    (h : eqRfp hConv rb v (kpLo rb v) < v.resistConv + v.resistPipe) :
    ∃ t sol, equivalentSingleUTube realOps fl brent hConv rb kg0 v = .ok (t, sol) ∧ sol.branch = .lower ∧
      sol.result = kpLo rb v ∧ t.kPipe = kpHi rb v ∧ t.rFp = eqRfp hConv rb v (kpHi rb v) ∧
      (∀ k, kpLo rb v ≤ k → k < kpHi rb v →
        |eqRfp hConv rb v k - (v.resistConv + v.resistPipe)| < |t.rFp - (v.resistConv + v.resistPipe)|) := by
  have hk0 := geom_kPipe0_pos rb v hf hp hr
  have hri := geom_rIn_pos rb v hf
  have hro := geom_rIn_lt_rOut rb v hf.le hp
  have hlohi := kpLo_lt_kpHi rb v hk0
  have hhi : eqRfp hConv rb v (kpHi rb v) < eqRfp hConv rb v (kpLo rb v) := by
    unfold eqRfp; linarith [pipeR_strictAnti hri hro (kpLo_pos rb v hk0) hlohi]
  refine ⟨pipeTube realOps fl hConv rb kg0 v ⟨kpLo rb v, kpHi rb v, .lower⟩, ⟨kpLo rb v, kpHi rb v, .lower⟩, ?_, rfl, rfl, ?_, rfl, ?_⟩
  · rw [equivalentSingleUTube_eq, solveRoot_lower _ _ _ _ _ _ (by linarith) (by linarith)]
    rfl
  · rw [pipeTube_kPipe]; simp [hfl]
  · intro k hk1 hk2
    rw [pipeTube_rFp]
    have hkpos : 0 < k := lt_of_lt_of_le (kpLo_pos rb v hk0) hk1
    have a1 : eqRfp hConv rb v (kpHi rb v) < eqRfp hConv rb v k := by
      unfold eqRfp; linarith [pipeR_strictAnti hri hro hkpos hk2]
    have a2 : eqRfp hConv rb v k ≤ eqRfp hConv rb v (kpLo rb v) := by
      rcases eq_or_lt_of_le hk1 with e | e
      · rw [e]
      · unfold eqRfp; linarith [pipeR_strictAnti hri hro (kpLo_pos rb v hk0) e]
    rw [abs_of_neg (by linarith), abs_of_neg (by linarith)]
    dsimp only
    linarith

/-- The flag used by `rfp_lower_clamp_keeps_upper` is the one read from the source. -/
example : codeFlags.pipeResultUsed = Gen.pipeSolveResultUsed := rfl

/-! ### 4. The grout-conductivity solve and `R_b` -/

/-- **Finding F9, as a theorem.**  If the grout objective does not refresh the delta-circuit
    (`groutRefresh = false`, read from the source), then for EVERY multipole function `Rb`, every
    target, every tube and every root finder: Brent's method is never called, the grout
    conductivity is clamped to an end of `[0.01, 7]`, and the effective borehole resistance of the
    result is exactly the preliminary tube's — whatever the original's `R_b` is. -/
theorem rb_unrefreshed (fl : Flags) (hfl : fl.groutRefresh = false) (brent : (ℝ → ℝ) → ℝ → ℝ → Py (ℝ × ℝ))
    (Rb : ℝ → ℝ → ℝ) (T : ℝ) (t t' : Tube ℝ) (sol : Solve ℝ)
    (h : matchEffectiveBoreholeResistance realOps fl brent Rb T t = .ok (t', sol)) :
    t'.rb Rb = t.rb Rb ∧ sol.branch ≠ .brent ∧ t'.kGrout = kgHi ∨
    t'.rb Rb = t.rb Rb ∧ sol.branch ≠ .brent ∧ T < t.rb Rb ∧ t'.kGrout = (if fl.groutResultUsed then kgLo else kgHi) := by
  rw [matchRb_eq] at h
  obtain ⟨s, hs, hp⟩ := map_eq_ok _ _ _ h
  injection hp with h1 h2
  subst h2; subst h1
  rcases solve_root_cases _ _ _ _ _ _ _ hs with ⟨_, hneg, _⟩ | ⟨hb, hlo, _, hres, hlast⟩ | ⟨hb, _, _, hres, hlast⟩
  · rw [groutObjective_norefresh fl hfl, groutObjective_norefresh fl hfl] at hneg
    exact absurd hneg (not_lt.mpr (mul_self_nonneg _))
  · right
    rw [groutObjective_norefresh fl hfl] at hlo
    refine ⟨groutTube_rb_norefresh fl hfl Rb t s, by rw [hb]; decide, by linarith, ?_⟩
    rw [groutTube_kGrout, hres, hlast]
  · left
    refine ⟨groutTube_rb_norefresh fl hfl Rb t s, by rw [hb]; decide, ?_⟩
    rw [groutTube_kGrout, hres, hlast]; simp

/-- The flag used by `rb_unrefreshed` is the one read from the source. -/
example : codeFlags.groutRefresh = Gen.groutObjectiveRefreshes := rfl

/-- Negation of the property's `R_b` clause on a concrete witness: with the flags of the code, a
    multipole function `Rb(k_g, R_fp) = R_fp + 1/k_g`, a preliminary tube with `R_b' = 1.1` and an
    original with `R_b = 2`, the conversion succeeds and returns a tube whose `R_b'` is still 1.1,
    45 % off — although `k_g = 10/19 ∈ [0.01, 7]` would match exactly.  The hypothesis is the
    structural fact the translator reads off the source (`by decide` on the unchanged tree; kept as
    a hypothesis so that the file still builds once the objective is repaired). -/
theorem rb_claim_fails_witness (hcode : Gen.groutObjectiveRefreshes = false) :
    ∃ (Rb : ℝ → ℝ → ℝ) (T : ℝ) (t t' : Tube ℝ) (sol : Solve ℝ),
      (∀ brent, matchEffectiveBoreholeResistance realOps codeFlags brent Rb T t = .ok (t', sol)) ∧
      ¬ (|t'.rb Rb - T| ≤ 0.001 * T) ∧ (kgLo ≤ 10 / 19 ∧ (10 : ℝ) / 19 ≤ kgHi ∧ Rb (10 / 19) t.rFp = T) := by
  let g : Geom ℝ := ⟨1, 2, 1, 5, 1, 1, 1, false⟩
  let t : Tube ℝ := ⟨g, 0.05, 1, 0.1, 1, 1, 0.1⟩
  let Rb : ℝ → ℝ → ℝ := fun kg rfp => rfp + 1 / kg
  have hfl : codeFlags.groutRefresh = false := hcode
  have hobj : ∀ k, groutObjective codeFlags Rb 2 t k = 0.9 := by
    intro k
    rw [groutObjective_norefresh codeFlags hfl]
    simp only [Tube.rb, t, Rb]; norm_num
  refine ⟨Rb, 2, t, groutTube codeFlags t ⟨kgHi, kgHi, .upper⟩, ⟨kgHi, kgHi, .upper⟩, ?_, ?_, ?_⟩
  · intro brent
    rw [matchRb_eq, solveRoot_upper _ _ _ _ _ _ (by rw [hobj]; norm_num) (by rw [hobj]; norm_num)]
    rfl
  · rw [groutTube_rb_norefresh codeFlags hfl]
    simp only [Tube.rb, t, Rb]
    rw [abs_of_neg (by norm_num)]; norm_num
  · refine ⟨by unfold kgLo; simp [Gen.kgLower]; norm_num, by unfold kgHi; simp [Gen.kgUpper]; norm_num, ?_⟩
    simp only [Rb, t]; norm_num

/-- **The provable part of the `R_b` clause** (`…_partial`: it needs the objective to refresh the
    circuit, which the code does not do).  If the objective refreshes (`groutRefresh = true`), the
    multipole resistance `k_g ↦ Rb(k_g, R_fp')` is `c`-Lipschitz, `R_b − Rb(k_g)` changes sign on
    `[0.01, 7]` and Brent's method honours its contract with tolerance `δ`, then the result's
    effective borehole resistance is within `c·δ` of the original's. -/
theorem rb_matched_partial (fl : Flags) (hfl : fl.groutRefresh = true) (brent : (ℝ → ℝ) → ℝ → ℝ → Py (ℝ × ℝ))
    (Rb : ℝ → ℝ → ℝ) (T c δ : ℝ) (t : Tube ℝ)
    (hsign : (T - Rb kgLo t.rFp) * (T - Rb kgHi t.rFp) < 0)
    (hlip : ∀ a b, |Rb a t.rFp - Rb b t.rFp| ≤ c * |a - b|) (hc : 0 ≤ c)
    (out : ℝ × ℝ) (hb : brent (groutObjective fl Rb T t) kgLo kgHi = .ok out)
    (hspec : BrentSpec (groutObjective fl Rb T t) kgLo kgHi δ out) :
    ∃ t' sol, matchEffectiveBoreholeResistance realOps fl brent Rb T t = .ok (t', sol) ∧ sol.branch = .brent ∧
      t'.kGrout = (if fl.groutResultUsed then out.1 else out.2) ∧ |t'.rb Rb - T| ≤ c * δ := by
  obtain ⟨x, l⟩ := out
  have hrun : solveRoot realOps fl.numpy brent t.kGrout (groutObjective fl Rb T t) (some kgLo) (some kgHi)
      = .ok ⟨x, l, .brent⟩ := by
    have e1 := groutObjective_refresh fl hfl Rb T t kgLo
    have e2 := groutObjective_refresh fl hfl Rb T t kgHi
    rcases lt_trichotomy (T - Rb kgLo t.rFp) 0 with a | a | a
    · have b : 0 < T - Rb kgHi t.rFp := by
        by_contra hn
        have := mul_nonneg_of_nonpos_of_nonpos a.le (not_lt.mp hn)
        linarith
      rw [solveRoot_brent_np _ _ _ _ _ _ (by rw [e1]; exact a) (by rw [e2]; exact b), hb]; rfl
    · rw [a, zero_mul] at hsign; exact absurd hsign (lt_irrefl _)
    · have b : T - Rb kgHi t.rFp < 0 := by
        by_contra hn
        have := mul_nonneg a.le (not_lt.mp hn)
        linarith
      rw [solveRoot_brent_pn _ _ _ _ _ _ (by rw [e1]; exact a) (by rw [e2]; exact b), hb]; rfl
  refine ⟨groutTube fl t ⟨x, l, .brent⟩, ⟨x, l, .brent⟩, ?_, rfl, rfl, ?_⟩
  · rw [matchRb_eq, hrun]; rfl
  · obtain ⟨r, _, _, hr0, _, hl⟩ := hspec
    simp only at hl
    rw [groutObjective_refresh fl hfl] at hr0
    rw [groutTube_rb_refresh fl hfl]
    have : Rb l t.rFp - T = Rb l t.rFp - Rb r t.rFp := by linarith
    dsimp only
    rw [this]
    calc |Rb l t.rFp - Rb r t.rFp| ≤ c * |l - r| := hlip l r
      _ ≤ c * δ := mul_le_mul_of_nonneg_left hl hc

/-- Non-vacuity of `rb_matched_partial`: the affine multipole stand-in `Rb(k_g, R) = R + (7 − k_g)/10`
    (1/10-Lipschitz, decreasing in `k_g`), target 0.5 with `R_fp' = 0.1`: root `k_g = 3`, an exact
    root finder (`δ = 0`), flags = the code's with `groutRefresh` switched on. -/
example : ∃ t' sol, matchEffectiveBoreholeResistance realOps ⟨true, false, false, true, true⟩
      (fun _ _ _ => .ok (3, 3)) (fun kg R => R + (7 - kg) / 10) 0.5
      ⟨⟨1, 2, 1, 5, 1, 1, 1, false⟩, 0.05, 1, 0.1, 1, 1, 0.1⟩ = .ok (t', sol) ∧ sol.branch = .brent ∧
      t'.kGrout = 3 ∧ |t'.rb (fun kg R => R + (7 - kg) / 10) - 0.5| ≤ (1 / 10) * 0 := by
  have h := rb_matched_partial ⟨true, false, false, true, true⟩ rfl (fun _ _ _ => .ok (3, 3))
    (fun kg R => R + (7 - kg) / 10) 0.5 (1 / 10) 0 ⟨⟨1, 2, 1, 5, 1, 1, 1, false⟩, 0.05, 1, 0.1, 1, 1, 0.1⟩
    (by unfold kgLo kgHi; simp [Gen.kgLower, Gen.kgUpper]; norm_num)
    (by intro a b; rw [show (0.1 : ℝ) + (7 - a) / 10 - (0.1 + (7 - b) / 10) = -(1 / 10) * (a - b) by ring, abs_mul]; norm_num)
    (by norm_num) (3, 3) rfl
    ⟨3, by unfold kgLo; simp [Gen.kgLower]; norm_num, by unfold kgHi; simp [Gen.kgUpper]; norm_num,
      by rw [groutObjective_refresh _ rfl]; norm_num, by norm_num, by norm_num⟩
  simpa using h

/-! ### 5. Single U-tube -/

/-- A single U-tube converts to itself: no solver is run, nothing changes, nothing can raise. -/
theorem single_is_fixed_point (fl : Flags) (brentP brentG : (ℝ → ℝ) → ℝ → ℝ → Py (ℝ × ℝ)) (hConv : ℝ → ℝ)
    (Rb : ℝ → ℝ → ℝ) (t : Tube ℝ) :
    toSingle realOps fl brentP brentG hConv Rb (.single t) = .ok t := rfl

/-- … and `to_single` of a double-U / coaxial exchanger is the composition of the two solves
    (`R_b'` of the result is the preliminary tube's when the grout objective does not refresh). -/
theorem to_single_rb_is_preliminary (fl : Flags) (hfl : fl.groutRefresh = false)
    (brentP brentG : (ℝ → ℝ) → ℝ → ℝ → Py (ℝ × ℝ)) (hConv : ℝ → ℝ) (Rb : ℝ → ℝ → ℝ)
    (v : Vols ℝ) (rb kg0 T : ℝ) (t' : Tube ℝ)
    (h : toSingle realOps fl brentP brentG hConv Rb (.multi v rb kg0 T) = .ok t') :
    ∃ t sol, equivalentSingleUTube realOps fl brentP hConv rb kg0 v = .ok (t, sol) ∧ t'.rb Rb = t.rb Rb ∧
      t'.rFp = t.rFp ∧ t'.kPipe = t.kPipe ∧ t'.geom = t.geom := by
  change (equivalentSingleUTube realOps fl brentP hConv rb kg0 v).bind
    (fun p => (matchEffectiveBoreholeResistance realOps fl brentG Rb T p.1).map (·.1)) = .ok t' at h
  cases he : equivalentSingleUTube realOps fl brentP hConv rb kg0 v with
  | error e => rw [he] at h; simp [Except.bind] at h
  | ok p =>
    obtain ⟨t, sol⟩ := p
    rw [he] at h
    simp only [Except.bind] at h
    obtain ⟨q, hq, hq2⟩ := map_eq_ok _ _ _ h
    obtain ⟨t2, s2⟩ := q
    simp only at hq2; subst hq2
    have hr := rb_unrefreshed fl hfl brentG Rb T t t2 s2 hq
    have hrb : t2.rb Rb = t.rb Rb := by rcases hr with h1 | h1 <;> exact h1.1
    rw [matchRb_eq] at hq
    obtain ⟨s, _, hs2⟩ := map_eq_ok _ _ _ hq
    injection hs2 with h1 _
    subst h1
    exact ⟨t, sol, rfl, hrb, rfl, rfl, rfl⟩

/-! ### 6. Reach of the pipe-conductivity bracket; non-vacuity of the three branches -/
/-- **What the bracket `[k_p'/100, 10·k_p']` can reach.**  At its ends the equivalent tube has
    `R_fp = R_f' + 200·R_pipe` and `R_f' + R_pipe/5`.  So the pipe solve can match
    `R_conv + R_pipe` iff `R_f' − 0.8·R_pipe < R_conv < R_f' + 199·R_pipe`; otherwise it clamps
    (`rfp_unmatchable`, `rfp_lower_clamp_keeps_upper`). -/
theorem pipe_bracket_ends (hConv : ℝ → ℝ) (rb : ℝ) (v : Vols ℝ) (hf : 0 < v.volFluid) (hp : 0 < v.volPipe)
    (hr : 0 < v.resistPipe) :
    eqRfp hConv rb v (kpLo rb v) = eqRf hConv rb v + 200 * v.resistPipe ∧
    eqRfp hConv rb v (kpHi rb v) = eqRf hConv rb v + v.resistPipe / 5 := by
  rw [kpLo_eq, kpHi_eq, eqRfp_at_multiple hConv rb v hf hp hr _ (by norm_num),
    eqRfp_at_multiple hConv rb v hf hp hr _ (by norm_num), nEq_two]
  constructor <;> ring

/-- Non-vacuity of `rfp_matched`: volumes `π, 3π`, `R_conv = R_pipe = 1`, `R_f' = 1`: the objective
    is `+199` and `−0.8` at the bracket ends, the root is `2·k_p'`, and an exact root finder
    (`δ = 0`) gives `R_fp' = R_conv + R_pipe` exactly. -/
example : ∃ t sol, equivalentSingleUTube realOps codeFlags
      (fun _ _ _ => .ok (2 * (equivGeometry realOps 1 ⟨Real.pi, 3 * Real.pi, 1, 1⟩).kPipe0,
                         2 * (equivGeometry realOps 1 ⟨Real.pi, 3 * Real.pi, 1, 1⟩).kPipe0))
      hOne 1 1 ⟨Real.pi, 3 * Real.pi, 1, 1⟩ = .ok (t, sol) ∧ sol.branch = .brent ∧ |t.rFp - (1 + 1)| ≤ 0 := by
  have hpi := Real.pi_pos
  set v : Vols ℝ := ⟨Real.pi, 3 * Real.pi, 1, 1⟩ with hv
  have hf : 0 < v.volFluid := hpi
  have hp : 0 < v.volPipe := by show 0 < 3 * Real.pi; positivity
  have hr : 0 < v.resistPipe := by show (0 : ℝ) < 1; norm_num
  have hk0 := geom_kPipe0_pos 1 v hf hp hr
  obtain ⟨e1, e2⟩ := pipe_bracket_ends hOne 1 v hf hp hr
  rw [eqRf_hOne 1 v hf] at e1 e2
  have eroot : eqRfp hOne 1 v (2 * (equivGeometry realOps 1 v).kPipe0) = 2 := by
    rw [eqRfp_at_multiple hOne 1 v hf hp hr _ (by norm_num), eqRf_hOne 1 v hf, nEq_two]
    show (1 : ℝ) + 2 * 1 / 2 = 2; norm_num
  obtain ⟨t, sol, h1, h2, _, h4⟩ := rfp_matched codeFlags
    (fun _ _ _ => .ok (2 * (equivGeometry realOps 1 v).kPipe0, 2 * (equivGeometry realOps 1 v).kPipe0))
    hOne 1 1 0 v hf hp
    (by rw [e1]; show (1 : ℝ) + 1 < 1 + 200 * 1; norm_num) (by rw [e2]; show (1 : ℝ) + 1 / 5 < 1 + 1; norm_num)
    _ rfl
    ⟨2 * (equivGeometry realOps 1 v).kPipe0, by rw [kpLo_eq]; linarith, by rw [kpHi_eq]; linarith,
      by show eqRfp hOne 1 v _ - ((1 : ℝ) + 1) = 0; rw [eroot]; norm_num, by simp, by simp⟩
    (by show (0 : ℝ) < 2 * _; linarith)
  refine ⟨t, sol, h1, h2, ?_⟩
  simpa using h4

/-- Non-vacuity of `rfp_unmatchable` (F10): same tube, `R_conv = 0`: target `1 ≤ R_f' = 1`. -/
example : ∃ t sol, equivalentSingleUTube realOps codeFlags (fun _ _ _ => .error .other) hOne 1 1
      ⟨Real.pi, 3 * Real.pi, 0, 1⟩ = .ok (t, sol) ∧ sol.branch = .upper ∧ (0 : ℝ) + 1 < t.rFp := by
  have hpi := Real.pi_pos
  have hp : (0 : ℝ) < 3 * Real.pi := by positivity
  obtain ⟨_, t, sol, h1, h2, _, _, h5⟩ := rfp_unmatchable codeFlags (fun _ _ _ => .error .other) hOne 1 1
    ⟨Real.pi, 3 * Real.pi, 0, 1⟩ hpi hp (by norm_num) (by rw [eqRf_hOne 1 _ hpi]; norm_num)
  exact ⟨t, sol, h1, h2, h5⟩

/-- Non-vacuity of `rfp_lower_clamp_keeps_upper`: same tube, `R_conv = 300`: target 301 is above
    `R_fp(k_lo) = 201`; `solve_root` returns `k_lo`, the pipe keeps `k_hi` with `R_fp' = 1.2`.  (The flag is spelled out so that
    the file still builds when the source starts using the solver's result.) -/
example : ∃ t sol, equivalentSingleUTube realOps { codeFlags with pipeResultUsed := false } (fun _ _ _ => .error .other) hOne 1 1
      ⟨Real.pi, 3 * Real.pi, 300, 1⟩ = .ok (t, sol) ∧ sol.branch = .lower ∧
      t.kPipe = kpHi 1 ⟨Real.pi, 3 * Real.pi, 300, 1⟩ ∧ t.rFp = 1 + 1 / 5 := by
  have hpi := Real.pi_pos
  have hp : (0 : ℝ) < 3 * Real.pi := by positivity
  obtain ⟨e1, e2⟩ := pipe_bracket_ends hOne 1 ⟨Real.pi, 3 * Real.pi, 300, 1⟩ hpi hp (by norm_num)
  rw [eqRf_hOne 1 _ hpi] at e1 e2
  obtain ⟨t, sol, h1, h2, _, h4, h5, _⟩ := rfp_lower_clamp_keeps_upper { codeFlags with pipeResultUsed := false } rfl (fun _ _ _ => .error .other) hOne 1 1
    ⟨Real.pi, 3 * Real.pi, 300, 1⟩ hpi hp (by norm_num) (by rw [e1]; norm_num)
  exact ⟨t, sol, h1, h2, h4, by rw [h5, e2]⟩

end GHEVerif.C15
