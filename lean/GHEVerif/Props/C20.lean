/-
  C20 — Per-borehole and system flow specifications are equivalent.
  Property theorems only; helper lemmas live in GHEVerif/Lemmas/Flow.lean.

  All theorems are about definitions regenerated from the source on every check:
  `Gen.retrieveFlow1D`, `Gen.retrieveFlowRW` (the two copies of `retrieve_flow` in
  search_routines.py), `Gen.baseGheFlow` (the flow slice of `BaseGHE.__init__` in
  ground_heat_exchangers.py), `Gen.flowWiring` / `Gen.flowDefiners` (which expressions
  `initialize_ghe` hands to the g-function calculation and to `GHE(...)`), composed by
  `Flow.initializeGhe` exactly in the order `initialize_ghe` composes them.  A source change to any
  of them changes the generated text and these proofs are re-checked against it.

  Quantifiers: every flow rate `v : ℚ` (every IEEE double is one), every density `rho`, every
  field (list of coordinates of any length ≥ 1, not "1..400"), both copies.  Float rounding of
  `(v·N)/N` is outside the model (measured by the harness at 1e-15 relative).
-/
import GHEVerif.Lemmas.Flow

namespace GHEVerif.C20
open GHEVerif GHEVerif.Flow

/-! ### the two copies -/

/-- Bisection1D's and RowWise's `retrieve_flow` are the same function (two generated
    definitions, equal by unfolding): a change to one copy only breaks this proof. -/
theorem copies_agree : Gen.retrieveFlow1D = Gen.retrieveFlowRW := rfl

/-- Hence the whole `initialize_ghe` flow path is the same for every search class. -/
theorem copies_agree_initialize (ft : FlowType) (v : Rat) (cs : List (Rat × Rat)) (rho : Rat) :
    initializeGhe .bisection1D ft v cs rho = initializeGhe .rowWise ft v cs rho := by
  unfold initializeGhe retrieveFlow
  rw [copies_agree]

/-- The call wiring read off the source: in `Bisection1D.__init__`, `Bisection1D.initialize_ghe`
    and `RowWiseModifiedBisectionSearch.initialize_ghe` the pair returned by `retrieve_flow` is
    unpacked as `(v_flow_system, m_flow_borehole)`, `m_flow_borehole` and `coordinates` go to the
    g-function calculation, `v_flow_system` goes to `GHE(...)` together with the g-function just
    computed and the same `fluid` whose `rho` was passed to `retrieve_flow`; and no other class
    of search_routines.py defines its own `retrieve_flow` / `initialize_ghe`. -/
theorem flow_wiring :
    Gen.flowWiring =
      [("Bisection1D.__init__",
          ["unpacked=v_flow_system,m_flow_borehole", "retrieve_flow_args=coordinates,fluid.rho",
           "gfunc_m_flow=m_flow_borehole", "gfunc_coordinates=coordinates", "gfunc_fluid=fluid",
           "ghe_v_flow_system=v_flow_system", "ghe_fluid=fluid", "ghe_g_function=g_function",
           "fluid_local=<parameter>"]),
       ("Bisection1D.initialize_ghe",
          ["unpacked=v_flow_system,m_flow_borehole", "retrieve_flow_args=coordinates,self.ghe.bhe.fluid.rho",
           "gfunc_m_flow=m_flow_borehole", "gfunc_coordinates=coordinates", "gfunc_fluid=fluid",
           "ghe_v_flow_system=v_flow_system", "ghe_fluid=fluid", "ghe_g_function=g_function",
           "fluid_local=self.ghe.bhe.fluid"]),
       ("RowWiseModifiedBisectionSearch.initialize_ghe",
          ["unpacked=v_flow_system,m_flow_borehole", "retrieve_flow_args=coordinates,self.fluid.rho",
           "gfunc_m_flow=m_flow_borehole", "gfunc_coordinates=coordinates", "gfunc_fluid=fluid",
           "ghe_v_flow_system=v_flow_system", "ghe_fluid=fluid", "ghe_g_function=g_function",
           "fluid_local=self.fluid"])] ∧
    Gen.flowDefiners =
      ["Bisection1D.retrieve_flow", "Bisection1D.initialize_ghe",
       "RowWiseModifiedBisectionSearch.retrieve_flow", "RowWiseModifiedBisectionSearch.initialize_ghe"] := by
  decide

/-! ### error branches -/

/-- A flow type that is neither member of `FlowConfigType` raises `ValueError`, in
    `retrieve_flow` and therefore in `initialize_ghe`, whatever the other arguments. -/
theorem bad_flow_type_raises (c : Copy) (v : Rat) (cs : List (Rat × Rat)) (rho : Rat) :
    retrieveFlow c .other v cs rho = .error .valueError ∧
    initializeGhe c .other v cs rho = .error .valueError :=
  ⟨retrieveFlow_other c v cs rho, initializeGhe_other c v cs rho⟩

/-- Exactly which calls of `retrieve_flow` raise, and what: a bad flow type (`ValueError`) and a
    system flow on an empty field (`ZeroDivisionError`); every other call returns. -/
theorem retrieve_flow_raises_iff (c : Copy) (ft : FlowType) (v : Rat) (cs : List (Rat × Rat)) (rho : Rat)
    (e : PyErr) :
    retrieveFlow c ft v cs rho = .error e ↔
      (ft = .other ∧ e = .valueError) ∨ (ft = .system ∧ cs = [] ∧ e = .zeroDiv) := by
  cases ft with
  | other => rw [retrieveFlow_other]; constructor
             · intro h; injection h with h; exact Or.inl ⟨rfl, h.symm⟩
             · rintro (⟨_, rfl⟩ | ⟨h, _⟩)
               · rfl
               · cases h
  | borehole => rw [retrieveFlow_borehole]; constructor
                · intro h; cases h
                · rintro (⟨h, _⟩ | ⟨h, _⟩) <;> cases h
  | system =>
    by_cases hcs : cs = []
    · subst hcs; rw [retrieveFlow_system_nil]; constructor
      · intro h; injection h with h; exact Or.inr ⟨rfl, rfl, h.symm⟩
      · rintro (⟨h, _⟩ | ⟨_, _, rfl⟩)
        · cases h
        · rfl
    · rw [retrieveFlow_system c v cs rho hcs]; constructor
      · intro h; cases h
      · rintro (⟨h, _⟩ | ⟨_, h, _⟩)
        · cases h
        · exact absurd h hcs

/-- An empty candidate field never yields a GHE: `ZeroDivisionError` under a system flow (from
    `retrieve_flow`), `IndexError` under a per-borehole flow (from `borehole_spacing`). -/
theorem empty_field_raises (c : Copy) (v rho : Rat) :
    initializeGhe c .system v [] rho = .error .zeroDiv ∧
    initializeGhe c .borehole v [] rho = .error .indexError :=
  ⟨initializeGhe_system_nil c v rho, initializeGhe_borehole_nil c v rho⟩

/-! ### the mass flow formula -/

/-- `retrieve_flow`: on a non-empty field, under either specification, the system flow is what
    the specification means and `ṁ = v_borehole / 1000 · ρ`. -/
theorem mass_flow_formula_retrieve (c : Copy) (ft : FlowType) (v : Rat) (cs : List (Rat × Rat)) (rho : Rat)
    (hft : ft ≠ .other) (hcs : cs ≠ []) :
    retrieveFlow c ft v cs rho =
      .ok (systemSpec ft v cs.length, perBoreholeSpec ft v cs.length / 1000 * rho) :=
  retrieveFlow_spec c ft v cs rho hft hcs

/-- The `BaseGHE.__init__` slice agrees with the hand model: per-borehole volumetric flow
    `V_sys / nbh`, and `GHE.m_flow_borehole` and the flow given to the borehole heat exchanger
    are both `V_sys / nbh / 1000 · ρ`; `ZeroDivisionError` on an empty field. -/
theorem mass_flow_formula_base_ghe (vs : Rat) (cs : List (Rat × Rat)) (rho : Rat) :
    Gen.baseGheFlow vs cs rho = (baseGhe vs cs.length rho).map (fun p => (p.1, p.2, p.2)) ∧
    (cs ≠ [] → Gen.baseGheFlow vs cs rho =
      .ok (vs / (cs.length : Rat), vs / (cs.length : Rat) / 1000 * rho, vs / (cs.length : Rat) / 1000 * rho)) := by
  constructor
  · by_cases hcs : cs = []
    · subst hcs; rw [baseGheFlow_nil]; rfl
    · have hlen : cs.length ≠ 0 := by simpa using hcs
      rw [baseGheFlow_pos vs cs rho hcs]
      simp [baseGhe, hlen, Except.map]
  · intro hcs; exact baseGheFlow_pos vs cs rho hcs

/-- `mass_flow_formula`: after `initialize_ghe` on a field of `N ≥ 1` boreholes, under either
    specification, every per-borehole mass flow the code keeps — the one given to the g-function
    calculation, `GHE.m_flow_borehole`, `GHE.bhe.m_flow_borehole` (used by `R_b*`, `simulate` and
    the summary) — is (per-borehole L/s) / 1000 · ρ, the per-borehole volumetric flow is the one
    specified, and `V_flow_system = N · V_flow_borehole`. -/
theorem mass_flow_formula (c : Copy) (ft : FlowType) (v : Rat) (cs : List (Rat × Rat)) (rho : Rat)
    (hft : ft ≠ .other) (hcs : cs ≠ []) :
    ∃ g : GheFlow, initializeGhe c ft v cs rho = .ok g ∧
      g.vFlowBorehole = perBoreholeSpec ft v cs.length ∧
      g.mFlowBhe = g.vFlowBorehole / 1000 * rho ∧
      g.mFlowGhe = g.vFlowBorehole / 1000 * rho ∧
      g.mFlowG = g.vFlowBorehole / 1000 * rho ∧
      g.vFlowSystem = (cs.length : Rat) * g.vFlowBorehole ∧
      g.vFlowSystem = systemSpec ft v cs.length ∧
      g.nbh = cs.length := by
  refine ⟨_, initializeGhe_closed c ft v cs rho hft hcs, rfl, rfl, rfl, rfl, ?_, rfl, rfl⟩
  have hlen : cs.length ≠ 0 := by simpa using hcs
  show systemSpec ft v cs.length = (cs.length : Rat) * perBoreholeSpec ft v cs.length
  rw [← systemSpec_div ft v cs.length hlen hft]
  have := length_cast_ne_zero hcs
  field_simp

/-- "The two agree with each other": whatever the specification, whenever `initialize_ghe`
    returns, the mass flow used for the g-function and the one recomputed by `BaseGHE.__init__`
    for the borehole resistance and the simulation are the same number. -/
theorem gfunction_and_bhe_flows_agree (c : Copy) (ft : FlowType) (v : Rat) (cs : List (Rat × Rat)) (rho : Rat)
    (g : GheFlow) (h : initializeGhe c ft v cs rho = .ok g) :
    g.mFlowG = g.mFlowBhe ∧ g.mFlowGhe = g.mFlowBhe := by
  have hft : ft ≠ .other := by
    rintro rfl; rw [initializeGhe_other] at h; cases h
  have hcs : cs ≠ [] := by
    rintro rfl
    cases ft with
    | other => exact hft rfl
    | system => rw [initializeGhe_system_nil] at h; cases h
    | borehole => rw [initializeGhe_borehole_nil] at h; cases h
  rw [initializeGhe_closed c ft v cs rho hft hcs] at h
  injection h with h
  subst h
  exact ⟨rfl, rfl⟩

/-! ### equivalence of the two specifications -/

/-- `borehole_system_equiv`, `retrieve_flow` level: a per-borehole flow `v` and a system flow
    `N·v` on the same field of `N ≥ 1` boreholes give the same pair, across copies too. -/
theorem borehole_system_equiv_retrieve (c c' : Copy) (v : Rat) (cs : List (Rat × Rat)) (rho : Rat) (hcs : cs ≠ []) :
    retrieveFlow c .borehole v cs rho = retrieveFlow c' .system ((cs.length : Rat) * v) cs rho := by
  rw [retrieveFlow_borehole, retrieveFlow_system c' _ cs rho hcs]
  have := length_cast_ne_zero hcs
  congr 2
  · ring
  · congr 1; field_simp

/-- `borehole_system_equiv`: the complete flow state after `initialize_ghe` — system flow,
    g-function mass flow, per-borehole volumetric flow, `GHE.m_flow_borehole`,
    `bhe.m_flow_borehole`, `nbh` — is identical under `BOREHOLE v` and `SYSTEM N·v`, for every
    `N ≥ 1`, every `v`, `ρ`, and either search-class copy on either side. -/
theorem borehole_system_equiv (c c' : Copy) (v : Rat) (cs : List (Rat × Rat)) (rho : Rat) (hcs : cs ≠ []) :
    initializeGhe c .borehole v cs rho = initializeGhe c' .system ((cs.length : Rat) * v) cs rho := by
  rw [initializeGhe_closed c .borehole v cs rho (by decide) hcs,
      initializeGhe_closed c' .system _ cs rho (by decide) hcs]
  have hn := length_cast_ne_zero hcs
  have e1 : systemSpec .borehole v cs.length = systemSpec .system ((cs.length : Rat) * v) cs.length := by
    simp [systemSpec]; ring
  have e2 : perBoreholeSpec .borehole v cs.length = perBoreholeSpec .system ((cs.length : Rat) * v) cs.length := by
    simp [perBoreholeSpec]; field_simp
  rw [e1, e2]

/-- General form: the flow state depends on the specification only through the per-borehole
    volumetric flow it means on that field — any two specifications (of either type, through either
    copy) that mean the same per-borehole flow leave the identical state. -/
theorem same_per_borehole_flow_same_state (c c' : Copy) (ft ft' : FlowType) (v v' : Rat)
    (cs : List (Rat × Rat)) (rho : Rat) (hft : ft ≠ .other) (hft' : ft' ≠ .other) (hcs : cs ≠ [])
    (h : perBoreholeSpec ft v cs.length = perBoreholeSpec ft' v' cs.length) :
    initializeGhe c ft v cs rho = initializeGhe c' ft' v' cs rho := by
  have hlen : cs.length ≠ 0 := by simpa using hcs
  rw [initializeGhe_closed c ft v cs rho hft hcs, initializeGhe_closed c' ft' v' cs rho hft' hcs,
      systemSpec_eq_mul ft v _ hlen hft, systemSpec_eq_mul ft' v' _ hlen hft', h]

/-- Converse direction: a system flow `V` on `N ≥ 1` boreholes is the per-borehole flow `V/N`. -/
theorem system_borehole_equiv (c c' : Copy) (V : Rat) (cs : List (Rat × Rat)) (rho : Rat) (hcs : cs ≠ []) :
    initializeGhe c .system V cs rho = initializeGhe c' .borehole (V / (cs.length : Rat)) cs rho := by
  have hn := length_cast_ne_zero hcs
  have := borehole_system_equiv c' c (V / (cs.length : Rat)) cs rho hcs
  rw [this]
  congr 1
  field_simp

/-- The recomputation in `BaseGHE.__init__` does not disturb either specification: dividing the
    system flow that `retrieve_flow` returns by `N` gives back the per-borehole mass flow that
    `retrieve_flow` itself computed. -/
theorem base_ghe_recomputation_agrees (c : Copy) (ft : FlowType) (v : Rat) (cs : List (Rat × Rat)) (rho : Rat)
    (hft : ft ≠ .other) (hcs : cs ≠ []) :
    ∃ vs m, retrieveFlow c ft v cs rho = .ok (vs, m) ∧
      Gen.baseGheFlow vs cs rho = .ok (perBoreholeSpec ft v cs.length, m, m) := by
  have hlen : cs.length ≠ 0 := by simpa using hcs
  refine ⟨_, _, retrieveFlow_spec c ft v cs rho hft hcs, ?_⟩
  rw [baseGheFlow_pos _ cs rho hcs, systemSpec_div ft v cs.length hlen hft]

/-! ### a system flow along a candidate list -/

/-- `system_flow_inverse_N`: with a system flow `V` the per-borehole mass flow times the number of
    boreholes is the constant `V/1000·ρ` (so `ṁ ∝ 1/N`) … -/
theorem system_flow_inverse_N (c : Copy) (V : Rat) (cs : List (Rat × Rat)) (rho : Rat) (hcs : cs ≠ []) :
    ∃ g : GheFlow, initializeGhe c .system V cs rho = .ok g ∧
      g.mFlowBhe * (cs.length : Rat) = V / 1000 * rho ∧ g.mFlowBhe = V / 1000 * rho / (cs.length : Rat) ∧
      g.vFlowSystem = V := by
  have hn := length_cast_ne_zero hcs
  refine ⟨_, initializeGhe_closed c .system V cs rho (by decide) hcs, ?_, ?_, rfl⟩
  · show massFlow (V / (cs.length : Rat)) rho * (cs.length : Rat) = V / 1000 * rho
    unfold massFlow; field_simp
  · show massFlow (V / (cs.length : Rat)) rho = V / 1000 * rho / (cs.length : Rat)
    unfold massFlow; field_simp

/-- … and it is strictly decreasing in the number of boreholes (positive flow and density). -/
theorem system_flow_strictly_decreasing (c : Copy) (V rho : Rat) (hV : 0 < V) (hrho : 0 < rho)
    (cs1 cs2 : List (Rat × Rat)) (h1 : cs1 ≠ []) (h12 : cs1.length < cs2.length) :
    ∃ g1 g2 : GheFlow, initializeGhe c .system V cs1 rho = .ok g1 ∧ initializeGhe c .system V cs2 rho = .ok g2 ∧
      g2.mFlowBhe < g1.mFlowBhe ∧ g2.mFlowG < g1.mFlowG ∧ g2.vFlowBorehole < g1.vFlowBorehole := by
  have h2 : cs2 ≠ [] := by
    rintro rfl; simp at h12
  have hpos : 0 < cs1.length := List.length_pos_iff.mpr h1
  have hd := div_lt_div_of_length_lt V hV cs1.length cs2.length hpos h12
  have hm := massFlow_strictMono rho hrho _ _ hd
  exact ⟨_, _, initializeGhe_closed c .system V cs1 rho (by decide) h1,
    initializeGhe_closed c .system V cs2 rho (by decide) h2, hm, hm, hd⟩

/-- Along a whole candidate list (any length) whose field sizes strictly increase, as the lists
    built by `domains.py` do: every candidate initialises, and each later candidate has a strictly
    smaller per-borehole mass flow than each earlier one. -/
theorem system_flow_along_candidate_list (c : Copy) (V rho : Rat) (hV : 0 < V) (hrho : 0 < rho)
    (domain : List (List (Rat × Rat))) (hne : ∀ f ∈ domain, f ≠ [])
    (hinc : (domain.map List.length).Pairwise (· < ·)) :
    domain.Pairwise (fun f1 f2 => ∃ g1 g2 : GheFlow,
      initializeGhe c .system V f1 rho = .ok g1 ∧ initializeGhe c .system V f2 rho = .ok g2 ∧
      g2.mFlowBhe < g1.mFlowBhe ∧ g1.mFlowBhe * (f1.length : Rat) = g2.mFlowBhe * (f2.length : Rat)) := by
  rw [List.pairwise_map] at hinc
  refine List.Pairwise.imp_of_mem ?_ hinc
  intro f1 f2 m1 m2 hlt
  obtain ⟨g1, g2, e1, e2, hm, _, _⟩ := system_flow_strictly_decreasing c V rho hV hrho f1 f2 (hne f1 m1) hlt
  obtain ⟨g1', e1', p1, _, _⟩ := system_flow_inverse_N c V f1 rho (hne f1 m1)
  obtain ⟨g2', e2', p2, _, _⟩ := system_flow_inverse_N c V f2 rho (hne f2 m2)
  rw [e1] at e1'; rw [e2] at e2'
  injection e1' with e1'; injection e2' with e2'
  subst e1' e2'
  exact ⟨g1, g2, e1, e2, hm, by rw [p1, p2]⟩

/-- Weak version for lists in which consecutive candidates may have the same size
    (non-negative flow and density): per-borehole flow never increases along the list. -/
theorem system_flow_nonincreasing (c : Copy) (V rho : Rat) (hV : 0 ≤ V) (hrho : 0 ≤ rho)
    (cs1 cs2 : List (Rat × Rat)) (h1 : cs1 ≠ []) (h12 : cs1.length ≤ cs2.length) :
    ∃ g1 g2 : GheFlow, initializeGhe c .system V cs1 rho = .ok g1 ∧ initializeGhe c .system V cs2 rho = .ok g2 ∧
      g2.mFlowBhe ≤ g1.mFlowBhe := by
  have hpos : 0 < cs1.length := List.length_pos_iff.mpr h1
  have h2 : cs2 ≠ [] := List.length_pos_iff.mp (by omega)
  have hd := div_le_div_of_length_le V hV cs1.length cs2.length hpos h12
  exact ⟨_, _, initializeGhe_closed c .system V cs1 rho (by decide) h1,
    initializeGhe_closed c .system V cs2 rho (by decide) h2, massFlow_mono rho hrho _ _ hd⟩

/-- With a per-borehole flow, by contrast, the per-borehole mass flow is the same for every
    candidate and the system flow grows as `N`. -/
theorem borehole_flow_constant_along_list (c : Copy) (v rho : Rat) (cs1 cs2 : List (Rat × Rat))
    (h1 : cs1 ≠ []) (h2 : cs2 ≠ []) :
    ∃ g1 g2 : GheFlow, initializeGhe c .borehole v cs1 rho = .ok g1 ∧ initializeGhe c .borehole v cs2 rho = .ok g2 ∧
      g1.mFlowBhe = g2.mFlowBhe ∧ g1.mFlowG = g2.mFlowG ∧
      g1.vFlowSystem = v * (cs1.length : Rat) ∧ g2.vFlowSystem = v * (cs2.length : Rat) :=
  ⟨_, _, initializeGhe_closed c .borehole v cs1 rho (by decide) h1,
    initializeGhe_closed c .borehole v cs2 rho (by decide) h2, rfl, rfl, rfl, rfl⟩

/-! ### call histories on one manager (`GHEManager.set_design`, design.py) -/

/-- `set_design` read off manager.py: refuse an unknown flow-type string, look at the geometric
    constraints, then ALWAYS build a new `Design<Method>(flow_rate, …, self._geometric_constraints, …,
    flow_type=flow_type)` and return 0 — no path keeps or patches an existing design — and nothing else in
    manager.py assigns `_design` or one of its attributes.  `Flow.setDesign` is the model of this skeleton. -/
theorem set_design_skeleton :
    Gen.setDesignSkeleton =
      [
      "flow_type_str = flow_type_str.upper()",
      "if flow_type_str == FlowConfigType.SYSTEM.name",
      ".flow_type = FlowConfigType.SYSTEM",
      "else",
      ".if flow_type_str == FlowConfigType.BOREHOLE.name",
      "..flow_type = FlowConfigType.BOREHOLE",
      ".else",
      "..message = <text>",
      "..if throw",
      "...raise ValueError",
      "..return 1",
      "if self._geometric_constraints.type is None",
      ".message = <text>",
      ".if throw",
      "..raise ValueError",
      ".return 1",
      "if self._geometric_constraints.type == DesignGeomType.NEARSQUARE",
      ".self._design = DesignNearSquare(v_flow=flow_rate, geometric_constraints=self._geometric_constraints, flow_type=flow_type)",
      "else",
      ".if self._geometric_constraints.type == DesignGeomType.RECTANGLE",
      "..self._design = DesignRectangle(v_flow=flow_rate, geometric_constraints=self._geometric_constraints, flow_type=flow_type)",
      ".else",
      "..if self._geometric_constraints.type == DesignGeomType.BIRECTANGLE",
      "...self._design = DesignBiRectangle(v_flow=flow_rate, geometric_constraints=self._geometric_constraints, flow_type=flow_type)",
      "..else",
      "...if self._geometric_constraints.type == DesignGeomType.BIZONEDRECTANGLE",
      "....self._design = DesignBiZoned(v_flow=flow_rate, geometric_constraints=self._geometric_constraints, flow_type=flow_type)",
      "...else",
      "....if self._geometric_constraints.type == DesignGeomType.BIRECTANGLECONSTRAINED",
      ".....self._design = DesignBiRectangleConstrained(v_flow=flow_rate, geometric_constraints=self._geometric_constraints, flow_type=flow_type)",
      "....else",
      ".....if self._geometric_constraints.type == DesignGeomType.ROWWISE",
      "......self._design = DesignRowWise(v_flow=flow_rate, geometric_constraints=self._geometric_constraints, flow_type=flow_type)",
      ".....else",
      "......message = <text>",
      "......if throw",
      ".......raise ValueError",
      "......return 1",
      "return 0"
      ] ∧
    Gen.designWriters = ["GHEManager.__init__: self._design", "GHEManager.set_design: self._design"] :=
  ⟨rfl, rfl⟩

/-- design.py carries the pair unchanged: `DesignBase.__init__` stores `V_flow = v_flow`,
    `flow_type = flow_type`; every `Design*.__init__` hands both to it and does not overwrite them; every
    `find_design` constructs its search class from `self.V_flow` and `flow_type=self.flow_type`. -/
theorem design_flow_wiring :
    Gen.designFlowWiring =
      [
      ("DesignBase.__init__", ["param[1]=v_flow", "param[12]=flow_type", "self.V_flow=v_flow", "self.flow_type=flow_type", "self.geometric_constraints=geometric_constraints"]),
      ("DesignNearSquare", ["bases=DesignBase", "super.v_flow=v_flow", "super.flow_type=flow_type", "search=Bisection1D", "search.v_flow=self.V_flow", "search.flow_type=self.flow_type"]),
      ("DesignRectangle", ["bases=DesignBase", "super.v_flow=v_flow", "super.flow_type=flow_type", "search=Bisection1D", "search.v_flow=self.V_flow", "search.flow_type=self.flow_type"]),
      ("DesignBiRectangle", ["bases=DesignBase", "super.v_flow=v_flow", "super.flow_type=flow_type", "search=Bisection2D", "search.v_flow=self.V_flow", "search.flow_type=self.flow_type"]),
      ("DesignBiZoned", ["bases=DesignBase", "super.v_flow=v_flow", "super.flow_type=flow_type", "search=BisectionZD", "search.v_flow=self.V_flow", "search.flow_type=self.flow_type"]),
      ("DesignBiRectangleConstrained", ["bases=DesignBase", "super.v_flow=v_flow", "super.flow_type=flow_type", "search=BisectionZD", "search.v_flow=self.V_flow", "search.flow_type=self.flow_type"]),
      ("DesignRowWise", ["bases=DesignBase", "super.v_flow=v_flow", "super.flow_type=flow_type", "search=RowWiseModifiedBisectionSearch", "search.v_flow=self.V_flow", "search.flow_type=self.flow_type"])
      ] := by
  decide

/-- `set_design_last_wins`: after ANY history of `set_design` calls on a manager whose geometric
    constraints are set (valid and refused calls in any order, throwing or not), the design carries the
    flow rate and flow type of the last call that named a flow type; refused calls change nothing. -/
theorem set_design_last_wins (m : Manager) (k : Nat) (hk : k < nMethods) (hg : m.geom = some k)
    (calls : List Call) :
    (afterCalls m calls).design =
      match (calls.filter validCall).getLast? with
      | some c => some (c.1, c.2.1, k)
      | none => m.design :=
  afterCalls_design m k hk hg calls

/-- Hence the flow state of every candidate field is independent of the history: two managers (same
    design method) whose histories end — refused calls aside — with the same `(flow, type)` give every
    field the flow state of that specification alone, i.e. of a fresh manager that got only that call. -/
theorem set_design_history_independent (m m' : Manager) (k : Nat) (hk : k < nMethods)
    (hg : m.geom = some k) (hg' : m'.geom = some k) (calls calls' : List Call) (c : Call)
    (h : (calls.filter validCall).getLast? = some c) (h' : (calls'.filter validCall).getLast? = some c)
    (cp : Copy) (cs : List (Rat × Rat)) (rho : Rat) :
    (afterCalls m calls).design = (afterCalls m' calls').design ∧
    designFlow (afterCalls m calls) cp cs rho = designFlow (afterCalls m' calls') cp cs rho ∧
    designFlow (afterCalls m calls) cp cs rho = initializeGhe cp c.2.1 c.1 cs rho ∧
    designFlow (afterCalls m calls) cp cs rho = designFlow (afterCalls { geom := some k, design := none } [c]) cp cs rho := by
  have e := set_design_last_wins m k hk hg calls
  have e' := set_design_last_wins m' k hk hg' calls'
  rw [h] at e; rw [h'] at e'
  have hv : validCall c = true := by
    have := List.mem_of_getLast? h
    exact (List.mem_filter.mp this).2
  have e0 := set_design_last_wins { geom := some k, design := none } k hk rfl [c]
  rw [show ([c].filter validCall).getLast? = some c from lastValid_snoc [] c hv] at e0
  simp only at e e' e0
  refine ⟨by rw [e, e'], ?_, ?_, ?_⟩ <;> simp only [designFlow, e, e', e0]

/-- The equivalence on a re-used manager: `set_design(v, "borehole")`, then — after anything refused —
    `set_design(N·v, "system")` on the SAME manager: the N-borehole field gets the identical flow state
    (hence the same R_b* and temperatures) under the second design as under the first. -/
theorem reused_manager_equiv (m : Manager) (k : Nat) (hk : k < nMethods) (hg : m.geom = some k)
    (pre : List Call) (v : Rat) (t t' : Bool) (cp cp' : Copy) (cs : List (Rat × Rat)) (rho : Rat) (hcs : cs ≠ []) :
    designFlow (afterCalls m (pre ++ [(v, .borehole, t)])) cp cs rho =
      designFlow (afterCalls m ((pre ++ [(v, .borehole, t)]) ++ [((cs.length : Rat) * v, .system, t')])) cp' cs rho := by
  have e1 := set_design_last_wins m k hk hg (pre ++ [(v, .borehole, t)])
  have e2 := set_design_last_wins m k hk hg ((pre ++ [(v, .borehole, t)]) ++ [((cs.length : Rat) * v, .system, t')])
  rw [lastValid_snoc _ _ (by simp [validCall])] at e1 e2
  simp only at e1 e2
  simp only [designFlow, e1, e2]
  exact borehole_system_equiv cp cp' v cs rho hcs

/-- What a single call does when it does not store: an unknown flow type is refused (`ValueError` or
    return code 1) and a call before any geometry is set raises (attribute access on `None`); the manager
    is unchanged in both cases. -/
theorem set_design_refusals (m : Manager) (v : Rat) (ft : FlowType) (throw : Bool) :
    setDesign m v .other throw = (m, if throw then .raised .valueError else .ret 1) ∧
    (ft ≠ .other → m.geom = none → setDesign m v ft throw = (m, .raised .other)) := by
  refine ⟨by simp [setDesign], ?_⟩
  intro hft hg
  simp [setDesign, hft, hg]

/-! ### non-vacuity: concrete runs of the generated code -/

/-- 0.1 L/s per borehole on 3 boreholes, ρ = 998: 0.3 L/s system, ṁ = 0.0998 kg/s. -/
example : initializeGhe .bisection1D .borehole (1 / 10) (field 3) 998 =
    .ok { vFlowSystem := 3 / 10, mFlowG := 499 / 5000, vFlowBorehole := 1 / 10,
          mFlowGhe := 499 / 5000, mFlowBhe := 499 / 5000, nbh := 3 } := by decide +kernel

/-- … and 0.3 L/s for the system on the same 3 boreholes, through the RowWise copy: same state. -/
example : initializeGhe .rowWise .system (3 / 10) (field 3) 998 =
    .ok { vFlowSystem := 3 / 10, mFlowG := 499 / 5000, vFlowBorehole := 1 / 10,
          mFlowGhe := 499 / 5000, mFlowBhe := 499 / 5000, nbh := 3 } := by decide +kernel

/-- `borehole_system_equiv` instantiated (hypothesis `cs ≠ []` is satisfiable). -/
example : initializeGhe .bisection1D .borehole (1 / 10) (field 3) 998 =
    initializeGhe .rowWise .system (((field 3).length : Rat) * (1 / 10)) (field 3) 998 :=
  borehole_system_equiv .bisection1D .rowWise (1 / 10) (field 3) 998 (by decide)

/-- `same_per_borehole_flow_same_state` instantiated: 2 L/s on 4 boreholes is 0.5 L/s each. -/
example : initializeGhe .rowWise .system 2 (field 4) 1000 = initializeGhe .bisection1D .borehole (1 / 2) (field 4) 1000 :=
  same_per_borehole_flow_same_state .rowWise .bisection1D .system .borehole 2 (1 / 2) (field 4) 1000
    (by decide) (by decide) (by decide) (by decide +kernel)

/-- 31.2 L/s (the one system flow in the test-suite) on 1, 4, 156 boreholes: 1/N. -/
example : (retrieveFlow .bisection1D .system (156 / 5) (field 1) 1000,
           retrieveFlow .bisection1D .system (156 / 5) (field 4) 1000,
           retrieveFlow .bisection1D .system (156 / 5) (field 156) 1000) =
    (.ok (156 / 5, 156 / 5), .ok (156 / 5, 39 / 5), .ok (156 / 5, 1 / 5)) := by decide +kernel

/-- The candidate-list theorem has a model: sizes 1 < 2 < 4. -/
example : ([field 1, field 2, field 4].map List.length).Pairwise (· < ·) ∧
    ∀ f ∈ [field 1, field 2, field 4], f ≠ [] := by decide

/-- A history on one manager: refused call, 0.3 borehole, 4.2 system, refused again → (4.2, system). -/
example : (afterCalls { geom := some 3, design := none }
    [(1, .other, false), (3 / 10, .borehole, true), (21 / 5, .system, true), (7, .other, false)]).design =
    some (21 / 5, .system, 3) := by decide +kernel

/-- … and the 6-borehole field then gets 4.2/6 L/s per borehole, not 4.2. -/
example : designFlow (afterCalls { geom := some 3, design := none } [(3 / 10, .borehole, true), (21 / 5, .system, true)])
    .bisection1D (field 6) 1000 =
    .ok { vFlowSystem := 21 / 5, mFlowG := 7 / 10, vFlowBorehole := 7 / 10, mFlowGhe := 7 / 10, mFlowBhe := 7 / 10, nbh := 6 } := by
  decide +kernel

/-- Error branches are reachable. -/
example : retrieveFlow .rowWise .other 1 (field 2) 1000 = .error .valueError ∧
    retrieveFlow .bisection1D .system 1 [] 1000 = .error .zeroDiv ∧
    initializeGhe .bisection1D .borehole 1 [] 1000 = .error .indexError ∧
    Gen.baseGheFlow 1 [] 1000 = .error .zeroDiv := by decide +kernel

/-- The equivalence needs `N ≥ 1`: on the empty field the two specifications fail differently. -/
example : initializeGhe .bisection1D .borehole 1 [] 1000 ≠ initializeGhe .bisection1D .system 0 [] 1000 := by
  decide +kernel

end GHEVerif.C20
