/-
  C07 — Hybrid loads retain each month's peaks with positive, bounded durations.

  Model/Hybrid.lean: `ipfFlag` (retention flags), `emitMonth` / `monthSegments` (what a month
  appends), `peakDuration` (`perform_current_month_simulation`: two 48-step temporal superpositions
  and scipy's inverse interpolation), `twoDayWindow` (`process_two_day_loads`).
  The short-time g-function enters as an arbitrary `G : Nat → Rat` (its value at a lag of k hours);
  `duration_bounds` quantifies over every non-decreasing `G` with non-negative one-hour step response.

  Placement is stated with the record's noon `first_month_hour + 24·day + 12` (the tool's own 1-based
  hour labels).  It needs that `first_hour_*_peak` is not clamped (`dur ≤ 2·noon`): on 1 January a
  duration above 26 h cannot be centred on noon without starting before hour 0; the code then places
  the pulse at `[1e-6, 1e-6 + dur]` (witness `clamped_pulse_not_centred`, known finding).
-/
import GHEVerif.Lemmas.HybridPulse
import GHEVerif.Lemmas.HybridDur
import Mathlib.Tactic.NormNum

namespace GHEVerif.C07
open GHEVerif GHEVerif.Hybrid

/-- Peaks are retained exactly in the first twelve and the last twelve months of the horizon. -/
theorem retention_months (start end_ i : Int) :
    ipfFlag start end_ i = true ↔ (i < start + 12 ∨ i > end_ - 12) := by
  unfold ipfFlag
  rw [Bool.or_eq_true, decide_eq_true_eq, decide_eq_true_eq]
  simp [Gen.peakRetainStart, Gen.peakRetainEnd]

/-- A month outside the retention window emits exactly one entry: its average up to the month end. -/
theorem unretained_month_is_average_only (y : Int) (r : MonthRec) (i : Int) (hi : 1 ≤ i) :
    emitMonth y r false i = .ok [(rateOf y r false i, ((lmh y i : Int) : Rat))] ∧
    rateOf y r false i * (24 * (mdays y i : Rat)) = r.cl - r.hl := by
  have hrun : MonthRuns y r false i := by intro h; cases h
  refine ⟨?_, ?_⟩
  · rw [emitMonth_runs y r false i hi hrun]; simp [monthSegments]
  · have hm := mdays_ge y i
    have hmR : (28 : Rat) ≤ (mdays y i : Rat) := by exact_mod_cast hm
    have := monthRate_runs y r false i hrun
    simp only [monthRate, pyDiv, Bool.false_eq_true, if_false] at this
    have hne : ((mdays y i * 24 : Int) : Rat) ≠ 0 := by push_cast; linarith
    simp only [hne, if_false, Except.ok.injEq] at this
    rw [← this]; push_cast; field_simp

/-- Pulses of a retained month, for arbitrary records.  With durations that are non-negative and
    not clamped (`dur ≤ 2·noon`) the month's entries contain, iff the peak is positive,
    * a rejection entry of load `+peak_cl` over `coolWindow` = `[noon − d/2, noon + d/2]`
      (`[noon − d, noon]` when both peaks share the day),
    * an extraction entry of load `−peak_hl` over `heatWindow` = `[noon − d/2, noon + d/2]`
      (`[noon, noon + d]` on a shared day: abutting),
    and every other entry carries the average rate — so a direction with zero peak gets no pulse. -/
theorem pulse_present_and_placed (y : Int) (r : MonthRec) (i : Int) (hi : 1 ≤ i)
    (hrun : MonthRuns y r true i)
    (hc : 0 < r.pcl → 0 ≤ r.dcl ∧ r.dcl ≤ 2 * noonOf (1 + lmh y (i - 1)) r.dayc)
    (hh : 0 < r.phl → 0 ≤ r.dhl ∧ r.dhl ≤ 2 * noonOf (1 + lmh y (i - 1)) r.dayh) :
    ∃ segs, emitMonth y r true i = .ok segs ∧
      (0 < r.pcl → (r.pcl, (coolWindow (1 + lmh y (i - 1)) r).1, (coolWindow (1 + lmh y (i - 1)) r).2)
          ∈ triples ((lmh y (i - 1) : Int) : Rat) segs) ∧
      (0 < r.phl → (-r.phl, (heatWindow (1 + lmh y (i - 1)) r).1, (heatWindow (1 + lmh y (i - 1)) r).2)
          ∈ triples ((lmh y (i - 1) : Int) : Rat) segs) ∧
      (∀ t ∈ triples ((lmh y (i - 1) : Int) : Rat) segs,
          t.1 = rateOf y r true i ∨ (0 < r.pcl ∧ t.1 = r.pcl) ∨ (0 < r.phl ∧ t.1 = -r.phl)) ∧
      ((coolWindow (1 + lmh y (i - 1)) r).2 - (coolWindow (1 + lmh y (i - 1)) r).1 = r.dcl) ∧
      ((heatWindow (1 + lmh y (i - 1)) r).2 - (heatWindow (1 + lmh y (i - 1)) r).1 = r.dhl) := by
  refine ⟨_, emitMonth_runs y r true i hi hrun, ?_⟩
  obtain ⟨a, b, c⟩ := pulses_of_month y r i (rateOf y r true i) hc hh
  refine ⟨a, b, c, ?_, ?_⟩
  · unfold coolWindow; split <;> simp
  · unfold heatWindow; split <;> simp

/-- Duration bounds and definition (Cullin & Spitler), for every admissible short-time response. -/
theorem duration_bounds (G : Nat → Rat) (tpk rb : Rat) (td : List Rat) (p a : Rat)
    (hlen : td.length = 49) (htpk : 0 < tpk) (hG : ∀ k, 1 ≤ k → G k ≤ G (k + 1))
    (hS : 0 ≤ G 1 / tpk + rb)
    (hq : ∀ k, 1 ≤ k → k ≤ 48 → 0 ≤ td.getD k 0 ∧ td.getD k 0 ≤ p) (ha : 0 ≤ a) (hap : a < p) :
    ∃ d, peakDuration G tpk rb td p a = .ok (.val d) ∧ 0 < d ∧ d ≤ 48 := by
  obtain ⟨d, h1, h2, h3, _⟩ := peakDuration_bounds G tpk rb td p a hlen htpk hG hS hq ha hap
  exact ⟨d, h1, h2, h3⟩

/-- The duration is the placeholder `1e-6` (nominal response never positive) or the time `d`, in the
    hour interval `(k, k+1]`, at which the piecewise-linear interpolant of the response to a constant
    load of `peak − avg` equals the maximum `m > 0` over the two days of the response to the
    peak-scaled hourly profile `(qᵢ − avg)/peak · qᵢ`. -/
theorem duration_definition (G : Nat → Rat) (tpk rb : Rat) (td : List Rat) (p a : Rat)
    (hlen : td.length = 49) (htpk : 0 < tpk) (hG : ∀ k, 1 ≤ k → G k ≤ G (k + 1))
    (hS : 0 ≤ G 1 / tpk + rb)
    (hq : ∀ k, 1 ≤ k → k ≤ 48 → 0 ≤ td.getD k 0 ∧ td.getD k 0 ≤ p) (ha : 0 ≤ a) (hap : a < p) :
    ∃ d, peakDuration G tpk rb td p a = .ok (.val d) ∧
      (d = Gen.hybridDelta ∨
        ∃ (m : Rat) (k : Nat) (qn : List Rat), qNominal td p a = .ok qn ∧ pyMax (response G tpk rb qn) = .ok m ∧
          0 < m ∧ k < 48 ∧ (k : Rat) < d ∧ d ≤ (k : Rat) + 1 ∧
          (response G tpk rb (qPeak p a)).getD k 0
            + (d - (k : Rat)) * ((response G tpk rb (qPeak p a)).getD (k + 1) 0 - (response G tpk rb (qPeak p a)).getD k 0) = m) := by
  obtain ⟨d, h1, _, _, h4⟩ := peakDuration_bounds G tpk rb td p a hlen htpk hG hS hq ha hap
  exact ⟨d, h1, h4⟩

/-- The peak-step response the duration is read from is `(peak − avg) · (G(n)/(2πk) + R_b)` at every
    hour `n = 1..48`, and the response to any load history that starts at 0 is the superposition of
    its changes with that step response (`simulate_hourly`, by unfolding). -/
theorem responses_unfolded (G : Nat → Rat) (tpk rb p a : Rat) (q : List Rat) (hq0 : q.getD 0 0 = 0) (n : Nat) :
    (n < 48 → (response G tpk rb (qPeak p a)).getD (n + 1) 0 = (p - a) * (G (n + 1) / tpk + rb)) ∧
    (n + 1 < q.length → (response G tpk rb q).getD (n + 1) 0 =
      ((List.range (n + 1)).map (fun j => (q.getD (j + 1) 0 - q.getD j 0) * (G (n + 1 - j) / tpk + rb))).sum) := by
  constructor
  · intro hn
    rw [response_getD _ _ _ _ n (by simp [qPeak, Gen.twoDayFactor, Gen.HRS_IN_DAY]; omega), peak_response G tpk rb p a n hn]; rfl
  · intro hn
    rw [response_getD _ _ _ _ n hn, responseFrom_eq G tpk rb q hq0 (n + 1) hn]; rfl

/-- The two-day window is the day before the peak day and the peak day, wrapping to 31 December for a
    peak on 1 January. -/
theorem window_is_two_days_ending_on_peak_day (l : List Rat) (hl : 24 ≤ l.length) (hb day : Nat) :
    (24 ≤ hb + 24 * day → twoDayWindow (withLastDay l) (24 + (hb : Int)) (day : Int) = pySlice l (hb + 24 * day - 24) 48) ∧
    (twoDayWindow (withLastDay l) 24 0 = l.drop (l.length - 24) ++ l.take 24) :=
  twoDayWindow_spec l hl hb day

/-! ### witnesses and non-vacuity -/

/-- Atlanta-like July: rejection peak on day 17 (6 h), extraction peak on day 3 (2 h). -/
def wBoth : MonthRec := { cl := 9000, hl := 1200, pcl := 180, phl := 60, dayc := 17, dayh := 3, dcl := 6, dhl := 2 }

example : ∃ segs, emitMonth 2019 wBoth true 7 = .ok segs ∧
    (180, 4762, 4768) ∈ triples 4344 segs ∧ (-60, 4428, 4430) ∈ triples 4344 segs := by
  have h6 : lmh 2019 6 = 4344 := by
    unfold lmh
    rw [show (6 : Int).toNat = 6 from rfl, cumDays_table 2019 (by decide) 6 (by norm_num)]
    decide
  have hm : mdays 2019 7 = 31 := by decide
  have hnoonc : noonOf (1 + lmh 2019 (7 - 1)) wBoth.dayc = 4344 + 1 + 17 * 24 + 12 := by
    rw [show (7 : Int) - 1 = 6 by norm_num, h6]; simp [noonOf, wBoth]; norm_num
  have hnoonh : noonOf (1 + lmh 2019 (7 - 1)) wBoth.dayh = 4344 + 1 + 3 * 24 + 12 := by
    rw [show (7 : Int) - 1 = 6 by norm_num, h6]; simp [noonOf, wBoth]; norm_num
  obtain ⟨segs, e, a, b, _⟩ := pulse_present_and_placed 2019 wBoth 7 (by norm_num)
    (by intro _; rw [hm]; simp only [pulseHours, wBoth]; norm_num)
    (by intro _; rw [hnoonc]; simp only [wBoth]; norm_num)
    (by intro _; rw [hnoonh]; simp only [wBoth]; norm_num)
  refine ⟨segs, e, ?_, ?_⟩
  · have := a (by simp [wBoth])
    rw [show (7 : Int) - 1 = 6 by norm_num, h6] at this
    simp only [coolWindow, wBoth, noonOf] at this
    norm_num at this
    exact this
  · have := b (by simp [wBoth])
    rw [show (7 : Int) - 1 = 6 by norm_num, h6] at this
    simp only [heatWindow, wBoth, noonOf] at this
    norm_num at this
    exact this

/-- Witness for the clamp: January, extraction peak on day 0 with a 30 h duration (other day than the
    rejection peak).  The record's centred window would be [−2, 28]; the code emits the pulse over
    [1e-6, 30.000001]: not centred on noon (13). -/
def wClamp : MonthRec := { cl := 100, hl := 900, pcl := 20, phl := 30, dayc := 9, dayh := 0, dcl := 2, dhl := 30 }

theorem clamped_pulse_not_centred :
    ∃ segs, emitMonth 2019 wClamp true 1 = .ok segs ∧
      (-30, Gen.hybridDelta, Gen.hybridDelta + 30) ∈ triples 0 segs ∧
      (Gen.hybridDelta + (Gen.hybridDelta + 30)) / 2 ≠ noonOf (1 + lmh 2019 (1 - 1)) wClamp.dayh := by
  have hm : mdays 2019 1 = 31 := mdays_one 2019
  have hrun : MonthRuns 2019 wClamp true 1 := by
    intro _; rw [hm]; simp only [pulseHours, wClamp]; norm_num
  have h744 : lmh 2019 1 = 744 := by
    rw [lmh_succ 2019 1 (by norm_num), show (1 : Int) - 1 = 0 by norm_num, lmh_zero, hm]; norm_num
  refine ⟨_, emitMonth_runs 2019 wClamp true 1 (by norm_num) hrun, ?_, ?_⟩
  · rw [show (1 : Int) - 1 = 0 by norm_num, lmh_zero, h744]
    simp only [peakHours, monthSegments, wClamp, Gen.HRS_IN_DAY, Gen.noonOffset, Gen.hybridDelta]
    norm_num [triples]
  · rw [show (1 : Int) - 1 = 0 by norm_num, lmh_zero]
    simp only [noonOf, wClamp, Gen.hybridDelta]; norm_num

/-- Non-vacuity of `duration_bounds`: the linear response `G k = k`, `2πk = 1`, `R_b = 0`, a window that
    ramps up to its peak 10 with average 2 meets every hypothesis. -/
example : ∃ d, peakDuration (fun k => (k : Rat)) 1 0 (0 :: (List.range 48).map (fun k => ((k % 10 : Nat) : Rat) + 1)) 10 2
    = .ok (.val d) ∧ 0 < d ∧ d ≤ 48 := by
  apply duration_bounds
  · simp
  · norm_num
  · intro k _; push_cast; linarith
  · norm_num
  · intro k k1 k48
    obtain ⟨j, rfl⟩ : ∃ j, k = j + 1 := ⟨k - 1, by omega⟩
    simp only [List.getD_cons_succ]
    rw [List.getD_eq_getElem?_getD, List.getElem?_eq_getElem (by simp; omega)]
    simp only [List.getElem_map, List.getElem_range, Option.getD_some]
    have : j % 10 < 10 := Nat.mod_lt _ (by norm_num)
    have h2 : ((j % 10 : Nat) : Rat) ≤ 9 := by exact_mod_cast (by omega : j % 10 ≤ 9)
    have h3 : (0 : Rat) ≤ ((j % 10 : Nat) : Rat) := by positivity
    constructor <;> linarith
  · norm_num
  · norm_num

end GHEVerif.C07
