/-
  C06 — Hybrid time-step loads conserve every month's ground energy.

  Objects (Model/Hybrid.lean, transcribed from ghedesigner/ground_loads.py, single-year path):
    `emitMonth y r ipf i`        the `(load, end hour)` entries `process_month_loads` appends for
                                 simulated month `i` from the month's record `r` (totals, peaks,
                                 peak days, peak durations) — calendar through the *translated*
                                 `Gen.monthdays / firstMonthHour / lastMonthHour`;
    `processMonthLoads y base s e` the whole sequence (two initial zero entries included);
    `splitByMonth`               `split_heat_and_cool` + `split_loads_by_month`;
    `durationOf`                 one direction of `find_peak_durations`.
  Specification side (Lemmas/HybridSeq.lean): `integral h0 seq = Σ load_j (hour_j − hour_{j−1})`,
  `lastHour`, `lmh y i` = closed form of `last_month_hour`, `mdays` = closed form of `monthdays`.

  The monthly arrays are arbitrary (not only those that come from a profile).

  DESIGN.md C06(1) `month_energy`: "for all monthly arrays with room in the month the month's
  entries integrate to cl_i − hl_i (+ δ·rate·a_i)".  On the repaired tree (fix 53c648d: only the
  durations of emitted pulses are subtracted from the averaging period) the δ term is gone and the
  identity is exact — but it still needs one hypothesis the design did not have (`MonthOK.noclamp`):
  when both pulses fall on the same day and a duration exceeds twice the noon hour (only possible on
  1 January, duration > 26 h) `first_hour_*_peak` is clamped to 1e-6 and the two pulses no longer
  abut.  `month_energy_fails_when_clamped` proves the unconditional statement false on a witness
  (reproduced on the real implementation by harness/c06.py, known finding same-day-pulse-clamped);
  `month_energy` is the full-strength statement for every month whose two pulses are on different
  days or that has at most one pulse; `month_energy_partial` covers the shared-day case under the
  no-clamp hypothesis.  The fixed defect (zero-peak direction with a real duration) is kept as the
  regression `zero_peak_month_conserved`.
-/
import GHEVerif.Lemmas.HybridEnergy
import Mathlib.Tactic.NormNum
import Mathlib.Algebra.Order.Ring.Abs

namespace GHEVerif.C06
open GHEVerif GHEVerif.Hybrid

/-! ### (1) one month -/

/-- Month energy, full strength, for every month that does not have both pulses on one day: for
    every year `y`, simulated month `i ≥ 1`, retention flag and month record with non-negative peaks
    and durations and a non-empty averaging period, the month's entries exist, end at
    `last_month_hour i`, and their signed integral from `last_month_hour (i-1)` is exactly `cl − hl`. -/
theorem month_energy (y : Int) (r : MonthRec) (ipf : Bool) (i : Int) (hi : 1 ≤ i)
    (hp : 0 ≤ r.pcl ∧ 0 ≤ r.phl) (hd : 0 ≤ r.dcl ∧ 0 ≤ r.dhl)
    (hroom : ipf = true → pulseHours r ≠ 24 * (mdays y i : Rat))
    (hdays : r.dayc ≠ r.dayh ∨ r.pcl = 0 ∨ r.phl = 0) :
    ∃ segs, emitMonth y r ipf i = .ok segs ∧
      integral (lmh y (i - 1) : Int) segs = r.cl - r.hl ∧
      lastHour (lmh y (i - 1) : Int) segs = (lmh y i : Int) := by
  apply month_energy_ok y r ipf i hi
  refine ⟨hp, hd, hroom, ?_⟩
  intro _ hsame hc hh
  rcases hdays with h | h | h
  · exact absurd hsame h
  · rw [h] at hc; exact absurd hc (lt_irrefl _)
  · rw [h] at hh; exact absurd hh (lt_irrefl _)

/-- Month energy when both pulses share the day: exact as well, provided neither pulse start is
    clamped (`MonthOK.noclamp`: `dur ≤ 2·noon`). -/
theorem month_energy_partial (y : Int) (r : MonthRec) (ipf : Bool) (i : Int) (hi : 1 ≤ i)
    (h : MonthOK y r ipf i) :
    ∃ segs, emitMonth y r ipf i = .ok segs ∧
      integral (lmh y (i - 1) : Int) segs = r.cl - r.hl ∧
      lastHour (lmh y (i - 1) : Int) segs = (lmh y i : Int) :=
  month_energy_ok y r ipf i hi h

/-! ### the design's statement fails: witnesses -/

/-- Witness (a): January, both peaks on day 0, rejection duration 40 h (> 26 h). -/
def wClamp : MonthRec := { cl := 2000, hl := 30, pcl := 50, phl := 30, dayc := 0, dayh := 0, dcl := 40, dhl := 1 }

/-- The design's `month_energy` (hypothesis `dur_cl + dur_hl < 24·monthdays` only) is false of the
    code: positive peaks, positive durations with room in the month, yet the month integrates to
    something else than `cl − hl` (2180.00003 instead of 1970). -/
theorem month_energy_fails_when_clamped :
    ∃ (r : MonthRec) (segs : List (Rat × Rat)),
      (0 < r.pcl ∧ 0 < r.phl ∧ 0 < r.dcl ∧ 0 < r.dhl ∧ r.dcl + r.dhl < 24 * (mdays 2019 1 : Rat)) ∧
      emitMonth 2019 r true 1 = .ok segs ∧
      integral (lmh 2019 (1 - 1) : Int) segs ≠ r.cl - r.hl := by
  have hm : mdays 2019 1 = 31 := mdays_one 2019
  have hr : monthRate wClamp true (mdays 2019 1 * 24) = .ok 0 := by
    rw [hm]
    simp only [monthRate, pyDiv, wClamp, if_true]
    norm_num
  refine ⟨wClamp, _, ?_, emitMonth_eq 2019 wClamp true 1 (by norm_num) 0 hr, ?_⟩
  · rw [hm]; simp only [wClamp]; norm_num
  · rw [show (1 : Int) - 1 = 0 by norm_num, lmh_zero]
    simp only [peakHours, monthSegments, wClamp, Gen.HRS_IN_DAY, Gen.noonOffset, Gen.hybridDelta]
    norm_num [integral]

/-- A two-day window: 10 kW through the last day of the previous month, nothing on day 0. -/
def wWindow : List Rat := List.replicate 24 10 ++ List.replicate 24 0

/-- Witness (b): a direction whose monthly peak is 0 gets a 24 h duration, not the placeholder,
    when the previous month ends with load (here for the step response `G k = k`, `2πk = 1`,
    `R_b = 0`): `find_peak_durations` swaps the zero peak for the two-day maximum. -/
theorem zero_peak_direction_gets_real_duration :
    durationOf (fun k => (k : Rat)) 1 0 wWindow 0 0 = .ok (.val 24) ∧ (24 : Rat) ≠ Gen.hybridDelta := by
  constructor
  · have key : (match durationOf (fun k => (k : Rat)) 1 0 wWindow 0 0 with
        | .ok (.val d) => decide (d = 24)
        | _ => false) = true := by
      set_option maxRecDepth 100000 in decide +kernel
    revert key
    cases durationOf (fun k => (k : Rat)) 1 0 wWindow 0 0 with
    | error e => intro h; cases h
    | ok d =>
      cases d with
      | nan => intro h; cases h
      | val d => intro h; simp only [decide_eq_true_eq] at h; rw [h]
  · unfold Gen.hybridDelta; norm_num

/-- February after such a month: no rejection (peak 0) but a 24 h rejection duration. -/
def wZeroPeak : MonthRec := { cl := 0, hl := 3364, pcl := 0, phl := 9, dayc := 0, dayh := 4, dcl := 24, dhl := 1 }

/-- Regression of the repaired defect (fix 53c648d): the month used to integrate to
    `cl − hl + rate · 24 h` (−3488 instead of −3364 kWh on the implementation); the pulse-less
    direction's duration is no longer subtracted from the averaging period and the month conserves
    its energy exactly. -/
theorem zero_peak_month_conserved :
    ∃ segs, emitMonth 2019 wZeroPeak true 2 = .ok segs ∧
      integral (lmh 2019 (2 - 1) : Int) segs = wZeroPeak.cl - wZeroPeak.hl := by
  have hm : mdays 2019 2 = 28 := by decide
  obtain ⟨segs, e1, e2, _⟩ := month_energy 2019 wZeroPeak true 2 (by norm_num) (by simp [wZeroPeak]) (by simp [wZeroPeak])
    (by intro _; rw [hm]; simp only [pulseHours, wZeroPeak]; norm_num) (Or.inl (by simp [wZeroPeak]))
  exact ⟨segs, e1, e2⟩

/-! ### (2) the horizon -/

/-- Total energy of the sequence: for every horizon `start ≤ … ≤ end_` (any number of months) whose
    months satisfy `MonthOK`, the sequence exists and its integral from hour 0 is the sum of the
    months' net loads (year-1 values, replicated). -/
theorem horizon_energy_partial (y : Int) (base : List MonthRec) (hlen : base.length = 13)
    (start end_ : Int) (hs : 1 ≤ start) (hs' : start ≤ 13) (he : start - 1 ≤ end_)
    (hok : ∀ i, start ≤ i → i ≤ end_ → MonthOK y (recAt base i) (ipfFlag start end_ i) i) :
    ∃ seq, processMonthLoads y base start end_ = .ok seq ∧
      integral 0 seq = ((pyRange start (end_ + 1)).map (fun i =>
        (recAt base i).cl - (recAt base i).hl)).sum := by
  obtain ⟨seq, h1, _, h3, _⟩ := horizon_core y base hlen start end_ hs hs' he hok
  exact ⟨seq, h1, h3⟩

theorem recAt_monthIndex (base : List MonthRec) (i : Int) : recAt base (monthIndex i) = recAt base i := by
  unfold recAt
  obtain ⟨a, b⟩ := monthIndex_range i
  rw [monthIndex_small _ a b]

/-- `n` whole years from month 1 carry exactly `n ×` the annual net load. -/
theorem horizon_energy_years_partial (y : Int) (base : List MonthRec) (hlen : base.length = 13) (n : Nat)
    (hok : ∀ i, 1 ≤ i → i ≤ 12 * (n : Int) → MonthOK y (recAt base i) (ipfFlag 1 (12 * n) i) i) :
    ∃ seq, processMonthLoads y base 1 (12 * n) = .ok seq ∧
      integral 0 seq = (n : Rat) * ((pyRange 1 13).map (fun m => (recAt base m).cl - (recAt base m).hl)).sum := by
  obtain ⟨seq, h1, _, h3, _⟩ := horizon_core y base hlen 1 (12 * n) (le_refl _) (by norm_num) (by omega) hok
  refine ⟨seq, h1, ?_⟩
  rw [h3]
  exact sum_years (fun i => (recAt base i).cl - (recAt base i).hl) (fun i => by simp only [recAt_add12]) n

/-! ### (3) the monthly totals come from the profile -/

/-- `split_loads_by_month`: for every profile on which it does not raise, there are 13 entries and for
    each month `m = 1..12` rejection total minus extraction total is minus the sum of the month's
    hourly values (W, extraction positive) over 1000. -/
theorem split_totals (y : Int) (raw : List Rat) (stats : List MonthStat)
    (h : splitByMonth y raw = .ok stats) :
    stats.length = 13 ∧ ∀ m : Nat, 1 ≤ m → m ≤ 12 →
      (stats.getD m MonthStat.null).cl - (stats.getD m MonthStat.null).hl =
        -(pySlice raw (hoursBefore (calDays y).tail (m - 1))
            (Gen.HRS_IN_DAY * (calDays y).tail.getD (m - 1) 0).toNat).sum / 1000 := by
  unfold splitByMonth at h
  cases h1 : splitAux (raw.map rejection) (raw.map extraction) 0 (calDays y).tail with
  | error e => rw [h1] at h; cases h
  | ok ms =>
    rw [h1] at h
    simp only [bind, Except.bind, pure, Except.pure, Except.ok.injEq] at h
    subst h
    obtain ⟨l1, l2⟩ := splitAux_spec _ _ _ _ _ h1
    have hl : (calDays y).tail.length = 12 := by simp [calDays]
    refine ⟨by simp [l1, hl], ?_⟩
    intro m m1 m12
    obtain ⟨k, rfl⟩ : ∃ k, m = k + 1 := ⟨m - 1, by omega⟩
    have hk : k < (calDays y).tail.length := by omega
    have hk' : k < ms.length := by omega
    have := l2 k hk hk'
    obtain ⟨a, b, _, _⟩ := statOf_totals _ _ _ this
    simp only [List.getD_cons_succ, Nat.add_sub_cancel]
    rw [List.getD_eq_getElem?_getD, List.getElem?_eq_getElem hk', Option.getD_some,
      List.getD_eq_getElem?_getD, List.getElem?_eq_getElem hk, Option.getD_some, a, b, Nat.zero_add,
      pySlice_map, pySlice_map, sum_rej_sub_ext]

/-! ### non-vacuity and regression examples -/

/-- The F1 regression witness (heating-only, 1 kW base, 5 kW at hour 5 of the month: extraction
    peak on day 0 shared with an absent rejection peak).  Before the repair January integrated to
    −800 kWh; now the record meets the hypotheses of `month_energy`: exactly −748 kWh. -/
def wF1 : MonthRec := { cl := 0, hl := 748, pcl := 0, phl := 5, dayc := 0, dayh := 0, dcl := Gen.hybridDelta, dhl := 1 }

example : ∃ segs, emitMonth 2019 wF1 true 1 = .ok segs ∧ integral (lmh 2019 (1 - 1) : Int) segs = -748 := by
  have hm : mdays 2019 1 = 31 := mdays_one 2019
  obtain ⟨segs, e1, e2, _⟩ := month_energy 2019 wF1 true 1 (by norm_num) (by simp [wF1])
    (by simp only [wF1]; exact ⟨le_of_lt delta_pos, by norm_num⟩)
    (by intro _; rw [hm]; simp only [pulseHours, wF1]; norm_num) (Or.inr (Or.inl rfl))
  exact ⟨segs, e1, by rw [e2]; simp [wF1]⟩

/-- The regression itself, evaluated: the entries of January are
    average (−1 kW) → noon, pulse −5 kW for 1 h, average → hour 744 (no pulse from hour 0). -/
example : emitMonth 2019 wF1 true 1 = .ok [(-1, 13), (-5, 14), (-1, 744)] := by
  have hm : mdays 2019 1 = 31 := mdays_one 2019
  have hr : monthRate wF1 true (mdays 2019 1 * 24) = .ok (-1) := by
    rw [hm]
    simp only [monthRate, pyDiv, wF1, Gen.hybridDelta, if_true]
    norm_num
  rw [emitMonth_eq 2019 wF1 true 1 (by norm_num) _ hr]
  rw [show (1 : Int) - 1 = 0 by norm_num, lmh_zero]
  have h744 : lmh 2019 1 = 744 := by
    rw [lmh_succ 2019 1 (by norm_num), show (1 : Int) - 1 = 0 by norm_num, lmh_zero, hm]; norm_num
  rw [h744]
  simp only [peakHours, monthSegments, wF1, Gen.HRS_IN_DAY, Gen.noonOffset, Gen.hybridDelta]
  norm_num

/-- An Atlanta-like month (both peaks, different days) satisfies the hypotheses: exact conservation. -/
def wBoth : MonthRec := { cl := 9000, hl := 1200, pcl := 180, phl := 60, dayc := 17, dayh := 3, dcl := 6, dhl := 2 }

example : ∃ segs, emitMonth 2019 wBoth true 7 = .ok segs ∧ integral (lmh 2019 (7 - 1) : Int) segs = 7800 := by
  have hm : mdays 2019 7 = 31 := by decide
  obtain ⟨segs, e1, e2, _⟩ := month_energy 2019 wBoth true 7 (by norm_num) (by simp [wBoth]) (by simp [wBoth])
    (by intro _; rw [hm]; simp only [pulseHours, wBoth]; norm_num) (Or.inl (by simp [wBoth]))
  exact ⟨segs, e1, by rw [e2]; simp only [wBoth]; norm_num⟩

/-- A whole-year base satisfying every hypothesis of `horizon_energy_years_partial` for 2 years. -/
def wBase : List MonthRec := MonthRec.null :: List.replicate 12 wBoth

example : ∃ seq, processMonthLoads 2019 wBase 1 (12 * (2 : Nat)) = .ok seq ∧ integral 0 seq = 2 * (12 * 7800) := by
  have hrec : ∀ i, recAt wBase i = wBoth := by
    intro i
    obtain ⟨a, b⟩ := monthIndex_range i
    unfold recAt
    generalize monthIndex i = k at a b
    obtain ⟨k, rfl⟩ := Int.eq_ofNat_of_zero_le (by omega : 0 ≤ k)
    simp only [Int.toNat_natCast]
    have : k ≤ 12 := by omega
    have : 1 ≤ k := by omega
    interval_cases k <;> rfl
  obtain ⟨seq, h1, h2⟩ := horizon_energy_years_partial 2019 wBase rfl 2 (by
      intro i i1 i2
      rw [hrec]
      have hmd := mdays_ge 2019 i
      have hmdR : (28 : Rat) ≤ (mdays 2019 i : Rat) := by exact_mod_cast hmd
      refine ⟨by simp [wBoth], by simp [wBoth], ?_, ?_⟩
      · intro _; simp only [pulseHours, wBoth]; intro h; norm_num at h; linarith
      · intro _ hd; simp [wBoth] at hd)
  refine ⟨seq, h1, ?_⟩
  rw [h2]
  simp only [hrec, wBoth]
  have : (pyRange 1 13).length = 12 := by simp [pyRange]
  simp [List.map_const', this]; norm_num

/-- `split_totals` is not vacuous: a constant 1 kW extraction profile of 8760 h splits without raising. -/
example : ∃ stats, splitByMonth 2019 (List.replicate 8760 1000) = .ok stats ∧
    (stats.getD 2 MonthStat.null).cl - (stats.getD 2 MonthStat.null).hl = -672 := by
  have key : (match splitByMonth 2019 (List.replicate 8760 1000) with
      | .ok stats => decide ((stats.getD 2 MonthStat.null).cl - (stats.getD 2 MonthStat.null).hl = -672)
      | .error _ => false) = true := by
    set_option maxRecDepth 1000000 in decide +kernel
  revert key
  cases splitByMonth 2019 (List.replicate 8760 1000) with
  | error e => intro h; cases h
  | ok s => intro h; exact ⟨s, rfl, by simpa using h⟩

end GHEVerif.C06
