/-
  C04 — Polygon-constrained fields lie inside the property and outside no-go zones.

  Property theorems only; helper lemmas live in GHEVerif/Lemmas/Constrained.lean.
  The model (Model/Constrained.lean) composes the two finished models `Domains.biRectangleNested`
  (C03) and `Polygon.classify` (C16) the way `domains.polygonal_land_constraint` composes
  `bi_rectangle_nested` and `feature_recognition.remove_cutout`; the keep conditions, the
  `keep_contour=[True, False]` default and the arguments of the two `remove_cutout` calls are
  `GHEVerif.Gen.*`, regenerated from the source on every check.

  All theorems hold for EVERY rounding operator `R` of the grid generator (in particular for
  `R = fl64`, the instance compared bit for bit with the code) unless `R = id` is written, for
  every list of property outlines (no simplicity / convexity / orientation hypothesis) and every
  no-go argument (`None`, flat one-polygon form, list of polygons), and are stated for runs that
  return (`= .ok out`); the error branches are theorems of section 6.

  Notation.  `tol = Gen.cutoutTolDefault` (the `on_edge_tolerance=0.01` default of `remove_cutout`).
  `InBand b p`: `p` is within the documented edge tolerance of an edge of `b`, in real arithmetic:
      ∃ edge (v1, v2) of b,  | |v1 p| + |v2 p| − |v1 v2| | < tol.
  `Kept props nogos p`: `point_polygon_check` answers 1 or 0 for some property outline and −1 for
  every no-go polygon.
-/
import GHEVerif.Lemmas.Constrained
import GHEVerif.Props.C16
import GHEVerif.Props.C03

namespace GHEVerif.C04
open GHEVerif GHEVerif.Coords GHEVerif.Domains GHEVerif.Polygon GHEVerif.Constrained

/-- the tolerance both cut-outs use -/
abbrev tol : Rat := Gen.cutoutTolDefault

/-- the no-go polygons of a call (`None` → none) -/
abbrev nogosOf (nogo : Option Bounds) : List Poly := (nogo.getD (.many [])).polys

/-- within the documented edge tolerance of the boundary of `b` (the source's comparison, over ℝ) -/
def InBand (b : Poly) (p : Point) : Prop :=
  ∃ e ∈ edges b, |rdist e.1 p + rdist e.2 p - rdist e.1 e.2| < (tol : ℝ)

/-! ### 0. `remove_cutout` -/

/-- `remove_cutout` is a filter of the coordinate list (order and multiplicity preserved) and
    its decision is, for `remove_inside=False`: inside some outline, or on an edge band if the
    contour is kept; for `remove_inside=True`: inside no outline, and on no edge band unless the
    contour is kept.  Every mode, every tolerance, both forms of the boundary argument. -/
theorem remove_cutout_spec (coords out : Field) (b : Bounds) (ri kc : Bool) (t : Rat)
    (h : removeCutout coords b ri kc t = .ok out) :
    out = coords.filter (keepPoint ri kc t b.polys) ∧
    (∀ p, keepPoint false kc t b.polys p = true ↔
      (∃ q ∈ b.polys, classify t q p = 1) ∨ (kc = true ∧ ∃ q ∈ b.polys, classify t q p = 0)) ∧
    (∀ p, keepPoint true kc t b.polys p = true ↔
      (∀ q ∈ b.polys, classify t q p ≠ 1) ∧ (kc = true ∨ ∀ q ∈ b.polys, classify t q p ≠ 0)) :=
  ⟨removeCutout_ok h, fun p => keepPoint_keep_iff kc t _ p, fun p => keepPoint_remove_iff kc t _ p⟩

/-! ### 1. which grid boreholes survive -/

/-- With the source's defaults (property cut keeps the contour, no-go cut removes it) the joint
    decision of the two cuts is: 1 or 0 for some property outline and −1 for every no-go polygon. -/
theorem kept_decision (props nogos : List Poly) (p : Point) :
    keptB tol props nogos p = true ↔
      (∃ b ∈ props, classify tol b p = 1 ∨ classify tol b p = 0) ∧ (∀ b ∈ nogos, classify tol b p = -1) :=
  keptB_iff tol props nogos p

/-- **kept_iff.**  A run that returns is: bounding rectangle `(L, W)` = largest vertex abscissa /
    ordinate; `nested = bi_rectangle_nested(L, W, …)`; and, list by list, the output list is the
    stable sort by size of the non-empty cut fields, where the cut of a field keeps exactly the
    boreholes with `Kept` (both directions), in their order. -/
theorem kept_iff (R : Rat → Rat) (bmin bx by_ : Rat) (props : List Poly) (nogo : Option Bounds)
    (out : List (List Field) × List (List Nat))
    (h : polygonalLandConstraint R bmin bx by_ (.many props) nogo Gen.plcKeepContourDefault = .ok out) :
    ∃ L W nested, landOf props = some (L, W) ∧ biRectangleNested R L W bmin bx by_ = .ok nested ∧
      List.Forall₂ (fun dom od =>
          od = stableSort List.length ((dom.map (cutOf tol props (nogosOf nogo))).filter (fun g => decide (g ≠ []))))
        nested out.1 ∧
      ∀ (f : Field) (p : Point), p ∈ cutOf tol props (nogosOf nogo) f ↔ p ∈ f ∧ Kept tol props (nogosOf nogo) p := by
  obtain ⟨L, W, nested, h1, h2, h3⟩ := plc_ok h
  refine ⟨L, W, nested, h1, h2, ?_, ?_⟩
  · exact List.Forall₂.imp (fun _ _ hh => hh.2) (plcCore_ok h3).1
  · intro f p
    unfold cutOf
    rw [List.mem_filter, keptB_iff]

/-- The cut of a field is a sublist of it: surviving boreholes keep their order and multiplicity. -/
theorem cut_sublist (props nogos : List Poly) (f : Field) : (cutOf tol props nogos f).Sublist f :=
  List.filter_sublist

/-! ### 2. shape of the result -/

/-- **fields_subset_grid.**  Every returned field is the cut of a grid field of the same list,
    hence a sublist of it. -/
theorem fields_subset_grid (R : Rat → Rat) (bmin bx by_ : Rat) (props : List Poly) (nogo : Option Bounds)
    (out : List (List Field) × List (List Nat))
    (h : polygonalLandConstraint R bmin bx by_ (.many props) nogo Gen.plcKeepContourDefault = .ok out) :
    ∃ L W nested, landOf props = some (L, W) ∧ biRectangleNested R L W bmin bx by_ = .ok nested ∧
      List.Forall₂ (fun dom od => ∀ g ∈ od, ∃ f ∈ dom, g = cutOf tol props (nogosOf nogo) f ∧ g.Sublist f)
        nested out.1 := by
  obtain ⟨L, W, nested, h1, h2, h3, _⟩ := kept_iff R bmin bx by_ props nogo out h
  refine ⟨L, W, nested, h1, h2, List.Forall₂.imp ?_ h3⟩
  intro dom od hod g hg
  rw [hod, mem_stableSort, List.mem_filter, List.mem_map] at hg
  obtain ⟨⟨f, hf, rfl⟩, _⟩ := hg
  exact ⟨f, hf, rfl, cut_sublist _ _ f⟩

/-- **no_empty_field.**  No returned list is empty and no returned field is empty; there are as
    many lists as `bi_rectangle_nested` produced, and as many descriptor lists. -/
theorem no_empty_field (R : Rat → Rat) (bmin bx by_ : Rat) (props : List Poly) (nogo : Option Bounds)
    (out : List (List Field) × List (List Nat))
    (h : polygonalLandConstraint R bmin bx by_ (.many props) nogo Gen.plcKeepContourDefault = .ok out) :
    (∀ od ∈ out.1, od ≠ [] ∧ ∀ g ∈ od, g ≠ []) ∧ out.1.length = out.2.length := by
  obtain ⟨L, W, nested, _, _, h3⟩ := plc_ok h
  obtain ⟨f1, f2⟩ := plcCore_ok h3
  refine ⟨?_, by rw [← f1.length_eq, ← f2.length_eq]⟩
  intro od hod
  obtain ⟨dom, _, hne, rfl⟩ := forall₂_mem_right f1 hod
  constructor
  · intro he
    apply hne
    have := length_stableSort List.length (cutDom tol (Bounds.many props).polys (nogosOf nogo) dom)
    rw [he] at this
    exact List.eq_nil_of_length_eq_zero this.symm
  · intro g hg
    rw [mem_stableSort] at hg
    unfold cutDom at hg
    rw [List.mem_filter] at hg
    simpa using hg.2

/-- **sorted_by_count.**  Each returned candidate list is ordered by non-decreasing borehole
    count. -/
theorem sorted_by_count (R : Rat → Rat) (bmin bx by_ : Rat) (props : List Poly) (nogo : Option Bounds)
    (out : List (List Field) × List (List Nat))
    (h : polygonalLandConstraint R bmin bx by_ (.many props) nogo Gen.plcKeepContourDefault = .ok out) :
    ∀ od ∈ out.1, (od.map List.length).Pairwise (· ≤ ·) := by
  obtain ⟨L, W, nested, _, _, h3, _⟩ := kept_iff R bmin bx by_ props nogo out h
  intro od hod
  obtain ⟨dom, _, rfl⟩ := forall₂_mem_right h3 hod
  rw [List.pairwise_map]
  exact stableSort_sorted List.length _

/-- The sort is the stable sort Python's `sorted` is: a permutation, ordered by the key, elements
    of equal key in their input order (these three facts determine the result), and an input that
    is already ordered is returned unchanged. -/
theorem sort_is_stable {α : Type} (key : α → Nat) (l : List α) :
    (stableSort key l).Perm l ∧ (stableSort key l).Pairwise (fun x y => key x ≤ key y) ∧
    (∀ k, (stableSort key l).filter (fun x => key x = k) = l.filter (fun x => key x = k)) ∧
    (l.Pairwise (fun x y => key x ≤ key y) → stableSort key l = l) :=
  ⟨stableSort_perm key l, stableSort_sorted key l, stableSort_filter key l, stableSort_of_sorted key l⟩

/-! ### 3. with C16: inside the property, outside the no-go zones, in the crossing-number sense -/

theorem tol_pos : 0 < tol := C16.default_tolerances_positive.2

/-- `point_polygon_check` with the cut-out tolerance, read through C16: 0 ⇔ within the edge
    tolerance of the boundary; otherwise 1 ⇔ odd crossing number, −1 ⇔ even crossing number. -/
theorem classify_meaning (b : Poly) (p : Point) :
    (classify tol b p = 0 ↔ InBand b p) ∧
    (classify tol b p = 1 ↔ ¬ InBand b p ∧ Odd (crossings b p)) ∧
    (classify tol b p = -1 ↔ ¬ InBand b p ∧ Even (crossings b p)) := by
  have h0 : classify tol b p = 0 ↔ InBand b p := C16.on_edge_iff_in_band tol tol_pos b p
  refine ⟨h0, ?_, ?_⟩
  · constructor
    · intro h1
      have hnb : ¬ InBand b p := by intro hb; rw [h0.mpr hb] at h1; exact absurd h1 (by decide)
      have hb : ∀ e ∈ edges b, onBand tol e p = false := by
        intro e he
        by_contra hc
        exact hnb ⟨e, he, (C16.bandTest_iff tol e p).mp (by simpa using hc)⟩
      exact ⟨hnb, (C16.ray_eq_crossing_number_pos_tol tol tol_pos b p hb).1.mp h1⟩
    · rintro ⟨hnb, hodd⟩
      have hb : ∀ e ∈ edges b, onBand tol e p = false := by
        intro e he
        by_contra hc
        exact hnb ⟨e, he, (C16.bandTest_iff tol e p).mp (by simpa using hc)⟩
      exact (C16.ray_eq_crossing_number_pos_tol tol tol_pos b p hb).1.mpr hodd
  · constructor
    · intro h1
      have hnb : ¬ InBand b p := by intro hb; rw [h0.mpr hb] at h1; exact absurd h1 (by decide)
      have hb : ∀ e ∈ edges b, onBand tol e p = false := by
        intro e he
        by_contra hc
        exact hnb ⟨e, he, (C16.bandTest_iff tol e p).mp (by simpa using hc)⟩
      exact ⟨hnb, (C16.ray_eq_crossing_number_pos_tol tol tol_pos b p hb).2.mp h1⟩
    · rintro ⟨hnb, hev⟩
      have hb : ∀ e ∈ edges b, onBand tol e p = false := by
        intro e he
        by_contra hc
        exact hnb ⟨e, he, (C16.bandTest_iff tol e p).mp (by simpa using hc)⟩
      exact (C16.ray_eq_crossing_number_pos_tol tol tol_pos b p hb).2.mpr hev

/-- `Kept` in the crossing-number sense. -/
theorem kept_meaning (props nogos : List Poly) (p : Point) :
    Kept tol props nogos p ↔
      (∃ b ∈ props, InBand b p ∨ (¬ InBand b p ∧ Odd (crossings b p))) ∧
      (∀ b ∈ nogos, ¬ InBand b p ∧ Even (crossings b p)) := by
  unfold Kept
  constructor
  · rintro ⟨⟨b, hb, h⟩, hn⟩
    refine ⟨⟨b, hb, ?_⟩, fun c hc => (classify_meaning c p).2.2.mp (hn c hc)⟩
    rcases h with h | h
    · exact Or.inr ((classify_meaning b p).2.1.mp h)
    · exact Or.inl ((classify_meaning b p).1.mp h)
  · rintro ⟨⟨b, hb, h⟩, hn⟩
    refine ⟨⟨b, hb, ?_⟩, fun c hc => (classify_meaning c p).2.2.mpr (hn c hc)⟩
    rcases h with h | h
    · exact Or.inr ((classify_meaning b p).1.mpr h)
    · exact Or.inl ((classify_meaning b p).2.1.mpr h)

/-- **Every borehole of every candidate field** lies inside (odd crossing number), or on the
    boundary within the documented edge tolerance of, at least one property outline, and neither
    inside nor within the edge tolerance of any no-go polygon. -/
theorem boreholes_inside_property_outside_nogo (R : Rat → Rat) (bmin bx by_ : Rat) (props : List Poly)
    (nogo : Option Bounds) (out : List (List Field) × List (List Nat))
    (h : polygonalLandConstraint R bmin bx by_ (.many props) nogo Gen.plcKeepContourDefault = .ok out) :
    ∀ od ∈ out.1, ∀ g ∈ od, ∀ p ∈ g,
      (∃ b ∈ props, InBand b p ∨ (¬ InBand b p ∧ Odd (crossings b p))) ∧
      (∀ b ∈ nogosOf nogo, ¬ InBand b p ∧ Even (crossings b p)) := by
  obtain ⟨L, W, nested, _, _, h3, h4⟩ := kept_iff R bmin bx by_ props nogo out h
  intro od hod g hg p hp
  obtain ⟨dom, _, rfl⟩ := forall₂_mem_right h3 hod
  rw [mem_stableSort, List.mem_filter, List.mem_map] at hg
  obtain ⟨⟨f, _, rfl⟩, _⟩ := hg
  exact (kept_meaning _ _ p).mp ((h4 f p).mp hp).2

/-- **Conversely**, no grid borehole that is clearly inside the property (odd crossing number for
    some outline, outside that outline's edge band) and clearly outside every no-go polygon (even
    crossing number, outside the band) is dropped: the cut of its field is one of the returned
    fields of the same list and contains it. -/
theorem clearly_inside_not_dropped (R : Rat → Rat) (bmin bx by_ : Rat) (props : List Poly)
    (nogo : Option Bounds) (out : List (List Field) × List (List Nat))
    (h : polygonalLandConstraint R bmin bx by_ (.many props) nogo Gen.plcKeepContourDefault = .ok out) :
    ∃ L W nested, landOf props = some (L, W) ∧ biRectangleNested R L W bmin bx by_ = .ok nested ∧
      List.Forall₂ (fun dom od => ∀ f ∈ dom, ∀ p ∈ f,
          (∃ b ∈ props, ¬ InBand b p ∧ Odd (crossings b p)) →
          (∀ b ∈ nogosOf nogo, ¬ InBand b p ∧ Even (crossings b p)) →
          cutOf tol props (nogosOf nogo) f ∈ od ∧ p ∈ cutOf tol props (nogosOf nogo) f)
        nested out.1 := by
  obtain ⟨L, W, nested, h1, h2, h3, h4⟩ := kept_iff R bmin bx by_ props nogo out h
  refine ⟨L, W, nested, h1, h2, List.Forall₂.imp ?_ h3⟩
  intro dom od hod f hf p hp hin hout
  have hk : Kept tol props (nogosOf nogo) p := by
    rw [kept_meaning]
    obtain ⟨b, hb, hh⟩ := hin
    exact ⟨⟨b, hb, Or.inr hh⟩, hout⟩
  have hmem : p ∈ cutOf tol props (nogosOf nogo) f := (h4 f p).mpr ⟨hp, hk⟩
  refine ⟨?_, hmem⟩
  rw [hod, mem_stableSort, List.mem_filter, List.mem_map]
  refine ⟨⟨f, hf, rfl⟩, ?_⟩
  simp only [ne_eq, decide_eq_true_eq]
  intro he; rw [he] at hmem; cases hmem

/-- **How far outside the lot a kept borehole can be.**  A borehole that is not inside an outline
    is kept only in the tolerance band of an edge `e`; there its distance from the line of `e`
    (`|cross e p| / |e|`) is at most `√(tol·(2|e| + tol)) / 2`, and its projection on that line
    lies at most `tol/2` beyond either end of `e` (`(p − A)·(B − A) ≥ −tol·|e|/2`, same at `B`).
    For `tol = 0.01` and a 100 m edge that is 0.71 m (reached: see the `example` below) — the
    documented tolerance bounds the excess of the two focal distances, not the distance. -/
theorem band_extent (e : Edge) (p : Point)
    (h : |rdist e.1 p + rdist e.2 p - rdist e.1 e.2| < (tol : ℝ)) :
    4 * ((cross e p : ℚ) : ℝ) ^ 2 ≤ (rdist e.1 e.2) ^ 2 * ((tol : ℝ) * (2 * rdist e.1 e.2 + (tol : ℝ))) ∧
    -((tol : ℝ) * rdist e.1 e.2) ≤
      2 * (((p.1 - e.1.1) * (e.2.1 - e.1.1) + (p.2 - e.1.2) * (e.2.2 - e.1.2) : ℚ) : ℝ) ∧
    -((tol : ℝ) * rdist e.1 e.2) ≤
      2 * (((p.1 - e.2.1) * (e.1.1 - e.2.1) + (p.2 - e.2.2) * (e.1.2 - e.2.2) : ℚ) : ℝ) :=
  Constrained.band_extent tol e p h

/-! ### 4. the bounding rectangle; land and spacing (with C03) -/

/-- `length` / `width` handed to the grid generator are the largest vertex abscissa / ordinate
    over all outlines (attained), so with the schema's `coordinates ≥ 0` every property vertex
    lies in the gridded rectangle `[0, length] × [0, width]`.  (The minima are not used: the grid
    always starts at the origin.) -/
theorem bounding_rectangle (props : List Poly) (L W : Rat) (h : landOf props = some (L, W)) :
    (∀ b ∈ props, ∀ v ∈ b, v.1 ≤ L ∧ v.2 ≤ W) ∧
    (∃ b ∈ props, ∃ v ∈ b, v.1 = L) ∧ (∃ b ∈ props, ∃ v ∈ b, v.2 = W) ∧
    ((∀ b ∈ props, ∀ v ∈ b, 0 ≤ v.1 ∧ 0 ≤ v.2) → ∀ b ∈ props, InLand L W b) := by
  obtain ⟨h1, ⟨v, hv, e1⟩, ⟨w, hw, e2⟩⟩ := landOf_spec h
  rw [List.mem_flatten] at hv hw
  obtain ⟨b1, hb1, hv⟩ := hv
  obtain ⟨b2, hb2, hw⟩ := hw
  have h1' : ∀ b ∈ props, ∀ v ∈ b, v.1 ≤ L ∧ v.2 ≤ W :=
    fun b hb v hv => h1 v (List.mem_flatten.mpr ⟨b, hb, hv⟩)
  refine ⟨h1', ⟨b1, hb1, v, hv, e1⟩, ⟨b2, hb2, w, hw, e2⟩, ?_⟩
  intro hpos b hb v hv
  exact ⟨(hpos b hb v hv).1, (h1' b hb v hv).1, (hpos b hb v hv).2, (h1' b hb v hv).2⟩

/-- Exact grid (`R = id`), positive spacings, positive bounding rectangle: every returned field
    lies in `[0, length] × [0, width]`, has no coincident boreholes and keeps every pair at least
    `b_min` apart (C03's theorems survive the cut because a cut field is a sublist). -/
theorem constrained_on_land_and_spaced (bmin bx by_ : Rat) (props : List Poly) (nogo : Option Bounds)
    (out : List (List Field) × List (List Nat)) (hb : 0 < bmin) (hbx : 0 < bx) (hby : 0 < by_)
    (L W : Rat) (hland : landOf props = some (L, W)) (hL : 0 < L) (hW : 0 < W)
    (h : polygonalLandConstraint id bmin bx by_ (.many props) nogo Gen.plcKeepContourDefault = .ok out) :
    ∀ od ∈ out.1, ∀ g ∈ od, InLand L W g ∧ C03.Spaced bmin g := by
  obtain ⟨L', W', nested, h1, h2, h3⟩ := fields_subset_grid id bmin bx by_ props nogo out h
  rw [hland] at h1
  obtain ⟨rfl, rfl⟩ : L = L' ∧ W = W' := by cases h1; exact ⟨rfl, rfl⟩
  obtain ⟨ls, hls, hgood⟩ := C03.bi_rectangle_nested_good L W bmin bx by_ hb hbx hby hL hW
  rw [h2] at hls
  cases hls
  intro od hod g hg
  obtain ⟨dom, hdom, hh⟩ := forall₂_mem_right h3 hod
  obtain ⟨f, hf, _, hsub⟩ := hh g hg
  obtain ⟨hin, hsep⟩ := hgood dom hdom f hf
  refine ⟨fun p hp => hin p (hsub.subset hp), C03.spaced_of_sep hb ?_⟩
  exact List.Pairwise.sublist hsub hsep

/-! ### 5. descriptors -/

/-
  Full statement of the design ("descriptors permuted identically"):
      every returned field is paired with the descriptor of the grid field it was cut from.
  FALSE of the code as soon as one field of a list lost all its boreholes: `reorder_domain` zips the
  shortened field list with the ORIGINAL descriptor list (witness: `descriptors_misaligned` below).
  Proved: the statement for lists in which no field was dropped.
-/
/-- A list in which no field lost all its boreholes: the returned descriptor positions are the
    positions of the grid fields the returned fields were cut from, in the same order. -/
theorem descriptors_follow_fields_partial (R : Rat → Rat) (bmin bx by_ : Rat) (props : List Poly)
    (nogo : Option Bounds) (out : List (List Field) × List (List Nat))
    (h : polygonalLandConstraint R bmin bx by_ (.many props) nogo Gen.plcKeepContourDefault = .ok out) :
    ∃ L W nested, landOf props = some (L, W) ∧ biRectangleNested R L W bmin bx by_ = .ok nested ∧
      List.Forall₂ (fun dom (odd : List Field × List Nat) =>
          (∀ f ∈ dom, cutOf tol props (nogosOf nogo) f ≠ []) →
          odd.1 = odd.2.map (fun k => cutOf tol props (nogosOf nogo) (dom.getD k [])) ∧ odd.2.Perm (List.range dom.length))
        nested (List.zip out.1 out.2) := by
  obtain ⟨L, W, nested, h1, h2, h3⟩ := plc_ok h
  obtain ⟨f1, f2⟩ := plcCore_ok h3
  refine ⟨L, W, nested, h1, h2, ?_⟩
  have key : ∀ (a : List (List Field)) (o1 : List (List Field)) (o2 : List (List Nat)),
      List.Forall₂ (fun dom od => cutDom tol props (nogosOf nogo) dom ≠ [] ∧
        od = stableSort List.length (cutDom tol props (nogosOf nogo) dom)) a o1 →
      List.Forall₂ (fun dom dd => dd = (stableSort (fun (x : Field × Nat) => x.1.length)
                (List.zip (cutDom tol props (nogosOf nogo) dom) (List.range dom.length))).map (·.2)) a o2 →
      List.Forall₂ (fun dom (odd : List Field × List Nat) =>
          (∀ f ∈ dom, cutOf tol props (nogosOf nogo) f ≠ []) →
          odd.1 = odd.2.map (fun k => cutOf tol props (nogosOf nogo) (dom.getD k [])) ∧ odd.2.Perm (List.range dom.length))
        a (List.zip o1 o2) := by
    intro a
    induction a with
    | nil => intro o1 o2 g1 g2; cases g1; cases g2; exact List.Forall₂.nil
    | cons dom a ih =>
      intro o1 o2 g1 g2
      cases g1 with
      | cons hd1 t1 =>
        cases g2 with
        | cons hd2 t2 =>
          rw [List.zip_cons_cons]
          refine List.Forall₂.cons ?_ (ih _ _ t1 t2)
          intro hall
          obtain ⟨_, rfl⟩ := hd1
          subst hd2
          have hcd : cutDom tol props (nogosOf nogo) dom = dom.map (cutOf tol props (nogosOf nogo)) := by
            unfold cutDom
            rw [List.filter_eq_self]
            intro g hg
            rw [List.mem_map] at hg
            obtain ⟨f, hf, rfl⟩ := hg
            simpa using hall f hf
          set S := stableSort (fun (x : Field × Nat) => x.1.length)
                (List.zip (cutDom tol props (nogosOf nogo) dom) (List.range dom.length)) with hS
          have hmemS : ∀ x ∈ S, x.1 = cutOf tol props (nogosOf nogo) (dom.getD x.2 []) := by
            intro x hx
            rw [hS, mem_stableSort, hcd] at hx
            have hx' := hx
            rw [List.mem_iff_getElem] at hx'
            obtain ⟨i, hi, rfl⟩ := hx'
            simp only [List.getElem_zip, List.getElem_map, List.getElem_range]
            rw [List.length_zip, List.length_map, List.length_range, Nat.min_self] at hi
            rw [List.getD_eq_getElem?_getD, List.getElem?_eq_getElem hi]; rfl
          have hfst : stableSort List.length (cutDom tol props (nogosOf nogo) dom) = S.map (·.1) := by
            rw [hS, stableSort_map List.length (fun (x : Field × Nat) => x.1), List.map_fst_zip]
            rw [hcd]; simp
          constructor
          · show stableSort List.length (cutDom tol props (nogosOf nogo) dom) = _
            rw [hfst, List.map_map]
            apply List.map_congr_left
            intro x hx
            exact hmemS x hx
          · show (S.map (·.2)).Perm _
            have hp := (stableSort_perm (fun (x : Field × Nat) => x.1.length)
                (List.zip (cutDom tol props (nogosOf nogo) dom) (List.range dom.length))).map (·.2)
            refine hp.trans ?_
            rw [List.map_snd_zip]
            rw [hcd]; simp
  exact key nested out.1 out.2 f1 f2

/-! ### 6. error branches -/

/-- The flat one-polygon form is rejected by `determine_largest_rectangle` (`for x, y in …` on a
    vertex → TypeError) when handed to `polygonal_land_constraint` directly … -/
theorem flat_property_raises (R : Rat → Rat) (bmin bx by_ : Rat) (v : Point) (vs : Poly) (nogo : Option Bounds)
    (kc : List Bool) :
    polygonalLandConstraint R bmin bx by_ (.single (v :: vs)) nogo kc = .error .typeError := rfl

/-- … and accepted through the constructor, which wraps it (both arguments): the design built
    from flat arguments is the design built from the one-element lists. -/
theorem constructor_wraps_flat_form (R : Rat → Rat) (bmin bx by_ : Rat) (p q : Poly) (kc : List Bool)
    (hp : p ≠ []) (hq : q ≠ []) :
    designConstrained R bmin bx by_ (.single p) (.single q) kc =
      polygonalLandConstraint R bmin bx by_ (.many [p]) (some (.many [q])) kc := by
  cases p with
  | nil => exact absurd rfl hp
  | cons v vs =>
    cases q with
    | nil => exact absurd rfl hq
    | cons w ws => rfl

/-- What is observed at `DesignBiRectangleConstrained.coordinates_domain_nested`: the constructor
    normalises both boundary arguments (flat form → one-element list, `[]` stays `[]`) and calls
    `polygonal_land_constraint`; every theorem above therefore applies to a design that was built,
    with `props = prop.norm` and `nogo = some (.many nogo.norm)`. -/
theorem design_is_constraint_on_normalised_arguments (R : Rat → Rat) (bmin bx by_ : Rat) (prop nogo : Bounds)
    (kc : List Bool) (out : List (List Field) × List (List Nat))
    (h : designConstrained R bmin bx by_ prop nogo kc = .ok out) :
    polygonalLandConstraint R bmin bx by_ (.many prop.norm) (some (.many nogo.norm)) kc = .ok out :=
  design_ok h

/-- A candidate list that loses all its fields makes the call raise (ValueError from the
    two-name unpacking of `reorder_domain`'s empty zip, or an earlier error): a run that returns
    has no empty list.  See the `example` below for the ValueError itself. -/
theorem all_fields_cut_raises (R : Rat → Rat) (bmin bx by_ : Rat) (props : List Poly) (nogo : Option Bounds)
    (L W : Rat) (nested : List (List Field)) (hland : landOf props = some (L, W))
    (hn : biRectangleNested R L W bmin bx by_ = .ok nested)
    (dom : List Field) (hdom : dom ∈ nested) (hcut : ∀ f ∈ dom, cutOf tol props (nogosOf nogo) f = []) :
    ∃ e, polygonalLandConstraint R bmin bx by_ (.many props) nogo Gen.plcKeepContourDefault = .error e := by
  cases hr : polygonalLandConstraint R bmin bx by_ (.many props) nogo Gen.plcKeepContourDefault with
  | error e => exact ⟨e, rfl⟩
  | ok out =>
    exfalso
    obtain ⟨L', W', nested', h1, h2, h3⟩ := plc_ok hr
    rw [hland] at h1
    cases h1
    rw [hn] at h2
    cases h2
    obtain ⟨od, _, hne, _⟩ := forall₂_mem_left (plcCore_ok h3).1 hdom
    apply hne
    unfold cutDom
    rw [List.filter_eq_nil_iff]
    intro g hg
    rw [List.mem_map] at hg
    obtain ⟨f, hf, rfl⟩ := hg
    simp [show cutOf tol (Bounds.many props).polys (nogosOf nogo) f = [] from hcut f hf]

/-! ### Non-vacuity -/

/-- An L-shaped lot (reflex corner at (10, 10)), a building, and two thin no-go strips. -/
def lot : List Poly := [[(0, 0), (20, 0), (20, 10), (10, 10), (10, 20), (0, 20)]]
def building : Poly := [(3, 3), (7, 3), (7, 7), (3, 7)]
def strips : List Poly := [[(6, -1), (7, -1), (7, 21), (6, 21)], [(13, -1), (14, -1), (14, 21), (13, 21)]]

def sizesOf (r : Py (List (List Field) × List (List Nat))) : List (List Nat) :=
  match r with
  | .ok o => o.1.map (·.map List.length)
  | .error _ => []

def descsOf (r : Py (List (List Field) × List (List Nat))) : List (List Nat) :=
  match r with
  | .ok o => o.2
  | .error _ => []

def errOf (r : Py (List (List Field) × List (List Nat))) : Option PyErr :=
  match r with
  | .ok _ => none
  | .error e => some e

/-- The run returns: bounding rectangle 20 × 20, three candidate lists; the grid lists had sizes
    [1,2,3,6,9,12,15], [1,2,3,6,9,12,16,20], [1,2,3,6,9,12,15,20,25]: boreholes beyond the reflex
    corner and inside / on the contour of the building are gone, those on the lot's own contour
    are kept, every list is sorted. -/
example : landOf lot = some (20, 20) ∧
    sizesOf (polygonalLandConstraint id 5 10 10 (.many lot) (some (.single building)) Gen.plcKeepContourDefault) =
      [[1, 2, 3, 6, 8, 10, 13], [1, 2, 3, 6, 8, 10, 11, 15], [1, 2, 3, 6, 9, 11, 13, 15, 20]] := by
  decide +kernel

/-- `Kept` both ways on this lot: (10, 10) is on the lot's contour (kept), (20, 20) is outside
    the L (dropped), (5, 5) is inside the building (dropped), (7, 5) is on the building's contour
    (dropped), (15, 5) is strictly inside the lot and outside the building (kept). -/
example : keptB tol lot [building] (10, 10) = true ∧ keptB tol lot [building] (20, 20) = false ∧
    keptB tol lot [building] (5, 5) = false ∧ keptB tol lot [building] (7, 5) = false ∧
    keptB tol lot [building] (15, 5) = true ∧
    classify tol building (7, 5) = 0 ∧ classify tol building (5, 5) = 1 ∧ classify tol building (15, 5) = -1 := by
  decide +kernel

/-- The stable sort really reorders: with the two strips the 4-column field of the first list
    (grid position 5, 12 boreholes) loses two columns and a corner (→ 5) and moves in front of the
    3 × 2 field (position 3); the descriptor positions move with it; equal sizes stay in input
    order (second list: the two fields of 6 boreholes, position 3 before position 6). -/
example : sizesOf (polygonalLandConstraint id 5 10 10 (.many lot) (some (.many strips)) Gen.plcKeepContourDefault)
      = [[1, 2, 3, 5, 6, 8, 13], [1, 2, 3, 6, 6, 8, 10, 16], [1, 2, 3, 6, 8, 9, 11, 13, 21]] ∧
    descsOf (polygonalLandConstraint id 5 10 10 (.many lot) (some (.many strips)) Gen.plcKeepContourDefault)
      = [[0, 1, 2, 5, 3, 4, 6], [0, 1, 2, 3, 6, 4, 5, 7], [0, 1, 2, 3, 7, 4, 5, 6, 8]] := by
  decide +kernel

/-- `descriptors_misaligned`: the negation of the full descriptor statement on a concrete
    witness.  A no-go square around the origin removes the single-borehole field of every list
    (grid lists [1,2,4,6] and [1,2,4,6,9]); the surviving fields are the grid fields at positions
    1, 2, 3 (and 4) but are returned with the descriptor positions 0, 1, 2 (and 3). -/
example : sizesOf (polygonalLandConstraint id 10 20 20 (.many lot) (some (.single [(-1, -1), (1, -1), (1, 1), (-1, 1)]))
        Gen.plcKeepContourDefault) = [[1, 2, 4], [1, 3, 4, 7]] ∧
    descsOf (polygonalLandConstraint id 10 20 20 (.many lot) (some (.single [(-1, -1), (1, -1), (1, 1), (-1, 1)]))
        Gen.plcKeepContourDefault) = [[0, 1, 2], [0, 1, 2, 3]] := by
  decide +kernel

/-- Error branches are reachable: a lot away from the grid (no grid borehole inside) → every
    list loses all its fields → ValueError; no vertex → OverflowError (`.other`) or, with a zero
    spacing, ZeroDivisionError; an empty first outline → IndexError in `remove_cutout`; a too
    short `keep_contour` → IndexError. -/
example : errOf (polygonalLandConstraint id 5 10 10 (.many [[(1, 1), (8, 1), (9, 8), (1, 9)]]) none Gen.plcKeepContourDefault)
      = some .valueError ∧
    errOf (polygonalLandConstraint id 5 10 10 (.many []) none Gen.plcKeepContourDefault) = some .other ∧
    errOf (polygonalLandConstraint id 0 10 10 (.many [[]]) none Gen.plcKeepContourDefault) = some .zeroDiv ∧
    errOf (polygonalLandConstraint id 5 10 10 (.many ([] :: lot)) none Gen.plcKeepContourDefault) = some .indexError ∧
    errOf (polygonalLandConstraint id 5 10 10 (.many lot) (some (.single building)) [true]) = some .indexError := by
  decide +kernel

/-- `constrained_on_land_and_spaced`, `clearly_inside_not_dropped`: hypotheses satisfiable (the run
    above returns, spacings and rectangle are positive). -/
example : ∃ out, polygonalLandConstraint id 5 10 10 (.many lot) (some (.single building)) Gen.plcKeepContourDefault = .ok out :=
  by
    cases h : polygonalLandConstraint id 5 10 10 (.many lot) (some (.single building)) Gen.plcKeepContourDefault with
    | ok out => exact ⟨out, rfl⟩
    | error e =>
      have : errOf (polygonalLandConstraint id 5 10 10 (.many lot) (some (.single building)) Gen.plcKeepContourDefault) = none := by
        decide +kernel
      rw [h] at this; cases this

/-- `band_extent` is attained up to rounding: on a 100 m side the borehole 0.70 m OUTSIDE the lot
    is on-edge at the cut-out tolerance and therefore kept; 0.71 m outside is dropped
    (`√(0.01 · 200.01) / 2 = 0.7071`). -/
example : keptB tol [[(0, 0), (100, 0), (100, 100), (0, 100)]] [] (50, -7 / 10) = true ∧
    keptB tol [[(0, 0), (100, 0), (100, 100), (0, 100)]] [] (50, -71 / 100) = false ∧
    onBand tol ((0, 0), (100, 0)) (50, -7 / 10) = true := by decide +kernel

/-- The constructor path on flat arguments. -/
example : sizesOf (designConstrained id 10 20 20 (.single [(0, 0), (20, 0), (20, 10), (10, 10), (10, 20), (0, 20)])
      (.single building) Gen.plcKeepContourDefault) = [[1, 2, 3, 5], [1, 2, 4, 5, 8]] := by decide +kernel

end GHEVerif.C04
