/-
  C01 — Returned design keeps entering fluid temperature within the limits.
  Property theorems about the search/sizing model (Model/Search.lean); helper lemmas are in
  Lemmas/Search.lean.  `E idx h` is the excess temperature of candidate `idx` at height `h`, an
  arbitrary function: the theorems hold for every thermal model, every candidate list, every
  sign pattern.  `sign`/`check_bracket` are the definitions regenerated from utilities.py.
-/
import GHEVerif.Lemmas.Search
import GHEVerif.Lemmas.SearchNested
import GHEVerif.Lemmas.SearchRowWise
import GHEVerif.Lemmas.Report
import GHEVerif.Model.Pipeline
import GHEVerif.Lemmas.Pipeline
import GHEVerif.Lemmas.Flow

namespace GHEVerif.C01
open GHEVerif GHEVerif.Search GHEVerif.Report GHEVerif.Pipeline

/-- Whatever the excess function, a candidate selected by the integer bisection was evaluated at
    maximum height by this very search and meets the limits there (`E k maxH < 0`).  No
    monotonicity is assumed. -/
theorem bisect1D_bisection_feasible (counts : List Nat) (E : Nat → Rat → Rat) (cfg : Cfg)
    (k : Nat) (h : Rat) (tr : List (Nat × Rat))
    (hsel : bisect1D counts E cfg = (.selected k h .bisection, tr)) :
    h = cfg.maxH ∧ E k cfg.maxH < 0 ∧ (k, cfg.maxH) ∈ tr := by
  obtain ⟨xr, ls, i, s, hu, _, _, hinv, hneg, hfin⟩ := bisect1D_bisection_path hsel
  obtain ⟨k', _, hf, hE, _, hmem, _⟩ := finish_selects (counts := counts) hinv (upperIndex_ok hu).1 hneg
  rw [hf] at hfin
  injection hfin with h1 h2
  injection h1 with h1 h3 _
  subst h1; subst h2; subst h3
  exact ⟨rfl, hE, hmem⟩

/-- The early exit "size between min and max height of the smallest field" happens exactly on a
    sign change of the excess of candidate 0 between the two heights, so one end is feasible
    and the height root solve that follows is bracketed. -/
theorem bisect1D_bracket0 (counts : List Nat) (E : Nat → Rat → Rat) (cfg : Cfg)
    (k : Nat) (h : Rat) (tr : List (Nat × Rat))
    (hsel : bisect1D counts E cfg = (.selected k h .bracket0, tr)) :
    k = 0 ∧ h = cfg.maxH ∧
      ((E 0 cfg.minH < 0 ∧ 0 < E 0 cfg.maxH) ∨ (E 0 cfg.maxH < 0 ∧ 0 < E 0 cfg.minH)) := by
  obtain ⟨xr, _, hpre, _⟩ := bisect1D_early hsel (by decide)
  rcases pre_inl_cases hpre with ⟨h', _⟩ | ⟨h', hs⟩ | ⟨h', _⟩ | ⟨h', _⟩
  · cases h'
  · injection h' with h1 h2 _; exact ⟨h1, h2, hs⟩
  · by_cases hc : cfg.cont = true <;> simp [hc] at h'
  · by_cases hc : cfg.cont = true <;> simp [hc] at h'

/-- The two remaining selections are the `continue_if_design_unmet` escapes, and only those:
    they need the flag, and they are the documented fallbacks. -/
theorem bisect1D_escape_needs_flag (counts : List Nat) (E : Nat → Rat → Rat) (cfg : Cfg)
    (k : Nat) (h : Rat) (p : Path) (tr : List (Nat × Rat))
    (hsel : bisect1D counts E cfg = (.selected k h p, tr)) (hp : p = .tooSmallCont ∨ p = .tooBigCont) :
    cfg.cont = true := by
  have hp' : p ≠ .bisection := by rcases hp with rfl | rfl <;> decide
  obtain ⟨xr, _, hpre, _⟩ := bisect1D_early hsel hp'
  rcases pre_inl_cases hpre with ⟨h', _⟩ | ⟨h', _⟩ | ⟨h', _⟩ | ⟨h', _⟩
  · cases h'
  · injection h' with _ _ h3; rcases hp with rfl | rfl <;> cases h3
  · by_cases hc : cfg.cont = true
    · exact hc
    · simp [hc] at h'
  · by_cases hc : cfg.cont = true
    · exact hc
    · simp [hc] at h'

/-- Summary used by the property: a selection that is not an unmet-design escape is either
    feasible at maximum height, or bracketed between the two heights on the smallest field. -/
theorem bisect1D_selected_feasible (counts : List Nat) (E : Nat → Rat → Rat) (cfg : Cfg)
    (k : Nat) (h : Rat) (p : Path) (tr : List (Nat × Rat))
    (hsel : bisect1D counts E cfg = (.selected k h p, tr))
    (hne : p ≠ .tooSmallCont ∧ p ≠ .tooBigCont) :
    h = cfg.maxH ∧ (E k cfg.maxH < 0 ∨ (k = 0 ∧ E 0 cfg.minH < 0 ∧ 0 < E 0 cfg.maxH)) := by
  cases p with
  | bisection =>
    obtain ⟨h1, h2, _⟩ := bisect1D_bisection_feasible counts E cfg k h tr hsel
    exact ⟨h1, Or.inl h2⟩
  | bracket0 =>
    obtain ⟨h1, h2, h3⟩ := bisect1D_bracket0 counts E cfg k h tr hsel
    subst h1
    rcases h3 with h3 | h3
    · exact ⟨h2, Or.inr ⟨rfl, h3⟩⟩
    · exact ⟨h2, Or.inl h3.1⟩
  | tooSmallCont => exact absurd rfl hne.1
  | tooBigCont => exact absurd rfl hne.2


/-! ### nested searches (bi-rectangle, polygon-constrained: `Bisection2D`; bi-zoned: `BisectionZD`) -/

/-- A field returned by `Bisection2D` is the selection of `Bisection1D.search` on its inner list,
    so it is feasible at maximum height (or bracketed on the smallest field) unless it is a
    `continue_if_design_unmet` escape, which needs the flag. -/
theorem bisect2D_selected_feasible (nc : List (List Nat)) (E2 : Nat → Nat → Rat → Rat) (cfg : Cfg)
    (l k : Nat) (hh : Rat) (tr : Trace2) (h : bisect2D nc E2 cfg = (.selected l k hh, tr)) :
    ∃ p : Path, ((p ≠ .tooSmallCont ∧ p ≠ .tooBigCont) →
            hh = cfg.maxH ∧ (E2 l k cfg.maxH < 0 ∨ (k = 0 ∧ E2 l 0 cfg.minH < 0 ∧ 0 < E2 l 0 cfg.maxH))) ∧
         ((p = .tooSmallCont ∨ p = .tooBigCont) → cfg.cont = true) := by
  obtain ⟨_, p, tr', h1⟩ := bisect2D_selected h
  exact ⟨p, fun hne => bisect1D_selected_feasible _ _ cfg k hh p tr' h1 hne,
    fun hp => bisect1D_escape_needs_flag _ _ cfg k hh p tr' h1 hp⟩

/-- The same for the bi-zoned search (`BisectionZD.search_successive`, after the F16 repair): the
    returned field is the selection of the 1D search of the chosen list, and the height it is left
    at is the sized height of that field. -/
theorem bisectZD_selected_feasible (nc : List (List Nat)) (E2 : Nat → Nat → Rat → Rat) (sz : Nat → Nat → Rat)
    (cfg : Cfg) (l k : Nat) (hh : Rat) (tr : Trace2) (h : bisectZD nc E2 sz cfg = (.selected l k hh, tr)) :
    hh = sz l k ∧ ∃ (p : Path) (h1 : Rat), ((p ≠ .tooSmallCont ∧ p ≠ .tooBigCont) →
            h1 = cfg.maxH ∧ (E2 l k cfg.maxH < 0 ∨ (k = 0 ∧ E2 l 0 cfg.minH < 0 ∧ 0 < E2 l 0 cfg.maxH))) ∧
         ((p = .tooSmallCont ∨ p = .tooBigCont) → cfg.cont = true) := by
  obtain ⟨e, _, ⟨h1, p, tr', hs⟩, _⟩ := bisectZD_selected h
  exact ⟨e, p, h1, fun hne => bisect1D_selected_feasible _ _ cfg k h1 p tr' hs hne,
    fun hp => bisect1D_escape_needs_flag _ _ cfg k h1 p tr' hs hp⟩

/-! ### RowWise search (`RowWiseModifiedBisectionSearch.search`) -/

/-- Whatever the excess function (no monotonicity in the spacing assumed), the field the RowWise
    search returns meets the limits at maximum height (`≤ 0`), unless it is the
    `continue_if_design_unmet` escape, which needs the flag and both end fields failing. -/
theorem rowwise_selected_feasible (Es : Rat → Rat) (nb : Rat → Nat) (szs : Rat → Rat) (E1 : Rat)
    (Esub : Nat → Rat) (c : RWCfg) (f : RWSel) (esc : Bool) (tr : List RWEval)
    (h : rowwiseSearch Es nb szs E1 Esub c = (.selected f esc, tr)) :
    (esc = true ∧ c.cont = true ∧ f = .atSpacing c.start ∧ 0 < Es c.start ∧ 0 < Es c.stop) ∨
    (esc = false ∧ rwExcess Es E1 Esub f ≤ 0) := by
  unfold rowwiseSearch at h
  simp only at h
  by_cases c1 : Es c.start > 0 ∧ Es c.stop > 0
  · simp only [c1, and_self, if_true] at h
    by_cases hc : c.cont = true
    · simp only [hc, if_true] at h
      injection h with h1 _; injection h1 with e1 e2
      left; exact ⟨e2.symm, hc, e1.symm, c1.1, c1.2⟩
    · simp [hc] at h
  · simp only [c1, if_false] at h
    by_cases c2 : Es c.start < 0 ∧ 0 < Es c.stop
    · simp only [c2, and_self, if_true] at h
      right
      generalize hb : rwBisect Es c.maxIter
        { hi := c.start, lo := c.stop, lowE := Es c.start, highE := Es c.stop, m := (c.stop + c.start) / 2,
          trace := [.sp c.start, .sp c.stop] } = b at h
      have hhi : Es b.hi ≤ 0 := by
        rw [← hb]; exact rwBisect_hi Es _ _ (le_of_lt c2.1)
      cases hs : rwSweep Es nb szs
          ((List.range (c.nExtra + 1)).map (fun (k : Nat) => b.hi + (k : Nat) * (c.step / 10))) none with
      | none => simp [hs] at h
      | some st =>
        obtain ⟨s, t⟩ := st
        simp only [hs] at h
        injection h with h1 _; injection h1 with e1 e2
        refine ⟨e2.symm, ?_⟩
        rw [← e1]
        simp only [rwExcess]
        refine rwSweep_feasible Es nb szs _ none (by intro s t e; cases e) ?_ s t hs
        intro _ t0 rest ht
        have : (List.range (c.nExtra + 1)).map (fun (k : Nat) => b.hi + (k : Nat) * (c.step / 10))
            = (b.hi + ((0 : Nat) : Rat) * (c.step / 10)) ::
              ((List.range c.nExtra).map Nat.succ).map (fun (k : Nat) => b.hi + (k : Nat) * (c.step / 10)) := by
          rw [List.range_succ_eq_map, List.map_cons]
        rw [this] at ht
        injection ht with ht _
        rw [← ht]; simpa using hhi
    · simp only [c2, if_false] at h
      by_cases c3 : Es c.stop < 0 ∧ Es c.start < 0
      · simp only [c3, and_self, if_true] at h
        right
        by_cases c4 : E1 ≤ 0
        · simp only [c4, if_true] at h
          injection h with h1 _; injection h1 with e1 e2
          exact ⟨e2.symm, by rw [← e1]; simpa [rwExcess] using c4⟩
        · simp only [c4, if_false] at h
          injection h with h1 _; injection h1 with e1 e2
          refine ⟨e2.symm, ?_⟩
          rw [← e1]
          exact rwRemove_sel Es E1 Esub _ _ (by simpa [rwExcess] using le_of_lt c3.1)
      · simp [c3] at h


/-! ### the height root solve (`utilities.solve_root` as used by `GHE.size`) -/

/-- scipy's documented guarantee for `brentq` on a sign-changing continuous function. -/
def BrentSpec (f : Rat → Rat) (lo hi tol x : Rat) : Prop :=
  lo ≤ x ∧ x ≤ hi ∧ ∃ r, lo ≤ r ∧ r ≤ hi ∧ f r = 0 ∧ ratAbs (x - r) ≤ tol

/-- `|f a - f b| ≤ c |a - b|` on the bracket. -/
def Lipschitz (f : Rat → Rat) (c lo hi : Rat) : Prop :=
  ∀ a b, lo ≤ a → a ≤ hi → lo ≤ b → b ≤ hi → ratAbs (f a - f b) ≤ c * ratAbs (a - b)

theorem sgn_eq {v : Rat} {s : Int} : sgn v = .ok s ↔ (0 < v ∧ s = 1) ∨ (v < 0 ∧ s = -1) := by
  unfold sgn pyDiv
  rcases lt_trichotomy v 0 with h | h | h
  · have ha : ratAbs v = -v := by unfold ratAbs; simp [h]
    have hne : -v ≠ 0 := neg_ne_zero.mpr (ne_of_lt h)
    have hq : v / -v = -1 := by rw [div_neg, div_self (ne_of_lt h)]
    have c1 : (-1 : Rat).ceil = -1 := by decide
    have n1 : ¬ ((1 : Rat) ≤ 0) := by norm_num
    simp only [ha, hne, if_false, Except.map, hq, pyTrunc]
    simp only [show ¬ ((0 : Rat) ≤ -1) by norm_num, if_false, c1]
    constructor
    · intro e; injection e with e; exact Or.inr ⟨h, e.symm⟩
    · rintro (⟨h', _⟩ | ⟨_, rfl⟩); · linarith
      rfl
  · subst h
    have : ratAbs (0 : Rat) = 0 := by unfold ratAbs; simp
    simp only [this, if_true, Except.map]
    constructor
    · intro e; cases e
    · rintro (⟨h', _⟩ | ⟨h', _⟩) <;> exact absurd h' (lt_irrefl _)
  · have ha : ratAbs v = v := by unfold ratAbs; simp [not_lt.mpr (le_of_lt h)]
    have hne : v ≠ 0 := ne_of_gt h
    have hq : v / v = 1 := div_self hne
    have f1 : Rat.floor 1 = 1 := by decide
    simp only [ha, hne, if_false, Except.map, hq, pyTrunc]
    simp only [show ((0 : Rat) ≤ 1) by norm_num, if_true, f1]
    constructor
    · intro e; injection e with e; exact Or.inl ⟨h, e.symm⟩
    · rintro (⟨_, rfl⟩ | ⟨h', _⟩); · rfl
      linarith

/-- Both ends infeasible-negative (excess < 0 at min and max height): the solver clamps to the
    lower bound, and the design is feasible there. -/
theorem solveRoot_clamped_low (x : Rat) (f : Rat → Rat) (lo hi brent : Rat)
    (hlo : f lo < 0) (hhi : f hi < 0) : solveRoot x f lo hi brent = .ok (.clampedLow, lo) := by
  have h1 : sgn (f lo) = .ok (-1) := sgn_eq.mpr (Or.inr ⟨hlo, rfl⟩)
  have h2 : sgn (f hi) = .ok (-1) := sgn_eq.mpr (Or.inr ⟨hhi, rfl⟩)
  unfold solveRoot; simp [h1, h2]

/-- Both ends positive: the solver clamps to the upper bound. -/
theorem solveRoot_clamped_high (x : Rat) (f : Rat → Rat) (lo hi brent : Rat)
    (hlo : 0 < f lo) (hhi : 0 < f hi) : solveRoot x f lo hi brent = .ok (.clampedHigh, hi) := by
  have h1 : sgn (f lo) = .ok 1 := sgn_eq.mpr (Or.inl ⟨hlo, rfl⟩)
  have h2 : sgn (f hi) = .ok 1 := sgn_eq.mpr (Or.inl ⟨hhi, rfl⟩)
  unfold solveRoot; simp [h1, h2]

/-- Opposite signs: the solver returns what Brent returns; under Brent's contract and a Lipschitz
    bound `c` the excess at the returned height is within `c·tol` of zero. -/
theorem solveRoot_bracketed (x : Rat) (f : Rat → Rat) (lo hi brent tol c : Rat)
    (hsig : (f lo < 0 ∧ 0 < f hi) ∨ (f hi < 0 ∧ 0 < f lo))
    (hb : BrentSpec f lo hi tol brent) (hl : Lipschitz f c lo hi) :
    solveRoot x f lo hi brent = .ok (.bracketed, brent) ∧ ratAbs (f brent) ≤ c * tol ∧
      lo ≤ brent ∧ brent ≤ hi := by
  obtain ⟨b1, b2, r, r1, r2, hr, hd⟩ := hb
  have hc : 0 ≤ c := by
    by_contra hneg
    have hneg : c < 0 := not_le.mp hneg
    rcases hsig with ⟨a, b⟩ | ⟨a, b⟩
    · have hlohi : lo ≤ hi := le_trans b1 b2
      have := hl lo hi (le_refl _) hlohi hlohi (le_refl _)
      have h0 : 0 ≤ ratAbs (f lo - f hi) := by unfold ratAbs; split <;> linarith
      have h1 : 0 ≤ ratAbs (lo - hi) := by unfold ratAbs; split <;> linarith
      have h2 : ratAbs (f lo - f hi) = f hi - f lo := by unfold ratAbs; simp [show f lo - f hi < 0 by linarith]
      nlinarith
    · have hlohi : lo ≤ hi := le_trans b1 b2
      have := hl lo hi (le_refl _) hlohi hlohi (le_refl _)
      have h1 : 0 ≤ ratAbs (lo - hi) := by unfold ratAbs; split <;> linarith
      have h2 : ratAbs (f lo - f hi) = f lo - f hi := by
        unfold ratAbs; simp [show ¬ (f lo - f hi < 0) by linarith]
      nlinarith
  refine ⟨?_, ?_, b1, b2⟩
  · rcases hsig with ⟨a, b⟩ | ⟨a, b⟩
    · have h1 : sgn (f lo) = .ok (-1) := sgn_eq.mpr (Or.inr ⟨a, rfl⟩)
      have h2 : sgn (f hi) = .ok 1 := sgn_eq.mpr (Or.inl ⟨b, rfl⟩)
      unfold solveRoot; simp [h1, h2]
    · have h1 : sgn (f lo) = .ok 1 := sgn_eq.mpr (Or.inl ⟨b, rfl⟩)
      have h2 : sgn (f hi) = .ok (-1) := sgn_eq.mpr (Or.inr ⟨a, rfl⟩)
      unfold solveRoot; simp [h1, h2]
  · have := hl brent r b1 b2 r1 r2
    rw [hr, sub_zero] at this
    calc ratAbs (f brent) ≤ c * ratAbs (brent - r) := this
      _ ≤ c * tol := by exact mul_le_mul_of_nonneg_left hd hc

/-- The sizing step after a selection that is feasible at max height (`f hi < 0`) can never take
    the both-positive clamp: the returned height is either the lower bound with `f lo < 0`, or a
    Brent root.  In both cases the excess at the returned height is at most `c·tol`. -/
theorem size_after_feasible_selection (x : Rat) (f : Rat → Rat) (lo hi brent tol c : Rat)
    (hhi : f hi < 0) (hlo : f lo ≠ 0) (hb : 0 < f lo → BrentSpec f lo hi tol brent)
    (hl : Lipschitz f c lo hi) (hct : 0 ≤ c * tol) :
    ∃ kind H, solveRoot x f lo hi brent = .ok (kind, H) ∧ kind ≠ .clampedHigh ∧ f H ≤ c * tol := by
  rcases lt_or_gt_of_ne hlo with h | h
  · exact ⟨.clampedLow, lo, solveRoot_clamped_low x f lo hi brent h hhi, by decide, by linarith⟩
  · obtain ⟨h1, h2, _, _⟩ := solveRoot_bracketed x f lo hi brent tol c (Or.inr ⟨hhi, h⟩) (hb h) hl
    refine ⟨.bracketed, brent, h1, by decide, ?_⟩
    have : f brent ≤ ratAbs (f brent) := by unfold ratAbs; split <;> linarith
    linarith

/-! ### the whole `find_design` pipeline -/

/-- End-to-end statement for EVERY design method: whenever `find_design` returns a design whose
    selected candidate is feasible at maximum height in the sizing objective (`f k maxH < 0`: for a
    selection that is not a `continue_if_design_unmet` escape the search-stage excess is negative
    there — `*_selected_feasible` — and the `Consistent` contract, measured on every real run, says
    the three-height interpolated objective agrees in sign), then under Brent's contract and a
    Lipschitz constant `c` the final object (o) is the candidate the search selected, (i) reports
    temperatures computed at its final height, (ii) has its height inside `[min_height,
    max_height]`, and (iii) has excess at most `c·tol` at that height. -/
theorem find_design_feasible {α β : Type} (search : SearchRes α β) (E : α → Rat → Rat) (minH maxH : Rat)
    (f : α → Rat → Rat) (its : α → List Rat) (brent : α → Rat) (d : DesignG α β) (tol c : Rat)
    (hres : findDesignG search E minH maxH f its brent = .design d)
    (hwin : minH ≤ maxH)
    (hfeas : f d.field maxH < 0)
    (hnz : f d.field minH ≠ 0)
    (hb : 0 < f d.field minH → BrentSpec (f d.field) minH maxH tol (brent d.field))
    (hl : Lipschitz (f d.field) c minH maxH) (hct : 0 ≤ c * tol) :
    (∃ h, search = .selected d.field h d.path) ∧
    d.st.simAt = some d.st.H ∧ minH ≤ d.st.H ∧ d.st.H ≤ maxH ∧ f d.field d.st.H ≤ c * tol := by
  rw [findDesignG_eq_spec] at hres
  unfold findDesignSpec at hres
  cases search with
  | valueError => simp at hres
  | pyError e => simp at hres
  | selected k h p =>
    simp only at hres
    cases hs : size (f k) minH maxH (its k) (brent k) { H := h, simAt := none, returned := 0 } with
    | error e => simp [hs] at hres
    | ok st =>
      simp only [hs] at hres
      injection hres with hres
      subst hres
      simp only at hfeas hnz hb hl ⊢
      obtain ⟨h1, kind, hk⟩ := size_simAt (f k) minH maxH (its k) (brent k) _ _ hs
      obtain ⟨kind', H', hk', hne, hle⟩ :=
        size_after_feasible_selection ((maxH + minH) / 2) (f k) minH maxH (brent k) tol c
          hfeas hnz hb hl hct
      rw [hk] at hk'
      injection hk' with hk'
      injection hk' with e1 e2
      subst e1; subst e2
      refine ⟨⟨h, rfl⟩, h1, ?_, ?_, hle⟩
      · -- the height is in the window: low clamp or Brent's iterate
        rcases lt_or_gt_of_ne hnz with hneg | hpos
        · have := solveRoot_clamped_low ((maxH + minH) / 2) (f k) minH maxH (brent k) hneg hfeas
          rw [hk] at this; injection this with this; injection this with _ e; rw [e]
        · obtain ⟨h2, _, h3, _⟩ := solveRoot_bracketed ((maxH + minH) / 2) (f k) minH maxH (brent k) tol c
            (Or.inr ⟨hfeas, hpos⟩) (hb hpos) hl
          rw [hk] at h2; injection h2 with h2; injection h2 with _ e; rw [e]; exact h3
      · rcases lt_or_gt_of_ne hnz with hneg | hpos
        · have := solveRoot_clamped_low ((maxH + minH) / 2) (f k) minH maxH (brent k) hneg hfeas
          rw [hk] at this; injection this with this; injection this with _ e; rw [e]; exact hwin
        · obtain ⟨h2, _, _, h4⟩ := solveRoot_bracketed ((maxH + minH) / 2) (f k) minH maxH (brent k) tol c
            (Or.inr ⟨hfeas, hpos⟩) (hb hpos) hl
          rw [hk] at h2; injection h2 with h2; injection h2 with _ e; rw [e]; exact h4

/-- The flat searches (near-square, rectangle): the returned design is the field `Bisection1D.search`
    selected, and it keeps the limits within `c·tol` at its final height. -/
theorem find_design_feasible_1D (counts : List Nat) (E : Nat → Rat → Rat) (cfg : Cfg)
    (f : Nat → Rat → Rat) (its : Nat → List Rat) (brent : Nat → Rat) (d : Design) (tol c : Rat)
    (hres : findDesign1D counts E cfg f its brent = .design d)
    (hwin : cfg.minH ≤ cfg.maxH)
    (hcons : E d.field cfg.maxH < 0 → f d.field cfg.maxH < 0)
    (hfeas : E d.field cfg.maxH < 0)
    (hnz : f d.field cfg.minH ≠ 0)
    (hb : 0 < f d.field cfg.minH → BrentSpec (f d.field) cfg.minH cfg.maxH tol (brent d.field))
    (hl : Lipschitz (f d.field) c cfg.minH cfg.maxH) (hct : 0 ≤ c * tol) :
    (∃ h, (bisect1D counts E cfg).1 = .selected d.field h d.path) ∧
    d.st.simAt = some d.st.H ∧ cfg.minH ≤ d.st.H ∧ d.st.H ≤ cfg.maxH ∧ f d.field d.st.H ≤ c * tol := by
  obtain ⟨⟨h, hsel⟩, rest⟩ := find_design_feasible _ E cfg.minH cfg.maxH f its brent d tol c hres hwin (hcons hfeas) hnz hb hl hct
  refine ⟨⟨h, ?_⟩, rest⟩
  unfold search1D at hsel
  cases ho : (bisect1D counts E cfg).1 with
  | valueError => simp [ho] at hsel
  | pyError e => simp [ho] at hsel
  | selected k h' p => simp only [ho] at hsel; injection hsel with e1 e2 e3; subst e1; subst e2; subst e3; rfl

/-- The nested searches (bi-rectangle: `Bisection2D`; bi-zoned and polygon-constrained:
    `BisectionZD`): the returned design is the (list, index) pair the search selected. -/
theorem find_design_feasible_nested (o : Outcome2) (E2 : Nat → Nat → Rat → Rat) (minH maxH : Rat)
    (f : Nat × Nat → Rat → Rat) (its : Nat × Nat → List Rat) (brent : Nat × Nat → Rat)
    (d : DesignG (Nat × Nat) Unit) (tol c : Rat)
    (hres : findDesignG (searchOf2 o) (fun lk => E2 lk.1 lk.2) minH maxH f its brent = .design d)
    (hwin : minH ≤ maxH)
    (hfeas : f d.field maxH < 0)
    (hnz : f d.field minH ≠ 0)
    (hb : 0 < f d.field minH → BrentSpec (f d.field) minH maxH tol (brent d.field))
    (hl : Lipschitz (f d.field) c minH maxH) (hct : 0 ≤ c * tol) :
    (∃ h, o = .selected d.field.1 d.field.2 h) ∧
    d.st.simAt = some d.st.H ∧ minH ≤ d.st.H ∧ d.st.H ≤ maxH ∧ f d.field d.st.H ≤ c * tol := by
  obtain ⟨⟨h, hsel⟩, rest⟩ := find_design_feasible _ _ minH maxH f its brent d tol c hres hwin hfeas hnz hb hl hct
  refine ⟨⟨h, ?_⟩, rest⟩
  unfold searchOf2 at hsel
  cases o with
  | valueError => simp at hsel
  | pyError e => simp at hsel
  | selected l k h' => simp only at hsel; injection hsel with e1 e2 _; subst e2; rw [← e1]

/-- The RowWise search: the returned design is the field `RowWiseModifiedBisectionSearch.search`
    returned (with its escape flag), sized from maximum height. -/
theorem find_design_feasible_rowwise (Es : Rat → Rat) (nb : Rat → Nat) (szs : Rat → Rat) (E1 : Rat) (Esub : Nat → Rat)
    (cfg : RWCfg) (minH maxH : Rat) (E f : RWSel → Rat → Rat) (its : RWSel → List Rat) (brent : RWSel → Rat)
    (d : DesignG RWSel Bool) (tol c : Rat)
    (hres : findDesignG (searchRW Es nb szs E1 Esub cfg maxH) E minH maxH f its brent = .design d)
    (hwin : minH ≤ maxH)
    (hfeas : f d.field maxH < 0)
    (hnz : f d.field minH ≠ 0)
    (hb : 0 < f d.field minH → BrentSpec (f d.field) minH maxH tol (brent d.field))
    (hl : Lipschitz (f d.field) c minH maxH) (hct : 0 ≤ c * tol) :
    (rowwiseSearch Es nb szs E1 Esub cfg).1 = .selected d.field d.path ∧
    d.st.simAt = some d.st.H ∧ minH ≤ d.st.H ∧ d.st.H ≤ maxH ∧ f d.field d.st.H ≤ c * tol := by
  obtain ⟨⟨h, hsel⟩, rest⟩ := find_design_feasible _ E minH maxH f its brent d tol c hres hwin hfeas hnz hb hl hct
  refine ⟨?_, rest⟩
  unfold searchRW at hsel
  cases ho : (rowwiseSearch Es nb szs E1 Esub cfg).1 with
  | valueError => simp [ho] at hsel
  | selected fld esc => simp only [ho] at hsel; injection hsel with e1 _ e3; subst e1; subst e3; rfl


/-- Non-vacuity of the pipeline theorem: search (candidate 2), then a bracketed sizing whose Brent
    root is 110 m: the object ends at H = 110 with temperatures simulated at 110. -/
example :
    findDesign1D [1, 4, 9, 16] (fun i h => if h = 135 then (3 : Rat) - 2 * i else 10 - 2 * i)
      { cap := none, cont := false, maxIter := 15, minH := 60, maxH := 135 }
      (fun k h => (3 : Rat) - 2 * k + (135 - h) / 25) (fun _ => [100, 112]) (fun _ => 110)
      = .design { field := 2, path := .bisection, st := { H := 110, simAt := some 110, returned := 110 } } := by
  decide +kernel

/-- Non-vacuity of the nested corollary: list 1, candidate 2, bracketed sizing with Brent root 110 m. -/
example :
    findDesignG (searchOf2 (.selected 1 2 135)) (fun _ _ => (0 : Rat)) 60 135
      (fun _ h => (135 - h) / 25 - 1) (fun _ => [100, 112]) (fun _ => 110)
      = .design { field := (1, 2), path := (), st := { H := 110, simAt := some 110, returned := 110 } } := by
  decide +kernel

/-- Non-vacuity: a 4-candidate list with a decreasing excess; the search selects candidate 2. -/
example :
    (bisect1D [1, 4, 9, 16] (fun i h => if h = 135 then (3 : Rat) - 2 * i else 10 - 2 * i)
      { cap := none, cont := false, maxIter := 15, minH := 60, maxH := 135 }).1
      = .selected 2 135 .bisection := by decide +kernel

/-- "…and flow specification": every field a search evaluates (either copy of `retrieve_flow`,
    regenerated from search_routines.py) is handed to the GHE with the REQUESTED system flow — `v·N`
    for a per-borehole specification, `v` for a system specification — and `BaseGHE.__init__`
    then simulates each borehole with that system flow divided by the number of boreholes. -/
theorem evaluated_field_flow_as_requested (c : Flow.Copy) (v rho : Rat) (cs : List (Rat × Rat)) (h : cs ≠ []) :
    (∃ mb, Flow.retrieveFlow c .borehole v cs rho = .ok (v * (cs.length : Rat), mb) ∧
        Flow.baseGhe (v * (cs.length : Rat)) cs.length rho = .ok (v, Flow.massFlow v rho)) ∧
    (∃ mb, Flow.retrieveFlow c .system v cs rho = .ok (v, mb) ∧
        Flow.baseGhe v cs.length rho = .ok (v / (cs.length : Rat), Flow.massFlow (v / (cs.length : Rat)) rho)) := by
  have hn : cs.length ≠ 0 := by simpa using h
  have hq := Flow.length_cast_ne_zero h
  refine ⟨⟨_, Flow.retrieveFlow_borehole c v cs rho, ?_⟩, ⟨_, Flow.retrieveFlow_system c v cs rho h, ?_⟩⟩
  · simp [Flow.baseGhe, hn]
  · simp [Flow.baseGhe, hn]

end GHEVerif.C01
