/-
  C10 — Short-time radial g-function is conservative and physically consistent.
  Property theorems only; helper lemmas live in GHEVerif/Lemmas/Radial.lean.

  The model (Model/Radial.lean) is written once, polymorphically in the scalar type; the
  theorems below are about those same definitions over an arbitrary field of characteristic 0
  (cell table), an arbitrary ordered field with any `log` satisfying `log(a/b) = log a - log b`
  on positives (layer resistances; instantiated at ℝ with `Real.log`), and an arbitrary ordered
  field (time stepping).  `Float` rounding is not reasoned about: the harness runs the `Float`
  instantiation against numpy/LAPACK.

  The time-stepping theorems (4)-(5) are about ANY exact solution `T'` of the assembled tridiagonal
  system `SolvesTri (assemble …).dl (assemble …).d (assemble …).du (rhs …) T'` — the lists the
  model (and, as measured by the harness to 1e-12, the code) hands to LAPACK `dgtsv`.  A cell
  list is written `(List.range (m+2)).map c` with `c : ℕ → Cell K` arbitrary; every list of
  length `m+2` has this form (`Radial.list_eq_range_map`).

  Theorems (6)-(10) close the loop: the model's own elimination `triSolve` returns an exact solution
  (strict diagonal dominance from positive coefficients), positivity of all coefficients follows from
  valid inputs, so (4)-(5) hold for the temperatures the model's loop actually computes (`modelTraj`).

  Cell counts, far-field radius, initial temperature, … are `GHEVerif.Gen.Radial.*`,
  regenerated from radial_numerical_borehole.py on every check.
-/
import GHEVerif.Lemmas.Radial
import Mathlib.Analysis.SpecialFunctions.Log.Basic

namespace GHEVerif.C10
open GHEVerif GHEVerif.Radial List

/-- The counts written in the source are all positive (a region with 0 cells would tear the
    tiling) and add up to 535 cells with the borehole wall at index 35. -/
theorem gen_counts_positive : genCounts.Pos ∧ genCounts.total = 535 ∧ genCounts.bhWall = 35 ∧
    2 ≤ Gen.Radial.numIntervals :=
  ⟨by unfold Counts.Pos; decide, by decide, by decide, by decide⟩

/-- (1) The cells tile `[r_fluid, r_far_field]` without gaps, for any field of characteristic 0,
    any value used for `sqrt 2`, any positive cell counts: as many cells as `num_cells`,
    `r_out i = r_in (i+1)`, the first cell starts at `r_fluid`, the last ends at the far-field
    radius, the regions start at `r_conv, r_in_tube, r_out_tube = sqrt2·r_po, r_borehole`, and every
    centre is the midpoint. -/
theorem cells_tile {K : Type} [Field K] [CharZero K] (E : Env K) (C : Counts) (hC : C.Pos)
    (x : Inputs K) (rf rpg : K) :
    (fillRadialCellsCore E C x rf rpg).length = C.total ∧
    (∀ i (h : i + 1 < (fillRadialCellsCore E C x rf rpg).length),
        (fillRadialCellsCore E C x rf rpg)[i].rOut = (fillRadialCellsCore E C x rf rpg)[i + 1].rIn) ∧
    (∀ c ∈ (fillRadialCellsCore E C x rf rpg).head?, c.rIn = (geometry E C x).rFluid) ∧
    (∀ c ∈ (fillRadialCellsCore E C x rf rpg).getLast?, c.rOut = ((Gen.Radial.rFarField : ℕ) : K)) ∧
    ((fillRadialCellsCore E C x rf rpg)[C.nFluid]?.map (·.rIn) = some (geometry E C x).rConv) ∧
    ((fillRadialCellsCore E C x rf rpg)[C.nFluid + C.nConv]?.map (·.rIn) = some (geometry E C x).rInTube) ∧
    ((fillRadialCellsCore E C x rf rpg)[C.nFluid + C.nConv + C.nPipe]?.map (·.rIn) = some (E.sqrt2 * x.rPo)) ∧
    ((fillRadialCellsCore E C x rf rpg)[C.bhWall]?.map (·.rIn) = some x.rB) ∧
    (∀ c ∈ fillRadialCellsCore E C x rf rpg, c.rC = (c.rIn + c.rOut) / 2) := by
  obtain ⟨s1, s2, s3, s4⟩ := core_region_starts E C hC x rf rpg
  exact ⟨core_length E C x rf rpg, fun i h => (core_chain E C hC x rf rpg).getElem i h,
    core_head E C hC x rf rpg, core_last E C hC x rf rpg, s1, s2, s3, s4, core_center E C x rf rpg⟩

/-- (1') The same for the function with Python's exception checks and the source's counts:
    whenever `fill_radial_cells` returns a table, it is the tiled table of 535 cells. -/
theorem cells_tile_checked {K : Type} [Field K] [CharZero K] (E : Env K) (x : Inputs K) (rf rpg : K)
    (cells : List (Cell K)) (h : fillRadialCells E genCounts x rf rpg = .ok cells) :
    cells.length = 535 ∧ (∀ i (h : i + 1 < cells.length), cells[i].rOut = cells[i + 1].rIn) ∧
    (∀ c ∈ cells.head?, c.rIn = (geometry E genCounts x).rFluid) ∧
    (∀ c ∈ cells.getLast?, c.rOut = ((Gen.Radial.rFarField : ℕ) : K)) ∧
    (cells[35]?.map (·.rIn) = some x.rB) := by
  have hC : genCounts.Pos := gen_counts_positive.1
  rw [fillRadialCells_ok E genCounts x rf rpg cells h]
  obtain ⟨a, b, c, d, _, _, _, e, _⟩ := cells_tile E genCounts hC x rf rpg
  exact ⟨by rw [a]; exact gen_counts_positive.2.1, b, c, d, e⟩

/-- (2) The fluid cells carry exactly the thermal mass of the fluid in both pipe legs:
    `Σ ρc_p·V = 2π r_pi² (ρc_p)_fluid` (the volumes telescope to `π(r_conv² − r_fluid²)`, which
    cancels the denominator of the equivalent heat capacity). -/
theorem fluid_thermal_mass {K : Type} [Field K] [CharZero K] (E : Env K) (C : Counts) (hC : C.Pos)
    (x : Inputs K) (rf rpg : K)
    (hden : (geometry E C x).rConv * (geometry E C x).rConv - (geometry E C x).rFluid * (geometry E C x).rFluid ≠ 0) :
    (((fillRadialCellsCore E C x rf rpg).take C.nFluid).map (fun c => c.rhoCp * c.vol)).sum
      = 2 * E.pi * (x.rPi * x.rPi) * x.rcFluid := by
  have c1 : (C.nFluid : K) ≠ 0 := by exact_mod_cast hC.1.ne'
  rw [core_take_fluid, regionCells_mass_sum]
  have t1 : (geometry E C x).thFluid = ((geometry E C x).rConv - (geometry E C x).rFluid) / (C.nFluid : K) := rfl
  have e1 : (geometry E C x).rFluid + (C.nFluid : K) * (geometry E C x).thFluid = (geometry E C x).rConv := by
    rw [t1]; field_simp; ring
  rw [e1]
  unfold rhoCpEqFluid
  have hden' : (geometry E C x).rConv ^ 2 - (geometry E C x).rFluid ^ 2 ≠ 0 := by simpa [sq] using hden
  push_cast
  field_simp

/-- (3) The layers between the fluid and the borehole wall sum to the effective borehole
    resistance: `Σ_{conv,pipe,grout cells} ln(r_out/r_in)/(2π k_cell) = R_f/2 + (R_b − R_f/2) = R_b`,
    over any ordered field and any `log` with `log(a/b) = log a − log b` on positives. -/
theorem layers_sum_to_Rb {K : Type} [Field K] [LinearOrder K] [IsStrictOrderedRing K]
    (E : Env K) (hlog : LogDiv E) (C : Counts) (hC : C.Pos) (x : Inputs K)
    (h0 : 0 < (geometry E C x).rConv) (h1 : (geometry E C x).rConv < (geometry E C x).rInTube)
    (h2 : (geometry E C x).rInTube ≤ (geometry E C x).rOutTube) (h3 : (geometry E C x).rOutTube ≤ x.rB)
    (hl1 : E.log ((geometry E C x).rInTube / (geometry E C x).rConv) ≠ 0)
    (hl2 : E.log (x.rB / (geometry E C x).rInTube) ≠ 0)
    (hpi : E.pi ≠ 0) (hrf : x.Rf ≠ 0) (hrpg : x.Rb - x.Rf / 2 ≠ 0) :
    ((((fillRadialCellsCore E C x (x.Rf / 2) (x.Rb - x.Rf / 2)).drop C.nFluid).take (C.nConv + C.nPipe + C.nGrout)).map
        (fun c => E.log (c.rOut / c.rIn) / (2 * E.pi * c.k))).sum = x.Rb := by
  have h := core_layers_sum E hlog C hC x (x.Rf / 2) (x.Rb - x.Rf / 2) h0 h1 h2 h3 hl1 hl2 hpi
    (div_ne_zero hrf two_ne_zero) hrpg
  have e : (fun c : Cell K => E.log (c.rOut / c.rIn) / (2 * E.pi * c.k)) = layerR E := by
    funext c; simp [layerR, twoPi]
  rw [e, h]; ring

/-- (3, over ℝ) With `Real.log` and a valid geometry (`0 < r_conv < r_in_tube ≤ r_out_tube ≤ r_b`,
    `r_in_tube < r_b`, non-zero resistances) the hypotheses on `log` are discharged. -/
theorem layers_sum_to_Rb_real (E : Env ℝ) (hE : E.log = Real.log) (C : Counts) (hC : C.Pos) (x : Inputs ℝ)
    (h0 : 0 < (geometry E C x).rConv) (h1 : (geometry E C x).rConv < (geometry E C x).rInTube)
    (h2 : (geometry E C x).rInTube ≤ (geometry E C x).rOutTube) (h3 : (geometry E C x).rOutTube ≤ x.rB)
    (h4 : (geometry E C x).rInTube < x.rB)
    (hpi : E.pi ≠ 0) (hrf : x.Rf ≠ 0) (hrpg : x.Rb - x.Rf / 2 ≠ 0) :
    ((((fillRadialCellsCore E C x (x.Rf / 2) (x.Rb - x.Rf / 2)).drop C.nFluid).take (C.nConv + C.nPipe + C.nGrout)).map
        (fun c => Real.log (c.rOut / c.rIn) / (2 * E.pi * c.k))).sum = x.Rb := by
  have hlog : LogDiv E := by
    intro a b ha hb; rw [hE]; exact Real.log_div ha.ne' hb.ne'
  have hIn : 0 < (geometry E C x).rInTube := lt_trans h0 h1
  have hl1 : E.log ((geometry E C x).rInTube / (geometry E C x).rConv) ≠ 0 := by
    rw [hE]; exact (Real.log_pos ((one_lt_div h0).mpr h1)).ne'
  have hl2 : E.log (x.rB / (geometry E C x).rInTube) ≠ 0 := by
    rw [hE]; exact (Real.log_pos ((one_lt_div hIn).mpr h4)).ne'
  have := layers_sum_to_Rb E hlog C hC x h0 h1 h2 h3 hl1 hl2 hpi hrf hrpg
  rw [hE] at this; exact this

/-- (4a) The conductance the code assembles on the east side of a cell is minus the one it
    assembles on the west side of its east neighbour (`ae i = −aw (i+1)`, and the scalar `ae` of
    cell 0 is `−aw` of cell 1): the fact a west/east slip breaks. -/
theorem conductance_symmetric {K : Type} [Field K] (E : Env K) (m : ℕ) (dt : K) (c : ℕ → Cell K) :
    (∀ i, i + 1 < m →
      (assemble E (m + 2) dt ((List.range (m + 2)).map c)).aw.getD (i + 1) 0
        = -(assemble E (m + 2) dt ((List.range (m + 2)).map c)).ae.getD i 0) ∧
    (0 < m → (assemble E (m + 2) dt ((List.range (m + 2)).map c)).aw.getD 0 0
        = -(assemble E (m + 2) dt ((List.range (m + 2)).map c)).ae0) := by
  obtain ⟨h0, _, he, hw, _⟩ := assemble_range E m dt c
  rw [he, hw, h0]
  constructor
  · intro i hi
    rw [getD_range_map _ _ _ (by omega), getD_range_map _ _ _ (by omega)]
  · intro hm
    rw [getD_range_map _ _ _ hm]

/-- (4b) Energy balance of one implicit step, an exact identity for non-zero heat capacities: any
    `T'` solving the assembled system satisfies
    `Σ_{i<n−1} C_i (T'_i − T_i) = q·Δt − ae_{n−2} (T'_{n−2} − T'_{n−1})·Δt`, `C_i = ρc_p V`. -/
theorem energy_balance {K : Type} [Field K] (E : Env K) (m : ℕ) (dt q : K) (c : ℕ → Cell K) (t t' : ℕ → K)
    (hdt : dt ≠ 0) (hcap : ∀ i, i ≤ m → (c i).rhoCp * (c i).vol ≠ 0)
    (h : SolvesTri (assemble E (m + 2) dt ((List.range (m + 2)).map c)).dl
            (assemble E (m + 2) dt ((List.range (m + 2)).map c)).d
            (assemble E (m + 2) dt ((List.range (m + 2)).map c)).du
            (rhs (m + 2) q (assemble E (m + 2) dt ((List.range (m + 2)).map c)).ad0 ((List.range (m + 2)).map t))
            ((List.range (m + 2)).map t')) :
    ∑ i ∈ Finset.range (m + 1), (c i).rhoCp * (c i).vol * (t' i - t i)
      = q * dt - cond E (c m) (c (m + 1)) * (t' m - t' (m + 1)) * dt := by
  have hs := solvesTri_stepEq E m dt q c t t' h
  have ha : ∀ i, i ≤ m → capRate dt (c i) ≠ 0 := fun i hi => div_ne_zero (hcap i hi) hdt
  have e := hs.energy ha
  have : ∑ i ∈ Finset.range (m + 1), (c i).rhoCp * (c i).vol * (t' i - t i)
      = dt * ∑ i ∈ Finset.range (m + 1), capRate dt (c i) * (t' i - t i) := by
    rw [Finset.mul_sum]
    apply Finset.sum_congr rfl
    intro i _; unfold capRate; field_simp
  rw [this, e]; ring

/-- (4c) Summed over `N` steps: stored = injected − leak, the leak being the flux into the fixed
    far-field cell. -/
theorem energy_balance_steps {K : Type} [Field K] (E : Env K) (m : ℕ) (dt q : K) (c : ℕ → Cell K)
    (Tk : ℕ → ℕ → K) (N : ℕ) (hdt : dt ≠ 0) (hcap : ∀ i, i ≤ m → (c i).rhoCp * (c i).vol ≠ 0)
    (h : ∀ k, k < N → SolvesTri (assemble E (m + 2) dt ((List.range (m + 2)).map c)).dl
            (assemble E (m + 2) dt ((List.range (m + 2)).map c)).d
            (assemble E (m + 2) dt ((List.range (m + 2)).map c)).du
            (rhs (m + 2) q (assemble E (m + 2) dt ((List.range (m + 2)).map c)).ad0 ((List.range (m + 2)).map (Tk k)))
            ((List.range (m + 2)).map (Tk (k + 1)))) :
    ∑ i ∈ Finset.range (m + 1), (c i).rhoCp * (c i).vol * (Tk N i - Tk 0 i)
      = (N : K) * q * dt
        - (∑ k ∈ Finset.range N, cond E (c m) (c (m + 1)) * (Tk (k + 1) m - Tk (k + 1) (m + 1))) * dt := by
  have ha : ∀ i, i ≤ m → capRate dt (c i) ≠ 0 := fun i hi => div_ne_zero (hcap i hi) hdt
  have e := energy_over_steps (κ := fun i => cond E (c i) (c (i + 1))) (a := fun i => capRate dt (c i)) (q := q) Tk N
    (fun k hk => solvesTri_stepEq E m dt q c (Tk k) (Tk (k + 1)) (h k hk)) ha
  have : ∑ i ∈ Finset.range (m + 1), (c i).rhoCp * (c i).vol * (Tk N i - Tk 0 i)
      = dt * ∑ i ∈ Finset.range (m + 1), capRate dt (c i) * (Tk N i - Tk 0 i) := by
    rw [Finset.mul_sum]
    apply Finset.sum_congr rfl
    intro i _; unfold capRate; field_simp
  rw [this, e]; ring

/-- (5a) Discrete maximum principle: positive conductances and capacities, flux `q ≥ 0`, uniform
    initial temperature `T0`; then along ANY sequence of `N` exact solutions of the assembled system
    (any `N`) every cell temperature is non-decreasing from step to step and never below `T0`. -/
theorem discrete_max_principle {K : Type} [Field K] [LinearOrder K] [IsStrictOrderedRing K]
    (E : Env K) (m : ℕ) (dt q T0 : K) (c : ℕ → Cell K) (Tk : ℕ → ℕ → K) (N : ℕ)
    (hκ : ∀ i, i ≤ m → 0 < cond E (c i) (c (i + 1))) (ha : ∀ i, i ≤ m → 0 < capRate dt (c i)) (hq : 0 ≤ q)
    (hinit : ∀ i, i ≤ m + 1 → Tk 0 i = T0)
    (h : ∀ k, k < N → SolvesTri (assemble E (m + 2) dt ((List.range (m + 2)).map c)).dl
            (assemble E (m + 2) dt ((List.range (m + 2)).map c)).d
            (assemble E (m + 2) dt ((List.range (m + 2)).map c)).du
            (rhs (m + 2) q (assemble E (m + 2) dt ((List.range (m + 2)).map c)).ad0 ((List.range (m + 2)).map (Tk k)))
            ((List.range (m + 2)).map (Tk (k + 1)))) :
    ∀ k, k < N → ∀ i, i ≤ m + 1 → Tk k i ≤ Tk (k + 1) i ∧ T0 ≤ Tk k i :=
  monotone_in_time Tk T0 N (fun k hk => solvesTri_stepEq E m dt q c (Tk k) (Tk (k + 1)) (h k hk)) hκ ha hq hinit

/-- (5b) Hence the quantities the code appends per step, `g = c0·((T_fluid − T0)/q − R_b)` and
    `g_bhw = c0·((T_wall − T0)/q)` with `c0 = 2πk > 0`, `q > 0`, are non-decreasing in time,
    `g_bhw ≥ 0` and `g ≥ −c0·R_b = −2πk R_b`. -/
theorem g_monotone_and_bounded {K : Type} [Field K] [LinearOrder K] [IsStrictOrderedRing K]
    (E : Env K) (m : ℕ) (dt q T0 c0 rb : K) (bh : ℕ) (hbh : bh ≤ m + 1) (c : ℕ → Cell K) (Tk : ℕ → ℕ → K) (N : ℕ)
    (hκ : ∀ i, i ≤ m → 0 < cond E (c i) (c (i + 1))) (ha : ∀ i, i ≤ m → 0 < capRate dt (c i)) (hq : 0 < q)
    (hc0 : 0 < c0) (hinit : ∀ i, i ≤ m + 1 → Tk 0 i = T0)
    (h : ∀ k, k < N → SolvesTri (assemble E (m + 2) dt ((List.range (m + 2)).map c)).dl
            (assemble E (m + 2) dt ((List.range (m + 2)).map c)).d
            (assemble E (m + 2) dt ((List.range (m + 2)).map c)).du
            (rhs (m + 2) q (assemble E (m + 2) dt ((List.range (m + 2)).map c)).ad0 ((List.range (m + 2)).map (Tk k)))
            ((List.range (m + 2)).map (Tk (k + 1)))) (k : ℕ) (hk : k < N) :
    c0 * ((Tk k 0 - T0) / q - rb) ≤ c0 * ((Tk (k + 1) 0 - T0) / q - rb) ∧
    -(c0 * rb) ≤ c0 * ((Tk k 0 - T0) / q - rb) ∧
    c0 * ((Tk k bh - T0) / q) ≤ c0 * ((Tk (k + 1) bh - T0) / q) ∧
    0 ≤ c0 * ((Tk k bh - T0) / q) := by
  have mp := discrete_max_principle E m dt q T0 c Tk N hκ ha hq.le hinit h
  obtain ⟨f1, f2⟩ := mp k hk 0 (by omega)
  obtain ⟨w1, w2⟩ := mp k hk bh hbh
  have d1 : (Tk k 0 - T0) / q ≤ (Tk (k + 1) 0 - T0) / q := div_le_div_of_nonneg_right (by linarith) hq.le
  have d2 : 0 ≤ (Tk k 0 - T0) / q := div_nonneg (by linarith) hq.le
  have d3 : (Tk k bh - T0) / q ≤ (Tk (k + 1) bh - T0) / q := div_le_div_of_nonneg_right (by linarith) hq.le
  have d4 : 0 ≤ (Tk k bh - T0) / q := div_nonneg (by linarith) hq.le
  refine ⟨mul_le_mul_of_nonneg_left (by linarith) hc0.le, ?_, mul_le_mul_of_nonneg_left d3 hc0.le, mul_nonneg hc0.le d4⟩
  have : 0 ≤ c0 * ((Tk k 0 - T0) / q) := mul_nonneg hc0.le d2
  linarith

/-- (5, hypotheses) Over ℝ with `Real.log`, `π > 0`: between two cells with positive radii,
    `r_c < r_out` resp. `r_in < r_c` and positive conductivities the assembled conductance is
    positive; a cell with positive heat capacity and volume has positive `ad` for `Δt > 0`. -/
theorem coefficients_positive_real (E : Env ℝ) (hE : E.log = Real.log) (hpi : 0 < E.pi) (a b : Cell ℝ) (dt : ℝ)
    (ha : 0 < a.rC ∧ a.rC < a.rOut ∧ 0 < a.k) (hb : 0 < b.rIn ∧ b.rIn < b.rC ∧ 0 < b.k)
    (hcap : 0 < a.rhoCp ∧ 0 < a.vol) (hdt : 0 < dt) :
    0 < cond E a b ∧ 0 < capRate dt a := by
  have tp : 0 < twoPi E := by unfold twoPi; push_cast; linarith
  have h1 : 0 < half1 E a := by
    unfold half1; rw [hE]
    exact div_pos (Real.log_pos ((one_lt_div ha.1).mpr ha.2.1)) (mul_pos tp ha.2.2)
  have h2 : 0 < half2 E b := by
    unfold half2; rw [hE]
    exact div_pos (Real.log_pos ((one_lt_div hb.1).mpr hb.2.1)) (mul_pos tp hb.2.2)
  exact ⟨by unfold Radial.cond; exact one_div_pos.mpr (add_pos h1 h2), by unfold capRate; exact div_pos (mul_pos hcap.1 hcap.2) hdt⟩

/-- (5c) The 30-point resampling (`numpy.linspace` + `numpy.interp`, as `interp1d` does) of a
    non-decreasing table over strictly increasing abscissae is non-decreasing and stays within
    the table's range — so the resampled `g`, `g_bhw` inherit (5b). -/
theorem resample_monotone {K : Type} [Field K] [LinearOrder K] [IsStrictOrderedRing K]
    (E : Env K) (hle : LeSpec E) (xs ys : List K) (x0 y0 : K) (num : ℕ) (hnum : 2 ≤ num)
    (hl : xs.length = ys.length) (hx : IsChain (· < ·) (x0 :: xs)) (hy : IsChain (· ≤ ·) (y0 :: ys))
    (u v : List K) (h : resample E (x0 :: xs) (y0 :: ys) num = .ok (u, v)) :
    IsChain (· ≤ ·) v ∧ ∀ w ∈ v, y0 ≤ w ∧ w ≤ lastOf y0 ys :=
  resample_mono E hle xs ys x0 y0 num hnum hl hx hy u v h

/-- (6) The model's own tridiagonal elimination (`triSolve`: `factorGo`, `fwdGo`, `backGo`) returns an
    EXACT solution of the system it assembled, for every right-hand side, whenever conductances and
    capacities are positive (strict row diagonal dominance ⇒ no zero pivot; induction over the rows). -/
theorem triSolve_exact {K : Type} [Field K] [LinearOrder K] [IsStrictOrderedRing K]
    (E : Env K) (m : ℕ) (dt : K) (c : ℕ → Cell K) (b : List K) (hb : b.length = m + 2)
    (hκ : ∀ i, i ≤ m → 0 < Radial.cond E (c i) (c (i + 1))) (ha : ∀ i, i ≤ m → 0 < capRate dt (c i)) :
    SolvesTri (assemble E (m + 2) dt ((List.range (m + 2)).map c)).dl
      (assemble E (m + 2) dt ((List.range (m + 2)).map c)).d
      (assemble E (m + 2) dt ((List.range (m + 2)).map c)).du b
      (triSolve (assemble E (m + 2) dt ((List.range (m + 2)).map c)).dl
        (assemble E (m + 2) dt ((List.range (m + 2)).map c)).d
        (assemble E (m + 2) dt ((List.range (m + 2)).map c)).du b) :=
  triSolve_solves_assembled E m dt c b hb hκ ha

/-- (6') In general: the elimination is exact for any tridiagonal system none of whose pivots
    vanishes, and strict row diagonal dominance `|l| + |u| < |d|` excludes a zero pivot. -/
theorem triSolve_exact_of_dominance {K : Type} [Field K] [LinearOrder K] [IsStrictOrderedRing K]
    (dl d du b : List K) (hdl : dl.length + 1 = d.length) (hdu : du.length + 1 = d.length) (hb : b.length = d.length)
    (hdom : ∀ r ∈ rowsOf dl d du, |r.1| + |r.2.2| < |r.2.1|) :
    SolvesTri dl d du b (triSolve dl d du b) :=
  triSolve_solves_of_pivots dl d du b hdl hdu hb (by
    unfold factor; exact pivots_ne_zero _ _ _ (by simp) hdom)

/-- (7) What the model ACTUALLY computes (`modelTraj k` = temperatures after `k` passes of its loop
    body `solveFac fac (rhs …)`), for positive conductances/capacities, `q > 0`, uniform start `T0`:
    energy balance over any number of steps, every temperature non-decreasing and `≥ T0`, and the
    appended `g`, `g_bhw` non-decreasing with `g_bhw ≥ 0`, `g ≥ −c0·R_b`. -/
theorem model_trajectory {K : Type} [Field K] [LinearOrder K] [IsStrictOrderedRing K]
    (E : Env K) (m : ℕ) (dt q T0 c0 rb : K) (bh : ℕ) (hbh : bh ≤ m + 1) (c : ℕ → Cell K) (Tinit : List K)
    (hlen : Tinit.length = m + 2) (hinit : ∀ i, i ≤ m + 1 → Tinit.getD i 0 = T0)
    (hκ : ∀ i, i ≤ m → 0 < Radial.cond E (c i) (c (i + 1))) (ha : ∀ i, i ≤ m → 0 < capRate dt (c i))
    (hdt : 0 < dt) (hq : 0 < q) (hc0 : 0 < c0) :
    (∀ N : ℕ, ∑ i ∈ Finset.range (m + 1), (c i).rhoCp * (c i).vol
          * ((modelTraj E m dt q c Tinit N).getD i 0 - (modelTraj E m dt q c Tinit 0).getD i 0)
        = (N : K) * q * dt - (∑ k ∈ Finset.range N, Radial.cond E (c m) (c (m + 1))
            * ((modelTraj E m dt q c Tinit (k + 1)).getD m 0 - (modelTraj E m dt q c Tinit (k + 1)).getD (m + 1) 0)) * dt) ∧
    (∀ k i, i ≤ m + 1 → (modelTraj E m dt q c Tinit k).getD i 0 ≤ (modelTraj E m dt q c Tinit (k + 1)).getD i 0
        ∧ T0 ≤ (modelTraj E m dt q c Tinit k).getD i 0) ∧
    (∀ k, c0 * (((modelTraj E m dt q c Tinit k).getD 0 0 - T0) / q - rb)
          ≤ c0 * (((modelTraj E m dt q c Tinit (k + 1)).getD 0 0 - T0) / q - rb) ∧
        -(c0 * rb) ≤ c0 * (((modelTraj E m dt q c Tinit k).getD 0 0 - T0) / q - rb) ∧
        c0 * (((modelTraj E m dt q c Tinit k).getD bh 0 - T0) / q)
          ≤ c0 * (((modelTraj E m dt q c Tinit (k + 1)).getD bh 0 - T0) / q) ∧
        0 ≤ c0 * (((modelTraj E m dt q c Tinit k).getD bh 0 - T0) / q)) := by
  have hs := fun k => modelTraj_solves E m dt q c Tinit hlen hκ ha k
  have hcap : ∀ i, i ≤ m → (c i).rhoCp * (c i).vol ≠ 0 := by
    intro i hi h0
    have := ha i hi
    unfold capRate at this
    rw [h0, zero_div] at this
    exact lt_irrefl _ this
  have h0 : ∀ i, i ≤ m + 1 → (modelTraj E m dt q c Tinit 0).getD i 0 = T0 := by
    intro i hi; simpa [modelTraj] using hinit i hi
  refine ⟨fun N => ?_, fun k i hi => ?_, fun k => ?_⟩
  · exact energy_balance_steps E m dt q c (fun k i => (modelTraj E m dt q c Tinit k).getD i 0) N hdt.ne' hcap
      (fun k _ => hs k)
  · exact discrete_max_principle E m dt q T0 c (fun k i => (modelTraj E m dt q c Tinit k).getD i 0) (k + 1) hκ ha hq.le h0
      (fun k _ => hs k) k (by omega) i hi
  · exact g_monotone_and_bounded E m dt q T0 c0 rb bh hbh c (fun k i => (modelTraj E m dt q c Tinit k).getD i 0) (k + 1)
      hκ ha hq hc0 h0 (fun k _ => hs k) k (by omega)


/-- (8) Positivity for the WHOLE cell table from the inputs: for valid inputs (`ValidInputs`: π > 0,
    positive counts, `0 < r_fluid`, `r_pi < r_po`, `sqrt2·r_po < r_b < r_far`, positive resistances,
    conductivity and capacities) and any `log` positive above 1, every cell is well-formed and every
    conductance / capacity rate of the assembled system is positive. -/
theorem table_coefficients_positive {K : Type} [Field K] [LinearOrder K] [IsStrictOrderedRing K]
    (E : Env K) (hlog : LogPos E) (C : Counts) (x : Inputs K) (rf rpg dt : K)
    (hv : ValidInputs E C x rf rpg) (hdt : 0 < dt) (dflt : Cell K) :
    (∀ c ∈ fillRadialCellsCore E C x rf rpg, CellOK c) ∧
    (∀ i, i + 1 < (fillRadialCellsCore E C x rf rpg).length →
      0 < Radial.cond E ((fillRadialCellsCore E C x rf rpg).getD i dflt) ((fillRadialCellsCore E C x rf rpg).getD (i + 1) dflt)) ∧
    (∀ i, i < (fillRadialCellsCore E C x rf rpg).length →
      0 < capRate dt ((fillRadialCellsCore E C x rf rpg).getD i dflt)) :=
  ⟨core_cells_ok E hlog C x rf rpg hv, core_coefficients_pos E hlog C x rf rpg dt hv hdt dflt⟩

/-- `Real.log` is positive above 1. -/
theorem real_log_pos (E : Env ℝ) (hE : E.log = Real.log) : LogPos E := by
  intro x hx; rw [hE]; exact Real.log_pos hx

/-- (9) Capstone: for valid inputs, on the table `fill_radial_cells` builds and from its uniform initial
    temperatures, the temperatures the model's loop actually computes obey the energy balance, are
    non-decreasing and ≥ the initial temperature, and `g`, `g_bhw` are non-decreasing with
    `g_bhw ≥ 0`, `g ≥ −c0·R_b` — no hypothesis about the solve or the coefficients is left. -/
theorem model_response_valid_inputs {K : Type} [Field K] [LinearOrder K] [IsStrictOrderedRing K]
    (E : Env K) (hlog : LogPos E) (C : Counts) (x : Inputs K) (rf rpg : K) (hv : ValidInputs E C x rf rpg)
    (m : ℕ) (hm : C.total = m + 2) (dt q c0 rb : K) (bh : ℕ) (hbh : bh ≤ m + 1)
    (hdt : 0 < dt) (hq : 0 < q) (hc0 : 0 < c0) (dflt : Cell K) :
    (List.range (m + 2)).map (fun i => (fillRadialCellsCore E C x rf rpg).getD i dflt) = fillRadialCellsCore E C x rf rpg ∧
    (∀ N : ℕ, ∑ i ∈ Finset.range (m + 1),
          ((fillRadialCellsCore E C x rf rpg).getD i dflt).rhoCp * ((fillRadialCellsCore E C x rf rpg).getD i dflt).vol
          * ((modelTraj E m dt q (fun i => (fillRadialCellsCore E C x rf rpg).getD i dflt)
                ((fillRadialCellsCore E C x rf rpg).map (·.temp)) N).getD i 0
             - (modelTraj E m dt q (fun i => (fillRadialCellsCore E C x rf rpg).getD i dflt)
                ((fillRadialCellsCore E C x rf rpg).map (·.temp)) 0).getD i 0)
        = (N : K) * q * dt - (∑ k ∈ Finset.range N,
            Radial.cond E ((fillRadialCellsCore E C x rf rpg).getD m dflt) ((fillRadialCellsCore E C x rf rpg).getD (m + 1) dflt)
            * ((modelTraj E m dt q (fun i => (fillRadialCellsCore E C x rf rpg).getD i dflt)
                  ((fillRadialCellsCore E C x rf rpg).map (·.temp)) (k + 1)).getD m 0
               - (modelTraj E m dt q (fun i => (fillRadialCellsCore E C x rf rpg).getD i dflt)
                  ((fillRadialCellsCore E C x rf rpg).map (·.temp)) (k + 1)).getD (m + 1) 0)) * dt) ∧
    (∀ k i, i ≤ m + 1 →
        (modelTraj E m dt q (fun i => (fillRadialCellsCore E C x rf rpg).getD i dflt)
            ((fillRadialCellsCore E C x rf rpg).map (·.temp)) k).getD i 0
          ≤ (modelTraj E m dt q (fun i => (fillRadialCellsCore E C x rf rpg).getD i dflt)
            ((fillRadialCellsCore E C x rf rpg).map (·.temp)) (k + 1)).getD i 0
        ∧ ((Gen.Radial.initTemp : ℕ) : K)
          ≤ (modelTraj E m dt q (fun i => (fillRadialCellsCore E C x rf rpg).getD i dflt)
            ((fillRadialCellsCore E C x rf rpg).map (·.temp)) k).getD i 0) ∧
    (∀ k, c0 * (((modelTraj E m dt q (fun i => (fillRadialCellsCore E C x rf rpg).getD i dflt)
              ((fillRadialCellsCore E C x rf rpg).map (·.temp)) k).getD 0 0 - ((Gen.Radial.initTemp : ℕ) : K)) / q - rb)
          ≤ c0 * (((modelTraj E m dt q (fun i => (fillRadialCellsCore E C x rf rpg).getD i dflt)
              ((fillRadialCellsCore E C x rf rpg).map (·.temp)) (k + 1)).getD 0 0 - ((Gen.Radial.initTemp : ℕ) : K)) / q - rb) ∧
        -(c0 * rb) ≤ c0 * (((modelTraj E m dt q (fun i => (fillRadialCellsCore E C x rf rpg).getD i dflt)
              ((fillRadialCellsCore E C x rf rpg).map (·.temp)) k).getD 0 0 - ((Gen.Radial.initTemp : ℕ) : K)) / q - rb) ∧
        c0 * (((modelTraj E m dt q (fun i => (fillRadialCellsCore E C x rf rpg).getD i dflt)
              ((fillRadialCellsCore E C x rf rpg).map (·.temp)) k).getD bh 0 - ((Gen.Radial.initTemp : ℕ) : K)) / q)
          ≤ c0 * (((modelTraj E m dt q (fun i => (fillRadialCellsCore E C x rf rpg).getD i dflt)
              ((fillRadialCellsCore E C x rf rpg).map (·.temp)) (k + 1)).getD bh 0 - ((Gen.Radial.initTemp : ℕ) : K)) / q) ∧
        0 ≤ c0 * (((modelTraj E m dt q (fun i => (fillRadialCellsCore E C x rf rpg).getD i dflt)
              ((fillRadialCellsCore E C x rf rpg).map (·.temp)) k).getD bh 0 - ((Gen.Radial.initTemp : ℕ) : K)) / q)) := by
  have hlen : (fillRadialCellsCore E C x rf rpg).length = m + 2 := by rw [core_length, hm]
  obtain ⟨hk, hcap⟩ := core_coefficients_pos E hlog C x rf rpg dt hv hdt dflt
  have e := list_eq_range_map (fillRadialCellsCore E C x rf rpg) dflt
  rw [hlen] at e
  have hinit : ∀ i, i ≤ m + 1 → ((fillRadialCellsCore E C x rf rpg).map (·.temp)).getD i 0 = ((Gen.Radial.initTemp : ℕ) : K) := by
    intro i hi
    have hi' : i < ((fillRadialCellsCore E C x rf rpg).map (·.temp)).length := by simp [hlen]; omega
    rw [List.getD_eq_getElem _ _ hi', List.getElem_map]
    exact core_temp E C x rf rpg _ (List.getElem_mem _)
  exact ⟨e.symm, model_trajectory E m dt q _ c0 rb bh hbh _ _ (by simp [hlen]) hinit
    (fun i hi => hk i (by rw [hlen]; omega)) (fun i hi => hcap i (by rw [hlen]; omega)) hdt hq hc0⟩

/-- (10) The loop body of `calc_sts_g_functions` in the model (`stepOnce` with the factorisation
    `calcSts` passes in) updates the temperatures by `modelStep`, i.e. `modelTraj` is the sequence of
    temperature lists the model's `while` loop goes through, and the `g`, `g_bhw` it appends are the
    expressions of (7)/(9) at the new temperatures. -/
theorem loop_body_is_modelStep {K : Type} [Field K] [LinearOrder K] [IsStrictOrderedRing K]
    (E : Env K) (m bhIdx : ℕ) (dt q tS c0 rb : K) (c : ℕ → Cell K) (s s' : LoopState K)
    (h : stepOnce E (m + 2) bhIdx
          (factor (rowsOf (assemble E (m + 2) dt ((List.range (m + 2)).map c)).dl
                          (assemble E (m + 2) dt ((List.range (m + 2)).map c)).d
                          (assemble E (m + 2) dt ((List.range (m + 2)).map c)).du))
          (assemble E (m + 2) dt ((List.range (m + 2)).map c)).ad0 q dt tS c0 rb s = .ok s') :
    s'.T = modelStep E m dt q c s.T ∧
    s'.g = c0 * ((s'.T.headD 0 - ((Gen.Radial.initTemp : ℕ) : K)) / q - rb) :: s.g ∧
    s'.gBhw = c0 * (((s'.T.drop bhIdx).headD 0 - ((Gen.Radial.initTemp : ℕ) : K)) / q) :: s.gBhw := by
  obtain ⟨h1, _, _, h4, h5⟩ := stepOnce_ok E (m + 2) bhIdx _ _ q dt tS c0 rb s s' h
  exact ⟨h1, h4, h5⟩

/-! ### Non-vacuity: concrete instances on which the hypotheses hold -/

/-- A rational environment (`log x := x - 1` is positive on ratios above 1, which is all the
    time-stepping theorems need) and a borehole close to the repository's test case. -/
def E0 : Env ℚ := { log := fun x => x - 1, exp := fun _ => 1, sqrt2 := 7 / 5, pi := 22 / 7, le := fun a b => decide (a ≤ b) }
def x0 : Inputs ℚ :=
  { rB := 3 / 40, rPo := 211 / 10000, rPi := 17 / 1000, kSoil := 2, rcSoil := 3901000, rcGrout := 2000000,
    rcPipe := 1542000, rcFluid := 4174436, Rf := 1 / 250, Rb := 1 / 5, H := 100, ks := 2 }

-- (1),(1'): the checked function does return a table on this input, of 535 cells
example : ∃ cells, fillRadialCells E0 genCounts x0 (1 / 500) (99 / 500) = .ok cells ∧ cells.length = 535 := by
  have h : fillChecks E0 genCounts x0 (1 / 500) (99 / 500) = none := by decide +kernel
  exact ⟨fillRadialCellsCore E0 genCounts x0 (1 / 500) (99 / 500), by unfold fillRadialCells; rw [h],
    by decide +kernel⟩

-- (2): the denominator hypothesis holds
example : (geometry E0 genCounts x0).rConv * (geometry E0 genCounts x0).rConv
    - (geometry E0 genCounts x0).rFluid * (geometry E0 genCounts x0).rFluid ≠ 0 := by decide +kernel

-- (4),(5): a 3-cell system; two exact implicit steps computed by the model's own Thomas solve
def c3 : ℕ → Cell ℚ := fun i =>
  { rIn := i + 1, rC := i + 3 / 2, rOut := i + 2, k := 1, rhoCp := 1, temp := 0, vol := 22 / 7 * (2 * i + 3) }
def sys3 : TriSys ℚ := assemble E0 3 1 ((List.range 3).map c3)
def step3 (T : List ℚ) : List ℚ := triSolve sys3.dl sys3.d sys3.du (rhs 3 1 sys3.ad0 T)
def T3 : ℕ → ℕ → ℚ := fun k i => ((step3^[k]) [0, 0, 0]).getD i 0

example : (∀ i, i ≤ 1 → 0 < Radial.cond E0 (c3 i) (c3 (i + 1))) ∧ (∀ i, i ≤ 1 → 0 < capRate 1 (c3 i)) ∧
    (∀ i, i ≤ 1 → (c3 i).rhoCp * (c3 i).vol ≠ 0) := by decide +kernel

example : ∀ k, k < 2 → SolvesTri sys3.dl sys3.d sys3.du (rhs 3 1 sys3.ad0 ((List.range 3).map (T3 k)))
    ((List.range 3).map (T3 (k + 1))) := by decide +kernel


-- (5c): the comparison of `E0` is the order of ℚ, and a monotone table is resampled
example : LeSpec E0 := fun a b => by simp [E0]
example : ∃ u v, resample E0 (0 :: [1, 3]) (0 :: [2, 2]) 5 = .ok (u, v) ∧ v = [0, 3 / 2, 2, 2, 2] :=
  ⟨_, _, rfl, by decide +kernel⟩

-- (3): a real environment and a valid geometry
noncomputable def ER : Env ℝ :=
  { log := Real.log, exp := Real.exp, sqrt2 := 7 / 5, pi := 22 / 7, le := fun a b => decide (a ≤ b) }
noncomputable def xR : Inputs ℝ :=
  { rB := 3 / 40, rPo := 211 / 10000, rPi := 17 / 1000, kSoil := 2, rcSoil := 3901000, rcGrout := 2000000,
    rcPipe := 1542000, rcFluid := 4174436, Rf := 1 / 250, Rb := 1 / 5, H := 100, ks := 2 }
example : 0 < (geometry ER genCounts xR).rConv ∧ (geometry ER genCounts xR).rConv < (geometry ER genCounts xR).rInTube ∧
    (geometry ER genCounts xR).rInTube ≤ (geometry ER genCounts xR).rOutTube ∧ (geometry ER genCounts xR).rOutTube ≤ xR.rB ∧
    (geometry ER genCounts xR).rInTube < xR.rB ∧ ER.pi ≠ 0 ∧ xR.Rf ≠ 0 ∧ xR.Rb - xR.Rf / 2 ≠ 0 := by
  simp only [geometry, ER, xR]
  norm_num


-- (6),(7): the 3-cell system above has positive coefficients, so `triSolve_exact` / `model_trajectory` apply to it
example : ∀ k, (modelTraj E0 1 1 1 c3 [0, 0, 0] k).getD 0 0 ≤ (modelTraj E0 1 1 1 c3 [0, 0, 0] (k + 1)).getD 0 0 := by
  have h : (∀ i, i ≤ 1 → 0 < Radial.cond E0 (c3 i) (c3 (i + 1))) ∧ (∀ i, i ≤ 1 → 0 < capRate 1 (c3 i)) := by decide +kernel
  intro k
  exact ((model_trajectory E0 1 1 1 0 1 0 1 (by omega) c3 [0, 0, 0] rfl (by decide +kernel) h.1 h.2 one_pos one_pos one_pos).2.1
    k 0 (by omega)).1

-- (8),(9): `log x := x - 1` is positive above 1 and the inputs `x0` are valid
example : LogPos E0 := fun x hx => by simp only [E0]; linarith
example : ValidInputs E0 genCounts x0 (1 / 500) (99 / 500) :=
  ⟨by decide +kernel, gen_counts_positive.1, by decide +kernel, by decide +kernel, by decide +kernel, by decide +kernel,
   by decide +kernel, by decide +kernel, by decide +kernel, by decide +kernel, by decide +kernel, by decide +kernel,
   by decide +kernel, by decide +kernel⟩

end GHEVerif.C10
