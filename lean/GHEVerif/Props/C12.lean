/-
  C12 — Reported results are self-consistent and describe the returned design.
  The statement lists of `GHE.size` / `local_objective`, the attribute expressions the summary
  reads and the rows of the search log are regenerated from the source on every check
  (Gen/Report.lean, Gen/Funcs.lean); the theorems below are about those generated objects.
-/
import GHEVerif.Model.Report
import GHEVerif.Lemmas.Report
import GHEVerif.Lemmas.Search
import GHEVerif.Props.C01
import GHEVerif.Lemmas.Pipeline

namespace GHEVerif.C12
open GHEVerif GHEVerif.Search GHEVerif.Report GHEVerif.Pipeline

/-- `GHE.size` is "set the mid height, solve, assign the returned height, simulate again" and the
    objective is "assign h, simulate, cost, return" — as regenerated from the source. -/
theorem size_statements :
    Gen.sizeOps = [.setMid, .solve, .setReturned, .simulate] ∧
    Gen.objectiveOps = [.setH, .simulate, .cost, .ret] := size_statements'

/-- The substantive one: whatever the excess function, the bracket, Brent's iterates and answer —
    bracketed root, clamp at minimum height, clamp at maximum height — after `GHE.size` the
    simulated temperatures held by the object were computed **at the height the object now has**,
    and that height is the one `solve_root` returned.  (False before the F6 repair: with a clamp at
    the lower bound the last simulation had been at the upper bound.) -/
theorem reported_temps_at_reported_height (f : Rat → Rat) (lo hi : Rat) (its : List Rat) (brent : Rat)
    (st st' : GState) (h : size f lo hi its brent st = .ok st') :
    st'.simAt = some st'.H ∧
      ∃ kind, solveRoot ((hi + lo) / 2) f lo hi brent = .ok (kind, st'.H) :=
  size_simAt f lo hi its brent st st' h

/-- The summary's borehole count is the number of bore-field rows, total drilling is count × height
    and the active length is the height — all read from the same live state. -/
theorem summary_consistent (coords : List (Rat × Rat)) (st : GState) :
    (summary coords st).numberOfBoreholes = (summary coords st).boreRows ∧
    (summary coords st).totalDrilling = (summary coords st).activeLength * ((summary coords st).numberOfBoreholes : Nat) ∧
    (summary coords st).activeLength = st.H := by
  simp [summary]

/-- The attribute expressions the real summary and bore-field table read are the ones `summary`
    models (regenerated from output.py: a change there breaks this theorem). -/
theorem summary_reads_live_state :
    Gen.summaryNbhExpr = "len(design.ghe.gFunction.bore_locations)" ∧
    Gen.summaryDrillingExpr = "add_with_units(design.ghe.bhe.b.H * len(design.ghe.gFunction.bore_locations), 'm')" ∧
    Gen.summaryLengthExpr = "add_with_units(design.ghe.bhe.b.H, 'm')" ∧
    Gen.summaryMaxEftDef = "max(design.ghe.hp_eft)" ∧ Gen.summaryMinEftDef = "min(design.ghe.hp_eft)" ∧
    Gen.summaryMaxEftExpr = "add_with_units(max_eft, 'C')" ∧ Gen.summaryMinEftExpr = "add_with_units(min_eft, 'C')" ∧
    Gen.boreRowsIterExpr = "design.ghe.gFunction.bore_locations" ∧
    Gen.boreRowExpr = "csv_array.append([bore_location[0], bore_location[1]])" := by decide

/-- Every search-log row is `[field, cost(max, min), max, min]` with the cost computed from the very
    temperatures logged, in both search classes. -/
theorem log_row_statements :
    Gen.logRow1D = Gen.logRowRW ∧
    Gen.logRow1D.getD 2 "" = "t_excess = self.ghe.cost(max_hp_eft, min_hp_eft)" ∧
    Gen.logRow1D.getD 3 "" = "self.searchTracker.append([field_specifier, t_excess, max_hp_eft, min_hp_eft])" := by decide

/-- `cost` (regenerated from BaseGHE.cost) is `max(max EFT − upper limit, lower limit − min EFT)`. -/
theorem log_row_excess (hiA loA mx mn : Rat) :
    Gen.cost hiA loA mx mn = ratMax (mx - hiA) (loA - mn) := by
  unfold Gen.cost; rfl

/-- Consequence for the excess sign: a row's excess is ≤ 0 exactly when both limits are kept. -/
theorem excess_nonpos_iff (hiA loA mx mn : Rat) :
    Gen.cost hiA loA mx mn ≤ 0 ↔ mx ≤ hiA ∧ loA ≤ mn := by
  rw [log_row_excess]; unfold ratMax
  constructor
  · intro h; split at h <;> constructor <;> linarith
  · rintro ⟨a, b⟩; split <;> linarith

/-- The same at the level of `GHEManager.find_design` (its regenerated statement list), for every
    design method and every outcome of the search: the summary written for the returned design reports
    the height the object has, total drilling = that height × the number of bore-field rows, and the
    temperatures the object holds were simulated at exactly that height. -/
theorem find_design_summary_describes_design {α β : Type} (search : SearchRes α β) (E : α → Rat → Rat) (minH maxH : Rat)
    (f : α → Rat → Rat) (its : α → List Rat) (brent : α → Rat) (d : DesignG α β) (coords : List (Rat × Rat))
    (hres : findDesignG search E minH maxH f its brent = .design d) :
    d.st.simAt = some (summary coords d.st).activeLength ∧
    (summary coords d.st).totalDrilling = d.st.H * ((summary coords d.st).boreRows : Nat) ∧
    (summary coords d.st).numberOfBoreholes = coords.length := by
  rw [findDesignG_eq_spec] at hres
  unfold findDesignSpec at hres
  cases search with
  | valueError => simp at hres
  | pyError e => simp at hres
  | selected k h p =>
    simp only at hres
    cases hs : size (f k) minH maxH (its k) (brent k) { H := h, simAt := none, returned := 0 } with
    | error e => simp [hs] at hres
    | ok st =>
      simp only [hs] at hres
      injection hres with hres
      subst hres
      obtain ⟨h1, _⟩ := size_simAt (f k) minH maxH (its k) (brent k) _ _ hs
      simp [summary, h1]

/-- Non-vacuity: both ends feasible (clamp at the minimum height 60): the last Brent-stage
    evaluation was at 135, yet the object ends simulated at 60. -/
example :
    size (fun h => if h = 60 then -1 else -2) 60 135 [] 100 { H := 96, simAt := none, returned := 0 }
      = .ok { H := 60, simAt := some 60, returned := 60 } := by decide +kernel

end GHEVerif.C12
