/-
  C05 — Design is not oversized: height is a root, the next smaller field fails.
  Theorems about `bisect1D` for every candidate-list length, every threshold position and every
  sign pattern (not "up to 64" / "up to length 10"), plus the root property of the height.
-/
import GHEVerif.Lemmas.Search
import GHEVerif.Lemmas.SearchNested
import GHEVerif.Props.C01
import GHEVerif.Lemmas.Pipeline

namespace GHEVerif.C05
open GHEVerif GHEVerif.Search GHEVerif.Report GHEVerif.Pipeline

/-- Drilling bound, arbitrary sign pattern, ties included.  The candidate returned by the bisection
    path has the smallest borehole count among **all** candidates this search evaluated at maximum
    height and found feasible (since the F12 repair that includes the extra evaluation after the
    loop; since the F32 repair it holds also when several evaluated candidates have exactly the same
    excess — before it the hypothesis "no two evaluated candidates tie" was needed, and on a plateau
    the search returned the first-evaluated, i.e. the largest, of them).  Hence
    `count·H_returned ≤ count_j·maxH` for each of them. -/
theorem bisect1D_smallest_evaluated (counts : List Nat) (E : Nat → Rat → Rat) (cfg : Cfg)
    (k : Nat) (h : Rat) (tr : List (Nat × Rat))
    (hsel : bisect1D counts E cfg = (.selected k h .bisection, tr)) :
    ∀ j, (j, cfg.maxH) ∈ tr → E j cfg.maxH < 0 → counts.getD k 0 ≤ counts.getD j 0 := by
  obtain ⟨xr, ls, i, s, hu, _, _, hinv, hneg, hfin⟩ := bisect1D_bisection_path hsel
  obtain ⟨k0, k', hf, _, _, hkmem, hk'mem, hEq, hmin, hcnt⟩ :=
    finish_selects (counts := counts) hinv (upperIndex_ok hu).1 hneg
  rw [hf] at hfin
  injection hfin with h1 h2
  injection h1 with h1 _ _
  subst h1; subst h2
  intro j hj hjneg
  have := hmin j hj hjneg
  rw [lexLt_iff] at this
  rw [not_or] at this
  omega

/-- First feasible candidate, monotone excess, **every** list length and threshold position.
    Candidates `< kth` fail and candidates `≥ kth` meet the limits at maximum height
    (`0 < kth ≤ xr`), the smallest field also fails at minimum height, counts strictly increase,
    and the iteration cap is large enough (`xr ≤ 2^max_iter`; 15 iterations cover 32768 candidates);
    ties in the excess are allowed (since the F32 repair: before it "no two candidates have the same
    excess" was a hypothesis).  Then the search returns exactly
    candidate `kth`, and its predecessor `kth - 1` was evaluated at maximum height (and fails). -/
theorem bisect1D_first_feasible (counts : List Nat) (E : Nat → Rat → Rat) (cfg : Cfg) (xr kth : Nat)
    (hu : upperIndex counts cfg.cap = .ok xr)
    (hk0 : 0 < kth) (hkx : kth ≤ xr)
    (hmono : ∀ i, i ≤ xr → (E i cfg.maxH < 0 ↔ kth ≤ i))
    (hpos : ∀ i, i ≤ xr → E i cfg.maxH ≠ 0)
    (hlow : 0 < E 0 cfg.minH)
    (hcounts : ∀ i j, i < j → j ≤ xr → counts.getD i 0 < counts.getD j 0)
    (hfuel : xr ≤ 2 ^ cfg.maxIter) :
    ∃ tr, bisect1D counts E cfg = (.selected kth cfg.maxH .bisection, tr) ∧
      (kth - 1, cfg.maxH) ∈ tr ∧ 0 < E (kth - 1) cfg.maxH := by
  have hE0 : 0 < E 0 cfg.maxH := by
    rcases lt_trichotomy (E 0 cfg.maxH) 0 with h | h | h
    · have := (hmono 0 (Nat.zero_le _)).mp h; omega
    · exact absurd h (hpos 0 (Nat.zero_le _))
    · exact h
  have hExr : E xr cfg.maxH < 0 := (hmono xr (le_refl _)).mpr hkx
  have hfail : ∀ i, i ≤ xr → i < kth → 0 < E i cfg.maxH := by
    intro i hi hlt
    rcases lt_trichotomy (E i cfg.maxH) 0 with h | h | h
    · have := (hmono i hi).mp h; omega
    · exact absurd h (hpos i hi)
    · exact h
  rcases bisect1D_spec counts E cfg with ⟨e, he, _⟩ | ⟨xr', hu', ⟨o, hp, hb⟩ | ⟨ls, hp, hrest⟩⟩
  · rw [hu] at he; cases he
  · -- no early exit is possible
    rw [hu] at hu'; injection hu' with hu'; subst hu'
    exfalso
    rcases pre_inl_cases hp with ⟨_, hz⟩ | ⟨_, hs⟩ | ⟨_, hs⟩ | ⟨_, hs⟩
    · rcases hz with hz | hz | hz
      · linarith
      · linarith
      · exact hpos xr (le_refl _) hz
    · rcases hs with ⟨a, _⟩ | ⟨a, _⟩ <;> linarith
    · linarith [hs.1]
    · linarith [hs.2.2]
  · rw [hu] at hu'; injection hu' with hu'; subst hu'
    have hls : Gen.sign (E 0 cfg.maxH) = .ok ls := (pre_inr hp).1
    have hls1 : ls = 1 := by
      rcases sign_ok_iff.mp hls with ⟨_, h⟩ | ⟨h, _⟩
      · exact h
      · linarith
    -- the loop keeps  l < kth ≤ r ≤ xr
    have hP : ∀ i' s', loop E cfg.maxH ls cfg.maxIter 0 (st0 E cfg xr) = (i', s', none) →
        s'.l < kth ∧ kth ≤ s'.r ∧ s'.r ≤ xr := by
      intro i' s' e
      refine loop_induct E cfg.maxH ls (fun _ s => s.l < kth ∧ kth ≤ s.r ∧ s.r ≤ xr) ?_ _ _ _ ?_ _ _ e
      · intro i s cs ⟨a, b, c⟩ h1 h2 hs
        have hm1 : s.l < mid s := by unfold mid at h1 h2 ⊢; omega
        have hm2 : mid s < s.r := by unfold mid at h1 h2 ⊢; omega
        have hmx : mid s ≤ xr := by omega
        by_cases hcs : cs = ls
        · -- same sign as the left end (+): the midpoint fails, so it is below the threshold
          simp only [stepSt, hcs, if_true]
          refine ⟨?_, b, c⟩
          rcases sign_ok_iff.mp hs with ⟨hp', _⟩ | ⟨_, hc⟩
          · by_contra hge
            have := (hmono (mid s) hmx).mpr (not_lt.mp hge); linarith
          · omega
        · simp only [stepSt, hcs, if_false]
          refine ⟨a, ?_, hmx⟩
          rcases sign_ok_iff.mp hs with ⟨_, hc⟩ | ⟨hn, _⟩
          · omega
          · exact (hmono (mid s) hmx).mp hn
      · exact ⟨hk0, hkx, le_refl _⟩
    have hnoerr := loop_no_error_on E cfg.maxH ls xr (fun c hc => hpos c hc) cfg.maxIter 0 (st0 E cfg xr)
      (by simp [st0]) (by simp [st0])
    rcases hrest with ⟨i, s, e, hl, _⟩ | ⟨i, s, hl, hb⟩
    · rw [hl] at hnoerr; cases hnoerr
    · obtain ⟨a, b, c⟩ := hP i s hl
      have hadj : s.r = s.l + 1 :=
        loop_adjacent E cfg.maxH ls cfg.maxIter 0 (st0 E cfg xr) (by simp [st0]; omega) (by simpa [st0] using hfuel) i s hl
      have hr : s.r = kth := by omega
      have hl' : s.l = kth - 1 := by omega
      have hinv := inv_final E cfg ls xr i s hl
      have hneg : ∃ kv ∈ s.mem, kv.2 < 0 := ⟨_, hinv.xrIn, hExr⟩
      obtain ⟨k0, k', hf, hE0', hk0le, hkmem, hk'mem, hEq, hmin, hcnt⟩ :=
        finish_selects (counts := counts) hinv (upperIndex_ok hu).1 hneg
      -- kth itself was evaluated (it is the right end) and is feasible
      have hkth_tr : (kth, cfg.maxH) ∈ s.trace ++ [(i, cfg.maxH)] := by
        have := hinv.memTr _ hinv.rIn
        rw [hr] at this; exact List.mem_append_left _ this
      have hkth_neg : E kth cfg.maxH < 0 := (hmono kth hkx).mpr (le_refl _)
      -- every key in the trace is ≤ xr
      have hkeys : ∀ j, (j, cfg.maxH) ∈ s.trace ++ [(i, cfg.maxH)] → j ≤ xr := by
        intro j hj
        rcases List.mem_append.mp hj with hj | hj
        · exact hinv.keysLe _ (hinv.trMem j hj)
        · simp at hj; have := hinv.ib; omega
      have hk'le : k' ≤ xr := hkeys k' hk'mem
      have hk'neg : E k' cfg.maxH < 0 := by rw [hEq]; exact hE0'
      have hk'ge : kth ≤ k' := (hmono k' hk'le).mp hk'neg
      have hk'eq : k' = kth := by
        by_contra hne
        have hlt : kth < k' := by omega
        have := hmin kth hkth_tr hkth_neg
        apply this
        rw [lexLt_iff]; left; exact hcounts kth k' hlt hk'le
      have hk0eq : k0 = kth := by
        -- equal borehole counts and strictly increasing counts: the same candidate
        rw [← hk'eq]
        rcases Nat.lt_trichotomy k0 k' with hlt | heq | hgt
        · have := hcounts k0 k' hlt hk'le; omega
        · exact heq
        · have := hcounts k' k0 hgt hk0le; omega
      refine ⟨s.trace ++ [(i, cfg.maxH)], by rw [hb, hf, hk0eq], ?_, hfail _ (by omega) (by omega)⟩
      have := hinv.memTr _ hinv.lIn
      rw [hl'] at this; exact List.mem_append_left _ this


/-- Nested lists (`Bisection2D`): the returned field is the 1D selection of its inner list, hence
    (bisection path; ties allowed since the F32 repair) it has the fewest boreholes among the candidates
    of that list evaluated at maximum height and found feasible. -/
theorem bisect2D_inner_selection (nc : List (List Nat)) (E2 : Nat → Nat → Rat → Rat) (cfg : Cfg)
    (l k : Nat) (hh : Rat) (tr : Trace2) (h : bisect2D nc E2 cfg = (.selected l k hh, tr)) :
    ∃ p tr', bisect1D (nc.getD l []) (E2 l) cfg = (.selected k hh p, tr') ∧
      (p = .bisection →
        ∀ j, (j, cfg.maxH) ∈ tr' → E2 l j cfg.maxH < 0 → (nc.getD l []).getD k 0 ≤ (nc.getD l []).getD j 0) := by
  obtain ⟨_, p, tr', h1⟩ := bisect2D_selected h
  refine ⟨p, tr', h1, ?_⟩
  intro hp
  subst hp
  exact bisect1D_smallest_evaluated _ _ cfg k hh tr' h1

/-- Bi-zoned search: among the lists `search_successive` searched and sized, the returned design
    has the least total drilling (count × sized height), and its field is the 1D selection of its
    list. -/
theorem bisectZD_least_total_drilling (nc : List (List Nat)) (E2 : Nat → Nat → Rat → Rat)
    (sz : Nat → Nat → Rat) (cfg : Cfg) (l k : Nat) (hh : Rat) (tr : Trace2)
    (h : bisectZD nc E2 sz cfg = (.selected l k hh, tr)) :
    (∃ h1 p tr', bisect1D (nc.getD l []) (E2 l) cfg = (.selected k h1 p, tr')) ∧
      ∀ e ∈ zdDone nc E2 sz cfg, ((nc.getD l []).getD k 0 : Nat) * hh ≤ e.2.2 := by
  obtain ⟨e, _, hs, hmin⟩ := bisectZD_selected h
  subst e
  exact ⟨hs, hmin⟩

/-- Unless the height is clamped at a bound, the returned height makes the excess zero within
    solver tolerance: Brent's contract plus a Lipschitz constant `c` give `|excess| ≤ c·tol`. -/
theorem height_is_root (x : Rat) (f : Rat → Rat) (lo hi brent tol c : Rat)
    (hsig : (f lo < 0 ∧ 0 < f hi) ∨ (f hi < 0 ∧ 0 < f lo))
    (hb : C01.BrentSpec f lo hi tol brent) (hl : C01.Lipschitz f c lo hi) :
    solveRoot x f lo hi brent = .ok (.bracketed, brent) ∧ ratAbs (f brent) ≤ c * tol :=
  let ⟨h1, h2, _, _⟩ := C01.solveRoot_bracketed x f lo hi brent tol c hsig hb hl
  ⟨h1, h2⟩

/-- "Not oversized" at the level of `GHEManager.find_design`, for every design method: for a returned
    design whose field meets the limits at maximum height, the final height is either the MINIMUM
    height (when the field already meets the limits there: nothing shorter is allowed) or a root of the
    excess within `c·tol` (the field fails at minimum height, so Brent's bracket applies) — it is
    never left above a root. -/
theorem find_design_height_not_oversized {α β : Type} (search : SearchRes α β) (E : α → Rat → Rat) (minH maxH : Rat)
    (f : α → Rat → Rat) (its : α → List Rat) (brent : α → Rat) (d : DesignG α β) (tol c : Rat)
    (hres : findDesignG search E minH maxH f its brent = .design d)
    (hfeas : f d.field maxH < 0)
    (hnz : f d.field minH ≠ 0)
    (hb : 0 < f d.field minH → C01.BrentSpec (f d.field) minH maxH tol (brent d.field))
    (hl : C01.Lipschitz (f d.field) c minH maxH) :
    (f d.field minH < 0 ∧ d.st.H = minH) ∨ (0 < f d.field minH ∧ ratAbs (f d.field d.st.H) ≤ c * tol) := by
  rw [findDesignG_eq_spec] at hres
  unfold findDesignSpec at hres
  cases search with
  | valueError => simp at hres
  | pyError e => simp at hres
  | selected k h p =>
    simp only at hres
    cases hs : size (f k) minH maxH (its k) (brent k) { H := h, simAt := none, returned := 0 } with
    | error e => simp [hs] at hres
    | ok st =>
      simp only [hs] at hres
      injection hres with hres
      subst hres
      simp only at hfeas hnz hb hl ⊢
      obtain ⟨_, kind, hk⟩ := size_simAt (f k) minH maxH (its k) (brent k) _ _ hs
      rcases lt_or_gt_of_ne hnz with hneg | hpos
      · left
        have := C01.solveRoot_clamped_low ((maxH + minH) / 2) (f k) minH maxH (brent k) hneg hfeas
        rw [hk] at this; injection this with this; injection this with _ e
        exact ⟨hneg, e⟩
      · right
        obtain ⟨h2, h3, _, _⟩ := C01.solveRoot_bracketed ((maxH + minH) / 2) (f k) minH maxH (brent k) tol c
          (Or.inr ⟨hfeas, hpos⟩) (hb hpos) hl
        rw [hk] at h2; injection h2 with h2; injection h2 with _ e
        rw [e]; exact ⟨hpos, h3⟩

/-- Non-vacuity: 9 candidates, threshold at 5: the hypotheses of `bisect1D_first_feasible` are
    satisfiable and the search indeed returns candidate 5 after evaluating candidate 4. -/
example :
    (bisect1D [1, 2, 3, 4, 5, 6, 7, 8, 9] (fun i h => if h = 135 then (9 : Rat) / 2 - i else 20 - i)
      { cap := none, cont := false, maxIter := 15, minH := 60, maxH := 135 })
      = (.selected 5 135 .bisection, [(0, 60), (0, 135), (8, 135), (4, 135), (6, 135), (5, 135), (3, 135)]) := by
  decide +kernel

/-- A plateau (every feasible candidate has exactly the same excess, as when the lower limit binds at
    the undisturbed ground temperature): the search returns the smallest evaluated feasible candidate,
    index 3 with 6 boreholes — before the F32 repair it returned index 7 (20 boreholes), the first
    evaluated candidate with that excess. -/
example :
    (bisect1D [1, 2, 4, 6, 9, 12, 16, 20]
      (fun i h => if h = 135 then (if i < 3 then (1 : Rat) else -3 / 10) else 5)
      { cap := none, cont := false, maxIter := 15, minH := 60, maxH := 135 }).1
      = .selected 3 135 .bisection := by decide +kernel

end GHEVerif.C05
