/-
  C03 — Rectangular-family candidate fields stay on the land and respect spacing.
  Property theorems only; helper lemmas live in GHEVerif/Lemmas/Coords.lean and
  GHEVerif/Lemmas/Domains.lean.

  All theorems are about the exact-arithmetic instance (`R = id`) of the models in
  Model/Coords.lean and Model/Domains.lean — the same Lean code whose binary64 instance
  (`R = fl64`) the harness compares bit for bit with ghedesigner/coordinates.py, domains.py and
  `DesignNearSquare.__init__`.  Land: `[0, Lx] × [0, Ly]` with `Lx = length`, `Ly = width`;
  nothing is assumed about which is longer (the `length < width` branch transposes).

  `InLand Lx Ly f`  every borehole of `f` lies in `[0, Lx] × [0, Ly]`.
  `Sep d f`         boreholes at different list positions differ by at least `d` in one
                    coordinate; `Sep.spaced` turns it into: no coincident boreholes (`Nodup`) and
                    squared distance `≥ d²` for every pair.
-/
import GHEVerif.Lemmas.Domains

namespace GHEVerif.C03
open GHEVerif GHEVerif.Coords GHEVerif.Domains

/-- The conclusion "keeps every pair at least `d` apart, no coincident boreholes". -/
def Spaced (d : Rat) (f : Field) : Prop :=
  Sep d f ∧ f.Nodup ∧ f.Pairwise (fun p q => d ^ 2 ≤ (p.1 - q.1) ^ 2 + (p.2 - q.2) ^ 2)

theorem spaced_of_sep {d : Rat} {f : Field} (hd : 0 < d) (h : Sep d f) : Spaced d f :=
  ⟨h, (h.spaced hd).1, (h.spaced hd).2⟩

/-! ### the grid -/

/-- The points of `rectangle(nx, ny, sx, sy)` are exactly `(i·sx, j·sy)`, `i < nx`, `j < ny`
    (negative counts give no points, as `range` does). -/
theorem rectangle_points (nx ny : Int) (sx sy : Rat) (p : Point) :
    p ∈ rectangle id nx ny sx sy ↔ ∃ i < nx.toNat, ∃ j < ny.toNat, p = ((i : Rat) * sx, (j : Rat) * sy) :=
  mem_rectangle

/-! ### `rectangular` (DesignRectangle) -/

/-- 1a. Every candidate of `rectangular` lies on the land — `length ≥ width` and
    `length < width` alike — and the generator does not raise for positive inputs. -/
theorem rectangular_inside (Lx Ly bmin bmax : Rat) (hb : 0 < bmin) (hbm : 0 < bmax) (hLx : 0 < Lx) (hLy : 0 < Ly) :
    ∃ fs, rectangular id Lx Ly bmin bmax = .ok fs ∧ ∀ f ∈ fs, InLand Lx Ly f := by
  obtain ⟨fs, h, hg⟩ := rectangular_good hb hbm hLx hLy
  exact ⟨fs, h, fun f hf => (hg f hf).1⟩

/-- 2a. Every candidate of `rectangular` keeps its boreholes at least `b_min` apart and has no
    coincident boreholes. -/
theorem rectangular_spacing (Lx Ly bmin bmax : Rat) (hb : 0 < bmin) (hbm : 0 < bmax) (hLx : 0 < Lx) (hLy : 0 < Ly) :
    ∃ fs, rectangular id Lx Ly bmin bmax = .ok fs ∧ ∀ f ∈ fs, Spaced bmin f := by
  obtain ⟨fs, h, hg⟩ := rectangular_good hb hbm hLx hLy
  exact ⟨fs, h, fun f hf => spaced_of_sep hb (hg f hf).2⟩

/-- 4a. The list bisected by the rectangle search is ordered by non-decreasing borehole count. -/
theorem rectangular_counts_sorted (Lx Ly bmin bmax : Rat) (hb : 0 < bmin) (hbm : 0 < bmax) (hLx : 0 < Lx) (hLy : 0 < Ly) :
    ∃ fs, rectangular id Lx Ly bmin bmax = .ok fs ∧ (fs.map List.length).Pairwise (· ≤ ·) :=
  rectangular_sorted' hb hbm hLx hLy

/-! ### `bi_rectangle_nested` (DesignBiRectangle; reused by the polygon-constrained design) -/

/-- 6. `bi_rectangular` re-derives the row count from the spacing `L₂ / (n₂ - 1)` it is handed
    and gets `n₂` back (exact instance; the binary64 regression is the `example` below). -/
theorem bi_rectangular_rows (L2 : Rat) (hL2 : 0 < L2) (n2 : Int) (hn2 : 2 ≤ n2) :
    biN2 id L2 (spacingOf id L2 n2) = n2 :=
  biN2_spacingOf hL2 hn2

/-- The nested generator does not raise for positive inputs and returns, for every admissible
    second count `n₂`, the list `biList … n₂` (`_iter == 0` block, then `n₁ × n₂` grids). -/
theorem bi_rectangle_nested_lists (Lx Ly bmin bmaxx bmaxy : Rat) (hb : 0 < bmin) (hbx : 0 < bmaxx) (hby : 0 < bmaxy)
    (hLx : 0 < Lx) (hLy : 0 < Ly) :
    biRectangleNested id Lx Ly bmin bmaxx bmaxy =
      .ok ((pyRange (nLow id (short Lx Ly) (if Lx ≥ Ly then bmaxy else bmaxx)) (nHigh id (short Lx Ly) bmin + 1)).map
            (biList (long Lx Ly) (short Lx Ly) bmin (if Lx ≥ Ly then bmaxx else bmaxy) (trOf Lx Ly))) :=
  biRectangleNested_eq hb hbx hby hLx hLy

theorem bi_rectangle_nested_good (Lx Ly bmin bmaxx bmaxy : Rat) (hb : 0 < bmin) (hbx : 0 < bmaxx) (hby : 0 < bmaxy)
    (hLx : 0 < Lx) (hLy : 0 < Ly) :
    ∃ ls, biRectangleNested id Lx Ly bmin bmaxx bmaxy = .ok ls ∧
      ∀ l ∈ ls, ∀ f ∈ l, InLand Lx Ly f ∧ Sep bmin f := by
  have hb1 : 0 < (if Lx ≥ Ly then bmaxx else bmaxy) := by split <;> assumption
  have hb2 : 0 < (if Lx ≥ Ly then bmaxy else bmaxx) := by split <;> assumption
  have t2 := two_le_nLow (short_pos hLx hLy) hb2
  refine ⟨_, biRectangleNested_eq hb hbx hby hLx hLy, ?_⟩
  intro l hl f hf
  rw [List.mem_map] at hl
  obtain ⟨n2, hn2, rfl⟩ := hl
  rw [mem_pyRange] at hn2
  exact Good.final' (biList_good hb hb1 (short_pos hLx hLy) (short_le_long Lx Ly) (by omega)
    (le_nHigh hb (by omega)) f hf)

/-- 1b. Every candidate of every list of `bi_rectangle_nested` lies on the land, for
    `length ≥ width` and for `length < width`. -/
theorem bi_rectangle_nested_inside (Lx Ly bmin bmaxx bmaxy : Rat) (hb : 0 < bmin) (hbx : 0 < bmaxx) (hby : 0 < bmaxy)
    (hLx : 0 < Lx) (hLy : 0 < Ly) :
    ∃ ls, biRectangleNested id Lx Ly bmin bmaxx bmaxy = .ok ls ∧ ∀ l ∈ ls, ∀ f ∈ l, InLand Lx Ly f := by
  obtain ⟨ls, h, hg⟩ := bi_rectangle_nested_good Lx Ly bmin bmaxx bmaxy hb hbx hby hLx hLy
  exact ⟨ls, h, fun l hl f hf => (hg l hl f hf).1⟩

/-- 2b. … and keeps its boreholes at least `b_min` apart, without coincident boreholes
    (false before commit d554a10 in binary64: finding F13). -/
theorem bi_rectangle_nested_spacing (Lx Ly bmin bmaxx bmaxy : Rat) (hb : 0 < bmin) (hbx : 0 < bmaxx) (hby : 0 < bmaxy)
    (hLx : 0 < Lx) (hLy : 0 < Ly) :
    ∃ ls, biRectangleNested id Lx Ly bmin bmaxx bmaxy = .ok ls ∧ ∀ l ∈ ls, ∀ f ∈ l, Spaced bmin f := by
  obtain ⟨ls, h, hg⟩ := bi_rectangle_nested_good Lx Ly bmin bmaxx bmaxy hb hbx hby hLx hLy
  exact ⟨ls, h, fun l hl f hf => spaced_of_sep hb (hg l hl f hf).2⟩

/-- 4b. Each list of `bi_rectangle_nested` (the inner bisection of the bi-rectangle search) is
    ordered by non-decreasing borehole count. -/
theorem bi_rectangle_nested_counts_sorted (Lx Ly bmin bmaxx bmaxy : Rat) (hb : 0 < bmin) (hbx : 0 < bmaxx)
    (hby : 0 < bmaxy) (hLx : 0 < Lx) (hLy : 0 < Ly) :
    ∃ ls, biRectangleNested id Lx Ly bmin bmaxx bmaxy = .ok ls ∧
      ∀ l ∈ ls, (l.map List.length).Pairwise (· ≤ ·) := by
  have hb1 : 0 < (if Lx ≥ Ly then bmaxx else bmaxy) := by split <;> assumption
  have hb2 : 0 < (if Lx ≥ Ly then bmaxy else bmaxx) := by split <;> assumption
  have t1 := two_le_nLow (long_pos hLx hLy) hb1
  have t2 := two_le_nLow (short_pos hLx hLy) hb2
  refine ⟨_, biRectangleNested_eq hb hbx hby hLx hLy, ?_⟩
  intro l hl
  rw [List.mem_map] at hl
  obtain ⟨n2, hn2, rfl⟩ := hl
  rw [mem_pyRange] at hn2
  exact biList_sorted _ _ _ _ _ _ (by omega) (by omega)

/-- 4b'. The outer list of the bi-rectangle search (`Bisection2D`: the first candidate of the
    first list, then the last candidate of every list) — whenever the first-direction count range
    is non-empty every list starts with a single borehole and the last candidates have
    non-decreasing counts. -/
theorem bi_rectangle_outer_counts_sorted (Lx Ly bmin bmaxx bmaxy : Rat) (hb : 0 < bmin) (hbx : 0 < bmaxx)
    (hby : 0 < bmaxy) (hLx : 0 < Lx) (hLy : 0 < Ly)
    (hne : nLow id (long Lx Ly) (if Lx ≥ Ly then bmaxx else bmaxy) < nHigh id (long Lx Ly) bmin + 1) :
    ∃ ls, biRectangleNested id Lx Ly bmin bmaxx bmaxy = .ok ls ∧
      (∀ l ∈ ls, (l.head?).map List.length = some 1) ∧
      (ls.map (fun l => ((l.getLast?).map List.length).getD 0)).Pairwise (· ≤ ·) := by
  have hb1 : 0 < (if Lx ≥ Ly then bmaxx else bmaxy) := by split <;> assumption
  have hb2 : 0 < (if Lx ≥ Ly then bmaxy else bmaxx) := by split <;> assumption
  have t1 := two_le_nLow (long_pos hLx hLy) hb1
  have t2 := two_le_nLow (short_pos hLx hLy) hb2
  refine ⟨_, biRectangleNested_eq hb hbx hby hLx hLy, ?_, outer_sorted _ _ (by omega) hne⟩
  intro l hl
  rw [List.mem_map] at hl
  obtain ⟨n2, _, rfl⟩ := hl
  exact biList_head n2 t1 hne

/-! ### near-square (DesignNearSquare) -/

/-- 3. With `n = ⌊length / b⌋ + 1`: the candidate list is `k × k`, `k × (k+1)` for `k = 1 … n`
    (candidates `2(k-1)` and `2(k-1)+1`, 0-based), each an exact grid of spacing `b`
    (`rectangle_points`), `(n - 1)·b ≤ length`, and `n` is the largest such count. -/
theorem near_square_shape (length b : Rat) (hb : 0 < b) (hl : 0 ≤ length) :
    ∃ fs, nearSquareDomain id length b = .ok fs ∧
      fs.length = 2 * (nearSquareN id length b).toNat ∧
      (∀ k < (nearSquareN id length b).toNat,
        fs[2 * k]? = some (rectangle id ((k : Int) + 1) ((k : Int) + 1) b b) ∧
        fs[2 * k + 1]? = some (rectangle id ((k : Int) + 1) ((k : Int) + 1 + 1) b b)) ∧
      ((nearSquareN id length b : Rat) - 1) * b ≤ length ∧ length < (nearSquareN id length b : Rat) * b := by
  obtain ⟨h1, h2, h3⟩ := nearSquareN_spec hb hl
  refine ⟨nsList (nearSquareN id length b).toNat b, ?_, nsList_length _ _, fun k hk => nsList_get _ _ k hk, h2, h3⟩
  unfold nearSquareDomain
  rw [if_neg (ne_of_gt hb)]
  exact squareAndNearSquare_eq h1 b

/-- 2c. Near-square candidates keep their boreholes `b` apart, no coincident boreholes. -/
theorem near_square_spacing (length b : Rat) (hb : 0 < b) (hl : 0 ≤ length) :
    ∃ fs, nearSquareDomain id length b = .ok fs ∧ ∀ f ∈ fs, Spaced b f := by
  obtain ⟨h1, _, _⟩ := nearSquareN_spec hb hl
  refine ⟨nsList (nearSquareN id length b).toNat b, ?_, ?_⟩
  · unfold nearSquareDomain
    rw [if_neg (ne_of_gt hb)]
    exact squareAndNearSquare_eq h1 b
  · intro f hf
    simp only [nsList, List.mem_flatMap, List.mem_range, List.mem_cons, List.not_mem_nil, or_false] at hf
    obtain ⟨k, _, rfl | rfl⟩ := hf <;>
      exact spaced_of_sep hb (sep_rectangle (le_of_lt hb) (le_refl _) (le_refl _))

/-- 4c. The near-square list is ordered by non-decreasing borehole count. -/
theorem near_square_counts_sorted (length b : Rat) (hb : 0 < b) (hl : 0 ≤ length) :
    ∃ fs, nearSquareDomain id length b = .ok fs ∧ (fs.map List.length).Pairwise (· ≤ ·) := by
  obtain ⟨h1, _, _⟩ := nearSquareN_spec hb hl
  refine ⟨nsList (nearSquareN id length b).toNat b, ?_, nsList_sorted _ _⟩
  unfold nearSquareDomain
  rw [if_neg (ne_of_gt hb)]
  exact squareAndNearSquare_eq h1 b

/-! ### bi-zoned (DesignBiZoned) -/

/-- A single zoned rectangle (perimeter + interior grid) with at least one interior row and
    column: on the land spanned by its perimeter and `min(sx, sy)`-separated. -/
theorem zoned_rectangle_inside_spacing (nx ny nix nit : Int) (sx sy d : Rat) (z : Field)
    (hd : 0 < d) (hx : d ≤ sx) (hy : d ≤ sy) (h1 : 1 ≤ nix) (h2 : 1 ≤ nit)
    (h : zonedRectangle id nx ny sx sy nix nit = .ok z) :
    InLand (((nx : Rat) - 1) * sx) (((ny : Rat) - 1) * sy) z ∧ Spaced d z := by
  obtain ⟨a, b⟩ := zonedRectangle_good hd hx hy h1 h2 (le_refl _) (le_refl _) h
  exact ⟨a, spaced_of_sep hd b⟩

/-- 5a. Every candidate `bi_rectangle_zoned_nested` returns lies on the land, for
    `length ≥ width` **and** `length < width` (false before commit 8482f3d: finding F4).
    (The generator raises IndexError / ValueError for empty count ranges or fewer than three
    rows; then there is no candidate.) -/
theorem zoned_inside (Lx Ly bmin bmaxx bmaxy : Rat) (hb : 0 < bmin) (hbx : 0 < bmaxx) (hby : 0 < bmaxy)
    (hLx : 0 < Lx) (hLy : 0 < Ly) (ls : List (List Field))
    (h : biRectangleZonedNested id Lx Ly bmin bmaxx bmaxy = .ok ls) :
    ∀ l ∈ ls, ∀ f ∈ l, InLand Lx Ly f :=
  fun l hl f hf => (biRectangleZonedNested_good hb hbx hby hLx hLy h l hl f hf).1

/-- 5b. … and keeps its boreholes at least `b_min` apart, without coincident boreholes. -/
theorem zoned_spacing (Lx Ly bmin bmaxx bmaxy : Rat) (hb : 0 < bmin) (hbx : 0 < bmaxx) (hby : 0 < bmaxy)
    (hLx : 0 < Lx) (hLy : 0 < Ly) (ls : List (List Field))
    (h : biRectangleZonedNested id Lx Ly bmin bmaxx bmaxy = .ok ls) :
    ∀ l ∈ ls, ∀ f ∈ l, Spaced bmin f :=
  fun l hl f hf => spaced_of_sep hb (biRectangleZonedNested_good hb hbx hby hLx hLy h l hl f hf).2

/-! ### which inputs raise -/

/-- "the side admits at least three rows at the maximum spacing": `⌈L / b_max + 1⌉ ≥ 3 ⇔ b_max < L`. -/
theorem three_rows_iff (L bmax : Rat) (hb : 0 < bmax) : 3 ≤ nLow id L bmax ↔ bmax < L := by
  simp only [nLow, id_eq]
  have : (3 : Int) ≤ (L / bmax + 1).ceil ↔ (2 : Int) < (L / bmax + 1).ceil := by omega
  rw [this, Rat.lt_ceil_iff]
  push_cast
  constructor
  · intro h
    have : 1 < L / bmax := by linarith
    exact (one_lt_div hb).mp this
  · intro h
    have := (one_lt_div hb).mpr h
    linarith

/-- `rectangular` raises (always ZeroDivisionError) exactly for a zero spacing, or when the
    count loop runs with a count of 1 (`length / (n - 1)`) or on a zero-length long side — none
    of which happens for positive inputs (`rectangular_inside`). -/
theorem rectangular_raises_iff (Lx Ly bmin bmax : Rat) :
    (∃ e, rectangular id Lx Ly bmin bmax = .error e) ↔
      (bmin = 0 ∨ bmax = 0 ∨
        (pyRange (nLow id (long Lx Ly) bmax) (nHigh id (long Lx Ly) bmin + 1) ≠ [] ∧
          ((1 : Int) ∈ pyRange (nLow id (long Lx Ly) bmax) (nHigh id (long Lx Ly) bmin + 1) ∨ long Lx Ly = 0))) := by
  unfold rectangular
  simp only []
  by_cases h1 : bmin = 0 ∨ bmax = 0
  · rw [if_pos h1]
    constructor
    · intro _; rcases h1 with h | h
      · exact Or.inl h
      · exact Or.inr (Or.inl h)
    · intro _; exact ⟨_, rfl⟩
  · rw [if_neg h1]
    by_cases h2 : (pyRange (nLow id (long Lx Ly) bmax) (nHigh id (long Lx Ly) bmin + 1) ≠ [] ∧
          ((1 : Int) ∈ pyRange (nLow id (long Lx Ly) bmax) (nHigh id (long Lx Ly) bmin + 1) ∨ long Lx Ly = 0))
    · have h2' := h2
      change (pyRange (nLow id (if Lx ≥ Ly then Lx else Ly) bmax) (nHigh id (if Lx ≥ Ly then Lx else Ly) bmin + 1) ≠ [] ∧
          ((1 : Int) ∈ pyRange (nLow id (if Lx ≥ Ly then Lx else Ly) bmax) (nHigh id (if Lx ≥ Ly then Lx else Ly) bmin + 1) ∨
            (if Lx ≥ Ly then Lx else Ly) = 0)) at h2'
      rw [if_pos h2']
      exact ⟨fun _ => Or.inr (Or.inr h2), fun _ => ⟨_, rfl⟩⟩
    · have h2' := h2
      change ¬ (pyRange (nLow id (if Lx ≥ Ly then Lx else Ly) bmax) (nHigh id (if Lx ≥ Ly then Lx else Ly) bmin + 1) ≠ [] ∧
          ((1 : Int) ∈ pyRange (nLow id (if Lx ≥ Ly then Lx else Ly) bmax) (nHigh id (if Lx ≥ Ly then Lx else Ly) bmin + 1) ∨
            (if Lx ≥ Ly then Lx else Ly) = 0)) at h2'
      rw [if_neg h2']
      constructor
      · rintro ⟨e, he⟩; cases he
      · rintro (h | h | h)
        · exact absurd (Or.inl h) h1
        · exact absurd (Or.inr h) h1
        · exact absurd h h2

/-- `rectangular` and `bi_rectangle_nested` never raise on positive inputs — in particular on
    lots whose sides admit at least three rows at the maximum spacing. -/
theorem rectangular_never_raises (Lx Ly bmin bmax : Rat) (hb : 0 < bmin) (hbm : 0 < bmax) (hLx : 0 < Lx) (hLy : 0 < Ly) :
    ∃ fs, rectangular id Lx Ly bmin bmax = .ok fs :=
  ⟨_, rectangular_eq hb hbm hLx hLy⟩

theorem bi_rectangle_nested_never_raises (Lx Ly bmin bmaxx bmaxy : Rat) (hb : 0 < bmin) (hbx : 0 < bmaxx)
    (hby : 0 < bmaxy) (hLx : 0 < Lx) (hLy : 0 < Ly) :
    ∃ ls, biRectangleNested id Lx Ly bmin bmaxx bmaxy = .ok ls :=
  ⟨_, biRectangleNested_eq hb hbx hby hLx hLy⟩

/-- **Exactly which positive inputs make `bi_rectangle_zoned_nested` raise.**  With
    `len₁`, `len₂` the numbers of admissible counts `⌈L/b_max+1⌉ … ⌊L/b_min+1⌋` along the long and
    the short side:
    * `len₁ + len₂ ≤ 1`: no loop pass, the result is one empty candidate list;
    * otherwise, one range empty: `IndexError` (`n_1_values[j]`);
    * both non-empty, a side with fewer than three rows at the maximum spacing: `ValueError`
      (`zoned_rectangle`: too many interior boreholes);
    * both non-empty and at least three rows along both sides: it returns. -/
theorem zoned_outcomes (Lx Ly bmin bmaxx bmaxy : Rat) (hb : 0 < bmin) (hbx : 0 < bmaxx) (hby : 0 < bmaxy)
    (hLx : 0 < Lx) (hLy : 0 < Ly) :
    let b1 := if Lx ≥ Ly then bmaxx else bmaxy
    let b2 := if Lx ≥ Ly then bmaxy else bmaxx
    let len1 := (pyRange (nLow id (long Lx Ly) b1) (nHigh id (long Lx Ly) bmin + 1)).length
    let len2 := (pyRange (nLow id (short Lx Ly) b2) (nHigh id (short Lx Ly) bmin + 1)).length
    (len1 + len2 ≤ 1 → biRectangleZonedNested id Lx Ly bmin bmaxx bmaxy = .ok [[]]) ∧
    (2 ≤ len1 + len2 → (len1 = 0 ∨ len2 = 0) →
        biRectangleZonedNested id Lx Ly bmin bmaxx bmaxy = .error .indexError) ∧
    (1 ≤ len1 → 1 ≤ len2 → (nLow id (long Lx Ly) b1 < 3 ∨ nLow id (short Lx Ly) b2 < 3) →
        biRectangleZonedNested id Lx Ly bmin bmaxx bmaxy = .error .valueError) ∧
    (1 ≤ len1 → 1 ≤ len2 → 3 ≤ nLow id (long Lx Ly) b1 → 3 ≤ nLow id (short Lx Ly) b2 →
        ∃ ls, biRectangleZonedNested id Lx Ly bmin bmaxx bmaxy = .ok ls) := by
  intro b1 b2 len1 len2
  have hb1 : 0 < b1 := by show 0 < (if Lx ≥ Ly then bmaxx else bmaxy); split <;> assumption
  have hb2 : 0 < b2 := by show 0 < (if Lx ≥ Ly then bmaxy else bmaxx); split <;> assumption
  rw [biRectangleZonedNested_eq_core]
  exact zonedCore_cases (trOf Lx Ly) hb hb1 hb2 (short_pos hLx hLy) (short_le_long Lx Ly)

/-- The missing half of the bi-zoned theorems: under the property's precondition (both count
    ranges non-empty, `b_max < side` along both sides) the generator returns, and what it returns
    is on the land and `b_min`-separated. -/
theorem zoned_returns (Lx Ly bmin bmaxx bmaxy : Rat) (hb : 0 < bmin) (hbx : 0 < bmaxx) (hby : 0 < bmaxy)
    (hLx : 0 < Lx) (hLy : 0 < Ly)
    (h1 : nLow id (long Lx Ly) (if Lx ≥ Ly then bmaxx else bmaxy) ≤ nHigh id (long Lx Ly) bmin)
    (h2 : nLow id (short Lx Ly) (if Lx ≥ Ly then bmaxy else bmaxx) ≤ nHigh id (short Lx Ly) bmin)
    (h3 : (if Lx ≥ Ly then bmaxx else bmaxy) < long Lx Ly) (h4 : (if Lx ≥ Ly then bmaxy else bmaxx) < short Lx Ly) :
    ∃ ls, biRectangleZonedNested id Lx Ly bmin bmaxx bmaxy = .ok ls ∧
      ∀ l ∈ ls, ∀ f ∈ l, InLand Lx Ly f ∧ Spaced bmin f := by
  have hb1 : 0 < (if Lx ≥ Ly then bmaxx else bmaxy) := by split <;> assumption
  have hb2 : 0 < (if Lx ≥ Ly then bmaxy else bmaxx) := by split <;> assumption
  obtain ⟨_, _, _, hok⟩ := zoned_outcomes Lx Ly bmin bmaxx bmaxy hb hbx hby hLx hLy
  obtain ⟨ls, hls⟩ := hok (by rw [length_pyRange]; omega) (by rw [length_pyRange]; omega)
    ((three_rows_iff _ _ hb1).mpr h3) ((three_rows_iff _ _ hb2).mpr h4)
  refine ⟨ls, hls, fun l hl f hf => ?_⟩
  obtain ⟨a, b⟩ := biRectangleZonedNested_good hb hbx hby hLx hLy hls l hl f hf
  exact ⟨a, spaced_of_sep hb b⟩

/-! ### rounding-robust corollary for the binary64 instance -/

/-- The model's binary64 rounding has relative error at most `2⁻⁵³` per operation. -/
theorem fl64_relative_error (q : Rat) : |fl64 q - q| ≤ |q| / 9007199254740992 := fl64_relErr q

/-- `2⁻⁵¹`: bound on the accumulated relative error of a coordinate (three roundings). -/
def eps51 : Rat := 1 / 2251799813685248

theorem delta_fl64_le : delta (1 / 9007199254740992) ≤ eps51 := by
  unfold delta bump eps51; norm_num

/-- **The rectangle theorems for the binary64 instance itself.**  For positive inputs none of
    whose `floor`/`ceil` arguments is within `7·2⁻⁵³·(argument)` of an integer (the model's
    near-boundary flag, with a margin 10⁴ times smaller), `rectangular` computed in binary64
    (`R = fl64`) does not raise, returns the list shape of the exact instance, every coordinate
    within relative `2⁻⁵¹` of the exact one; every candidate lies in
    `[0, (1+2⁻⁵¹)·length] × [0, (1+2⁻⁵¹)·width]` and keeps its boreholes
    `b_min − 2⁻⁵⁰·max(length, width)` apart. -/
theorem rectangular_binary64_robust (Lx Ly bmin bmax : Rat) (hb : 0 < bmin) (hbm : 0 < bmax) (hLx : 0 < Lx) (hLy : 0 < Ly)
    (c1 : ∀ k : Int, 3 * (1 / 9007199254740992) * (long Lx Ly / bmax + 1) < |long Lx Ly / bmax + 1 - (k : Rat)|)
    (c2 : ∀ k : Int, 3 * (1 / 9007199254740992) * (long Lx Ly / bmin + 1) < |long Lx Ly / bmin + 1 - (k : Rat)|)
    (c3 : ∀ n ∈ pyRange (nLow id (long Lx Ly) bmax) (nHigh id (long Lx Ly) bmin + 1), ∀ k : Int,
        7 * (1 / 9007199254740992) * rectN2Arg id (long Lx Ly) (short Lx Ly) n
          < |rectN2Arg id (long Lx Ly) (short Lx Ly) n - (k : Rat)|) :
    ∃ fsR fs, rectangular fl64 Lx Ly bmin bmax = .ok fsR ∧ rectangular id Lx Ly bmin bmax = .ok fs ∧
      List.Forall₂ (List.Forall₂ (NearP eps51)) fsR fs ∧
      ∀ f ∈ fsR, InLand ((1 + eps51) * Lx) ((1 + eps51) * Ly) f ∧ Sep (bmin - 2 * eps51 * max Lx Ly) f := by
  obtain ⟨fsR, fs, e1, e2, hn, hg⟩ := rectangular_robust fl64_RelErr (by norm_num) (by norm_num) hb hbm hLx hLy c1 c2 c3
  have hd := delta_fl64_le
  have hmax : 0 ≤ max Lx Ly := le_trans (le_of_lt hLx) (le_max_left _ _)
  refine ⟨fsR, fs, e1, e2, ?_, ?_⟩
  · exact List.Forall₂.imp (fun _ _ h => List.Forall₂.imp (fun _ _ h' => ⟨h'.1.mono hd, h'.2.mono hd⟩) h) hn
  · intro f hf
    obtain ⟨a, b⟩ := hg f hf
    refine ⟨a.mono ?_ ?_, b.mono ?_⟩
    · nlinarith
    · nlinarith
    · nlinarith

/-! ### non-vacuity and regression witnesses -/

def sizes : Py (List Field) → List Nat
  | .ok l => l.map List.length
  | .error _ => []

def sizes2 : Py (List (List Field)) → List (List Nat)
  | .ok l => l.map (·.map List.length)
  | .error _ => []

/-- rectangular on a 40 × 85 lot (transposed branch): 18 candidates up to 9 × 18. -/
example : sizes (rectangular id 40 85 5 10) = [1, 2, 3, 4, 5, 6, 7, 8, 9, 10, 20, 30, 40, 50, 72, 98, 128, 162] := by
  decide +kernel

/-- near-square, length 17, b = 5: n = 4. -/
example : sizes (nearSquareDomain id 17 5) = [1, 2, 4, 6, 9, 12, 16, 20] := by decide +kernel

/-- nested, the F13 lot 40 × 30 with b_min 2.3: 11 lists, the last one ends with 18 × 14. -/
example : (sizes2 (biRectangleNested id 40 30 (23 / 10) 10 10)).map List.length =
    [21, 22, 23, 24, 25, 26, 27, 28, 29, 30, 31] := by decide +kernel

/-- F13 regression, binary64 instance: for `L₂ = 30`, `n₂ = 14` the quotient `30 / (30 / 13)`
    rounds to `13 + 1ulp`; without `round(·, 9)` the ceiling gives 15 rows (spacing 2.143 < 2.3),
    the repaired formula gives 14. -/
example : (fl64 (fl64 (30 / spacingOf fl64 30 14) + 1)).ceil = 15 ∧ biN2 fl64 30 (spacingOf fl64 30 14) = 14 := by
  decide +kernel

/-- F4 regression: the bi-zoned candidates of the 40 × 85 lot (length < width) exist (241 of
    them), every borehole has `x ≤ 40`, `y ≤ 85`, and `x = 40` is reached (before the repair
    candidate 11 reached x = 63.75). -/
example : (sizes2 (biRectangleZonedNested id 40 85 5 12 12)).map List.length = [241] := by decide +kernel

example : (biRectangleZonedNested id 40 85 5 12 12).toOption.map
      (fun l => l.flatten.flatten.all (fun p => decide (0 ≤ p.1 ∧ p.1 ≤ 40 ∧ 0 ≤ p.2 ∧ p.2 ≤ 85))
                && l.flatten.flatten.any (fun p => decide (p.1 = 40))) = some true := by
  decide +kernel


def errOf {α : Type} : Py α → Option PyErr
  | .ok _ => none
  | .error e => some e

/-- `zoned_outcomes`, the three raising/empty outcomes on concrete lots: 30 × 20 with
    `b_min = b_max_x = 4` (empty long-side range) raises IndexError; 23 × 9 with `b_max_y = 10.1`
    (two rows only) raises ValueError; 10 × 10 with `b_min = 6`, `b_max = 7` returns `[[]]`. -/
example : errOf (biRectangleZonedNested id 30 20 4 4 9) = some .indexError ∧
    errOf (biRectangleZonedNested id 23 9 (23 / 10) (28 / 10) (101 / 10)) = some .valueError ∧
    sizes2 (biRectangleZonedNested id 10 10 6 7 7) = [[]] ∧
    errOf (biRectangleZonedNested id 10 10 6 7 7) = none := by
  decide +kernel

/-- Non-vacuity of the hypotheses: the 40 × 85 lot with `b_min = 6`, `b_max = 10`
    (`85/10 + 1 = 9.5`, `85/6 + 1 = 15.17`, rows `40(n−1)/85 + 1` for `n = 10 … 15`). -/
example : ∃ fsR fs, rectangular fl64 40 85 6 10 = .ok fsR ∧ rectangular id 40 85 6 10 = .ok fs ∧
    List.Forall₂ (List.Forall₂ (NearP eps51)) fsR fs ∧
    ∀ f ∈ fsR, InLand ((1 + eps51) * 40) ((1 + eps51) * 85) f ∧ Sep (6 - 2 * eps51 * max 40 85) f := by
  have hl : long 40 85 = 85 := by unfold long; norm_num
  have hs : short 40 85 = 40 := by unfold short; norm_num
  have hr : pyRange (nLow id 85 10) (nHigh id 85 6 + 1) = [10, 11, 12, 13, 14, 15] := by decide +kernel
  apply rectangular_binary64_robust 40 85 6 10 (by norm_num) (by norm_num) (by norm_num) (by norm_num)
  · rw [hl]; exact clear_of_between (by norm_num) 9 (by norm_num) (by norm_num)
  · rw [hl]; exact clear_of_between (by norm_num) 15 (by norm_num) (by norm_num)
  · rw [hl, hs, hr]
    intro n hn
    simp only [List.mem_cons, List.not_mem_nil, or_false] at hn
    rcases hn with rfl | rfl | rfl | rfl | rfl | rfl <;> rw [rectN2Arg_eq]
    · exact clear_of_between (by norm_num) 5 (by norm_num) (by norm_num)
    · exact clear_of_between (by norm_num) 5 (by norm_num) (by norm_num)
    · exact clear_of_between (by norm_num) 6 (by norm_num) (by norm_num)
    · exact clear_of_between (by norm_num) 6 (by norm_num) (by norm_num)
    · exact clear_of_between (by norm_num) 7 (by norm_num) (by norm_num)
    · exact clear_of_between (by norm_num) 7 (by norm_num) (by norm_num)

end GHEVerif.C03
