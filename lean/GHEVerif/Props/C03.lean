/-
  C03 — Rectangular-family candidate fields stay on the land and respect spacing.
  Property theorems only; helper lemmas live in GHEVerif/Lemmas/Coords.lean and
  GHEVerif/Lemmas/Domains.lean.

  All theorems are about the exact-arithmetic instance (`R = id`) of the models in
  Model/Coords.lean and Model/Domains.lean — the same Lean code whose binary64 instance
  (`R = fl64`) the harness compares bit for bit with ghedesigner/coordinates.py, domains.py and
  `DesignNearSquare.__init__`.  Land: `[0, Lx] × [0, Ly]` with `Lx = length`, `Ly = width`;
  nothing is assumed about which is longer (the `length < width` branch transposes).

  `InLand Lx Ly f`  every borehole of `f` lies in `[0, Lx] × [0, Ly]`.
  `Sep d f`         boreholes at different list positions differ by at least `d` in one
                    coordinate; `Sep.spaced` turns it into: no coincident boreholes (`Nodup`) and
                    squared distance `≥ d²` for every pair.
-/
import GHEVerif.Lemmas.Domains

namespace GHEVerif.C03
open GHEVerif GHEVerif.Coords GHEVerif.Domains

/-- The conclusion "keeps every pair at least `d` apart, no coincident boreholes". -/
def Spaced (d : Rat) (f : Field) : Prop :=
  Sep d f ∧ f.Nodup ∧ f.Pairwise (fun p q => d ^ 2 ≤ (p.1 - q.1) ^ 2 + (p.2 - q.2) ^ 2)

theorem spaced_of_sep {d : Rat} {f : Field} (hd : 0 < d) (h : Sep d f) : Spaced d f :=
  ⟨h, (h.spaced hd).1, (h.spaced hd).2⟩

/-! ### the grid -/

/-- The points of `rectangle(nx, ny, sx, sy)` are exactly `(i·sx, j·sy)`, `i < nx`, `j < ny`
    (negative counts give no points, as `range` does). -/
theorem rectangle_points (nx ny : Int) (sx sy : Rat) (p : Point) :
    p ∈ rectangle id nx ny sx sy ↔ ∃ i < nx.toNat, ∃ j < ny.toNat, p = ((i : Rat) * sx, (j : Rat) * sy) :=
  mem_rectangle

/-! ### `rectangular` (DesignRectangle) -/

/-- 1a. Every candidate of `rectangular` lies on the land — `length ≥ width` and
    `length < width` alike — and the generator does not raise for positive inputs. -/
theorem rectangular_inside (Lx Ly bmin bmax : Rat) (hb : 0 < bmin) (hbm : 0 < bmax) (hLx : 0 < Lx) (hLy : 0 < Ly) :
    ∃ fs, rectangular id Lx Ly bmin bmax = .ok fs ∧ ∀ f ∈ fs, InLand Lx Ly f := by
  obtain ⟨fs, h, hg⟩ := rectangular_good hb hbm hLx hLy
  exact ⟨fs, h, fun f hf => (hg f hf).1⟩

/-- 2a. Every candidate of `rectangular` keeps its boreholes at least `b_min` apart and has no
    coincident boreholes. -/
theorem rectangular_spacing (Lx Ly bmin bmax : Rat) (hb : 0 < bmin) (hbm : 0 < bmax) (hLx : 0 < Lx) (hLy : 0 < Ly) :
    ∃ fs, rectangular id Lx Ly bmin bmax = .ok fs ∧ ∀ f ∈ fs, Spaced bmin f := by
  obtain ⟨fs, h, hg⟩ := rectangular_good hb hbm hLx hLy
  exact ⟨fs, h, fun f hf => spaced_of_sep hb (hg f hf).2⟩

/-- 4a. The list bisected by the rectangle search is ordered by non-decreasing borehole count. -/
theorem rectangular_counts_sorted (Lx Ly bmin bmax : Rat) (hb : 0 < bmin) (hbm : 0 < bmax) (hLx : 0 < Lx) (hLy : 0 < Ly) :
    ∃ fs, rectangular id Lx Ly bmin bmax = .ok fs ∧ (fs.map List.length).Pairwise (· ≤ ·) :=
  rectangular_sorted' hb hbm hLx hLy

/-! ### `bi_rectangle_nested` (DesignBiRectangle; reused by the polygon-constrained design) -/

/-- 6. `bi_rectangular` re-derives the row count from the spacing `L₂ / (n₂ - 1)` it is handed
    and gets `n₂` back (exact instance; the binary64 regression is the `example` below). -/
theorem bi_rectangular_rows (L2 : Rat) (hL2 : 0 < L2) (n2 : Int) (hn2 : 2 ≤ n2) :
    biN2 id L2 (spacingOf id L2 n2) = n2 :=
  biN2_spacingOf hL2 hn2

/-- The nested generator does not raise for positive inputs and returns, for every admissible
    second count `n₂`, the list `biList … n₂` (`_iter == 0` block, then `n₁ × n₂` grids). -/
theorem bi_rectangle_nested_lists (Lx Ly bmin bmaxx bmaxy : Rat) (hb : 0 < bmin) (hbx : 0 < bmaxx) (hby : 0 < bmaxy)
    (hLx : 0 < Lx) (hLy : 0 < Ly) :
    biRectangleNested id Lx Ly bmin bmaxx bmaxy =
      .ok ((pyRange (nLow id (short Lx Ly) (if Lx ≥ Ly then bmaxy else bmaxx)) (nHigh id (short Lx Ly) bmin + 1)).map
            (biList (long Lx Ly) (short Lx Ly) bmin (if Lx ≥ Ly then bmaxx else bmaxy) (trOf Lx Ly))) :=
  biRectangleNested_eq hb hbx hby hLx hLy

theorem bi_rectangle_nested_good (Lx Ly bmin bmaxx bmaxy : Rat) (hb : 0 < bmin) (hbx : 0 < bmaxx) (hby : 0 < bmaxy)
    (hLx : 0 < Lx) (hLy : 0 < Ly) :
    ∃ ls, biRectangleNested id Lx Ly bmin bmaxx bmaxy = .ok ls ∧
      ∀ l ∈ ls, ∀ f ∈ l, InLand Lx Ly f ∧ Sep bmin f := by
  have hb1 : 0 < (if Lx ≥ Ly then bmaxx else bmaxy) := by split <;> assumption
  have hb2 : 0 < (if Lx ≥ Ly then bmaxy else bmaxx) := by split <;> assumption
  have t2 := two_le_nLow (short_pos hLx hLy) hb2
  refine ⟨_, biRectangleNested_eq hb hbx hby hLx hLy, ?_⟩
  intro l hl f hf
  rw [List.mem_map] at hl
  obtain ⟨n2, hn2, rfl⟩ := hl
  rw [mem_pyRange] at hn2
  exact Good.final' (biList_good hb hb1 (short_pos hLx hLy) (short_le_long Lx Ly) (by omega)
    (le_nHigh hb (by omega)) f hf)

/-- 1b. Every candidate of every list of `bi_rectangle_nested` lies on the land, for
    `length ≥ width` and for `length < width`. -/
theorem bi_rectangle_nested_inside (Lx Ly bmin bmaxx bmaxy : Rat) (hb : 0 < bmin) (hbx : 0 < bmaxx) (hby : 0 < bmaxy)
    (hLx : 0 < Lx) (hLy : 0 < Ly) :
    ∃ ls, biRectangleNested id Lx Ly bmin bmaxx bmaxy = .ok ls ∧ ∀ l ∈ ls, ∀ f ∈ l, InLand Lx Ly f := by
  obtain ⟨ls, h, hg⟩ := bi_rectangle_nested_good Lx Ly bmin bmaxx bmaxy hb hbx hby hLx hLy
  exact ⟨ls, h, fun l hl f hf => (hg l hl f hf).1⟩

/-- 2b. … and keeps its boreholes at least `b_min` apart, without coincident boreholes
    (false before commit d554a10 in binary64: finding F13). -/
theorem bi_rectangle_nested_spacing (Lx Ly bmin bmaxx bmaxy : Rat) (hb : 0 < bmin) (hbx : 0 < bmaxx) (hby : 0 < bmaxy)
    (hLx : 0 < Lx) (hLy : 0 < Ly) :
    ∃ ls, biRectangleNested id Lx Ly bmin bmaxx bmaxy = .ok ls ∧ ∀ l ∈ ls, ∀ f ∈ l, Spaced bmin f := by
  obtain ⟨ls, h, hg⟩ := bi_rectangle_nested_good Lx Ly bmin bmaxx bmaxy hb hbx hby hLx hLy
  exact ⟨ls, h, fun l hl f hf => spaced_of_sep hb (hg l hl f hf).2⟩

/-- 4b. Each list of `bi_rectangle_nested` (the inner bisection of the bi-rectangle search) is
    ordered by non-decreasing borehole count. -/
theorem bi_rectangle_nested_counts_sorted (Lx Ly bmin bmaxx bmaxy : Rat) (hb : 0 < bmin) (hbx : 0 < bmaxx)
    (hby : 0 < bmaxy) (hLx : 0 < Lx) (hLy : 0 < Ly) :
    ∃ ls, biRectangleNested id Lx Ly bmin bmaxx bmaxy = .ok ls ∧
      ∀ l ∈ ls, (l.map List.length).Pairwise (· ≤ ·) := by
  have hb1 : 0 < (if Lx ≥ Ly then bmaxx else bmaxy) := by split <;> assumption
  have hb2 : 0 < (if Lx ≥ Ly then bmaxy else bmaxx) := by split <;> assumption
  have t1 := two_le_nLow (long_pos hLx hLy) hb1
  have t2 := two_le_nLow (short_pos hLx hLy) hb2
  refine ⟨_, biRectangleNested_eq hb hbx hby hLx hLy, ?_⟩
  intro l hl
  rw [List.mem_map] at hl
  obtain ⟨n2, hn2, rfl⟩ := hl
  rw [mem_pyRange] at hn2
  exact biList_sorted _ _ _ _ _ _ (by omega) (by omega)

/-- 4b'. The outer list of the bi-rectangle search (`Bisection2D`: the first candidate of the
    first list, then the last candidate of every list) — whenever the first-direction count range
    is non-empty every list starts with a single borehole and the last candidates have
    non-decreasing counts. -/
theorem bi_rectangle_outer_counts_sorted (Lx Ly bmin bmaxx bmaxy : Rat) (hb : 0 < bmin) (hbx : 0 < bmaxx)
    (hby : 0 < bmaxy) (hLx : 0 < Lx) (hLy : 0 < Ly)
    (hne : nLow id (long Lx Ly) (if Lx ≥ Ly then bmaxx else bmaxy) < nHigh id (long Lx Ly) bmin + 1) :
    ∃ ls, biRectangleNested id Lx Ly bmin bmaxx bmaxy = .ok ls ∧
      (∀ l ∈ ls, (l.head?).map List.length = some 1) ∧
      (ls.map (fun l => ((l.getLast?).map List.length).getD 0)).Pairwise (· ≤ ·) := by
  have hb1 : 0 < (if Lx ≥ Ly then bmaxx else bmaxy) := by split <;> assumption
  have hb2 : 0 < (if Lx ≥ Ly then bmaxy else bmaxx) := by split <;> assumption
  have t1 := two_le_nLow (long_pos hLx hLy) hb1
  have t2 := two_le_nLow (short_pos hLx hLy) hb2
  refine ⟨_, biRectangleNested_eq hb hbx hby hLx hLy, ?_, outer_sorted _ _ (by omega) hne⟩
  intro l hl
  rw [List.mem_map] at hl
  obtain ⟨n2, _, rfl⟩ := hl
  exact biList_head n2 t1 hne

/-! ### near-square (DesignNearSquare) -/

/-- 3. With `n = ⌊length / b⌋ + 1`: the candidate list is `k × k`, `k × (k+1)` for `k = 1 … n`
    (candidates `2(k-1)` and `2(k-1)+1`, 0-based), each an exact grid of spacing `b`
    (`rectangle_points`), `(n - 1)·b ≤ length`, and `n` is the largest such count. -/
theorem near_square_shape (length b : Rat) (hb : 0 < b) (hl : 0 ≤ length) :
    ∃ fs, nearSquareDomain id length b = .ok fs ∧
      fs.length = 2 * (nearSquareN id length b).toNat ∧
      (∀ k < (nearSquareN id length b).toNat,
        fs[2 * k]? = some (rectangle id ((k : Int) + 1) ((k : Int) + 1) b b) ∧
        fs[2 * k + 1]? = some (rectangle id ((k : Int) + 1) ((k : Int) + 1 + 1) b b)) ∧
      ((nearSquareN id length b : Rat) - 1) * b ≤ length ∧ length < (nearSquareN id length b : Rat) * b := by
  obtain ⟨h1, h2, h3⟩ := nearSquareN_spec hb hl
  refine ⟨nsList (nearSquareN id length b).toNat b, ?_, nsList_length _ _, fun k hk => nsList_get _ _ k hk, h2, h3⟩
  unfold nearSquareDomain
  rw [if_neg (ne_of_gt hb)]
  exact squareAndNearSquare_eq h1 b

/-- 2c. Near-square candidates keep their boreholes `b` apart, no coincident boreholes. -/
theorem near_square_spacing (length b : Rat) (hb : 0 < b) (hl : 0 ≤ length) :
    ∃ fs, nearSquareDomain id length b = .ok fs ∧ ∀ f ∈ fs, Spaced b f := by
  obtain ⟨h1, _, _⟩ := nearSquareN_spec hb hl
  refine ⟨nsList (nearSquareN id length b).toNat b, ?_, ?_⟩
  · unfold nearSquareDomain
    rw [if_neg (ne_of_gt hb)]
    exact squareAndNearSquare_eq h1 b
  · intro f hf
    simp only [nsList, List.mem_flatMap, List.mem_range, List.mem_cons, List.not_mem_nil, or_false] at hf
    obtain ⟨k, _, rfl | rfl⟩ := hf <;>
      exact spaced_of_sep hb (sep_rectangle (le_of_lt hb) (le_refl _) (le_refl _))

/-- 4c. The near-square list is ordered by non-decreasing borehole count. -/
theorem near_square_counts_sorted (length b : Rat) (hb : 0 < b) (hl : 0 ≤ length) :
    ∃ fs, nearSquareDomain id length b = .ok fs ∧ (fs.map List.length).Pairwise (· ≤ ·) := by
  obtain ⟨h1, _, _⟩ := nearSquareN_spec hb hl
  refine ⟨nsList (nearSquareN id length b).toNat b, ?_, nsList_sorted _ _⟩
  unfold nearSquareDomain
  rw [if_neg (ne_of_gt hb)]
  exact squareAndNearSquare_eq h1 b

/-! ### bi-zoned (DesignBiZoned) -/

/-- A single zoned rectangle (perimeter + interior grid) with at least one interior row and
    column: on the land spanned by its perimeter and `min(sx, sy)`-separated. -/
theorem zoned_rectangle_inside_spacing (nx ny nix nit : Int) (sx sy d : Rat) (z : Field)
    (hd : 0 < d) (hx : d ≤ sx) (hy : d ≤ sy) (h1 : 1 ≤ nix) (h2 : 1 ≤ nit)
    (h : zonedRectangle id nx ny sx sy nix nit = .ok z) :
    InLand (((nx : Rat) - 1) * sx) (((ny : Rat) - 1) * sy) z ∧ Spaced d z := by
  obtain ⟨a, b⟩ := zonedRectangle_good hd hx hy h1 h2 (le_refl _) (le_refl _) h
  exact ⟨a, spaced_of_sep hd b⟩

/-- 5a. Every candidate `bi_rectangle_zoned_nested` returns lies on the land, for
    `length ≥ width` **and** `length < width` (false before commit 8482f3d: finding F4).
    (The generator raises IndexError / ValueError for empty count ranges or fewer than three
    rows; then there is no candidate.) -/
theorem zoned_inside (Lx Ly bmin bmaxx bmaxy : Rat) (hb : 0 < bmin) (hbx : 0 < bmaxx) (hby : 0 < bmaxy)
    (hLx : 0 < Lx) (hLy : 0 < Ly) (ls : List (List Field))
    (h : biRectangleZonedNested id Lx Ly bmin bmaxx bmaxy = .ok ls) :
    ∀ l ∈ ls, ∀ f ∈ l, InLand Lx Ly f :=
  fun l hl f hf => (biRectangleZonedNested_good hb hbx hby hLx hLy h l hl f hf).1

/-- 5b. … and keeps its boreholes at least `b_min` apart, without coincident boreholes. -/
theorem zoned_spacing (Lx Ly bmin bmaxx bmaxy : Rat) (hb : 0 < bmin) (hbx : 0 < bmaxx) (hby : 0 < bmaxy)
    (hLx : 0 < Lx) (hLy : 0 < Ly) (ls : List (List Field))
    (h : biRectangleZonedNested id Lx Ly bmin bmaxx bmaxy = .ok ls) :
    ∀ l ∈ ls, ∀ f ∈ l, Spaced bmin f :=
  fun l hl f hf => spaced_of_sep hb (biRectangleZonedNested_good hb hbx hby hLx hLy h l hl f hf).2

/-! ### non-vacuity and regression witnesses -/

def sizes : Py (List Field) → List Nat
  | .ok l => l.map List.length
  | .error _ => []

def sizes2 : Py (List (List Field)) → List (List Nat)
  | .ok l => l.map (·.map List.length)
  | .error _ => []

/-- rectangular on a 40 × 85 lot (transposed branch): 18 candidates up to 9 × 18. -/
example : sizes (rectangular id 40 85 5 10) = [1, 2, 3, 4, 5, 6, 7, 8, 9, 10, 20, 30, 40, 50, 72, 98, 128, 162] := by
  decide +kernel

/-- near-square, length 17, b = 5: n = 4. -/
example : sizes (nearSquareDomain id 17 5) = [1, 2, 4, 6, 9, 12, 16, 20] := by decide +kernel

/-- nested, the F13 lot 40 × 30 with b_min 2.3: 11 lists, the last one ends with 18 × 14. -/
example : (sizes2 (biRectangleNested id 40 30 (23 / 10) 10 10)).map List.length =
    [21, 22, 23, 24, 25, 26, 27, 28, 29, 30, 31] := by decide +kernel

/-- F13 regression, binary64 instance: for `L₂ = 30`, `n₂ = 14` the quotient `30 / (30 / 13)`
    rounds to `13 + 1ulp`; without `round(·, 9)` the ceiling gives 15 rows (spacing 2.143 < 2.3),
    the repaired formula gives 14. -/
example : (fl64 (fl64 (30 / spacingOf fl64 30 14) + 1)).ceil = 15 ∧ biN2 fl64 30 (spacingOf fl64 30 14) = 14 := by
  decide +kernel

/-- F4 regression: the bi-zoned candidates of the 40 × 85 lot (length < width) exist (241 of
    them), every borehole has `x ≤ 40`, `y ≤ 85`, and `x = 40` is reached (before the repair
    candidate 11 reached x = 63.75). -/
example : (sizes2 (biRectangleZonedNested id 40 85 5 12 12)).map List.length = [241] := by decide +kernel

example : (biRectangleZonedNested id 40 85 5 12 12).toOption.map
      (fun l => l.flatten.flatten.all (fun p => decide (0 ≤ p.1 ∧ p.1 ≤ 40 ∧ 0 ≤ p.2 ∧ p.2 ≤ 85))
                && l.flatten.flatten.any (fun p => decide (p.1 = 40))) = some true := by
  decide +kernel

end GHEVerif.C03
